/-!
# C08 — lifecycle of a connection: loss / close / abort release every waiter, leave no task

Reactive model (a labelled transition system observed *at quiescence*, integer virtual time) of

* `rawsocket.py` / `unixsocket.py`: `connection_made`, `connection_lost`, `process_messages`
  (`finally: _closed_event.set()`; abort of the asyncio transport when message processing ends
  for another reason than the loss - repair F25), `close(force_after)` (forced abort after
  `force_after`, and - repair F25 - when the caller is cancelled while it waits), `abort`,
  `is_closing`;
* `session.py`: `SessionBase._process_messages` (hook in `finally`), `process_messages`
  (`async with self._group`: the TaskGroup exit cancels and awaits every handler; a handler task
  that ended with a cancellation makes `task.result()` raise, which tears the group down as
  well), `close`, `abort`, `RPCSession.connection_lost` ->
  `JSONRPCConnection.cancel_pending_requests`, `send_request`
  (`timeout_after(sent_request_timeout)` around the future), `_throttled_request` /
  `_throttled_message` (`timeout_after(processing_timeout)` around the handler);
* `curio.py`: TaskGroup exit (C09), `timeout_after` (C11) as used above.

One environment event = one thing the application / peer / network / clock does, followed by
running everything runnable (the model's step function mirrors the code's order of effects).

Teardown - when the asyncio transport delivers `connection_lost` (which it does exactly once:
after `close()` unless the send buffer never drains - `stalled` -, after `abort()`, or when the
link drops), or when a handler task ends with a cancellation the session did not ask for:

    the message loop ends  ->  `finally:` hook (RPCSession: every pending request future is
    cancelled)  ->  the TaskGroup exit cancels every handler (a prompt one ends at once, a
    stubborn one after `react` more seconds or when its processing timeout cuts that short, one
    blocked in `close()` is cancelled there)  ->  when the last handler is done `_closed_event`
    is set (and the asyncio transport aborted if the connection is not lost yet)  ->  every
    task waiting in `close()` returns.

The model mirrors the code *with repair F25 applied* (`fixed = true`); the places where
the pinned code differs are switched by the field `fixed` (`closerDeadline`, `S.cancelClose`,
`S.settle`, `S.crash`), so that the pinned behaviour stays available for the witnesses.

No Mathlib imports (the driver links this file).
-/
namespace Aiorpcx.C08

inductive HKind where
  /-- returns at once (never seen running at quiescence) -/
  | quick
  /-- runs until the application lets it finish (`handlerFinish`), the future it awaits is
      cancelled (`handlerCancel`), its processing timeout fires, or it is cancelled -/
  | slow
  /-- like `slow`, but when cancelled it works `react` more seconds before giving in -/
  | stubborn (react : Nat)
  /-- calls `session.close(force_after)` from inside the handler; `deadline` = the instant its
      wait for `_closed_event` is cut short: by `timeout_after(force_after)` or by the handler's
      processing timeout, whichever comes first; either way `abort()` follows (repair F25; in
      the pinned code only in the first case) -/
  | closer (deadline : Nat)
  /-- calls `session.abort()` and returns -/
  | aborter
  /-- waits like `slow`; when the application lets it go on (`handlerFinish`) it calls
      `session.close(force_after)` - some time into its processing window -/
  | thenClose (forceAfter : Nat)
  deriving Repr, DecidableEq

inductive HStatus where
  | run
  /-- the processing timeout has fired, the (stubborn) handler works on until `until_` and then
      ends through the TaskTimeout path -/
  | overrun (until_ : Nat)
  /-- cancelled by the TaskGroup exit, the (stubborn) handler works on until `until_` -/
  | reacting (until_ : Nat)
  | done
  deriving Repr, DecidableEq

structure Handler where
  id : Nat
  kind : HKind
  status : HStatus
  /-- the instant `timeout_after(processing_timeout)` around the handler fires -/
  pdl : Nat
  deriving Repr, DecidableEq

inductive TStatus where
  /-- the caller waits for a slot of the outgoing-concurrency limiter (its future is
      registered, the request is not sent yet, no timeout runs) -/
  | queued
  | pending
  | answered
  | cancelled
  | timedOut (at_ : Nat)
  deriving Repr, DecidableEq

/-- an outgoing request: the caller awaits the future under
`timeout_after(sent_request_timeout)` -/
structure Ticket where
  id : Nat
  status : TStatus
  deadline : Nat
  /-- registered after the connection_lost hook had already run -/
  afterLoss : Bool
  deriving Repr, DecidableEq

inductive CStatus where
  | waiting
  /-- `force_after` passed: `abort()` was called, now waiting for `_closed_event` without limit -/
  | abortedWaiting
  | returned (at_ : Nat)
  /-- the application cancelled the task while it was inside `close()` -/
  | cancelled (at_ : Nat)
  deriving Repr, DecidableEq

/-- an application task inside `close(force_after)` -/
structure Closer where
  id : Nat
  /-- the instant `close()` was called -/
  start : Nat
  deadline : Nat
  st : CStatus
  deriving Repr, DecidableEq

/-- what made the asyncio transport deliver `connection_lost` (ghost) -/
inductive Cause where
  /-- the link broke / the peer closed -/
  | link
  /-- a graceful `close()` of the asyncio transport completed -/
  | graceful
  /-- `abort()` on the asyncio transport -/
  | abort
  deriving Repr, DecidableEq

structure S where
  /-- `RPCSession.sent_request_timeout` -/
  reqTimeout : Nat := 30
  /-- `SessionBase.processing_timeout` -/
  procTimeout : Nat := 30
  /-- the outgoing-concurrency limit (constant here: the recalibration of C20 is switched off
      in the runs compared with this model) -/
  outLimit : Nat := 50
  /-- a graceful `close()` of the asyncio transport never completes (the peer does not read):
      `connection_lost` comes only with `abort()` or when the link drops -/
  stalled : Bool := false
  /-- the code with repair F25 (`true`) or as pinned (`false`) -/
  fixed : Bool := true
  now : Nat := 0
  /-- the asyncio transport's `is_closing()` -/
  closing : Bool := false
  /-- `connection_lost` has been delivered to the protocol -/
  lost : Bool := false
  /-- message processing has been torn down: the `_process_messages` task has ended and the
      connection_lost hook has run -/
  down : Bool := false
  /-- how often the session's `connection_lost` hook has run -/
  hookRuns : Nat := 0
  handlers : List Handler := []
  tickets : List Ticket := []
  closers : List Closer := []
  /-- `_closed_event.is_set()` -/
  closedEvent : Bool := false
  /-- ghost: the instant `_closed_event` was set -/
  closedAt : Option Nat := none
  /-- the instant of the first `abort()` on the asyncio transport that came before
      `connection_lost` was delivered (later ones do nothing) -/
  abortedAt : Option Nat := none
  /-- ghost: the instant `connection_lost` was delivered, and why -/
  lostAt : Option Nat := none
  lostBy : Option Cause := none
  deriving Repr, DecidableEq

/-- `RSTransport.is_closing()` -/
def S.isClosing (s : S) : Bool := s.closedEvent || s.closing

/-- the `_process_messages` task is running -/
def S.loopAlive (s : S) : Bool := !s.down

inductive Event where
  /-- the peer's request `i` arrives; its handler is of kind `k` (`arg` = react / force_after) -/
  | request (i : Nat) (k : HKind)
  /-- request `i` whose handler replies and disconnects: `close(force_after)` after the
      processing timeout's scope -/
  | replyClose (i : Nat) (forceAfter : Nat)
  | handlerFinish (i : Nat)
  /-- the application cancels the future a `slow` handler is awaiting: the handler's task ends
      with CancelledError -/
  | handlerCancel (i : Nat)
  /-- an application task calls `send_request` -/
  | outgoing (k : Nat)
  /-- the peer answers outgoing request `k` -/
  | answer (k : Nat)
  /-- link lost / peer closed -/
  | drop
  /-- an application task calls `close(force_after)` -/
  | appClose (c : Nat) (forceAfter : Nat)
  /-- the application cancels task `c` while it is inside `close()` -/
  | cancelClose (c : Nat)
  | abort
  | advance (dt : Nat)
  deriving Repr, DecidableEq

/-! ## pieces of the teardown -/

def Handler.isDone (h : Handler) : Bool := h.status == HStatus.done

/-- blocked inside `close(force_after)` -/
def Handler.inClose (h : Handler) : Bool :=
  h.status == HStatus.run && (match h.kind with | .closer _ => true | _ => false)

/-- `task.cancel()` reaches a handler (TaskGroup exit) at time `now`: a stubborn one works on
for `react` seconds, but not beyond its processing deadline (that second cancellation ends it);
one that was already overrunning its processing timeout ends at once -/
def cancelHandler (now : Nat) (h : Handler) : Handler :=
  match h.status with
  | .run =>
    match h.kind with
    | .stubborn (r + 1) => { h with status := .reacting (min (now + (r + 1)) h.pdl) }
    | _ => { h with status := .done }
  | .overrun _ => { h with status := .done }
  | _ => h

/-- `cancel_pending_requests`: `future.cancel()` for every future not yet done -/
def cancelTicket (t : Ticket) : Ticket :=
  match t.status with
  | .pending => { t with status := .cancelled }
  | .queued => { t with status := .cancelled }
  | _ => t

/-- how many requests hold a slot of the outgoing limiter -/
def inflight (ts : List Ticket) : Nat := (ts.filter fun t => t.status == TStatus.pending).length

/-- `free` slots of the outgoing limiter go to the callers queued first: each sends its request
and starts its `timeout_after(sent_request_timeout)` now -/
def promoteList (now rt : Nat) : Nat → List Ticket → List Ticket
  | _, [] => []
  | 0, ts => ts
  | free + 1, t :: ts =>
    match t.status with
    | .queued => { t with status := .pending, deadline := now + rt } :: promoteList now rt free ts
    | _ => t :: promoteList now rt (free + 1) ts

/-- the limiter hands out its free slots -/
def S.promote (s : S) : S :=
  { s with tickets := promoteList s.now s.reqTimeout (s.outLimit - inflight s.tickets) s.tickets }

def returnCloser (now : Nat) (c : Closer) : Closer :=
  match c.st with
  | .waiting => { c with st := .returned now }
  | .abortedWaiting => { c with st := .returned now }
  | _ => c

/-- the message loop ends, the hook runs, every handler is cancelled -/
def S.teardown (s : S) : S :=
  { s with down := true, hookRuns := s.hookRuns + 1,
           tickets := s.tickets.map cancelTicket,
           handlers := s.handlers.map (cancelHandler s.now) }

/-- once message processing is torn down and the last handler is done the TaskGroup exit
completes, `process_messages` runs its `finally: self._closed_event.set()` and every `close()`
returns; if that happens although the connection is not lost (a handler task was cancelled from
outside), the asyncio transport is aborted (repair F25) -/
def S.settle (s : S) : S :=
  if s.down && !s.closedEvent && s.handlers.all Handler.isDone then
    let s1 : S := { s with closedEvent := true, closedAt := some s.now,
                           closers := s.closers.map (returnCloser s.now) }
    if s.fixed && !s.lost then
      { s1 with abortedAt := some s.now, closing := true, lost := true,
                lostAt := some s.now, lostBy := some .abort }
    else s1
  else s

/-- the asyncio transport delivers `connection_lost` - exactly once -/
def S.lose (s : S) (why : Cause) : S :=
  if s.lost then s
  else
    let s1 : S := { s with lost := true, lostAt := some s.now, lostBy := some why }
    (if s.down then s1 else s1.teardown).settle

/-- `transport.abort()`: only the first one before `connection_lost` has an effect -/
def S.doAbort (s : S) : S :=
  if s.lost then s
  else S.lose { s with abortedAt := some s.now, closing := true } .abort

/-- `self._asyncio_transport.close()` -/
def S.transportClose (s : S) : S :=
  if s.closing then s
  else if s.stalled then { s with closing := true }
  else S.lose { s with closing := true } .graceful

def usedHandler (s : S) (i : Nat) : Bool := s.handlers.any (·.id == i)
def usedTicket (s : S) (k : Nat) : Bool := s.tickets.any (·.id == k)
def usedCloser (s : S) (c : Nat) : Bool := s.closers.any (·.id == c)

/-! ## timers (asyncio runs every timer that is due) -/

/-- `timeout_after(sent_request_timeout)` fires: the caller gets TaskTimeout -/
def expireTicket (now : Nat) (t : Ticket) : Ticket :=
  match t.status with
  | .pending => if t.deadline ≤ now then { t with status := .timedOut now } else t
  | _ => t

def closerDue (now : Nat) (c : Closer) : Bool :=
  c.st == CStatus.waiting && c.deadline ≤ now

/-- `except TaskTimeout: await self.abort(); await self._closed_event.wait()` -/
def abortCloser (now : Nat) (c : Closer) : Closer :=
  if closerDue now c then { c with st := .abortedWaiting } else c

/-- a handler blocked in `close(force_after)` whose wait is cut short now (it aborts; the
teardown that follows ends it) -/
def handlerDue (now : Nat) (h : Handler) : Bool :=
  h.status == HStatus.run && (match h.kind with | .closer d => d ≤ now | _ => false)

/-- what the timers of one handler do at `now`: the processing timeout ends a waiting handler
(a stubborn one works on for `react` seconds); a reaction ends; a handler blocked in `close()`
past its deadline is through (see `handlerDue`) -/
def fireHandler (now : Nat) (h : Handler) : Handler :=
  match h.status with
  | .run =>
    match h.kind with
    -- (`h.pdl ≤ now` alone: pinned code only, where the processing timeout ends the handler
    -- without an abort; with the repair `d ≤ h.pdl`)
    | .closer d => if d ≤ now || h.pdl ≤ now then { h with status := .done } else h
    | .stubborn (r + 1) => if h.pdl ≤ now then { h with status := .overrun (now + (r + 1)) } else h
    | _ => if h.pdl ≤ now then { h with status := .done } else h
  | .overrun u => if u ≤ now then { h with status := .done } else h
  | .reacting u => if u ≤ now then { h with status := .done } else h
  | .done => h

/-- does some task sit in `close()` with its wait cut short now? -/
def S.anyDue (s : S) : Bool :=
  s.closers.any (closerDue s.now) || s.handlers.any (handlerDue s.now)

/-- one second passes and the timers due at the new instant fire: request timeouts, processing
timeouts, reaction ends, the `force_after` timers (each such task calls `abort()`; the asyncio
transport delivers `connection_lost` a loop iteration later, after everything else due now);
then the TaskGroup exit may complete -/
def S.tick (s : S) : S :=
  let s1 : S := { s with now := s.now + 1 }
  let s2 : S := S.promote
    { s1 with tickets := s1.tickets.map (expireTicket s1.now),
              handlers := s1.handlers.map (fireHandler s1.now),
              closers := s1.closers.map (abortCloser s1.now) }
  if s1.anyDue then s2.doAbort.settle else s2.settle

def S.advance (s : S) : Nat → S
  | 0 => s
  | n + 1 => S.advance s.tick n

/-! ## the step function -/

/-- the handler kinds that return when the application releases them -/
def HKind.finishable : HKind → Bool
  | .slow => true
  | .stubborn _ => true
  | _ => false

def finishHandler (i : Nat) (h : Handler) : Handler :=
  if h.id == i && h.status == HStatus.run && h.kind.finishable
  then { h with status := .done } else h

/-- the `force_after` with which handler `h` calls `close()` if it is the waiting handler `i`
that is now let go on -/
def resuming (i : Nat) (h : Handler) : Option Nat :=
  if h.id == i && h.status == HStatus.run then
    match h.kind with
    | .thenClose fa => some fa
    | _ => none
  else none

/-- ... it is inside `close(force_after)` from now on, until `force_after` or - repaired code -
its processing deadline (with `force_after = 0` it is through at once, see `S.startCloser`) -/
def toCloser (fixed : Bool) (now i : Nat) (h : Handler) : Handler :=
  if h.id == i && h.status == HStatus.run then
    match h.kind with
    | .thenClose fa =>
      { h with kind := .closer (if fixed then min (now + fa) h.pdl else now + fa),
               status := if fa == 0 then .done else .run }
    | _ => h
  else h

def crashHandler (i : Nat) (h : Handler) : Handler :=
  if h.id == i && h.status == HStatus.run && h.kind == HKind.slow
  then { h with status := .done } else h

def answerTicket (k : Nat) (t : Ticket) : Ticket :=
  if t.id == k && t.status == TStatus.pending then { t with status := .answered } else t

/-- the instant at which a handler's wait inside `close(force_after)` is cut short *with an
abort*: by its `force_after` timer or - repaired code only - by the handler's processing
timeout.  In the pinned code the processing timeout ends the handler *without* an abort (the
TimeoutCancellationError passes `except TaskTimeout`): see `fireHandler`. -/
def closerDeadline (fixed : Bool) (now fa pt : Nat) : Nat :=
  if fixed then min (now + fa) (now + pt) else now + fa

/-- a handler that calls `close()`: it is blocked there until `d`; `immediate`: force_after = 0
(timeout_after(0): the timer is due at once, so `abort()` follows the `close()` in the same
instant - after the `connection_lost` of a graceful close that completes, which then makes it
void) -/
def S.startCloser (s : S) (i d pdl : Nat) (immediate : Bool) : S :=
  if immediate then
    -- (the handler is through in this very instant: the abort, or the loss a completed
    -- graceful close brought just before it, tears everything down)
    (S.transportClose { s with handlers := s.handlers ++ [⟨i, .closer d, .done, pdl⟩] }).doAbort
  else S.transportClose { s with handlers := s.handlers ++ [⟨i, .closer d, .run, pdl⟩] }

/-- the handler of request `i` starts and runs until it first blocks -/
def S.startHandler (s : S) (i : Nat) (k : HKind) : S :=
  let pdl := s.now + s.procTimeout
  match k with
  | .quick => { s with handlers := s.handlers ++ [⟨i, .quick, .done, pdl⟩] }
  | .slow => { s with handlers := s.handlers ++ [⟨i, .slow, .run, pdl⟩] }
  | .stubborn r => { s with handlers := s.handlers ++ [⟨i, .stubborn r, .run, pdl⟩] }
  | .aborter => S.doAbort { s with handlers := s.handlers ++ [⟨i, .aborter, .done, pdl⟩] }
  | .thenClose fa => { s with handlers := s.handlers ++ [⟨i, .thenClose fa, .run, pdl⟩] }
  | .closer fa =>
    -- `fa` is the force_after argument here; the record stores the absolute deadline
    s.startCloser i (closerDeadline s.fixed s.now fa s.procTimeout) pdl (fa == 0)

/-- a handler task ends with a cancellation nobody in the session asked for: `task.result()`
raises in `process_messages`, the TaskGroup is torn down (hook, every other handler cancelled);
a handler cancelled inside `close()` aborts (repair F25) -/
def S.crash (s : S) (i : Nat) : S :=
  if s.down || !(s.handlers.any fun h => h.id == i && h.status == HStatus.run && h.kind == HKind.slow)
  then s
  else
    let s1 : S := { s with handlers := s.handlers.map (crashHandler i) }
    let inClose := s1.handlers.any Handler.inClose
    let s2 := s1.teardown
    (if s.fixed && inClose then s2.doAbort else s2).settle

def cancelCloser (now : Nat) (c : Nat) (x : Closer) : Closer :=
  if x.id == c && (x.st == .waiting || x.st == .abortedWaiting)
  then { x with st := .cancelled now } else x

/-- the application cancels task `c` inside `close()`: if it was still in the bounded wait it
aborts before it goes (repair F25) -/
def S.cancelClose (s : S) (c : Nat) : S :=
  let hit := s.closers.any fun x => x.id == c && x.st == .waiting
  let s1 : S := { s with closers := s.closers.map (cancelCloser s.now c) }
  if s.fixed && hit then s1.doAbort else s1

def step (s : S) : Event → S
  | .request i k =>
    -- asyncio delivers no data once the transport is closing; a dead session does not read
    if s.closing || s.down || usedHandler s i then s else s.startHandler i k
  | .replyClose i fa =>
    -- the handler raises ReplyAndDisconnect: the reply is sent and `close(force_after)` is
    -- called *outside* `timeout_after(processing_timeout)`
    if s.closing || s.down || usedHandler s i then s
    else s.startCloser i (s.now + fa) (s.now + fa) (fa == 0)
  | .handlerFinish i =>
    match s.handlers.findSome? (resuming i) with
    | none => { s with handlers := s.handlers.map (finishHandler i) }
    | some fa =>
      -- a handler that waited now calls `close(force_after)`
      let s1 : S := { s with handlers := s.handlers.map (toCloser s.fixed s.now i) }
      if fa == 0 then s1.transportClose.doAbort else s1.transportClose
  | .handlerCancel i => s.crash i
  | .outgoing k =>
    if usedTicket s k then s
    else if inflight s.tickets < s.outLimit then
      { s with tickets := s.tickets ++ [⟨k, .pending, s.now + s.reqTimeout, s.down⟩] }
    else { s with tickets := s.tickets ++ [⟨k, .queued, 0, s.down⟩] }
  | .answer k =>
    if s.closing || s.down then s
    else S.promote { s with tickets := s.tickets.map (answerTicket k) }
  | .drop => S.lose { s with closing := true } .link
  | .appClose c fa =>
    if usedCloser s c then s
    else if s.closedEvent then
      -- `_closed_event.wait()` returns without suspending
      S.transportClose { s with closers := s.closers ++ [⟨c, s.now, s.now + fa, .returned s.now⟩] }
    else if fa == 0 then
      -- timeout_after(0): the timer is due at once: `abort()` follows in the same instant (void
      -- if the graceful close completed, whose `connection_lost` comes first)
      (S.transportClose
        { s with closers := s.closers ++ [⟨c, s.now, s.now, .abortedWaiting⟩] }).doAbort
    else S.transportClose { s with closers := s.closers ++ [⟨c, s.now, s.now + fa, .waiting⟩] }
  | .cancelClose c => s.cancelClose c
  | .abort => s.doAbort
  | .advance dt => s.advance dt

def run (s : S) : List Event → S
  | [] => s
  | e :: es => run (step s e) es

def init (reqTimeout procTimeout outLimit : Nat) (stalled : Bool) : S :=
  { reqTimeout := reqTimeout, procTimeout := procTimeout, outLimit := outLimit, stalled := stalled }

/-- the same connection with the code as pinned (without repair F25) -/
def initPinned (reqTimeout procTimeout outLimit : Nat) (stalled : Bool) : S :=
  { reqTimeout := reqTimeout, procTimeout := procTimeout, outLimit := outLimit,
    stalled := stalled, fixed := false }

end Aiorpcx.C08
