import Aiorpcx.C08.Anytime
import Aiorpcx.Facts.C08
/-!
# C08 — losing or closing a connection releases every waiter and leaves no task behind

Model: `Aiorpcx.C08.step` (`Model.lean`): events request / replyClose / handlerFinish /
handlerCancel / outgoing / answer / drop / appClose / cancelClose / abort / advance over the state
of one connection, observed at quiescence; the code *with repair F25* (`fixed = true`).
Every theorem below is about **every** finite event sequence from the initial state (any
`sent_request_timeout > 0`, `processing_timeout > 0`, outgoing limit, transport stalled or not),
i.e. about every reachable state `s`.  The behaviour of the pinned code (`initPinned`) where it
differs is kept as `..._pinned_witness` theorems.
-/
namespace Aiorpcx.C08

/-- the states reachable from the start of a connection by any finite sequence of events -/
def Reachable (s : S) : Prop :=
  ∃ rt pt ol st es, 0 < rt ∧ 0 < pt ∧ s = run (init rt pt ol st) es

theorem Reachable.inv {s : S} (h : Reachable s) : Inv s := by
  obtain ⟨rt, pt, ol, st, es, hrt, hpt, rfl⟩ := h
  exact reachable_inv rt pt ol st hrt hpt es

theorem run_append (l : List Event) (e : Event) : ∀ (q : S), run q (l ++ [e]) = step (run q l) e := by
  induction l with
  | nil => intro q; rfl
  | cons x l ih => intro q; exact ih _

theorem run_app (l1 l2 : List Event) : ∀ (q : S), run q (l1 ++ l2) = run (run q l1) l2 := by
  induction l1 with
  | nil => intro q; rfl
  | cons x l ih => intro q; exact ih _

theorem Reachable.step {s : S} (h : Reachable s) (e : Event) : Reachable (step s e) := by
  obtain ⟨rt, pt, ol, st, es, hrt, hpt, rfl⟩ := h
  exact ⟨rt, pt, ol, st, es ++ [e], hrt, hpt, (run_append es e _).symm⟩

theorem Reachable.run {s : S} (h : Reachable s) (es : List Event) : Reachable (run s es) := by
  induction es generalizing s with
  | nil => exact h
  | cons e es ih => exact ih (h.step e)

theorem Reachable.ginv {s : S} (h : Reachable s) : GInv s := by
  obtain ⟨rt, pt, ol, st, es, hrt, hpt, rfl⟩ := h
  exact run_ginv es (init_inv rt pt ol st hrt hpt) (init_ginv rt pt ol st)

/-- the invariant over all event sequences (the name used in DESIGN.md) -/
theorem reachable_inv' {s : S} (h : Reachable s) : Inv s ∧ GInv s := ⟨h.inv, h.ginv⟩

/-- **The connection-lost hook runs exactly once**: never twice; it has run iff message
processing has been torn down; and once the connection is lost it has run. -/
theorem hook_at_most_once {s : S} (h : Reachable s) :
    s.hookRuns ≤ 1 ∧ (s.down = true ↔ s.hookRuns = 1) ∧ (s.lost = true → s.hookRuns = 1) := by
  have hk := h.inv.h.hook
  have hld := h.inv.h.lostDown
  rcases Bool.eq_false_or_eq_true s.down with hd | hd
  · simp [hd] at hk hld ⊢; omega
  · simp only [hd] at hk hld ⊢
    have hl : s.lost = false := by
      cases hl : s.lost
      · rfl
      · exact absurd (hld hl) (by simp)
    simp [hk, hl]

/-- **`_closed_event` is set exactly when the connection is lost and every handler is done.** -/
theorem closed_iff {s : S} (h : Reachable s) :
    s.closedEvent = true ↔ (s.lost = true ∧ ∀ x ∈ s.handlers, x.status = .done) :=
  ⟨h.inv.h.closedThen, fun ⟨a, b⟩ => h.inv.settled (h.inv.h.lostDown a) b⟩

/-- in the pinned code a handler task that ends with a cancellation the session did not ask for
tears message processing down and sets `_closed_event` while the connection stays open: the
session is dead, its socket is not closed -/
theorem closed_iff_pinned_witness :
    let s := run (initPinned 30 30 50 false) [.request 1 .slow, .handlerCancel 1, .advance 100]
    s.closedEvent = true ∧ s.hookRuns = 1 ∧ s.lost = false ∧ s.closing = false := by decide +kernel

/-- ... with the repair the transport is aborted as soon as message processing has ended -/
example :
    let s := run (init 30 30 50 false) [.request 1 .slow, .handlerCancel 1]
    s.closedEvent = true ∧ s.hookRuns = 1 ∧ s.lost = true ∧ s.abortedAt = some 0 := by decide +kernel

/-- **Closed means clean**: once `_closed_event` is set no handler is alive, no request
registered before the teardown is still waiting, the hook ran exactly once, the message loop is
gone and nobody is still inside `close()`. -/
theorem closed_implies_clean {s : S} (h : Reachable s) (hc : s.closedEvent = true) :
    (∀ x ∈ s.handlers, x.status = .done) ∧
    (∀ t ∈ s.tickets, t.afterLoss = false → t.status ≠ .pending ∧ t.status ≠ .queued) ∧
    s.hookRuns = 1 ∧ s.loopAlive = false ∧
    (∀ c ∈ s.closers, (∃ a, c.st = .returned a) ∨ (∃ a, c.st = .cancelled a)) := by
  have i := h.inv
  have hl := (i.h.closedThen hc).1
  have hd := i.h.lostDown hl
  refine ⟨(i.h.closedThen hc).2, ?_, ?_, ?_, ?_⟩
  · intro t ht ha
    have := i.t.ok t ht
    unfold TOk at this
    rw [hd] at this
    constructor <;> intro hs <;> simp [hs, ha] at this
  · have := i.h.hook; simpa [hd] using this
  · simp [S.loopAlive, hd]
  · intro c hcm
    have := i.c.ok c hcm
    unfold COk at this
    rw [hc] at this
    cases hs : c.st with
    | waiting => simp [hs] at this
    | abortedWaiting => simp [hs] at this
    | returned a => left; exact ⟨a, rfl⟩
    | cancelled a => right; exact ⟨a, rfl⟩

example : (run (init 30 30 50 false) [.request 1 .slow, .outgoing 1, .appClose 1 7]).closedEvent = true := by
  decide +kernel

/-! ## waiters -/

/-- **The teardown cancels every caller waiting for a response** - those whose request is out
and those still queued for a slot of the outgoing limiter - and touches no other. -/
theorem waiters_cancelled_at_teardown (s : S) :
    s.teardown.down = true ∧ s.teardown.tickets = s.tickets.map cancelTicket ∧
    (∀ t, (t.status = .pending ∨ t.status = .queued) → (cancelTicket t).status = .cancelled) ∧
    (∀ t, t.status ≠ .pending → t.status ≠ .queued → cancelTicket t = t) := by
  refine ⟨rfl, rfl, ?_, ?_⟩
  · intro t ht; unfold cancelTicket; rcases ht with h | h <;> simp [h]
  · intro t h1 h2; unfold cancelTicket; split <;> simp_all

/-- how an event may change the ticket list when it is not the clock and not about tickets:
either not at all, or - if it brought the teardown - by cancelling every waiting one -/
def TicketsKeptOrCancelled (q q' : S) : Prop :=
  (q'.down = q.down ∧ q'.tickets = q.tickets) ∨
  (q.down = false ∧ q'.down = true ∧ q'.tickets = q.tickets.map cancelTicket)

theorem TicketsKeptOrCancelled.refl (q : S) : TicketsKeptOrCancelled q q := Or.inl ⟨rfl, rfl⟩

theorem TicketsKeptOrCancelled.of_eq {q q1 q' : S} (h : TicketsKeptOrCancelled q1 q')
    (hl : q1.down = q.down) (ht : q1.tickets = q.tickets) : TicketsKeptOrCancelled q q' := by
  unfold TicketsKeptOrCancelled at h ⊢
  rw [hl, ht] at h; exact h

theorem settle_tkc {q q' : S} (h : TicketsKeptOrCancelled q q') : TicketsKeptOrCancelled q q'.settle := by
  unfold TicketsKeptOrCancelled at *
  rw [settle_down, settle_tickets]; exact h

theorem lose_tkc (q : S) (why : Cause) : TicketsKeptOrCancelled q (q.lose why) := by
  unfold S.lose
  split
  · exact .refl q
  · apply settle_tkc
    split
    · rename_i hd; left; exact ⟨rfl, rfl⟩
    · rename_i hd; right; exact ⟨by simpa using hd, rfl, rfl⟩

theorem doAbort_tkc (q : S) : TicketsKeptOrCancelled q q.doAbort := by
  unfold S.doAbort
  split
  · exact .refl q
  · exact (lose_tkc _ _).of_eq rfl rfl

theorem transportClose_tkc (q : S) : TicketsKeptOrCancelled q q.transportClose := by
  rcases transportClose_cases q with ⟨_, e⟩ | ⟨_, _, e⟩ | ⟨_, _, e⟩ <;> rw [e]
  · exact .refl q
  · left; exact ⟨rfl, rfl⟩
  · exact (lose_tkc _ _).of_eq rfl rfl

theorem TicketsKeptOrCancelled.trans_kept {q q1 q2 : S} (h1 : TicketsKeptOrCancelled q q1)
    (h2 : TicketsKeptOrCancelled q1 q2) (hk : q1.down = true → q2.tickets = q1.tickets ∧ q2.down = true) :
    TicketsKeptOrCancelled q q2 := by
  unfold TicketsKeptOrCancelled at *
  rcases h1 with ⟨a, b⟩ | ⟨a, b, c⟩
  · rw [a, b] at h2; exact h2
  · right
    obtain ⟨e1, e2⟩ := hk b
    exact ⟨a, e2, by rw [e1, c]⟩

theorem tkc_down_stays {q q' : S} (h : TicketsKeptOrCancelled q q') (hd : q.down = true) :
    q'.tickets = q.tickets ∧ q'.down = true := by
  rcases h with ⟨a, b⟩ | ⟨a, _, _⟩
  · exact ⟨b, by rw [a, hd]⟩
  · rw [hd] at a; cases a

/-- `close()` followed at once by `abort()` -/
theorem closeAbort_tkc (q q0 : S) (hd : q0.down = q.down) (ht : q0.tickets = q.tickets) :
    TicketsKeptOrCancelled q q0.transportClose.doAbort :=
  ((transportClose_tkc q0).of_eq hd ht).trans_kept (doAbort_tkc q0.transportClose)
    (fun h => tkc_down_stays (doAbort_tkc q0.transportClose) h)

theorem startCloser_tkc (q : S) (i d pdl : Nat) (im : Bool) :
    TicketsKeptOrCancelled q (q.startCloser i d pdl im) := by
  unfold S.startCloser
  cases im with
  | true =>
    simp only [↓reduceIte]
    exact closeAbort_tkc q _ rfl rfl
  | false => exact (transportClose_tkc _).of_eq rfl rfl

/-- **Whatever brings the teardown - a closing handler, the link, `close()`, `abort()`, a
cancelled `close()`, a handler task ending with a cancellation - it cancels every waiting
request**: each of these events leaves the tickets alone or, if message processing was torn
down by it, turns exactly the waiting ones into cancelled ones. -/
theorem loss_cancels_waiters (s : S) (e : Event)
    (he : (∀ k, e ≠ .outgoing k) ∧ (∀ k, e ≠ .answer k) ∧ (∀ dt, e ≠ .advance dt)) :
    TicketsKeptOrCancelled s (step s e) := by
  cases e with
  | request i k =>
    unfold step; simp only []
    split
    · exact .refl s
    · unfold S.startHandler
      cases k with
      | quick => left; exact ⟨rfl, rfl⟩
      | slow => left; exact ⟨rfl, rfl⟩
      | stubborn r => left; exact ⟨rfl, rfl⟩
      | aborter => exact (doAbort_tkc _).of_eq rfl rfl
      | thenClose fa => left; exact ⟨rfl, rfl⟩
      | closer fa => exact startCloser_tkc _ _ _ _ _
  | replyClose i fa =>
    unfold step; simp only []
    split
    · exact .refl s
    · exact startCloser_tkc _ _ _ _ _
  | handlerFinish i =>
    unfold step; simp only []
    split
    · left; exact ⟨rfl, rfl⟩
    · split
      · exact closeAbort_tkc s _ rfl rfl
      · exact (transportClose_tkc _).of_eq rfl rfl
  | handlerCancel i =>
    show TicketsKeptOrCancelled s (s.crash i)
    unfold S.crash
    split
    · exact .refl s
    · rename_i hg
      simp only [Bool.or_eq_true, not_or, Bool.not_eq_true, Bool.not_eq_true'] at hg
      dsimp only
      apply settle_tkc
      have h1 : TicketsKeptOrCancelled s ({ s with handlers := s.handlers.map (crashHandler i) } : S).teardown :=
        Or.inr ⟨hg.1, rfl, rfl⟩
      split
      · exact h1.trans_kept (doAbort_tkc _)
          (fun hd => tkc_down_stays
            (doAbort_tkc ({ s with handlers := s.handlers.map (crashHandler i) } : S).teardown) hd)
      · exact h1
  | outgoing k => exact absurd rfl (he.1 k)
  | answer k => exact absurd rfl (he.2.1 k)
  | drop => exact (lose_tkc _ _).of_eq rfl rfl
  | appClose c fa =>
    unfold step; simp only []
    split
    · exact .refl s
    · split
      · exact (transportClose_tkc _).of_eq rfl rfl
      · split
        · exact closeAbort_tkc s _ rfl rfl
        · exact (transportClose_tkc _).of_eq rfl rfl
  | cancelClose c =>
    show TicketsKeptOrCancelled s (s.cancelClose c)
    unfold S.cancelClose
    simp only []
    split
    · exact (doAbort_tkc _).of_eq rfl rfl
    · left; exact ⟨rfl, rfl⟩
  | abort => exact doAbort_tkc s
  | advance dt => exact absurd rfl (he.2.2 dt)

/-- the same for a second of the clock, where the teardown can only come from an abort forced
by a `close()` whose wait is cut short: request timeouts due at that very instant fire first and
the limiter hands on the slots they free, everything else waiting is cancelled -/
theorem tick_cancels_waiters (s : S) :
    TicketsKeptOrCancelled s.fired s.tick := by
  rw [tick_eq]
  split
  · exact settle_tkc (doAbort_tkc _)
  · exact settle_tkc (.refl _)

/-- **After the teardown no request registered before it is still waiting; a request is only
ever cancelled by the teardown; one registered after the hook ran is never cancelled or
answered.** -/
theorem waiters_settled {s : S} (h : Reachable s) :
    (s.down = true → ∀ t ∈ s.tickets, t.afterLoss = false →
      t.status ≠ .pending ∧ t.status ≠ .queued) ∧
    (∀ t ∈ s.tickets, t.status = .cancelled → s.down = true ∧ t.afterLoss = false) ∧
    (∀ t ∈ s.tickets, t.afterLoss = true →
      s.down = true ∧ (t.status = .queued ∨ t.status = .pending ∨ t.status = .timedOut t.deadline)) := by
  have i := h.inv.t
  refine ⟨?_, ?_, ?_⟩
  · intro hd t ht ha
    have := i.ok t ht
    unfold TOk at this
    rw [hd] at this
    constructor <;> intro hs <;> simp [hs, ha] at this
  · intro t ht hs
    have := i.ok t ht
    unfold TOk at this
    simp only [hs] at this
    exact this.2
  · intro t ht ha
    have := i.ok t ht
    unfold TOk at this
    refine ⟨this.1 ha, ?_⟩
    cases hs : t.status with
    | queued => left; rfl
    | pending => right; left; rfl
    | answered => simp [hs, ha] at this
    | cancelled => simp [hs, ha] at this
    | timedOut a => simp only [hs] at this; right; right; rw [this.2.1]

/-- **Waiters are cancelled** (the name used in DESIGN.md): after the teardown every request
that was registered before it has been settled - cancelled if it was waiting when message
processing ended (`waiters_cancelled_at_teardown`, `loss_cancels_waiters`,
`tick_cancels_waiters`), and cancellation never comes from anywhere else. -/
theorem waiters_cancelled {s : S} (h : Reachable s) (hd : s.down = true) :
    ∀ t ∈ s.tickets, t.afterLoss = false →
      t.status = .answered ∨ t.status = .cancelled ∨ t.status = .timedOut t.deadline := by
  intro t ht ha
  have := h.inv.t.ok t ht
  unfold TOk at this
  rw [hd] at this
  cases hs : t.status with
  | queued => simp [hs, ha] at this
  | pending => simp [hs, ha] at this
  | answered => left; rfl
  | cancelled => right; left; rfl
  | timedOut a => simp only [hs] at this; right; right; rw [this.2.1]

/-- a request's timeout fires at exactly its deadline: in every reachable state a pending one
has its deadline ahead, a timed-out one timed out at its deadline -/
theorem request_timeout_exact {s : S} (h : Reachable s) :
    (∀ t ∈ s.tickets, t.status = .pending → s.now < t.deadline) ∧
    (∀ t ∈ s.tickets, ∀ a, t.status = .timedOut a → a = t.deadline ∧ a ≤ s.now) := by
  have i := h.inv.t
  constructor
  · intro t ht hs
    have := i.ok t ht
    unfold TOk at this
    simp only [hs] at this
    exact this.2.1
  · intro t ht a hs
    have := i.ok t ht
    unfold TOk at this
    simp only [hs] at this
    exact this.2

theorem mem_promoteList_of_not_queued {now rt : Nat} : ∀ (free : Nat) (l : List Ticket) (t : Ticket),
    t ∈ l → t.status ≠ .queued → t ∈ promoteList now rt free l
  | _, [], t, h, _ => by cases h
  | 0, x :: l, t, h, _ => by simpa [promoteList] using h
  | free + 1, x :: l, t, h, hq => by
    unfold promoteList
    split
    · rename_i hx
      rcases List.mem_cons.mp h with rfl | h
      · exact absurd hx hq
      · exact List.mem_cons_of_mem _ (mem_promoteList_of_not_queued free l t h hq)
    · rcases List.mem_cons.mp h with rfl | h
      · exact List.mem_cons_self
      · exact List.mem_cons_of_mem _ (mem_promoteList_of_not_queued (free + 1) l t h hq)

theorem tick_tickets_of_down {s : S} (hd : s.down = true) :
    s.tick.tickets = s.fired.tickets := by
  have := tkc_down_stays (tick_cancels_waiters s) (by rw [fired_down]; exact hd)
  exact this.1

/-- **A request sent after the hook ran ends with TaskTimeout at exactly its deadline** when
time passes (nobody cancels it, nobody answers it). -/
theorem late_request_times_out (n : Nat) : ∀ {s : S}, Inv s → ∀ t ∈ s.tickets,
    t.status = .pending → t.afterLoss = true → t.deadline = s.now + n →
    { t with status := .timedOut t.deadline } ∈ (s.advance n).tickets := by
  induction n with
  | zero =>
    intro s i t ht hp _ hd
    have := i.t.ok t ht
    unfold TOk at this
    simp only [hp] at this
    omega
  | succ n ih =>
    intro s i t ht hp ha hd
    have hk := i.t.ok t ht
    unfold TOk at hk
    have hdn := hk.1 ha
    show _ ∈ (s.tick.advance n).tickets
    have hmem : expireTicket (s.now + 1) t ∈ s.tick.tickets := by
      rw [tick_tickets_of_down hdn]
      show _ ∈ promoteList _ _ _ (s.tickets.map (expireTicket (s.now + 1)))
      apply mem_promoteList_of_not_queued _ _ _ (List.mem_map.mpr ⟨t, ht, rfl⟩)
      unfold expireTicket; simp only [hp]; split <;> simp [hp]
    by_cases hn : n = 0
    · subst hn
      show _ ∈ s.tick.tickets
      have : expireTicket (s.now + 1) t = { t with status := .timedOut t.deadline } := by
        unfold expireTicket; simp [hp, hd]
      rw [← this]; exact hmem
    · have he : expireTicket (s.now + 1) t = t := by
        unfold expireTicket
        have : ¬ t.deadline ≤ s.now + 1 := by omega
        simp [hp, this]
      rw [he] at hmem
      exact ih (tick_inv i) t hmem hp ha (by rw [tick_now]; omega)

example :
    (run (init 5 30 50 false) [.drop, .outgoing 1, .advance 5]).tickets =
      [⟨1, .timedOut 5, 5, true⟩] := by decide +kernel

/-- more callers than the outgoing limiter has slots: the loss cancels those queued as well -/
example :
    ((run (init 30 30 2 false) [.outgoing 1, .outgoing 2, .outgoing 3, .drop]).tickets.map (·.status)) =
      [.cancelled, .cancelled, .cancelled] := by decide +kernel

/-! ## from loss to closed -/

/-- **Loss (or any other teardown) leads to closed**: from every reachable state in which
message processing has been torn down - the connection is lost, or a handler task ended with a
cancellation - letting the longest remaining reaction of a stubborn handler pass sets
`_closed_event`, it stays set, and the connection is lost then (aborted if need be). -/
theorem loss_leads_to_closed {s : S} (h : Reachable s) (hd : s.down = true) (m : Nat)
    (hm : reactBound s ≤ m) : (s.advance m).closedEvent = true ∧ (s.advance m).lost = true := by
  have hc := closed_from h.inv hd (RB_reactBound s) m hm
  exact ⟨hc, ((advance_inv m h.inv).h.closedThen hc).1⟩

/-- **No data after the loss**: once the asyncio transport is closing, or message processing is
torn down, a request or a response from the peer changes nothing - in particular no new handler
can start and postpone `_closed_event`. -/
theorem no_data_after_loss (s : S) (hc : s.closing = true ∨ s.down = true) (i : Nat) (k : HKind)
    (fa : Nat) :
    step s (.request i k) = s ∧ step s (.replyClose i fa) = s ∧ step s (.answer i) = s := by
  rcases hc with hc | hc <;> simp [step, hc]

example : (run (init 30 30 50 false) [.request 1 (.stubborn 3), .drop]).closedEvent = false ∧
    (run (init 30 30 50 false) [.request 1 (.stubborn 3), .drop, .advance 3]).closedEvent = true := by
  decide +kernel

/-- a stubborn handler's reaction to the teardown is cut short by its processing timeout -/
example : (run (init 30 5 50 false) [.request 1 (.stubborn 20), .advance 2, .drop, .advance 2]).closedEvent = false ∧
    (run (init 30 5 50 false) [.request 1 (.stubborn 20), .advance 2, .drop, .advance 3]).closedEvent = true := by
  decide +kernel

/-! ## close() -/

/-- **`close()` on a closed connection returns at once.** -/
theorem close_returns_immediately {s : S} (h : Reachable s) (hc : s.closedEvent = true) (c fa : Nat)
    (hu : usedCloser s c = false) :
    (step s (.appClose c fa)).closers = s.closers ++ [⟨c, s.now, s.now + fa, .returned s.now⟩] := by
  have hcl := h.inv.h.lostClosing (h.inv.h.closedThen hc).1
  unfold step
  simp only []
  rw [if_neg (by simp [hu]), if_pos hc]
  rcases transportClose_cases
      { s with closers := s.closers ++ [⟨c, s.now, s.now + fa, .returned s.now⟩] } with
    ⟨_, e⟩ | ⟨h1, _⟩ | ⟨h1, _⟩
  · rw [e]
  · rw [hcl] at h1; cases h1
  · rw [hcl] at h1; cases h1

/-- **Every `close()` returns exactly when `_closed_event` is set** (or at once if called
later): in every reachable state, if `_closed_event` was set at instant `T` every task that
called `close()` (and was not cancelled by the application) has returned, at
`max (its call instant) T`; if it is not set nobody has returned. -/
theorem close_returns_at_closed {s : S} (h : Reachable s) :
    (∀ T, s.closedAt = some T → s.closedEvent = true ∧
      ∀ c ∈ s.closers, c.st = .returned (max c.start T) ∨ ∃ a, c.st = .cancelled a) ∧
    (s.closedEvent = true → s.closedAt ≠ none) ∧
    (s.closedEvent = false → ∀ c ∈ s.closers, ∀ a, c.st ≠ .returned a) := by
  have i := h.inv.c
  refine ⟨?_, ?_, ?_⟩
  · intro T hT
    have hce := (i.caSome T hT).1
    refine ⟨hce, ?_⟩
    intro c hc
    have := i.ok c hc
    unfold COk at this
    rw [hce, hT] at this
    cases hs : c.st with
    | waiting => simp [hs] at this
    | abortedWaiting => simp [hs] at this
    | returned a =>
      simp only [hs] at this
      obtain ⟨_, T', hT', ha, _⟩ := this
      cases hT'
      left; rw [ha]
    | cancelled a => right; exact ⟨a, rfl⟩
  · intro hc hn
    have := i.caNone hn
    simp [hc] at this
  · intro hce c hc a hs
    have := i.ok c hc
    unfold COk at this
    simp only [hs] at this
    obtain ⟨_, T, hT, _⟩ := this
    have := (i.caSome T hT).1
    simp [hce] at this

/-- **If the graceful close does not finish in time an abort is forced**: in every reachable
state, for a task inside `close()` whose `force_after` deadline has been reached (and which the
application has not cancelled), the connection was lost by that deadline - because the link
went, because the graceful close did complete (then the transport is not a stalled one), or
because `abort()` was called, at exactly that instant -; and as long as the task is in its
bounded wait the deadline is still ahead. -/
theorem close_forces_abort {s : S} (h : Reachable s) (c : Closer) (hc : c ∈ s.closers) :
    (c.deadline ≤ s.now → (∃ a, c.st = .cancelled a) ∨
      ∃ t, s.lostAt = some t ∧ t ≤ c.deadline ∧
        (s.lostBy = some .link ∨ (s.lostBy = some .graceful ∧ s.stalled = false) ∨
         (s.lostBy = some .abort ∧ s.abortedAt = some t))) ∧
    (c.st = .waiting → s.now < c.deadline) := by
  have i := h.inv
  have hk := i.c.ok c hc
  unfold COk at hk
  constructor
  · intro hd
    have key : ∀ t, s.lostAt = some t → t ≤ c.deadline → ∃ t, s.lostAt = some t ∧ t ≤ c.deadline ∧
        (s.lostBy = some .link ∨ (s.lostBy = some .graceful ∧ s.stalled = false) ∨
         (s.lostBy = some .abort ∧ s.abortedAt = some t)) := by
      intro t ht htd
      refine ⟨t, ht, htd, ?_⟩
      have hl := (i.l.laSome t ht).1
      cases hb : s.lostBy with
      | none => have := i.l.lbNone hb; simp [hl] at this
      | some w =>
        cases w with
        | link => left; rfl
        | graceful => right; left; exact ⟨rfl, i.l.byGraceful hb⟩
        | abort => right; right; exact ⟨rfl, by rw [i.l.byAbort hb, ht]⟩
    cases hs : c.st with
    | waiting => simp only [hs] at hk; omega
    | abortedWaiting =>
      simp only [hs] at hk
      obtain ⟨_, _, _, t, ht, htd⟩ := hk
      right; exact key t ht htd
    | returned a =>
      simp only [hs] at hk
      obtain ⟨_, _, _, _, t, ht, htd⟩ := hk
      right; exact key t ht htd
    | cancelled a => left; exact ⟨a, rfl⟩
  · intro hs
    simp only [hs] at hk
    exact hk.2.1

/-- **A `close()` cut short by a cancellation of its caller still forces the abort** (repair
F25): cancelling a task in the bounded wait of `close()` leaves the connection lost. -/
theorem cancelled_close_aborts {s : S} (h : Reachable s) (c : Closer) (hc : c ∈ s.closers)
    (hw : c.st = .waiting) : (step s (.cancelClose c.id)).lost = true := by
  show (s.cancelClose c.id).lost = true
  unfold S.cancelClose
  simp only []
  have : (s.closers.any fun x => x.id == c.id && x.st == .waiting) = true := by
    simp only [List.any_eq_true]
    exact ⟨c, hc, by simp [hw]⟩
  simp only [h.inv.fixed, this, Bool.and_self, ↓reduceIte]
  exact doAbort_lost _

/-- **Every `close()` returns**: from every reachable state, for every task in the bounded wait
of `close()`, after its remaining `force_after` time plus the longest reaction of a handler to
its cancellation, `_closed_event` is set and nobody is inside `close()` any more. -/
theorem close_returns {s : S} (h : Reachable s) (c : Closer) (hc : c ∈ s.closers)
    (hw : c.st = .waiting) (n : Nat) (hn : (c.deadline - s.now) + reactBound s ≤ n) :
    (s.advance n).closedEvent = true ∧
    ∀ c' ∈ (s.advance n).closers, (∃ a, c'.st = .returned a) ∨ (∃ a, c'.st = .cancelled a) := by
  have i := h.inv
  have hl : (s.advance (c.deadline - s.now)).lost = true :=
    lost_by _ i (Or.inl ⟨c, hc, hw, by omega⟩)
  have hce := closed_after_lost_by i _ hl n hn
  have hr : Reachable (s.advance n) := h.step (.advance n)
  exact ⟨hce, (closed_implies_clean hr hce).2.2.2.2⟩

/-- the property "a connection is never left half closed" of a whole connection `s0`: in every
state it can reach, while the asyncio transport is closing without `connection_lost` having
come, somebody is inside `close(force_after)` with its abort still ahead -/
def NeverHalfClosed (s0 : S) : Prop :=
  ∀ es, let s := run s0 es
    s.closing = true → s.lost = false →
      (∃ c ∈ s.closers, c.st = .waiting ∧ s.now < c.deadline) ∨
      (∃ x ∈ s.handlers, x.status = .run ∧ ∃ d, x.kind = .closer d ∧ s.now < d)

/-- **A connection is never left half closed**: while the asyncio transport is closing but
`connection_lost` has not come (a graceful close that does not complete), somebody - an
application task or a handler - is inside `close(force_after)` with the instant at which its wait
ends in an abort (its `force_after`, or the handler's processing timeout) still ahead. -/
theorem never_half_closed {s : S} (h : Reachable s) (hc : s.closing = true) (hl : s.lost = false) :
    (∃ c ∈ s.closers, c.st = .waiting ∧ s.now < c.deadline) ∨
    (∃ x ∈ s.handlers, x.status = .run ∧ ∃ d, x.kind = .closer d ∧ s.now < d) := by
  rcases h.ginv hc hl with ⟨c, hcm, hw⟩ | ⟨x, hx, hin⟩
  · left
    have := h.inv.c.ok c hcm
    unfold COk at this
    simp only [hw] at this
    exact ⟨c, hcm, hw, this.2.1⟩
  · right
    have hk := h.inv.h.ok x hx
    unfold HOk at hk
    unfold Handler.inClose at hin
    simp only [Bool.and_eq_true, beq_iff_eq] at hin
    obtain ⟨hr, hkd⟩ := hin
    cases hkk : x.kind with
    | closer d =>
      simp only [hr, hkk] at hk
      exact ⟨x, hx, hr, d, hkk, hk.2.1⟩
    | quick => simp [hkk] at hkd
    | slow => simp [hkk] at hkd
    | stubborn r => simp [hkk] at hkd
    | aborter => simp [hkk] at hkd
    | thenClose fa => simp [hkk] at hkd

theorem never_half_closed_all (rt pt ol : Nat) (st : Bool) (hrt : 0 < rt) (hpt : 0 < pt) :
    NeverHalfClosed (init rt pt ol st) :=
  fun es => never_half_closed ⟨rt, pt, ol, st, es, hrt, hpt, rfl⟩

/-- the pinned code leaves a connection half closed for ever in three ways (four histories): (1) a handler
calls `close(force_after)` and its processing timeout fires while `close()` waits (the
TimeoutCancellationError passes `except TaskTimeout`, `abort()` never runs); (2) the application
cancels a task inside `close()`; (3) a handler task ends with a cancellation (message processing
is torn down, `_closed_event` set, the socket stays open) and a later `close()` returns at once
although the graceful close never completes.  In each case: transport closing, no
`connection_lost`, nobody inside `close()`, after 300 s. -/
theorem never_half_closed_pinned_witness :
    (let s := run (initPinned 30 30 50 true) [.request 1 (.closer 40), .advance 300]
     s.closing = true ∧ s.lost = false ∧ s.hookRuns = 0 ∧ s.closers = [] ∧
       s.handlers.all Handler.isDone = true) ∧
    (let s := run (initPinned 30 30 50 true) [.appClose 1 30, .advance 3, .cancelClose 1, .advance 300]
     s.closing = true ∧ s.lost = false ∧ s.hookRuns = 0 ∧ s.closers.map (·.st) = [.cancelled 3]) ∧
    (let s := run (initPinned 30 30 50 true)
       [.request 1 .slow, .handlerCancel 1, .appClose 1 7, .advance 300]
     s.closing = true ∧ s.lost = false ∧ s.closedEvent = true ∧
       s.closers.map (·.st) = [.returned 0]) ∧
    -- (1) as the audit reproduced it: the handler works for a second, then `await self.close()`
    -- with the default force_after 30 = processing_timeout
    (let s := run (initPinned 30 30 50 true)
       [.request 1 (.thenClose 30), .advance 1, .handlerFinish 1, .advance 300]
     s.closing = true ∧ s.lost = false ∧ s.hookRuns = 0 ∧ s.handlers.all Handler.isDone = true) := by
  decide +kernel

theorem never_half_closed_pinned_fails : ¬ NeverHalfClosed (initPinned 30 30 50 true) := by
  intro h
  have hw := never_half_closed_pinned_witness.1
  simp only [] at hw
  obtain ⟨h1, h2, _, h4, h5⟩ := hw
  rcases h [.request 1 (.closer 40), .advance 300] h1 h2 with ⟨c, hc, _⟩ | ⟨x, hx, hr, _⟩
  · rw [h4] at hc; cases hc
  · have := (all_isDone _).mp h5 x hx
    rw [hr] at this; cases this

/-- ... the same three histories with the repair: aborted at the processing deadline / at the
cancellation / when message processing ended -/
example :
    (run (init 30 30 50 true) [.request 1 (.closer 40), .advance 300]).abortedAt = some 30 ∧
    (run (init 30 30 50 true) [.appClose 1 30, .advance 3, .cancelClose 1, .advance 300]).abortedAt = some 3 ∧
    (run (init 30 30 50 true) [.request 1 .slow, .handlerCancel 1, .appClose 1 7, .advance 300]).abortedAt
      = some 0 ∧
    (run (init 30 30 50 true)
      [.request 1 (.thenClose 30), .advance 1, .handlerFinish 1, .advance 300]).abortedAt = some 30 := by
  decide +kernel

/-- **Closing always ends closed**: from every reachable state in which the transport is
closing - after a drop, an abort, a completed or a stalled graceful close, from an application
task or from a handler - there is a time after which `_closed_event` is set for good. -/
theorem closing_leads_to_closed {s : S} (h : Reachable s) (hc : s.closing = true) :
    ∃ n, ∀ m, n ≤ m → (s.advance m).closedEvent = true := by
  rcases Bool.eq_false_or_eq_true s.lost with hl | hl
  · exact ⟨0 + reactBound s, closed_after_lost_by h.inv 0 hl⟩
  · rcases never_half_closed h hc hl with ⟨c, hcm, hw, _⟩ | ⟨x, hx, hr, d, hk, _⟩
    · exact ⟨(c.deadline - s.now) + reactBound s,
        closed_after_lost_by h.inv _ (lost_by _ h.inv (Or.inl ⟨c, hcm, hw, by omega⟩))⟩
    · refine ⟨(d - s.now) + reactBound s,
        closed_after_lost_by h.inv _ (lost_by _ h.inv (Or.inr ⟨x, hx, ?_, d, hk, by omega⟩))⟩
      simp [Handler.inClose, hr, hk]

example : (run (init 30 30 50 true) [.request 1 .slow, .request 2 (.closer 7)]).closing = true ∧
    (run (init 30 30 50 true) [.request 1 .slow, .request 2 (.closer 7)]).lost = false ∧
    (run (init 30 30 50 true) [.request 1 .slow, .request 2 (.closer 7), .advance 7]).closedEvent = true := by
  decide +kernel

/-- **... whatever happens meanwhile**: from every reachable state in which the transport is
closing or message processing is torn down there is an instant `T` such that after *any*
continuation - requests, answers, more `close()` / `abort()` calls, cancellations, drops, clock
ticks in any order - that brings the clock to `T` or beyond, `_closed_event` is set.  (No new
handler can start, whoever sits in `close()` keeps its deadline or brings the loss earlier, the
handlers' reactions end by "deadline + reaction time": `Anytime.lean`.) -/
theorem closing_leads_to_closed_any {s : S} (h : Reachable s) (hc : s.closing = true ∨ s.down = true) :
    ∃ T, ∀ es, T ≤ (run s es).now → (run s es).closedEvent = true := by
  have i := h.inv
  obtain ⟨A, w⟩ : ∃ A, Will s A := by
    rcases Bool.eq_false_or_eq_true s.down with hd | hd
    · exact ⟨s.now, Or.inl hd⟩
    · have hcl : s.closing = true := by
        rcases hc with h1 | h1
        · exact h1
        · rw [hd] at h1; cases h1
      have hl := i.h.not_lost_of_not_down hd
      rcases never_half_closed h hcl hl with ⟨c, hcm, hw, _⟩ | ⟨x, hx, hr, d, hk, _⟩
      · exact ⟨c.deadline, Or.inr (Or.inl ⟨c, hcm, hw, Nat.le_refl _⟩)⟩
      · exact ⟨d, Or.inr (Or.inr ⟨x, hx, by simp [Handler.inClose, hr, hk], d, hk, Nat.le_refl _⟩)⟩
  refine ⟨max A (endBound s A), ?_⟩
  intro es hT
  obtain ⟨i', w', e'⟩ := run_will es i w (EB_endBound s A)
  exact closed_of_will i' w' e' (by omega) (by omega)

/-- a stalled close from a handler, then requests, answers, a second close, cancellations: closed
at 8 (the cancelled close() aborts at 5, the stubborn handler reacts until 8) all the same -/
example :
    let s := run (init 30 30 50 true)
      [.request 1 (.stubborn 3), .outgoing 1, .request 2 (.closer 7), .advance 2, .request 3 .slow,
       .answer 1, .appClose 1 30, .advance 3, .cancelClose 1, .outgoing 2, .advance 5]
    s.closedEvent = true ∧ s.closedAt = some 8 ∧ s.abortedAt = some 5 := by decide +kernel

/-- **Closing is safe from any context, concurrently and repeatedly**: any number of
`appClose` / closing-handler / cancelClose / abort / drop events, in any order and interleaved
with anything else, keep every invariant - in particular the hook still runs once, and the
closers return together. (This is `Reachable.inv` spelled out for the events in question.) -/
theorem close_reentrant {s : S} (h : Reachable s) (es : List Event) :
    Inv (run s es) ∧ GInv (run s es) ∧ (run s es).hookRuns ≤ 1 :=
  ⟨(h.run es).inv, (h.run es).ginv, (hook_at_most_once (h.run es)).1⟩

/-! ## a conversation: two handlers (one stubborn), two outgoing requests, two concurrent
closers and a drop -/

def demo : List Event :=
  [.request 1 .slow, .request 2 (.stubborn 3), .outgoing 1, .outgoing 2, .answer 1,
   .appClose 1 7, .appClose 2 7, .drop, .advance 1]

example : (run (init 30 30 50 false) demo).hookRuns = 1 ∧
    (run (init 30 30 50 false) demo).tickets.map (·.status) = [.answered, .cancelled] ∧
    (run (init 30 30 50 false) demo).closers.map (·.st) = [.waiting, .waiting] ∧
    (run (init 30 30 50 false) demo).closedEvent = false ∧
    (run (init 30 30 50 false) (demo ++ [.advance 2])).closedEvent = true ∧
    (run (init 30 30 50 false) (demo ++ [.advance 2])).closers.map (·.st) = [.returned 3, .returned 3] ∧
    (run (init 30 30 50 false) (demo ++ [.advance 2, .appClose 3 7])).closers.map (·.st) =
      [.returned 3, .returned 3, .returned 3] := by decide +kernel

/-- the same on a transport whose graceful close never completes: the first closer's
`force_after` brings the abort at exactly 7 - still waiting for the stubborn handler -, both
return at 10 -/
example :
    let s := run (init 30 30 50 true)
      [.request 1 .slow, .request 2 (.stubborn 3), .outgoing 1, .appClose 1 7, .advance 1,
       .appClose 2 7, .advance 20]
    s.abortedAt = some 7 ∧ s.lostBy = some .abort ∧
    s.closers.map (·.st) = [.returned 10, .returned 10] ∧
    s.tickets.map (·.status) = [.cancelled] ∧ s.hookRuns = 1 := by decide +kernel

/-! ## tie to the source (`Aiorpcx.Facts.C08`: tables obtained by running the code of /repo
through its public interfaces on stubs, regenerated on every check) -/

open Facts.C08 in
/-- `connection_lost` of both transports, run on a stub with the send buffer full or not: fails
the framer with ConnectionLostError (that is what ends the message loop: the model's `lose` is
unconditional) and releases a writer blocked on the full send buffer. -/
theorem facts_connection_lost :
    lostRS = [⟨false, false, true, true⟩, ⟨true, true, true, true⟩] ∧ lostUS = lostRS := by decide

open Facts.C08 in
/-- `is_closing()` is the model's `S.isClosing` -/
theorem facts_is_closing :
    isClosingRS = [false, true].flatMap (fun ce => [false, true].map (fun tc =>
      ⟨ce, tc, ({ closedEvent := ce, closing := tc } : S).isClosing⟩)) ∧
    isClosingUS = isClosingRS := by decide

/-- the model's account of one of the `close(force_after)` table runs: a transport whose
graceful close never completes by itself, `connection_lost` `d` seconds after `close()` is a
drop of the link then, message processing that takes 2 s to end is a stubborn handler reacting
for 2 s, the caller cancelled after `k` seconds is `cancelClose` -/
def closeRow (already : Bool) (graceful : Option Nat) (fa : Nat) (cancelAt : Option Nat) :
    Facts.C08.CloseRow :=
  let pre : List Event := if already then [.drop] else [.request 1 (.stubborn 2)]
  let mid : List Event := match graceful with
    | some d => [.advance d, .drop]
    | none => []
  let can : List Event := match cancelAt with
    | some k => [.advance k, .cancelClose 1]
    | none => []
  let s := run (init 30 1000 50 true) (pre ++ [.appClose 1 fa] ++ mid ++ can ++ [.advance 40])
  ⟨already, graceful, fa, cancelAt, 1, s.abortedAt,
   match s.closers with
   | [c] => (match c.st with | .returned a => some a | _ => none)
   | _ => none,
   match s.closers with
   | [c] => (match c.st with | .cancelled _ => "CancelledError" | _ => "")
   | _ => ""⟩

open Facts.C08 in
/-- the real `close(force_after)` of both transports, run on the virtual loop in seven scenarios
(already closed; graceful close done after 0 / 3 / 9 s with force_after 7; never done with
force_after 7 / 1; never done and the caller cancelled after 3 s), does what the model does: one
transport.close(), an abort at exactly `force_after` iff not lost by then - or at the moment the
caller is cancelled (repair F25) -, return when message processing has ended, no exception but
the caller's own cancellation; before `connection_made` close() and abort() just return; the
session's `close(force_after=..)` (default observed) and `abort()` go to the transport's. -/
theorem facts_close_table :
    closeRS = [closeRow true none 7 none, closeRow false (some 0) 7 none,
               closeRow false (some 3) 7 none, closeRow false (some 9) 7 none,
               closeRow false none 7 none, closeRow false none 1 none,
               closeRow false none 7 (some 3)] ∧
    closeUS = closeRS ∧ noTransportRS = [true, true] ∧ noTransportUS = [true, true] ∧
    sessionCloseCalls = ["close 5", s!"close {defaultForceAfter}", "abort"] ∧
    0 < defaultForceAfter := by decide +kernel

open Facts.C08 in
/-- message processing of both transports ended in four ways (the session's process_messages
returns, raises ConnectionLostError - the way the message loop ends on a loss -, raises another
exception, is cancelled): the transport is closed afterwards in every case (the model's
`settle`), ConnectionLostError is swallowed and everything else propagates, and the asyncio
transport is aborted when processing ended with something else than the loss (repair F25; the
model's `settle` on a connection that is not lost, reached through `handlerCancel`). -/
theorem facts_process_messages :
    pmRS = [⟨"return", true, "returned", false⟩, ⟨"cle", true, "returned", false⟩,
            ⟨"other", true, "KeyError", true⟩, ⟨"cancel", true, "cancelled", true⟩] ∧
    pmUS = pmRS ∧
    (let s := run (init 30 30 50 true) [.request 1 .slow, .handlerCancel 1]
     s.closedEvent = true ∧ s.abortedAt.isSome = true) ∧
    (let s := run (init 30 30 50 true) [.request 1 .slow, .drop]
     s.closedEvent = true ∧ s.abortedAt.isSome = false) := by decide +kernel

open Facts.C08 in
/-- the hook runs exactly once however the message loop of either session class ends (its
`recv` fails, raises something else, the task is cancelled); RPCSession's hook cancels the
pending requests: `cancel_pending_requests` cancels what is pending and leaves what is done (the
model's `cancelTicket`) and leaves nothing registered. -/
theorem facts_hook_and_group :
    hookRuns = [1, 1, 1, 1, 1, 1] ∧
    rpcHookAfter = ["result", "cancelled", "cancelled"] ∧ cancelLeft = 0 ∧
    cancelAfter = ([⟨0, .answered, 0, false⟩, ⟨1, .pending, 0, false⟩, ⟨2, .cancelled, 0, false⟩,
                    ⟨3, .pending, 0, false⟩].map fun t =>
      match (cancelTicket t).status with
      | .answered => "result"
      | .cancelled => "cancelled"
      | _ => "pending") := by decide

open Facts.C08 in
/-- an unanswered `send_request` ends with TaskTimeout at exactly `sent_request_timeout` - also
when that attribute is set to something else -, which is positive (hypothesis `0 < reqTimeout`
of `Reachable`); so is `processing_timeout` (`0 < procTimeout`); the outgoing limiter lets a
positive number of requests out at once (the model's `outLimit`, passed to the driver). -/
theorem facts_request_timeout :
    requestOutcome = ["TaskTimeout", "TaskTimeout"] ∧
    requestTimedOutAtMs = [sentRequestTimeoutMs, 7000] ∧
    0 < sentRequestTimeoutMs ∧ 0 < processingTimeoutMs ∧ 0 < outgoingLimit := by decide

end Aiorpcx.C08
