import Aiorpcx.C08.Closing
import Aiorpcx.Facts.C08
/-!
# C08 — losing or closing a connection releases every waiter and leaves no task behind

Model: `Aiorpcx.C08.step` (`Model.lean`): events request / handlerFinish / outgoing / answer /
drop / appClose / abort / advance over the state of one connection, observed at quiescence.
Every theorem below is about **every** finite event sequence from the initial state (any
`sent_request_timeout > 0`, transport stalled or not), i.e. about every reachable state `s`.
-/
namespace Aiorpcx.C08

/-- the states reachable from the start of a connection by any finite sequence of events -/
def Reachable (s : S) : Prop := ∃ rt st es, 0 < rt ∧ s = run (init rt st) es

theorem Reachable.inv {s : S} (h : Reachable s) : Inv s := by
  obtain ⟨rt, st, es, hrt, rfl⟩ := h
  exact reachable_inv rt st hrt es

theorem Reachable.step {s : S} (h : Reachable s) (e : Event) : Reachable (step s e) := by
  obtain ⟨rt, st, es, hrt, rfl⟩ := h
  refine ⟨rt, st, es ++ [e], hrt, ?_⟩
  have : ∀ (l : List Event) (q : S), run q (l ++ [e]) = Aiorpcx.C08.step (run q l) e := by
    intro l; induction l with
    | nil => intro q; rfl
    | cons x l ih => intro q; exact ih _
  exact (this es _).symm

/-- **The connection-lost hook runs exactly once**: never twice, and it has run iff the
connection is lost. -/
theorem hook_at_most_once {s : S} (h : Reachable s) :
    s.hookRuns ≤ 1 ∧ (s.lost = true ↔ s.hookRuns = 1) := by
  have := h.inv.h.hook
  rcases Bool.eq_false_or_eq_true s.lost with hl | hl <;> simp [hl] at this ⊢ <;> omega

/-- **`_closed_event` is set exactly when the connection is lost and every handler is done.** -/
theorem closed_iff {s : S} (h : Reachable s) :
    s.closedEvent = true ↔ (s.lost = true ∧ ∀ x ∈ s.handlers, x.status = .done) :=
  ⟨h.inv.h.closedThen, fun ⟨a, b⟩ => h.inv.h.closedIf a b⟩

/-- **Closed means clean**: once `_closed_event` is set no handler is alive, no request
registered before the loss is still waiting, the hook ran exactly once, the message loop is gone
and nobody is still inside `close()`. -/
theorem closed_implies_clean {s : S} (h : Reachable s) (hc : s.closedEvent = true) :
    (∀ x ∈ s.handlers, x.status = .done) ∧
    (∀ t ∈ s.tickets, t.afterLoss = false → t.status ≠ .pending) ∧
    s.hookRuns = 1 ∧ s.loopAlive = false ∧
    (∀ c ∈ s.closers, ∃ a, c.st = .returned a) := by
  have i := h.inv
  have hl := (i.h.closedThen hc).1
  refine ⟨(i.h.closedThen hc).2, i.t.settled hl, ?_, ?_, i.c.closedAll hc⟩
  · have := i.h.hook; simpa [hl] using this
  · have := i.h.loop; simpa [hl] using this

example : (run (init 30 false) [.request 1 .slow, .outgoing 1, .appClose 1 7]).closedEvent = true := by
  decide

/-! ## waiters -/

theorem lose_tickets {q : S} (hl : q.lost = false) : q.lose.tickets = q.tickets.map cancelTicket := by
  unfold S.lose
  simp only [hl, Bool.false_eq_true, ↓reduceIte, settle_tickets]
  rfl

/-- **Delivery of `connection_lost` cancels every pending request** (and touches no other). -/
theorem waiters_cancelled_at_loss {s : S} (hl : s.lost = false) :
    s.lose.lost = true ∧
    (∀ t ∈ s.tickets, t.status = .pending → { t with status := .cancelled } ∈ s.lose.tickets) ∧
    (∀ t ∈ s.tickets, t.status ≠ .pending → t ∈ s.lose.tickets) := by
  refine ⟨lose_lost s, ?_, ?_⟩
  · intro t ht hp
    rw [lose_tickets hl]
    refine List.mem_map.mpr ⟨t, ht, ?_⟩
    unfold cancelTicket; simp [hp]
  · intro t ht hp
    rw [lose_tickets hl]
    refine List.mem_map.mpr ⟨t, ht, ?_⟩
    unfold cancelTicket
    split
    · rename_i e; exact absurd e hp
    · rfl

/-- how an event may change the ticket list when it is not the clock and not about tickets:
either not at all, or - if it brought the loss - by cancelling every pending one -/
def TicketsKeptOrCancelled (q q' : S) : Prop :=
  (q'.lost = q.lost ∧ q'.tickets = q.tickets) ∨
  (q.lost = false ∧ q'.lost = true ∧ q'.tickets = q.tickets.map cancelTicket)

theorem lose_tkc (q : S) : TicketsKeptOrCancelled q q.lose := by
  rcases Bool.eq_false_or_eq_true q.lost with hl | hl
  · left; rw [lose_lost_of_lost hl]; exact ⟨rfl, rfl⟩
  · right; exact ⟨hl, lose_lost q, lose_tickets hl⟩

theorem TicketsKeptOrCancelled.of_eq {q q1 q' : S} (h : TicketsKeptOrCancelled q1 q')
    (hl : q1.lost = q.lost) (ht : q1.tickets = q.tickets) : TicketsKeptOrCancelled q q' := by
  unfold TicketsKeptOrCancelled at h ⊢
  rw [hl, ht] at h; exact h

theorem doAbort_tkc (q : S) : TicketsKeptOrCancelled q q.doAbort := by
  unfold S.doAbort; exact (lose_tkc _).of_eq rfl rfl

theorem transportClose_tkc (q : S) : TicketsKeptOrCancelled q q.transportClose := by
  rcases transportClose_cases q with ⟨_, e⟩ | ⟨_, _, e⟩ | ⟨_, _, e⟩ <;> rw [e]
  · left; exact ⟨rfl, rfl⟩
  · left; exact ⟨rfl, rfl⟩
  · exact (lose_tkc _).of_eq rfl rfl

/-- **Whatever brings the loss - a closing handler, the link, `close()`, `abort()` - it
cancels every pending request**: each of these events leaves the tickets alone or, if the
connection was lost by it, turns exactly the pending ones into cancelled ones. -/
theorem loss_cancels_waiters (s : S) (e : Event)
    (he : (∃ i k, e = .request i k) ∨ e = .drop ∨ (∃ c fa, e = .appClose c fa) ∨ e = .abort ∨
          (∃ i, e = .handlerFinish i)) :
    TicketsKeptOrCancelled s (step s e) := by
  rcases he with ⟨i, k, rfl⟩ | rfl | ⟨c, fa, rfl⟩ | rfl | ⟨i, rfl⟩
  · unfold step; simp only []
    split
    · left; exact ⟨rfl, rfl⟩
    · unfold S.startHandler
      cases k with
      | quick => left; exact ⟨rfl, rfl⟩
      | slow => left; exact ⟨rfl, rfl⟩
      | stubborn r => left; exact ⟨rfl, rfl⟩
      | aborter => exact (doAbort_tkc _).of_eq rfl rfl
      | closer fa =>
        simp only []
        split
        · exact (doAbort_tkc _).of_eq rfl rfl
        · exact (transportClose_tkc _).of_eq rfl rfl
  · unfold step; exact (lose_tkc _).of_eq rfl rfl
  · unfold step; simp only []
    split
    · left; exact ⟨rfl, rfl⟩
    · split
      · left; exact ⟨rfl, rfl⟩
      · split
        · exact (doAbort_tkc _).of_eq rfl rfl
        · exact (transportClose_tkc _).of_eq rfl rfl
  · exact doAbort_tkc s
  · unfold step; simp only []
    split <;> (left; exact ⟨rfl, rfl⟩)

/-- the same for a second of the clock, where the loss can only come from a `force_after`
abort: request timeouts due at that very instant fire first, everything else pending is
cancelled -/
theorem tick_cancels_waiters (s : S) :
    (s.tick.lost = s.lost ∧ s.tick.tickets = s.tickets.map (expireTicket (s.now + 1))) ∨
    (s.lost = false ∧ s.tick.lost = true ∧
      s.tick.tickets = (s.tickets.map (expireTicket (s.now + 1))).map cancelTicket) := by
  have h : TicketsKeptOrCancelled s.bump.expire s.bump.expire.fireClosers := by
    unfold S.fireClosers; simp only []
    split
    · left; exact ⟨rfl, rfl⟩
    · exact (lose_tkc _).of_eq rfl rfl
  unfold S.tick
  rw [settle_lost, settle_tickets]
  exact h

/-- **After the loss no request registered before it is still waiting; a request is only ever
cancelled by the loss; one registered after the hook ran is never cancelled or answered.** -/
theorem waiters_settled {s : S} (h : Reachable s) :
    (s.lost = true → ∀ t ∈ s.tickets, t.afterLoss = false → t.status ≠ .pending) ∧
    (∀ t ∈ s.tickets, t.status = .cancelled → s.lost = true ∧ t.afterLoss = false) ∧
    (∀ t ∈ s.tickets, t.afterLoss = true → t.status = .pending ∨ t.status = .timedOut t.deadline) := by
  have i := h.inv.t
  refine ⟨i.settled, ?_, ?_⟩
  · intro t ht hc
    rcases Bool.eq_false_or_eq_true s.lost with hl | hl
    · refine ⟨hl, ?_⟩
      rcases Bool.eq_false_or_eq_true t.afterLoss with ha | ha
      · exact absurd hc (i.afterFlag t ht ha).2.1
      · exact ha
    · exact absurd hc (i.noCancel hl t ht)
  · intro t ht ha
    have := i.afterFlag t ht ha
    cases hs : t.status with
    | pending => left; rfl
    | answered => exact absurd hs this.2.2
    | cancelled => exact absurd hs this.2.1
    | timedOut a => right; rw [(i.timedAt t ht a hs).1]

/-- **Waiters are cancelled** (the name used in DESIGN.md): after the loss every request that
was registered before it has been settled - cancelled if it was pending when `connection_lost`
was delivered (`waiters_cancelled_at_loss`, `loss_cancels_waiters`, `tick_cancels_waiters`), and
cancellation never comes from anywhere else. -/
theorem waiters_cancelled {s : S} (h : Reachable s) (hl : s.lost = true) :
    ∀ t ∈ s.tickets, t.afterLoss = false →
      t.status = .answered ∨ t.status = .cancelled ∨ t.status = .timedOut t.deadline := by
  intro t ht ha
  have i := h.inv.t
  cases hs : t.status with
  | pending => exact absurd hs (i.settled hl t ht ha)
  | answered => left; rfl
  | cancelled => right; left; rfl
  | timedOut a => right; right; rw [(i.timedAt t ht a hs).1]

/-- a request's timeout fires at exactly its deadline: in every reachable state a pending one
has its deadline ahead, a timed-out one timed out at its deadline -/
theorem request_timeout_exact {s : S} (h : Reachable s) :
    (∀ t ∈ s.tickets, t.status = .pending → s.now < t.deadline) ∧
    (∀ t ∈ s.tickets, ∀ a, t.status = .timedOut a → a = t.deadline ∧ a ≤ s.now) :=
  ⟨h.inv.t.pendingLt, h.inv.t.timedAt⟩

/-- **A request registered after the hook ran ends with TaskTimeout at exactly its deadline**
when time passes (nobody cancels it, nobody answers it). -/
theorem late_request_times_out (n : Nat) : ∀ {s : S}, Inv s → ∀ t ∈ s.tickets,
    t.status = .pending → t.afterLoss = true → t.deadline = s.now + n →
    { t with status := .timedOut t.deadline } ∈ (s.advance n).tickets := by
  induction n with
  | zero =>
    intro s i t ht hp _ hd
    have := i.t.pendingLt t ht hp
    omega
  | succ n ih =>
    intro s i t ht hp ha hd
    have hl := (i.t.afterFlag t ht ha).1
    have htk : s.tick.tickets = s.tickets.map (expireTicket (s.now + 1)) := by
      rcases tick_cancels_waiters s with ⟨_, e⟩ | ⟨e, _⟩
      · exact e
      · rw [hl] at e; cases e
    show _ ∈ (s.tick.advance n).tickets
    by_cases hn : n = 0
    · subst hn
      show _ ∈ s.tick.tickets
      rw [htk]
      refine List.mem_map.mpr ⟨t, ht, ?_⟩
      unfold expireTicket
      simp [hp, hd]
    · have hmem : t ∈ s.tick.tickets := by
        rw [htk]
        refine List.mem_map.mpr ⟨t, ht, ?_⟩
        unfold expireTicket
        have : ¬ t.deadline = s.now + 1 := by omega
        simp [hp, this]
      exact ih (tick_inv i) t hmem hp ha (by rw [tick_now]; omega)

example :
    (run (init 5 false) [.drop, .outgoing 1, .advance 5]).tickets =
      [⟨1, .timedOut 5, 5, true⟩] := by decide

/-! ## from loss to closed -/

/-- **Loss leads to closed**: from every reachable state in which the connection is lost,
letting the largest remaining reaction of a stubborn handler pass sets `_closed_event` - and
it stays set (`n` may be any larger amount of time). -/
theorem loss_leads_to_closed {s : S} (h : Reachable s) (hl : s.lost = true) (n : Nat)
    (hn : maxRemaining s ≤ n) : (s.advance n).closedEvent = true := by
  apply closed_after n h.inv.h hl
  intro x hx u hu
  have := remaining_le_max s x hx
  simp only [remaining, hu] at this
  omega

/-- ... and nothing can postpone it: **no new handler starts after the loss** - every event
leaves the set of handlers as it is. -/
theorem no_handler_after_loss (s : S) (hl : s.lost = true) (e : Event) :
    (step s e).handlers.map (·.id) = s.handlers.map (·.id) := by
  have fr : ∀ (n : Nat) (l : List Handler),
      (l.map (finishReaction n)).map (·.id) = l.map (·.id) := by
    intro n l
    simp only [List.map_map]
    apply List.map_congr_left
    intro x _
    simp only [Function.comp]
    unfold finishReaction
    split
    · split <;> rfl
    · rfl
  cases e with
  | request i k => simp [step, hl]
  | handlerFinish i => simp [step, hl]
  | outgoing k => unfold step; simp only []; split <;> rfl
  | answer k => simp [step, hl]
  | drop =>
    show (S.lose { s with closing := true }).handlers.map (·.id) = _
    rw [lose_handlers_of_lost (q := { s with closing := true }) hl]
  | appClose c fa =>
    have tc : ∀ q : S, q.lost = true → q.transportClose.handlers = q.handlers := by
      intro q hq
      rcases transportClose_cases q with ⟨_, e⟩ | ⟨_, _, e⟩ | ⟨_, _, e⟩ <;> rw [e]
      exact lose_handlers_of_lost (q := { q with closing := true }) hq
    unfold step; simp only []
    split
    · rfl
    · split
      · rfl
      · split
        · unfold S.doAbort
          refine congrArg _ (lose_handlers_of_lost ?_)
          exact hl
        · refine congrArg _ (tc _ ?_)
          exact hl
  | abort =>
    show (S.lose { s with aborts := s.aborts ++ [s.now], closing := true }).handlers.map (·.id) = _
    rw [lose_handlers_of_lost (q := { s with aborts := s.aborts ++ [s.now], closing := true }) hl]
  | advance dt =>
    show (s.advance dt).handlers.map (·.id) = _
    induction dt generalizing s with
    | zero => rfl
    | succ n ih =>
      show (s.tick.advance n).handlers.map (·.id) = _
      rw [ih s.tick (tick_lost hl), tick_handlers_of_lost hl, fr]

/-- **No data after the loss**: once the asyncio transport is closing (or the connection is
lost) a request or a response from the peer changes nothing. -/
theorem no_data_after_loss (s : S) (hc : s.closing = true ∨ s.lost = true) (i : Nat) (k : HKind) :
    step s (.request i k) = s ∧ step s (.answer i) = s := by
  rcases hc with hc | hc <;> simp [step, hc]

example : (run (init 30 false) [.request 1 (.stubborn 3), .drop]).closedEvent = false ∧
    (run (init 30 false) [.request 1 (.stubborn 3), .drop, .advance 3]).closedEvent = true := by
  decide

/-! ## close() -/

/-- **`close()` on a closed connection returns at once.** -/
theorem close_returns_immediately (s : S) (hc : s.closedEvent = true) (c fa : Nat)
    (hu : usedCloser s c = false) :
    (step s (.appClose c fa)).closers = s.closers ++ [⟨c, s.now, s.now + fa, .returned s.now⟩] := by
  simp [step, hu, hc]

/-- **Every `close()` returns exactly when `_closed_event` is set** (or at once if called
later): in every reachable state, if `_closed_event` was set at instant `T` every task that
called `close()` has returned, at `max (its call instant) T`; if it is not set nobody has
returned. -/
theorem close_returns_at_closed {s : S} (h : Reachable s) :
    (∀ T, s.closedAt = some T → s.closedEvent = true ∧
      ∀ c ∈ s.closers, c.st = .returned (max c.start T)) ∧
    (s.closedEvent = true → s.closedAt ≠ none) ∧
    (s.closedEvent = false → ∀ c ∈ s.closers, ∀ a, c.st ≠ .returned a) := by
  have i := h.inv.c
  refine ⟨fun T hT => ⟨(i.closedAtSome T hT).1, (i.closedAtSome T hT).2.2⟩, ?_, i.openNone⟩
  intro hc hn
  have := i.closedAtNone hn
  simp [hc] at this

/-- **If the graceful close does not finish in time an abort is forced - at exactly
`force_after` - and the task keeps waiting**: in every reachable state a task inside `close()`
whose deadline has been reached has either returned or has called `abort()` at exactly its
deadline (which brought the loss) and is still waiting; one whose deadline is still ahead has not
aborted. -/
theorem close_forces_abort {s : S} (h : Reachable s) (c : Closer) (hc : c ∈ s.closers) :
    (c.deadline ≤ s.now →
      (∃ a, c.st = .returned a) ∨
      (c.st = .abortedWaiting ∧ c.deadline ∈ s.aborts ∧ s.lost = true)) ∧
    (s.now < c.deadline → c.st ≠ .abortedWaiting) := by
  have i := h.inv.c
  constructor
  · intro hd
    cases hs : c.st with
    | waiting => have := i.waitingLt c hc hs; omega
    | abortedWaiting => right; exact ⟨rfl, (i.aborted c hc hs).2, i.abortedLost c hc hs⟩
    | returned a => left; exact ⟨a, rfl⟩
  · intro hd hs
    have := (i.aborted c hc hs).1
    omega

/-- **Every `close()` returns**: from every reachable state, for every task inside `close()`,
after its remaining `force_after` time plus the longest reaction of a handler to its
cancellation, `_closed_event` is set and every task inside `close()` has returned. -/
theorem close_returns {s : S} (h : Reachable s) (c : Closer) (hc : c ∈ s.closers) (n : Nat)
    (hn : (c.deadline - s.now) + reactBound s ≤ n) :
    (s.advance n).closedEvent = true ∧ ∀ c' ∈ (s.advance n).closers, ∃ a, c'.st = .returned a := by
  have i := h.inv
  obtain ⟨m, rfl⟩ : ∃ m, n = (c.deadline - s.now) + m := ⟨n - (c.deadline - s.now), by omega⟩
  have hm : reactBound s ≤ m := by omega
  rw [advance_add]
  have i1 := advance_inv (c.deadline - s.now) i
  have hl : (s.advance (c.deadline - s.now)).lost = true :=
    lost_by_deadline _ i ⟨c, hc, by omega⟩
  have hrb : RB (s.advance (c.deadline - s.now)) m :=
    advance_RB _ (fun x hx => Nat.le_trans (RB_reactBound s x hx) hm)
  have hce := closed_after m i1.h hl (RB_reacting hrb)
  exact ⟨hce, (advance_inv m i1).c.closedAll hce⟩

theorem Reachable.ginv {s : S} (h : Reachable s) : GInv s := by
  obtain ⟨rt, st, es, hrt, rfl⟩ := h
  exact run_ginv es (init_inv rt st hrt) (init_ginv rt st)

/-- **A connection is never left half closed**: while the asyncio transport is closing but
`connection_lost` has not come (a graceful close that does not complete), somebody - an
application task or a handler - is inside `close(force_after)` with its timer still ahead. -/
theorem never_half_closed {s : S} (h : Reachable s) (hc : s.closing = true) (hl : s.lost = false) :
    (∃ c ∈ s.closers, c.st = .waiting ∧ s.now < c.deadline) ∨
    (∃ x ∈ s.handlers, x.status = .run ∧ ∃ d, x.kind = .closer d ∧ s.now < d) := by
  rcases h.ginv hc hl with ⟨c, hcm, hw⟩ | ⟨x, hx, hr, d, hk⟩
  · left; exact ⟨c, hcm, hw, h.inv.c.waitingLt c hcm hw⟩
  · right; exact ⟨x, hx, hr, d, hk, h.inv.h.closerLt x hx d hk hr⟩

/-- **Closing always ends closed**: from every reachable state in which the transport is
closing - after a drop, an abort, a completed or a stalled graceful close, from an application
task or from a handler - there is a time after which `_closed_event` is set for good. -/
theorem closing_leads_to_closed {s : S} (h : Reachable s) (hc : s.closing = true) :
    ∃ n, ∀ m, n ≤ m → (s.advance m).closedEvent = true := by
  rcases Bool.eq_false_or_eq_true s.lost with hl | hl
  · exact ⟨0 + reactBound s, closed_after_lost_by h.inv 0 hl⟩
  · rcases never_half_closed h hc hl with ⟨c, hcm, _, _⟩ | ⟨x, hx, hr, d, hk, _⟩
    · exact ⟨(c.deadline - s.now) + reactBound s,
        closed_after_lost_by h.inv _ (lost_by_deadline _ h.inv ⟨c, hcm, by omega⟩)⟩
    · exact ⟨(d - s.now) + reactBound s,
        closed_after_lost_by h.inv _
          (lost_by_handler_deadline _ h.inv ⟨x, hx, hr, d, hk, by omega⟩)⟩

example : (run (init 30 true) [.request 1 .slow, .request 2 (.closer 7)]).closing = true ∧
    (run (init 30 true) [.request 1 .slow, .request 2 (.closer 7)]).lost = false ∧
    (run (init 30 true) [.request 1 .slow, .request 2 (.closer 7), .advance 7]).closedEvent = true := by
  decide

/-- **Closing is safe from any context, concurrently and repeatedly**: any number of
`appClose` / closing-handler / abort / drop events, in any order and interleaved with anything
else, keep every invariant - in particular the hook still runs once, and the closers return
together. (This is `Reachable.inv` spelled out for the events in question.) -/
theorem close_reentrant {s : S} (h : Reachable s) (es : List Event) :
    Inv (run s es) ∧ (run s es).hookRuns ≤ 1 := by
  have hr : Reachable (run s es) := by
    induction es generalizing s with
    | nil => exact h
    | cons e es ih => exact ih (h.step e)
  exact ⟨hr.inv, (hook_at_most_once hr).1⟩

/-! ## a conversation: two handlers (one stubborn), two outgoing requests, two concurrent
closers and a drop -/

def demo : List Event :=
  [.request 1 .slow, .request 2 (.stubborn 3), .outgoing 1, .outgoing 2, .answer 1,
   .appClose 1 7, .appClose 2 7, .drop, .advance 1]

example : (run (init 30 false) demo).hookRuns = 1 ∧
    (run (init 30 false) demo).tickets.map (·.status) = [.answered, .cancelled] ∧
    (run (init 30 false) demo).closers.map (·.st) = [.waiting, .waiting] ∧
    (run (init 30 false) demo).closedEvent = false ∧
    (run (init 30 false) (demo ++ [.advance 2])).closedEvent = true ∧
    (run (init 30 false) (demo ++ [.advance 2])).closers.map (·.st) = [.returned 3, .returned 3] ∧
    (run (init 30 false) (demo ++ [.advance 2, .appClose 3 7])).closers.map (·.st) =
      [.returned 3, .returned 3, .returned 3] := by decide

/-- the same on a transport whose graceful close never completes: the first closer's
`force_after` brings the abort at exactly 7, the second one's (called at 1) at 8 - still waiting
for the stubborn handler -, both return at 10 -/
example :
    let s := run (init 30 true)
      [.request 1 .slow, .request 2 (.stubborn 3), .outgoing 1, .appClose 1 7, .advance 1,
       .appClose 2 7, .advance 20]
    s.aborts = [7, 8] ∧ s.closers.map (·.st) = [.returned 10, .returned 10] ∧
    s.tickets.map (·.status) = [.cancelled] ∧ s.hookRuns = 1 := by decide +kernel

/-! ## tie to the source (`Aiorpcx.Facts.C08`, regenerated from /repo on every run) -/

open Facts.C08 in
/-- `connection_lost` of both transports, run on a stub in all four flag combinations: opens
the send gate and fails the framer with ConnectionLostError (that is what ends the message loop:
the model's `lose` is unconditional), and does not itself set `_closed_event` (that is left to
`process_messages`' `finally`, the model's `settle`). -/
theorem facts_connection_lost :
    lostRS = [⟨false, false, true, true, false⟩, ⟨false, true, true, true, false⟩,
              ⟨true, false, true, true, false⟩, ⟨true, true, true, true, false⟩] ∧
    lostUS = lostRS := by decide

open Facts.C08 in
/-- `is_closing()` is the model's `S.isClosing` -/
theorem facts_is_closing :
    isClosingRS = [false, true].flatMap (fun ce => [false, true].map (fun tc =>
      ⟨ce, tc, ({ closedEvent := ce, closing := tc } : S).isClosing⟩)) ∧
    isClosingUS = isClosingRS := by decide

/-- the model's account of one of the `close(force_after)` table runs: the graceful close
completing `d` seconds after `close()` is a stubborn handler reacting for `d` seconds; a close
that never completes is a stalled transport, the 2 s after `abort()` again a reaction -/
def closeRow (already : Bool) (graceful : Option Nat) (fa : Nat) : Facts.C08.CloseRow :=
  let pre : List Event :=
    if already then [.drop] else
    match graceful with
    | some 0 => []
    | some d => [.request 1 (.stubborn d)]
    | none => [.request 1 (.stubborn 2)]
  let s := run (init 30 (graceful.isNone && !already)) (pre ++ [.appClose 1 fa, .advance 20])
  ⟨already, graceful, fa, 1, s.aborts,
   match s.closers with
   | [c] => (match c.st with | .returned a => some a | _ => none)
   | _ => none,
   true⟩

open Facts.C08 in
/-- the real `close(force_after)` of both transports, run on the virtual loop in six scenarios
(already closed; graceful close done after 0 / 3 / 9 s with force_after 7; never done with
force_after 7 / 1), does what the model does: one transport.close(), an abort at exactly
`force_after` iff not closed by then, return at `_closed_event`, no exception. -/
theorem facts_close_table :
    closeRS = [closeRow true none 7, closeRow false (some 0) 7, closeRow false (some 3) 7,
               closeRow false (some 9) 7, closeRow false none 7, closeRow false none 1] ∧
    closeUS = closeRS ∧ noTransportRS = [true, true] ∧ noTransportUS = [true, true] ∧
    closeShapeRS = true ∧ closeShapeUS = true ∧ sessionCloseDelegates = true ∧
    0 < defaultForceAfter := by decide +kernel

open Facts.C08 in
/-- `process_messages` sets `_closed_event` however `session.process_messages` ends (return,
ConnectionLostError, another exception, cancellation), structurally because of
`finally: self._closed_event.set()`; ConnectionLostError - the way the message loop ends on a
loss - is among the exceptions it swallows. -/
theorem facts_process_messages :
    pmClosedRS = [true, true, true, true] ∧ pmClosedUS = [true, true, true, true] ∧
    pmFinallySetsClosedRS = true ∧ pmFinallySetsClosedUS = true ∧
    pmCatchesRS.contains "ConnectionLostError" = true ∧
    pmCatchesUS.contains "ConnectionLostError" = true := by decide

open Facts.C08 in
/-- the hook runs exactly once however the message loop ends (`finally`), the loop lives in the
session's TaskGroup whose exit `process_messages` awaits, and RPCSession's hook cancels the
pending requests: `cancel_pending_requests` cancels what is pending and leaves what is done
(the model's `cancelTicket`). -/
theorem facts_hook_and_group :
    hookRuns = [1, 1, 1] ∧ hookInFinally = true ∧ loopInGroup = true ∧
    rpcHookCancelsPending = true ∧
    cancelAfter = ([⟨0, .answered, 0, false⟩, ⟨1, .pending, 0, false⟩, ⟨2, .cancelled, 0, false⟩,
                    ⟨3, .pending, 0, false⟩].map fun t =>
      match (cancelTicket t).status with
      | .answered => "result"
      | .cancelled => "cancelled"
      | _ => "pending") := by decide

open Facts.C08 in
/-- the wait for a response is bounded by a positive `sent_request_timeout` (hypothesis
`0 < reqTimeout` of `Reachable`) -/
theorem facts_request_timeout : requestWaitBounded = true ∧ 0 < sentRequestTimeoutMs := by decide

end Aiorpcx.C08
