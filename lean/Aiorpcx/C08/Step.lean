import Aiorpcx.C08.Inv
/-! Every event of the C08 lifecycle model preserves the invariants, hence they hold in every
reachable state. -/
namespace Aiorpcx.C08

/-! ## the clock tick -/

theorem anyDue_false {s : S} (h : s.anyDue = false) :
    (∀ c ∈ s.closers, ¬ (c.st = .waiting ∧ c.deadline ≤ s.now)) := by
  unfold S.anyDue at h
  simp only [Bool.or_eq_false_iff, List.any_eq_false] at h
  intro c hc ⟨h1, h2⟩
  have := h.1 c hc
  simp [closerDue, h1, h2] at this

/-- the state in the middle of a tick: the clock has moved, every timer due has fired, the
limiter has handed out its slots; what is left to do is the abort (if some `close()` was cut
short) and `settle` -/
def S.fired (s : S) : S :=
  let s1 : S := { s with now := s.now + 1 }
  S.promote
    { s1 with tickets := s1.tickets.map (expireTicket s1.now),
              handlers := s1.handlers.map (fireHandler s1.now),
              closers := s1.closers.map (abortCloser s1.now) }

theorem tick_eq (s : S) :
    s.tick = if ({ s with now := s.now + 1 } : S).anyDue then s.fired.doAbort.settle else s.fired.settle := rfl

theorem fired_now (s : S) : s.fired.now = s.now + 1 := rfl
theorem fired_lost (s : S) : s.fired.lost = s.lost := rfl
theorem fired_handlers (s : S) : s.fired.handlers = s.handlers.map (fireHandler (s.now + 1)) := rfl
theorem fired_closers (s : S) : s.fired.closers = s.closers.map (abortCloser (s.now + 1)) := rfl

/-- the groups of the fired state that do not depend on what the loss will be -/
theorem fired_hi {s : S} (i : Inv s) :
    HI s.fired.now s.fired.down s.fired.closing s.fired.lost s.fired.closedEvent s.fired.hookRuns
      s.fired.procTimeout s.fired.handlers := by
  refine ⟨i.h.ptPos, i.h.hook, i.h.lostDown, i.h.lostClosing, ?_, ?_⟩
  · intro hce
    refine ⟨(i.h.closedThen hce).1, ?_⟩
    show ∀ h ∈ s.handlers.map (fireHandler (s.now + 1)), h.status = .done
    exact forall_map (i.h.closedThen hce).2 fun _ hd => fireHandler_done hd
  · show ∀ h ∈ s.handlers.map (fireHandler (s.now + 1)), HOk (s.now + 1) s.down s.closing h
    exact forall_map i.h.ok fun _ hk => fireHandler_ok hk

theorem fired_ti {s : S} (i : Inv s) :
    TI s.fired.now s.fired.down s.fired.reqTimeout s.fired.tickets := by
  refine ⟨i.t.pos, ?_⟩
  show ∀ t ∈ promoteList (s.now + 1) s.reqTimeout _ (s.tickets.map (expireTicket (s.now + 1))),
    TOk (s.now + 1) s.down t
  exact promoteList_ok i.t.pos (forall_map i.t.ok fun _ hk => expireTicket_ok hk)

/-- the tasks inside `close()` after the timers fired, judged against the instant of loss `la'`
as it will be after the tick -/
theorem fired_ci {s : S} (i : Inv s) (la' : Option Nat) (hm : ∀ t, s.lostAt = some t → la' = some t)
    (hl : ∀ c ∈ s.closers, c.st = .waiting → c.deadline ≤ s.now + 1 →
      ∃ t, la' = some t ∧ t ≤ c.deadline) :
    CI (s.now + 1) s.closing s.closedEvent s.closedAt la' s.fired.closers := by
  refine ⟨?_, ?_, i.c.caNone, ?_⟩
  · show ∀ c ∈ s.closers.map (abortCloser (s.now + 1)), COk (s.now + 1) s.closedEvent s.closedAt la' c
    intro c hc
    obtain ⟨x, hx, rfl⟩ := List.mem_map.mp hc
    exact abortCloser_ok (i.c.ok x hx) hm (hl x hx)
  · show s.closers.map (abortCloser (s.now + 1)) ≠ [] → s.closing = true
    intro hne; exact i.c.closersClosing (by simpa using hne)
  · intro T hT
    obtain ⟨h1, h2, t, ht, h3⟩ := i.c.caSome T hT
    exact ⟨h1, Nat.le_succ_of_le h2, t, hm t ht, h3⟩

theorem fired_li {s : S} (i : Inv s) :
    LI (s.now + 1) s.lost s.stalled s.lostAt s.lostBy s.abortedAt :=
  ⟨i.l.laNone, fun t ht => ⟨(i.l.laSome t ht).1, Nat.le_succ_of_le (i.l.laSome t ht).2⟩,
   i.l.lbNone, i.l.lbSome, i.l.aborted, i.l.byAbort, i.l.byGraceful⟩

theorem tick_inv {s : S} (i : Inv s) : Inv s.tick := by
  rw [tick_eq]
  rcases Bool.eq_false_or_eq_true s.lost with hl | hl
  · -- already lost: an abort changes nothing
    obtain ⟨t, ht, htn⟩ := i.l.la_some hl
    have i0 : Inv0 s.fired :=
      { fixed := i.fixed, h := fired_hi i, t := fired_ti i
        c := fired_ci i s.lostAt (fun _ h => h) (by
          intro c hc hw _
          have := (i.c.ok c hc)
          unfold COk at this
          simp only [hw] at this
          exact ⟨t, ht, by omega⟩)
        l := fired_li i }
    have : s.fired.doAbort = s.fired := doAbort_of_lost (s := s.fired) hl
    rw [this]
    split <;> exact settle_inv i0
  · split
    · -- somebody's wait inside close() is cut short now: abort, loss, teardown
      have hla := i.l.la_none hl
      have hi := fired_hi i
      rw [fired_lost, hl] at hi
      have l0 := fired_li i
      rw [hl] at l0
      have hce := i.h.ce_false hl
      refine settle_inv (doAbort_inv_of_not_lost (s := s.fired) hl i.fixed hi (fired_ti i) ?_ l0).toInv0
      have c0 := fired_ci i (some (s.now + 1)) (by rw [hla]; intro t h; cases h) (by
        intro c hc hw hd
        have := (i.c.ok c hc)
        unfold COk at this
        simp only [hw] at this
        exact ⟨_, rfl, by omega⟩)
      exact ⟨c0.ok, fun _ => rfl, c0.caNone, c0.caSome⟩
    · rename_i hnd
      have hnd : ({ s with now := s.now + 1 } : S).anyDue = false := by simpa using hnd
      have hno := anyDue_false hnd
      refine settle_inv
        { fixed := i.fixed, h := fired_hi i, t := fired_ti i
          c := fired_ci i s.lostAt (fun _ h => h) (by
            intro c hc hw hd
            exact absurd ⟨hw, hd⟩ (hno c hc))
          l := fired_li i }

theorem advance_inv (n : Nat) : ∀ {s : S}, Inv s → Inv (s.advance n) := by
  induction n with
  | zero => intro s h; exact h
  | succ n ih => intro s h; exact ih (tick_inv h)

/-! ## events -/

theorem Inv.not_down_facts {s : S} (i : Inv s) (hd : s.down = false) :
    s.lost = false ∧ s.closedEvent = false := by
  have hl := i.h.not_lost_of_not_down hd
  exact ⟨hl, i.h.ce_false hl⟩

/-- a new handler (not one blocked in `close()`) on a connection that is up -/
theorem addHandler_inv {s : S} (i : Inv s) (hd : s.down = false) (x : Handler)
    (hx : HOk s.now false s.closing x) : Inv { s with handlers := s.handlers ++ [x] } := by
  obtain ⟨_, hce⟩ := i.not_down_facts hd
  refine { fixed := i.fixed, h := ?_, t := i.t, c := i.c, l := i.l, settled := ?_ }
  · refine ⟨i.h.ptPos, i.h.hook, i.h.lostDown, i.h.lostClosing, ?_, ?_⟩
    · show s.closedEvent = true → _
      rw [hce]; intro h; cases h
    · exact forall_append_one i.h.ok (by rw [hd]; exact hx)
  · intro h; rw [hd] at h; cases h

/-- a new handler that has just called `transport.close()`: the state with `closing` set -/
theorem addCloserH_inv {s : S} (i : Inv s) (hd : s.down = false) (x : Handler)
    (hx : HOk s.now false true x) :
    Inv { s with handlers := s.handlers ++ [x], closing := true } := by
  have := addHandler_inv (s := { s with closing := true }) i.setClosing hd x hx
  exact this

theorem startCloser_inv {s : S} (i : Inv s) (hd : s.down = false) (hc : s.closing = false)
    (j d pdl : Nat) (im : Bool) (hdl : im = false → s.now < d ∧ d ≤ pdl) :
    Inv (s.startCloser j d pdl im) := by
  unfold S.startCloser
  cases im with
  | true =>
    simp only [↓reduceIte]
    have i1 : Inv { s with handlers := s.handlers ++ [⟨j, .closer d, .done, pdl⟩] } :=
      addHandler_inv i hd _ (by simp [HOk])
    exact doAbort_inv (transportClose_inv i1)
  | false =>
    simp only [Bool.false_eq_true, ↓reduceIte]
    obtain ⟨h1, h2⟩ := hdl rfl
    have i1 : Inv { s with handlers := s.handlers ++ [⟨j, .closer d, .run, pdl⟩], closing := true } :=
      addCloserH_inv i hd _ (by simp [HOk]; exact ⟨h1, h2⟩)
    have hl := (i.not_down_facts hd).1
    rcases transportClose_cases { s with handlers := s.handlers ++ [⟨j, .closer d, .run, pdl⟩] } with
      ⟨h, _⟩ | ⟨_, _, e⟩ | ⟨_, hst, e⟩
    · rw [hc] at h; cases h
    · rw [e]; exact i1
    · rw [e]
      have := lose_inv i1 .graceful (fun _ => hst) (by simp)
      exact this

theorem startHandler_inv {s : S} (i : Inv s) (hd : s.down = false) (hc : s.closing = false)
    (j : Nat) (k : HKind) : Inv (s.startHandler j k) := by
  have hpt := i.h.ptPos
  unfold S.startHandler
  cases k with
  | quick => exact addHandler_inv i hd _ (by simp [HOk])
  | slow => exact addHandler_inv i hd _ (by simp [HOk]; omega)
  | stubborn r => exact addHandler_inv i hd _ (by simp [HOk]; omega)
  | aborter => exact doAbort_inv (addHandler_inv i hd _ (by simp [HOk]))
  | thenClose fa => exact addHandler_inv i hd _ (by simp [HOk]; omega)
  | closer fa =>
    simp only []
    apply startCloser_inv i hd hc
    intro hfa
    have hfa : fa ≠ 0 := by simpa using hfa
    unfold closerDeadline
    simp only [i.fixed, ↓reduceIte]
    omega

theorem finishHandler_of_down {i n : Nat} {c : Bool} {h : Handler} (hk : HOk n true c h) :
    finishHandler i h = h := by
  unfold finishHandler HOk at *
  grind

theorem handlerFinish_inv {s : S} (i : Inv s) (j : Nat) :
    Inv { s with handlers := s.handlers.map (finishHandler j) } := by
  refine { fixed := i.fixed, h := ?_, t := i.t, c := i.c, l := i.l, settled := ?_ }
  · refine ⟨i.h.ptPos, i.h.hook, i.h.lostDown, i.h.lostClosing, ?_, ?_⟩
    · intro hce
      exact ⟨(i.h.closedThen hce).1, forall_map (i.h.closedThen hce).2 fun _ hd => finishHandler_done hd⟩
    · exact forall_map i.h.ok fun _ hk => finishHandler_ok hk
  · intro hd hall
    apply i.settled hd
    intro x hx
    have hk := i.h.ok x hx
    rw [hd] at hk
    have := hall (finishHandler j x) (List.mem_map.mpr ⟨x, hx, rfl⟩)
    rwa [finishHandler_of_down hk] at this

/-- a waiting handler goes on to call `close()`: the state with `closing` set -/
theorem resume_inv {s : S} (i : Inv s) (j : Nat) :
    Inv { s with handlers := s.handlers.map (toCloser s.fixed s.now j), closing := true } := by
  have e : toCloser s.fixed s.now j = toCloser true s.now j := by rw [i.fixed]
  rw [e]
  refine { fixed := i.fixed, h := ?_, t := i.t, c := ⟨i.c.ok, fun _ => rfl, i.c.caNone, i.c.caSome⟩,
           l := i.l, settled := ?_ }
  · refine ⟨i.h.ptPos, i.h.hook, i.h.lostDown, fun _ => rfl, ?_, ?_⟩
    · intro hce
      exact ⟨(i.h.closedThen hce).1, forall_map (i.h.closedThen hce).2 fun _ hd => toCloser_done hd⟩
    · exact forall_map i.h.ok fun _ hk => toCloser_ok hk
  · intro hd hall
    apply i.settled hd
    intro x hx
    have hk := i.h.ok x hx
    rw [hd] at hk
    have := hall (toCloser true s.now j x) (List.mem_map.mpr ⟨x, hx, rfl⟩)
    rwa [toCloser_of_down hk] at this

theorem handlerFinish_step_inv {s : S} (i : Inv s) (j : Nat) : Inv (step s (.handlerFinish j)) := by
  unfold step
  simp only []
  split
  · exact handlerFinish_inv i j
  · rename_i fa _
    have i1 := resume_inv i j
    have tc : Inv (S.transportClose { s with handlers := s.handlers.map (toCloser s.fixed s.now j) }) := by
      rcases transportClose_cases { s with handlers := s.handlers.map (toCloser s.fixed s.now j) } with
        ⟨hc, e⟩ | ⟨_, _, e⟩ | ⟨_, hst, e⟩ <;> rw [e]
      · have : ({ s with handlers := s.handlers.map (toCloser s.fixed s.now j) } : S) =
            { s with handlers := s.handlers.map (toCloser s.fixed s.now j), closing := true } := by
          have hc' : s.closing = true := hc
          cases s; simp_all
        rw [this]; exact i1
      · exact i1
      · exact lose_inv i1 .graceful (fun _ => hst) (by simp)
    split
    · exact doAbort_inv tc
    · exact tc

theorem crash_inv {s : S} (i : Inv s) (j : Nat) : Inv (s.crash j) := by
  unfold S.crash
  split
  · exact i
  · rename_i hg
    simp only [Bool.or_eq_true, not_or, Bool.not_eq_true, Bool.not_eq_true'] at hg
    have hd : s.down = false := hg.1
    obtain ⟨hl, hce⟩ := i.not_down_facts hd
    have hla := i.l.la_none hl
    -- the groups of the torn-down state
    have hh : HI s.now true s.closing false s.closedEvent (s.hookRuns + 1) s.procTimeout
        ((s.handlers.map (crashHandler j)).map (cancelHandler s.now)) := by
      refine ⟨i.h.ptPos, ?_, fun _ => rfl, (fun h => by cases h), ?_, ?_⟩
      · have := i.h.hook; simp [hd] at this; simp [this]
      · rw [hce]; intro h; cases h
      · refine forall_map (forall_map i.h.ok fun _ hk => crashHandler_ok hk) ?_
        intro x hk
        rw [hd] at hk
        exact cancelHandler_ok hk
    have ht : TI s.now true s.reqTimeout (s.tickets.map cancelTicket) :=
      ⟨i.t.pos, forall_map i.t.ok fun _ hk => cancelTicket_ok (by rw [hd] at hk; exact hk)⟩
    have i0 : Inv0 ({ s with handlers := s.handlers.map (crashHandler j) } : S).teardown :=
      { fixed := i.fixed, h := by rw [hl]; exact hh, t := ht, c := i.c, l := i.l }
    dsimp only
    split
    · refine settle_inv (doAbort_inv_of_not_lost
        (s := ({ s with handlers := s.handlers.map (crashHandler j) } : S).teardown)
        hl i.fixed hh ht ?_ (by have := i.l; rw [hl] at this; exact this)).toInv0
      exact ⟨forall_imp i.c.ok fun _ hk => hk.la_mono (by rw [hla]; intro t h; cases h),
             fun _ => rfl, i.c.caNone,
             fun T hT => by have := (i.c.caSome T hT).1; simp [hce] at this⟩
    · exact settle_inv i0

theorem outgoing_inv {s : S} (i : Inv s) (k : Nat) : Inv (step s (.outgoing k)) := by
  have hrt := i.t.pos
  unfold step
  simp only []
  split
  · exact i
  · split
    · refine { fixed := i.fixed, h := i.h, t := ⟨i.t.pos, ?_⟩, c := i.c, l := i.l, settled := i.settled }
      refine forall_append_one i.t.ok ?_
      unfold TOk
      cases hd : s.down <;> simp <;> omega
    · refine { fixed := i.fixed, h := i.h, t := ⟨i.t.pos, ?_⟩, c := i.c, l := i.l, settled := i.settled }
      refine forall_append_one i.t.ok ?_
      unfold TOk
      cases hd : s.down <;> simp

theorem answer_inv {s : S} (i : Inv s) (k : Nat) : Inv (step s (.answer k)) := by
  unfold step
  simp only []
  split
  · exact i
  · rename_i hg
    simp only [Bool.or_eq_true, not_or, Bool.not_eq_true] at hg
    apply promote_inv
    refine { fixed := i.fixed, h := i.h, t := ⟨i.t.pos, ?_⟩, c := i.c, l := i.l, settled := i.settled }
    refine forall_map i.t.ok ?_
    intro t hk
    rw [hg.2] at hk ⊢
    exact answerTicket_ok hk

/-- a new task enters `close()`: the state just after it is registered, with `closing` set and
judged against the instant of loss `la'` -/
theorem addCloser_ci {s : S} (i : Inv s) (la' : Option Nat) (hm : ∀ t, s.lostAt = some t → la' = some t)
    (x : Closer) (hx : COk s.now s.closedEvent s.closedAt la' x) :
    CI s.now true s.closedEvent s.closedAt la' (s.closers ++ [x]) :=
  ⟨forall_append_one (forall_imp i.c.ok fun _ hk => hk.la_mono hm) hx, fun _ => rfl, i.c.caNone,
   fun T hT => by
     obtain ⟨h1, h2, t, ht, h3⟩ := i.c.caSome T hT
     exact ⟨h1, h2, t, hm t ht, h3⟩⟩

theorem appClose_inv {s : S} (i : Inv s) (c fa : Nat) : Inv (step s (.appClose c fa)) := by
  unfold step
  simp only []
  split
  · exact i
  · split
    · -- closed already: returns at once
      rename_i hce
      have hl := (i.h.closedThen hce).1
      obtain ⟨t, ht, htn⟩ := i.l.la_some hl
      have hcl := i.h.lostClosing hl
      obtain ⟨T, hT⟩ : ∃ T, s.closedAt = some T := by
        cases h : s.closedAt with
        | none => have := i.c.caNone h; simp [hce] at this
        | some T => exact ⟨T, rfl⟩
      obtain ⟨_, hTn, t', ht', htT⟩ := i.c.caSome T hT
      have i1 : Inv { s with closers := s.closers ++ [⟨c, s.now, s.now + fa, .returned s.now⟩] } := by
        refine { fixed := i.fixed, h := i.h, t := i.t, c := ?_, l := i.l, settled := i.settled }
        have := addCloser_ci i s.lostAt (fun _ h => h) ⟨c, s.now, s.now + fa, .returned s.now⟩ (by
          simp only [COk]
          refine ⟨Nat.le_refl _, T, hT, by omega, t', ht', by omega⟩)
        exact ⟨this.ok, fun _ => hcl, this.caNone, this.caSome⟩
      exact transportClose_inv i1
    · rename_i hce
      have hce : s.closedEvent = false := by simpa using hce
      have hca : s.closedAt = none := by
        cases h : s.closedAt with
        | none => rfl
        | some T => have := (i.c.caSome T h).1; simp [hce] at this
      split
      · -- force_after = 0: close(), then abort() in the same instant
        rename_i hfa
        rcases Bool.eq_false_or_eq_true s.lost with hl | hl
        · -- lost already (a handler is still reacting): nothing but the wait
          obtain ⟨t, ht, htn⟩ := i.l.la_some hl
          have hcl := i.h.lostClosing hl
          have i1 : Inv { s with closers := s.closers ++ [⟨c, s.now, s.now, .abortedWaiting⟩] } := by
            refine { fixed := i.fixed, h := i.h, t := i.t, c := ?_, l := i.l, settled := i.settled }
            have := addCloser_ci i s.lostAt (fun _ h => h) ⟨c, s.now, s.now, .abortedWaiting⟩ (by
              simp only [COk]
              exact ⟨Nat.le_refl _, hce, Nat.le_refl _, t, ht, htn⟩)
            exact ⟨this.ok, fun _ => hcl, this.caNone, this.caSome⟩
          exact doAbort_inv (transportClose_inv i1)
        · have hla := i.l.la_none hl
          have hm : ∀ t, s.lostAt = some t → some s.now = some t := by rw [hla]; intro t h; cases h
          have cc := addCloser_ci i (some s.now) hm ⟨c, s.now, s.now, .abortedWaiting⟩ (by
            simp only [COk]
            exact ⟨Nat.le_refl _, hce, Nat.le_refl _, _, rfl, Nat.le_refl _⟩)
          have h0 := i.h
          rw [hl] at h0
          have l0 := i.l
          rw [hl] at l0
          rcases transportClose_cases
              { s with closers := s.closers ++ [⟨c, s.now, s.now, .abortedWaiting⟩] } with
            ⟨hc, e⟩ | ⟨_, _, e⟩ | ⟨_, hst, e⟩ <;> rw [e]
          · exact doAbort_inv_of_not_lost
              (s := { s with closers := s.closers ++ [⟨c, s.now, s.now, .abortedWaiting⟩] })
              hl i.fixed h0 i.t cc l0
          · exact doAbort_inv_of_not_lost
              (s := { s with closers := s.closers ++ [⟨c, s.now, s.now, .abortedWaiting⟩],
                             closing := true })
              hl i.fixed (h0.closing_mono fun _ => rfl) i.t cc l0
          · exact doAbort_inv (lose_inv_of_not_lost
                (s := { s with closers := s.closers ++ [⟨c, s.now, s.now, .abortedWaiting⟩],
                               closing := true })
                hl i.fixed (h0.closing_mono fun _ => rfl) rfl i.t cc
                (l0.lose (fun _ => hst) (Or.inr ⟨by simp, i.l.aa_none hl⟩)))
      · rename_i hfa
        have hfa : fa ≠ 0 := by simpa using hfa
        have i1 : Inv { s with closers := s.closers ++ [⟨c, s.now, s.now + fa, .waiting⟩],
                               closing := true } := by
          have i' := i.setClosing
          refine { fixed := i.fixed, h := i'.h, t := i.t, c := ?_, l := i.l, settled := i.settled }
          exact addCloser_ci i s.lostAt (fun _ h => h) ⟨c, s.now, s.now + fa, .waiting⟩ (by
            simp only [COk]
            exact ⟨Nat.le_refl _, by omega, hce⟩)
        rcases transportClose_cases
            { s with closers := s.closers ++ [⟨c, s.now, s.now + fa, .waiting⟩] } with
          ⟨hc, e⟩ | ⟨_, _, e⟩ | ⟨_, hst, e⟩ <;> rw [e]
        · have : ({ s with closers := s.closers ++ [⟨c, s.now, s.now + fa, .waiting⟩] } : S) =
              { s with closers := s.closers ++ [⟨c, s.now, s.now + fa, .waiting⟩], closing := true } := by
            have hc' : s.closing = true := hc
            cases s; simp_all
          rw [this]; exact i1
        · exact i1
        · exact lose_inv i1 .graceful (fun _ => hst) (by simp)

theorem cancelClose_inv {s : S} (i : Inv s) (c : Nat) : Inv (s.cancelClose c) := by
  unfold S.cancelClose
  have i1 : Inv { s with closers := s.closers.map (cancelCloser s.now c) } := by
    refine { fixed := i.fixed, h := i.h, t := i.t, c := ?_, l := i.l, settled := i.settled }
    refine ⟨forall_map i.c.ok fun _ hk => cancelCloser_ok hk, ?_, i.c.caNone, i.c.caSome⟩
    intro hne; exact i.c.closersClosing (by simpa using hne)
  simp only []
  split
  · exact doAbort_inv i1
  · exact i1

theorem step_inv {s : S} (i : Inv s) (e : Event) : Inv (step s e) := by
  cases e with
  | request j k =>
    unfold step
    simp only []
    split
    · exact i
    · rename_i hg
      simp only [Bool.or_eq_true, not_or, Bool.not_eq_true] at hg
      exact startHandler_inv i hg.1.2 hg.1.1 j k
  | replyClose j fa =>
    unfold step
    simp only []
    split
    · exact i
    · rename_i hg
      simp only [Bool.or_eq_true, not_or, Bool.not_eq_true] at hg
      apply startCloser_inv i hg.1.2 hg.1.1
      intro hfa
      have hfa : fa ≠ 0 := by simpa using hfa
      omega
  | handlerFinish j => exact handlerFinish_step_inv i j
  | handlerCancel j => exact crash_inv i j
  | outgoing k => exact outgoing_inv i k
  | answer k => exact answer_inv i k
  | drop => exact lose_inv i .link (by simp) (by simp)
  | appClose c fa => exact appClose_inv i c fa
  | cancelClose c => exact cancelClose_inv i c
  | abort => exact doAbort_inv i
  | advance dt => exact advance_inv dt i

theorem run_inv (es : List Event) : ∀ {s : S}, Inv s → Inv (run s es) := by
  induction es with
  | nil => intro s i; exact i
  | cons e es ih => intro s i; exact ih (step_inv i e)

theorem init_inv (rt pt ol : Nat) (st : Bool) (hrt : 0 < rt) (hpt : 0 < pt) : Inv (init rt pt ol st) := by
  refine { fixed := rfl, h := ?_, t := ⟨hrt, by intro t h; cases h⟩, c := ?_, l := ?_, settled := ?_ }
  · exact ⟨hpt, rfl, (by intro h; cases h), (by intro h; cases h), (by intro h; cases h),
           (by intro t h; cases h)⟩
  · exact ⟨(by intro t h; cases h), (by intro h; exact absurd rfl h), fun _ => rfl,
           (by intro T h; cases h)⟩
  · exact ⟨fun _ => rfl, (by intro t h; cases h), fun _ => rfl, (by intro w h; cases h),
           (by intro a h; cases h), (by intro h; cases h), (by intro h; cases h)⟩
  · intro h; cases h

/-- every state reachable from the initial one -/
theorem reachable_inv (rt pt ol : Nat) (st : Bool) (hrt : 0 < rt) (hpt : 0 < pt) (es : List Event) :
    Inv (run (init rt pt ol st) es) :=
  run_inv es (init_inv rt pt ol st hrt hpt)

end Aiorpcx.C08
