import Aiorpcx.C08.Tickets
import Aiorpcx.C08.Closers
/-! The three invariant groups together are preserved by every event, hence hold in every
reachable state. -/
namespace Aiorpcx.C08

structure Inv (s : S) : Prop where
  h : HInv s
  t : TInv s
  c : CInv s

theorem init_inv (rt : Nat) (st : Bool) (hrt : 0 < rt) : Inv (init rt st) := by
  refine ⟨?_, ?_, ?_⟩
  · refine { hook := rfl, lostClosing := (by intro h; cases h), loop := rfl,
             closedThen := (by intro h; cases h), noRun := (by intro h; cases h),
             react := ?_, closerH := ?_, reactLt := ?_, closerLt := ?_,
             closedIf := (by intro h; cases h) } <;> intro x hx <;> cases hx
  · refine { pos := hrt, pendingLe := ?_, settled := (by intro h; cases h), afterFlag := ?_,
             noCancel := ?_, timedAt := ?_, pendingLt := ?_ }
    · intro x hx; cases hx
    · intro x hx; cases hx
    · intro _ x hx; cases hx
    · intro x hx; cases hx
    · intro x hx; cases hx
  · refine { closedAll := (by intro h; cases h), openNone := ?_, waitingLe := ?_, aborted := ?_,
             closersClosing := ?_, returnedAt := ?_, abortsPast := ?_, abortsLost := ?_,
             waitingLt := ?_, startLe := ?_, closedAtNone := fun _ => rfl,
             closedAtSome := (by intro T hT; cases hT) }
    · intro _ x hx; cases hx
    · intro x hx; cases hx
    · intro x hx; cases hx
    · intro x hx; cases hx
    · intro x hx; cases hx
    · intro x hx; cases hx
    · intro x hx; cases hx
    · intro h; exact absurd rfl h
    · intro x hx; cases hx

theorem Inv.lost_closing {s : S} (i : Inv s) (hl : s.lost = true) : s.closing = true :=
  i.h.lostClosing hl

theorem appClose_inv {s : S} (i : Inv s) (c fa : Nat) : Inv (step s (.appClose c fa)) := by
  unfold step
  simp only []
  split
  · exact i
  · split
    · rename_i hce
      have hcl : s.closing = true := i.h.lostClosing (i.h.closedThen hce).1
      exact ⟨i.h.mono rfl rfl id rfl rfl rfl rfl, i.t.mono rfl rfl rfl rfl,
             appClose_closed_cinv i.c hce hcl c fa⟩
    · rename_i hce
      have hce : s.closedEvent = false := by simpa using hce
      split
      · refine ⟨doAbort_hinv (i.h.mono rfl rfl id rfl rfl rfl rfl),
                doAbort_tinv (i.t.mono rfl rfl rfl rfl), ?_⟩
        unfold S.doAbort
        obtain ⟨h1, h2⟩ := addCloser_cpre i.c hce ⟨c, s.now, s.now, .abortedWaiting⟩
          (s.aborts ++ [s.now]) (Nat.le_refl _) (Or.inr ⟨rfl, rfl, rfl⟩)
        exact lose_cinv h1 h2
      · rename_i hfa
        have hfa : 0 < fa := by
          have : fa ≠ 0 := by simpa using hfa
          omega
        refine ⟨transportClose_hinv (i.h.mono rfl rfl id rfl rfl rfl rfl),
                transportClose_tinv (i.t.mono rfl rfl rfl rfl), ?_⟩
        obtain ⟨h1, h2⟩ := addCloser_cpre i.c hce ⟨c, s.now, s.now + fa, .waiting⟩ s.aborts
          (Nat.le_refl _) (Or.inl ⟨rfl, by show s.now < s.now + fa; omega, rfl⟩)
        rcases transportClose_cases
            { s with closers := s.closers ++ [⟨c, s.now, s.now + fa, .waiting⟩] } with
          ⟨hc, e⟩ | ⟨_, _, e⟩ | ⟨_, _, e⟩ <;> rw [e]
        · exact { toCPre := h1.mono rfl rfl rfl rfl rfl (fun _ => hc)
                  abortsLost := i.c.abortsLost, waitingLt := h2 }
        · exact { toCPre := h1, abortsLost := i.c.abortsLost, waitingLt := h2 }
        · exact lose_cinv h1 h2

theorem step_inv {s : S} (i : Inv s) (e : Event) : Inv (step s e) := by
  cases e with
  | request j k =>
    unfold step
    simp only []
    split
    · exact i
    · rename_i hc
      simp only [Bool.or_eq_true, not_or, Bool.not_eq_true] at hc
      exact ⟨startHandler_hinv i.h hc.1.2 hc.1.1 j k, startHandler_tinv i.t j k,
             startHandler_cinv i.c j k⟩
  | handlerFinish j =>
    unfold step
    simp only []
    split
    · exact i
    · rename_i hl
      have hl : s.lost = false := by simpa using hl
      exact ⟨finishHandlers_hinv i.h hl j, i.t.mono rfl rfl rfl rfl, i.c.mono rfl rfl rfl rfl rfl id id⟩
  | outgoing k =>
    unfold step
    simp only []
    split
    · exact i
    · exact ⟨i.h.mono rfl rfl id rfl rfl rfl rfl, outgoing_tinv i.t k, i.c.mono rfl rfl rfl rfl rfl id id⟩
  | answer k =>
    unfold step
    simp only []
    split
    · exact i
    · rename_i hc
      simp only [Bool.or_eq_true, not_or, Bool.not_eq_true] at hc
      exact ⟨i.h.mono rfl rfl id rfl rfl rfl rfl, answer_tinv i.t hc.2 k,
             i.c.mono rfl rfl rfl rfl rfl id id⟩
  | drop =>
    unfold step
    exact ⟨lose_hinv (i.h.mono rfl rfl (fun _ => rfl) rfl rfl rfl rfl),
           lose_tinv (i.t.mono rfl rfl rfl rfl),
           lose_cinv (i.c.toCPre.mono rfl rfl rfl rfl rfl (fun _ => rfl)) i.c.waitingLt⟩
  | appClose c fa => exact appClose_inv i c fa
  | abort => exact ⟨doAbort_hinv i.h, doAbort_tinv i.t, doAbort_cinv i.c⟩
  | advance dt => exact ⟨advance_hinv dt i.h, advance_tinv dt i.t, advance_cinv dt i.c⟩

theorem run_inv (es : List Event) : ∀ {s : S}, Inv s → Inv (run s es) := by
  induction es with
  | nil => intro s i; exact i
  | cons e es ih => intro s i; exact ih (step_inv i e)

/-- every state reachable from the initial one -/
theorem reachable_inv (rt : Nat) (st : Bool) (hrt : 0 < rt) (es : List Event) :
    Inv (run (init rt st) es) :=
  run_inv es (init_inv rt st hrt)

end Aiorpcx.C08
