import Aiorpcx.C08.Live
/-! Liveness against *every* continuation, not only the passage of time: once the asyncio
transport is closing (or message processing is torn down) nothing the application, the peer or
the network does can postpone `_closed_event` beyond a bound that is fixed at that moment: no new
handler starts, whoever sits in `close()` keeps its deadline or brings the loss earlier, and the
reactions of the handlers end by "deadline + reaction time". -/
namespace Aiorpcx.C08

/-- the instant by which handler `h` is through once message processing is torn down, if the
teardown comes no later than `A` -/
def hEnd (A : Nat) (h : Handler) : Nat :=
  match h.status with
  | .run => match h.kind with
    | .stubborn r => A + r
    | _ => 0
  | .overrun _ => 0
  | .reacting u => u
  | .done => 0

/-- every handler is through by `T` if the teardown comes no later than `A` -/
def EB (s : S) (A T : Nat) : Prop := ∀ h ∈ s.handlers, hEnd A h ≤ T

/-- message processing is torn down, or somebody inside `close()` forces the loss by `A` -/
def Will (s : S) (A : Nat) : Prop := s.down = true ∨ Forced s A

theorem hEnd_cancel {A now : Nat} (hn : now ≤ A) (h : Handler) :
    hEnd A (cancelHandler now h) ≤ hEnd A h := by
  unfold cancelHandler hEnd
  grind

theorem hEnd_fire (A n : Nat) (h : Handler) : hEnd A (fireHandler n h) ≤ hEnd A h := by
  unfold fireHandler hEnd
  grind

theorem hEnd_finish (A i : Nat) (h : Handler) : hEnd A (finishHandler i h) ≤ hEnd A h := by
  unfold finishHandler hEnd
  grind

theorem hEnd_crash (A i : Nat) (h : Handler) : hEnd A (crashHandler i h) ≤ hEnd A h := by
  unfold crashHandler hEnd
  grind

theorem EB.map {s : S} {A T : Nat} {f : Handler → Handler} (h : EB s A T)
    (hf : ∀ x, hEnd A (f x) ≤ hEnd A x) : ∀ y ∈ s.handlers.map f, hEnd A y ≤ T := by
  intro y hy
  obtain ⟨x, hx, rfl⟩ := List.mem_map.mp hy
  exact Nat.le_trans (hf x) (h x hx)

theorem settle_EB {s : S} {A T : Nat} (h : EB s A T) : EB s.settle A T := by
  intro x hx; rw [settle_handlers] at hx; exact h x hx

theorem lose_EB {s : S} {A T : Nat} (why : Cause) (hn : s.down = false → s.now ≤ A) (h : EB s A T) :
    EB (s.lose why) A T := by
  unfold S.lose
  split
  · exact h
  · apply settle_EB
    split
    · exact h
    · rename_i hd
      have hd : s.down = false := by simpa using hd
      exact EB.map (s := s) h (fun x => hEnd_cancel (hn hd) x)

theorem doAbort_EB {s : S} {A T : Nat} (hn : s.down = false → s.now ≤ A) (h : EB s A T) :
    EB s.doAbort A T := by
  unfold S.doAbort
  split
  · exact h
  · exact lose_EB _ (s := { s with abortedAt := some s.now, closing := true }) hn h

theorem transportClose_EB {s : S} {A T : Nat} (hn : s.down = false → s.now ≤ A) (h : EB s A T) :
    EB s.transportClose A T := by
  rcases transportClose_cases s with ⟨_, e⟩ | ⟨_, _, e⟩ | ⟨_, _, e⟩ <;> rw [e]
  · exact h
  · exact h
  · exact lose_EB _ (s := { s with closing := true }) hn h

theorem transportClose_now (s : S) : s.transportClose.now = s.now := by
  rcases transportClose_cases s with ⟨_, e⟩ | ⟨_, _, e⟩ | ⟨_, _, e⟩ <;> rw [e]
  exact lose_now _ _

theorem transportClose_down {s : S} (hd : s.down = true) : s.transportClose.down = true := by
  rcases transportClose_cases s with ⟨_, e⟩ | ⟨_, _, e⟩ | ⟨_, _, e⟩ <;> rw [e]
  · exact hd
  · exact hd
  · exact lose_down _ _ hd

/-- `close()` followed at once by `abort()` -/
theorem closeAbort_EB {s : S} {A T : Nat} (hn : s.down = false → s.now ≤ A) (h : EB s A T) :
    EB s.transportClose.doAbort A T := by
  refine doAbort_EB ?_ (transportClose_EB hn h)
  intro hd
  rw [transportClose_now]
  apply hn
  cases hds : s.down
  · rfl
  · rw [transportClose_down hds] at hd; cases hd

theorem hEnd_toCloser (A : Nat) (f : Bool) (n i : Nat) (h : Handler) :
    hEnd A (toCloser f n i h) ≤ hEnd A h := by
  unfold toCloser hEnd
  grind

/-! ### strictness: a witness's deadline is ahead -/

theorem Forced.now_lt {s : S} {A : Nat} (i : Inv s) (hf : Forced s A) : s.now < A := by
  rcases hf with ⟨c, hc, hw, hd⟩ | ⟨h, hh, hin, d, hk, hd⟩
  · have := i.c.ok c hc
    unfold COk at this
    simp only [hw] at this
    omega
  · have := i.h.ok h hh
    unfold HOk at this
    unfold Handler.inClose at hin
    simp only [Bool.and_eq_true, beq_iff_eq] at hin
    simp only [hin.1, hk] at this
    omega

theorem Forced.closing {s : S} {A : Nat} (i : Inv s) (hf : Forced s A) : s.closing = true := by
  rcases hf with ⟨c, hc, _, _⟩ | ⟨h, hh, hin, d, hk, _⟩
  · exact i.c.closersClosing (List.ne_nil_of_mem hc)
  · have := i.h.ok h hh
    unfold HOk at this
    unfold Handler.inClose at hin
    simp only [Bool.and_eq_true, beq_iff_eq] at hin
    simp only [hin.1, hk] at this
    exact this.2.2.2

theorem Forced.ce_false {s : S} {A : Nat} (i : Inv s) (hf : Forced s A) : s.closedEvent = false := by
  rcases hf with ⟨c, hc, hw, _⟩ | ⟨h, hh, hin, _⟩
  · have := i.c.ok c hc
    unfold COk at this
    simp only [hw] at this
    exact this.2.2
  · cases hce : s.closedEvent
    · rfl
    · have := (i.h.closedThen hce).2 h hh
      unfold Handler.inClose at hin
      simp only [Bool.and_eq_true, beq_iff_eq] at hin
      rw [hin.1] at this; cases this

theorem Will.now_le {s : S} {A : Nat} (i : Inv s) (w : Will s A) : s.down = false → s.now ≤ A := by
  intro hd
  rcases w with h | h
  · rw [hd] at h; cases h
  · exact Nat.le_of_lt (h.now_lt i)

theorem Will.of_lost {s : S} (i : Inv s) (A : Nat) (hl : s.lost = true) : Will s A :=
  Or.inl (i.h.lostDown hl)

/-! ### the clock -/

theorem tick_will {s : S} {A : Nat} (i : Inv s) (w : Will s A) : Will s.tick A := by
  rcases w with hd | hf
  · exact Or.inl (tick_down hd)
  · rcases Bool.eq_false_or_eq_true s.tick.lost with hl | hl
    · exact Will.of_lost (tick_inv i) A hl
    · obtain ⟨hnd, he⟩ := tick_not_lost i hl
      right
      rw [he]
      rcases hf with ⟨c, hc, hw, hd⟩ | ⟨h, hh, hin, d, hk, hd⟩
      · left
        refine ⟨c, ?_, hw, hd⟩
        rw [fired_closers]
        exact List.mem_map.mpr ⟨c, hc, abortCloser_of_not_due (anyDue_false hnd c hc)⟩
      · right
        refine ⟨h, ?_, hin, d, hk, hd⟩
        rw [fired_handlers]
        exact List.mem_map.mpr ⟨h, hh, fireHandler_inClose (i.h.ok h hh) hin
          (anyDue_false_handlers hnd h hh)⟩

theorem fired_EB {s : S} {A T : Nat} (h : EB s A T) : EB s.fired A T := by
  intro x hx
  rw [fired_handlers] at hx
  exact EB.map (s := s) h (fun y => hEnd_fire A _ y) x hx

theorem tick_EB {s : S} {A T : Nat} (i : Inv s) (w : Will s A) (h : EB s A T) : EB s.tick A T := by
  have hn : s.fired.down = false → s.fired.now ≤ A := by
    intro hd
    rw [fired_down] at hd
    rw [fired_now]
    rcases w with h1 | h1
    · rw [hd] at h1; cases h1
    · exact h1.now_lt i
  rw [tick_eq]
  split
  · exact settle_EB (doAbort_EB hn (fired_EB h))
  · exact settle_EB (fired_EB h)

theorem advance_will (n : Nat) : ∀ {s : S} {A : Nat}, Inv s → Will s A → Will (s.advance n) A := by
  induction n with
  | zero => intro s A _ w; exact w
  | succ n ih => intro s A i w; exact ih (tick_inv i) (tick_will i w)

theorem advance_EB (n : Nat) : ∀ {s : S} {A T : Nat}, Inv s → Will s A → EB s A T →
    EB (s.advance n) A T := by
  induction n with
  | zero => intro s A T _ _ h; exact h
  | succ n ih => intro s A T i w h; exact ih (tick_inv i) (tick_will i w) (tick_EB i w h)

/-! ### events -/

theorem startCloser_ignored {s : S} (hc : s.closing = true ∨ s.down = true) (j : Nat) (k : HKind)
    (fa : Nat) : step s (.request j k) = s ∧ step s (.replyClose j fa) = s := by
  rcases hc with hc | hc <;> simp [step, hc]

theorem step_will {s : S} {A : Nat} (i : Inv s) (w : Will s A) (e : Event) : Will (step s e) A := by
  have i' := step_inv i e
  -- whatever loses the connection tears message processing down
  have of_lost : (step s e).lost = true → Will (step s e) A := Will.of_lost i' A
  rcases w with hd | hf
  · -- torn down already: that stays
    left
    cases e with
    | request j k => rw [(startCloser_ignored (Or.inr hd) j k 0).1]; exact hd
    | replyClose j fa => rw [(startCloser_ignored (Or.inr hd) j .quick fa).2]; exact hd
    | handlerFinish j =>
      unfold step; simp only []
      split
      · exact hd
      · split
        · exact doAbort_down _ (transportClose_down (s := { s with handlers := _ }) hd)
        · exact transportClose_down (s := { s with handlers := _ }) hd
    | handlerCancel j =>
      show (s.crash j).down = true
      unfold S.crash; simp [hd]
    | outgoing k =>
      unfold step; simp only []
      split
      · exact hd
      · split <;> exact hd
    | answer k => simp [step, hd]
    | drop => exact lose_down _ _ hd
    | appClose c fa =>
      unfold step; simp only []
      have tc : ∀ q : S, q.down = true → q.transportClose.down = true := by
        intro q hq
        rcases transportClose_cases q with ⟨_, e⟩ | ⟨_, _, e⟩ | ⟨_, _, e⟩ <;> rw [e]
        · exact hq
        · exact hq
        · exact lose_down _ _ hq
      split
      · exact hd
      · split
        · exact tc _ hd
        · split
          · exact doAbort_down _ (tc _ hd)
          · exact tc _ hd
    | cancelClose c =>
      show (s.cancelClose c).down = true
      unfold S.cancelClose
      simp only []
      split
      · exact doAbort_down _ hd
      · exact hd
    | abort => exact doAbort_down _ hd
    | advance dt => exact advance_down dt hd
  · have hcl := hf.closing i
    cases e with
    | request j k => rw [(startCloser_ignored (Or.inl hcl) j k 0).1]; exact Or.inr hf
    | replyClose j fa => rw [(startCloser_ignored (Or.inl hcl) j .quick fa).2]; exact Or.inr hf
    | handlerFinish j =>
      rcases Bool.eq_false_or_eq_true (step s (.handlerFinish j)).lost with hl | hl
      · exact of_lost hl
      · right
        unfold step at hl ⊢
        simp only [] at hl ⊢
        split
        · rcases hf with hw | ⟨h, hh, hin, d, hk, hd⟩
          · left; exact hw
          · right
            exact ⟨h, List.mem_map.mpr ⟨h, hh, finishHandler_inClose hin⟩, hin, d, hk, hd⟩
        · rename_i fa hfs
          rw [hfs] at hl
          simp only [] at hl
          split
          · rename_i hfa
            rw [if_pos hfa, doAbort_lost] at hl; cases hl
          · have e : ({ s with handlers := s.handlers.map (toCloser s.fixed s.now j) } : S).transportClose
                = { s with handlers := s.handlers.map (toCloser s.fixed s.now j) } := by
              rcases transportClose_cases
                  { s with handlers := s.handlers.map (toCloser s.fixed s.now j) } with
                ⟨_, e⟩ | ⟨h, _⟩ | ⟨h, _⟩
              · exact e
              · rw [hcl] at h; cases h
              · rw [hcl] at h; cases h
            rw [e]
            rcases hf with hw | ⟨h, hh, hin, d, hk, hd⟩
            · left; exact hw
            · right
              exact ⟨h, List.mem_map.mpr ⟨h, hh, toCloser_inClose hin⟩, hin, d, hk, hd⟩
    | handlerCancel j =>
      show Will (s.crash j) A
      unfold S.crash
      split
      · exact Or.inr hf
      · left
        dsimp only
        rw [settle_down]
        split
        · exact doAbort_down _ rfl
        · rfl
    | outgoing k =>
      unfold step; simp only []
      split
      · exact Or.inr hf
      · split <;> exact Or.inr hf
    | answer k => simp only [step, hcl, Bool.true_or, ↓reduceIte]; exact Or.inr hf
    | drop => exact of_lost (lose_lost _ _)
    | appClose c fa =>
      rcases Bool.eq_false_or_eq_true (step s (.appClose c fa)).lost with hl | hl
      · exact of_lost hl
      · -- the connection is still up: the new task waits like the others
        right
        unfold step at hl ⊢
        simp only [] at hl ⊢
        split
        · exact hf
        · rename_i hu
          rw [if_neg hu] at hl
          split
          · rename_i hce
            exact absurd hce (by rw [hf.ce_false i]; simp)
          · rename_i hce
            rw [if_neg hce] at hl
            split
            · rename_i hfa
              rw [if_pos hfa, doAbort_lost] at hl; cases hl
            · have e : ({ s with closers := s.closers ++ [⟨c, s.now, s.now + fa, .waiting⟩] } : S).transportClose
                  = { s with closers := s.closers ++ [⟨c, s.now, s.now + fa, .waiting⟩] } := by
                rcases transportClose_cases
                    { s with closers := s.closers ++ [⟨c, s.now, s.now + fa, .waiting⟩] } with
                  ⟨_, e⟩ | ⟨h, _⟩ | ⟨h, _⟩
                · exact e
                · rw [hcl] at h; cases h
                · rw [hcl] at h; cases h
              rw [e]
              rcases hf with ⟨x, hx, hw, hd⟩ | hh
              · left; exact ⟨x, List.mem_append_left _ hx, hw, hd⟩
              · right; exact hh
    | cancelClose c =>
      rcases Bool.eq_false_or_eq_true (step s (.cancelClose c)).lost with hl | hl
      · exact of_lost hl
      · have hl : (s.cancelClose c).lost = false := hl
        show Will (s.cancelClose c) A
        unfold S.cancelClose at hl ⊢
        simp only [] at hl ⊢
        split
        · rename_i hb
          rw [if_pos hb, doAbort_lost] at hl; cases hl
        · rename_i hb
          simp only [i.fixed, Bool.true_and, List.any_eq_true, not_exists, not_and] at hb
          right
          rcases hf with ⟨x, hx, hw, hd⟩ | hh
          · left
            refine ⟨x, ?_, hw, hd⟩
            have : cancelCloser s.now c x = x := by
              apply cancelCloser_other _ hw
              intro ⟨h1, h2⟩
              exact hb x hx (by simp [h1, h2])
            exact List.mem_map.mpr ⟨x, hx, this⟩
          · right; exact hh
    | abort => exact of_lost (doAbort_lost _)
    | advance dt => exact advance_will dt i (Or.inr hf)

theorem step_EB {s : S} {A T : Nat} (i : Inv s) (w : Will s A) (hcd : s.closing = true ∨ s.down = true)
    (h : EB s A T) (e : Event) : EB (step s e) A T := by
  have hn := w.now_le i
  cases e with
  | request j k => rw [(startCloser_ignored hcd j k 0).1]; exact h
  | replyClose j fa => rw [(startCloser_ignored hcd j .quick fa).2]; exact h
  | handlerFinish j =>
    unfold step; simp only []
    split
    · exact EB.map (s := s) h (fun x => hEnd_finish A j x)
    · have h1 : EB ({ s with handlers := s.handlers.map (toCloser s.fixed s.now j) } : S) A T :=
        EB.map (s := s) h (fun x => hEnd_toCloser A _ _ j x)
      split
      · exact closeAbort_EB (s := { s with handlers := _ }) hn h1
      · exact transportClose_EB (s := { s with handlers := _ }) hn h1
  | handlerCancel j =>
    show EB (s.crash j) A T
    unfold S.crash
    split
    · exact h
    · rename_i hg
      simp only [Bool.or_eq_true, not_or, Bool.not_eq_true, Bool.not_eq_true'] at hg
      dsimp only
      apply settle_EB
      have h1 : EB ({ s with handlers := s.handlers.map (crashHandler j) } : S).teardown A T := by
        intro x hx
        simp only [S.teardown, List.map_map] at hx
        obtain ⟨y, hy, rfl⟩ := List.mem_map.mp hx
        exact Nat.le_trans (Nat.le_trans (hEnd_cancel (hn hg.1) _) (hEnd_crash A j y)) (h y hy)
      split
      · exact doAbort_EB (fun hd => by cases hd) h1
      · exact h1
  | outgoing k =>
    unfold step; simp only []
    split
    · exact h
    · split <;> exact h
  | answer k =>
    unfold step; simp only []
    split
    · exact h
    · exact h
  | drop => exact lose_EB _ (s := { s with closing := true }) hn h
  | appClose c fa =>
    unfold step; simp only []
    split
    · exact h
    · split
      · exact transportClose_EB (s := { s with closers := _ }) hn h
      · split
        · have h1 := transportClose_EB (s := { s with closers := s.closers ++ [⟨c, s.now, s.now, .abortedWaiting⟩] }) hn h
          refine doAbort_EB ?_ h1
          intro hd
          have : (S.transportClose { s with closers := s.closers ++ [⟨c, s.now, s.now, .abortedWaiting⟩] }).now = s.now := by
            rcases transportClose_cases { s with closers := s.closers ++ [⟨c, s.now, s.now, .abortedWaiting⟩] } with
              ⟨_, e⟩ | ⟨_, _, e⟩ | ⟨_, _, e⟩ <;> rw [e]
            exact lose_now _ _
          rw [this]
          apply hn
          -- down is monotone: not down afterwards, so not down before
          cases hds : s.down
          · rfl
          · have : (S.transportClose { s with closers := s.closers ++ [⟨c, s.now, s.now, .abortedWaiting⟩] }).down = true := by
              rcases transportClose_cases { s with closers := s.closers ++ [⟨c, s.now, s.now, .abortedWaiting⟩] } with
                ⟨_, e⟩ | ⟨_, _, e⟩ | ⟨_, _, e⟩ <;> rw [e]
              · exact hds
              · exact hds
              · exact lose_down _ _ hds
            rw [this] at hd; cases hd
        · exact transportClose_EB (s := { s with closers := _ }) hn h
  | cancelClose c =>
    show EB (s.cancelClose c) A T
    unfold S.cancelClose
    simp only []
    split
    · exact doAbort_EB (s := { s with closers := _ }) hn h
    · exact h
  | abort => exact doAbort_EB hn h
  | advance dt => exact advance_EB dt i w h

theorem step_closing_or_down {s : S} (i : Inv s) {A : Nat} (w : Will s A) (e : Event) :
    (step s e).closing = true ∨ (step s e).down = true := by
  rcases step_will i w e with h | h
  · right; exact h
  · left; exact h.closing (step_inv i e)

/-- all three together along any event sequence -/
theorem run_will (es : List Event) : ∀ {s : S} {A T : Nat}, Inv s → Will s A → EB s A T →
    Inv (run s es) ∧ Will (run s es) A ∧ EB (run s es) A T := by
  induction es with
  | nil => intro s A T i w h; exact ⟨i, w, h⟩
  | cons e es ih =>
    intro s A T i w h
    have hcd : s.closing = true ∨ s.down = true := by
      rcases w with h1 | h1
      · right; exact h1
      · left; exact h1.closing i
    exact ih (step_inv i e) (step_will i w e) (step_EB i w hcd h e)

/-- ... and when the clock has passed both bounds, `_closed_event` is set -/
theorem closed_of_will {s : S} {A T : Nat} (i : Inv s) (w : Will s A) (h : EB s A T)
    (hA : A ≤ s.now) (hT : T ≤ s.now) : s.closedEvent = true := by
  have hd : s.down = true := by
    rcases w with h1 | h1
    · exact h1
    · have := h1.now_lt i; omega
  apply i.settled hd
  intro x hx
  have hk := i.h.ok x hx
  have he := h x hx
  unfold HOk at hk
  unfold hEnd at he
  cases hs : x.status with
  | run => simp [hs, hd] at hk
  | overrun u => simp [hs, hd] at hk
  | reacting u => simp only [hs] at hk he; omega
  | done => rfl

/-- a computable `T` for a given `A` -/
def endBound (s : S) (A : Nat) : Nat := (s.handlers.map (hEnd A)).foldr max 0

theorem EB_endBound (s : S) (A : Nat) : EB s A (endBound s A) :=
  fun h hh => le_foldr_max _ _ (List.mem_map.mpr ⟨h, hh, rfl⟩)

end Aiorpcx.C08
