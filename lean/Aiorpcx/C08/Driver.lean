import Aiorpcx.Common.Hex
import Aiorpcx.C08.Model
/-! Line-protocol driver for the C08 lifecycle model.
    in : `<sent_request_timeout> <processing_timeout> <outgoing limit> <stalled 0|1>
          <default force_after> <fixed 0|1> ; <event> ; ...`   (fixed: repair F25 applied / code as pinned)
         events: `Q i` `W i` `B i r` `C i fa` `X i` `D i` (request with a quick / waiting /
         stubborn / closing / aborting / reply-and-disconnect handler; `D` closes with the
         default force_after after replying) `NQ i` `NW i` (notifications) `BT i j` (batch
         [waiting, quick]) `F i` `O k` `OB k` (request / batch) `ON k` (notification: no waiter)
         `R k` `L` `LE` (peer closed / link broke) `AC c fa` `ACC c d fa` `ACT c fa` `AB` `A dt`
         `WC i fa` (handler waits for `F i`, then closes) `Z i` (the future handler i awaits is cancelled) `XC c` (the task in close() is cancelled)
         `OM k n` (n send_request tasks k .. k+n-1 started together)
    out: per event `hook=.. closed=.. live=.. tickets=.. closers=.. abort=.. lost=.. now=..
         closing=..`, separated by ` ; ` (`abort` = instant of the first abort() that came
         before connection_lost, `-` if none) -/
open Aiorpcx Aiorpcx.C08

def parseEvent (dfa : Nat) (s : String) : Option (List Event) :=
  match (s.splitOn " ").filter (· ≠ "") with
  | ["Q", i] => do pure [.request (← i.toNat?) .quick]
  | ["NQ", i] => do pure [.request (← i.toNat?) .quick]
  | ["W", i] => do pure [.request (← i.toNat?) .slow]
  | ["NW", i] => do pure [.request (← i.toNat?) .slow]
  | ["BT", i, j] => do pure [.request (← i.toNat?) .slow, .request (← j.toNat?) .quick]
  | ["X", i] => do pure [.request (← i.toNat?) .aborter]
  | ["D", i] => do pure [.replyClose (← i.toNat?) dfa]
  | ["Z", i] => do pure [.handlerCancel (← i.toNat?)]
  | ["XC", c] => do pure [.cancelClose (← c.toNat?)]
  | ["OM", k, n] => do
      let k0 ← k.toNat?
      pure ((List.range (← n.toNat?)).map fun j => .outgoing (k0 + j))
  | ["OB", k] => do pure [.outgoing (← k.toNat?)]
  | ["ON", _] => some []
  | ["B", i, r] => do pure [.request (← i.toNat?) (.stubborn (← r.toNat?))]
  | ["C", i, fa] => do pure [.request (← i.toNat?) (.closer (← fa.toNat?))]
  | ["WC", i, fa] => do pure [.request (← i.toNat?) (.thenClose (← fa.toNat?))]
  | ["F", i] => do pure [.handlerFinish (← i.toNat?)]
  | ["O", k] => do pure [.outgoing (← k.toNat?)]
  | ["R", k] => do pure [.answer (← k.toNat?)]
  | ["L"] => some [.drop]
  | ["LE"] => some [.drop]
  | ["AC", c, fa] => do pure [.appClose (← c.toNat?) (← fa.toNat?)]
  | ["ACC", c, d, fa] => do
      let f ← fa.toNat?
      pure [.appClose (← c.toNat?) f, .appClose (← d.toNat?) f]
  | ["ACT", c, fa] => do pure [.appClose (← c.toNat?) (← fa.toNat?)]
  | ["AB"] => some [.abort]
  | ["A", d] => do pure [.advance (← d.toNat?)]
  | _ => none

def b01 (b : Bool) : String := if b then "1" else "0"

def tstr : TStatus → String
  | .pending => "pending"
  | .queued => "pending"
  | .answered => "answered"
  | .cancelled => "cancelled"
  | .timedOut t => s!"timedOut@{t}"

def cstr : CStatus → String
  | .waiting => "waiting"
  | .abortedWaiting => "waiting"
  | .returned t => s!"returned@{t}"
  | .cancelled _ => "cancelled"

def record (s : S) : String :=
  let live := (s.handlers.filter (fun h => !h.isDone)).length
  let ts := String.intercalate "," (s.tickets.map fun t => s!"{t.id}:{tstr t.status}")
  let cs := String.intercalate "," (s.closers.map fun c => s!"{c.id}:{cstr c.st}")
  let ab := match s.abortedAt with | some t => toString t | none => "-"
  s!"hook={s.hookRuns} closed={b01 s.closedEvent} live={live} tickets={ts} closers={cs} abort={ab} lost={b01 s.lost} now={s.now} closing={b01 s.closing}"

def handle (line : String) : String :=
  match (line.splitOn ";").map (·.trimAscii.toString) with
  | hd :: evs =>
    match (hd.splitOn " ").filter (· ≠ "") with
    | [rt, pt, ol, st, dfa, fx] =>
      match rt.toNat?, pt.toNat?, ol.toNat?, dfa.toNat?,
            evs.mapM (parseEvent (dfa.toNat?.getD 30)) with
      | some t, some p, some l, some _, some ess =>
        let rec go (s : S) : List (List Event) → List String
          | [] => []
          | es :: rest => let s1 := run s es; record s1 :: go s1 rest
        String.intercalate " ; "
          (go (if fx == "1" then init t p l (st == "1") else initPinned t p l (st == "1")) ess)
      | _, _, _, _, _ => "bad-op"
    | _ => "bad-op"
  | _ => "bad-op"

def main : IO Unit := Hex.lineLoop handle
