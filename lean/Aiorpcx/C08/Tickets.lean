import Aiorpcx.C08.Inv
/-! Group 2 of the C08 invariants: outgoing requests ("tickets"). -/
namespace Aiorpcx.C08

theorem cancelTicket_status (t : Ticket) :
    (t.status = .pending ∧ (cancelTicket t).status = .cancelled) ∨
    (t.status ≠ .pending ∧ (cancelTicket t).status = t.status) := by
  unfold cancelTicket
  split
  · left; simp_all
  · right; rename_i h; exact ⟨h, rfl⟩

theorem cancelTicket_deadline (t : Ticket) : (cancelTicket t).deadline = t.deadline := by
  unfold cancelTicket; split <;> rfl
theorem cancelTicket_afterLoss (t : Ticket) : (cancelTicket t).afterLoss = t.afterLoss := by
  unfold cancelTicket; split <;> rfl
theorem cancelTicket_id (t : Ticket) : (cancelTicket t).id = t.id := by
  unfold cancelTicket; split <;> rfl

theorem expireTicket_deadline (n : Nat) (t : Ticket) : (expireTicket n t).deadline = t.deadline := by
  unfold expireTicket; split
  · split <;> rfl
  · rfl
theorem expireTicket_afterLoss (n : Nat) (t : Ticket) : (expireTicket n t).afterLoss = t.afterLoss := by
  unfold expireTicket; split
  · split <;> rfl
  · rfl

theorem expireTicket_status (n : Nat) (t : Ticket) :
    (t.status = .pending ∧ t.deadline = n ∧ (expireTicket n t).status = .timedOut n) ∨
    (t.status = .pending ∧ t.deadline ≠ n ∧ (expireTicket n t).status = .pending) ∨
    (t.status ≠ .pending ∧ (expireTicket n t).status = t.status) := by
  unfold expireTicket
  split
  · rename_i hp
    by_cases hd : t.deadline = n
    · left; simp [hp, hd]
    · right; left; simp [hp, hd]
  · right; right; rename_i h; exact ⟨h, rfl⟩

theorem answerTicket_deadline (k : Nat) (t : Ticket) : (answerTicket k t).deadline = t.deadline := by
  unfold answerTicket; split <;> rfl
theorem answerTicket_afterLoss (k : Nat) (t : Ticket) : (answerTicket k t).afterLoss = t.afterLoss := by
  unfold answerTicket; split <;> rfl
theorem answerTicket_status (k : Nat) (t : Ticket) :
    (t.status = .pending ∧ (answerTicket k t).status = .answered) ∨
    (answerTicket k t).status = t.status := by
  unfold answerTicket
  split
  · left; simp_all
  · right; rfl

/-- weak form (inside a clock tick a request timeout may be due *now*) -/
structure TW (s : S) : Prop where
  pos : 0 < s.reqTimeout
  pendingLe : ∀ t ∈ s.tickets, t.status = .pending → s.now ≤ t.deadline
  /-- after the loss no request registered before it is still pending -/
  settled : s.lost = true → ∀ t ∈ s.tickets, t.afterLoss = false → t.status ≠ .pending
  /-- a request registered after the hook ran is never cancelled or answered -/
  afterFlag : ∀ t ∈ s.tickets, t.afterLoss = true →
    s.lost = true ∧ t.status ≠ .cancelled ∧ t.status ≠ .answered
  noCancel : s.lost = false → ∀ t ∈ s.tickets, t.status ≠ .cancelled
  timedAt : ∀ t ∈ s.tickets, ∀ a, t.status = .timedOut a → a = t.deadline ∧ a ≤ s.now

structure TInv (s : S) : Prop extends TW s where
  pendingLt : ∀ t ∈ s.tickets, t.status = .pending → s.now < t.deadline

theorem TW.mono {s s' : S} (h : TW s) (hr : s'.reqTimeout = s.reqTimeout)
    (ht : s'.tickets = s.tickets) (hl : s'.lost = s.lost) (hn : s'.now = s.now) : TW s' := by
  refine ⟨?_, ?_, ?_, ?_, ?_, ?_⟩
  · rw [hr]; exact h.pos
  · rw [ht, hn]; exact h.pendingLe
  · rw [ht, hl]; exact h.settled
  · rw [ht, hl]; exact h.afterFlag
  · rw [ht, hl]; exact h.noCancel
  · rw [ht, hn]; exact h.timedAt

theorem TInv.mono {s s' : S} (h : TInv s) (hr : s'.reqTimeout = s.reqTimeout)
    (ht : s'.tickets = s.tickets) (hl : s'.lost = s.lost) (hn : s'.now = s.now) : TInv s' :=
  { toTW := h.toTW.mono hr ht hl hn
    pendingLt := by rw [ht, hn]; exact h.pendingLt }

theorem settle_tinv {s : S} (h : TInv s) : TInv s.settle :=
  h.mono (by simp) (by simp) (by simp) (by simp)

theorem teardown_tinv {s : S} (h : TInv s) (hl : s.lost = false) : TInv s.teardown := by
  refine { pos := h.pos, pendingLe := ?_, settled := ?_, afterFlag := ?_, noCancel := ?_,
           timedAt := ?_, pendingLt := ?_ }
  · intro t ht hp
    simp only [S.teardown, List.mem_map] at ht
    obtain ⟨y, _, rfl⟩ := ht
    rcases cancelTicket_status y with ⟨_, e⟩ | ⟨e1, e2⟩
    · simp [e] at hp
    · exact absurd (e2 ▸ hp) e1
  · intro _ t ht _ hp
    simp only [S.teardown, List.mem_map] at ht
    obtain ⟨y, _, rfl⟩ := ht
    rcases cancelTicket_status y with ⟨_, e⟩ | ⟨e1, e2⟩
    · simp [e] at hp
    · exact absurd (e2 ▸ hp) e1
  · intro t ht ha
    simp only [S.teardown, List.mem_map] at ht
    obtain ⟨y, hy, rfl⟩ := ht
    rw [cancelTicket_afterLoss] at ha
    have := (h.afterFlag y hy ha).1
    simp [hl] at this
  · intro hc; simp [S.teardown] at hc
  · intro t ht a ha
    simp only [S.teardown, List.mem_map] at ht
    obtain ⟨y, hy, rfl⟩ := ht
    rw [cancelTicket_deadline]
    rcases cancelTicket_status y with ⟨_, e⟩ | ⟨_, e2⟩
    · simp [e] at ha
    · exact h.timedAt y hy a (e2 ▸ ha)
  · intro t ht hp
    simp only [S.teardown, List.mem_map] at ht
    obtain ⟨y, _, rfl⟩ := ht
    rcases cancelTicket_status y with ⟨_, e⟩ | ⟨e1, e2⟩
    · simp [e] at hp
    · exact absurd (e2 ▸ hp) e1

theorem lose_tinv {s : S} (h : TInv s) : TInv s.lose := by
  rcases Bool.eq_false_or_eq_true s.lost with hl | hl
  · rw [lose_lost_of_lost hl]; exact h
  · unfold S.lose
    simp only [hl, Bool.false_eq_true, ↓reduceIte]
    exact settle_tinv (teardown_tinv h hl)

theorem doAbort_tinv {s : S} (h : TInv s) : TInv s.doAbort := by
  unfold S.doAbort
  exact lose_tinv (h.mono rfl rfl rfl rfl)

theorem transportClose_tinv {s : S} (h : TInv s) : TInv s.transportClose := by
  rcases transportClose_cases s with ⟨_, e⟩ | ⟨_, _, e⟩ | ⟨_, _, e⟩ <;> rw [e]
  · exact h
  · exact h.mono rfl rfl rfl rfl
  · exact lose_tinv (h.mono rfl rfl rfl rfl)

theorem startHandler_tinv {s : S} (h : TInv s) (i : Nat) (k : HKind) :
    TInv (s.startHandler i k) := by
  unfold S.startHandler
  cases k with
  | quick => exact h.mono rfl rfl rfl rfl
  | slow => exact h.mono rfl rfl rfl rfl
  | stubborn r => exact h.mono rfl rfl rfl rfl
  | aborter => exact doAbort_tinv (h.mono rfl rfl rfl rfl)
  | closer fa =>
    simp only []
    split
    · exact doAbort_tinv (h.mono rfl rfl rfl rfl)
    · exact transportClose_tinv (h.mono rfl rfl rfl rfl)

theorem outgoing_tinv {s : S} (h : TInv s) (k : Nat) :
    TInv { s with tickets := s.tickets ++ [⟨k, .pending, s.now + s.reqTimeout, s.lost⟩] } := by
  have hpos := h.pos
  refine { pos := h.pos, pendingLe := ?_, settled := ?_, afterFlag := ?_, noCancel := ?_,
           timedAt := ?_, pendingLt := ?_ }
  · intro t ht hp
    simp only [List.mem_append, List.mem_singleton] at ht
    rcases ht with ht | rfl
    · exact h.pendingLe t ht hp
    · exact Nat.le_add_right _ _
  · intro hl t ht ha
    simp only [List.mem_append, List.mem_singleton] at ht
    rcases ht with ht | rfl
    · exact h.settled hl t ht ha
    · have : s.lost = false := ha
      rw [this] at hl; cases hl
  · intro t ht ha
    simp only [List.mem_append, List.mem_singleton] at ht
    rcases ht with ht | rfl
    · exact h.afterFlag t ht ha
    · exact ⟨by simpa using ha, by simp, by simp⟩
  · intro hl t ht
    simp only [List.mem_append, List.mem_singleton] at ht
    rcases ht with ht | rfl
    · exact h.noCancel hl t ht
    · simp
  · intro t ht a ha
    simp only [List.mem_append, List.mem_singleton] at ht
    rcases ht with ht | rfl
    · exact h.timedAt t ht a ha
    · simp at ha
  · intro t ht hp
    simp only [List.mem_append, List.mem_singleton] at ht
    rcases ht with ht | rfl
    · exact h.pendingLt t ht hp
    · show s.now < s.now + s.reqTimeout; omega

theorem answer_tinv {s : S} (h : TInv s) (hl : s.lost = false) (k : Nat) :
    TInv { s with tickets := s.tickets.map (answerTicket k) } := by
  refine { pos := h.pos, pendingLe := ?_, settled := ?_, afterFlag := ?_, noCancel := ?_,
           timedAt := ?_, pendingLt := ?_ }
  · intro t ht hp
    simp only [List.mem_map] at ht
    obtain ⟨y, hy, rfl⟩ := ht
    rw [answerTicket_deadline]
    rcases answerTicket_status k y with ⟨_, e⟩ | e
    · simp [e] at hp
    · exact h.pendingLe y hy (e ▸ hp)
  · intro hc; simp [hl] at hc
  · intro t ht ha
    simp only [List.mem_map] at ht
    obtain ⟨y, hy, rfl⟩ := ht
    rw [answerTicket_afterLoss] at ha
    have := (h.afterFlag y hy ha).1
    simp [hl] at this
  · intro _ t ht
    simp only [List.mem_map] at ht
    obtain ⟨y, hy, rfl⟩ := ht
    rcases answerTicket_status k y with ⟨_, e⟩ | e
    · simp [e]
    · rw [e]; exact h.noCancel hl y hy
  · intro t ht a ha
    simp only [List.mem_map] at ht
    obtain ⟨y, hy, rfl⟩ := ht
    rw [answerTicket_deadline]
    rcases answerTicket_status k y with ⟨_, e⟩ | e
    · simp [e] at ha
    · exact h.timedAt y hy a (e ▸ ha)
  · intro t ht hp
    simp only [List.mem_map] at ht
    obtain ⟨y, hy, rfl⟩ := ht
    rw [answerTicket_deadline]
    rcases answerTicket_status k y with ⟨_, e⟩ | e
    · simp [e] at hp
    · exact h.pendingLt y hy (e ▸ hp)

/-! ### the clock tick -/

theorem bump_tw {s : S} (h : TInv s) : TW s.bump := by
  refine ⟨h.pos, ?_, h.settled, h.afterFlag, h.noCancel, ?_⟩
  · intro t ht hp; exact Nat.succ_le_of_lt (h.pendingLt t ht hp)
  · intro t ht a ha
    exact ⟨(h.timedAt t ht a ha).1, Nat.le_succ_of_le (h.timedAt t ht a ha).2⟩

theorem expire_tinv {s : S} (h : TW s) : TInv s.expire := by
  refine { pos := h.pos, pendingLe := ?_, settled := ?_, afterFlag := ?_, noCancel := ?_,
           timedAt := ?_, pendingLt := ?_ }
  · intro t ht hp
    simp only [S.expire, List.mem_map] at ht
    obtain ⟨y, hy, rfl⟩ := ht
    rw [expireTicket_deadline]
    rcases expireTicket_status s.now y with ⟨_, _, e⟩ | ⟨e0, _, _⟩ | ⟨e1, e2⟩
    · simp [e] at hp
    · exact h.pendingLe y hy e0
    · exact absurd (e2 ▸ hp) e1
  · intro hl t ht ha hp
    simp only [S.expire, List.mem_map] at ht
    obtain ⟨y, hy, rfl⟩ := ht
    rw [expireTicket_afterLoss] at ha
    rcases expireTicket_status s.now y with ⟨_, _, e⟩ | ⟨e0, _, _⟩ | ⟨e1, e2⟩
    · simp [e] at hp
    · exact h.settled hl y hy ha e0
    · exact absurd (e2 ▸ hp) e1
  · intro t ht ha
    simp only [S.expire, List.mem_map] at ht
    obtain ⟨y, hy, rfl⟩ := ht
    rw [expireTicket_afterLoss] at ha
    refine ⟨(h.afterFlag y hy ha).1, ?_, ?_⟩
    · rcases expireTicket_status s.now y with ⟨_, _, e⟩ | ⟨_, _, e⟩ | ⟨_, e2⟩
      · simp [e]
      · simp [e]
      · rw [e2]; exact (h.afterFlag y hy ha).2.1
    · rcases expireTicket_status s.now y with ⟨_, _, e⟩ | ⟨_, _, e⟩ | ⟨_, e2⟩
      · simp [e]
      · simp [e]
      · rw [e2]; exact (h.afterFlag y hy ha).2.2
  · intro hl t ht
    simp only [S.expire, List.mem_map] at ht
    obtain ⟨y, hy, rfl⟩ := ht
    rcases expireTicket_status s.now y with ⟨_, _, e⟩ | ⟨_, _, e⟩ | ⟨_, e2⟩
    · simp [e]
    · simp [e]
    · rw [e2]; exact h.noCancel hl y hy
  · intro t ht a ha
    simp only [S.expire, List.mem_map] at ht
    obtain ⟨y, hy, rfl⟩ := ht
    rw [expireTicket_deadline]
    rcases expireTicket_status s.now y with ⟨_, ed, e⟩ | ⟨_, _, e⟩ | ⟨_, e2⟩
    · rw [e] at ha; injection ha with ha; subst ha
      exact ⟨ed.symm, Nat.le_refl _⟩
    · simp [e] at ha
    · exact h.timedAt y hy a (e2 ▸ ha)
  · intro t ht hp
    simp only [S.expire, List.mem_map] at ht
    obtain ⟨y, hy, rfl⟩ := ht
    rw [expireTicket_deadline]
    rcases expireTicket_status s.now y with ⟨_, _, e⟩ | ⟨e0, ed, _⟩ | ⟨e1, e2⟩
    · simp [e] at hp
    · have := h.pendingLe y hy e0
      show s.now < y.deadline
      omega
    · exact absurd (e2 ▸ hp) e1

theorem fireClosers_tinv {s : S} (h : TInv s) : TInv s.fireClosers := by
  unfold S.fireClosers
  simp only []
  split
  · exact h.mono rfl rfl rfl rfl
  · exact lose_tinv (h.mono rfl rfl rfl rfl)

theorem tick_tinv {s : S} (h : TInv s) : TInv s.tick := by
  unfold S.tick
  have h1 := fireClosers_tinv (expire_tinv (bump_tw h))
  exact settle_tinv (h1.mono rfl rfl rfl rfl)

theorem advance_tinv (n : Nat) : ∀ {s : S}, TInv s → TInv (s.advance n) := by
  induction n with
  | zero => intro s h; exact h
  | succ n ih => intro s h; exact ih (tick_tinv h)

end Aiorpcx.C08
