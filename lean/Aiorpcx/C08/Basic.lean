import Aiorpcx.C08.Model
/-! Element-level invariants of the C08 lifecycle model (one handler / one outgoing request / one
task inside `close()`, relative to the clock and the connection's flags) and how every
element-level function of the model acts on them. -/
namespace Aiorpcx.C08

/-! ## generic list lemmas -/

theorem forall_map {α : Type} {l : List α} {f : α → α} {P Q : α → Prop}
    (h : ∀ x ∈ l, P x) (hf : ∀ x, P x → Q (f x)) : ∀ y ∈ l.map f, Q y := by
  intro y hy
  obtain ⟨x, hx, rfl⟩ := List.mem_map.mp hy
  exact hf x (h x hx)

theorem forall_append_one {α : Type} {l : List α} {a : α} {P : α → Prop}
    (h : ∀ x ∈ l, P x) (ha : P a) : ∀ y ∈ l ++ [a], P y := by
  intro y hy
  rcases List.mem_append.mp hy with hy | hy
  · exact h y hy
  · rw [List.mem_singleton.mp hy]; exact ha

theorem forall_imp {α : Type} {l : List α} {P Q : α → Prop}
    (h : ∀ x ∈ l, P x) (hf : ∀ x, P x → Q x) : ∀ y ∈ l, Q y :=
  fun y hy => hf y (h y hy)

/-! ## handlers -/

/-- what holds of a handler at clock `n` on a connection with these flags: a running one has
its timers ahead (one blocked in `close()`: the instant its wait is cut short, which is not
after its processing deadline - repair F25 - and the asyncio transport is closing); nobody runs
once message processing is torn down; a reaction to the teardown's cancellation happens only
after the teardown -/
def HOk (n : Nat) (down closing : Bool) (h : Handler) : Prop :=
  match h.status with
  | .run => down = false ∧
      (match h.kind with
       | .closer d => n < d ∧ d ≤ h.pdl ∧ closing = true
       | _ => n < h.pdl)
  | .overrun u => down = false ∧ n < u
  | .reacting u => down = true ∧ n < u
  | .done => True

theorem HOk.closing_mono {n : Nat} {dn c c' : Bool} {h : Handler} (hc : c = true → c' = true)
    (hk : HOk n dn c h) : HOk n dn c' h := by
  unfold HOk at *
  grind

theorem isDone_iff (h : Handler) : h.isDone = true ↔ h.status = .done := by
  simp [Handler.isDone]

theorem all_isDone (hs : List Handler) : hs.all Handler.isDone = true ↔ ∀ h ∈ hs, h.status = .done := by
  simp [List.all_eq_true, isDone_iff]

theorem cancelHandler_ok {n : Nat} {c : Bool} {h : Handler} (hk : HOk n false c h) :
    HOk n true c (cancelHandler n h) := by
  unfold cancelHandler HOk at *
  grind

theorem cancelHandler_not_run (n : Nat) (h : Handler) : (cancelHandler n h).status ≠ .run := by
  unfold cancelHandler
  grind

theorem cancelHandler_done {n : Nat} {h : Handler} (hd : h.status = .done) :
    (cancelHandler n h).status = .done := by
  unfold cancelHandler; simp [hd]

theorem cancelHandler_id (n : Nat) (h : Handler) : (cancelHandler n h).id = h.id := by
  unfold cancelHandler; grind

theorem fireHandler_ok {n : Nat} {dn c : Bool} {h : Handler} (hk : HOk n dn c h) :
    HOk (n + 1) dn c (fireHandler (n + 1) h) := by
  unfold fireHandler HOk at *
  grind

theorem fireHandler_done {n : Nat} {h : Handler} (hd : h.status = .done) :
    (fireHandler n h).status = .done := by
  unfold fireHandler; simp [hd]

theorem fireHandler_id (n : Nat) (h : Handler) : (fireHandler n h).id = h.id := by
  unfold fireHandler; grind

theorem finishHandler_ok {n i : Nat} {dn c : Bool} {h : Handler} (hk : HOk n dn c h) :
    HOk n dn c (finishHandler i h) := by
  unfold finishHandler HOk at *
  grind

theorem finishHandler_done {i : Nat} {h : Handler} (hd : h.status = .done) :
    (finishHandler i h).status = .done := by
  unfold finishHandler; grind

theorem crashHandler_ok {n i : Nat} {dn c : Bool} {h : Handler} (hk : HOk n dn c h) :
    HOk n dn c (crashHandler i h) := by
  unfold crashHandler HOk at *
  grind

theorem toCloser_ok {n i : Nat} {dn c : Bool} {h : Handler} (hk : HOk n dn c h) :
    HOk n dn true (toCloser true n i h) := by
  unfold toCloser HOk at *
  grind

theorem toCloser_done {f : Bool} {n i : Nat} {h : Handler} (hd : h.status = .done) :
    (toCloser f n i h).status = .done := by
  unfold toCloser; simp [hd]

theorem toCloser_of_down {f : Bool} {i n : Nat} {c : Bool} {h : Handler} (hk : HOk n true c h) :
    toCloser f n i h = h := by
  unfold toCloser HOk at *
  grind

/-- the waiting handler that is let go on is inside `close()` afterwards (force_after > 0) -/
theorem toCloser_resuming {f : Bool} {n i fa : Nat} {h : Handler} (hr : resuming i h = some fa)
    (hfa : fa ≠ 0) : (toCloser f n i h).inClose = true := by
  unfold resuming at hr
  unfold toCloser Handler.inClose
  grind

theorem toCloser_inClose {f : Bool} {n i : Nat} {h : Handler} (hin : h.inClose = true) :
    toCloser f n i h = h := by
  unfold toCloser Handler.inClose at *
  grind

/-! ## outgoing requests -/

/-- what holds of an outgoing request at clock `n`: one registered after the hook ran exists
only on a torn-down connection and can only wait and time out; one registered before is not
waiting any more once the hook has run, and is cancelled by nothing else -/
def TOk (n : Nat) (down : Bool) (t : Ticket) : Prop :=
  (t.afterLoss = true → down = true) ∧
  match t.status with
  | .queued => (t.afterLoss = false → down = false)
  | .pending => n < t.deadline ∧ (t.afterLoss = false → down = false)
  | .answered => t.afterLoss = false
  | .cancelled => down = true ∧ t.afterLoss = false
  | .timedOut a => a = t.deadline ∧ a ≤ n

theorem cancelTicket_ok {n : Nat} {t : Ticket} (hk : TOk n false t) : TOk n true (cancelTicket t) := by
  unfold cancelTicket TOk at *
  grind

theorem expireTicket_ok {n : Nat} {dn : Bool} {t : Ticket} (hk : TOk n dn t) :
    TOk (n + 1) dn (expireTicket (n + 1) t) := by
  unfold expireTicket TOk at *
  grind

theorem answerTicket_ok {n k : Nat} {t : Ticket} (hk : TOk n false t) :
    TOk n false (answerTicket k t) := by
  unfold answerTicket TOk at *
  grind

/-- every element of a promoted list is an old one, or an old queued one that now holds a slot
with a fresh deadline -/
theorem mem_promoteList {now rt : Nat} : ∀ (free : Nat) (l : List Ticket) (t : Ticket),
    t ∈ promoteList now rt free l →
    t ∈ l ∨ ∃ t0 ∈ l, t0.status = .queued ∧ t = { t0 with status := .pending, deadline := now + rt }
  | _, [], t, h => by simp [promoteList] at h
  | 0, x :: l, t, h => by left; simpa [promoteList] using h
  | free + 1, x :: l, t, h => by
    unfold promoteList at h
    split at h
    · rename_i hq
      rcases List.mem_cons.mp h with rfl | h
      · right; exact ⟨x, List.mem_cons_self, hq, rfl⟩
      · rcases mem_promoteList free l t h with h | ⟨t0, h0, h1, h2⟩
        · left; exact List.mem_cons_of_mem _ h
        · right; exact ⟨t0, List.mem_cons_of_mem _ h0, h1, h2⟩
    · rcases List.mem_cons.mp h with rfl | h
      · left; exact List.mem_cons_self
      · rcases mem_promoteList (free + 1) l t h with h | ⟨t0, h0, h1, h2⟩
        · left; exact List.mem_cons_of_mem _ h
        · right; exact ⟨t0, List.mem_cons_of_mem _ h0, h1, h2⟩

theorem promoteList_ok {now rt free : Nat} {dn : Bool} {l : List Ticket} (hrt : 0 < rt)
    (h : ∀ t ∈ l, TOk now dn t) : ∀ t ∈ promoteList now rt free l, TOk now dn t := by
  intro t ht
  rcases mem_promoteList free l t ht with ht | ⟨t0, h0, hq, rfl⟩
  · exact h t ht
  · have := h t0 h0
    unfold TOk at *
    simp only [hq] at this
    grind

/-! ## tasks inside `close()` -/

/-- what holds of a task inside `close(force_after)` at clock `n`, given `_closed_event`
(`ce`), the instant it was set (`ca`) and the instant the connection was lost (`la`) -/
def COk (n : Nat) (ce : Bool) (ca la : Option Nat) (c : Closer) : Prop :=
  c.start ≤ n ∧
  match c.st with
  | .waiting => n < c.deadline ∧ ce = false
  | .abortedWaiting => ce = false ∧ c.deadline ≤ n ∧ ∃ t, la = some t ∧ t ≤ c.deadline
  | .returned a => ∃ T, ca = some T ∧ a = max c.start T ∧ ∃ t, la = some t ∧ t ≤ c.deadline
  | .cancelled a => a ≤ n

/-- a clock tick; `la'` = the instant of the loss as it is after the tick (the abort of a task
whose `force_after` is due brings the loss in the same instant) -/
theorem abortCloser_ok {n : Nat} {ca la la' : Option Nat} {c : Closer} {ce : Bool}
    (hk : COk n ce ca la c) (hmono : ∀ t, la = some t → la' = some t)
    (hl : c.st = .waiting → c.deadline ≤ n + 1 → ∃ t, la' = some t ∧ t ≤ c.deadline) :
    COk (n + 1) ce ca la' (abortCloser (n + 1) c) := by
  unfold abortCloser closerDue COk at *
  grind

theorem cancelCloser_ok {n k : Nat} {ce : Bool} {ca la : Option Nat} {c : Closer}
    (hk : COk n ce ca la c) : COk n ce ca la (cancelCloser n k c) := by
  unfold cancelCloser COk at *
  grind

/-- `_closed_event` is set at `n`: everybody still inside `close()` returns -/
theorem returnCloser_ok {n : Nat} {la : Option Nat} {c : Closer}
    (hk : COk n false none la c) (hl : ∃ t, la = some t ∧ t ≤ n) :
    COk n true (some n) la (returnCloser n c) := by
  obtain ⟨t, ht, htn⟩ := hl
  rcases c with ⟨id, start, dl, st⟩
  cases st with
  | waiting =>
    simp only [returnCloser, COk] at hk ⊢
    exact ⟨hk.1, n, rfl, by omega, t, ht, by omega⟩
  | abortedWaiting =>
    simp only [returnCloser, COk] at hk ⊢
    obtain ⟨h1, _, h3, t', ht', h4⟩ := hk
    exact ⟨h1, n, rfl, by omega, t', ht', h4⟩
  | returned a =>
    simp only [returnCloser, COk] at hk ⊢
    obtain ⟨_, T, hT, _⟩ := hk
    cases hT
  | cancelled a =>
    simp only [returnCloser, COk] at hk ⊢
    exact hk

end Aiorpcx.C08
