import Aiorpcx.C08.Step
/-! Progress: once the connection is lost the remaining reactions are the only thing between the
state and `_closed_event`; a task in `close()` gets there by its `force_after` deadline at the
latest. -/
namespace Aiorpcx.C08

/-! ### how a clock tick acts on the fields the progress argument reads -/

theorem fireClosers_lost {s : S} (hl : s.lost = true) : s.fireClosers.lost = true := by
  unfold S.fireClosers
  simp only []
  split
  · exact hl
  · exact lose_lost _

theorem lose_handlers_of_lost {q : S} (hl : q.lost = true) : q.lose.handlers = q.handlers := by
  rw [lose_lost_of_lost hl]

theorem fireClosers_handlers_of_lost {s : S} (hl : s.lost = true) :
    s.fireClosers.handlers = s.handlers := by
  unfold S.fireClosers
  simp only []
  split
  · rfl
  · refine lose_handlers_of_lost ?_
    exact hl

@[simp] theorem tick_now (s : S) : s.tick.now = s.now + 1 := by
  unfold S.tick
  rw [settle_now]
  show s.bump.expire.fireClosers.now = s.now + 1
  rw [fireClosers_now]; rfl

theorem tick_lost {s : S} (hl : s.lost = true) : s.tick.lost = true := by
  unfold S.tick
  rw [settle_lost]
  exact fireClosers_lost (s := s.bump.expire) hl

theorem tick_handlers_of_lost {s : S} (hl : s.lost = true) :
    s.tick.handlers = s.handlers.map (finishReaction (s.now + 1)) := by
  unfold S.tick
  rw [settle_handlers]
  show s.bump.expire.fireClosers.handlers.map (finishReaction s.bump.expire.fireClosers.now) = _
  rw [fireClosers_handlers_of_lost (s := s.bump.expire) hl, fireClosers_now]
  rfl

theorem advance_lost (n : Nat) : ∀ {s : S}, s.lost = true → (s.advance n).lost = true := by
  induction n with
  | zero => intro s h; exact h
  | succ n ih => intro s h; exact ih (tick_lost h)

theorem advance_add (a b : Nat) : ∀ (s : S), s.advance (a + b) = (s.advance a).advance b := by
  induction a with
  | zero => intro s; simp [S.advance]
  | succ a ih =>
    intro s
    rw [Nat.succ_add]
    exact ih s.tick

@[simp] theorem advance_now (n : Nat) : ∀ (s : S), (s.advance n).now = s.now + n := by
  induction n with
  | zero => intro s; rfl
  | succ n ih => intro s; show (s.tick.advance n).now = _; rw [ih, tick_now]; omega

/-! ### after the loss: the reactions run out -/

/-- with the connection lost and every remaining reaction over within `n` seconds,
`_closed_event` is set after `n` seconds (and stays set) -/
theorem closed_after (n : Nat) : ∀ {s : S}, HInv s → s.lost = true →
    (∀ h ∈ s.handlers, ∀ u, h.status = .reacting u → u ≤ s.now + n) →
    (s.advance n).closedEvent = true := by
  induction n with
  | zero =>
    intro s hi hl hb
    apply hi.closedIf hl
    intro h hh
    cases hs : h.status with
    | run => exact absurd hs (hi.noRun hl h hh)
    | reacting u =>
      have h1 := hi.reactLt h hh u hs
      have h2 := hb h hh u hs
      omega
    | done => rfl
  | succ n ih =>
    intro s hi hl hb
    show (s.tick.advance n).closedEvent = true
    apply ih (tick_hinv hi) (tick_lost hl)
    intro h hh u hu
    rw [tick_handlers_of_lost hl] at hh
    simp only [List.mem_map] at hh
    obtain ⟨y, hy, rfl⟩ := hh
    have := hb y hy u (finishReaction_reacting _ _ _ hu).1
    rw [tick_now]; omega

/-- how long handler `h` can still take once cancelled -/
def remaining (now : Nat) (h : Handler) : Nat :=
  match h.status with
  | .reacting u => u - now
  | _ => 0

/-- the largest remaining reaction -/
def maxRemaining (s : S) : Nat := (s.handlers.map (remaining s.now)).foldr max 0

theorem le_foldr_max : ∀ (l : List Nat) (x : Nat), x ∈ l → x ≤ l.foldr max 0
  | [], x, h => by cases h
  | y :: l, x, h => by
    simp only [List.foldr_cons]
    rcases List.mem_cons.mp h with rfl | h
    · exact Nat.le_max_left _ _
    · exact Nat.le_trans (le_foldr_max l x h) (Nat.le_max_right _ _)

theorem remaining_le_max (s : S) (h : Handler) (hh : h ∈ s.handlers) :
    remaining s.now h ≤ maxRemaining s :=
  le_foldr_max _ _ (List.mem_map.mpr ⟨h, hh, rfl⟩)

/-! ### before the loss: a task in `close()` forces it by its deadline -/

theorem settle_closers_deadlines (s : S) :
    s.settle.closers.map (·.deadline) = s.closers.map (·.deadline) := by
  unfold S.settle
  split
  · simp only [List.map_map]
    apply List.map_congr_left
    intro c _
    simp only [Function.comp]
    unfold returnCloser; split <;> rfl
  · rfl

theorem lose_closers_deadlines (s : S) :
    s.lose.closers.map (·.deadline) = s.closers.map (·.deadline) := by
  unfold S.lose
  split
  · rfl
  · rw [settle_closers_deadlines]; rfl

theorem fireClosers_closers_deadlines (s : S) :
    s.fireClosers.closers.map (·.deadline) = s.closers.map (·.deadline) := by
  have hm : (s.closers.map (abortCloser s.now)).map (·.deadline) = s.closers.map (·.deadline) := by
    simp only [List.map_map]
    apply List.map_congr_left
    intro c _
    simp only [Function.comp]
    exact abortCloser_deadline _ _
  unfold S.fireClosers
  simp only []
  split
  · exact hm
  · rw [lose_closers_deadlines]; exact hm

theorem tick_closers_deadlines (s : S) :
    s.tick.closers.map (·.deadline) = s.closers.map (·.deadline) := by
  unfold S.tick
  rw [settle_closers_deadlines]
  show s.bump.expire.fireClosers.closers.map (·.deadline) = _
  rw [fireClosers_closers_deadlines]
  rfl

theorem tick_inv {s : S} (i : Inv s) : Inv s.tick :=
  ⟨tick_hinv i.h, tick_tinv i.t, tick_cinv i.c⟩

theorem advance_inv (n : Nat) {s : S} (i : Inv s) : Inv (s.advance n) :=
  ⟨advance_hinv n i.h, advance_tinv n i.t, advance_cinv n i.c⟩

/-- a task inside `close()` whose `force_after` deadline is at most `n` seconds away: after `n`
seconds the connection is lost (it was already, or became so on its own, or the task's `abort()`
did it) -/
theorem lost_by_deadline (n : Nat) : ∀ {s : S}, Inv s →
    (∃ c ∈ s.closers, c.deadline ≤ s.now + n) → (s.advance n).lost = true := by
  induction n with
  | zero =>
    intro s i ⟨c, hc, hd⟩
    show s.lost = true
    cases hs : c.st with
    | waiting => have := i.c.waitingLt c hc hs; omega
    | abortedWaiting => exact i.c.abortedLost c hc hs
    | returned a =>
      cases hce : s.closedEvent with
      | false => exact absurd hs (i.c.openNone hce c hc a)
      | true => exact (i.h.closedThen hce).1
  | succ n ih =>
    intro s i ⟨c, hc, hd⟩
    show (s.tick.advance n).lost = true
    apply ih (tick_inv i)
    have hm : c.deadline ∈ s.tick.closers.map (·.deadline) := by
      rw [tick_closers_deadlines]; exact List.mem_map.mpr ⟨c, hc, rfl⟩
    obtain ⟨c', hc', e⟩ := List.mem_map.mp hm
    exact ⟨c', hc', by rw [e, tick_now]; omega⟩

/-! ### a bound on the reactions that holds before the loss as well -/

/-- how long handler `h` can take from `now` once it is cancelled -/
def hBound (now : Nat) (h : Handler) : Nat :=
  match h.status with
  | .run => match h.kind with
    | .stubborn r => r
    | _ => 0
  | .reacting u => u - now
  | .done => 0

/-- every handler gives in within `n` seconds of being cancelled -/
def RB (s : S) (n : Nat) : Prop := ∀ h ∈ s.handlers, hBound s.now h ≤ n

/-- a computable such bound -/
def reactBound (s : S) : Nat := (s.handlers.map (hBound s.now)).foldr max 0

theorem RB_reactBound (s : S) : RB s (reactBound s) :=
  fun h hh => le_foldr_max _ _ (List.mem_map.mpr ⟨h, hh, rfl⟩)

theorem hBound_succ (now : Nat) (h : Handler) : hBound (now + 1) h ≤ hBound now h := by
  unfold hBound
  split
  · exact Nat.le_refl _
  · omega
  · exact Nat.le_refl _

theorem hBound_cancel (now : Nat) (h : Handler) : hBound now (cancelHandler now h) ≤ hBound now h := by
  unfold cancelHandler
  split
  · rename_i hr
    split
    · rename_i r hk
      simp [hBound, hr, hk]
    · simp [hBound]
  · exact Nat.le_refl _

theorem hBound_finishReaction (now : Nat) (h : Handler) :
    hBound now (finishReaction now h) ≤ hBound now h := by
  unfold finishReaction
  split
  · split
    · simp [hBound]
    · exact Nat.le_refl _
  · exact Nat.le_refl _

theorem lose_RB {s : S} {n : Nat} (h : RB s n) : RB s.lose n := by
  unfold S.lose
  split
  · exact h
  · intro x hx
    rw [settle_handlers] at hx
    rw [settle_now]
    simp only [S.teardown, List.mem_map] at hx
    obtain ⟨y, hy, rfl⟩ := hx
    exact Nat.le_trans (hBound_cancel _ _) (h y hy)

theorem fireClosers_RB {s : S} {n : Nat} (h : RB s n) : RB s.fireClosers n := by
  unfold S.fireClosers
  simp only []
  split
  · exact h
  · exact lose_RB (s := { s with closers := _, aborts := _, closing := true }) h

theorem tick_RB {s : S} {n : Nat} (h : RB s n) : RB s.tick n := by
  have h1 : RB s.bump.expire n := fun x hx => Nat.le_trans (hBound_succ _ _) (h x hx)
  have h2 := fireClosers_RB h1
  intro x hx
  unfold S.tick at hx ⊢
  rw [settle_handlers] at hx
  rw [settle_now]
  simp only [S.endReactions, List.mem_map] at hx
  obtain ⟨y, hy, rfl⟩ := hx
  exact Nat.le_trans (hBound_finishReaction _ _) (h2 y hy)

theorem advance_RB (k : Nat) : ∀ {s : S} {n : Nat}, RB s n → RB (s.advance k) n := by
  induction k with
  | zero => intro s n h; exact h
  | succ k ih => intro s n h; exact ih (tick_RB h)

theorem RB_reacting {s : S} {n : Nat} (h : RB s n) :
    ∀ x ∈ s.handlers, ∀ u, x.status = .reacting u → u ≤ s.now + n := by
  intro x hx u hu
  have := h x hx
  simp only [hBound, hu] at this
  omega

end Aiorpcx.C08
