import Aiorpcx.C08.Closing
/-! Progress: once message processing is torn down the remaining reactions are the only thing
between the state and `_closed_event`; a task in `close()` forces the loss by the instant its
wait is cut short at the latest. -/
namespace Aiorpcx.C08

/-! ### how a clock tick acts on the fields the progress argument reads -/

theorem lose_now (s : S) (why : Cause) : (s.lose why).now = s.now := by
  unfold S.lose
  split
  · rfl
  · rw [settle_now]; split <;> rfl

theorem doAbort_now (s : S) : s.doAbort.now = s.now := by
  unfold S.doAbort
  split
  · rfl
  · exact lose_now _ _

@[simp] theorem tick_now (s : S) : s.tick.now = s.now + 1 := by
  rw [tick_eq]
  split
  · rw [settle_now, doAbort_now]; rfl
  · rw [settle_now]; rfl

@[simp] theorem advance_now (n : Nat) : ∀ (s : S), (s.advance n).now = s.now + n := by
  induction n with
  | zero => intro s; rfl
  | succ n ih => intro s; show (s.tick.advance n).now = _; rw [ih, tick_now]; omega

theorem advance_add (a b : Nat) : ∀ (s : S), s.advance (a + b) = (s.advance a).advance b := by
  induction a with
  | zero => intro s; simp [S.advance]
  | succ a ih =>
    intro s
    rw [Nat.succ_add]
    exact ih s.tick

theorem lose_down (s : S) (why : Cause) (hd : s.down = true) : (s.lose why).down = true := by
  unfold S.lose
  split
  · exact hd
  · rw [settle_down]; simp only [hd]

theorem lose_handlers_of_down (s : S) (why : Cause) (hd : s.down = true) :
    (s.lose why).handlers = s.handlers := by
  unfold S.lose
  split
  · rfl
  · rw [settle_handlers]; try simp [hd]

theorem doAbort_down (s : S) (hd : s.down = true) : s.doAbort.down = true := by
  unfold S.doAbort
  split
  · exact hd
  · exact lose_down _ _ hd

theorem doAbort_handlers_of_down (s : S) (hd : s.down = true) : s.doAbort.handlers = s.handlers := by
  unfold S.doAbort
  split
  · rfl
  · exact lose_handlers_of_down _ _ hd

theorem tick_down {s : S} (hd : s.down = true) : s.tick.down = true := by
  rw [tick_eq]
  split
  · rw [settle_down]; exact doAbort_down s.fired hd
  · rw [settle_down]; exact hd

theorem tick_handlers_of_down {s : S} (hd : s.down = true) :
    s.tick.handlers = s.handlers.map (fireHandler (s.now + 1)) := by
  rw [tick_eq]
  split
  · rw [settle_handlers, doAbort_handlers_of_down s.fired hd]; rfl
  · rw [settle_handlers]; rfl

theorem advance_down (n : Nat) : ∀ {s : S}, s.down = true → (s.advance n).down = true := by
  induction n with
  | zero => intro s h; exact h
  | succ n ih => intro s h; exact ih (tick_down h)

theorem tick_lost {s : S} (hl : s.lost = true) : s.tick.lost = true := by
  rw [tick_eq]
  split
  · exact settle_lost (doAbort_lost _)
  · exact settle_lost hl

theorem advance_lost (n : Nat) : ∀ {s : S}, s.lost = true → (s.advance n).lost = true := by
  induction n with
  | zero => intro s h; exact h
  | succ n ih => intro s h; exact ih (tick_lost h)

/-! ### a bound on the reactions -/

/-- how long handler `h` can take from `now` once the teardown has cancelled it -/
def hBound (now : Nat) (h : Handler) : Nat :=
  match h.status with
  | .run => match h.kind with
    | .stubborn r => r
    | _ => 0
  | .overrun _ => 0
  | .reacting u => u - now
  | .done => 0

/-- every handler gives in within `n` seconds of being cancelled -/
def RB (s : S) (n : Nat) : Prop := ∀ h ∈ s.handlers, hBound s.now h ≤ n

/-- a computable such bound: the longest reaction -/
def reactBound (s : S) : Nat := (s.handlers.map (hBound s.now)).foldr max 0

theorem le_foldr_max : ∀ (l : List Nat) (x : Nat), x ∈ l → x ≤ l.foldr max 0
  | [], x, h => by cases h
  | y :: l, x, h => by
    simp only [List.foldr_cons]
    rcases List.mem_cons.mp h with rfl | h
    · exact Nat.le_max_left _ _
    · exact Nat.le_trans (le_foldr_max l x h) (Nat.le_max_right _ _)

theorem RB_reactBound (s : S) : RB s (reactBound s) :=
  fun h hh => le_foldr_max _ _ (List.mem_map.mpr ⟨h, hh, rfl⟩)

theorem hBound_fire (now : Nat) (h : Handler) :
    hBound (now + 1) (fireHandler (now + 1) h) ≤ hBound now h - (match h.status with | .reacting _ => 1 | _ => 0) := by
  unfold fireHandler hBound
  grind

theorem hBound_fire_le (now : Nat) (h : Handler) :
    hBound (now + 1) (fireHandler (now + 1) h) ≤ hBound now h :=
  Nat.le_trans (hBound_fire now h) (Nat.sub_le _ _)

theorem hBound_cancel (now : Nat) (h : Handler) : hBound now (cancelHandler now h) ≤ hBound now h := by
  unfold cancelHandler hBound
  grind

theorem settle_RB {s : S} {n : Nat} (h : RB s n) : RB s.settle n := by
  intro x hx
  rw [settle_handlers] at hx
  rw [settle_now]
  exact h x hx

theorem lose_RB {s : S} {n : Nat} (why : Cause) (h : RB s n) : RB (s.lose why) n := by
  unfold S.lose
  split
  · exact h
  · apply settle_RB
    split
    · exact h
    · intro x hx
      simp only [S.teardown, List.mem_map] at hx
      obtain ⟨y, hy, rfl⟩ := hx
      exact Nat.le_trans (hBound_cancel _ _) (h y hy)

theorem doAbort_RB {s : S} {n : Nat} (h : RB s n) : RB s.doAbort n := by
  unfold S.doAbort
  split
  · exact h
  · exact lose_RB _ (s := { s with abortedAt := some s.now, closing := true }) h

theorem fired_RB {s : S} {n : Nat} (h : RB s n) : RB s.fired n := by
  intro x hx
  rw [fired_handlers] at hx
  obtain ⟨y, hy, rfl⟩ := List.mem_map.mp hx
  exact Nat.le_trans (hBound_fire_le _ _) (h y hy)

theorem tick_RB {s : S} {n : Nat} (h : RB s n) : RB s.tick n := by
  rw [tick_eq]
  split
  · exact settle_RB (doAbort_RB (fired_RB h))
  · exact settle_RB (fired_RB h)

theorem advance_RB (k : Nat) : ∀ {s : S} {n : Nat}, RB s n → RB (s.advance k) n := by
  induction k with
  | zero => intro s n h; exact h
  | succ k ih => intro s n h; exact ih (tick_RB h)

/-! ### after the teardown: the reactions run out -/

/-- with message processing torn down and every remaining reaction over within `n` seconds,
`_closed_event` is set after `n` seconds -/
theorem closed_after (n : Nat) : ∀ {s : S}, Inv s → s.down = true → RB s n →
    (s.advance n).closedEvent = true := by
  induction n with
  | zero =>
    intro s i hd hb
    apply i.settled hd
    intro h hh
    have hk := i.h.ok h hh
    have h0 := hb h hh
    unfold HOk at hk
    unfold hBound at h0
    cases hs : h.status with
    | run => simp [hs, hd] at hk
    | overrun u => simp [hs, hd] at hk
    | reacting u => simp only [hs] at hk h0; omega
    | done => rfl
  | succ n ih =>
    intro s i hd hb
    show (s.tick.advance n).closedEvent = true
    apply ih (tick_inv i) (tick_down hd)
    intro x hx
    rw [tick_handlers_of_down hd] at hx
    obtain ⟨y, hy, rfl⟩ := List.mem_map.mp hx
    rw [tick_now]
    have h1 := hBound_fire s.now y
    have h2 := hb y hy
    have hk := i.h.ok y hy
    unfold HOk at hk
    cases hs : y.status with
    | run => simp [hs, hd] at hk
    | overrun u => simp [hs, hd] at hk
    | reacting u => simp only [hs] at h1; omega
    | done =>
      unfold hBound fireHandler
      simp [hs]

/-- `_closed_event` stays set -/
theorem closedEvent_tick {s : S} (i : Inv s) (hc : s.closedEvent = true) : s.tick.closedEvent = true := by
  have hl := (i.h.closedThen hc).1
  have hd := i.h.lostDown hl
  have i' := tick_inv i
  apply i'.settled (tick_down hd)
  intro x hx
  rw [tick_handlers_of_down hd] at hx
  obtain ⟨y, hy, rfl⟩ := List.mem_map.mp hx
  exact fireHandler_done ((i.h.closedThen hc).2 y hy)

theorem closedEvent_advance (n : Nat) : ∀ {s : S}, Inv s → s.closedEvent = true →
    (s.advance n).closedEvent = true := by
  induction n with
  | zero => intro s _ h; exact h
  | succ n ih => intro s i h; exact ih (tick_inv i) (closedEvent_tick i h)

/-- ... hence for every amount of time from `n` on -/
theorem closed_from {s : S} (i : Inv s) (hd : s.down = true) {n : Nat} (hb : RB s n) (m : Nat)
    (hm : n ≤ m) : (s.advance m).closedEvent = true := by
  obtain ⟨k, rfl⟩ : ∃ k, m = n + k := ⟨m - n, by omega⟩
  rw [advance_add]
  exact closedEvent_advance k (advance_inv n i) (closed_after n i hd hb)

/-! ### before the loss: whoever is inside `close()` forces it by the end of its wait -/

/-- somebody is inside `close()` and its wait ends (with an abort) by the instant `t` -/
def Forced (s : S) (t : Nat) : Prop :=
  (∃ c ∈ s.closers, c.st = .waiting ∧ c.deadline ≤ t) ∨
  (∃ h ∈ s.handlers, h.inClose = true ∧ ∃ d, h.kind = .closer d ∧ d ≤ t)

theorem tick_not_lost {s : S} (i : Inv s) (hl : s.tick.lost = false) :
    ({ s with now := s.now + 1 } : S).anyDue = false ∧ s.tick = s.fired := by
  rw [tick_eq] at hl ⊢
  split
  · rename_i h
    rw [h] at hl
    simp only [↓reduceIte] at hl
    rw [settle_lost (doAbort_lost _)] at hl; cases hl
  · rename_i h
    have h : ({ s with now := s.now + 1 } : S).anyDue = false := by simpa using h
    rw [h] at hl
    simp only [Bool.false_eq_true, ↓reduceIte] at hl
    refine ⟨h, ?_⟩
    rcases settle_lost_or (s := s.fired) (by rw [fired_fixed]; exact i.fixed) with h1 | h1
    · rw [h1] at hl; cases hl
    · exact h1

theorem abortCloser_deadline (n : Nat) (c : Closer) : (abortCloser n c).deadline = c.deadline := by
  unfold abortCloser; split <;> rfl

/-- a task inside `close()` whose wait ends at most `n` seconds from now: after `n` seconds the
connection is lost (it was already, or became so on its own, or the task's `abort()` did it) -/
theorem lost_by (n : Nat) : ∀ {s : S}, Inv s → Forced s (s.now + n) → (s.advance n).lost = true := by
  induction n with
  | zero =>
    intro s i hf
    exfalso
    rcases hf with ⟨c, hc, hw, hd⟩ | ⟨h, hh, hin, d, hk, hd⟩
    · have := i.c.ok c hc
      unfold COk at this
      simp only [hw] at this
      omega
    · have := i.h.ok h hh
      unfold HOk at this
      unfold Handler.inClose at hin
      simp only [Bool.and_eq_true, beq_iff_eq] at hin
      simp only [hin.1, hk] at this
      omega
  | succ n ih =>
    intro s i hf
    show (s.tick.advance n).lost = true
    rcases Bool.eq_false_or_eq_true s.tick.lost with hl | hl
    · exact advance_lost n hl
    · obtain ⟨hnd, he⟩ := tick_not_lost i hl
      apply ih (tick_inv i)
      rw [tick_now, he]
      rcases hf with ⟨c, hc, hw, hd⟩ | ⟨h, hh, hin, d, hk, hd⟩
      · left
        refine ⟨c, ?_, hw, by omega⟩
        rw [fired_closers]
        exact List.mem_map.mpr ⟨c, hc, abortCloser_of_not_due (anyDue_false hnd c hc)⟩
      · right
        refine ⟨h, ?_, hin, d, hk, by omega⟩
        rw [fired_handlers]
        exact List.mem_map.mpr ⟨h, hh, fireHandler_inClose (i.h.ok h hh) hin
          (anyDue_false_handlers hnd h hh)⟩

/-- once the connection is lost after `a` seconds, `_closed_event` is set after `a` + the
longest reaction, and stays set -/
theorem closed_after_lost_by {s : S} (i : Inv s) (a : Nat) (hl : (s.advance a).lost = true)
    (m : Nat) (hm : a + reactBound s ≤ m) : (s.advance m).closedEvent = true := by
  obtain ⟨k, rfl⟩ : ∃ k, m = a + k := ⟨m - a, by omega⟩
  rw [advance_add]
  have ia := advance_inv a i
  have hrb : RB (s.advance a) (reactBound s) := advance_RB a (RB_reactBound s)
  exact closed_from ia (ia.h.lostDown hl) hrb k (by omega)

end Aiorpcx.C08
