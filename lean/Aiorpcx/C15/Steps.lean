import Aiorpcx.C15.Msgs
/-! C15: what one step can and cannot change (used by the property theorems): the configured
delay, the wire once the transport is closing, and where messages on the wire come from. -/
namespace Aiorpcx.C15

theorem connectionLost_frame (t : T) :
    t.connectionLost.1.closing = true ∧ t.connectionLost.1.lost = true ∧
    t.connectionLost.1.maxDelay = t.maxDelay ∧ t.connectionLost.1.now = t.now ∧
    t.connectionLost.1.used = t.used ∧ t.connectionLost.1.wire = t.wire ∧
    t.connectionLost.1.blocked = [] := by
  unfold T.connectionLost; simp only []
  obtain ⟨a, b, c, d, e⟩ := wakeAll_frame t.blocked
    { t with closing := true, lost := true, canSend := true, blocked := [] } []
  exact ⟨a, b, c, d, e, wakeAll_closing_wire _ _ _ rfl,
    (wire_wakeAll_closing t.blocked
      { t with closing := true, lost := true, canSend := true, blocked := [] } [] rfl rfl).2.2.2.2⟩

theorem fire_frame (t : T) (limit : Int) :
    (t.fire limit).1.maxDelay = t.maxDelay ∧ (t.fire limit).1.used = t.used ∧
    (t.fire limit).1.wire = t.wire ∧ (t.closing = true → (t.fire limit).1.closing = true) ∧
    (∀ x ∈ msgs (t.fire limit).1.blocked, x ∈ msgs t.blocked) := by
  unfold T.fire
  cases earliest t.blocked with
  | none => exact ⟨rfl, rfl, rfl, fun h => h, fun x hx => hx⟩
  | some d =>
    simp only []
    split
    · obtain ⟨a, b, c, _, e, f, g⟩ := connectionLost_frame (t.atDeadline d)
      refine ⟨by simp only []; rw [c]; rfl, by simp only []; rw [e]; rfl,
        by simp only []; rw [f]; rfl, fun _ => by simp only []; exact a, ?_⟩
      intro x hx; simp only [] at hx; rw [g] at hx; simp [msgs] at hx
    · exact ⟨rfl, rfl, rfl, fun h => h, fun x hx => hx⟩

theorem find_none_filter (l : List Writer) (m : Nat) (h : l.find? (·.msg == m) = none) :
    l.filter (·.msg != m) = l := by
  rw [List.filter_eq_self]
  intro a ha
  have := List.find?_eq_none.mp h a ha
  simpa using this

/-- **Cancelling a sender touches nothing but that sender**: the state after `cancel m` is the
state before with the writer of `m` (if it was blocked) taken out of the waiting list - the wire,
the flags, the clock and every other blocked sender (and their order and timers) are as before -
and the only observation is that sender's `CancelledError`. -/
theorem cancel_others_unaffected (t : T) (m : Nat) :
    (step t (.cancel m)).1 = { t with blocked := t.blocked.filter (·.msg != m) } ∧
    (∀ o ∈ (step t (.cancel m)).2, ∃ s, o = Obs.cancelled s m) := by
  unfold step
  simp only []
  cases hf : t.blocked.find? (·.msg == m) with
  | none => simp [find_none_filter _ _ hf]
  | some w => simp

/-- what the synchronous actions of a batch leave alone, and where the messages in the waiting
list / the queue of runnable tasks come from -/
theorem syncAct_frame (t : T) (q : List Writer) (a : Act) :
    (t.syncAct q a).1.closing = t.closing ∧ (t.syncAct q a).1.lost = t.lost ∧
    (t.syncAct q a).1.maxDelay = t.maxDelay ∧ (t.syncAct q a).1.now = t.now ∧
    (t.syncAct q a).1.wire = t.wire ∧
    (∀ x ∈ t.used, x ∈ (t.syncAct q a).1.used) ∧
    (∀ x, x ∈ msgs (t.syncAct q a).1.blocked ∨ x ∈ msgs (t.syncAct q a).2.1 →
      x ∈ msgs t.blocked ∨ x ∈ msgs q ∨ x ∉ t.used) := by
  cases a with
  | send s m =>
    simp only [T.syncAct]
    split
    · exact ⟨rfl, rfl, rfl, rfl, rfl, fun x hx => hx, fun x hx => by
        rcases hx with hx | hx
        · exact Or.inl hx
        · exact Or.inr (Or.inl hx)⟩
    · rename_i hnew
      have hnew' : m ∉ t.used := by simpa using hnew
      refine ⟨rfl, rfl, rfl, rfl, rfl, fun x hx => by simp [T.use, hx], ?_⟩
      intro x hx
      rcases hx with hx | hx
      · exact Or.inl hx
      · simp only [msgs, List.map_append, List.mem_append, List.map_cons, List.map_nil,
          List.mem_singleton] at hx
        rcases hx with hx | rfl
        · exact Or.inr (Or.inl hx)
        · exact Or.inr (Or.inr hnew')
  | pause =>
    simp only [T.syncAct]
    obtain ⟨h1, h2, h3, h4, h5⟩ := pause_frame t
    obtain ⟨g1, g2⟩ := pause_flags t
    refine ⟨g1, g2, h5, h4, h1, fun x hx => by rw [h3]; exact hx, ?_⟩
    intro x hx
    rcases hx with hx | hx
    · rw [h2] at hx; exact Or.inl hx
    · exact Or.inr (Or.inl hx)
  | resume =>
    simp only [T.syncAct]
    split
    · exact ⟨rfl, rfl, rfl, rfl, rfl, fun x hx => hx, fun x hx => by
        rcases hx with hx | hx
        · exact Or.inl hx
        · exact Or.inr (Or.inl hx)⟩
    · split
      · exact ⟨rfl, rfl, rfl, rfl, rfl, fun x hx => hx, fun x hx => by
          rcases hx with hx | hx
          · exact Or.inl hx
          · exact Or.inr (Or.inl hx)⟩
      · refine ⟨rfl, rfl, rfl, rfl, rfl, fun x hx => hx, ?_⟩
        intro x hx
        rcases hx with hx | hx
        · simp [T.resumed, msgs] at hx
        · simp only [msgs, List.map_append, List.mem_append] at hx
          rcases hx with hx | hx
          · exact Or.inr (Or.inl hx)
          · exact Or.inl hx

theorem sync_frame (acts : List Act) : ∀ (t : T) (q : List Writer),
    (t.sync q acts).1.closing = t.closing ∧ (t.sync q acts).1.lost = t.lost ∧
    (t.sync q acts).1.maxDelay = t.maxDelay ∧ (t.sync q acts).1.now = t.now ∧
    (t.sync q acts).1.wire = t.wire ∧
    (∀ x ∈ t.used, x ∈ (t.sync q acts).1.used) ∧
    (∀ x, x ∈ msgs (t.sync q acts).1.blocked ∨ x ∈ msgs (t.sync q acts).2.1 →
      x ∈ msgs t.blocked ∨ x ∈ msgs q ∨ x ∉ t.used) := by
  induction acts with
  | nil =>
    intro t q
    exact ⟨rfl, rfl, rfl, rfl, rfl, fun x hx => hx, fun x hx => by
      rcases hx with hx | hx
      · exact Or.inl hx
      · exact Or.inr (Or.inl hx)⟩
  | cons a as ih =>
    intro t q
    simp only [T.sync]
    obtain ⟨a1, a2, a3, a4, a5, a6, a7⟩ := syncAct_frame t q a
    obtain ⟨b1, b2, b3, b4, b5, b6, b7⟩ := ih (t.syncAct q a).1 (t.syncAct q a).2.1
    refine ⟨by rw [b1, a1], by rw [b2, a2], by rw [b3, a3], by rw [b4, a4], by rw [b5, a5],
      fun x hx => b6 x (a6 x hx), ?_⟩
    intro x hx
    rcases b7 x hx with h | h | h
    · exact a7 x (Or.inl h)
    · exact a7 x (Or.inr h)
    · exact Or.inr (Or.inr (fun hu => h (a6 x hu)))

theorem step_maxDelay (t : T) (e : Event) : (step t e).1.maxDelay = t.maxDelay := by
  cases e with
  | send s m flags =>
    unfold step
    simp only []; split
    · rfl
    · split
      · rw [(doWrite_frame _ _ _).2.2.2.2]; rfl
      · rfl
  | pause => unfold step; exact (pause_frame t).2.2.2.2
  | resume flags =>
    unfold step
    simp only []; split
    · rfl
    · split
      · rfl
      · rw [(wakeAll_frame _ _ _).2.2.1]; rfl
  | lost =>
    unfold step
    simp only []; split
    · rfl
    · exact (connectionLost_frame t).2.2.1
  | advance dt => unfold step; exact (fire_frame t _).1
  | cancel m => rw [(cancel_others_unaffected t m).1]
  | gclose pending =>
    unfold step
    simp only []; split
    · rfl
    · split
      · rfl
      · exact (connectionLost_frame t).2.2.1
  | batch acts flags =>
    unfold step
    simp only []
    rw [(wakeAll_frame _ _ _).2.2.1, (sync_frame acts t []).2.2.1]

theorem run_maxDelay (es : List Event) : ∀ (t : T), (run t es).1.maxDelay = t.maxDelay := by
  induction es with
  | nil => intro t; rfl
  | cons e es ih => intro t; simp only [run]; rw [ih, step_maxDelay]

/-- **Nothing is written once the transport is closing** (own graceful close pending, abort, or
loss), whatever happens next - one step: the wire is unchanged and `is_closing()` stays true. -/
theorem step_closing (t : T) (e : Event) (h : t.closing = true) :
    (step t e).1.wire = t.wire ∧ (step t e).1.closing = true := by
  cases e with
  | send s m flags =>
    unfold step
    simp only []; split
    · exact ⟨rfl, h⟩
    · split
      · simp [T.doWrite, T.use, h]
      · simp [T.block, T.use, h]
  | pause =>
    unfold step
    obtain ⟨a, _⟩ := pause_frame t
    exact ⟨a, by rw [(pause_flags t).1]; exact h⟩
  | resume flags =>
    unfold step
    simp only []; split
    · exact ⟨rfl, h⟩
    · split
      · exact ⟨rfl, h⟩
      · exact ⟨by rw [wakeAll_closing_wire _ _ _ (by simp [T.resumed, h])]; rfl,
               by rw [(wakeAll_frame _ _ _).1]; simp [T.resumed, h]⟩
  | lost =>
    unfold step
    simp only []; split
    · exact ⟨rfl, h⟩
    · exact ⟨(connectionLost_frame t).2.2.2.2.2.1, (connectionLost_frame t).1⟩
  | advance dt => unfold step; exact ⟨(fire_frame t _).2.2.1, (fire_frame t _).2.2.2.1 h⟩
  | cancel m => rw [(cancel_others_unaffected t m).1]; exact ⟨rfl, h⟩
  | gclose pending =>
    unfold step
    simp only []; split
    · exact ⟨rfl, h⟩
    · split
      · exact ⟨rfl, rfl⟩
      · exact ⟨(connectionLost_frame t).2.2.2.2.2.1, (connectionLost_frame t).1⟩
  | batch acts flags =>
    unfold step
    simp only []
    obtain ⟨a1, _, _, _, a5, _, _⟩ := sync_frame acts t []
    have hc : (t.sync [] acts).1.closing = true := by rw [a1]; exact h
    exact ⟨by rw [wakeAll_closing_wire _ _ _ hc, a5], by rw [(wakeAll_frame _ _ _).1]; exact hc⟩

/-- where messages come from: after a step, a message on the wire was there before, or was
waiting, or is new; a waiting message was waiting before or is new; `used` only grows -/
theorem step_sources (t : T) (e : Event) :
    (∀ x ∈ (step t e).1.wire, x ∈ t.wire ∨ x ∈ msgs t.blocked ∨ x ∉ t.used) ∧
    (∀ x ∈ msgs (step t e).1.blocked, x ∈ msgs t.blocked ∨ x ∉ t.used) ∧
    (∀ x ∈ t.used, x ∈ (step t e).1.used) := by
  cases e with
  | send s m flags =>
    unfold step
    simp only []; split
    · exact ⟨fun x hx => Or.inl hx, fun x hx => Or.inl hx, fun x hx => hx⟩
    · rename_i hnew
      have hnew' : m ∉ t.used := by simpa using hnew
      split
      · obtain ⟨f1, f2, f3, _, _⟩ := doWrite_frame (t.use m) m (headFlag flags).1
        refine ⟨?_, ?_, ?_⟩
        · intro x hx; rw [f1] at hx
          split at hx
          · exact Or.inl hx
          · simp only [T.use, List.mem_append, List.mem_singleton] at hx
            rcases hx with hx | rfl
            · exact Or.inl hx
            · exact Or.inr (Or.inr hnew')
        · intro x hx; rw [f2] at hx; exact Or.inl hx
        · intro x hx; rw [f3]; simp [T.use, hx]
      · refine ⟨fun x hx => Or.inl hx, ?_, fun x hx => by simp [T.block, T.use, hx]⟩
        intro x hx
        simp only [msgs, T.block, T.use, List.map_append, List.mem_append, List.map_cons,
          List.map_nil, List.mem_singleton] at hx
        rcases hx with hx | rfl
        · exact Or.inl hx
        · exact Or.inr hnew'
  | pause =>
    unfold step
    obtain ⟨a, b, c, _, _⟩ := pause_frame t
    exact ⟨fun x hx => Or.inl (by rw [a] at hx; exact hx),
           fun x hx => Or.inl (by rw [b] at hx; exact hx), fun x hx => by rw [c]; exact hx⟩
  | resume flags =>
    unfold step
    simp only []; split
    · exact ⟨fun x hx => Or.inl hx, fun x hx => Or.inl hx, fun x hx => hx⟩
    · split
      · exact ⟨fun x hx => Or.inl hx, fun x hx => Or.inl hx, fun x hx => hx⟩
      · obtain ⟨a, b⟩ := wakeAll_sources t.blocked t.resumed flags
        refine ⟨?_, ?_, ?_⟩
        · intro x hx
          rcases a x hx with h | h
          · exact Or.inl h
          · exact Or.inr (Or.inl h)
        · intro x hx
          rcases b x hx with h | h
          · simp [T.resumed, msgs] at h
          · exact Or.inl h
        · intro x hx; rw [(wakeAll_frame _ _ _).2.2.2.2]; exact hx
  | lost =>
    unfold step
    simp only []; split
    · exact ⟨fun x hx => Or.inl hx, fun x hx => Or.inl hx, fun x hx => hx⟩
    · obtain ⟨_, _, _, _, e, f, g⟩ := connectionLost_frame t
      exact ⟨fun x hx => Or.inl (by rw [f] at hx; exact hx),
             fun x hx => by rw [g] at hx; simp [msgs] at hx, fun x hx => by rw [e]; exact hx⟩
  | advance dt =>
    unfold step
    obtain ⟨_, b, c, _, e⟩ := fire_frame t (t.now + dt)
    exact ⟨fun x hx => Or.inl (by rw [c] at hx; exact hx), fun x hx => Or.inl (e x hx),
           fun x hx => by rw [b]; exact hx⟩
  | cancel m =>
    rw [(cancel_others_unaffected t m).1]
    refine ⟨fun x hx => Or.inl hx, ?_, fun x hx => hx⟩
    intro x hx
    simp only [msgs, List.mem_map, List.mem_filter] at hx ⊢
    obtain ⟨w, ⟨hw, _⟩, rfl⟩ := hx
    exact Or.inl ⟨w, hw, rfl⟩
  | gclose pending =>
    unfold step
    simp only []; split
    · exact ⟨fun x hx => Or.inl hx, fun x hx => Or.inl hx, fun x hx => hx⟩
    · split
      · exact ⟨fun x hx => Or.inl hx, fun x hx => Or.inl hx, fun x hx => hx⟩
      · obtain ⟨_, _, _, _, e, f, g⟩ := connectionLost_frame t
        exact ⟨fun x hx => Or.inl (by rw [f] at hx; exact hx),
               fun x hx => by rw [g] at hx; simp [msgs] at hx, fun x hx => by rw [e]; exact hx⟩
  | batch acts flags =>
    unfold step
    simp only []
    obtain ⟨_, _, _, _, a5, a6, a7⟩ := sync_frame acts t []
    obtain ⟨b1, b2⟩ := wakeAll_sources (t.sync [] acts).2.1 (t.sync [] acts).1 flags
    have hsrc : ∀ x, x ∈ msgs (t.sync [] acts).1.blocked ∨ x ∈ msgs (t.sync [] acts).2.1 →
        x ∈ msgs t.blocked ∨ x ∉ t.used := by
      intro x hx
      rcases a7 x hx with h | h | h
      · exact Or.inl h
      · simp [msgs] at h
      · exact Or.inr h
    refine ⟨?_, ?_, ?_⟩
    · intro x hx
      rcases b1 x hx with h | h
      · rw [a5] at h; exact Or.inl h
      · exact Or.inr (hsrc x (Or.inr h))
    · intro x hx
      exact hsrc x (b2 x hx)
    · intro x hx
      rw [(wakeAll_frame _ _ _).2.2.2.2]
      exact a6 x hx

/-- a message that was handed to a send, is not on the wire and is not waiting: it can never
reach the wire any more -/
def Dead (m : Nat) (t : T) : Prop := m ∈ t.used ∧ m ∉ t.wire ∧ m ∉ msgs t.blocked

theorem dead_step (m : Nat) (t : T) (e : Event) (h : Dead m t) : Dead m (step t e).1 := by
  obtain ⟨a, b, c⟩ := step_sources t e
  refine ⟨c m h.1, ?_, ?_⟩
  · intro hx
    rcases a m hx with h1 | h1 | h1
    · exact h.2.1 h1
    · exact h.2.2 h1
    · exact h1 h.1
  · intro hx
    rcases b m hx with h1 | h1
    · exact h.2.2 h1
    · exact h1 h.1

theorem dead_run (m : Nat) (es : List Event) : ∀ (t : T), Dead m t → Dead m (run t es).1 := by
  induction es with
  | nil => intro t h; exact h
  | cons e es ih => intro t h; simp only [run]; exact ih _ (dead_step m t e h)

end Aiorpcx.C15
