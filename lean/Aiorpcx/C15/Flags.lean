import Aiorpcx.C15.Model
/-! C15 invariants about the flags: nothing is written while paused, reading follows writing,
a lost connection releases everybody. -/
namespace Aiorpcx.C15

structure FInv (t : T) : Prop where
  /-- every write so far happened while the transport was not paused -/
  noPausedWrite : ∀ w ∈ t.writes, w.2 = false
  /-- while the connection is up: `_can_send` mirrors the transport's pause flag, and reading
      is paused exactly while writing is -/
  track : t.closing = false → t.canSend = !t.tPaused ∧ t.reading = t.canSend
  /-- after the loss (`connection_lost` delivered): `_can_send` is set and nobody is blocked -/
  released : t.lost = true → t.canSend = true ∧ t.blocked = []
  /-- a lost connection is closing -/
  lostClosing : t.lost = true → t.closing = true
  /-- somebody is blocked only while sending is paused -/
  waiting : t.blocked ≠ [] → t.canSend = false
  /-- `_can_send` is clear only while the transport has the protocol paused -/
  clearPaused : t.canSend = false → t.tPaused = true

theorem fixed_pause (t : T) : t.pause.1.fixed = t.fixed := by
  unfold T.pause; split
  · rfl
  · split <;> rfl

theorem fixed_doWrite (t : T) (m : Nat) (f : Bool) : (t.doWrite m f).1.fixed = t.fixed := by
  unfold T.doWrite; split
  · rfl
  · split
    · simp only []; rw [fixed_pause]; rfl
    · rfl

theorem fixed_wakeAll (ws : List Writer) : ∀ (t : T) (flags : List Bool),
    (t.wakeAll ws flags).1.fixed = t.fixed := by
  induction ws with
  | nil => intro t flags; rfl
  | cons w ws ih =>
    intro t flags
    unfold T.wakeAll
    split
    · rw [ih]
    · simp only []; rw [ih, fixed_doWrite]

theorem finv_pause (t : T) (h : FInv t) : FInv t.pause.1 := by
  unfold T.pause
  split
  · exact h
  · split
    · rename_i hc
      refine ⟨h.noPausedWrite, ?_, h.released, h.lostClosing, h.waiting, fun _ => rfl⟩
      intro hc'; simp only [] at hc'; rw [hc] at hc'; cases hc'
    · rename_i hc
      refine ⟨h.noPausedWrite, ?_, ?_, h.lostClosing, fun _ => rfl, fun _ => rfl⟩
      · intro _; simp
      · intro hl; simp only [] at hl; exact absurd (h.lostClosing hl) hc

/-- a write performed while `_can_send` is set keeps the invariant (the transport may re-pause
from inside it) -/
theorem finv_doWrite (t : T) (m : Nat) (flag : Bool) (h : FInv t) (hcs : t.canSend = true) :
    FInv (t.doWrite m flag).1 := by
  unfold T.doWrite
  split
  · exact h
  · rename_i hc
    have hc' : t.closing = false := by simpa using hc
    have htp : t.tPaused = false := by
      have := (h.track hc').1; rw [hcs] at this; simpa using this.symm
    have h1 : FInv (t.written m) := by
      refine ⟨?_, h.track, h.released, h.lostClosing, h.waiting, h.clearPaused⟩
      intro w hw
      simp only [T.written, List.mem_append, List.mem_singleton] at hw
      rcases hw with hw | rfl
      · exact h.noPausedWrite w hw
      · exact htp
    split
    · exact finv_pause _ h1
    · exact h1

theorem finv_wakeAll (ws : List Writer) : ∀ (t : T) (flags : List Bool), t.fixed = true →
    FInv t → FInv (t.wakeAll ws flags).1 := by
  induction ws with
  | nil => intro t flags _ h; exact h
  | cons w ws ih =>
    intro t flags hfix h
    unfold T.wakeAll
    by_cases hcs : t.canSend = true
    · have hcond : (t.fixed && !t.canSend) = false := by simp [hcs]
      simp only [hcond]
      exact ih _ _ (by rw [fixed_doWrite]; exact hfix) (finv_doWrite t w.msg _ h hcs)
    · have hcs' : t.canSend = false := by simpa using hcs
      have hcond : (t.fixed && !t.canSend) = true := by simp [hcs', hfix]
      simp only [hcond, ↓reduceIte]
      refine ih { t with blocked := t.blocked ++ [w] } flags hfix
        ⟨h.noPausedWrite, h.track, ?_, h.lostClosing, fun _ => hcs', h.clearPaused⟩
      intro hc
      have := (h.released hc).1; rw [hcs'] at this; cases this

theorem finv_connectionLost (t : T) (hfix : t.fixed = true) (h : FInv t) :
    FInv t.connectionLost.1 := by
  unfold T.connectionLost
  simp only []
  exact finv_wakeAll t.blocked
    { t with closing := true, lost := true, canSend := true, blocked := [] } [] hfix
    ⟨h.noPausedWrite, fun hc => (by cases hc), fun _ => ⟨rfl, rfl⟩, fun _ => rfl,
     fun hb => absurd rfl hb, fun hc => (by cases hc)⟩

theorem finv_now (t : T) (n : Int) (h : FInv t) : FInv { t with now := n } :=
  ⟨h.noPausedWrite, h.track, h.released, h.lostClosing, h.waiting, h.clearPaused⟩

/-- dropping some blocked senders (their timers fired / they were cancelled) keeps the flags
invariant -/
theorem finv_filter (t : T) (p : Writer → Bool) (h : FInv t) :
    FInv { t with blocked := t.blocked.filter p } := by
  refine ⟨h.noPausedWrite, h.track, ?_, h.lostClosing, ?_, h.clearPaused⟩
  · intro hc
    have := h.released hc
    exact ⟨this.1, by simp [this.2]⟩
  · intro hb
    apply h.waiting
    intro hnil; apply hb; simp [hnil]

theorem finv_fire (t : T) (limit : Int) (hfix : t.fixed = true) (h : FInv t) :
    FInv (t.fire limit).1 := by
  unfold T.fire
  cases he : earliest t.blocked with
  | none => exact finv_now t limit h
  | some d =>
    simp only []
    split
    · apply finv_now
      exact finv_connectionLost (t.atDeadline d) hfix
        (finv_now _ d (finv_filter t (·.deadline != d) h))
    · exact finv_now t limit h

theorem fixed_syncAct (t : T) (q : List Writer) (a : Act) : (t.syncAct q a).1.fixed = t.fixed := by
  cases a with
  | send s m => simp only [T.syncAct]; split <;> rfl
  | pause => exact fixed_pause t
  | resume =>
    simp only [T.syncAct]
    split
    · rfl
    · split <;> rfl

theorem fixed_sync (acts : List Act) : ∀ (t : T) (q : List Writer),
    (t.sync q acts).1.fixed = t.fixed := by
  induction acts with
  | nil => intro t q; rfl
  | cons a as ih => intro t q; simp only [T.sync]; rw [ih, fixed_syncAct]

/-- the synchronous actions of a batch keep the flags invariant (nobody has run yet: the woken
writers are in the queue, not in `blocked`) -/
theorem finv_syncAct (t : T) (q : List Writer) (a : Act) (h : FInv t) : FInv (t.syncAct q a).1 := by
  cases a with
  | send s m =>
    simp only [T.syncAct]
    split
    · exact h
    · exact ⟨h.noPausedWrite, h.track, h.released, h.lostClosing, h.waiting, h.clearPaused⟩
  | pause => exact finv_pause t h
  | resume =>
    simp only [T.syncAct]
    split
    · exact h
    · rename_i htp
      have htp' : t.tPaused = true := by simpa using htp
      split
      · rename_i hcs
        refine ⟨h.noPausedWrite, ?_, h.released, h.lostClosing, h.waiting, ?_⟩
        · intro hc
          have := (h.track hc).1
          rw [hcs, htp'] at this; cases this
        · intro hc; simp only [] at hc; rw [hcs] at hc; cases hc
      · exact ⟨h.noPausedWrite, fun _ => (by simp [T.resumed]),
               fun _ => ⟨rfl, rfl⟩, h.lostClosing,
               fun hb => absurd rfl hb, fun hc => (by cases hc)⟩

theorem finv_sync (acts : List Act) : ∀ (t : T) (q : List Writer), FInv t →
    FInv (t.sync q acts).1 := by
  induction acts with
  | nil => intro t q h; exact h
  | cons a as ih => intro t q h; simp only [T.sync]; exact ih _ _ (finv_syncAct t q a h)

theorem finv_step (t : T) (e : Event) (hfix : t.fixed = true) (h : FInv t) : FInv (step t e).1 := by
  unfold step
  cases e with
  | send s m flags =>
    simp only []
    have h0 : FInv (t.use m) :=
      ⟨h.noPausedWrite, h.track, h.released, h.lostClosing, h.waiting, h.clearPaused⟩
    split
    · exact h
    · split
      · rename_i hcs
        exact finv_doWrite _ m _ h0 hcs
      · rename_i hcs
        have hcs' : t.canSend = false := by simpa using hcs
        refine ⟨h.noPausedWrite, h.track, ?_, h.lostClosing, fun _ => hcs', h.clearPaused⟩
        intro hc
        have := (h.released hc).1; rw [hcs'] at this; cases this
  | pause => exact finv_pause t h
  | resume flags =>
    simp only []
    split
    · exact h
    · rename_i htp
      have htp' : t.tPaused = true := by simpa using htp
      split
      · rename_i hcs
        -- only possible on a closing transport
        refine ⟨h.noPausedWrite, ?_, h.released, h.lostClosing, h.waiting, ?_⟩
        · intro hc
          have := (h.track hc).1
          rw [hcs, htp'] at this; cases this
        · intro hc; simp only [] at hc; rw [hcs] at hc; cases hc
      · exact finv_wakeAll t.blocked t.resumed flags hfix
          ⟨h.noPausedWrite, fun _ => (by simp [T.resumed]),
           fun _ => ⟨rfl, rfl⟩, h.lostClosing,
           fun hb => absurd rfl hb, fun hc => (by cases hc)⟩
  | lost =>
    simp only []
    split
    · exact h
    · exact finv_connectionLost t hfix h
  | advance dt => exact finv_fire t _ hfix h
  | cancel m =>
    simp only []
    split
    · exact h
    · exact finv_filter t (·.msg != m) h
  | gclose pending =>
    simp only []
    split
    · exact h
    · split
      · exact ⟨h.noPausedWrite, fun hc => (by cases hc), h.released, fun _ => rfl, h.waiting,
               h.clearPaused⟩
      · exact finv_connectionLost t hfix h
  | batch acts flags =>
    simp only []
    exact finv_wakeAll _ _ _ (by rw [fixed_sync]; exact hfix) (finv_sync acts t [] h)

theorem fixed_step (t : T) (e : Event) : (step t e).1.fixed = t.fixed := by
  unfold step
  cases e with
  | send s m flags =>
    simp only []
    split
    · rfl
    · split
      · rw [fixed_doWrite]; rfl
      · rfl
  | pause => exact fixed_pause t
  | resume flags =>
    simp only []
    split
    · rfl
    · split
      · rfl
      · rw [fixed_wakeAll]; rfl
  | lost =>
    simp only []
    split
    · rfl
    · unfold T.connectionLost; simp only []; rw [fixed_wakeAll]
  | advance dt =>
    unfold T.fire
    cases earliest t.blocked with
    | none => rfl
    | some d =>
      simp only []
      split
      · unfold T.connectionLost; simp only []; rw [fixed_wakeAll]; rfl
      · rfl
  | cancel m =>
    simp only []
    split <;> rfl
  | gclose pending =>
    simp only []
    split
    · rfl
    · split
      · rfl
      · unfold T.connectionLost; simp only []; rw [fixed_wakeAll]
  | batch acts flags =>
    simp only []
    rw [fixed_wakeAll, fixed_sync]

theorem finv_run (es : List Event) : ∀ (t : T), t.fixed = true → FInv t → FInv (run t es).1 := by
  induction es with
  | nil => intro t _ h; exact h
  | cons e es ih =>
    intro t hfix h
    simp only [run]
    exact ih _ (by rw [fixed_step]; exact hfix) (finv_step t e hfix h)

end Aiorpcx.C15
