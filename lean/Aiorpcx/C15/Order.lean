import Aiorpcx.C15.Steps
/-! C15: order.

(1) As long as every event is followed by running the loop to idle (no `batch` event), the wire
followed by the waiting list is a sub-sequence of the messages in the order in which they were
handed to a send (`used`): blocked senders are woken first-in first-out, a sender that has to wait
again goes behind nobody who came after it, and nobody overtakes a waiting sender (a send that
finds `_can_send` set finds nobody waiting) - `oinv_run`.

(2) That is NOT so in general, and the property text does not ask for it: a sender that is
already runnable when `resume_writing()` sets the event runs before the writers the event woke
(`batch [send, resume]`) and its message goes out first.  What the text asks - "messages one task
sends one after another keep their order" - holds for every event sequence: a message whose send
has completed is never behind a message that is sent later (`task_order_aux`). -/
namespace Aiorpcx.C15

def OInv (t : T) : Prop := (t.wire ++ msgs t.blocked).Sublist t.used

theorem blocked_nil_of_canSend (t : T) (hf : FInv t) (hcs : t.canSend = true) : t.blocked = [] := by
  cases hb : t.blocked with
  | nil => rfl
  | cons x xs =>
    have := hf.waiting (by rw [hb]; simp)
    rw [hcs] at this; cases this

theorem oinv_wakeAll (ws : List Writer) : ∀ (t : T) (flags : List Bool), t.fixed = true → FInv t →
    (t.wire ++ msgs t.blocked ++ msgs ws).Sublist t.used → OInv (t.wakeAll ws flags).1 := by
  induction ws with
  | nil => intro t flags _ _ h; simpa [OInv, msgs, T.wakeAll] using h
  | cons w ws ih =>
    intro t flags hfix hf h
    unfold T.wakeAll
    by_cases hcs : t.canSend = true
    · have hcond : (t.fixed && !t.canSend) = false := by simp [hcs]
      simp only [hcond]
      have hb := blocked_nil_of_canSend t hf hcs
      obtain ⟨f1, f2, f3, _, _⟩ := doWrite_frame t w.msg (headFlag flags).1
      refine ih _ _ (by rw [fixed_doWrite]; exact hfix) (finv_doWrite t w.msg _ hf hcs) ?_
      rw [f1, f2, f3, hb]
      rw [hb] at h
      split
      · refine List.Sublist.trans ?_ h
        simp [msgs]
      · simpa [msgs] using h
    · have hcs' : t.canSend = false := by simpa using hcs
      have hcond : (t.fixed && !t.canSend) = true := by simp [hcs', hfix]
      simp only [hcond, ↓reduceIte]
      refine ih { t with blocked := t.blocked ++ [w] } flags hfix
        ⟨hf.noPausedWrite, hf.track, ?_, hf.lostClosing, fun _ => hcs', hf.clearPaused⟩ ?_
      · intro hc
        have := (hf.released hc).1; rw [hcs'] at this; cases this
      · simpa [msgs] using h

theorem oinv_cleared (t t' : T) (h : OInv t) (hw : t'.wire = t.wire) (hb : t'.blocked = [])
    (hu : t'.used = t.used) : OInv t' := by
  unfold OInv at h ⊢
  rw [hw, hb, hu]
  refine List.Sublist.trans ?_ h
  simp [msgs]

/-- the event is followed by running the loop to idle before anything else happens -/
def Event.simple : Event → Bool
  | .batch _ _ => false
  | _ => true

theorem oinv_step (t : T) (e : Event) (hs : e.simple = true) (hfix : t.fixed = true) (hf : FInv t)
    (h : OInv t) : OInv (step t e).1 := by
  cases e with
  | batch acts flags => cases hs
  | send s m flags =>
    unfold step
    simp only []
    split
    · exact h
    · split
      · rename_i hcs
        have hb := blocked_nil_of_canSend t hf hcs
        obtain ⟨f1, f2, f3, _, _⟩ := doWrite_frame (t.use m) m (headFlag flags).1
        unfold OInv at h ⊢
        rw [f1, f2, f3]
        have e1 : (t.use m).wire = t.wire := rfl
        have e2 : (t.use m).blocked = t.blocked := rfl
        have e3 : (t.use m).used = t.used ++ [m] := rfl
        have e4 : (t.use m).closing = t.closing := rfl
        rw [e1, e2, e3, e4, hb]
        rw [hb] at h
        simp only [msgs, List.map_nil, List.append_nil] at h ⊢
        by_cases hc : t.closing = true
        · simp only [hc, ↓reduceIte]
          exact List.Sublist.trans h (List.sublist_append_left _ _)
        · simp only [hc]
          exact List.Sublist.append h (List.Sublist.refl _)
      · unfold OInv at h ⊢
        simp only [T.block, T.use, msgs, List.map_append, List.map_cons, List.map_nil]
        rw [← List.append_assoc]
        exact List.Sublist.append h (List.Sublist.refl _)
  | pause =>
    unfold step
    obtain ⟨a, b, c, _, _⟩ := pause_frame t
    unfold OInv at h ⊢
    rw [a, b, c]; exact h
  | resume flags =>
    unfold step
    simp only []
    split
    · exact h
    · split
      · exact h
      · rename_i hcs
        refine oinv_wakeAll t.blocked t.resumed flags hfix
          ⟨hf.noPausedWrite, fun _ => (by simp [T.resumed]), fun _ => ⟨rfl, rfl⟩, hf.lostClosing,
           fun hb => absurd rfl hb, fun hc => (by cases hc)⟩ ?_
        unfold OInv at h
        simpa [T.resumed, msgs] using h
  | lost =>
    unfold step
    simp only []
    split
    · exact h
    · obtain ⟨_, _, _, _, e, f, g⟩ := connectionLost_frame t
      exact oinv_cleared t _ h f g e
  | advance dt =>
    unfold step
    obtain ⟨_, b, c, _, e⟩ := fire_frame t (t.now + dt)
    unfold T.fire at *
    cases he : earliest t.blocked with
    | none => exact h
    | some d =>
      simp only []
      split
      · obtain ⟨_, _, _, _, e', f', g'⟩ := connectionLost_frame (t.atDeadline d)
        unfold OInv at h ⊢
        simp only []
        rw [f', g', e']
        simp only [T.atDeadline, msgs, List.map_nil, List.append_nil]
        exact List.Sublist.trans (List.sublist_append_left _ _) h
      · exact h
  | cancel m =>
    rw [(cancel_others_unaffected t m).1]
    unfold OInv at h ⊢
    simp only []
    refine List.Sublist.trans ?_ h
    exact List.Sublist.append (List.Sublist.refl _) (List.Sublist.map _ List.filter_sublist)
  | gclose pending =>
    unfold step
    simp only []
    split
    · exact h
    · split
      · exact h
      · obtain ⟨_, _, _, _, e, f, g⟩ := connectionLost_frame t
        exact oinv_cleared t _ h f g e

theorem oinv_run (es : List Event) : ∀ (t : T), (∀ e ∈ es, e.simple = true) → t.fixed = true →
    FInv t → OInv t → OInv (run t es).1 := by
  induction es with
  | nil => intro t _ _ _ h; exact h
  | cons e es ih =>
    intro t hs hfix hf h
    simp only [run]
    exact ih _ (fun x hx => hs x (by simp [hx])) (by rw [fixed_step]; exact hfix)
      (finv_step t e hfix hf) (oinv_step t e (hs e (by simp)) hfix hf h)

/-- `used` never repeats a message id: a send with an id that was used before is rejected -/
theorem used_step (t : T) (e : Event) (hs : e.simple = true) :
    (step t e).1.used = t.used ∨ ∃ m, m ∉ t.used ∧ (step t e).1.used = t.used ++ [m] := by
  cases e with
  | batch acts flags => cases hs
  | send s m flags =>
    unfold step
    simp only []
    split
    · exact Or.inl rfl
    · rename_i hnew
      have hnew' : m ∉ t.used := by simpa using hnew
      split
      · exact Or.inr ⟨m, hnew', by rw [(doWrite_frame _ _ _).2.2.1]; rfl⟩
      · exact Or.inr ⟨m, hnew', rfl⟩
  | pause => unfold step; exact Or.inl (pause_frame t).2.2.1
  | resume flags =>
    unfold step
    simp only []
    split
    · exact Or.inl rfl
    · split
      · exact Or.inl rfl
      · exact Or.inl (by rw [(wakeAll_frame _ _ _).2.2.2.2]; rfl)
  | lost =>
    unfold step
    simp only []
    split
    · exact Or.inl rfl
    · exact Or.inl (connectionLost_frame t).2.2.2.2.1
  | advance dt => unfold step; exact Or.inl (fire_frame t _).2.1
  | cancel m => rw [(cancel_others_unaffected t m).1]; exact Or.inl rfl
  | gclose pending =>
    unfold step
    simp only []
    split
    · exact Or.inl rfl
    · split
      · exact Or.inl rfl
      · exact Or.inl (connectionLost_frame t).2.2.2.2.1

theorem used_nodup_syncAct (t : T) (q : List Writer) (a : Act) (h : t.used.Nodup) :
    (t.syncAct q a).1.used.Nodup := by
  cases a with
  | send s m =>
    simp only [T.syncAct]
    split
    · exact h
    · rename_i hnew
      have hnew' : m ∉ t.used := by simpa using hnew
      simp only [T.use]
      rw [List.nodup_append]
      refine ⟨h, by simp, ?_⟩
      intro a ha b hb hab; simp at hb; subst hb; subst hab; exact hnew' ha
  | pause => simp only [T.syncAct]; rw [(pause_frame t).2.2.1]; exact h
  | resume =>
    simp only [T.syncAct]
    split
    · exact h
    · split <;> exact h

theorem used_nodup_sync (acts : List Act) : ∀ (t : T) (q : List Writer), t.used.Nodup →
    (t.sync q acts).1.used.Nodup := by
  induction acts with
  | nil => intro t q h; exact h
  | cons a as ih => intro t q h; simp only [T.sync]; exact ih _ _ (used_nodup_syncAct t q a h)

theorem used_nodup_step (t : T) (e : Event) (h : t.used.Nodup) : (step t e).1.used.Nodup := by
  by_cases hs : e.simple = true
  · rcases used_step t e hs with h1 | ⟨m, hm, h1⟩
    · rw [h1]; exact h
    · rw [h1, List.nodup_append]
      refine ⟨h, by simp, ?_⟩
      intro a ha b hb hab; simp at hb; subst hb; subst hab; exact hm ha
  · cases e with
    | batch acts flags =>
      unfold step
      simp only []
      rw [(wakeAll_frame _ _ _).2.2.2.2]
      exact used_nodup_sync acts t [] h
    | _ => simp [Event.simple] at hs

theorem used_nodup_run (es : List Event) : ∀ (t : T), t.used.Nodup → (run t es).1.used.Nodup := by
  induction es with
  | nil => intro t h; exact h
  | cons e es ih =>
    intro t h
    simp only [run]
    exact ih _ (used_nodup_step t e h)

/-! ## The wire only grows at its end -/

theorem wakeAll_wire_prefix (ws : List Writer) : ∀ (t : T) (flags : List Bool),
    t.wire <+: (t.wakeAll ws flags).1.wire := by
  induction ws with
  | nil => intro t flags; exact List.prefix_refl _
  | cons w ws ih =>
    intro t flags
    unfold T.wakeAll
    split
    · exact ih { t with blocked := t.blocked ++ [w] } flags
    · simp only []
      refine List.IsPrefix.trans ?_ (ih _ _)
      rw [(doWrite_frame t w.msg (headFlag flags).1).1]
      split
      · exact List.prefix_refl _
      · exact List.prefix_append _ _

theorem step_wire_prefix (t : T) (e : Event) : t.wire <+: (step t e).1.wire := by
  cases e with
  | send s m flags =>
    unfold step
    simp only []
    split
    · exact List.prefix_refl _
    · split
      · rw [(doWrite_frame (t.use m) m (headFlag flags).1).1]
        have e1 : (t.use m).wire = t.wire := rfl
        rw [e1]
        split
        · exact List.prefix_refl _
        · exact List.prefix_append _ _
      · exact List.prefix_refl _
  | pause => unfold step; rw [(pause_frame t).1]; exact List.prefix_refl _
  | resume flags =>
    unfold step
    simp only []
    split
    · exact List.prefix_refl _
    · split
      · exact List.prefix_refl _
      · exact wakeAll_wire_prefix t.blocked t.resumed flags
  | lost =>
    unfold step
    simp only []
    split
    · exact List.prefix_refl _
    · rw [(connectionLost_frame t).2.2.2.2.2.1]; exact List.prefix_refl _
  | advance dt => unfold step; rw [(fire_frame t _).2.2.1]; exact List.prefix_refl _
  | cancel m => rw [(cancel_others_unaffected t m).1]; exact List.prefix_refl _
  | gclose pending =>
    unfold step
    simp only []
    split
    · exact List.prefix_refl _
    · split
      · exact List.prefix_refl _
      · rw [(connectionLost_frame t).2.2.2.2.2.1]; exact List.prefix_refl _
  | batch acts flags =>
    unfold step
    simp only []
    have := wakeAll_wire_prefix (t.sync [] acts).2.1 (t.sync [] acts).1 flags
    rw [(sync_frame acts t []).2.2.2.2.1] at this
    exact this

theorem run_wire_prefix (es : List Event) : ∀ (t : T), t.wire <+: (run t es).1.wire := by
  induction es with
  | nil => intro t; exact List.prefix_refl _
  | cons e es ih =>
    intro t
    simp only [run]
    exact List.IsPrefix.trans (step_wire_prefix t e) (ih _)

/-- **Per-task order**, for every event sequence (batches included): if message `a` has been
handed to a send and that send is over (`a` is not waiting any more - it was written, or its
sender timed out / was cancelled / the connection went away) and `b` has not been sent yet, then
`b` never gets onto the wire in front of `a`. -/
theorem task_order_aux (t : T) (es : List Event) (a b : Nat) (hm : MInv t)
    (ha : a ∈ t.used) (hdone : a ∉ msgs t.blocked) (hb : b ∉ t.used) :
    ¬ [b, a].Sublist (run t es).1.wire := by
  intro hs
  have hnd := (minv_run es t hm).wireNodup
  obtain ⟨ext, hext⟩ := run_wire_prefix es t
  by_cases haw : a ∈ t.wire
  · rw [← hext] at hs hnd
    obtain ⟨l₁, l₂, heq, h1, h2⟩ := List.sublist_append_iff.mp hs
    cases l₁ with
    | nil =>
      simp only [List.nil_append] at heq
      subst heq
      have hae : a ∈ ext := h2.subset (by simp)
      exact (List.nodup_append.mp hnd).2.2 a haw a hae rfl
    | cons x xs =>
      simp only [List.cons_append, List.cons.injEq] at heq
      have hbw : b ∈ t.wire := h1.subset (by rw [← heq.1]; simp)
      exact hb (hm.wireUsed b hbw)
  · have hd : Dead a t := ⟨ha, haw, hdone⟩
    exact (dead_run a es t hd).2.1 (hs.subset (by simp))

end Aiorpcx.C15
