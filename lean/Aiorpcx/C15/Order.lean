import Aiorpcx.C15.Steps
/-! C15: order.  The wire followed by the waiting list is always a sub-sequence of the messages in
the order in which they were handed to a send (`used`): blocked senders are woken first-in
first-out, a sender that has to wait again goes behind nobody who came after it, and nobody
overtakes a waiting sender (a send that finds `_can_send` set finds nobody waiting). -/
namespace Aiorpcx.C15

def OInv (t : T) : Prop := (t.wire ++ msgs t.blocked).Sublist t.used

theorem blocked_nil_of_canSend (t : T) (hf : FInv t) (hcs : t.canSend = true) : t.blocked = [] := by
  cases hb : t.blocked with
  | nil => rfl
  | cons x xs =>
    have := hf.waiting (by rw [hb]; simp)
    rw [hcs] at this; cases this

theorem oinv_wakeAll (ws : List Writer) : ∀ (t : T) (flags : List Bool), t.fixed = true → FInv t →
    (t.wire ++ msgs t.blocked ++ msgs ws).Sublist t.used → OInv (t.wakeAll ws flags).1 := by
  induction ws with
  | nil => intro t flags _ _ h; simpa [OInv, msgs, T.wakeAll] using h
  | cons w ws ih =>
    intro t flags hfix hf h
    unfold T.wakeAll
    by_cases hcs : t.canSend = true
    · have hcond : (t.fixed && !t.canSend) = false := by simp [hcs]
      simp only [hcond]
      have hb := blocked_nil_of_canSend t hf hcs
      obtain ⟨f1, f2, f3, _, _⟩ := doWrite_frame t w.msg (headFlag flags).1
      refine ih _ _ (by rw [fixed_doWrite]; exact hfix) (finv_doWrite t w.msg _ hf hcs) ?_
      rw [f1, f2, f3, hb]
      rw [hb] at h
      split
      · refine List.Sublist.trans ?_ h
        simp [msgs]
      · simpa [msgs] using h
    · have hcs' : t.canSend = false := by simpa using hcs
      have hcond : (t.fixed && !t.canSend) = true := by simp [hcs', hfix]
      simp only [hcond, ↓reduceIte]
      refine ih { t with blocked := t.blocked ++ [w] } flags hfix
        ⟨hf.noPausedWrite, hf.track, ?_, hf.lostClosing, fun _ => hcs', hf.clearPaused⟩ ?_
      · intro hc
        have := (hf.released hc).1; rw [hcs'] at this; cases this
      · simpa [msgs] using h

theorem oinv_cleared (t t' : T) (h : OInv t) (hw : t'.wire = t.wire) (hb : t'.blocked = [])
    (hu : t'.used = t.used) : OInv t' := by
  unfold OInv at h ⊢
  rw [hw, hb, hu]
  refine List.Sublist.trans ?_ h
  simp [msgs]

theorem oinv_step (t : T) (e : Event) (hfix : t.fixed = true) (hf : FInv t) (h : OInv t) :
    OInv (step t e).1 := by
  cases e with
  | send s m flags =>
    unfold step
    simp only []
    split
    · exact h
    · split
      · rename_i hcs
        have hb := blocked_nil_of_canSend t hf hcs
        obtain ⟨f1, f2, f3, _, _⟩ := doWrite_frame (t.use m) m (headFlag flags).1
        unfold OInv at h ⊢
        rw [f1, f2, f3]
        have e1 : (t.use m).wire = t.wire := rfl
        have e2 : (t.use m).blocked = t.blocked := rfl
        have e3 : (t.use m).used = t.used ++ [m] := rfl
        have e4 : (t.use m).closing = t.closing := rfl
        rw [e1, e2, e3, e4, hb]
        rw [hb] at h
        simp only [msgs, List.map_nil, List.append_nil] at h ⊢
        by_cases hc : t.closing = true
        · simp only [hc, ↓reduceIte]
          exact List.Sublist.trans h (List.sublist_append_left _ _)
        · simp only [hc]
          exact List.Sublist.append h (List.Sublist.refl _)
      · unfold OInv at h ⊢
        simp only [T.block, T.use, msgs, List.map_append, List.map_cons, List.map_nil]
        rw [← List.append_assoc]
        exact List.Sublist.append h (List.Sublist.refl _)
  | pause =>
    unfold step
    obtain ⟨a, b, c, _, _⟩ := pause_frame t
    unfold OInv at h ⊢
    rw [a, b, c]; exact h
  | resume flags =>
    unfold step
    simp only []
    split
    · exact h
    · split
      · exact h
      · rename_i hcs
        refine oinv_wakeAll t.blocked t.resumed flags hfix
          ⟨hf.noPausedWrite, fun _ => (by simp [T.resumed]), fun _ => ⟨rfl, rfl⟩, hf.lostClosing,
           fun hb => absurd rfl hb, fun hc => (by cases hc)⟩ ?_
        unfold OInv at h
        simpa [T.resumed, msgs] using h
  | lost =>
    unfold step
    simp only []
    split
    · exact h
    · obtain ⟨_, _, _, _, e, f, g⟩ := connectionLost_frame t
      exact oinv_cleared t _ h f g e
  | advance dt =>
    unfold step
    obtain ⟨_, b, c, _, e⟩ := fire_frame t (t.now + dt)
    unfold T.fire at *
    cases he : earliest t.blocked with
    | none => exact h
    | some d =>
      simp only []
      split
      · obtain ⟨_, _, _, _, e', f', g'⟩ := connectionLost_frame (t.atDeadline d)
        unfold OInv at h ⊢
        simp only []
        rw [f', g', e']
        simp only [T.atDeadline, msgs, List.map_nil, List.append_nil]
        exact List.Sublist.trans (List.sublist_append_left _ _) h
      · exact h
  | cancel m =>
    rw [(cancel_others_unaffected t m).1]
    unfold OInv at h ⊢
    simp only []
    refine List.Sublist.trans ?_ h
    exact List.Sublist.append (List.Sublist.refl _) (List.Sublist.map _ List.filter_sublist)
  | gclose pending =>
    unfold step
    simp only []
    split
    · exact h
    · split
      · exact h
      · obtain ⟨_, _, _, _, e, f, g⟩ := connectionLost_frame t
        exact oinv_cleared t _ h f g e

theorem oinv_run (es : List Event) : ∀ (t : T), t.fixed = true → FInv t → OInv t →
    OInv (run t es).1 := by
  induction es with
  | nil => intro t _ _ h; exact h
  | cons e es ih =>
    intro t hfix hf h
    simp only [run]
    exact ih _ (by rw [fixed_step]; exact hfix) (finv_step t e hfix hf) (oinv_step t e hfix hf h)

/-- `used` never repeats a message id: a send with an id that was used before is rejected -/
theorem used_step (t : T) (e : Event) :
    (step t e).1.used = t.used ∨ ∃ m, m ∉ t.used ∧ (step t e).1.used = t.used ++ [m] := by
  cases e with
  | send s m flags =>
    unfold step
    simp only []
    split
    · exact Or.inl rfl
    · rename_i hnew
      have hnew' : m ∉ t.used := by simpa using hnew
      split
      · exact Or.inr ⟨m, hnew', by rw [(doWrite_frame _ _ _).2.2.1]; rfl⟩
      · exact Or.inr ⟨m, hnew', rfl⟩
  | pause => unfold step; exact Or.inl (pause_frame t).2.2.1
  | resume flags =>
    unfold step
    simp only []
    split
    · exact Or.inl rfl
    · split
      · exact Or.inl rfl
      · exact Or.inl (by rw [(wakeAll_frame _ _ _).2.2.2.2]; rfl)
  | lost =>
    unfold step
    simp only []
    split
    · exact Or.inl rfl
    · exact Or.inl (connectionLost_frame t).2.2.2.2.1
  | advance dt => unfold step; exact Or.inl (fire_frame t _).2.1
  | cancel m => rw [(cancel_others_unaffected t m).1]; exact Or.inl rfl
  | gclose pending =>
    unfold step
    simp only []
    split
    · exact Or.inl rfl
    · split
      · exact Or.inl rfl
      · exact Or.inl (connectionLost_frame t).2.2.2.2.1

theorem used_nodup_run (es : List Event) : ∀ (t : T), t.used.Nodup → (run t es).1.used.Nodup := by
  induction es with
  | nil => intro t h; exact h
  | cons e es ih =>
    intro t h
    simp only [run]
    apply ih
    rcases used_step t e with h1 | ⟨m, hm, h1⟩
    · rw [h1]; exact h
    · rw [h1, List.nodup_append]
      refine ⟨h, by simp, ?_⟩
      intro a ha b hb hab; simp at hb; subst hb; subst hab; exact hm ha

end Aiorpcx.C15
