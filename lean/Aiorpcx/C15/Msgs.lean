import Aiorpcx.C15.Flags
/-! C15 invariants about messages (each accepted message goes onto the wire whole, at most once)
and about time (nobody stays blocked for `max_send_delay`). -/
namespace Aiorpcx.C15

def msgs (l : List Writer) : List Nat := l.map (·.msg)

structure MInv (t : T) : Prop where
  wireUsed : ∀ m ∈ t.wire, m ∈ t.used
  blockedUsed : ∀ m ∈ msgs t.blocked, m ∈ t.used
  wireNodup : t.wire.Nodup
  blockedNodup : (msgs t.blocked).Nodup
  disjoint : ∀ m ∈ msgs t.blocked, m ∉ t.wire
  /-- `0 < max_send_delay` and every blocked sender's timer is still in the future, at most
      `max_send_delay` away -/
  delayPos : 0 < t.maxDelay
  timers : ∀ w ∈ t.blocked, t.now < w.deadline ∧ w.deadline ≤ t.now + t.maxDelay

theorem pause_frame (t : T) : t.pause.1.wire = t.wire ∧ t.pause.1.blocked = t.blocked ∧
    t.pause.1.used = t.used ∧ t.pause.1.now = t.now ∧ t.pause.1.maxDelay = t.maxDelay := by
  unfold T.pause; split
  · simp
  · split <;> simp

theorem doWrite_frame (t : T) (m : Nat) (f : Bool) :
    (t.doWrite m f).1.wire = (if t.closing then t.wire else t.wire ++ [m]) ∧
    (t.doWrite m f).1.blocked = t.blocked ∧ (t.doWrite m f).1.used = t.used ∧
    (t.doWrite m f).1.now = t.now ∧ (t.doWrite m f).1.maxDelay = t.maxDelay := by
  unfold T.doWrite
  split
  · simp
  · split
    · obtain ⟨a, b, c, d, e⟩ := pause_frame (t.written m)
      exact ⟨by simp only []; rw [a]; rfl, by simp only []; rw [b]; rfl,
             by simp only []; rw [c]; rfl, by simp only []; rw [d]; rfl,
             by simp only []; rw [e]; rfl⟩
    · simp [T.written]

/-- writing a fresh, used message keeps the message invariant -/
theorem minv_doWrite (t : T) (m : Nat) (f : Bool) (h : MInv t) (hu : m ∈ t.used)
    (hw : m ∉ t.wire) (hb : m ∉ msgs t.blocked) : MInv (t.doWrite m f).1 := by
  obtain ⟨h1, h2, h3, h4, h5⟩ := doWrite_frame t m f
  refine ⟨?_, ?_, ?_, ?_, ?_, ?_, ?_⟩
  · rw [h1, h3]; split
    · exact h.wireUsed
    · intro x hx; simp at hx; rcases hx with hx | rfl
      · exact h.wireUsed x hx
      · exact hu
  · rw [h2, h3]; exact h.blockedUsed
  · rw [h1]; split
    · exact h.wireNodup
    · rw [List.nodup_append]; refine ⟨h.wireNodup, by simp, ?_⟩
      intro a ha b hb' hab; simp at hb'; subst hb'; subst hab; exact hw ha
  · rw [h2]; exact h.blockedNodup
  · rw [h1, h2]; split
    · exact h.disjoint
    · intro x hx hx'; simp at hx'; rcases hx' with hx' | rfl
      · exact h.disjoint x hx hx'
      · exact hb hx
  · rw [h5]; exact h.delayPos
  · rw [h2, h4, h5]; exact h.timers

/-- the senders being woken: used, distinct, on neither the wire nor the blocked list, with
live timers -/
structure Woken (t : T) (ws : List Writer) : Prop where
  used : ∀ m ∈ msgs ws, m ∈ t.used
  nodup : (msgs ws).Nodup
  notWire : ∀ m ∈ msgs ws, m ∉ t.wire
  notBlocked : ∀ m ∈ msgs ws, m ∉ msgs t.blocked
  timers : ∀ w ∈ ws, t.now < w.deadline ∧ w.deadline ≤ t.now + t.maxDelay

theorem minv_wakeAll (ws : List Writer) : ∀ (t : T) (flags : List Bool), MInv t → Woken t ws →
    MInv (t.wakeAll ws flags).1 := by
  induction ws with
  | nil => intro t flags h _; exact h
  | cons w ws ih =>
    intro t flags h hw
    have hwu := hw.used w.msg (by simp [msgs])
    have hww := hw.notWire w.msg (by simp [msgs])
    have hwb := hw.notBlocked w.msg (by simp [msgs])
    have hnd : w.msg ∉ msgs ws ∧ (msgs ws).Nodup := by
      have := hw.nodup; simp only [msgs, List.map_cons, List.nodup_cons] at this; exact this
    unfold T.wakeAll
    split
    · -- re-blocked
      refine ih { t with blocked := t.blocked ++ [w] } flags ?_ ?_
      · refine ⟨h.wireUsed, ?_, h.wireNodup, ?_, ?_, h.delayPos, ?_⟩
        · intro m hm; simp only [msgs, List.map_append, List.mem_append, List.map_cons,
            List.map_nil, List.mem_singleton] at hm
          rcases hm with hm | rfl
          · exact h.blockedUsed m hm
          · exact hwu
        · simp only [msgs, List.map_append, List.map_cons, List.map_nil]
          rw [List.nodup_append]; refine ⟨h.blockedNodup, by simp, ?_⟩
          intro a ha b hb hab; simp at hb; subst hb; subst hab; exact hwb ha
        · intro m hm; simp only [msgs, List.map_append, List.mem_append, List.map_cons,
            List.map_nil, List.mem_singleton] at hm
          rcases hm with hm | rfl
          · exact h.disjoint m hm
          · exact hww
        · intro x hx; simp only [List.mem_append, List.mem_singleton] at hx
          rcases hx with hx | rfl
          · exact h.timers x hx
          · exact hw.timers _ (by simp)
      · refine ⟨fun m hm => hw.used m (by simp [msgs] at hm ⊢; exact Or.inr hm), hnd.2,
          fun m hm => hw.notWire m (by simp [msgs] at hm ⊢; exact Or.inr hm), ?_,
          fun x hx => hw.timers x (by simp [hx])⟩
        intro m hm hmb
        simp only [msgs, List.map_append, List.mem_append, List.map_cons, List.map_nil,
          List.mem_singleton] at hmb
        rcases hmb with hmb | rfl
        · exact hw.notBlocked m (by simp [msgs] at hm ⊢; exact Or.inr hm) hmb
        · exact hnd.1 hm
    · -- written
      simp only []
      obtain ⟨h1, h2, h3, h4, h5⟩ := doWrite_frame t w.msg (headFlag flags).1
      refine ih _ _ (minv_doWrite t w.msg _ h hwu hww hwb) ?_
      refine ⟨?_, hnd.2, ?_, ?_, ?_⟩
      · intro m hm; rw [h3]; exact hw.used m (by simp [msgs] at hm ⊢; exact Or.inr hm)
      · intro m hm; rw [h1]
        have := hw.notWire m (by simp [msgs] at hm ⊢; exact Or.inr hm)
        split
        · exact this
        · intro hx; simp at hx; rcases hx with hx | rfl
          · exact this hx
          · exact hnd.1 hm
      · intro m hm; rw [h2]; exact hw.notBlocked m (by simp [msgs] at hm ⊢; exact Or.inr hm)
      · intro x hx; rw [h4, h5]; exact hw.timers x (by simp [hx])

theorem woken_of_blocked (t t' : T) (h : MInv t) (hu : t'.used = t.used) (hw : t'.wire = t.wire)
    (hb : t'.blocked = []) (hn : t'.now = t.now) (hd : t'.maxDelay = t.maxDelay) :
    Woken t' t.blocked :=
  ⟨by rw [hu]; exact h.blockedUsed, h.blockedNodup, by rw [hw]; exact h.disjoint,
   by rw [hb]; intro m _ hm; simp [msgs] at hm, by rw [hn, hd]; exact h.timers⟩

theorem minv_cleared (t t' : T) (h : MInv t) (hu : t'.used = t.used) (hw : t'.wire = t.wire)
    (hb : t'.blocked = []) (hd : t'.maxDelay = t.maxDelay) : MInv t' :=
  ⟨by rw [hu, hw]; exact h.wireUsed, by rw [hb]; intro m hm; simp [msgs] at hm,
   by rw [hw]; exact h.wireNodup, by rw [hb]; simp [msgs],
   by rw [hb]; intro m hm; simp [msgs] at hm, by rw [hd]; exact h.delayPos,
   by rw [hb]; intro w hw'; simp at hw'⟩

theorem minv_connectionLost (t : T) (h : MInv t) : MInv t.connectionLost.1 := by
  unfold T.connectionLost
  simp only []
  exact minv_wakeAll t.blocked { t with closing := true, lost := true, canSend := true, blocked := [] } []
    (minv_cleared t _ h rfl rfl rfl rfl) (woken_of_blocked t _ h rfl rfl rfl rfl rfl)

theorem earliest_none : ∀ (l : List Writer), earliest l = none → l = []
  | [], _ => rfl
  | w :: ws, h => by
    unfold earliest at h
    cases he : earliest ws <;> simp [he] at h

theorem earliest_le : ∀ (l : List Writer) (d : Int), earliest l = some d → ∀ w ∈ l, d ≤ w.deadline
  | [], d, h, w, hw => by simp at hw
  | x :: xs, d, h, w, hw => by
    unfold earliest at h
    cases he : earliest xs with
    | none =>
      simp [he] at h
      have := earliest_none xs he
      subst this
      simp at hw; subst hw; omega
    | some d' =>
      simp [he] at h
      have ih := earliest_le xs d' he
      simp at hw
      rcases hw with rfl | hw
      · split at h <;> omega
      · have := ih w hw
        split at h <;> omega

theorem earliest_mem : ∀ (l : List Writer) (d : Int), earliest l = some d →
    ∃ y ∈ l, y.deadline = d
  | [], d, h => by simp [earliest] at h
  | a :: as, d, h => by
    unfold earliest at h
    cases hea : earliest as with
    | none => simp [hea] at h; exact ⟨a, by simp, h⟩
    | some d' =>
      simp [hea] at h
      split at h
      · exact ⟨a, by simp, by omega⟩
      · obtain ⟨y, hy, hyd⟩ := earliest_mem as d' hea
        exact ⟨y, by simp [hy], by omega⟩

theorem wire_wakeAll_closing (ws : List Writer) : ∀ (t : T) (flags : List Bool),
    t.closing = true → t.canSend = true →
    (t.wakeAll ws flags).1.wire = t.wire ∧ (t.wakeAll ws flags).1.closing = true ∧
    (t.wakeAll ws flags).1.now = t.now ∧ (t.wakeAll ws flags).1.maxDelay = t.maxDelay ∧
    (t.wakeAll ws flags).1.blocked = t.blocked := by
  induction ws with
  | nil => intro t flags hc _; simp [T.wakeAll, hc]
  | cons w ws ih =>
    intro t flags hc hcs
    unfold T.wakeAll
    have hcond : (t.fixed && !t.canSend) = false := by simp [hcs]
    simp only [hcond]
    have hdw : (t.doWrite w.msg (headFlag flags).1).1 = t := by simp [T.doWrite, hc]
    simp only [Bool.false_eq_true, ↓reduceIte, hdw]
    exact ih t _ hc hcs

theorem minv_fire (t : T) (limit : Int) (hl : t.now ≤ limit) (h : MInv t) :
    MInv (t.fire limit).1 := by
  unfold T.fire
  cases he : earliest t.blocked with
  | none =>
    have hb := earliest_none _ he
    refine ⟨h.wireUsed, h.blockedUsed, h.wireNodup, h.blockedNodup, h.disjoint, h.delayPos, ?_⟩
    intro w hw; simp only [] at hw; rw [hb] at hw; simp at hw
  | some d =>
    simp only []
    split
    · -- all timers at `d` fire, everybody else is released by the loss: nobody stays blocked
      have hcl := wire_wakeAll_closing (t.atDeadline d).blocked
        { (t.atDeadline d) with closing := true, lost := true, canSend := true, blocked := [] } [] rfl rfl
      have hm : MInv (t.atDeadline d) := by
        refine ⟨h.wireUsed, ?_, h.wireNodup, ?_, ?_, h.delayPos, ?_⟩
        · intro m hm
          apply h.blockedUsed
          simp only [msgs, T.atDeadline, List.mem_map, List.mem_filter] at hm ⊢
          obtain ⟨w, ⟨hw, _⟩, rfl⟩ := hm; exact ⟨w, hw, rfl⟩
        · have := h.blockedNodup
          simp only [msgs, T.atDeadline] at this ⊢
          exact List.Nodup.sublist (List.Sublist.map _ List.filter_sublist) this
        · intro m hm
          apply h.disjoint
          simp only [msgs, T.atDeadline, List.mem_map, List.mem_filter] at hm ⊢
          obtain ⟨w, ⟨hw, _⟩, rfl⟩ := hm; exact ⟨w, hw, rfl⟩
        · intro w hw
          simp only [T.atDeadline, List.mem_filter] at hw
          have h1 := h.timers w hw.1
          have h2 := earliest_le _ _ he w hw.1
          have h3 : w.deadline ≠ d := by simpa using hw.2
          simp only [T.atDeadline]
          have h4 := earliest_le _ _ he
          -- d is some blocked sender's deadline, so now < d
          have hdnow : t.now < d := by
            obtain ⟨y, hy, hyd⟩ := earliest_mem _ _ he
            have := (h.timers y hy).1; omega
          omega
      have hlost := minv_connectionLost (t.atDeadline d) hm
      unfold T.connectionLost at hlost ⊢
      simp only [] at hlost ⊢
      obtain ⟨c1, c2, c3, c4, c5⟩ := hcl
      refine ⟨hlost.wireUsed, hlost.blockedUsed, hlost.wireNodup, hlost.blockedNodup,
        hlost.disjoint, hlost.delayPos, ?_⟩
      intro w hw
      simp only [] at hw
      rw [c5] at hw; simp at hw
    · rename_i hdl
      refine ⟨h.wireUsed, h.blockedUsed, h.wireNodup, h.blockedNodup, h.disjoint, h.delayPos, ?_⟩
      intro w hw
      have h1 := h.timers w hw
      have h2 := earliest_le _ _ he w hw
      simp only []
      omega

/-- dropping some blocked senders (cancelled) keeps the message invariant -/
theorem minv_filter (t : T) (p : Writer → Bool) (h : MInv t) :
    MInv { t with blocked := t.blocked.filter p } := by
  refine ⟨h.wireUsed, ?_, h.wireNodup, ?_, ?_, h.delayPos, ?_⟩
  · intro m hm
    apply h.blockedUsed
    simp only [msgs, List.mem_map, List.mem_filter] at hm ⊢
    obtain ⟨w, ⟨hw, _⟩, rfl⟩ := hm; exact ⟨w, hw, rfl⟩
  · have := h.blockedNodup
    simp only [msgs] at this ⊢
    exact List.Nodup.sublist (List.Sublist.map _ List.filter_sublist) this
  · intro m hm
    apply h.disjoint
    simp only [msgs, List.mem_map, List.mem_filter] at hm ⊢
    obtain ⟨w, ⟨hw, _⟩, rfl⟩ := hm; exact ⟨w, hw, rfl⟩
  · intro w hw
    simp only [List.mem_filter] at hw
    exact h.timers w hw.1

/-- the synchronous actions of a batch keep the message invariant, and the queue of runnable
tasks (woken writers + new senders) stays a set of distinct, used, unwritten messages with live
timers -/
theorem sinv_syncAct (t : T) (q : List Writer) (a : Act) (h : MInv t) (hq : Woken t q) :
    MInv (t.syncAct q a).1 ∧ Woken (t.syncAct q a).1 (t.syncAct q a).2.1 := by
  cases a with
  | send s m =>
    simp only [T.syncAct]
    split
    · exact ⟨h, hq⟩
    · rename_i hnew
      have hnew' : m ∉ t.used := by simpa using hnew
      have hnw : m ∉ t.wire := fun hx => hnew' (h.wireUsed m hx)
      have hnb : m ∉ msgs t.blocked := fun hx => hnew' (h.blockedUsed m hx)
      have hnq : m ∉ msgs q := fun hx => hnew' (hq.used m hx)
      refine ⟨⟨fun x hx => by simp [T.use]; exact Or.inl (h.wireUsed x hx),
         fun x hx => by simp [T.use]; exact Or.inl (h.blockedUsed x hx),
         h.wireNodup, h.blockedNodup, h.disjoint, h.delayPos, h.timers⟩, ⟨?_, ?_, ?_, ?_, ?_⟩⟩
      · intro x hx
        simp only [msgs, List.map_append, List.mem_append, List.map_cons, List.map_nil,
          List.mem_singleton, T.use] at hx ⊢
        rcases hx with hx | rfl
        · exact Or.inl (hq.used x hx)
        · exact Or.inr rfl
      · simp only [msgs, List.map_append, List.map_cons, List.map_nil]
        rw [List.nodup_append]; refine ⟨hq.nodup, by simp, ?_⟩
        intro a ha b hb hab; simp at hb; subst hb; subst hab; exact hnq ha
      · intro x hx
        simp only [msgs, List.map_append, List.mem_append, List.map_cons, List.map_nil,
          List.mem_singleton] at hx
        rcases hx with hx | rfl
        · exact hq.notWire x hx
        · exact hnw
      · intro x hx
        simp only [msgs, List.map_append, List.mem_append, List.map_cons, List.map_nil,
          List.mem_singleton] at hx
        rcases hx with hx | rfl
        · exact hq.notBlocked x hx
        · exact hnb
      · intro w hw
        simp only [List.mem_append, List.mem_singleton] at hw
        rcases hw with hw | rfl
        · exact hq.timers w hw
        · have := h.delayPos; simp only [T.use]; omega
  | pause =>
    simp only [T.syncAct]
    obtain ⟨h1, h2, h3, h4, h5⟩ := pause_frame t
    exact ⟨⟨by rw [h1, h3]; exact h.wireUsed, by rw [h2, h3]; exact h.blockedUsed,
            by rw [h1]; exact h.wireNodup, by rw [h2]; exact h.blockedNodup,
            by rw [h1, h2]; exact h.disjoint, by rw [h5]; exact h.delayPos,
            by rw [h2, h4, h5]; exact h.timers⟩,
           ⟨by rw [h3]; exact hq.used, hq.nodup, by rw [h1]; exact hq.notWire,
            by rw [h2]; exact hq.notBlocked, by rw [h4, h5]; exact hq.timers⟩⟩
  | resume =>
    simp only [T.syncAct]
    split
    · exact ⟨h, hq⟩
    · split
      · exact ⟨⟨h.wireUsed, h.blockedUsed, h.wireNodup, h.blockedNodup, h.disjoint, h.delayPos,
                h.timers⟩,
               ⟨hq.used, hq.nodup, hq.notWire, hq.notBlocked, hq.timers⟩⟩
      · refine ⟨minv_cleared t _ h rfl rfl rfl rfl, ⟨?_, ?_, ?_, ?_, ?_⟩⟩
        · intro x hx
          simp only [msgs, List.map_append, List.mem_append] at hx
          rcases hx with hx | hx
          · exact hq.used x hx
          · exact h.blockedUsed x hx
        · simp only [msgs, List.map_append]
          rw [List.nodup_append]
          refine ⟨hq.nodup, h.blockedNodup, ?_⟩
          intro a ha b hb hab; subst hab; exact hq.notBlocked a ha hb
        · intro x hx
          simp only [msgs, List.map_append, List.mem_append] at hx
          rcases hx with hx | hx
          · exact hq.notWire x hx
          · exact h.disjoint x hx
        · intro x _ hb; simp [T.resumed, msgs] at hb
        · intro w hw
          simp only [List.mem_append] at hw
          rcases hw with hw | hw
          · exact hq.timers w hw
          · exact h.timers w hw

theorem sinv_sync (acts : List Act) : ∀ (t : T) (q : List Writer), MInv t → Woken t q →
    MInv (t.sync q acts).1 ∧ Woken (t.sync q acts).1 (t.sync q acts).2.1 := by
  induction acts with
  | nil => intro t q h hq; exact ⟨h, hq⟩
  | cons a as ih =>
    intro t q h hq
    simp only [T.sync]
    obtain ⟨h1, h2⟩ := sinv_syncAct t q a h hq
    exact ih _ _ h1 h2

theorem woken_nil (t : T) : Woken t [] :=
  ⟨by intro m hm; simp [msgs] at hm, by simp [msgs], by intro m hm; simp [msgs] at hm,
   by intro m hm; simp [msgs] at hm, by intro w hw; simp at hw⟩

theorem minv_step (t : T) (e : Event) (h : MInv t) : MInv (step t e).1 := by
  unfold step
  cases e with
  | send s m flags =>
    simp only []
    split
    · exact h
    · rename_i hnew
      have hnew' : m ∉ t.used := by simpa using hnew
      have hnw : m ∉ t.wire := fun hx => hnew' (h.wireUsed m hx)
      have hnb : m ∉ msgs t.blocked := fun hx => hnew' (h.blockedUsed m hx)
      have h0 : MInv (t.use m) :=
        ⟨fun x hx => by simp [T.use]; exact Or.inl (h.wireUsed x hx),
         fun x hx => by simp [T.use]; exact Or.inl (h.blockedUsed x hx),
         h.wireNodup, h.blockedNodup, h.disjoint, h.delayPos, h.timers⟩
      split
      · exact minv_doWrite (t.use m) m _ h0 (by simp [T.use]) hnw hnb
      · refine ⟨h0.wireUsed, ?_, h.wireNodup, ?_, ?_, h.delayPos, ?_⟩
        · intro x hx
          simp only [msgs, T.block, T.use, List.map_append, List.mem_append, List.map_cons,
            List.map_nil, List.mem_singleton] at hx ⊢
          rcases hx with hx | rfl
          · exact Or.inl (h.blockedUsed x hx)
          · exact Or.inr rfl
        · simp only [msgs, T.block, T.use, List.map_append, List.map_cons, List.map_nil]
          rw [List.nodup_append]; refine ⟨h.blockedNodup, by simp, ?_⟩
          intro a ha b hb hab; simp at hb; subst hb; subst hab; exact hnb ha
        · intro x hx
          simp only [msgs, T.block, T.use, List.map_append, List.mem_append, List.map_cons,
            List.map_nil, List.mem_singleton] at hx
          rcases hx with hx | rfl
          · exact h.disjoint x hx
          · exact hnw
        · intro w hw
          simp only [T.block, T.use, List.mem_append, List.mem_singleton] at hw ⊢
          rcases hw with hw | rfl
          · exact h.timers w hw
          · have := h.delayPos; simp only []; omega
  | pause =>
    obtain ⟨h1, h2, h3, h4, h5⟩ := pause_frame t
    exact ⟨by rw [h1, h3]; exact h.wireUsed, by rw [h2, h3]; exact h.blockedUsed,
           by rw [h1]; exact h.wireNodup, by rw [h2]; exact h.blockedNodup,
           by rw [h1, h2]; exact h.disjoint, by rw [h5]; exact h.delayPos,
           by rw [h2, h4, h5]; exact h.timers⟩
  | resume flags =>
    simp only []
    split
    · exact h
    · split
      · exact ⟨h.wireUsed, h.blockedUsed, h.wireNodup, h.blockedNodup, h.disjoint, h.delayPos,
               h.timers⟩
      · exact minv_wakeAll t.blocked t.resumed flags (minv_cleared t _ h rfl rfl rfl rfl)
          (woken_of_blocked t _ h rfl rfl rfl rfl rfl)
  | lost =>
    simp only []
    split
    · exact h
    · exact minv_connectionLost t h
  | advance dt => exact minv_fire t _ (by omega) h
  | cancel m =>
    simp only []
    split
    · exact h
    · exact minv_filter t (·.msg != m) h
  | gclose pending =>
    simp only []
    split
    · exact h
    · split
      · exact ⟨h.wireUsed, h.blockedUsed, h.wireNodup, h.blockedNodup, h.disjoint, h.delayPos,
               h.timers⟩
      · exact minv_connectionLost t h
  | batch acts flags =>
    simp only []
    obtain ⟨h1, h2⟩ := sinv_sync acts t [] h (woken_nil t)
    exact minv_wakeAll _ _ _ h1 h2

theorem minv_run (es : List Event) : ∀ (t : T), MInv t → MInv (run t es).1 := by
  induction es with
  | nil => intro t h; exact h
  | cons e es ih => intro t h; simp only [run]; exact ih _ (minv_step t e h)

/-! ## Frame lemmas: what the sub-steps never touch -/

theorem pause_flags (t : T) : t.pause.1.closing = t.closing ∧ t.pause.1.lost = t.lost := by
  unfold T.pause; split
  · simp
  · split <;> simp

theorem doWrite_flags (t : T) (m : Nat) (f : Bool) :
    (t.doWrite m f).1.closing = t.closing ∧ (t.doWrite m f).1.lost = t.lost := by
  unfold T.doWrite
  split
  · simp
  · split
    · obtain ⟨a, b⟩ := pause_flags (t.written m)
      exact ⟨by simp only []; rw [a]; rfl, by simp only []; rw [b]; rfl⟩
    · simp [T.written]

theorem wakeAll_frame (ws : List Writer) : ∀ (t : T) (flags : List Bool),
    (t.wakeAll ws flags).1.closing = t.closing ∧ (t.wakeAll ws flags).1.lost = t.lost ∧
    (t.wakeAll ws flags).1.maxDelay = t.maxDelay ∧ (t.wakeAll ws flags).1.now = t.now ∧
    (t.wakeAll ws flags).1.used = t.used := by
  induction ws with
  | nil => intro t flags; simp [T.wakeAll]
  | cons w ws ih =>
    intro t flags
    unfold T.wakeAll
    split
    · exact ih _ _
    · simp only []
      obtain ⟨a, b, c, d, e⟩ := ih (t.doWrite w.msg (headFlag flags).1).1 (headFlag flags).2
      obtain ⟨_, _, f3, f4, f5⟩ := doWrite_frame t w.msg (headFlag flags).1
      obtain ⟨g1, g2⟩ := doWrite_flags t w.msg (headFlag flags).1
      exact ⟨by rw [a, g1], by rw [b, g2], by rw [c, f5], by rw [d, f4], by rw [e, f3]⟩

/-- on a closing transport a wake-up writes nothing (whatever `_can_send` says) -/
theorem wakeAll_closing_wire (ws : List Writer) : ∀ (t : T) (flags : List Bool),
    t.closing = true → (t.wakeAll ws flags).1.wire = t.wire := by
  induction ws with
  | nil => intro t flags _; rfl
  | cons w ws ih =>
    intro t flags hc
    unfold T.wakeAll
    split
    · exact ih { t with blocked := t.blocked ++ [w] } flags hc
    · have hdw : (t.doWrite w.msg (headFlag flags).1).1 = t := by simp [T.doWrite, hc]
      simp only [hdw]
      exact ih t _ hc

/-- where the messages on the wire / in the blocked list after a wake-up come from -/
theorem wakeAll_sources (ws : List Writer) : ∀ (t : T) (flags : List Bool),
    (∀ x ∈ (t.wakeAll ws flags).1.wire, x ∈ t.wire ∨ x ∈ msgs ws) ∧
    (∀ x ∈ msgs (t.wakeAll ws flags).1.blocked, x ∈ msgs t.blocked ∨ x ∈ msgs ws) := by
  induction ws with
  | nil => intro t flags; exact ⟨fun x hx => Or.inl hx, fun x hx => Or.inl hx⟩
  | cons w ws ih =>
    intro t flags
    unfold T.wakeAll
    split
    · obtain ⟨a, b⟩ := ih { t with blocked := t.blocked ++ [w] } flags
      refine ⟨?_, ?_⟩
      · intro x hx
        rcases a x hx with h | h
        · exact Or.inl h
        · exact Or.inr (by simp [msgs] at h ⊢; exact Or.inr h)
      · intro x hx
        rcases b x hx with h | h
        · simp only [msgs, List.map_append, List.mem_append, List.map_cons, List.map_nil,
            List.mem_singleton] at h
          rcases h with h | rfl
          · exact Or.inl h
          · exact Or.inr (by simp [msgs])
        · exact Or.inr (by simp [msgs] at h ⊢; exact Or.inr h)
    · simp only []
      obtain ⟨a, b⟩ := ih (t.doWrite w.msg (headFlag flags).1).1 (headFlag flags).2
      obtain ⟨f1, f2, _, _, _⟩ := doWrite_frame t w.msg (headFlag flags).1
      refine ⟨?_, ?_⟩
      · intro x hx
        rcases a x hx with h | h
        · rw [f1] at h
          split at h
          · exact Or.inl h
          · simp only [List.mem_append, List.mem_singleton] at h
            rcases h with h | rfl
            · exact Or.inl h
            · exact Or.inr (by simp [msgs])
        · exact Or.inr (by simp [msgs] at h ⊢; exact Or.inr h)
      · intro x hx
        rcases b x hx with h | h
        · rw [f2] at h; exact Or.inl h
        · exact Or.inr (by simp [msgs] at h ⊢; exact Or.inr h)

end Aiorpcx.C15
