/-!
# C15 — reactive model of the write path (rawsocket.py / unixsocket.py `pause_writing`,
`resume_writing`, `write`, `connection_lost`; session.py `_send_message`)

Environment events: a task sends a message; the asyncio transport reports its send buffer full
(`pause`) - which it may also do *inside* a `write()` (the `flags` consumed one per write) - or
drained (`resume`); the connection is lost; virtual time advances (the `timeout_after(
max_send_delay)` timers of blocked senders fire); the task that is sending a message is cancelled
from outside (`cancel`); somebody closes the session gracefully (`gclose`: `session.close()` ->
`transport.close()` -> asyncio `close()`), which makes `is_closing()` true at once but delivers
`connection_lost` only when the transport's send buffer is empty - with unsent data and a stalled
peer that is never, so `closing` (is_closing()) and `lost` (connection_lost delivered) are two
flags.  Each event is followed by running every woken sender to quiescence.

A message is an id: its size is abstracted, `write()` hands the framed bytes to the asyncio
transport in ONE call with no suspension point between framing and that call (a source fact, see
`facts_write_atomic`, and the stream-level oracle of the harness).

`fixed = true`: `write()` re-checks the event in a loop (the tree as repaired for F14);
`fixed = false`: the pinned single `await self._can_send.wait()`.

No Mathlib imports.
-/
namespace Aiorpcx.C15

structure Writer where
  sender : Nat
  msg : Nat
  deadline : Int
  deriving Repr, DecidableEq

inductive Obs where
  | wrote (msg : Nat) (whilePaused : Bool)
  | pauseReading
  | resumeReading
  | abort (at_ : Int)
  | sendOk (sender msg : Nat) (at_ : Int)
  | sendTimeout (sender msg : Nat) (at_ : Int)
  | blocked (sender msg : Nat)
  | lost
  | invalid
  /-- the sending task was cancelled from outside while blocked: it ends with CancelledError -/
  | cancelled (sender msg : Nat)
  deriving Repr, DecidableEq

structure T where
  fixed : Bool := true
  maxDelay : Int := 20
  now : Int := 0
  canSend : Bool := true
  /-- `is_closing()`: the asyncio transport is closing/closed -/
  closing : Bool := false
  /-- `connection_lost` has been delivered to the protocol (implies `closing`) -/
  lost : Bool := false
  reading : Bool := true
  /-- the asyncio transport's own `_protocol_paused` flag: it calls `pause_writing` /
      `resume_writing` only on transitions -/
  tPaused : Bool := false
  blocked : List Writer := []
  /-- message ids handed to the asyncio transport's write(), in order -/
  wire : List Nat := []
  /-- ghost: every message id ever passed to a send -/
  used : List Nat := []
  /-- ghost: for every write, was the transport paused (`_can_send` clear) at that moment -/
  writes : List (Nat × Bool) := []
  deriving Repr, DecidableEq

/-- the synchronous part of an environment event, performed without running the loop -/
inductive Act where
  /-- a task that will call `_send_message(msg)` becomes runnable -/
  | send (sender msg : Nat)
  /-- `pause_writing()` -/
  | pause
  /-- `resume_writing()` -/
  | resume
  deriving Repr, DecidableEq

inductive Event where
  | send (sender msg : Nat) (flags : List Bool)
  | pause
  | resume (flags : List Bool)
  | lost
  | advance (dt : Nat)
  /-- the task sending `msg` is cancelled by somebody else -/
  | cancel (msg : Nat)
  /-- graceful close; `pendingData`: the peer has not consumed what was written so far (so, if
      anything was written, the transport still holds unsent data and the loss is not delivered
      until it drains / the link drops / somebody aborts) -/
  | gclose (pendingData : Bool)
  /-- several things happen back to back *without the loop running in between*: new senders
      become runnable, the transport reports full / drained.  Only afterwards do the tasks run,
      in the order in which they became runnable (`T.sync` builds that queue): a sender that
      was already runnable when `resume_writing()` set the event runs BEFORE the writers the
      event woke (their wake-ups are queued behind it); a `pause_writing()` that follows the
      resume clears the event before any woken writer has run. -/
  | batch (acts : List Act) (flags : List Bool)
  deriving Repr, DecidableEq

/-- the transport's send buffer passes the high-water mark: `pause_writing()` (once) -/
def T.pause (t : T) : T × List Obs :=
  if t.tPaused then (t, [])
  else if t.closing then ({ t with tPaused := true }, [])
  else ({ t with tPaused := true, canSend := false, reading := false }, [Obs.pauseReading])

/-- `transport.write(framed)`: the whole message goes onto the wire -/
def T.written (t : T) (m : Nat) : T :=
  { t with wire := t.wire ++ [m], writes := t.writes ++ [(m, t.tPaused)] }

/-- the body of `write()` after the wait: frame + `transport.write` unless closing; the
transport may answer with `pause_writing()` from inside (flag) -/
def T.doWrite (t : T) (m : Nat) (flag : Bool) : T × List Obs :=
  if t.closing then (t, [])
  else if flag then ((t.written m).pause.1, Obs.wrote m t.tPaused :: (t.written m).pause.2)
  else (t.written m, [Obs.wrote m t.tPaused])

def headFlag : List Bool → Bool × List Bool
  | [] => (false, [])
  | f :: fs => (f, fs)

/-- every blocked sender has been woken (`Event.set()`), in FIFO order -/
def T.wakeAll (t : T) : List Writer → List Bool → T × List Obs
  | [], _ => (t, [])
  | w :: ws, flags =>
    if t.fixed && !t.canSend then
      -- re-checks the event: clear again (the transport re-paused inside an earlier write)
      T.wakeAll { t with blocked := t.blocked ++ [w] } ws flags
    else
      ((T.wakeAll (t.doWrite w.msg (headFlag flags).1).1 ws (headFlag flags).2).1,
       (t.doWrite w.msg (headFlag flags).1).2 ++ [Obs.sendOk w.sender w.msg t.now] ++
         (T.wakeAll (t.doWrite w.msg (headFlag flags).1).1 ws (headFlag flags).2).2)

/-- `connection_lost`: `_can_send.set()` releases every blocked sender; they find the transport
closing and return without writing -/
def T.connectionLost (t : T) : T × List Obs :=
  ((T.wakeAll { t with closing := true, lost := true, canSend := true, blocked := [] } t.blocked []).1,
   Obs.lost :: (T.wakeAll { t with closing := true, lost := true, canSend := true, blocked := [] } t.blocked []).2)

/-- the earliest deadline among the blocked senders -/
def earliest : List Writer → Option Int
  | [] => none
  | w :: ws => match earliest ws with
    | none => some w.deadline
    | some d => some (if w.deadline ≤ d then w.deadline else d)

/-- the state at the instant `d` when the senders whose deadline is `d` time out -/
def T.atDeadline (t : T) (d : Int) : T :=
  { t with now := d, blocked := t.blocked.filter (·.deadline != d) }

/-- timers: every blocked sender whose deadline is the earliest one `≤ limit` times out
(TaskTimeout -> abort -> raise) - unconditionally, also while a graceful close is pending; the
abort closes the transport (discarding unsent data) and `connection_lost` releases the others -/
def T.fire (t : T) (limit : Int) : T × List Obs :=
  match earliest t.blocked with
  | none => ({ t with now := limit }, [])
  | some d =>
    if d ≤ limit then
      ({ (t.atDeadline d).connectionLost.1 with now := limit },
       ((t.blocked.filter (·.deadline == d)).flatMap fun w =>
          [Obs.abort d, Obs.sendTimeout w.sender w.msg d]) ++ (t.atDeadline d).connectionLost.2)
    else ({ t with now := limit }, [])

def T.block (t : T) (s m : Nat) : T :=
  { t with blocked := t.blocked ++ [⟨s, m, t.now + t.maxDelay⟩] }

def T.use (t : T) (m : Nat) : T := { t with used := t.used ++ [m] }

/-- the protocol's `resume_writing()` when `_can_send` was clear -/
def T.resumed (t : T) : T :=
  { t with tPaused := false, canSend := true, reading := true, blocked := [] }

/-- one synchronous action; `q` = the tasks that are runnable but have not run yet, in the order
in which the loop will run them (woken writers keep their timers, a new sender's timer starts
when it runs - at the same virtual instant) -/
def T.syncAct (t : T) (q : List Writer) : Act → T × List Writer × List Obs
  | .send s m =>
    if t.used.contains m then (t, q, [Obs.invalid])
    else (t.use m, q ++ [⟨s, m, t.now + t.maxDelay⟩], [])
  | .pause => (t.pause.1, q, t.pause.2)
  | .resume =>
    if !t.tPaused then (t, q, [])
    else if t.canSend then ({ t with tPaused := false }, q, [])
    else
      -- `Event.set()` resolves the futures of all waiters: their wake-ups are queued now
      (t.resumed, q ++ t.blocked, [Obs.resumeReading])

def T.sync (t : T) (q : List Writer) : List Act → T × List Writer × List Obs
  | [] => (t, q, [])
  | a :: as =>
    ((T.sync (t.syncAct q a).1 (t.syncAct q a).2.1 as).1,
     (T.sync (t.syncAct q a).1 (t.syncAct q a).2.1 as).2.1,
     (t.syncAct q a).2.2 ++ (T.sync (t.syncAct q a).1 (t.syncAct q a).2.1 as).2.2)

/-- the senders of this batch that are still waiting when the loop is idle again -/
def freshBlocked (before after : T) : List Obs :=
  (after.blocked.filter fun w => !before.used.contains w.msg).map fun w => Obs.blocked w.sender w.msg

def step (t : T) : Event → T × List Obs
  | .send s m flags =>
    if t.used.contains m then (t, [Obs.invalid])
    else if t.canSend then
      (((t.use m).doWrite m (headFlag flags).1).1,
       ((t.use m).doWrite m (headFlag flags).1).2 ++ [Obs.sendOk s m t.now])
    else ((t.use m).block s m, [Obs.blocked s m])
  | .pause => t.pause
  | .resume flags =>
    -- the buffer drained: `resume_writing()` (only if the transport had paused the protocol)
    if !t.tPaused then (t, [])
    else if t.canSend then ({ t with tPaused := false }, [])
    else ((t.resumed.wakeAll t.blocked flags).1,
          Obs.resumeReading :: (t.resumed.wakeAll t.blocked flags).2)
  | .lost => if t.lost then (t, []) else t.connectionLost
  | .advance dt => t.fire (t.now + dt)
  | .cancel m =>
    -- CancelledError is raised at `await self._can_send.wait()`; it passes through
    -- `timeout_after` (whose timer dies with it) and `_send_message` unchanged; a task that is
    -- not blocked has finished at every quiescent point: cancelling it does nothing
    match t.blocked.find? (·.msg == m) with
    | none => (t, [])
    | some w => ({ t with blocked := t.blocked.filter (·.msg != m) }, [Obs.cancelled w.sender m])
  | .gclose pending =>
    if t.lost then (t, [])
    else if pending && !t.wire.isEmpty then
      -- asyncio `close()` with unsent data: closing now, `connection_lost` once it has drained
      ({ t with closing := true }, [])
    else t.connectionLost
  | .batch acts flags =>
    -- the runnable tasks run in queue order; each one finds `_can_send` set (writes, returns)
    -- or clear (waits: a new sender for the first time, a woken writer again - `T.wakeAll`)
    (((t.sync [] acts).1.wakeAll (t.sync [] acts).2.1 flags).1,
     (t.sync [] acts).2.2 ++ ((t.sync [] acts).1.wakeAll (t.sync [] acts).2.1 flags).2 ++
       freshBlocked t ((t.sync [] acts).1.wakeAll (t.sync [] acts).2.1 flags).1)

def run (t : T) : List Event → T × List (List Obs)
  | [] => (t, [])
  | e :: es =>
    let (t1, o) := step t e
    let (t2, os) := run t1 es
    (t2, o :: os)

end Aiorpcx.C15
