import Aiorpcx.C15.Msgs
import Aiorpcx.Facts.C15
/-!
# C15 — back-pressure: blocked sends wait, go out whole once; a stalled peer is aborted

Model: `Aiorpcx.C15.step` (`Model.lean`).  All theorems are over **every** finite sequence of
events send / pause / resume / lost / time-passes, with any number of concurrent senders and any
high-water script (the transport may re-pause inside any write), from the initial state of the
tree as repaired for F14 (`fixed = true`).
-/
namespace Aiorpcx.C15

def init (maxDelay : Int) : T := { maxDelay := maxDelay }

theorem finv_init (d : Int) : FInv (init d) :=
  ⟨by intro w hw; simp [init] at hw, by intro _; simp [init], by intro h; simp [init] at h,
   by intro h; simp [init] at h⟩

theorem minv_init (d : Int) (hd : 0 < d) : MInv (init d) :=
  ⟨by intro m hm; simp [init] at hm, by intro m hm; simp [init, msgs] at hm, by simp [init],
   by simp [init, msgs], by intro m hm; simp [init, msgs] at hm, hd,
   by intro w hw; simp [init] at hw⟩

/-- **Nothing is written while the transport reports its send buffer full**: in every run,
every write handed to the asyncio transport happened while it was not paused - also when the
transport re-pauses from inside an earlier write of the same wake-up (F14). -/
theorem nothing_written_while_paused (d : Int) (es : List Event) :
    ∀ w ∈ (run (init d) es).1.writes, w.2 = false :=
  (finv_run es (init d) rfl (finv_init d)).noPausedWrite

/-- **Reading follows writing**: while the connection is up, reading from the peer is paused
exactly while sending is. -/
theorem reading_tracks_writing (d : Int) (es : List Event)
    (h : (run (init d) es).1.closing = false) :
    (run (init d) es).1.reading = !(run (init d) es).1.tPaused := by
  have := (finv_run es (init d) rfl (finv_init d)).track h
  rw [this.2, this.1]

/-- **A lost connection releases every blocked sender** (nobody is left hanging), and -/
theorem loss_releases_writers (d : Int) (es : List Event)
    (h : (run (init d) es).1.closing = true) : (run (init d) es).1.blocked = [] :=
  ((finv_run es (init d) rfl (finv_init d)).released h).2

/-- ... nothing more is ever written on it. -/
theorem nothing_written_after_loss (t : T) (e : Event) (hinv : FInv t)
    (h : t.closing = true) : (step t e).1.wire = t.wire ∧ (step t e).1.closing = true := by
  have hrel := hinv.released h
  cases e with
  | send s m flags =>
    by_cases hu : m ∈ t.used
    · simp [step, hu, h]
    · simp [step, hu, hrel.1, T.doWrite, T.use, h]
  | pause =>
    by_cases hp : t.tPaused = true
    · simp [step, T.pause, hp, h]
    · simp [step, T.pause, hp, h]
  | resume flags =>
    by_cases hp : t.tPaused = true
    · simp [step, hp, hrel.1, h]
    · simp [step, hp, h]
  | lost => simp [step, h]
  | advance dt => simp [step, T.fire, hrel.2, earliest, h]

/-- **Whole, exactly once**: the wire never carries a message twice, carries only messages that
some sender passed in, and a message still waiting to be written is not on the wire yet.
(Messages are atomic in the model because `write()` frames and hands over the bytes in one call
with no suspension point in between - see the facts theorem and the correspondence.) -/
theorem whole_once (d : Int) (hd : 0 < d) (es : List Event) :
    (run (init d) es).1.wire.Nodup ∧
    (∀ m ∈ (run (init d) es).1.wire, m ∈ (run (init d) es).1.used) ∧
    (∀ m ∈ msgs (run (init d) es).1.blocked, m ∉ (run (init d) es).1.wire) :=
  let h := minv_run es (init d) (minv_init d hd)
  ⟨h.wireNodup, h.wireUsed, h.disjoint⟩

/-- **A stalled send does not outlive `max_send_delay`**: at every quiescent point every sender
that is still blocked has been waiting for less than `max_send_delay` (its timer is still ahead);
when the timer comes due (`fire`) the connection is aborted at exactly that instant: -/
theorem nobody_blocked_past_delay (d : Int) (hd : 0 < d) (es : List Event) :
    ∀ w ∈ (run (init d) es).1.blocked,
      (run (init d) es).1.now < w.deadline ∧ w.deadline ≤ (run (init d) es).1.now + d := by
  have h := minv_run es (init d) (minv_init d hd)
  have hmd : ∀ (es : List Event) (t : T), (run t es).1.maxDelay = t.maxDelay := by
    intro es
    induction es with
    | nil => intro t; rfl
    | cons e es ih =>
      intro t; simp only [run]; rw [ih]
      unfold step
      cases e with
      | send s m flags =>
        simp only []; split
        · rfl
        · split
          · rw [(doWrite_frame _ _ _).2.2.2.2]; rfl
          · rfl
      | pause => exact (pause_frame t).2.2.2.2
      | resume flags =>
        simp only []; split
        · rfl
        · split
          · rfl
          · have : ∀ (ws : List Writer) (t : T) (fl : List Bool),
                (t.wakeAll ws fl).1.maxDelay = t.maxDelay := by
              intro ws; induction ws with
              | nil => intro t fl; rfl
              | cons w ws ih2 =>
                intro t fl; unfold T.wakeAll; split
                · rw [ih2]
                · simp only []; rw [ih2, (doWrite_frame _ _ _).2.2.2.2]
            rw [this]; rfl
      | lost =>
        simp only []; split
        · rfl
        · unfold T.connectionLost; simp only []
          have := (wire_wakeAll_closing t.blocked
            { t with closing := true, canSend := true, blocked := [] } [] rfl rfl).2.2.2.1
          rw [this]
      | advance dt =>
        unfold T.fire
        cases earliest t.blocked with
        | none => rfl
        | some dd => simp only []; split
                     · simp only []
                       unfold T.connectionLost; simp only []
                       have := (wire_wakeAll_closing (t.atDeadline dd).blocked
                         { (t.atDeadline dd) with closing := true, canSend := true, blocked := [] }
                         [] rfl rfl).2.2.2.1
                       rw [this]; rfl
                     · rfl
  intro w hw
  have := h.timers w hw
  rw [hmd es (init d)] at this
  exact this

/-- the abort happens at exactly the deadline of the stalled sender(s), each of which gets
`TaskTimeout`, and the transport is closing afterwards -/
theorem stall_aborts (t : T) (limit dl : Int) (w : Writer) (he : earliest t.blocked = some dl)
    (hdue : dl ≤ limit) (hw : w ∈ t.blocked) (hwd : w.deadline = dl) :
    Obs.abort dl ∈ (t.fire limit).2 ∧ Obs.sendTimeout w.sender w.msg dl ∈ (t.fire limit).2 ∧
    (t.fire limit).1.closing = true := by
  unfold T.fire
  simp only [he, hdue, ↓reduceIte]
  have hmem : w ∈ t.blocked.filter (·.deadline == dl) := by simp [hw, hwd]
  refine ⟨?_, ?_, ?_⟩
  · apply List.mem_append_left
    simp only [List.mem_flatMap]
    exact ⟨w, hmem, by simp⟩
  · apply List.mem_append_left
    simp only [List.mem_flatMap]
    exact ⟨w, hmem, by simp⟩
  · simp only [T.connectionLost]
    exact (wire_wakeAll_closing (t.atDeadline dl).blocked
      { (t.atDeadline dl) with closing := true, canSend := true, blocked := [] } [] rfl rfl).2.1

/-! ## Tie to the source -/

def protoRow (closing cs : Bool) : Facts.C15.Row :=
  let t : T := { closing := closing, canSend := cs, reading := true }
  let p := t.pause
  let r := step { t with tPaused := true } (.resume [])
  let l := t.connectionLost
  ⟨closing, cs, p.1.canSend, p.2 == [Obs.pauseReading], p.2 == [],
   r.1.canSend, r.2 == [Obs.resumeReading], r.2 == [], l.1.canSend, true⟩

/-- the decision tables of the real `pause_writing` / `resume_writing` / `connection_lost`
(both transports, run on a stub each check) are the model's; `write()` re-checks `_can_send` in
a loop; `max_send_delay` is positive -/
theorem facts_protocol_tables :
    Facts.C15.tableRS = [protoRow false false, protoRow false true, protoRow true false, protoRow true true] ∧
    Facts.C15.tableUS = Facts.C15.tableRS ∧
    Facts.C15.writeLoopsRS = true ∧ Facts.C15.writeLoopsUS = true ∧
    0 < Facts.C15.maxSendDelayMs :=
  ⟨by decide, by decide, by decide, by decide, by decide⟩

/-! ## F14 (pinned tree; repaired by a `fix:` commit) -/

/-- with the pinned single `await self._can_send.wait()` three blocked senders are all released
by one `resume_writing`; the transport re-pauses inside the first write; the second and third
still write - while paused. -/
theorem nothing_written_while_paused_fails_pinned :
    ((run { fixed := false, maxDelay := 20 }
      [.pause, .send 1 1 [], .send 2 2 [], .send 3 3 [], .resume [true]]).1.writes) =
      [(1, false), (2, true), (3, true)] := by decide

/-- the same history on the repaired model: one write, two senders blocked again -/
example :
    let t := (run (init 20) [.pause, .send 1 1 [], .send 2 2 [], .send 3 3 [], .resume [true]]).1
    t.writes = [(1, false)] ∧ msgs t.blocked = [2, 3] ∧ t.reading = false := by decide

/-- non-vacuity of the stall theorem: two senders stalled from time 0, aborted at exactly 20 -/
example :
    (run (init 20) [.pause, .send 1 1 [], .advance 5, .send 2 2 [], .advance 30]).2.getLast? =
      some [Obs.abort 20, Obs.sendTimeout 1 1 20, Obs.lost, Obs.sendOk 2 2 20] := by decide

end Aiorpcx.C15
