import Aiorpcx.C15.Order
import Aiorpcx.Facts.C15
/-!
# C15 — back-pressure: blocked sends wait, go out whole once; a stalled peer is aborted

Model: `Aiorpcx.C15.step` (`Model.lean`).  All theorems are over **every** finite sequence of
events send / pause / resume / link lost / time passes / cancel a sender / graceful close (with or
without unsent data, i.e. `is_closing()` true with `connection_lost` still outstanding) / batch
(sends, pauses and resumes performed back to back before the loop runs again: a sender that is
already runnable when `resume_writing()` sets the event runs before the woken writers), with any
number of concurrent senders and any high-water script (the transport may re-pause inside any
write), from the initial state of the tree as repaired for F14 (`fixed = true`).

A message is an id (its size is abstracted): that the bytes of one message reach the asyncio
transport in one piece is the source fact `facts_write_atomic` plus the stream-level oracle of the
harness, not a theorem about the model.
-/
namespace Aiorpcx.C15

def init (maxDelay : Int) : T := { maxDelay := maxDelay }

theorem finv_init (d : Int) : FInv (init d) :=
  ⟨by intro w hw; simp [init] at hw, by intro _; simp [init], by intro h; simp [init] at h,
   by intro h; simp [init] at h, by intro h; simp [init] at h, by intro h; simp [init] at h⟩

theorem minv_init (d : Int) (hd : 0 < d) : MInv (init d) :=
  ⟨by intro m hm; simp [init] at hm, by intro m hm; simp [init, msgs] at hm, by simp [init],
   by simp [init, msgs], by intro m hm; simp [init, msgs] at hm, hd,
   by intro w hw; simp [init] at hw⟩

/-- **Nothing is written while the transport reports its send buffer full**: in every run,
every write handed to the asyncio transport happened while it was not paused - also when the
transport re-pauses from inside an earlier write of the same wake-up (F14). -/
theorem nothing_written_while_paused (d : Int) (es : List Event) :
    ∀ w ∈ (run (init d) es).1.writes, w.2 = false :=
  (finv_run es (init d) rfl (finv_init d)).noPausedWrite

/-- **Reading follows writing**: while the connection is up (not closing), reading from the peer
is paused exactly while sending is. -/
theorem reading_tracks_writing (d : Int) (es : List Event)
    (h : (run (init d) es).1.closing = false) :
    (run (init d) es).1.reading = !(run (init d) es).1.tPaused := by
  have := (finv_run es (init d) rfl (finv_init d)).track h
  rw [this.2, this.1]

/-- **When room is reported nobody stays blocked**: at every quiescent point at which the
transport does not have the protocol paused, no sender is waiting (also after a cancellation,
and also while a close is pending). -/
theorem room_means_nobody_blocked (d : Int) (es : List Event)
    (h : (run (init d) es).1.tPaused = false) : (run (init d) es).1.blocked = [] := by
  have hinv := finv_run es (init d) rfl (finv_init d)
  cases hb : (run (init d) es).1.blocked with
  | nil => rfl
  | cons w ws =>
    have h1 := hinv.clearPaused (hinv.waiting (by rw [hb]; simp))
    rw [h] at h1; cases h1

example : (run (init 20) [.pause, .send 1 1 [], .send 2 2 [], .cancel 1, .resume []]).1.blocked = []
    ∧ (run (init 20) [.pause, .send 1 1 [], .send 2 2 [], .cancel 1, .resume []]).1.wire = [2] := by
  decide

/-- **A lost connection releases every blocked sender** (nobody is left hanging): once
`connection_lost` has been delivered - after a link drop, an abort, or a graceful close that
completed - no sender is blocked, and the transport is closing. -/
theorem loss_releases_writers (d : Int) (es : List Event)
    (h : (run (init d) es).1.lost = true) :
    (run (init d) es).1.blocked = [] ∧ (run (init d) es).1.closing = true :=
  ⟨((finv_run es (init d) rfl (finv_init d)).released h).2,
   (finv_run es (init d) rfl (finv_init d)).lostClosing h⟩

/-- a pending graceful close does *not* release anybody: the senders stay blocked (with their
timers) until the loss is delivered -/
example :
    let t := (run (init 20) [.send 1 1 [true], .send 2 2 [], .gclose true]).1
    t.closing = true ∧ t.lost = false ∧ msgs t.blocked = [2] := by decide

/-- **Nothing is written once the transport is closing** - from the moment `is_closing()` is
true (own graceful close, still pending or not; abort; loss) the wire never changes again,
whatever events follow, and `is_closing()` stays true. -/
theorem nothing_written_once_closing (es : List Event) : ∀ (t : T), t.closing = true →
    (run t es).1.wire = t.wire ∧ (run t es).1.closing = true := by
  induction es with
  | nil => intro t h; exact ⟨rfl, h⟩
  | cons e es ih =>
    intro t h
    simp only [run]
    obtain ⟨a, b⟩ := step_closing t e h
    obtain ⟨c, d⟩ := ih _ b
    exact ⟨by rw [c, a], d⟩

example :
    (run (init 20) [.send 1 1 [true], .send 2 2 [], .gclose true, .resume [], .send 3 3 []]).1.wire
      = [1] := by decide

/-- **Whole, exactly once**: the wire never carries a message twice, carries only messages that
some sender passed in, and a message still waiting to be written is not on the wire yet.
(Messages are atomic in the model because `write()` frames and hands over the bytes in one call
with no suspension point in between - see `facts_write_atomic` and the stream-level oracle of the
correspondence.) -/
theorem whole_once (d : Int) (hd : 0 < d) (es : List Event) :
    (run (init d) es).1.wire.Nodup ∧
    (∀ m ∈ (run (init d) es).1.wire, m ∈ (run (init d) es).1.used) ∧
    (∀ m ∈ msgs (run (init d) es).1.blocked, m ∉ (run (init d) es).1.wire) :=
  let h := minv_run es (init d) (minv_init d hd)
  ⟨h.wireNodup, h.wireUsed, h.disjoint⟩

/-- **Order (what the property text asks)**: messages one task sends one after another keep
their order - for every event sequence, batches included: once the send of `a` is over (`a` was
handed to a send and is not waiting any more) a message `b` that is sent later never gets onto
the wire in front of `a`.  `used` never repeats a message id. -/
theorem task_order (d : Int) (hd : 0 < d) (es es' : List Event) (a b : Nat)
    (ha : a ∈ (run (init d) es).1.used) (hdone : a ∉ msgs (run (init d) es).1.blocked)
    (hb : b ∉ (run (init d) es).1.used) :
    ¬ [b, a].Sublist (run (run (init d) es).1 es').1.wire ∧
    (run (run (init d) es).1 es').1.used.Nodup :=
  ⟨task_order_aux _ es' a b (minv_run es (init d) (minv_init d hd)) ha hdone hb,
   used_nodup_run es' _ (used_nodup_run es (init d) (by simp [init]))⟩

/-- non-vacuity: sender 1 sends 1, then (after it went out) 2, which has to wait; both are on the
wire in that order although another sender's message went out in between -/
example :
    let t := (run (init 20) [.send 1 1 [true], .send 2 5 []]).1
    1 ∈ t.used ∧ 1 ∉ msgs t.blocked ∧ 2 ∉ t.used ∧
    (run t [.send 1 2 [], .batch [.send 3 3, .resume] [], .resume []]).1.wire = [1, 3, 5, 2] := by
  decide

/-- **Arrival order**, as long as every event is followed by running the loop to idle (no
batch): the wire carries the messages in the order in which they were handed to a send: blocked
senders are served first-in first-out, also across re-pauses, time-outs and cancellations of
others, and nobody overtakes a waiting sender.  (Stronger than the property text; it is what
`asyncio.Event` gives at quiescent points.) -/
theorem in_order (d : Int) (es : List Event) (hs : ∀ e ∈ es, e.simple = true) :
    (run (init d) es).1.wire.Sublist (run (init d) es).1.used ∧
    (∀ a b, [a, b].Sublist (run (init d) es).1.wire → [a, b].Sublist (run (init d) es).1.used) := by
  have h : OInv (run (init d) es).1 :=
    oinv_run es (init d) hs rfl (finv_init d) (by simp [OInv, init, msgs])
  have hw := List.Sublist.trans (List.sublist_append_left _ _) h
  exact ⟨hw, fun a b hab => List.Sublist.trans hab hw⟩

/-- three senders queue up, the transport re-pauses inside the first write, the second sender
is cancelled, the third one is written after the next resume: order of the send calls -/
example :
    (run (init 20) [.pause, .send 1 1 [], .send 2 2 [], .send 3 3 [], .resume [true], .cancel 2,
      .send 4 4 [], .resume []]).1.wire = [1, 3, 4] := by decide

/-- ... and why `in_order` needs "no batch": sender 2 is already runnable when the buffer
drains, runs before the woken sender 1, its write re-fills the buffer (flag), sender 1 checks
again and keeps waiting - nothing is written while paused, but 2 is on the wire before 1 -/
example :
    let r := run (init 20) [.pause, .send 1 1 [], .batch [.send 2 2, .resume] [true], .resume []]
    r.1.wire = [2, 1] ∧ r.1.used = [1, 2] ∧ r.1.writes = [(2, false), (1, false)] ∧
    r.2 = [[Obs.pauseReading], [Obs.blocked 1 1],
           [Obs.resumeReading, Obs.wrote 2 false, Obs.pauseReading, Obs.sendOk 2 2 0],
           [Obs.resumeReading, Obs.wrote 1 false, Obs.sendOk 1 1 0]] := by decide

/-- the buffer fills again before the woken writers have run (`batch [resume, pause]`): they all
check again, nobody writes, the waiting list and its order are as before -/
example :
    let t := (run (init 20) [.pause, .send 1 1 [], .send 2 2 [], .batch [.resume, .pause] []]).1
    t.wire = [] ∧ msgs t.blocked = [1, 2] ∧ t.canSend = false ∧ t.reading = false := by decide

/-- **A cancelled sender's message is written whole or not at all** - in the model: a sender
that is cancelled while blocked has written nothing (`whole_once`: a waiting message is not on
the wire), and after the cancellation its message never reaches the wire, whatever happens next.
(A sender that is not blocked has finished: its message went out whole, and `cancel` is a no-op.)
That the other senders are unaffected is `cancel_others_unaffected` (`Steps.lean`). -/
theorem cancelled_never_written (d : Int) (hd : 0 < d) (es : List Event) (m : Nat)
    (hm : m ∈ msgs (run (init d) es).1.blocked) (es' : List Event) :
    m ∉ (run (init d) es).1.wire ∧
    m ∉ (run (step (run (init d) es).1 (.cancel m)).1 es').1.wire := by
  have h := minv_run es (init d) (minv_init d hd)
  refine ⟨h.disjoint m hm, ?_⟩
  have hdead : Dead m (step (run (init d) es).1 (.cancel m)).1 := by
    rw [(cancel_others_unaffected _ m).1]
    refine ⟨h.blockedUsed m hm, h.disjoint m hm, ?_⟩
    simp [msgs]
  exact (dead_run m es' _ hdead).2.1

example :
    (run (init 20) [.pause, .send 1 1 [], .send 2 2 [], .cancel 1, .resume [], .send 3 3 []]).2 =
      [[Obs.pauseReading], [Obs.blocked 1 1], [Obs.blocked 2 2], [Obs.cancelled 1 1],
       [Obs.resumeReading, Obs.wrote 2 false, Obs.sendOk 2 2 0],
       [Obs.wrote 3 false, Obs.sendOk 3 3 0]] := by decide

/-- **A stalled send does not outlive `max_send_delay`**: at every quiescent point - also while
a graceful close is pending (`closing ∧ ¬lost`) - every sender that is still blocked has been
waiting for less than `max_send_delay` (its timer is still ahead); when the timer comes due
(`fire`) the connection is aborted at exactly that instant (`stall_aborts`). -/
theorem nobody_blocked_past_delay (d : Int) (hd : 0 < d) (es : List Event) :
    ∀ w ∈ (run (init d) es).1.blocked,
      (run (init d) es).1.now < w.deadline ∧ w.deadline ≤ (run (init d) es).1.now + d := by
  have h := minv_run es (init d) (minv_init d hd)
  intro w hw
  have := h.timers w hw
  rw [run_maxDelay es (init d)] at this
  exact this

/-- non-vacuity in the state the pending close creates: closing, not lost, a sender still
blocked at time 19 with its timer at 20 -/
example :
    let t := (run (init 20) [.send 1 1 [true], .send 2 2 [], .gclose true, .advance 19]).1
    t.closing = true ∧ t.lost = false ∧ t.now = 19 ∧ t.blocked = [⟨2, 2, 20⟩] := by decide

/-- the abort happens at exactly the deadline of the stalled sender(s), each of which gets
`TaskTimeout`; afterwards the connection is lost (closing, `connection_lost` delivered, so by
`loss_releases_writers` everybody else is released).  `t` is *any* state - in particular one in
which a graceful close is already pending (`is_closing()` true): the abort is not skipped. -/
theorem stall_aborts (t : T) (limit dl : Int) (w : Writer) (he : earliest t.blocked = some dl)
    (hdue : dl ≤ limit) (hw : w ∈ t.blocked) (hwd : w.deadline = dl) :
    Obs.abort dl ∈ (t.fire limit).2 ∧ Obs.sendTimeout w.sender w.msg dl ∈ (t.fire limit).2 ∧
    Obs.lost ∈ (t.fire limit).2 ∧
    (t.fire limit).1.closing = true ∧ (t.fire limit).1.lost = true ∧
    (t.fire limit).1.blocked = [] := by
  unfold T.fire
  simp only [he, hdue, ↓reduceIte]
  have hmem : w ∈ t.blocked.filter (·.deadline == dl) := by simp [hw, hwd]
  obtain ⟨a, b, _, _, _, _, g⟩ := connectionLost_frame (t.atDeadline dl)
  refine ⟨?_, ?_, ?_, a, b, g⟩
  · apply List.mem_append_left
    simp only [List.mem_flatMap]
    exact ⟨w, hmem, by simp⟩
  · apply List.mem_append_left
    simp only [List.mem_flatMap]
    exact ⟨w, hmem, by simp⟩
  · apply List.mem_append_right
    simp [T.connectionLost]

/-- the same over runs: whenever time passes up to or beyond the earliest deadline of a blocked
sender - in any reachable state, closing or not - that step contains the abort at that deadline -/
theorem stall_aborts_run (d : Int) (es : List Event) (dt : Nat) (dl : Int)
    (he : earliest (run (init d) es).1.blocked = some dl)
    (hdue : dl ≤ (run (init d) es).1.now + dt) :
    Obs.abort dl ∈ (step (run (init d) es).1 (.advance dt)).2 ∧
    (step (run (init d) es).1 (.advance dt)).1.lost = true := by
  obtain ⟨w, hw, hwd⟩ := earliest_mem _ _ he
  have := stall_aborts (run (init d) es).1 ((run (init d) es).1.now + dt) dl w he hdue hw hwd
  exact ⟨this.1, this.2.2.2.2.1⟩

/-! ## Tie to the source -/

def protoRow (closing cs : Bool) : Facts.C15.Row :=
  let t : T := { closing := closing, canSend := cs, reading := true }
  let p := t.pause
  let r := step { t with tPaused := true } (.resume [])
  let l := t.connectionLost
  ⟨closing, cs, p.1.canSend, p.2 == [Obs.pauseReading], p.2 == [],
   r.1.canSend, r.2 == [Obs.resumeReading], r.2 == [], l.1.canSend, true⟩

/-- the decision tables of the real `pause_writing` / `resume_writing` / `connection_lost`
(both transports, run on a stub each check) are the model's - `closing` rows included: on a
closing transport `pause_writing` does nothing and `resume_writing` still sets the event and
resumes reading; `max_send_delay` is positive -/
theorem facts_protocol_tables :
    Facts.C15.tableRS = [protoRow false false, protoRow false true, protoRow true false, protoRow true true] ∧
    Facts.C15.tableUS = Facts.C15.tableRS ∧
    0 < Facts.C15.maxSendDelayMs :=
  ⟨by decide, by decide, by decide⟩

/-! ### The write path, step by step

The real `write()` coroutine of both transports is driven with `coro.send(None)` on recording
stubs (tools/facts/c15.py `write_traces`) through six scenarios.  The model replays each scenario
as events; a writer's step is read off the step's observations: `wrote m` = `frame` + one
`transport.write` of exactly the framed bytes, a `pauseReading` *after* a write in the same step =
the transport re-paused from inside that write, `sendOk` = the coroutine finished. -/

open Facts.C15 (WCall) in
/-- the calls of the writer(s) in one model step (what the environment itself does before any
writer runs - `pause_reading` of a `pause`, `resume_reading` - is not a writer's call) -/
def wcalls : Bool → List Obs → List WCall
  | _, [] => []
  | _, Obs.wrote _ _ :: os => WCall.frame :: WCall.writeFramed :: wcalls true os
  | true, Obs.pauseReading :: os => WCall.pauseReading :: wcalls true os
  | w, _ :: os => wcalls w os

def isSendOk : Obs → Bool
  | .sendOk _ _ _ => true
  | _ => false

/-- replay: events flagged `true` are steps of the (single) writer -/
def modelTrace (t : T) : List (Event × Bool) → List (List Facts.C15.WCall × Bool)
  | [] => []
  | (e, w) :: es =>
    if w then (wcalls false (step t e).2, (step t e).2.any isSendOk) :: modelTrace (step t e).1 es
    else modelTrace (step t e).1 es

/-- the six scenarios of `tools/facts/c15.py` as model events -/
def writeScenarios : List (List (Event × Bool)) := [
  -- room
  [(.send 1 1 [], true)],
  -- wait_then_room
  [(.pause, false), (.send 1 1 [], true), (.resume [], true)],
  -- repaused_before_the_woken_writer_runs: resume and pause back to back, then the writer runs
  [(.pause, false), (.send 1 1 [], true), (.batch [.resume, .pause] [], true), (.resume [], true)],
  -- closing
  [(.lost, false), (.send 1 1 [], true)],
  -- lost_while_waiting
  [(.pause, false), (.send 1 1 [], true), (.lost, true)],
  -- transport_pauses_inside_the_write
  [(.send 1 1 [true], true)]]

/-- **The write path of the source is the model's**, step by step and on both transports: one
`frame` and one `transport.write` of exactly the framed bytes per message, in the same step (no
suspension point between them - the justification for modelling a message as an atomic id); a
writer that is woken re-checks and waits again if the transport has re-paused in the meantime;
nothing is framed or written on a closing transport; a writer released by the loss returns
without writing. -/
theorem facts_write_atomic :
    Facts.C15.writeTraceRS = writeScenarios.map (modelTrace (init 20)) ∧
    Facts.C15.writeTraceUS = Facts.C15.writeTraceRS :=
  ⟨by decide, by decide⟩

/-- **Every kind of sender is subject to `max_send_delay`**: a notification, a request, the
response to an incoming request, a batch with a request in it, a batch of notifications only,
and the error reply to an undecodable message, each blocked on a full send buffer, get the
connection aborted at exactly the delay (real session + transport protocol on the fake asyncio
transport through the public API, both transports, run each check).  An empty batch is not a
sender: the API refuses it and writes nothing. -/
theorem facts_single_write_path :
    Facts.C15.sendersBounded = [true, true, true, true, true, true] ∧
    Facts.C15.emptyBatchRefused = true := ⟨by decide, by decide⟩

def isAbort : Obs → Bool
  | .abort _ => true
  | _ => false

/-- what the model says about a sender blocked since time 0 in the state reached by `pre` -/
def stallRow (pre : List Event) : Facts.C15.StallRow :=
  let t := (run (init 20) pre).1
  let r := step t (.advance 25)
  ⟨!t.blocked.isEmpty, t.closing, t.lost, (r.2.filter isAbort).length == 1,
   r.2.contains (Obs.abort 20), r.2.contains (Obs.sendTimeout 2 2 20), r.1.lost⟩

/-- **The stall abort, run**: the real `_send_message` blocked on a full buffer is released by
exactly one `abort()` of the asyncio transport at exactly `max_send_delay`, ends with
`TaskTimeout`, and the loss is delivered - with the connection up, and equally with a graceful
close pending on unsent data (`is_closing()` true, `connection_lost` outstanding): the rows are
the model's (`T.fire`).  `transport.abort()` reaches the asyncio transport also when closing. -/
theorem facts_stall_abort :
    Facts.C15.stallRS = [stallRow [.pause, .send 2 2 []],
                         stallRow [.send 1 1 [true], .send 2 2 [], .gclose true]] ∧
    Facts.C15.stallUS = Facts.C15.stallRS ∧
    Facts.C15.abortAborts = true :=
  ⟨by decide, by decide, by decide⟩

/-- **Graceful close**: `transport.close()` calls `close()` on the asyncio transport (the
`gclose` event: `is_closing()` true at once, the loss only once the send buffer is empty), and
`is_closing()` is "closed event set or asyncio transport closing" - the model's `closing`. -/
theorem facts_close :
    Facts.C15.closeCloses = true ∧ Facts.C15.isClosingIsOr = true :=
  ⟨by decide, by decide⟩

/-! ## F14 (pinned tree; repaired by a `fix:` commit) -/

/-- the same pinned `write()` (no re-check after the wake-up) in the batch scenario: the writer
that was woken by the resume writes although a sender that ran before it has re-filled the
buffer -/
theorem nothing_written_while_paused_fails_pinned_batch :
    ((run { fixed := false, maxDelay := 20 }
      [.pause, .send 1 1 [], .batch [.send 2 2, .resume] [true]]).1.writes) =
      [(2, false), (1, true)] := by decide

/-- with the pinned single `await self._can_send.wait()` three blocked senders are all released
by one `resume_writing`; the transport re-pauses inside the first write; the second and third
still write - while paused. -/
theorem nothing_written_while_paused_fails_pinned :
    ((run { fixed := false, maxDelay := 20 }
      [.pause, .send 1 1 [], .send 2 2 [], .send 3 3 [], .resume [true]]).1.writes) =
      [(1, false), (2, true), (3, true)] := by decide

/-- the same history on the repaired model: one write, two senders blocked again -/
example :
    let t := (run (init 20) [.pause, .send 1 1 [], .send 2 2 [], .send 3 3 [], .resume [true]]).1
    t.writes = [(1, false)] ∧ msgs t.blocked = [2, 3] ∧ t.reading = false := by decide

/-- non-vacuity of the stall theorem while a graceful close is pending: message 1 is in the
transport's buffer, the peer stalls, sender 2 is blocked, somebody closes the session (closing, no
loss yet); at 20 sender 2's timer aborts the connection -/
example :
    (run (init 20) [.send 1 1 [true], .send 2 2 [], .gclose true, .advance 30]).2.getLast? =
      some [Obs.abort 20, Obs.sendTimeout 2 2 20, Obs.lost] := by decide

/-- non-vacuity of the stall theorem: two senders stalled from time 0, aborted at exactly 20 -/
example :
    (run (init 20) [.pause, .send 1 1 [], .advance 5, .send 2 2 [], .advance 30]).2.getLast? =
      some [Obs.abort 20, Obs.sendTimeout 1 1 20, Obs.lost, Obs.sendOk 2 2 20] := by decide

end Aiorpcx.C15
