import Aiorpcx.Common.Hex
import Aiorpcx.C15.Model
/-! Line-protocol driver for the C15 model.
    in : `<fixed 0|1> <maxDelay> ; <event> ; ...`  events: `S s m flags` `B s m flags` `P`
         `R flags` `L` `A dt` `C m` `G 0|1` `X flags act,act,..` with act = `S.s.m` | `B.s.m` |
         `P` | `R` (performed back to back, the loop runs only afterwards)   (flags = string of 0/1 or `-`; `B` = a big message, `N` = a notification and `K` = a batch of notifications through the public API:
         the model abstracts the size, so it is the same event as `S`)
    out: per event `obs=.. cs=.. cl=.. lo=.. rd=.. nb=.. t=..`, separated by ` ; ` -/
open Aiorpcx Aiorpcx.C15

def parseFlags (s : String) : List Bool :=
  if s == "-" then [] else s.toList.map (· == '1')

def parseAct (s : String) : Option Act :=
  match s.splitOn "." with
  | ["S", a, b] => do pure (.send (← a.toNat?) (← b.toNat?))
  | ["B", a, b] => do pure (.send (← a.toNat?) (← b.toNat?))
  | ["N", a, b] => do pure (.send (← a.toNat?) (← b.toNat?))
  | ["K", a, b] => do pure (.send (← a.toNat?) (← b.toNat?))
  | ["P"] => some .pause
  | ["R"] => some .resume
  | _ => none

def parseEvent (s : String) : Option Event :=
  match (s.splitOn " ").filter (· ≠ "") with
  | ["S", a, b, f] => do pure (.send (← a.toNat?) (← b.toNat?) (parseFlags f))
  | ["B", a, b, f] => do pure (.send (← a.toNat?) (← b.toNat?) (parseFlags f))
  | ["N", a, b, f] => do pure (.send (← a.toNat?) (← b.toNat?) (parseFlags f))
  | ["K", a, b, f] => do pure (.send (← a.toNat?) (← b.toNat?) (parseFlags f))
  | ["C", m] => do pure (.cancel (← m.toNat?))
  | ["G", "0"] => some (.gclose false)
  | ["G", "1"] => some (.gclose true)
  | ["X", f, acts] => do pure (.batch (← (acts.splitOn ",").mapM parseAct) (parseFlags f))
  | ["P"] => some .pause
  | ["R", f] => some (.resume (parseFlags f))
  | ["L"] => some .lost
  | ["A", d] => do pure (.advance (← d.toNat?))
  | _ => none

def b01 (b : Bool) : String := if b then "1" else "0"

def obsStr : Obs → String
  | .wrote m p => s!"w{m}:{b01 p}"
  | .pauseReading => "pr"
  | .resumeReading => "rr"
  | .abort t => s!"ab@{t}"
  | .sendOk s m t => s!"ok{s}.{m}@{t}"
  | .sendTimeout s m t => s!"to{s}.{m}@{t}"
  | .blocked s m => s!"bl{s}.{m}"
  | .lost => "lost"
  | .invalid => "inv"
  | .cancelled s m => s!"ca{s}.{m}"

def record (t : T) (o : List Obs) : String :=
  s!"obs={String.intercalate "," (o.map obsStr)} cs={b01 t.canSend} cl={b01 t.closing} lo={b01 t.lost} rd={b01 t.reading} nb={t.blocked.length} t={t.now}"

def handle (line : String) : String :=
  match (line.splitOn ";").map (·.trimAscii.toString) with
  | hd :: evs =>
    match (hd.splitOn " ").filter (· ≠ ""), evs.mapM parseEvent with
    | [fx, md], some es =>
      match md.toInt? with
      | some d =>
        let rec go (t : T) : List Event → List String
          | [] => []
          | e :: rest => let (t1, o) := step t e; record t1 o :: go t1 rest
        String.intercalate " ; " (go { fixed := fx == "1", maxDelay := d } es)
      | none => "bad-op"
    | _, _ => "bad-op"
  | _ => "bad-op"

def main : IO Unit := Hex.lineLoop handle
