import Aiorpcx.Facts.C19
/-!
# C19 — model of `util.signature_info` and `jsonrpc.handler_invocation`

No Mathlib imports: the driver links this file.

The model mirrors the code **after** `fixes/F16-required-kwonly.diff` (variant `.repaired`); the
pinned code is the variant `.pinned` of the one branch of `signature_info` that differs (with it
`required_kwonly` stays empty, so the new test in `handler_invocation` never fires and the same
`handlerInvocationV` is the pinned function).

What is *not* modelled but assumed (trusted parameter, exercised by the correspondence harness):
`inspect.signature(handler)` — how plain functions, bound methods and `functools.partial`
objects reduce to an *effective* parameter list (`Handler.sig`), and which parameters of the
underlying function those wrappers have already filled positionally (`Handler.prebound`).
-/
namespace Aiorpcx.C19

abbrev Name := Nat

/-- `inspect.Parameter.kind` -/
inductive Kind where
  | po   -- POSITIONAL_ONLY
  | pk   -- POSITIONAL_OR_KEYWORD
  | vp   -- VAR_POSITIONAL   `*args`
  | ko   -- KEYWORD_ONLY
  | vk   -- VAR_KEYWORD      `**kwargs`
  deriving DecidableEq, Repr

structure Param where
  kind : Kind
  name : Name
  /-- `p.default is not p.empty` -/
  dflt : Bool
  deriving DecidableEq, Repr

abbrev Sig := List Param

/-- A handler the way `handler_invocation` and a real call see it: the effective signature
    reported by `inspect.signature`, and the names of positional-or-keyword parameters of the
    underlying function that a bound method / partial has already supplied positionally
    (`self`; the first `k` parameters of `partial(f, v1..vk)`).  Empty for a plain function. -/
structure Handler where
  sig : Sig
  prebound : List Name := []
  deriving Repr

/-- Python exceptions the two functions can raise by themselves on a parameter list that no
    `def` can produce (`None += 1`, `any.append`). -/
inductive PyExc where
  | typeError
  | attributeError
  deriving DecidableEq, Repr

/-- the three shapes of `other_names`: a list, the builtin `any`, `None` -/
inductive Other where
  | names (l : List Name)
  | any
  | none
  deriving DecidableEq, Repr

/-- `SignatureInfo(min_args, max_args, required_names, other_names, required_kwonly)` -/
structure Info where
  minArgs : Nat
  maxArgs : Option Nat
  required : List Name
  other : Other
  requiredKwonly : List Name
  deriving DecidableEq, Repr

inductive Variant where
  | repaired
  | pinned
  deriving DecidableEq, Repr

/-- local variables of the loop in `signature_info` -/
structure St where
  minArgs : Nat := 0
  maxArgs : Option Nat := some 0
  required : List Name := []
  other : Other := .names []
  requiredKwonly : List Name := []
  noNames : Bool := false
  deriving DecidableEq, Repr

/-- `max_args += 1` — `TypeError` when `max_args` is `None` -/
def incMax : Option Nat → Except PyExc (Option Nat)
  | some m => .ok (some (m + 1))
  | none => .error .typeError

/-- `other_names.append(name)` — `AttributeError` when `other_names` is the builtin `any` -/
def appendOther : Other → Name → Except PyExc Other
  | .names l, n => .ok (.names (l ++ [n]))
  | _, _ => .error .attributeError

/-- one iteration of `for p in params.values()` -/
def step (v : Variant) (st : St) (p : Param) : Except PyExc St :=
  match p.kind with
  | .pk =>
      match incMax st.maxArgs with
      | .error e => .error e
      | .ok mx =>
        if p.dflt then
          match appendOther st.other p.name with
          | .error e => .error e
          | .ok o => .ok { st with maxArgs := mx, other := o }
        else
          .ok { st with maxArgs := mx, minArgs := st.minArgs + 1,
                        required := st.required ++ [p.name] }
  | .ko =>
      match v with
      | .pinned =>
          match appendOther st.other p.name with
          | .error e => .error e
          | .ok o => .ok { st with other := o }
      | .repaired =>
          if p.dflt then
            match appendOther st.other p.name with
            | .error e => .error e
            | .ok o => .ok { st with other := o }
          else
            .ok { st with required := st.required ++ [p.name],
                          requiredKwonly := st.requiredKwonly ++ [p.name] }
  | .vp => .ok { st with maxArgs := none }
  | .vk => .ok { st with other := .any }
  | .po =>
      match incMax st.maxArgs with
      | .error e => .error e
      | .ok mx =>
        .ok { st with maxArgs := mx,
                      minArgs := if p.dflt then st.minArgs else st.minArgs + 1,
                      noNames := true }

def loop (v : Variant) : St → Sig → Except PyExc St
  | st, [] => .ok st
  | st, p :: ps =>
      match step v st p with
      | .error e => .error e
      | .ok st' => loop v st' ps

/-- `util.signature_info` applied to the effective parameter list -/
def signatureInfoV (v : Variant) (s : Sig) : Except PyExc Info :=
  match loop v {} s with
  | .error e => .error e
  | .ok st =>
      .ok { minArgs := st.minArgs, maxArgs := st.maxArgs, required := st.required,
            other := if st.noNames then .none else st.other,
            requiredKwonly := st.requiredKwonly }

def signatureInfo : Sig → Except PyExc Info := signatureInfoV .repaired
def signatureInfoPinned : Sig → Except PyExc Info := signatureInfoV .pinned

/-- the peer's arguments: a list/tuple (only its length matters) or a dict (only its key set) -/
inductive Args where
  | pos (n : Nat)
  | named (ns : List Name)
  deriving DecidableEq, Repr

/-- the returned `partial(handler, *args)` / `partial(handler, **args)`: the handler called with
    exactly those arguments -/
abbrev Call := Args

inductive Err where
  /-- `RPCError` with this code -/
  | rpc (code : Int)
  /-- any other exception escaping `handler_invocation` -/
  | py (e : PyExc)
  deriving DecidableEq, Repr

def invalidArgs : Err := .rpc Facts.C19.invalidArgs
def methodNotFound : Err := .rpc Facts.C19.methodNotFound

/-- `len(args) > info.max_args` guarded by `info.max_args is not None` -/
def overMax (mx : Option Nat) (n : Nat) : Bool :=
  match mx with
  | some m => decide (m < n)
  | none => false

/-- the list inside `other_names` (only consulted when it is a list) -/
def otherList : Other → List Name
  | .names l => l
  | _ => []

/-- the named-argument half of `handler_invocation` -/
def checkNamed (info : Info) (ns : List Name) : Except Err Call :=
  -- if info.other_names is None
  if info.other = .none then .error invalidArgs
  else
    -- missing = set(info.required_names).difference(args)
    let missing := info.required.filter (fun r => !ns.contains r)
    if !missing.isEmpty then .error invalidArgs
    else
      -- if info.other_names is not any: excess = set(args) - required_names - other_names
      let excess := ns.filter (fun a => !info.required.contains a && !(otherList info.other).contains a)
      if info.other ≠ .any ∧ !excess.isEmpty then .error invalidArgs
      else .ok (.named ns)

/-- the positional half of `handler_invocation` -/
def checkPos (info : Info) (n : Nat) : Except Err Call :=
  if !info.requiredKwonly.isEmpty then .error invalidArgs
  else if n < info.minArgs then .error invalidArgs
  else if overMax info.maxArgs n then .error invalidArgs
  else .ok (.pos n)

/-- `jsonrpc.handler_invocation(handler, request)`; `none` = there is no handler -/
def handlerInvocationV (v : Variant) (h : Option Handler) (args : Args) : Except Err Call :=
  match h with
  | none => .error methodNotFound
  | some h =>
    match signatureInfoV v h.sig with
    | .error e => .error (.py e)
    | .ok info =>
      match args with
      | .pos n => checkPos info n
      | .named ns => checkNamed info ns

def handlerInvocation : Option Handler → Args → Except Err Call := handlerInvocationV .repaired
def handlerInvocationPinned : Option Handler → Args → Except Err Call := handlerInvocationV .pinned

/-- decidable equality of results (core has none for `Except`), for `decide` in examples -/
def exceptDecEq {ε α : Type} [DecidableEq ε] [DecidableEq α] : DecidableEq (Except ε α)
  | .ok a, .ok b =>
      if h : a = b then isTrue (by rw [h]) else isFalse (by intro h'; cases h'; exact h rfl)
  | .error a, .error b =>
      if h : a = b then isTrue (by rw [h]) else isFalse (by intro h'; cases h'; exact h rfl)
  | .ok _, .error _ => isFalse (by intro h; cases h)
  | .error _, .ok _ => isFalse (by intro h; cases h)

instance : DecidableEq (Except Err Call) := exceptDecEq
instance : DecidableEq (Except PyExc Info) := exceptDecEq
instance : DecidableEq (Except PyExc St) := exceptDecEq

/-! ## Well-formed parameter lists (what a Python `def`, and `inspect.Signature`, admit) -/

def rank : Kind → Nat
  | .po => 0 | .pk => 1 | .vp => 2 | .ko => 3 | .vk => 4

/-- fills a positional slot -/
def isPositional (p : Param) : Bool :=
  match p.kind with
  | .po | .pk => true
  | _ => false
def isPO (p : Param) : Bool := match p.kind with | .po => true | _ => false
def isVP (p : Param) : Bool := match p.kind with | .vp => true | _ => false
def isKO (p : Param) : Bool := match p.kind with | .ko => true | _ => false
def isVK (p : Param) : Bool := match p.kind with | .vk => true | _ => false
def positional (s : Sig) : Sig := s.filter isPositional
/-- has a positional-only parameter -/
def hasPO (s : Sig) : Bool := s.any isPO
/-- has `*args` -/
def hasVP (s : Sig) : Bool := s.any isVP
/-- has `**kwargs` -/
def hasVK (s : Sig) : Bool := s.any isVK

/-- order of kinds, at most one `*args`, at most one `**kwargs` -/
def kindOrder (a b : Param) : Prop :=
  rank a.kind ≤ rank b.kind ∧ (a.kind = .vp → b.kind ≠ .vp) ∧ (a.kind = .vk → b.kind ≠ .vk)

instance : DecidableRel kindOrder := fun a b => by unfold kindOrder; exact inferInstance

/-- "non-default argument follows default argument" -/
def defaultOrder (a b : Param) : Prop := a.dflt = true → b.dflt = true

instance : DecidableRel defaultOrder := fun a b => by unfold defaultOrder; exact inferInstance

structure WF (s : Sig) : Prop where
  order : s.Pairwise kindOrder
  defaults : (positional s).Pairwise defaultOrder
  varNoDefault : ∀ p ∈ s, (p.kind = .vp ∨ p.kind = .vk) → p.dflt = false
  distinct : (s.map (·.name)).Nodup

instance (s : Sig) : Decidable (WF s) :=
  if h1 : s.Pairwise kindOrder then
    if h2 : (positional s).Pairwise defaultOrder then
      if h3 : ∀ p ∈ s, (p.kind = .vp ∨ p.kind = .vk) → p.dflt = false then
        if h4 : (s.map (·.name)).Nodup then isTrue ⟨h1, h2, h3, h4⟩
        else isFalse (fun h => h4 h.distinct)
      else isFalse (fun h => h3 h.varNoDefault)
    else isFalse (fun h => h2 h.defaults)
  else isFalse (fun h => h1 h.order)

/-- A well-formed handler: a well-formed effective parameter list, and the parameters the
    wrapper has filled are no longer part of it (`inspect.signature` drops them; parameter names
    of the underlying function are distinct). -/
structure HandlerWF (h : Handler) : Prop where
  sig : WF h.sig
  preboundGone : ∀ k ∈ h.prebound, ∀ p ∈ h.sig, p.name ≠ k
  preboundDistinct : h.prebound.Nodup

instance (h : Handler) : Decidable (HandlerWF h) :=
  if h1 : WF h.sig then
    if h2 : ∀ k ∈ h.prebound, ∀ p ∈ h.sig, p.name ≠ k then
      if h3 : h.prebound.Nodup then isTrue ⟨h1, h2, h3⟩
      else isFalse (fun h => h3 h.preboundDistinct)
    else isFalse (fun h => h2 h.preboundGone)
  else isFalse (fun h => h1 h.sig)

/-! ## SPEC: can Python bind the call?  (Language Reference 6.3.4 "Calls")

"A list of unfilled slots is created for the formal parameters.  If there are N positional
arguments, they are placed in the first N slots.  Next, for each keyword argument, the identifier
is used to determine the corresponding slot; if the slot is already filled, a TypeError is raised.
[…] the slots that are still unfilled are filled with the corresponding default value; if there
are any unfilled slots for which no default value is specified, a TypeError is raised.  If there
are more positional arguments than there are formal parameter slots, a TypeError is raised,
unless a formal parameter using the syntax `*identifier` is present.  If any keyword argument does
not correspond to a formal parameter name, a TypeError is raised, unless a formal parameter using
the syntax `**identifier` is present."  Positional-only parameters have no keyword slot.
`handler_invocation` passes either only positional or only keyword arguments. -/

/-- can be filled by keyword -/
def keywordable (p : Param) : Bool :=
  match p.kind with
  | .pk | .ko => true
  | _ => false
/-- a formal-parameter slot (everything but `*args` / `**kwargs`) -/
def isSlot (p : Param) : Bool :=
  match p.kind with
  | .vp | .vk => false
  | _ => true

def bindable (h : Handler) : Args → Bool
  | .pos n =>
      let ps := positional h.sig
      -- more positional arguments than positional slots only with `*args`
      (decide (n ≤ ps.length) || hasVP h.sig)
      -- the positional slots that stay unfilled have defaults
      && (ps.drop n).all (·.dflt)
      -- so do the keyword-only slots
      && (h.sig.filter isKO).all (·.dflt)
  | .named ns =>
      -- each keyword finds a free slot of its name, or `**kwargs` takes it; a slot already
      -- filled by the wrapper (bound `self`, partial's positionals) is "multiple values"
      ns.all (fun k => !h.prebound.contains k &&
                (h.sig.any (fun p => keywordable p && p.name == k) || hasVK h.sig))
      -- every slot is filled by a keyword or has a default
      && h.sig.all (fun p => !isSlot p || p.dflt || (keywordable p && ns.contains p.name))

/-- the one family on which the code (pinned and repaired) accepts an unbindable call: a named
    call to a handler with `**kwargs` that names a parameter the wrapper has already filled -/
def collides (h : Handler) : Args → Bool
  | .pos _ => false
  | .named ns => hasVK h.sig && ns.any (fun k => h.prebound.contains k)

def isNamed : Args → Bool
  | .pos _ => false
  | .named _ => true

end Aiorpcx.C19
