import Aiorpcx.C19.Model
/-!
# C19 — closed form of `signature_info`, and the counting lemmas behind the theorems

* `loop_ok`      : whenever the loop of `signature_info` (repaired) finishes, its state is the
                   summary `after st s` (no assumption on the parameter list);
* `loop_total`   : on a parameter list whose kinds are in Python's order it always finishes
                   (no `None += 1`, no `any.append`);
* `signatureInfo_closed` : hence the closed form of `SignatureInfo` for well-formed lists;
* `drop_all_dflt_iff`    : "the unfilled positional slots all have defaults" is the count test
                   `min_args ≤ n` exactly because defaults are contiguous at the end.
-/
namespace Aiorpcx.C19

/-- required positional slots -/
def nReqPos (s : Sig) : Nat := (s.filter (fun p => isPositional p && !p.dflt)).length
/-- positional slots -/
def nPos (s : Sig) : Nat := (positional s).length
/-- names `signature_info` (repaired) puts into `required_names` -/
def reqNames (s : Sig) : List Name := (s.filter (fun p => keywordable p && !p.dflt)).map (·.name)
/-- names it appends to `other_names` -/
def optNames (s : Sig) : List Name := (s.filter (fun p => keywordable p && p.dflt)).map (·.name)
/-- names it puts into `required_kwonly` -/
def reqKw (s : Sig) : List Name := (s.filter (fun p => isKO p && !p.dflt)).map (·.name)

def otherAfter (o : Other) (s : Sig) : Other :=
  if hasVK s then .any else
  match o with
  | .names l => .names (l ++ optNames s)
  | o => o

def maxAfter (m : Option Nat) (s : Sig) : Option Nat :=
  if hasVP s then none else m.map (· + nPos s)

/-- the loop's state after running over `s` from `st` -/
def after (st : St) (s : Sig) : St :=
  { minArgs := st.minArgs + nReqPos s
    maxArgs := maxAfter st.maxArgs s
    required := st.required ++ reqNames s
    other := otherAfter st.other s
    requiredKwonly := st.requiredKwonly ++ reqKw s
    noNames := st.noNames || hasPO s }

theorem nReqPos_cons (p : Param) (ps : Sig) :
    nReqPos (p :: ps) = (if isPositional p && !p.dflt then 1 else 0) + nReqPos ps := by
  simp only [nReqPos, List.filter_cons]; split <;> simp <;> omega
theorem nPos_cons (p : Param) (ps : Sig) :
    nPos (p :: ps) = (if isPositional p then 1 else 0) + nPos ps := by
  simp only [nPos, positional, List.filter_cons]; split <;> simp <;> omega
theorem reqNames_cons (p : Param) (ps : Sig) :
    reqNames (p :: ps) = (if keywordable p && !p.dflt then [p.name] else []) ++ reqNames ps := by
  simp only [reqNames, List.filter_cons]; split <;> simp
theorem optNames_cons (p : Param) (ps : Sig) :
    optNames (p :: ps) = (if keywordable p && p.dflt then [p.name] else []) ++ optNames ps := by
  simp only [optNames, List.filter_cons]; split <;> simp
theorem reqKw_cons (p : Param) (ps : Sig) :
    reqKw (p :: ps) = (if isKO p && !p.dflt then [p.name] else []) ++ reqKw ps := by
  simp only [reqKw, List.filter_cons]; split <;> simp
theorem hasPO_cons (p : Param) (ps : Sig) : hasPO (p :: ps) = (isPO p || hasPO ps) := by
  simp [hasPO]
theorem hasVP_cons (p : Param) (ps : Sig) : hasVP (p :: ps) = (isVP p || hasVP ps) := by
  simp [hasVP]
theorem hasVK_cons (p : Param) (ps : Sig) : hasVK (p :: ps) = (isVK p || hasVK ps) := by
  simp [hasVK]

theorem after_nil (st : St) : after st [] = st := by
  obtain ⟨mn, mx, rq, ot, rk, nn⟩ := st
  cases mx <;> cases ot <;>
    simp [after, nReqPos, reqNames, reqKw, maxAfter, otherAfter, hasPO, hasVP, hasVK, nPos,
      positional, optNames]

/-- one successful `step`, then the summary of the rest, is the summary of the whole -/
theorem after_cons (st st1 : St) (p : Param) (ps : Sig)
    (h : step .repaired st p = .ok st1) : after st1 ps = after st (p :: ps) := by
  obtain ⟨k, nm, d⟩ := p
  obtain ⟨mn, mx, rq, ot, rk, nn⟩ := st
  cases k <;> cases d <;> cases mx <;> cases ot <;>
    simp [step, incMax, appendOther] at h <;>
    subst h <;>
    simp [after, nReqPos_cons, reqNames_cons, reqKw_cons, maxAfter, otherAfter, hasPO_cons,
      hasVP_cons, hasVK_cons, nPos_cons, optNames_cons, isPositional, keywordable, isPO, isVP,
      isVK, isKO, Nat.add_assoc]

/-- whenever `signature_info`'s loop finishes, it has computed the summary -/
theorem loop_ok (s : Sig) : ∀ (st st' : St), loop .repaired st s = .ok st' → st' = after st s := by
  induction s with
  | nil => intro st st' h; simp [loop] at h; rw [after_nil]; exact h.symm
  | cons p ps ih =>
    intro st st' h
    simp only [loop] at h
    cases hs : step .repaired st p with
    | error e => rw [hs] at h; simp at h
    | ok st1 =>
      rw [hs] at h
      rw [← after_cons st st1 p ps hs]
      exact ih st1 st' h

theorem rank_ge_two_not_positional (q : Param) (h : 2 ≤ rank q.kind) : isPositional q = false := by
  obtain ⟨k, nm, d⟩ := q
  cases k <;> simp [rank, isPositional] at h ⊢

theorem rank_ge_four (q : Param) (h : 4 ≤ rank q.kind) : q.kind = .vk := by
  obtain ⟨k, nm, d⟩ := q
  cases k <;> simp [rank] at h ⊢

/-- on a parameter list in Python's kind order the loop never raises -/
theorem loop_total (s : Sig) : ∀ (st : St), s.Pairwise kindOrder →
    (st.maxArgs = none → ∀ q ∈ s, isPositional q = false) →
    ((∀ l, st.other ≠ .names l) → ∀ q ∈ s, (keywordable q && q.dflt) = false) →
    ∃ st', loop .repaired st s = .ok st' := by
  induction s with
  | nil => intro st _ _ _; exact ⟨st, rfl⟩
  | cons p ps ih =>
    intro st hord hmax hoth
    rw [List.pairwise_cons] at hord
    obtain ⟨hp, hps⟩ := hord
    have hmaxp := fun h => hmax h p (by simp)
    have hothp := fun h => hoth h p (by simp)
    have hmax' : st.maxArgs = none → ∀ q ∈ ps, isPositional q = false :=
      fun h q hq => hmax h q (by simp [hq])
    have hoth' : (∀ l, st.other ≠ .names l) → ∀ q ∈ ps, (keywordable q && q.dflt) = false :=
      fun h q hq => hoth h q (by simp [hq])
    obtain ⟨k, nm, d⟩ := p
    obtain ⟨mn, mx, rq, ot, rk, nn⟩ := st
    simp only [loop]
    cases k
    case po =>
      cases mx with
      | none => simp [isPositional] at hmaxp
      | some m =>
        simp only [step, incMax]
        exact ih _ hps (by simp) hoth'
    case pk =>
      cases mx with
      | none => simp [isPositional] at hmaxp
      | some m =>
        cases d with
        | false =>
          simp only [step, incMax]
          exact ih _ hps (by simp) hoth'
        | true =>
          cases ot with
          | names l =>
            simp only [step, incMax, appendOther]
            exact ih _ hps (by simp) (by intro h; exact absurd rfl (h _))
          | any => simp [keywordable] at hothp
          | none => simp [keywordable] at hothp
    case vp =>
      simp only [step]
      refine ih _ hps ?_ hoth'
      intro _ q hq
      exact rank_ge_two_not_positional q (by have := (hp q hq).1; simpa [rank] using this)
    case ko =>
      cases d with
      | false =>
        simp only [step]
        exact ih _ hps hmax' hoth'
      | true =>
        cases ot with
        | names l =>
          simp only [step, appendOther]
          exact ih _ hps hmax' (by intro h; exact absurd rfl (h _))
        | any => simp [keywordable] at hothp
        | none => simp [keywordable] at hothp
    case vk =>
      simp only [step]
      refine ih _ hps hmax' ?_
      intro _ q hq
      have hk := rank_ge_four q (by have := (hp q hq).1; simpa [rank] using this)
      obtain ⟨k', nm', d'⟩ := q
      simp only at hk
      subst hk
      simp [keywordable]

/-- closed form of `SignatureInfo` for a parameter list in Python's kind order -/
def closedInfo (s : Sig) : Info :=
  { minArgs := nReqPos s
    maxArgs := if hasVP s then none else some (nPos s)
    required := reqNames s
    other := if hasPO s then .none else if hasVK s then .any else .names (optNames s)
    requiredKwonly := reqKw s }

theorem signatureInfo_closed (s : Sig) (h : s.Pairwise kindOrder) :
    signatureInfo s = .ok (closedInfo s) := by
  obtain ⟨st', hst⟩ := loop_total s {} h (by simp) (by intro h; exact absurd rfl (h []))
  have := loop_ok s {} st' hst
  simp only [signatureInfo, signatureInfoV, hst]
  subst this
  simp [after, closedInfo, maxAfter, otherAfter]

/-! ## counting lemmas -/

theorem all_dflt_iff_count (ps : Sig) :
    ps.all (·.dflt) = true ↔ (ps.filter (fun p => !p.dflt)).length = 0 := by
  induction ps with
  | nil => simp
  | cons p ps ih =>
    cases hd : p.dflt <;> simp [hd, ih]

/-- defaults contiguous at the end: the slots left unfilled by `n` positional arguments all
    have defaults iff at least as many arguments as there are default-less slots were given -/
theorem drop_all_dflt_iff (ps : Sig) (hd : ps.Pairwise defaultOrder) :
    ∀ n, (ps.drop n).all (·.dflt) = true ↔ (ps.filter (fun p => !p.dflt)).length ≤ n := by
  induction ps with
  | nil => intro n; simp
  | cons p ps ih =>
    rw [List.pairwise_cons] at hd
    intro n
    cases n with
    | zero =>
      rw [List.drop_zero, all_dflt_iff_count]; omega
    | succ k =>
      rw [List.drop_succ_cons, ih hd.2 k]
      cases hp : p.dflt with
      | false => simp [hp]
      | true =>
        have hall : ps.all (·.dflt) = true := by
          rw [List.all_eq_true]; intro q hq; exact hd.1 q hq hp
        rw [all_dflt_iff_count] at hall
        simp [hp, hall]

theorem nReqPos_eq (s : Sig) :
    nReqPos s = ((positional s).filter (fun p => !p.dflt)).length := by
  simp [nReqPos, positional, List.filter_filter, Bool.and_comm]

theorem reqKw_nil_iff (s : Sig) : reqKw s = [] ↔ (s.filter isKO).all (·.dflt) = true := by
  induction s with
  | nil => simp [reqKw]
  | cons p ps ih =>
    rw [reqKw_cons]
    cases hk : isKO p <;> cases hd : p.dflt <;> simp [hk, hd, ih]

theorem mem_reqNames (s : Sig) (a : Name) :
    a ∈ reqNames s ↔ ∃ p ∈ s, keywordable p = true ∧ p.dflt = false ∧ p.name = a := by
  simp [reqNames, and_assoc]

theorem mem_optNames (s : Sig) (a : Name) :
    a ∈ optNames s ↔ ∃ p ∈ s, keywordable p = true ∧ p.dflt = true ∧ p.name = a := by
  simp [optNames, and_assoc]

theorem mem_req_or_opt (s : Sig) (a : Name) :
    (a ∈ reqNames s ∨ a ∈ optNames s) ↔ ∃ p ∈ s, keywordable p = true ∧ p.name = a := by
  rw [mem_reqNames, mem_optNames]
  constructor
  · rintro (⟨p, hp, hk, _, hn⟩ | ⟨p, hp, hk, _, hn⟩) <;> exact ⟨p, hp, hk, hn⟩
  · rintro ⟨p, hp, hk, hn⟩
    cases hd : p.dflt
    · exact Or.inl ⟨p, hp, hk, hd, hn⟩
    · exact Or.inr ⟨p, hp, hk, hd, hn⟩

theorem hasPO_false_iff (s : Sig) : hasPO s = false ↔ ∀ p ∈ s, isPO p = false := by
  simp [hasPO]

theorem slot_not_po_keywordable (p : Param) (h1 : isSlot p = true) (h2 : isPO p = false) :
    keywordable p = true := by
  obtain ⟨k, nm, d⟩ := p
  cases k <;> simp [isSlot, isPO, keywordable] at h1 h2 ⊢

theorem keywordable_isSlot (p : Param) (h : keywordable p = true) : isSlot p = true := by
  obtain ⟨k, nm, d⟩ := p
  cases k <;> simp [isSlot, keywordable] at h ⊢

/-! ## closed form of the two halves of `handler_invocation` -/

/-- what the positional half accepts -/
def posOK (s : Sig) (n : Nat) : Prop :=
  reqKw s = [] ∧ nReqPos s ≤ n ∧ (hasVP s = true ∨ n ≤ nPos s)

instance (s : Sig) (n : Nat) : Decidable (posOK s n) := by unfold posOK; exact inferInstance

def namedOK (s : Sig) (ns : List Name) : Prop :=
  hasPO s = false ∧ (∀ r ∈ reqNames s, r ∈ ns) ∧
    (hasVK s = true ∨ ∀ a ∈ ns, a ∈ reqNames s ∨ a ∈ optNames s)

instance (s : Sig) (ns : List Name) : Decidable (namedOK s ns) := by
  unfold namedOK; exact inferInstance

theorem isEmpty_false_of_ne_nil {α} (l : List α) (h : l ≠ []) : l.isEmpty = false := by
  cases l with
  | nil => exact absurd rfl h
  | cons a b => rfl

theorem checkPos_closed (s : Sig) (n : Nat) :
    checkPos (closedInfo s) n = if posOK s n then .ok (.pos n) else .error invalidArgs := by
  simp only [checkPos, closedInfo, posOK, overMax]
  by_cases h1 : reqKw s = []
  · by_cases h2 : n < nReqPos s
    · have : ¬ nReqPos s ≤ n := by omega
      simp [h1, h2, this]
    · have h2' : nReqPos s ≤ n := by omega
      by_cases hv : hasVP s = true
      · simp [h1, h2, h2', hv]
      · by_cases h3 : nPos s < n
        · have : ¬ n ≤ nPos s := by omega
          simp [h1, h2, h2', hv, h3, this]
        · have : n ≤ nPos s := by omega
          simp [h1, h2, h2', hv, h3, this]
  · simp [h1, isEmpty_false_of_ne_nil _ h1]

theorem checkNamed_closed (s : Sig) (ns : List Name) :
    checkNamed (closedInfo s) ns =
      if namedOK s ns then .ok (.named ns) else .error invalidArgs := by
  simp only [checkNamed, closedInfo, namedOK]
  by_cases hpo : hasPO s = true
  · simp [hpo]
  · have hpo' : hasPO s = false := by simpa using hpo
    by_cases hreq : ∀ r ∈ reqNames s, r ∈ ns
    · have hreq' : ¬ ∃ x, x ∈ reqNames s ∧ ¬ x ∈ ns := by
        rintro ⟨x, hx, hn⟩; exact hn (hreq x hx)
      by_cases hvk : hasVK s = true
      · simp [hpo', hvk, hreq']
      · by_cases hex : ∀ a ∈ ns, a ∈ reqNames s ∨ a ∈ optNames s
        · have hex' : ¬ ∃ x, x ∈ ns ∧ ¬ x ∈ reqNames s ∧ ¬ x ∈ optNames s := by
            rintro ⟨x, hx, h1, h2⟩
            rcases hex x hx with h | h
            · exact h1 h
            · exact h2 h
          simp [hpo', hvk, hreq', hex', otherList]
        · have hex' : ∃ x, x ∈ ns ∧ ¬ x ∈ reqNames s ∧ ¬ x ∈ optNames s := by
            apply Classical.byContradiction
            intro hne
            apply hex
            intro a ha
            by_cases h1 : a ∈ reqNames s
            · exact Or.inl h1
            · by_cases h2 : a ∈ optNames s
              · exact Or.inr h2
              · exact absurd ⟨a, ha, h1, h2⟩ hne
          simp [hpo', hvk, hreq', hex, hex', otherList]
    · have hreq' : ∃ x, x ∈ reqNames s ∧ ¬ x ∈ ns := by
        apply Classical.byContradiction
        intro hne
        apply hreq
        intro r hr
        by_cases h : r ∈ ns
        · exact h
        · exact absurd ⟨r, hr, h⟩ hne
      simp [hpo', hreq]

/-- `handler_invocation` on a handler whose parameter list is in Python's kind order -/
theorem handlerInvocation_pos (h : Handler) (hord : h.sig.Pairwise kindOrder) (n : Nat) :
    handlerInvocation (some h) (.pos n) =
      if posOK h.sig n then .ok (.pos n) else .error invalidArgs := by
  have := signatureInfo_closed h.sig hord
  simp only [signatureInfo] at this
  simp only [handlerInvocation, handlerInvocationV, this, checkPos_closed]

theorem handlerInvocation_named (h : Handler) (hord : h.sig.Pairwise kindOrder) (ns : List Name) :
    handlerInvocation (some h) (.named ns) =
      if namedOK h.sig ns then .ok (.named ns) else .error invalidArgs := by
  have := signatureInfo_closed h.sig hord
  simp only [signatureInfo] at this
  simp only [handlerInvocation, handlerInvocationV, this, checkNamed_closed]

/-! ## the pinned variant differs only on keyword-only parameters without default -/

theorem step_pinned_eq (st : St) (p : Param) (h : (isKO p && !p.dflt) = false) :
    step .pinned st p = step .repaired st p := by
  obtain ⟨k, nm, d⟩ := p
  cases k <;> cases d <;> simp [step, isKO] at h ⊢

theorem loop_pinned_eq (s : Sig) (h : reqKw s = []) :
    ∀ st, loop .pinned st s = loop .repaired st s := by
  induction s with
  | nil => intro st; rfl
  | cons p ps ih =>
    intro st
    rw [reqKw_cons] at h
    have hp : (isKO p && !p.dflt) = false := by
      cases hc : (isKO p && !p.dflt) with
      | false => rfl
      | true => rw [hc] at h; simp at h
    have hps : reqKw ps = [] := by
      rw [hp] at h; simpa using h
    simp only [loop, step_pinned_eq st p hp]
    cases step .repaired st p with
    | error e => rfl
    | ok st1 => exact ih hps st1

theorem handlerInvocationPinned_eq (h : Option Handler) (args : Args)
    (hk : ∀ h', h = some h' → reqKw h'.sig = []) :
    handlerInvocationPinned h args = handlerInvocation h args := by
  cases h with
  | none => rfl
  | some h' =>
    simp only [handlerInvocationPinned, handlerInvocation, handlerInvocationV, signatureInfoV,
      loop_pinned_eq h'.sig (hk h' rfl)]

end Aiorpcx.C19
