import Aiorpcx.C19.Lemmas
/-!
# C19 — the binding algorithm of the Language Reference, operationally, and `bindable`

`bindRef h n kws` runs §6.3.4 "Calls" literally for a call with `n` positional arguments and the
keyword arguments `kws` (in order): create the slots, put the positional arguments into the first
unfilled positional slots (surplus only with `*args`), then for each keyword find the slot of
that name (already filled → TypeError; no such slot → TypeError unless `**kwargs`), finally every
slot still unfilled must have a default.  Slots the wrapper (bound method / partial) has filled
are part of the initial state.

`bindRef_pos` / `bindRef_named`: on well-formed handlers this algorithm is the closed-form SPEC
`bindable` used by the property theorems (for the two call shapes `handler_invocation` produces).
This is where `WF.distinct` is needed: a keyword must determine *one* slot.
-/
namespace Aiorpcx.C19

/-- a formal-parameter slot and whether it is filled -/
abbrev Slots := List (Param × Bool)

def initSlots (h : Handler) : Slots :=
  h.prebound.map (fun k => (⟨.pk, k, false⟩, true)) ++ (h.sig.filter isSlot).map (fun p => (p, false))

/-- put `n` positional arguments into the first unfilled positional slots; `none` = TypeError -/
def fillPos (vp : Bool) : Slots → Nat → Option Slots
  | sl, 0 => some sl
  | [], _ + 1 => if vp then some [] else none
  | (p, f) :: rest, n + 1 =>
      if isPositional p then
        if f then (fillPos vp rest (n + 1)).map ((p, f) :: ·)
        else (fillPos vp rest n).map ((p, true) :: ·)
      else if vp then some ((p, f) :: rest) else none

/-- one keyword argument `k`; `none` = TypeError -/
def fillKw (vk : Bool) (k : Name) : Slots → Option Slots
  | [] => if vk then some [] else none
  | (p, f) :: rest =>
      if keywordable p && p.name == k then (if f then none else some ((p, true) :: rest))
      else (fillKw vk k rest).map ((p, f) :: ·)

def fillKws (vk : Bool) : List Name → Slots → Option Slots
  | [], sl => some sl
  | k :: ks, sl => (fillKw vk k sl).bind (fillKws vk ks)

/-- every slot is filled or has a default -/
def allFilled (sl : Slots) : Bool := sl.all (fun s => s.2 || s.1.dflt)

/-- Language Reference §6.3.4 for a call with `n` positional and `kws` keyword arguments -/
def bindRef (h : Handler) (n : Nat) (kws : List Name) : Bool :=
  match fillPos (hasVP h.sig) (initSlots h) n with
  | none => false
  | some sl =>
    match fillKws (hasVK h.sig) kws sl with
    | none => false
    | some sl' => allFilled sl'

/-! ## keyword arguments -/

/-- slot `s` is the slot keyword `k` designates -/
def designates (k : Name) (s : Param × Bool) : Bool := keywordable s.1 && s.1.name == k

/-- names of the keyword-addressable slots are distinct -/
def UniqueKw (sl : Slots) : Prop := ((sl.filter (fun s => keywordable s.1)).map (·.1.name)).Nodup

def mark (k : Name) (s : Param × Bool) : Param × Bool := (s.1, s.2 || designates k s)

theorem map_eq_self {α} (f : α → α) (l : List α) (h : ∀ x ∈ l, f x = x) : l.map f = l := by
  induction l with
  | nil => rfl
  | cons a t ih =>
    simp only [List.map_cons, h a (by simp), ih (fun x hx => h x (by simp [hx]))]

theorem mark_of_not_matches (k : Name) (s : Param × Bool) (h : designates k s = false) :
    mark k s = s := by
  simp [mark, h]

theorem fillKw_no_match (vk : Bool) (k : Name) (sl : Slots)
    (h : ∀ s ∈ sl, designates k s = false) :
    fillKw vk k sl = if vk then some sl else none := by
  induction sl with
  | nil => rfl
  | cons s rest ih =>
    obtain ⟨p, f⟩ := s
    have hs : (keywordable p && p.name == k) = false := by
      simpa [designates] using h (p, f) (by simp)
    have hr := ih (fun s hs => h s (by simp [hs]))
    simp only [fillKw, hs, hr]
    cases vk <;> simp

theorem UniqueKw_cons {s : Param × Bool} {rest : Slots} (h : UniqueKw (s :: rest)) :
    UniqueKw rest ∧ (∀ k, designates k s = true → ∀ t ∈ rest, designates k t = false) := by
  unfold UniqueKw at h ⊢
  simp only [List.filter_cons] at h
  by_cases hk : keywordable s.1 = true
  · simp only [hk, ↓reduceIte, List.map_cons, List.nodup_cons] at h
    refine ⟨h.2, ?_⟩
    intro k hm t ht
    cases hmt : designates k t with
    | false => rfl
    | true =>
      exfalso
      apply h.1
      simp only [designates, Bool.and_eq_true, beq_iff_eq] at hm hmt
      simp only [List.mem_map, List.mem_filter]
      exact ⟨t, ⟨ht, hmt.1⟩, by rw [hmt.2, hm.2]⟩
  · simp only [hk] at h
    refine ⟨by simpa using h, ?_⟩
    intro k hm
    simp [designates, hk] at hm

theorem fillKw_match (vk : Bool) (k : Name) (sl : Slots) (hu : UniqueKw sl)
    (s : Param × Bool) (hs : s ∈ sl) (hm : designates k s = true) :
    fillKw vk k sl = if s.2 then none else some (sl.map (mark k)) := by
  induction sl with
  | nil => simp at hs
  | cons t rest ih =>
    obtain ⟨hur, huniq⟩ := UniqueKw_cons hu
    obtain ⟨p, f⟩ := t
    by_cases ht : designates k (p, f) = true
    · -- the head is the slot; nothing in the rest designates, so `s` is the head
      have hrest := huniq k ht
      have hsh : s = (p, f) := by
        rcases List.mem_cons.1 hs with h | h
        · exact h
        · have := hrest s h; rw [hm] at this; simp at this
      subst hsh
      have hmap : rest.map (mark k) = rest :=
        map_eq_self _ _ (fun t ht' => mark_of_not_matches k t (hrest t ht'))
      have ht' : (keywordable p && p.name == k) = true := by simpa [designates] using ht
      simp only [fillKw, ht', ↓reduceIte, List.map_cons, hmap]
      cases f <;> simp [mark, designates, ht']
    · have ht' : (keywordable p && p.name == k) = false := by simpa [designates] using ht
      have hsr : s ∈ rest := by
        rcases List.mem_cons.1 hs with h | h
        · subst h; exact absurd hm ht
        · exact h
      have := ih hur hsr
      simp only [fillKw, ht', this, List.map_cons]
      have hmk : mark k (p, f) = (p, f) := mark_of_not_matches k _ (by simpa using ht)
      cases s.2 <;> simp [hmk]


theorem designated_unique (k : Name) : ∀ (sl : Slots), UniqueKw sl →
    ∀ s ∈ sl, ∀ t ∈ sl, designates k s = true → designates k t = true → s = t := by
  intro sl
  induction sl with
  | nil => intro _ s hs; simp at hs
  | cons a rest ih =>
    intro hu s hs t ht hms hmt
    obtain ⟨hur, huniq⟩ := UniqueKw_cons hu
    rcases List.mem_cons.1 hs with h1 | h1 <;> rcases List.mem_cons.1 ht with h2 | h2
    · rw [h1, h2]
    · subst h1; have := huniq k hms t h2; rw [hmt] at this; simp at this
    · subst h2; have := huniq k hmt s h1; rw [hms] at this; simp at this
    · exact ih hur s h1 t h2 hms hmt

theorem mark_fst (k : Name) (s : Param × Bool) : (mark k s).1 = s.1 := rfl

theorem kwNames_map_mark (k : Name) (sl : Slots) :
    ((sl.map (mark k)).filter (fun s => keywordable s.1)).map (·.1.name) =
      (sl.filter (fun s => keywordable s.1)).map (·.1.name) := by
  induction sl with
  | nil => rfl
  | cons a rest ih =>
    simp only [List.map_cons, List.filter_cons, mark_fst]
    by_cases hk : keywordable a.1 = true
    · simp only [hk, ↓reduceIte, List.map_cons, mark_fst, ih]
    · have hk' : keywordable a.1 = false := by simpa using hk
      simp [hk', ih]

theorem UniqueKw_map_mark (k : Name) (sl : Slots) (h : UniqueKw sl) :
    UniqueKw (sl.map (mark k)) := by
  unfold UniqueKw at h ⊢
  rw [kwNames_map_mark]; exact h

/-- keyword `k` can be placed: it designates an unfilled slot, or no slot and `**kwargs` exists -/
def kwOK (vk : Bool) (sl : Slots) (k : Name) : Prop :=
  (∃ s ∈ sl, designates k s = true ∧ s.2 = false) ∨
    ((∀ s ∈ sl, designates k s = false) ∧ vk = true)

theorem designates_mark (k k' : Name) (s : Param × Bool) :
    designates k' (mark k s) = designates k' s := by
  simp [designates, mark]

theorem kwOK_mark (vk : Bool) (k k' : Name) (hne : k' ≠ k) (sl : Slots) :
    kwOK vk (sl.map (mark k)) k' ↔ kwOK vk sl k' := by
  unfold kwOK
  constructor
  · rintro (⟨s, hs, hm, hf⟩ | ⟨hn, hv⟩)
    · obtain ⟨t, ht, rfl⟩ := List.mem_map.1 hs
      rw [designates_mark] at hm
      refine Or.inl ⟨t, ht, hm, ?_⟩
      simp only [mark, Bool.or_eq_false_iff] at hf
      exact hf.1
    · refine Or.inr ⟨fun s hs => ?_, hv⟩
      have := hn (mark k s) (List.mem_map.2 ⟨s, hs, rfl⟩)
      rwa [designates_mark] at this
  · rintro (⟨s, hs, hm, hf⟩ | ⟨hn, hv⟩)
    · refine Or.inl ⟨mark k s, List.mem_map.2 ⟨s, hs, rfl⟩, by rwa [designates_mark], ?_⟩
      have hk : designates k s = false := by
        simp only [designates, Bool.and_eq_true, beq_iff_eq] at hm
        cases hd : designates k s with
        | false => rfl
        | true =>
          simp only [designates, Bool.and_eq_true, beq_iff_eq] at hd
          exact absurd (hm.2.symm.trans hd.2) hne
      simp [mark, hf, hk]
    · refine Or.inr ⟨fun s hs => ?_, hv⟩
      obtain ⟨t, ht, rfl⟩ := List.mem_map.1 hs
      rw [designates_mark]; exact hn t ht

def markAll (ns : List Name) (s : Param × Bool) : Param × Bool :=
  (s.1, s.2 || (keywordable s.1 && ns.contains s.1.name))

theorem markAll_nil (s : Param × Bool) : markAll [] s = s := by simp [markAll]

theorem markAll_cons_mark (k : Name) (ks : List Name) (s : Param × Bool) :
    markAll ks (mark k s) = markAll (k :: ks) s := by
  obtain ⟨p, f⟩ := s
  simp only [markAll, mark, designates, List.contains_cons]
  cases f <;> cases keywordable p <;> cases (p.name == k) <;> simp

theorem markAll_cons_of_not (k : Name) (ks : List Name) (s : Param × Bool)
    (h : designates k s = false) : markAll (k :: ks) s = markAll ks s := by
  obtain ⟨p, f⟩ := s
  simp only [designates] at h
  simp only [markAll, List.contains_cons]
  cases hk : keywordable p <;> cases hn : (p.name == k) <;> simp_all

theorem fillKws_spec (vk : Bool) : ∀ (ns : List Name) (sl : Slots), UniqueKw sl → ns.Nodup →
    ((∀ k ∈ ns, kwOK vk sl k) → fillKws vk ns sl = some (sl.map (markAll ns))) ∧
    (¬ (∀ k ∈ ns, kwOK vk sl k) → fillKws vk ns sl = none) := by
  intro ns
  induction ns with
  | nil =>
    intro sl _ _
    refine ⟨fun _ => ?_, fun h => absurd (by simp) h⟩
    simp only [fillKws]
    rw [map_eq_self _ _ (fun s _ => markAll_nil s)]
  | cons k ks ih =>
    intro sl hu hnd
    rw [List.nodup_cons] at hnd
    obtain ⟨hk, hks⟩ := hnd
    by_cases hex : ∃ s ∈ sl, designates k s = true
    · obtain ⟨s, hs, hm⟩ := hex
      have hfill := fillKw_match vk k sl hu s hs hm
      cases hf : s.2 with
      | true =>
        -- the designated slot is already filled: TypeError, and `k` is not placeable
        have hnone : fillKws vk (k :: ks) sl = none := by
          simp [fillKws, hfill, hf]
        refine ⟨fun hall => ?_, fun _ => hnone⟩
        exfalso
        rcases hall k (by simp) with ⟨t, ht, hmt, hft⟩ | ⟨hn, _⟩
        · have := designated_unique k sl hu s hs t ht hm hmt
          subst this; rw [hf] at hft; simp at hft
        · have := hn s hs; rw [hm] at this; simp at this
      | false =>
        have hstep : fillKws vk (k :: ks) sl = fillKws vk ks (sl.map (mark k)) := by
          simp [fillKws, hfill, hf]
        have hih := ih (sl.map (mark k)) (UniqueKw_map_mark k sl hu) hks
        have hiff : (∀ k' ∈ k :: ks, kwOK vk sl k') ↔ (∀ k' ∈ ks, kwOK vk (sl.map (mark k)) k') := by
          constructor
          · intro h k' hk'
            exact (kwOK_mark vk k k' (fun e => hk (e ▸ hk')) sl).2 (h k' (by simp [hk']))
          · intro h k' hk'
            rcases List.mem_cons.1 hk' with rfl | hk''
            · exact Or.inl ⟨s, hs, hm, hf⟩
            · exact (kwOK_mark vk k k' (fun e => hk (e ▸ hk'')) sl).1 (h k' hk'')
        rw [hstep, hiff]
        refine ⟨fun h => ?_, hih.2⟩
        rw [hih.1 h, List.map_map]
        apply congrArg some
        apply List.map_congr_left
        intro t _
        exact markAll_cons_mark k ks t
    · have hno : ∀ s ∈ sl, designates k s = false := by
        intro s hs
        cases hd : designates k s with
        | false => rfl
        | true => exact absurd ⟨s, hs, hd⟩ hex
      have hfill := fillKw_no_match vk k sl hno
      cases vk with
      | false =>
        have hnone : fillKws false (k :: ks) sl = none := by simp [fillKws, hfill]
        refine ⟨fun hall => ?_, fun _ => hnone⟩
        exfalso
        rcases hall k (by simp) with ⟨t, ht, hmt, _⟩ | ⟨_, hv⟩
        · have := hno t ht; rw [hmt] at this; simp at this
        · simp at hv
      | true =>
        have hstep : fillKws true (k :: ks) sl = fillKws true ks sl := by
          simp [fillKws, hfill]
        have hih := ih sl hu hks
        have hiff : (∀ k' ∈ k :: ks, kwOK true sl k') ↔ (∀ k' ∈ ks, kwOK true sl k') := by
          constructor
          · intro h k' hk'; exact h k' (by simp [hk'])
          · intro h k' hk'
            rcases List.mem_cons.1 hk' with rfl | hk''
            · exact Or.inr ⟨hno, rfl⟩
            · exact h k' hk''
        rw [hstep, hiff]
        refine ⟨fun h => ?_, hih.2⟩
        rw [hih.1 h]
        apply congrArg some
        exact List.map_congr_left (fun t ht => (markAll_cons_of_not k ks t (hno t ht)).symm)

theorem fillPos_zero (vp : Bool) (sl : Slots) : fillPos vp sl 0 = some sl := by
  cases sl <;> simp [fillPos]

theorem kwNames_initSlots (h : Handler) :
    ((initSlots h).filter (fun s => keywordable s.1)).map (·.1.name) =
      h.prebound ++ (h.sig.filter keywordable).map (·.name) := by
  simp only [initSlots, List.filter_append, List.map_append]
  congr 1
  · induction h.prebound with
    | nil => rfl
    | cons a t ih =>
      have hk : keywordable ({ kind := .pk, name := a, dflt := false } : Param) = true := rfl
      simp only [List.map_cons, List.filter_cons, hk, ↓reduceIte, ih]
  · induction h.sig with
    | nil => rfl
    | cons p ps ih =>
      by_cases hk : keywordable p = true
      · simp [hk, keywordable_isSlot p hk, ih]
      · by_cases hs : isSlot p = true
        · simp [hk, hs, ih]
        · simp [hk, hs, ih]

theorem UniqueKw_initSlots (h : Handler) (hwf : HandlerWF h) : UniqueKw (initSlots h) := by
  unfold UniqueKw
  rw [kwNames_initSlots, List.nodup_append]
  refine ⟨hwf.preboundDistinct, ?_, ?_⟩
  · exact List.Nodup.sublist (List.Sublist.map _ List.filter_sublist) hwf.sig.distinct
  · intro a ha b hb hab
    obtain ⟨p, hp, hn⟩ := List.mem_map.1 hb
    exact hwf.preboundGone a ha p (List.mem_filter.1 hp).1 (hn.trans hab.symm)

theorem mem_initSlots (h : Handler) (s : Param × Bool) :
    s ∈ initSlots h ↔ (∃ k ∈ h.prebound, s = (⟨.pk, k, false⟩, true)) ∨
      (∃ p ∈ h.sig, isSlot p = true ∧ s = (p, false)) := by
  simp only [initSlots, List.mem_append, List.mem_map, List.mem_filter]
  constructor
  · rintro (⟨k, hk, rfl⟩ | ⟨p, ⟨hp, hs⟩, rfl⟩)
    · exact Or.inl ⟨k, hk, rfl⟩
    · exact Or.inr ⟨p, hp, hs, rfl⟩
  · rintro (⟨k, hk, rfl⟩ | ⟨p, hp, hs, rfl⟩)
    · exact Or.inl ⟨k, hk, rfl⟩
    · exact Or.inr ⟨p, ⟨hp, hs⟩, rfl⟩

theorem kwOK_initSlots (h : Handler) (hwf : HandlerWF h) (k : Name) :
    kwOK (hasVK h.sig) (initSlots h) k ↔
      (k ∉ h.prebound ∧ ((∃ p ∈ h.sig, keywordable p = true ∧ p.name = k) ∨ hasVK h.sig = true)) := by
  unfold kwOK
  constructor
  · rintro (⟨s, hs, hm, hf⟩ | ⟨hn, hv⟩)
    · rcases (mem_initSlots h s).1 hs with ⟨k', _, rfl⟩ | ⟨p, hp, _, rfl⟩
      · simp at hf
      · simp only [designates, Bool.and_eq_true, beq_iff_eq] at hm
        exact ⟨fun hpre => hwf.preboundGone k hpre p hp hm.2, Or.inl ⟨p, hp, hm.1, hm.2⟩⟩
    · refine ⟨fun hpre => ?_, Or.inr hv⟩
      have := hn (⟨.pk, k, false⟩, true) ((mem_initSlots h _).2 (Or.inl ⟨k, hpre, rfl⟩))
      simp [designates, keywordable] at this
  · rintro ⟨hpre, hor⟩
    by_cases hex : ∃ p ∈ h.sig, keywordable p = true ∧ p.name = k
    · obtain ⟨p, hp, hk, hn⟩ := hex
      exact Or.inl ⟨(p, false), (mem_initSlots h _).2 (Or.inr ⟨p, hp, keywordable_isSlot p hk, rfl⟩),
        by simp [designates, hk, hn], rfl⟩
    · have hv : hasVK h.sig = true := by
        rcases hor with h1 | h1
        · exact absurd h1 hex
        · exact h1
      refine Or.inr ⟨fun s hs => ?_, hv⟩
      rcases (mem_initSlots h s).1 hs with ⟨k', hk', rfl⟩ | ⟨p, hp, _, rfl⟩
      · have : k' ≠ k := fun e => hpre (e ▸ hk')
        simp [designates, this]
      · cases hd : designates k (p, false) with
        | false => rfl
        | true =>
          simp only [designates, Bool.and_eq_true, beq_iff_eq] at hd
          exact absurd ⟨p, hp, hd.1, hd.2⟩ hex

theorem allFilled_initSlots (h : Handler) (ns : List Name) :
    allFilled ((initSlots h).map (markAll ns)) =
      h.sig.all (fun p => !isSlot p || p.dflt || (keywordable p && ns.contains p.name)) := by
  simp only [allFilled, initSlots, List.map_append, List.all_append, List.map_map]
  have h1 : (List.map (markAll ns ∘ fun k => (({ kind := .pk, name := k, dflt := false } : Param), true))
      h.prebound).all (fun s => s.2 || s.1.dflt) = true := by
    simp [List.all_eq_true, markAll]
  rw [h1, Bool.true_and]
  induction h.sig with
  | nil => rfl
  | cons p ps ih =>
    cases hs : isSlot p <;> simp [hs, markAll, ih, Bool.or_comm]

/-- The reference algorithm on a purely named call is the SPEC `bindable` (dict keys are
    distinct, hence `ns.Nodup`). -/
theorem bindRef_named (h : Handler) (hwf : HandlerWF h) (ns : List Name) (hnd : ns.Nodup) :
    bindRef h 0 ns = bindable h (.named ns) := by
  have hspec := fillKws_spec (hasVK h.sig) ns (initSlots h) (UniqueKw_initSlots h hwf) hnd
  have hA : (∀ k ∈ ns, kwOK (hasVK h.sig) (initSlots h) k) ↔
      ns.all (fun k => !h.prebound.contains k &&
        (h.sig.any (fun p => keywordable p && p.name == k) || hasVK h.sig)) = true := by
    simp only [List.all_eq_true, Bool.and_eq_true, Bool.not_eq_true', Bool.or_eq_true,
      List.any_eq_true, beq_iff_eq]
    constructor
    · intro hall k hk
      obtain ⟨h1, h2⟩ := (kwOK_initSlots h hwf k).1 (hall k hk)
      refine ⟨by simpa using h1, ?_⟩
      rcases h2 with ⟨p, hp, hq⟩ | h2
      · exact Or.inl ⟨p, hp, hq⟩
      · exact Or.inr h2
    · intro hall k hk
      obtain ⟨h1, h2⟩ := hall k hk
      refine (kwOK_initSlots h hwf k).2 ⟨by simpa using h1, ?_⟩
      rcases h2 with ⟨p, hp, hq⟩ | h2
      · exact Or.inl ⟨p, hp, hq⟩
      · exact Or.inr h2
  simp only [bindRef, fillPos_zero, bindable]
  by_cases hall : ∀ k ∈ ns, kwOK (hasVK h.sig) (initSlots h) k
  · rw [hspec.1 hall, hA.1 hall, Bool.true_and]
    exact allFilled_initSlots h ns
  · rw [hspec.2 hall]
    have : ns.all (fun k => !h.prebound.contains k &&
        (h.sig.any (fun p => keywordable p && p.name == k) || hasVK h.sig)) = false := by
      cases hc : ns.all (fun k => !h.prebound.contains k &&
        (h.sig.any (fun p => keywordable p && p.name == k) || hasVK h.sig)) with
      | false => rfl
      | true => exact absurd (hA.2 hc) hall
    rw [this, Bool.false_and]

/-! ### positional calls -/

theorem slots_split (s : Sig) (h : s.Pairwise kindOrder) :
    s.filter isSlot = positional s ++ s.filter isKO := by
  unfold positional
  induction s with
  | nil => rfl
  | cons p ps ih =>
    rw [List.pairwise_cons] at h
    have ih' := ih h.2
    obtain ⟨k, nm, d⟩ := p
    cases k
    case ko =>
      have hnone : ps.filter isPositional = [] := by
        rw [List.filter_eq_nil_iff]
        intro q hq
        have h3 : 3 ≤ rank q.kind := (h.1 q hq).1
        simp [rank_ge_two_not_positional q (by omega)]
      simp [List.filter_cons, isSlot, isPositional, isKO, ih', hnone]
    all_goals simp [List.filter_cons, isSlot, isPositional, isKO, ih']

theorem fillPos_skip (vp : Bool) (pre : List Name) (rest : Slots) (n : Nat) :
    fillPos vp (pre.map (fun k => (({ kind := .pk, name := k, dflt := false } : Param), true)) ++ rest) n =
      (fillPos vp rest n).map
        (pre.map (fun k => (({ kind := .pk, name := k, dflt := false } : Param), true)) ++ ·) := by
  induction pre with
  | nil => simp
  | cons a t ih =>
    cases n with
    | zero => simp [fillPos_zero]
    | succ m =>
      simp only [List.map_cons, List.cons_append, fillPos, isPositional, ↓reduceIte, ih,
        Option.map_map]
      rfl

theorem fillPos_body (vp : Bool) (B : List Param) (hB : ∀ b ∈ B, isPositional b = false) :
    ∀ (A : List Param), (∀ a ∈ A, isPositional a = true) → ∀ n,
    fillPos vp (A.map (fun p => (p, false)) ++ B.map (fun p => (p, false))) n =
      if n ≤ A.length then
        some ((A.take n).map (fun p => (p, true)) ++ (A.drop n).map (fun p => (p, false)) ++
          B.map (fun p => (p, false)))
      else if vp then some (A.map (fun p => (p, true)) ++ B.map (fun p => (p, false)))
      else none := by
  intro A
  induction A with
  | nil =>
    intro _ n
    cases n with
    | zero => simp [fillPos_zero]
    | succ m =>
      cases B with
      | nil => simp [fillPos]
      | cons b B' =>
        have := hB b (by simp)
        simp [fillPos, this]
  | cons a A' ih =>
    intro hA n
    have ha := hA a (by simp)
    have hA' : ∀ x ∈ A', isPositional x = true := fun x hx => hA x (by simp [hx])
    cases n with
    | zero => simp [fillPos_zero]
    | succ m =>
      simp only [List.map_cons, List.cons_append, fillPos, ha, ↓reduceIte, ih hA' m,
        List.length_cons, Nat.add_le_add_iff_right, List.take_succ_cons, List.drop_succ_cons]
      by_cases hm : m ≤ A'.length
      · simp [hm]
      · cases vp <;> simp [hm]

theorem allFilled_append (a b : Slots) : allFilled (a ++ b) = (allFilled a && allFilled b) := by
  simp [allFilled, List.all_append]

theorem allFilled_pre (pre : List Name) :
    allFilled (pre.map (fun k => (({ kind := .pk, name := k, dflt := false } : Param), true))) = true := by
  simp [allFilled]

theorem allFilled_true (A : List Param) : allFilled (A.map (fun p => (p, true))) = true := by
  simp [allFilled]

theorem allFilled_false (A : List Param) :
    allFilled (A.map (fun p => (p, false))) = A.all (·.dflt) := by
  simp [allFilled, List.all_map, Function.comp_def]

/-- The reference algorithm on a purely positional call is the SPEC `bindable`. -/
theorem bindRef_pos (h : Handler) (hwf : HandlerWF h) (n : Nat) :
    bindRef h n [] = bindable h (.pos n) := by
  have hsplit := slots_split h.sig hwf.sig.order
  have hA : ∀ a ∈ positional h.sig, isPositional a = true := by
    intro a ha; exact (List.mem_filter.1 ha).2
  have hB : ∀ b ∈ h.sig.filter isKO, isPositional b = false := by
    intro b hb
    have := (List.mem_filter.1 hb).2
    obtain ⟨k, nm, d⟩ := b
    cases k <;> simp [isKO, isPositional] at this ⊢
  simp only [bindRef, initSlots, hsplit, List.map_append, fillPos_skip,
    fillPos_body (hasVP h.sig) _ hB _ hA n, bindable]
  have e1 : allFilled (List.take n (List.map (fun p => (p, true)) (positional h.sig))) = true := by
    rw [← List.map_take]; exact allFilled_true _
  have e2 : allFilled (List.drop n (List.map (fun p => (p, false)) (positional h.sig))) =
      (List.drop n (positional h.sig)).all (·.dflt) := by
    rw [← List.map_drop]; exact allFilled_false _
  by_cases hn : n ≤ (positional h.sig).length
  · simp [hn, fillKws, allFilled_append, allFilled_pre, allFilled_false, e1, e2]
  · have hdrop : List.drop n (positional h.sig) = [] := List.drop_eq_nil_of_le (by omega)
    cases hvp : hasVP h.sig <;>
      simp [hn, fillKws, allFilled_append, allFilled_pre, allFilled_true, allFilled_false, hdrop]

end Aiorpcx.C19
