import Aiorpcx.Common.Hex
import Aiorpcx.C19.Model
/-! Line-protocol driver for the C19 model.

    in : `<handler> <args>`
         handler  `N`                              no handler
                  `H<params>;<prebound>`           params  = `-` | `k.name.d,k.name.d,...`
                                                   (k = kind rank 0..4, name a number, d = 0/1)
                                                   prebound = `-` | `name,name,...`
         args     `P<n>` | `K-` | `K<name,name,...>`
    out: `<repaired> <pinned> <bindable> <collides> <wf>`
         verdicts: `A` accepted | `R<code>` RPCError | `XT` TypeError | `XA` AttributeError -/
open Aiorpcx Aiorpcx.C19

def parseKind : Nat → Option Kind
  | 0 => some .po | 1 => some .pk | 2 => some .vp | 3 => some .ko | 4 => some .vk
  | _ => none

def parseParam (s : String) : Option Param :=
  match s.splitOn "." with
  | [k, n, d] =>
    match k.toNat?, n.toNat?, d.toNat? with
    | some k, some n, some d =>
      match parseKind k with
      | some kind => if d ≤ 1 then some ⟨kind, n, d == 1⟩ else none
      | none => none
    | _, _, _ => none
  | _ => none

def parseList {α} (f : String → Option α) (s : String) : Option (List α) :=
  if s == "-" then some [] else (s.splitOn ",").mapM f

def parseHandler (s : String) : Option (Option Handler) :=
  if s == "N" then some none
  else if s.startsWith "H" then
    match (s.drop 1).toString.splitOn ";" with
    | [ps, pre] =>
      match parseList parseParam ps, parseList String.toNat? pre with
      | some sig, some pb => some (some ⟨sig, pb⟩)
      | _, _ => none
    | _ => none
  else none

def parseArgs (s : String) : Option Args :=
  if s.startsWith "P" then (s.drop 1).toString.toNat?.map Args.pos
  else if s.startsWith "K" then (parseList String.toNat? (s.drop 1).toString).map Args.named
  else none

def showVerdict : Except Err Call → String
  | .ok _ => "A"
  | .error (.rpc c) => "R" ++ toString c
  | .error (.py .typeError) => "XT"
  | .error (.py .attributeError) => "XA"

def bit (b : Bool) : String := if b then "1" else "0"

def handle (line : String) : String :=
  match (line.splitOn " ").filter (· ≠ "") with
  | [hs, as] =>
    match parseHandler hs, parseArgs as with
    | some h, some a =>
      let (b, c, w) := match h with
        | some h => (bindable h a, collides h a, decide (HandlerWF h))
        | none => (false, false, true)
      String.intercalate " " [showVerdict (handlerInvocation h a),
        showVerdict (handlerInvocationPinned h a), bit b, bit c, bit w]
    | _, _ => "bad-op"
  | _ => "bad-op"

def main : IO Unit := Hex.lineLoop handle
