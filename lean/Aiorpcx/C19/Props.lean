import Aiorpcx.C19.Lemmas
import Aiorpcx.C19.Ref
import Aiorpcx.Facts.C19
/-!
# C19 — argument checking admits exactly the calls Python can bind

Property text: *for any handler signature and any argument list or name-to-value mapping,
argument checking either raises 'invalid params' (-32602) or returns an invocation that binds to
the handler without a TypeError, and it raises 'method not found' (-32601) when there is no
handler.  It refuses exactly the calls Python itself could not bind, except that named arguments
are always refused for handlers that have positional-only parameters.*

Model (`Model.lean`): `handlerInvocation : Option Handler → Args → Except Err Call` mirrors
`jsonrpc.handler_invocation` + `util.signature_info` **after** `fixes/F16-required-kwonly.diff`;
`handlerInvocationPinned` is the pinned code.  SPEC: `bindable` (slot filling of the Language
Reference §6.3.4).  Everything below is for **all** well-formed parameter lists (`WF`: Python's
kind order, one `*args`/`**kwargs`, defaults contiguous at the end of the positional part, no
default on `*`/`**`, distinct names), **all** positional counts and **all** name lists; proofs are
by induction over the parameter list (in `Lemmas.lean`), there is no bound.

One family is *not* covered by the repair and is a recorded known finding
(`c19:prebound-name-with-varkw`): a named call to a handler with `**kwargs` that names a parameter
a bound method / partial has already filled (`collides`).  `sound_full` is therefore false
(`sound_full_fails`), `sound_partial` has exactly that side-condition, and `sound` is the full
statement for every handler without pre-bound names (all plain functions).
-/
namespace Aiorpcx.C19

open Facts.C19 in
/-- the two codes the property fixes are the codes the code uses -/
theorem facts_codes : Facts.C19.invalidArgs = -32602 ∧ Facts.C19.methodNotFound = -32601 ∧
    Facts.C19.noHandlerCode = -32601 := by decide

/-- every exception OBSERVED leaving the real `handler_invocation` over the probe grid (all
    signatures with <= 2 parameters x all call shapes, no handler, a few larger calls) is an
    `RPCError` carrying one of the two codes (an exception of another class would show as code 1);
    which code in which situation is fixed by `noHandlerCode` above and by `facts_probes` below.
    `raise` statements no probe reached are listed in the facts (`unexercised_raises`), not here:
    they are not behaviour. -/
theorem facts_raise_codes :
    ∀ c ∈ Facts.C19.raiseCodes, c = Facts.C19.methodNotFound ∨ c = Facts.C19.invalidArgs := by
  decide

/-! ## the model on the probes taken from the real function -/

def probeKind : Nat → Kind
  | 0 => .po | 1 => .pk | 2 => .vp | 3 => .ko | _ => .vk

def probeSig (l : List (Nat × Nat × Bool)) : Sig := l.map fun p => ⟨probeKind p.1, p.2.1, p.2.2⟩

def probeArgs (a : Bool × Nat × List Nat) : Args := if a.1 then .named a.2.2 else .pos a.2.1

/-- 0 accepted, 1 RPCError invalidArgs, 2 RPCError methodNotFound, 3 anything else -/
def probeVerdict (r : Except Err Call) : Nat :=
  match r with
  | .ok _ => 0
  | .error (.rpc c) =>
      if c = Facts.C19.invalidArgs then 1 else if c = Facts.C19.methodNotFound then 2 else 3
  | .error (.py _) => 3

def probeAgrees (p : List (Nat × Nat × Bool) × (Bool × Nat × List Nat) × Nat) : Bool :=
  probeVerdict (handlerInvocation (some ⟨probeSig p.1, []⟩) (probeArgs p.2.1)) == p.2.2

/-- The model reproduces the real `handler_invocation` (current tree) on every well-formed
    signature with at most two parameters and every call shape - a behavioural change of the
    code at this level breaks this obligation. -/
theorem facts_probes : Facts.C19.probes.all probeAgrees = true := by decide +kernel

/-! ## shape of the result -/

/-- the invocation passes exactly the peer's arguments (`partial(handler, *args)` /
    `partial(handler, **args)`) -/
theorem invocation_passes_args (v : Variant) (h : Option Handler) (args : Args) (c : Call)
    (hok : handlerInvocationV v h args = .ok c) : c = args := by
  cases h with
  | none => simp [handlerInvocationV] at hok
  | some h =>
    simp only [handlerInvocationV] at hok
    cases hs : signatureInfoV v h.sig with
    | error e => rw [hs] at hok; simp at hok
    | ok info =>
      rw [hs] at hok
      cases args with
      | pos n =>
        simp only [checkPos] at hok
        split at hok <;> try simp at hok
        split at hok <;> try simp at hok
        split at hok <;> simp at hok
        exact hok.symm
      | named ns =>
        simp only [checkNamed] at hok
        split at hok <;> try simp at hok
        split at hok <;> try simp at hok
        split at hok <;> simp at hok
        exact hok.symm

/-! ## codes -/

/-- no handler: 'method not found' (-32601), whatever the arguments -/
theorem no_handler (args : Args) : handlerInvocation none args = .error (.rpc (-32601)) := by
  simp [handlerInvocation, handlerInvocationV, methodNotFound, facts_codes.2.1]

/-- With a handler whose parameter list is well formed, the only way not to return an invocation
    is `RPCError` with code -32602: nothing else (in particular no TypeError / AttributeError of
    `signature_info` itself) escapes. -/
theorem codes (h : Handler) (hwf : WF h.sig) (args : Args) (e : Err)
    (herr : handlerInvocation (some h) args = .error e) : e = .rpc (-32602) := by
  cases args with
  | pos n =>
    rw [handlerInvocation_pos h hwf.order] at herr
    split at herr
    · simp at herr
    · simp [invalidArgs, facts_codes.1] at herr; exact herr.symm
  | named ns =>
    rw [handlerInvocation_named h hwf.order] at herr
    split at herr
    · simp at herr
    · simp [invalidArgs, facts_codes.1] at herr; exact herr.symm

example : handlerInvocation (some ⟨[⟨.pk, 0, false⟩], []⟩) (.pos 0) = .error (.rpc (-32602)) := by
  decide

/-- `signature_info` itself never raises on a well-formed parameter list, and computes the
    closed form -/
theorem signatureInfo_total (s : Sig) (hwf : WF s) : signatureInfo s = .ok (closedInfo s) :=
  signatureInfo_closed s hwf.order

/-- outside well-formed lists the explicit failure modes are real: `def`-impossible
    `(*r, a)` makes `max_args += 1` hit `None`, `(**k, a=…)` makes `any.append` fail -/
example : signatureInfo [⟨.vp, 0, false⟩, ⟨.pk, 1, false⟩] = .error .typeError := by decide
example : signatureInfo [⟨.vk, 0, false⟩, ⟨.ko, 1, true⟩] = .error .attributeError := by decide

/-! ## SPEC in closed form -/

/-- positional calls: Python binds iff the count lies in the window, extra positionals only
    with `*args`, and no keyword-only parameter lacks a default.  (Uses that defaults are
    contiguous at the end.) -/
theorem bindable_pos_window (h : Handler) (hwf : WF h.sig) (n : Nat) :
    bindable h (.pos n) = true ↔
      nReqPos h.sig ≤ n ∧ (n ≤ nPos h.sig ∨ hasVP h.sig = true) ∧ reqKw h.sig = [] := by
  have hd := drop_all_dflt_iff (positional h.sig) hwf.defaults n
  rw [← nReqPos_eq] at hd
  simp only [bindable, Bool.and_eq_true, Bool.or_eq_true, decide_eq_true_eq, hd,
    ← reqKw_nil_iff, nPos]
  constructor
  · rintro ⟨⟨h1, h2⟩, h3⟩; exact ⟨h2, h1, h3⟩
  · rintro ⟨h2, h1, h3⟩; exact ⟨⟨h1, h2⟩, h3⟩

theorem bindable_pos_iff (h : Handler) (hwf : WF h.sig) (n : Nat) :
    bindable h (.pos n) = true ↔ posOK h.sig n := by
  rw [bindable_pos_window h hwf n, posOK]
  constructor
  · rintro ⟨h1, h2, h3⟩; exact ⟨h3, h1, h2.symm⟩
  · rintro ⟨h3, h1, h2⟩; exact ⟨h1, h2.symm, h3⟩

theorem bindable_named_iff (h : Handler) (ns : List Name) :
    bindable h (.named ns) = true ↔
      (∀ k ∈ ns, k ∉ h.prebound ∧
          ((∃ p ∈ h.sig, keywordable p = true ∧ p.name = k) ∨ hasVK h.sig = true)) ∧
      (∀ p ∈ h.sig, isSlot p = true → p.dflt = true ∨ (keywordable p = true ∧ p.name ∈ ns)) := by
  simp only [bindable, Bool.and_eq_true, List.all_eq_true, Bool.or_eq_true, List.any_eq_true,
    List.contains_iff_mem, beq_iff_eq, Bool.not_eq_eq_eq_not, Bool.not_true]
  constructor
  · rintro ⟨h1, h2⟩
    refine ⟨fun k hk => ?_, fun p hp hs => ?_⟩
    · obtain ⟨ha, hb⟩ := h1 k hk
      refine ⟨by simpa using ha, ?_⟩
      rcases hb with ⟨p, hp, hq⟩ | hb
      · exact Or.inl ⟨p, hp, hq⟩
      · exact Or.inr hb
    · rcases h2 p hp with (h | h) | h
      · rw [hs] at h; simp at h
      · exact Or.inl h
      · exact Or.inr h
  · rintro ⟨h1, h2⟩
    refine ⟨fun k hk => ?_, fun p hp => ?_⟩
    · obtain ⟨ha, hb⟩ := h1 k hk
      refine ⟨by simpa using ha, ?_⟩
      rcases hb with ⟨p, hp, hq⟩ | hb
      · exact Or.inl ⟨p, hp, hq⟩
      · exact Or.inr hb
    · cases hs : isSlot p
      · exact Or.inl (Or.inl rfl)
      · rcases h2 p hp hs with h | h
        · exact Or.inl (Or.inr h)
        · exact Or.inr h

/-- **The SPEC is the Language Reference's algorithm.**  `bindRef` (Ref.lean) executes §6.3.4
    literally - slots, positional filling, keyword look-up with "already filled" and "no such
    parameter" errors, defaults, `*args` / `**kwargs`, slots pre-filled by a bound method or
    partial; on every well-formed handler it agrees with the closed form `bindable` for the two
    call shapes `handler_invocation` produces (dict keys are distinct: `ns.Nodup`). -/
theorem spec_is_reference (h : Handler) (hwf : HandlerWF h) :
    (∀ n, bindRef h n [] = bindable h (.pos n)) ∧
    (∀ ns : List Name, ns.Nodup → bindRef h 0 ns = bindable h (.named ns)) :=
  ⟨bindRef_pos h hwf, bindRef_named h hwf⟩

/-- the algorithm is not trivial: with both positional and keyword arguments it reports the
    "multiple values" error of `f(1, a=2)` for `def f(a, b=…)` and accepts `f(1, b=2)` -/
example :
    let h : Handler := ⟨[⟨.pk, 0, false⟩, ⟨.pk, 1, true⟩], []⟩
    bindRef h 1 [0] = false ∧ bindRef h 1 [1] = true ∧ bindRef h 0 [1] = false := by decide

/-! ## soundness: accepted ⇒ Python binds the invocation -/

/-- **Soundness** (repaired code).  For every well-formed handler and every call, if
    `handler_invocation` returns an invocation then Python binds it - provided the call is not
    in the known-finding family `collides`. -/
theorem sound_partial (h : Handler) (hwf : HandlerWF h) (args : Args) (c : Call)
    (hok : handlerInvocation (some h) args = .ok c) (hnc : collides h args = false) :
    bindable h c = true := by
  have hc := invocation_passes_args _ _ _ _ hok
  subst hc
  cases c with
  | pos n =>
    rw [handlerInvocation_pos h hwf.sig.order] at hok
    split at hok
    · rename_i hp; exact (bindable_pos_iff h hwf.sig n).2 hp
    · simp at hok
  | named ns =>
    rw [handlerInvocation_named h hwf.sig.order] at hok
    split at hok
    · rename_i hn
      obtain ⟨hpo, hreq, hex⟩ := hn
      rw [bindable_named_iff]
      have hpo' := (hasPO_false_iff _).1 hpo
      refine ⟨fun k hk => ⟨?_, ?_⟩, fun p hp hs => ?_⟩
      · -- not a pre-bound name: otherwise either `**kwargs` (collision, excluded) or refused
        intro hpre
        simp only [collides, Bool.and_eq_false_iff] at hnc
        rcases hnc with hvk | hany
        · -- no `**kwargs`: every passed name is a parameter of the effective signature, and
          -- those are not pre-bound
          rcases hex with hvk' | hex
          · rw [hvk] at hvk'; simp at hvk'
          · obtain ⟨p, hp, _, hn⟩ := (mem_req_or_opt _ _).1 (hex k hk)
            exact hwf.preboundGone k hpre p hp hn
        · simp [List.any_eq_false] at hany
          exact hany k hk hpre
      · rcases hex with hvk | hex
        · exact Or.inr hvk
        · exact Or.inl ((mem_req_or_opt _ _).1 (hex k hk))
      · have hk := slot_not_po_keywordable p hs (hpo' p hp)
        cases hd : p.dflt
        · exact Or.inr ⟨hk, hreq _ ((mem_reqNames _ _).2 ⟨p, hp, hk, hd, rfl⟩)⟩
        · exact Or.inl rfl
    · simp at hok

/-- non-vacuity: `def f(a, b=…, *r, c=…, **kw)` called with three positionals is accepted, is not
    in the excluded family, and binds -/
example :
    let h : Handler := ⟨[⟨.pk, 0, false⟩, ⟨.pk, 1, true⟩, ⟨.vp, 2, false⟩, ⟨.ko, 3, true⟩,
                         ⟨.vk, 4, false⟩], []⟩
    HandlerWF h ∧ handlerInvocation (some h) (.pos 3) = .ok (.pos 3) ∧
      collides h (.pos 3) = false ∧ bindable h (.pos 3) = true := by decide

/-- **Soundness, full strength, for every handler without pre-bound parameters** (every plain
    function): accepted ⇒ Python binds the invocation. -/
theorem sound (h : Handler) (hwf : HandlerWF h) (hplain : h.prebound = []) (args : Args) (c : Call)
    (hok : handlerInvocation (some h) args = .ok c) : bindable h c = true := by
  apply sound_partial h hwf args c hok
  cases args with
  | pos n => rfl
  | named ns => simp [collides, hplain]

example :
    let h : Handler := ⟨[⟨.pk, 0, false⟩, ⟨.ko, 1, false⟩, ⟨.vk, 2, false⟩], []⟩
    HandlerWF h ∧ h.prebound = [] ∧
      handlerInvocation (some h) (.named [1, 0, 7]) = .ok (.named [1, 0, 7]) ∧
      bindable h (.named [1, 0, 7]) = true := by decide

/-- the statement without the side-condition … -/
def sound_full : Prop :=
  ∀ (h : Handler) (args : Args) (c : Call), HandlerWF h →
    handlerInvocation (some h) args = .ok c → bindable h c = true

/-- … is false: `K().f` with `def f(self, x, **kw)` (effective signature `(x, **kw)`, `self`
    pre-bound; names: self = 9, x = 0, kw = 1) called with `{'self': …, 'x': …}` is accepted and
    Python raises "got multiple values for argument 'self'".  Recorded known finding
    `c19:prebound-name-with-varkw`; replayed on the real code by the harness (corpus). -/
theorem sound_full_fails : ¬ sound_full := by
  intro hf
  have := hf ⟨[⟨.pk, 0, false⟩, ⟨.vk, 1, false⟩], [9]⟩ (.named [9, 0]) (.named [9, 0])
    (by decide) (by decide)
  revert this
  decide

/-- the side-condition of `sound_partial` is tight: *every* call in the excluded family is
    unbindable, so each one the code accepts is a genuine violation -/
theorem collision_unbindable (h : Handler) (args : Args) (hc : collides h args = true) :
    bindable h args = false := by
  cases args with
  | pos n => simp [collides] at hc
  | named ns =>
    simp only [collides, Bool.and_eq_true, List.any_eq_true] at hc
    obtain ⟨_, k, hk, hpre⟩ := hc
    cases hb : bindable h (.named ns) with
    | false => rfl
    | true =>
      have := ((bindable_named_iff h ns).1 hb).1 k hk
      simp only [List.contains_iff_mem] at hpre
      exact absurd hpre this.1

/-! ## completeness: Python binds ⇒ accepted, except named calls with positional-only -/

/-- **Completeness.**  Every call Python can bind is accepted, unless it passes arguments by name
    to a handler that has a positional-only parameter. -/
theorem complete (h : Handler) (hwf : HandlerWF h) (args : Args)
    (hb : bindable h args = true) (hex : ¬ (isNamed args = true ∧ hasPO h.sig = true)) :
    handlerInvocation (some h) args = .ok args := by
  cases args with
  | pos n =>
    rw [handlerInvocation_pos h hwf.sig.order, if_pos ((bindable_pos_iff h hwf.sig n).1 hb)]
  | named ns =>
    have hpo : hasPO h.sig = false := by
      cases hp : hasPO h.sig with
      | false => rfl
      | true => exact absurd ⟨rfl, hp⟩ hex
    obtain ⟨h1, h2⟩ := (bindable_named_iff h ns).1 hb
    have hok : namedOK h.sig ns := by
      refine ⟨hpo, ?_, ?_⟩
      · intro r hr
        obtain ⟨p, hp, hk, hd, hn⟩ := (mem_reqNames _ _).1 hr
        rcases h2 p hp (keywordable_isSlot p hk) with h | h
        · rw [hd] at h; simp at h
        · rw [← hn]; exact h.2
      · cases hvk : hasVK h.sig with
        | true => exact Or.inl rfl
        | false =>
          refine Or.inr (fun a ha => (mem_req_or_opt _ _).2 ?_)
          rcases (h1 a ha).2 with h | h
          · exact h
          · rw [hvk] at h; simp at h
    rw [handlerInvocation_named h hwf.sig.order, if_pos hok]

/-- non-vacuity: bindable, no positional-only parameter, accepted -/
example :
    let h : Handler := ⟨[⟨.pk, 0, false⟩, ⟨.pk, 1, true⟩, ⟨.ko, 2, false⟩], []⟩
    HandlerWF h ∧ bindable h (.named [2, 0]) = true ∧
      ¬ (isNamed (.named [2, 0]) = true ∧ hasPO h.sig = true) ∧
      handlerInvocation (some h) (.named [2, 0]) = .ok (.named [2, 0]) := by decide

/-- **The property's exception.**  Named arguments are always refused (with -32602) for a
    handler that has a positional-only parameter - bindable or not. -/
theorem named_posonly_refused (h : Handler) (hwf : HandlerWF h) (ns : List Name)
    (hpo : hasPO h.sig = true) :
    handlerInvocation (some h) (.named ns) = .error (.rpc (-32602)) := by
  rw [handlerInvocation_named h hwf.sig.order, if_neg]
  · simp [invalidArgs, facts_codes.1]
  · intro hok; rw [hok.1] at hpo; simp at hpo

/-- the exception is a real restriction: `def f(a=…, /, b=…)` called with `{'b': …}` binds in
    Python and is refused -/
example :
    let h : Handler := ⟨[⟨.po, 0, true⟩, ⟨.pk, 1, true⟩], []⟩
    HandlerWF h ∧ hasPO h.sig = true ∧ bindable h (.named [1]) = true ∧
      handlerInvocation (some h) (.named [1]) = .error (.rpc (-32602)) := by decide

/-- **Exactness.**  Outside the known-finding family, the accepted calls are exactly the calls
    Python binds minus the named calls on handlers with positional-only parameters; every other
    call is refused with -32602 (by `codes`). -/
theorem exact (h : Handler) (hwf : HandlerWF h) (args : Args) (hnc : collides h args = false) :
    handlerInvocation (some h) args = .ok args ↔
      (bindable h args = true ∧ ¬ (isNamed args = true ∧ hasPO h.sig = true)) := by
  constructor
  · intro hok
    refine ⟨sound_partial h hwf args args hok hnc, ?_⟩
    rintro ⟨hn, hpo⟩
    cases args with
    | pos n => simp [isNamed] at hn
    | named ns => rw [named_posonly_refused h hwf ns hpo] at hok; simp at hok
  · rintro ⟨hb, hex⟩
    exact complete h hwf args hb hex

/-- refusal, exactly: -32602 iff Python cannot bind the call or it is a named call on a handler
    with positional-only parameters (outside the known-finding family) -/
theorem refused_iff (h : Handler) (hwf : HandlerWF h) (args : Args)
    (hnc : collides h args = false) :
    handlerInvocation (some h) args = .error (.rpc (-32602)) ↔
      (bindable h args = false ∨ (isNamed args = true ∧ hasPO h.sig = true)) := by
  have hex := exact h hwf args hnc
  constructor
  · intro herr
    by_cases hb : bindable h args = true
    · by_cases hx : isNamed args = true ∧ hasPO h.sig = true
      · exact Or.inr hx
      · rw [hex.2 ⟨hb, hx⟩] at herr; simp at herr
    · exact Or.inl (by simpa using hb)
  · intro hor
    cases hr : handlerInvocation (some h) args with
    | error e => rw [codes h hwf.sig args e hr]
    | ok c =>
      have hc := invocation_passes_args _ _ _ _ hr
      subst hc
      obtain ⟨hb, hx⟩ := hex.1 hr
      rcases hor with h1 | h1
      · rw [hb] at h1; simp at h1
      · exact absurd h1 hx

/-! ## the pinned code (before `fixes/F16-required-kwonly.diff`) -/

/-- **F16.**  On the pinned `signature_info` a keyword-only parameter without default is neither
    required by name nor an obstacle to a positional call: `def f(a, *, b)` with `[1]` or
    `{'a': 1}`, and `def f(*, b)` with `[]` or `{}`, are accepted although Python cannot bind
    them; the repaired code refuses all four with -32602.  (a = 0, b = 1) -/
theorem sound_pinned_witness :
    let f : Handler := ⟨[⟨.pk, 0, false⟩, ⟨.ko, 1, false⟩], []⟩
    let g : Handler := ⟨[⟨.ko, 1, false⟩], []⟩
    HandlerWF f ∧ HandlerWF g ∧
    handlerInvocationPinned (some f) (.pos 1) = .ok (.pos 1) ∧ bindable f (.pos 1) = false ∧
    handlerInvocationPinned (some f) (.named [0]) = .ok (.named [0]) ∧
      bindable f (.named [0]) = false ∧
    handlerInvocationPinned (some g) (.pos 0) = .ok (.pos 0) ∧ bindable g (.pos 0) = false ∧
    handlerInvocationPinned (some g) (.named []) = .ok (.named []) ∧
      bindable g (.named []) = false ∧
    handlerInvocation (some f) (.pos 1) = .error (.rpc (-32602)) ∧
    handlerInvocation (some f) (.named [0]) = .error (.rpc (-32602)) ∧
    handlerInvocation (some g) (.pos 0) = .error (.rpc (-32602)) ∧
    handlerInvocation (some g) (.named []) = .error (.rpc (-32602)) := by decide

/-- F16 is the *only* difference: on every handler without a keyword-only parameter lacking a
    default the pinned function is the repaired function, so all theorems above hold for the
    pinned code on those handlers. -/
theorem pinned_agrees_without_required_kwonly (h : Handler) (args : Args)
    (hk : reqKw h.sig = []) :
    handlerInvocationPinned (some h) args = handlerInvocation (some h) args :=
  handlerInvocationPinned_eq (some h) args (by intro h' hh; cases hh; exact hk)

example :
    let h : Handler := ⟨[⟨.pk, 0, false⟩, ⟨.ko, 1, true⟩], []⟩
    reqKw h.sig = [] ∧ handlerInvocationPinned (some h) (.pos 1) = .ok (.pos 1) := by decide

/-- hence on the pinned code an accepted call that Python cannot bind (outside the known-finding
    family) always involves a keyword-only parameter without default: F16 is one family, and
    the DESIGN §1 inputs are its minimal members. -/
theorem pinned_unsound_only_with_required_kwonly (h : Handler) (hwf : HandlerWF h) (args : Args)
    (c : Call) (hok : handlerInvocationPinned (some h) args = .ok c)
    (hnc : collides h args = false) (hub : bindable h c = false) : reqKw h.sig ≠ [] := by
  intro hk
  rw [pinned_agrees_without_required_kwonly h args hk] at hok
  rw [sound_partial h hwf args c hok hnc] at hub
  simp at hub

end Aiorpcx.C19
