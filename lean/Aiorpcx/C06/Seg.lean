import Aiorpcx.C06.Lemmas
namespace Aiorpcx.C06

def isSegTok : Tok → Bool
  | .byte b => b != NL
  | .cut => true

theorem fits_mono {max m n : Nat} (h : fits max n = true) (hmn : m ≤ n) : fits max m = true := by
  unfold fits at *
  simp at *
  omega

/-- Running the tokens of one newline-free stretch: only `memErr` can come out; if none does the
    bytes are accumulated intact; if one does, the stretch (with what was already buffered) is
    over the limit and the machine is resynchronising. -/
theorem seg_run (max : Nat) (seg : List Tok) (hseg : ∀ t ∈ seg, isSegTok t = true) :
    ∀ (acc : Bytes) (sync : Bool),
      let r := trun max (acc, sync) seg
      (∀ o ∈ r.1, o = Out.memErr) ∧
      (r.1 = [] → r.2 = (acc ++ bytesOf seg, sync)) ∧
      (r.1 ≠ [] → r.2.2 = true ∧ fits max (acc ++ bytesOf seg).length = false) ∧
      (fits max (acc ++ bytesOf seg).length = true → r.1 = []) := by
  induction seg with
  | nil => intro acc sync; simp [trun, bytesOf]
  | cons t ts ih =>
    intro acc sync
    have hts : ∀ t ∈ ts, isSegTok t = true := fun x hx => hseg x (by simp [hx])
    have ht := hseg t (by simp)
    cases t with
    | byte b =>
      have hb : (b == NL) = false := by simpa [isSegTok] using ht
      have := ih hts (acc ++ [b]) sync
      simp only [trun, tstep, hb, bytesOf] at this ⊢
      simpa [List.append_assoc] using this
    | cut =>
      simp only [trun, tstep, bytesOf]
      by_cases hf : fits max acc.length = true
      · have := ih hts acc sync
        simpa [hf] using this
      · have hf' : fits max acc.length = false := by simpa using hf
        have := ih hts [] true
        simp only [hf']
        refine ⟨?_, ?_, ?_, ?_⟩
        · intro o ho
          simp at ho
          rcases ho with rfl | ho
          · rfl
          · exact this.1 o ho
        · simp
        · intro _
          refine ⟨?_, ?_⟩
          · by_cases hr : (trun max ([], true) ts).1 = []
            · have := this.2.1 hr; simp [this]
            · exact (this.2.2.1 hr).1
          · cases hfit : fits max (acc ++ bytesOf ts).length
            · rfl
            · have h5 := fits_mono (m := acc.length) hfit (by simp)
              simp [hf'] at h5
        · intro hfit
          have h5 := fits_mono (m := acc.length) hfit (by simp)
          simp [hf'] at h5

/-- renewal: a newline always leaves the machine in its initial state -/
theorem after_newline (max : Nat) (st : Bytes × Bool) : (tstep max st (.byte NL)).2 = ([], false) := by
  simp [tstep]

/-- one complete segment from the initial state: either exactly `[msg bytes]`, or only `memErr`s
    (at least one) and then the segment is over the limit; a fitting segment is always delivered -/
theorem segment_outcome (max : Nat) (seg : List Tok) (hseg : ∀ t ∈ seg, isSegTok t = true) :
    let r := trun max ([], false) (seg ++ [.byte NL])
    r.2 = ([], false) ∧
    ((r.1 = [Out.msg (bytesOf seg)]) ∨
     (r.1 ≠ [] ∧ (∀ o ∈ r.1, o = Out.memErr) ∧ fits max (bytesOf seg).length = false)) ∧
    (fits max (bytesOf seg).length = true → r.1 = [Out.msg (bytesOf seg)]) := by
  have h := seg_run max seg hseg [] false
  simp only [List.nil_append] at h
  simp only [trun_append, trun, tstep]
  by_cases he : (trun max ([], false) seg).1 = []
  · have h2 := h.2.1 he
    simp [he, h2]
  · have h3 := h.2.2.1 he
    have h4 : fits max (bytesOf seg).length = false := h3.2
    simp only [h3.1]
    refine ⟨by simp, Or.inr ⟨by simpa using he, ?_, h4⟩, ?_⟩
    · intro o ho; simp at ho; exact h.1 o ho
    · intro hf; simp [h4] at hf

end Aiorpcx.C06
