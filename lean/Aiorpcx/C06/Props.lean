import Aiorpcx.C06.Seg
import Aiorpcx.Facts.C06
/-!
# C06 — property theorems for the newline framer

Model: `Aiorpcx.C06.run max [] false chunks` = the sequence of values / `MemoryError`s produced by
successive `NewlineFramer.receive_message()` calls when the chunks `chunks` arrive in that order
(`Model.lean`, mirrors `framing.py:88-116`).  Everything below is quantified over **all** byte
streams, all chunkings (empty chunks included) and all limits (0 = unlimited); no bound.
-/
namespace Aiorpcx.C06

/-- what happened to one newline-terminated segment -/
inductive SegRes where
  | delivered
  | dropped (k : Nat)     -- signalled by `k` MemoryErrors
  deriving Repr, DecidableEq

def render (s : Bytes) : SegRes → List Out
  | .delivered => [Out.msg s]
  | .dropped k => List.replicate k Out.memErr

/-- the per-segment contract of the property -/
def SegOK (max : Nat) (s : Bytes) : SegRes → Prop
  | .delivered => True
  | .dropped k => 1 ≤ k ∧ fits max s.length = false

/-- token-level segmentation -/
def segToks : List Tok → List (List Tok) × List Tok
  | [] => ([], [])
  | t :: ts =>
      let r := segToks ts
      if t = Tok.byte NL then ([] :: r.1, r.2)
      else match r.1 with
        | [] => ([], t :: r.2)
        | s :: ss => ((t :: s) :: ss, r.2)

theorem isSegTok_iff (t : Tok) : isSegTok t = true ↔ t ≠ Tok.byte NL := by
  cases t with
  | byte b => simp [isSegTok]
  | cut => simp [isSegTok]

theorem segToks_spec (ts : List Tok) :
    ts = (segToks ts).1.flatMap (· ++ [Tok.byte NL]) ++ (segToks ts).2 ∧
    (∀ s ∈ (segToks ts).1, ∀ t ∈ s, isSegTok t = true) ∧
    (∀ t ∈ (segToks ts).2, isSegTok t = true) := by
  induction ts with
  | nil => simp [segToks]
  | cons t ts ih =>
    obtain ⟨h1, h2, h3⟩ := ih
    simp only [segToks]
    by_cases ht : t = Tok.byte NL
    · simp only [ht, ↓reduceIte]
      refine ⟨?_, ?_, h3⟩
      · simp only [List.flatMap_cons, List.nil_append, List.cons_append]
        congr 1
      · intro s hs
        simp at hs
        rcases hs with rfl | hs
        · simp
        · exact h2 s hs
    · simp only [ht, ↓reduceIte]
      have ht' := (isSegTok_iff t).2 ht
      cases hr : (segToks ts).1 with
      | nil =>
        rw [hr] at h1
        simp only at h1 ⊢
        refine ⟨by simpa using h1, by simp, ?_⟩
        intro x hx
        simp at hx
        rcases hx with rfl | hx
        · exact ht'
        · exact h3 x hx
      | cons s ss =>
        rw [hr] at h1 h2
        simp only
        refine ⟨?_, ?_, h3⟩
        · simp only [List.flatMap_cons, List.cons_append, List.append_assoc] at h1 ⊢
          congr 1
        · intro s' hs'
          simp at hs'
          rcases hs' with rfl | hs'
          · intro x hx
            simp at hx
            rcases hx with rfl | hx
            · exact ht'
            · exact h2 s (by simp) x hx
          · exact h2 s' (by simp [hs'])

theorem segments_bytesOf (ts : List Tok) :
    segments (bytesOf ts) = ((segToks ts).1.map bytesOf, bytesOf (segToks ts).2) := by
  induction ts with
  | nil => simp [segments, segToks, bytesOf]
  | cons t ts ih =>
    cases t with
    | cut =>
      simp only [bytesOf, segToks, ih]
      have : ¬ (Tok.cut = Tok.byte NL) := by simp
      simp only [this, ↓reduceIte]
      cases hr : (segToks ts).1 <;> simp [bytesOf]
    | byte b =>
      simp only [bytesOf, segToks, segments, ih]
      by_cases hb : b = NL
      · subst hb; simp [bytesOf]
      · have h1 : (b == NL) = false := by simpa using hb
        have h2 : ¬ (Tok.byte b = Tok.byte NL) := by simpa using hb
        simp only [h1, h2, ↓reduceIte]
        cases hr : (segToks ts).1 <;> simp [bytesOf]

theorem bytesOf_append (a b : List Tok) : bytesOf (a ++ b) = bytesOf a ++ bytesOf b := by
  induction a with
  | nil => simp [bytesOf]
  | cons t ts ih => cases t <;> simp [bytesOf, ih]

theorem bytesOf_map_byte (c : Bytes) : bytesOf (c.map Tok.byte) = c := by
  induction c with
  | nil => simp [bytesOf]
  | cons b bs ih => simp [bytesOf, ih]

theorem bytesOf_toks (chunks : List Bytes) : bytesOf (toks chunks) = chunks.flatten := by
  induction chunks with
  | nil => simp [toks, bytesOf]
  | cons c cs ih =>
    have : toks (c :: cs) = (c.map Tok.byte ++ [Tok.cut]) ++ toks cs := by simp [toks]
    rw [this, bytesOf_append, bytesOf_append, bytesOf_map_byte, ih]
    simp [bytesOf]

/-- token-machine form of the framing specification -/
theorem trun_segs (max : Nat) (segs : List (List Tok)) (tail : List Tok)
    (hs : ∀ s ∈ segs, ∀ t ∈ s, isSegTok t = true) (ht : ∀ t ∈ tail, isSegTok t = true) :
    ∃ (rs : List SegRes) (k : Nat),
      rs.length = segs.length ∧
      (trun max ([], false) (segs.flatMap (· ++ [Tok.byte NL]) ++ tail)).1 =
        (List.zipWith render (segs.map bytesOf) rs).flatten ++ List.replicate k Out.memErr ∧
      (∀ p ∈ List.zip (segs.map bytesOf) rs, SegOK max p.1 p.2) ∧
      (∀ p ∈ List.zip (segs.map bytesOf) rs, fits max p.1.length = true → p.2 = .delivered) ∧
      (1 ≤ k → fits max (bytesOf tail).length = false) := by
  induction segs with
  | nil =>
    have h := seg_run max tail ht [] false
    simp only [List.nil_append] at h
    obtain ⟨hall, _, hne, hfit⟩ := h
    refine ⟨[], (trun max ([], false) tail).1.length, rfl, ?_, by simp, by simp, ?_⟩
    · simp only [List.flatMap_nil, List.nil_append, List.map_nil, List.zipWith_nil_left,
        List.flatten_nil]
      exact List.eq_replicate_iff.2 ⟨rfl, hall⟩
    · intro hk
      have : (trun max ([], false) tail).1 ≠ [] := by
        intro h0; rw [h0] at hk; simp at hk
      exact (hne this).2
  | cons s ss ih =>
    have hs' : ∀ s ∈ ss, ∀ t ∈ s, isSegTok t = true := fun x hx => hs x (by simp [hx])
    obtain ⟨rs, k, hlen, hout, hok, hfit, hk⟩ := ih hs'
    have hseg := segment_outcome max s (hs s (by simp))
    simp only at hseg
    obtain ⟨hst, hcase, hfits⟩ := hseg
    have hrun : (trun max ([], false) ((s :: ss).flatMap (· ++ [Tok.byte NL]) ++ tail)).1 =
        (trun max ([], false) (s ++ [Tok.byte NL])).1 ++
        (trun max ([], false) (ss.flatMap (· ++ [Tok.byte NL]) ++ tail)).1 := by
      simp only [List.flatMap_cons, List.append_assoc]
      rw [← List.append_assoc, trun_append, hst]
    rcases hcase with hdel | ⟨hne, hall, hnofit⟩
    · refine ⟨.delivered :: rs, k, by simp [hlen], ?_, ?_, ?_, hk⟩
      · rw [hrun, hdel, hout]; simp [render]
      · intro p hp
        simp at hp
        rcases hp with rfl | hp
        · trivial
        · exact hok p (by simpa using hp)
      · intro p hp hf
        simp at hp
        rcases hp with rfl | hp
        · rfl
        · exact hfit p (by simpa using hp) hf
    · refine ⟨.dropped (trun max ([], false) (s ++ [Tok.byte NL])).1.length :: rs, k,
        by simp [hlen], ?_, ?_, ?_, hk⟩
      · rw [hrun, hout]
        simp only [List.map_cons, List.zipWith_cons_cons, List.flatten_cons, render,
          List.append_assoc]
        congr 1
        exact List.eq_replicate_iff.2 ⟨rfl, hall⟩
      · intro p hp
        simp at hp
        rcases hp with rfl | hp
        · refine ⟨?_, hnofit⟩
          cases h : (trun max ([], false) (s ++ [Tok.byte NL])).1 with
          | nil => exact absurd h hne
          | cons _ _ => simp
        · exact hok p (by simpa using hp)
      · intro p hp hf
        simp at hp
        rcases hp with rfl | hp
        · simp [hnofit] at hf
        · exact hfit p (by simpa using hp) hf

/-- **C06 main theorem.**  For every limit and every way of cutting a byte stream into chunks,
the outputs of successive `receive_message()` calls are, segment by segment and in order, either
the segment itself (exactly once, whole) or a non-empty run of `MemoryError`s — the latter only
for a segment over the limit; a segment within the limit is always delivered; after the last
newline only `MemoryError`s can appear, and only if the unterminated rest is over the limit. -/
theorem framing_spec (max : Nat) (chunks : List Bytes) :
    ∃ (rs : List SegRes) (k : Nat),
      rs.length = (segments chunks.flatten).1.length ∧
      run max [] false chunks =
        (List.zipWith render (segments chunks.flatten).1 rs).flatten ++
          List.replicate k Out.memErr ∧
      (∀ p ∈ List.zip (segments chunks.flatten).1 rs, SegOK max p.1 p.2) ∧
      (∀ p ∈ List.zip (segments chunks.flatten).1 rs,
          fits max p.1.length = true → p.2 = .delivered) ∧
      (1 ≤ k → fits max (segments chunks.flatten).2.length = false) := by
  obtain ⟨h1, h2, h3⟩ := segToks_spec (toks chunks)
  obtain ⟨rs, k, hlen, hout, hok, hfit, hk⟩ := trun_segs max _ _ h2 h3
  have hseg := segments_bytesOf (toks chunks)
  rw [bytesOf_toks] at hseg
  refine ⟨rs, k, ?_, ?_, ?_, ?_, ?_⟩
  · rw [hseg]; simpa using hlen
  · rw [run_eq_trun, hseg]; rw [← h1] at hout; exact hout
  · rw [hseg]; exact hok
  · rw [hseg]; exact hfit
  · rw [hseg]; exact hk

theorem render_all_delivered : ∀ (segs : List Bytes) (rs : List SegRes),
    rs.length = segs.length → (∀ p ∈ List.zip segs rs, p.2 = SegRes.delivered) →
    (List.zipWith render segs rs).flatten = segs.map Out.msg
  | [], _, _, _ => by simp
  | _ :: _, [], h, _ => by simp at h
  | s :: ss, r :: rs, hlen, hdel => by
    have hr : r = .delivered := hdel (s, r) (by simp)
    subst hr
    have ih := render_all_delivered ss rs (by simpa using hlen)
      (fun p hp => hdel p (by simp only [List.zip_cons_cons, List.mem_cons]; right; exact hp))
    simp [render, ih]

theorem msg_mem_render (m : Bytes) : ∀ (segs : List Bytes) (rs : List SegRes),
    Out.msg m ∈ (List.zipWith render segs rs).flatten → m ∈ segs
  | [], _, h => by simp at h
  | _ :: _, [], h => by simp at h
  | s :: ss, r :: rs, h => by
    simp only [List.zipWith_cons_cons, List.flatten_cons, List.mem_append] at h
    rcases h with h | h
    · cases r with
      | delivered => simp [render] at h; simp [h]
      | dropped j => simp [render] at h
    · have := msg_mem_render m ss rs h
      simp [this]

/-- all segments (and the rest) within the limit ⇒ the output is exactly the segments, for every
chunking: **chunking independence**. -/
theorem chunking_independent (max : Nat) (chunks : List Bytes)
    (hfit : ∀ s ∈ (segments chunks.flatten).1, fits max s.length = true)
    (hrest : fits max (segments chunks.flatten).2.length = true) :
    run max [] false chunks = (segments chunks.flatten).1.map Out.msg := by
  obtain ⟨rs, k, hlen, hout, _, hdel, hk⟩ := framing_spec max chunks
  have hk0 : k = 0 := by
    rcases Nat.eq_zero_or_pos k with h | h
    · exact h
    · have := hk h; rw [hrest] at this; cases this
  subst hk0
  rw [hout]
  simp only [List.replicate_zero, List.append_nil]
  apply render_all_delivered _ _ hlen
  intro p hp
  exact hdel p hp (hfit p.1 (List.of_mem_zip hp).1)

theorem segments_frames (ms : List Bytes) (hms : ∀ m ∈ ms, ∀ b ∈ m, (b == NL) = false) :
    segments (ms.map frame).flatten = (ms, []) := by
  induction ms with
  | nil => simp [segments]
  | cons m ms ih =>
    have ih' := ih (fun x hx => hms x (by simp [hx]))
    have hm := hms m (by simp)
    simp only [List.map_cons, List.flatten_cons, frame, List.append_assoc]
    clear ih hms
    induction m with
    | nil => simp [segments, ih']
    | cons b bs ihb =>
      have hb : (b == NL) = false := hm b (by simp)
      have := ihb (fun x hx => hm x (by simp [hx]))
      simp only [List.cons_append, segments, hb]
      simp only [List.singleton_append] at this
      simp [this]

/-- **Framing round trip**: frame any newline-free messages that respect the limit, concatenate,
cut the bytes anywhere: exactly those messages come back, in order. -/
theorem frame_roundtrip (max : Nat) (ms : List Bytes) (chunks : List Bytes)
    (hnl : ∀ m ∈ ms, ∀ b ∈ m, (b == NL) = false)
    (hfit : ∀ m ∈ ms, fits max m.length = true)
    (hchunks : chunks.flatten = (ms.map frame).flatten) :
    run max [] false chunks = ms.map Out.msg := by
  have hs := segments_frames ms hnl
  rw [← hchunks] at hs
  have := chunking_independent max chunks (by rw [hs]; exact hfit) (by rw [hs]; simp [fits])
  rw [this, hs]

/-- limit 0 means unlimited: a `MemoryError` is never produced -/
theorem unlimited (chunks : List Bytes) : Out.memErr ∉ run 0 [] false chunks := by
  have := chunking_independent 0 chunks (by intro s _; simp [fits]) (by simp [fits])
  rw [this]; simp

/-- No splitting / merging / truncation: every delivered message is literally one of the
stream's segments. -/
theorem delivered_is_segment (max : Nat) (chunks : List Bytes) (m : Bytes)
    (h : Out.msg m ∈ run max [] false chunks) : m ∈ (segments chunks.flatten).1 := by
  obtain ⟨rs, k, _, hout, _, _, _⟩ := framing_spec max chunks
  rw [hout] at h
  rcases List.mem_append.1 h with h | h
  · exact msg_mem_render m _ _ h
  · simp at h

theorem fits_nil (max : Nat) : fits max ([] : Bytes).length = true := by simp [fits]

theorem procPart_bound (max : Nat) (part : Bytes) : ∀ (acc : Bytes) (sync : Bool),
    fits max acc.length = true →
    fits max (procPart max acc sync part).2.1.length = true ∧
    ∀ m, Out.msg m ∈ (procPart max acc sync part).1 → max = 0 ∨ m.length ≤ max + part.length := by
  induction hn : part.length using Nat.strongRecOn generalizing part with
  | _ n ih =>
    intro acc sync hacc
    subst hn
    unfold procPart
    split
    · rename_i pre hs
      simp only
      split
      · rename_i hf; exact ⟨hf, by simp⟩
      · exact ⟨fits_nil max, by simp⟩
    · rename_i pre residual hs
      have ⟨hp, _⟩ := splitNL_some _ _ _ hs
      have hlen : part.length = pre.length + 1 + residual.length := by
        rw [hp]; simp; omega
      have hm0 : ∀ m, Out.msg m ∈ (if sync = true then [] else [Out.msg (acc ++ pre)]) →
          max = 0 ∨ m.length ≤ max + part.length := by
        intro m hm
        split at hm
        · simp at hm
        · simp at hm; subst hm
          unfold fits at hacc
          simp at hacc ⊢
          omega
      by_cases hr : residual.isEmpty
      · simp only [hr, ↓reduceIte]
        exact ⟨fits_nil max, hm0⟩
      · simp only [hr]
        have := ih residual.length (by omega) residual rfl [] false (fits_nil max)
        refine ⟨this.1, ?_⟩
        intro m hm
        simp only [Bool.false_eq_true, ↓reduceIte, List.mem_append] at hm
        rcases hm with hm | hm
        · exact hm0 m hm
        · rcases this.2 m hm with h | h
          · exact Or.inl h
          · right; omega

/-- `runChunks` is `run` with the outputs grouped per chunk: the groups are labelled with the
    chunks, in order, and concatenating the groups gives the reader's output -/
theorem runChunks_spec (max : Nat) : ∀ (chunks : List Bytes) (acc : Bytes) (sync : Bool),
    (runChunks max acc sync chunks).map Prod.fst = chunks ∧
    (runChunks max acc sync chunks).flatMap Prod.snd = run max acc sync chunks
  | [], _, _ => by simp [runChunks, run]
  | c :: cs, acc, sync => by
    have ih := runChunks_spec max cs (procPart max acc sync c).2.1 (procPart max acc sync c).2.2
    simp only [runChunks, run, List.map_cons, List.flatMap_cons, ih.1, ih.2, and_self]

def isMsg : Out → Bool
  | .msg _ => true
  | .memErr => false

/-- processing one part delivers at most as many messages as the part has newlines -/
theorem procPart_msgs_le_newlines (max : Nat) (part : Bytes) : ∀ (acc : Bytes) (sync : Bool),
    ((procPart max acc sync part).1.filter isMsg).length ≤ part.count NL := by
  induction hn : part.length using Nat.strongRecOn generalizing part with
  | _ n ih =>
    intro acc sync
    subst hn
    unfold procPart
    split
    · simp only
      split <;> simp [isMsg]
    · rename_i pre residual hs
      have ⟨hp, _⟩ := splitNL_some _ _ _ hs
      have hlen : residual.length < part.length := splitNL_some_length _ _ _ hs
      have hc : part.count NL = pre.count NL + (1 + residual.count NL) := by
        rw [hp, List.count_append, List.count_cons]; simp; omega
      have ho : ((if sync = true then [] else [Out.msg (acc ++ pre)]).filter isMsg).length ≤ 1 := by
        cases sync <;> simp [List.filter_cons, isMsg]
      by_cases hr : residual.isEmpty
      · simp only [hr, ↓reduceIte]; omega
      · simp only [hr]
        have := ih residual.length hlen residual rfl [] false
        simp only [Bool.false_eq_true, ↓reduceIte, List.filter_append, List.length_append]
        omega

theorem runChunks_bound (max : Nat) : ∀ (chunks : List Bytes) (acc : Bytes) (sync : Bool),
    fits max acc.length = true →
    ∀ p ∈ runChunks max acc sync chunks,
      (∀ m, Out.msg m ∈ p.2 → max = 0 ∨ m.length ≤ max + p.1.length) ∧
      (p.2.filter isMsg).length ≤ p.1.count NL
  | [], _, _, _, p, h => by simp [runChunks] at h
  | c :: cs, acc, sync, hacc, p, h => by
    simp only [runChunks, List.mem_cons] at h
    have hp := procPart_bound max c acc sync hacc
    rcases h with rfl | h
    · exact ⟨hp.2, procPart_msgs_le_newlines max c acc sync⟩
    · exact runChunks_bound max cs _ _ hp.1 p h

/-- **delivered_bound**: a delivered message never exceeds the limit by more than *its final
    chunk*: `receive_message()` returns a message only while it processes the chunk that carried
    the message's newline (`runChunks` groups the outputs by that chunk; a chunk gives rise to at
    most as many messages as it has newlines), and the message is at most `max` plus the length
    of that very chunk long. -/
theorem delivered_bound (max : Nat) (chunks : List Bytes) :
    (runChunks max [] false chunks).map Prod.fst = chunks ∧
    (runChunks max [] false chunks).flatMap Prod.snd = run max [] false chunks ∧
    ∀ p ∈ runChunks max [] false chunks,
      (∀ m, Out.msg m ∈ p.2 → max = 0 ∨ m.length ≤ max + p.1.length) ∧
      (p.2.filter isMsg).length ≤ p.1.count NL :=
  ⟨(runChunks_spec max chunks [] false).1, (runChunks_spec max chunks [] false).2,
   runChunks_bound max chunks [] false (fits_nil max)⟩

/-- the weaker form (some chunk of the stream), kept as a corollary -/
theorem delivered_bound_any (max : Nat) (chunks : List Bytes) (m : Bytes)
    (h : Out.msg m ∈ run max [] false chunks) :
    max = 0 ∨ ∃ c ∈ chunks, m.length ≤ max + c.length := by
  obtain ⟨h1, h2, h3⟩ := delivered_bound max chunks
  rw [← h2, List.mem_flatMap] at h
  obtain ⟨p, hp, hm⟩ := h
  rcases (h3 p hp).1 m hm with h0 | hb
  · exact Or.inl h0
  · refine Or.inr ⟨p.1, ?_, hb⟩
    rw [← h1]
    exact List.mem_map_of_mem hp

/-- non-vacuity: limit 3; the 2-byte message is delivered while its final chunk (6 bytes) is
    processed; the over-long message that arrives in one chunk is delivered too (7 ≤ 3 + 8) -/
example : runChunks 3 [] false [[97], [98, 10, 1, 2, 3], [4, 5, 6, 7, 10, 9, 9, 10]] =
    [([97], []), ([98, 10, 1, 2, 3], [.msg [97, 98]]),
     ([4, 5, 6, 7, 10, 9, 9, 10], [.msg [1, 2, 3, 4, 5, 6, 7], .msg [9, 9]])] := by
  simp [runChunks, procPart, splitNL, NL, fits]

/-! ## Outside the property: a reader cancelled while it waits

The text quantifies over chunkings, limits and interleavings of arrival with the reader's calls;
it does not speak about a `receive_message()` call that is *cancelled* while waiting.  `parts`
is local to the call, so the bytes it had buffered are forgotten and the next call returns only
the rest of that segment.  Recorded as an assumption (props/C06.json); the three statements
below document the behaviour, they are not part of the property. -/

/-- without cancellation `runEv` is `run` -/
theorem cancel_free (max : Nat) : ∀ (chunks : List Bytes) (acc : Bytes) (sync : Bool),
    runEv max acc sync (chunks.map Ev.chunk) = run max acc sync chunks
  | [], _, _ => by simp [runEv, run]
  | c :: cs, acc, sync => by
    simp only [List.map_cons, runEv, run, cancel_free max cs]

/-- the effect of a cancellation is exactly: the bytes buffered by the cancelled call are
    forgotten, the `synchronizing` flag is kept -/
theorem cancel_forgets_buffer (max : Nat) : ∀ (cs : List Bytes) (acc : Bytes) (sync : Bool)
    (es : List Ev),
    runEv max acc sync (cs.map Ev.chunk ++ Ev.cancel :: es) =
      run max acc sync cs ++ runEv max [] (stateAfter max acc sync cs).2 es
  | [], _, _, _ => by simp [runEv, run, stateAfter]
  | c :: cs, acc, sync, es => by
    simp only [List.map_cons, List.cons_append, runEv, run, stateAfter,
      cancel_forgets_buffer max cs, List.append_assoc]

/-- the full-strength statement with cancellation allowed ... -/
def delivered_is_segment_cancel_full : Prop :=
  ∀ (max : Nat) (cs : List Bytes) (es : List Bytes) (m : Bytes),
    Out.msg m ∈ runEv max [] false (cs.map Ev.chunk ++ Ev.cancel :: es.map Ev.chunk) →
    m ∈ (segments (cs ++ es).flatten).1

/-- ... fails: `ab` buffered, call cancelled, `c\n` arrives: `c` is delivered, the segment was
    `abc` -/
theorem cancel_truncates :
    runEv 0 [] false [.chunk [97, 98], .cancel, .chunk [99, 10]] = [.msg [99]] ∧
    ¬ delivered_is_segment_cancel_full := by
  have w : runEv 0 [] false [.chunk [97, 98], .cancel, .chunk [99, 10]] = [.msg [99]] := by
    simp [runEv, procPart, splitNL, NL, fits]
  refine ⟨w, ?_⟩
  intro h
  have := h 0 [[97, 98]] [[99, 10]] [99] (by
    simp only [List.map_cons, List.map_nil, List.cons_append, List.nil_append]
    rw [w]; simp)
  revert this
  decide

/-! ## Facts: what the real `NewlineFramer` did on small grids (regenerated from /repo on every
    run by `tools/facts/c06.py`, which only *runs* the public API), reproduced by the model -/

/-- decoding of an outcome in the generated tables -/
def outOf : Option (List UInt8) → Out
  | some m => .msg m
  | none => .memErr

/-- what `frame` appends is the model's newline, for every message; and the sampled calls of the
    real `frame` (newline / NUL inside, empty) are the model's -/
theorem facts_frame : (∀ m : Bytes, m ++ Facts.C06.frameSuffix = frame m) ∧
    ∀ r ∈ Facts.C06.frameTable, frame r.1 = r.2 := by
  refine ⟨fun m => rfl, by decide⟩

/-- which of the 256 byte values ends a message: the one-byte chunks `a`, b, `c`, newline were
    fed to the real framer for every b; the model gives the same outcomes, and `a` came out on
    its own exactly for b = newline -/
theorem facts_separator : Facts.C06.terminators = [NL] ∧
    ∀ r ∈ Facts.C06.sepTable, run 0 [] false [[97], [r.1], [99], [NL]] = r.2.map outOf := by
  refine ⟨by decide, ?_⟩
  intro r hr
  rw [run_eq_trun]
  revert r
  decide +kernel

/-- the size test of the real framer on the grid (limits 0..3 × 0..5 buffered bytes × newline in
    its own chunk / in the same chunk / behind a residual / followed by the next segment /
    tail of a dropped segment) is the model's -/
theorem facts_limit :
    ∀ r ∈ Facts.C06.limitTable, run r.1 [] false r.2.1 = r.2.2.map outOf := by
  intro r hr
  rw [run_eq_trun]
  revert r
  decide +kernel

/-! ### Megabyte segments: the model on chunks of `a`s, computed on lengths only -/

/-- a chunk of `p.1` bytes `a`, followed by a newline if `p.2` -/
def aChunk (p : Nat × Bool) : Bytes := List.replicate p.1 97 ++ (if p.2 then [NL] else [])

/-- what a delivered message / a MemoryError looks like when only lengths are recorded -/
def shape : Out → Option Nat
  | .msg m => some m.length
  | .memErr => none

/-- the reader on such chunks, on lengths only -/
def runLen (max : Nat) : Nat → Bool → List (Nat × Bool) → List (Option Nat)
  | _, _, [] => []
  | acc, sync, (n, false) :: cs =>
      if fits max (acc + n) then runLen max (acc + n) sync cs else none :: runLen max 0 true cs
  | acc, sync, (n, true) :: cs =>
      (if sync then [] else [some (acc + n)]) ++ runLen max 0 false cs

theorem replicate_a_noNL (n : Nat) : ∀ b ∈ List.replicate n (97 : UInt8), (b == NL) = false := by
  intro b hb
  rw [List.eq_of_mem_replicate hb]
  decide

theorem procPart_aChunk_false (max : Nat) (acc : Bytes) (sync : Bool) (n : Nat) :
    procPart max acc sync (aChunk (n, false)) =
      if fits max (acc.length + n) then ([], acc ++ List.replicate n 97, sync)
      else ([Out.memErr], [], true) := by
  rw [procPart_eq_trun]
  simp only [aChunk, Bool.false_eq_true, ↓reduceIte, List.append_nil, trun_append,
    trun_bytes_noNL max acc sync _ (replicate_a_noNL n), trun, tstep, List.length_append,
    List.length_replicate]
  split <;> simp

theorem procPart_aChunk_true (max : Nat) (acc : Bytes) (sync : Bool) (n : Nat) :
    procPart max acc sync (aChunk (n, true)) =
      (if sync then [] else [Out.msg (acc ++ List.replicate n 97)], [], false) := by
  rw [procPart_eq_trun]
  simp only [aChunk, ↓reduceIte, List.map_append, List.map_cons, List.map_nil, List.append_assoc,
    trun_append, trun_bytes_noNL max acc sync _ (replicate_a_noNL n), trun, tstep]
  simp [NL, fits]

/-- **the model on chunks of `a`s only depends on the lengths** (any sizes: no evaluation on
    megabytes of data is needed to know what the model says) -/
theorem run_aChunks (max : Nat) : ∀ (cs : List (Nat × Bool)) (acc : Bytes) (sync : Bool),
    (run max acc sync (cs.map aChunk)).map shape = runLen max acc.length sync cs
  | [], _, _ => by simp [run, runLen]
  | (n, false) :: cs, acc, sync => by
    simp only [List.map_cons, run, procPart_aChunk_false, runLen]
    split
    · have := run_aChunks max cs (acc ++ List.replicate n 97) sync
      simp only [List.length_append, List.length_replicate] at this
      simpa using this
    · simpa [shape] using run_aChunks max cs [] true
  | (n, true) :: cs, acc, sync => by
    simp only [List.map_cons, run, procPart_aChunk_true, runLen, List.map_append]
    have := run_aChunks max cs [] false
    simp only [List.length_nil] at this
    rw [this]
    cases sync <;> simp [shape]

/-- **megabyte segments on the real framer** (limit 0 = unlimited, one million, and the default of
    `NewlineFramer()`; segments of 999 999, 1 000 000, 1 000 001 and 2 500 000 bytes in two or
    more chunks, the newline in its own chunk or in the final one, followed by a short segment):
    lengths delivered / MemoryErrors are the model's.  Limit 0 never drops (`unlimited`). -/
theorem facts_big :
    ∀ r ∈ Facts.C06.bigTable,
      (run r.1 [] false (r.2.1.map aChunk)).map shape = r.2.2 := by
  intro r hr
  rw [run_aChunks]
  revert r
  decide +kernel

-- Non-vacuity: concrete, non-trivial instances of the hypotheses / conclusions.
example : run 5 [] false [[97,98,10,99], [100,10], [1,2,3,4,5,6], [7,10,8,10]]
    = [.msg [97,98], .msg [99,100], .memErr, .msg [8]] := by rw [run_eq_trun]; decide
example : segments [97,98,10,99,100,10,1,2,3,4,5,6,7,10,8,10]
    = ([[97,98],[99,100],[1,2,3,4,5,6,7],[8]], []) := by decide
example : run 3 [] false [[1,2],[3,4],[5,6,7,8],[9],[10,42,10]] =
    [.memErr, .memErr, .msg [42]] := by rw [run_eq_trun]; decide

end Aiorpcx.C06
