import Aiorpcx.C06.Model
namespace Aiorpcx.C06

theorem trun_append (max : Nat) (st : Bytes × Bool) (a b : List Tok) :
    trun max st (a ++ b) =
      ((trun max st a).1 ++ (trun max (trun max st a).2 b).1, (trun max (trun max st a).2 b).2) := by
  induction a generalizing st with
  | nil => simp [trun]
  | cons t ts ih => simp [trun, ih, List.append_assoc]

/-- splitNL characterisation -/
theorem splitNL_none (p pre : Bytes) (h : splitNL p = (pre, none)) :
    p = pre ∧ ∀ b ∈ p, (b == NL) = false := by
  induction p generalizing pre with
  | nil => simp [splitNL] at h; simp [h]
  | cons b bs ih =>
    unfold splitNL at h
    split at h
    · simp at h
    · rename_i hb
      simp only [Prod.mk.injEq] at h
      have := ih (splitNL bs).1 (by rw [← h.2])
      refine ⟨by rw [← h.1, ← this.1], ?_⟩
      intro x hx
      simp at hx
      rcases hx with rfl | hx
      · simpa using hb
      · exact this.2 x hx

theorem splitNL_some (p pre r : Bytes) (h : splitNL p = (pre, some r)) :
    p = pre ++ NL :: r ∧ ∀ b ∈ pre, (b == NL) = false := by
  induction p generalizing pre with
  | nil => simp [splitNL] at h
  | cons b bs ih =>
    unfold splitNL at h
    split at h
    · rename_i hb
      simp at h
      have : b = NL := by simpa using hb
      obtain ⟨rfl, rfl⟩ := h
      simp [this]
    · rename_i hb
      simp only [Prod.mk.injEq] at h
      have := ih (splitNL bs).1 (by rw [← h.2])
      refine ⟨?_, ?_⟩
      · rw [← h.1]; simp; exact this.1
      · intro x hx
        rw [← h.1] at hx
        simp at hx
        rcases hx with rfl | hx
        · simpa using hb
        · exact this.2 x hx

theorem trun_bytes_noNL (max : Nat) (acc : Bytes) (sync : Bool) (pre : Bytes)
    (h : ∀ b ∈ pre, (b == NL) = false) :
    trun max (acc, sync) (pre.map Tok.byte) = ([], (acc ++ pre, sync)) := by
  induction pre generalizing acc with
  | nil => simp [trun]
  | cons b bs ih =>
    have hb : (b == NL) = false := h b (by simp)
    have := ih (acc ++ [b]) (fun x hx => h x (by simp [hx]))
    simp [trun, tstep, hb, this]

theorem procPart_eq_trun (max : Nat) (part : Bytes) : ∀ (acc : Bytes) (sync : Bool),
    procPart max acc sync part =
      let r := trun max (acc, sync) (part.map Tok.byte ++ [Tok.cut])
      (r.1, r.2.1, r.2.2) := by
  induction hn : part.length using Nat.strongRecOn generalizing part with
  | _ n ih =>
    intro acc sync
    unfold procPart
    split
    · rename_i pre hs
      have ⟨hp, hno⟩ := splitNL_none _ _ hs
      subst hp
      simp only [trun_append, trun_bytes_noNL max acc sync part hno]
      simp only [trun, tstep]
      split <;> simp
    · rename_i pre residual hs
      have ⟨hp, hno⟩ := splitNL_some _ _ _ hs
      have hlen := splitNL_some_length _ _ _ hs
      subst hp
      simp only [List.map_append, List.map_cons, List.append_assoc, List.cons_append, trun_append,
        trun_bytes_noNL max acc sync pre hno]
      simp only [trun, tstep]
      by_cases hr : residual.isEmpty
      · have : residual = [] := by simpa using hr
        subst this
        simp [trun, tstep, fits, NL]
      · simp only [hr]
        have := ih residual.length (by omega) residual rfl [] false
        simp only [this]
        simp [NL, trun_append]

theorem run_eq_trun (max : Nat) (chunks : List Bytes) : ∀ (acc : Bytes) (sync : Bool),
    run max acc sync chunks = (trun max (acc, sync) (toks chunks)).1 := by
  induction chunks with
  | nil => intro acc sync; simp [run, toks, trun]
  | cons c cs ih =>
    intro acc sync
    simp only [run, procPart_eq_trun, ih]
    simp [toks, trun_append, trun]

end Aiorpcx.C06
