/-! C06 — model of `NewlineFramer` (aiorpcx/framing.py). No Mathlib imports: the driver links this. -/
namespace Aiorpcx.C06

abbrev Bytes := List UInt8
def NL : UInt8 := 10

inductive Out where
  | msg (b : Bytes)
  | memErr
  deriving Repr, DecidableEq

/-- ok to keep accumulating -/
def fits (max n : Nat) : Bool := n ≤ max || max == 0

/-- split at first newline: (bytes before it, bytes after it if there is one) -/
def splitNL : Bytes → Bytes × Option Bytes
  | [] => ([], none)
  | b :: bs =>
      if b == NL then ([], some bs)
      else let r := splitNL bs; (b :: r.1, r.2)

theorem splitNL_some_length : ∀ (p pre r : Bytes), splitNL p = (pre, some r) → r.length < p.length
  | [], pre, r, h => by simp [splitNL] at h
  | b :: bs, pre, r, h => by
      unfold splitNL at h
      split at h
      · simp at h; simp [← h.2]
      · simp only [Prod.mk.injEq] at h
        have := splitNL_some_length bs (splitNL bs).1 r (by rw [← h.2])
        simp; omega

/-- chunk-level model mirroring `NewlineFramer.receive_message`:
    process one "part" (residual or chunk), given call-local accumulator and sync flag -/
def procPart (max : Nat) (acc : Bytes) (sync : Bool) (part : Bytes) : List Out × Bytes × Bool :=
  match h : splitNL part with
  | (pre, none) =>
      let acc' := acc ++ pre
      if fits max acc'.length then ([], acc', sync) else ([Out.memErr], [], true)
  | (pre, some residual) =>
      let o : List Out := if sync then [] else [Out.msg (acc ++ pre)]
      if residual.isEmpty then (o, [], false)
      else
        let r := procPart max [] false residual
        (o ++ r.1, r.2.1, r.2.2)
termination_by part.length
decreasing_by exact splitNL_some_length _ _ _ h

def run (max : Nat) : Bytes → Bool → List Bytes → List Out
  | _, _, [] => []
  | acc, sync, c :: cs =>
      let r := procPart max acc sync c
      r.1 ++ run max r.2.1 r.2.2 cs

/-- the same reader, with its outputs grouped by the chunk during whose processing they were
    produced (`receive_message()` returns a message while it is working on the chunk - or on the
    residual of the chunk - that carried the message's newline) -/
def runChunks (max : Nat) : Bytes → Bool → List Bytes → List (Bytes × List Out)
  | _, _, [] => []
  | acc, sync, c :: cs =>
      let r := procPart max acc sync c
      (c, r.1) :: runChunks max r.2.1 r.2.2 cs

/-- what can happen to the reader between two chunks: nothing, or the pending
    `receive_message()` call is cancelled while it waits for data and a new call is made.
    (Outside the property as stated - the text does not speak about cancellation; modelled only
    to document what the code does, see `cancel_*` in Props.lean.) -/
inductive Ev where
  | chunk (c : Bytes)
  | cancel
  deriving Repr, DecidableEq

/-- `parts` / `buffer_size` are locals of `receive_message`: a cancelled call forgets them;
    `synchronizing` (and `residual`, empty while the call waits) live on the framer -/
def runEv (max : Nat) : Bytes → Bool → List Ev → List Out
  | _, _, [] => []
  | acc, sync, .chunk c :: es =>
      let r := procPart max acc sync c
      r.1 ++ runEv max r.2.1 r.2.2 es
  | _, sync, .cancel :: es => runEv max [] sync es

/-- state `(parts joined, synchronizing)` of the waiting reader after the chunks `cs` -/
def stateAfter (max : Nat) : Bytes → Bool → List Bytes → Bytes × Bool
  | acc, sync, [] => (acc, sync)
  | acc, sync, c :: cs =>
      let r := procPart max acc sync c
      stateAfter max r.2.1 r.2.2 cs

inductive Tok where
  | byte (b : UInt8)   -- includes newline
  | cut
  deriving Repr, DecidableEq

def tstep (max : Nat) (st : Bytes × Bool) : Tok → List Out × (Bytes × Bool)
  | .byte b =>
      if b == NL then
        (if st.2 then [] else [Out.msg st.1], ([], false))
      else ([], (st.1 ++ [b], st.2))
  | .cut =>
      if fits max st.1.length then ([], st) else ([Out.memErr], ([], true))

def trun (max : Nat) : (Bytes × Bool) → List Tok → List Out × (Bytes × Bool)
  | st, [] => ([], st)
  | st, t :: ts =>
      let r := tstep max st t
      let r2 := trun max r.2 ts
      (r.1 ++ r2.1, r2.2)

def toks (chunks : List Bytes) : List Tok :=
  chunks.flatMap (fun c => c.map Tok.byte ++ [Tok.cut])

/-- `NewlineFramer.frame` -/
def frame (m : Bytes) : Bytes := m ++ [NL]

/-- the bytes carried by a token list (cuts erased, newlines kept) -/
def bytesOf : List Tok → Bytes
  | [] => []
  | .byte b :: ts => b :: bytesOf ts
  | .cut :: ts => bytesOf ts

/-- SPEC side: the newline-terminated segments of a byte stream, and the unterminated rest. -/
def segments : Bytes → List Bytes × Bytes
  | [] => ([], [])
  | b :: bs =>
      let r := segments bs
      if b == NL then ([] :: r.1, r.2)
      else match r.1 with
        | [] => ([], b :: r.2)
        | s :: ss => ((b :: s) :: ss, r.2)

end Aiorpcx.C06
