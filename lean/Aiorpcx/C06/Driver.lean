import Aiorpcx.Common.Hex
import Aiorpcx.C06.Model
/-! Line-protocol driver for the C06 model.
    in : `<max> <chunk> <chunk> ...`   (chunks in hex, `-` = empty chunk; a chunk may also be
         written as parts joined by `+`, a part being hex or `<hex>*<count>` = hex repeated,
         e.g. `78+61*999998+0a`, so that megabyte chunks stay short on the line)
    out: `M<hex>` / `E` tokens, space separated (`.` when there is no output) -/
open Aiorpcx Aiorpcx.C06

def showOut : Out → String
  | .msg b => "M" ++ Hex.showBytes b
  | .memErr => "E"

def parsePart (p : String) : Option (List UInt8) :=
  match p.splitOn "*" with
  | [h] => Hex.parseBytes h
  | [h, n] =>
    match Hex.parseBytes h, n.toNat? with
    | some b, some k => some (List.replicate k b).flatten
    | _, _ => none
  | _ => none

def parseChunk (c : String) : Option (List UInt8) :=
  if c == "-" then some [] else
  ((c.splitOn "+").mapM parsePart).map List.flatten

def handle (line : String) : String :=
  match line.splitOn " " with
  | mx :: chunks =>
    match mx.toNat?, (chunks.filter (· ≠ "")).mapM parseChunk with
    | some m, some cs =>
        let outs := run m [] false cs
        if outs.isEmpty then "." else String.intercalate " " (outs.map showOut)
    | _, _ => "bad-op"
  | _ => "bad-op"

def main : IO Unit := Hex.lineLoop handle
