import Aiorpcx.Common.Hex
import Aiorpcx.C06.Model
/-! Line-protocol driver for the C06 model.
    in : `<max> <chunk> <chunk> ...`   (chunks in hex, `-` = empty chunk)
    out: `M<hex>` / `E` tokens, space separated (`.` when there is no output) -/
open Aiorpcx Aiorpcx.C06

def showOut : Out → String
  | .msg b => "M" ++ Hex.showBytes b
  | .memErr => "E"

def handle (line : String) : String :=
  match line.splitOn " " with
  | mx :: chunks =>
    match mx.toNat?, (chunks.filter (· ≠ "")).mapM Hex.parseBytes with
    | some m, some cs =>
        let outs := run m [] false cs
        if outs.isEmpty then "." else String.intercalate " " (outs.map showOut)
    | _, _ => "bad-op"
  | _ => "bad-op"

def main : IO Unit := Hex.lineLoop handle
