import Aiorpcx.C09.JInv
/-! "On stopping, all members still running are cancelled": in the reaction in which the joiner
enters the clean-up of `join()`, every member present receives a cancellation (nobody is left
in status `run`).  Holds with or without competing `next_done` callers. -/
namespace Aiorpcx.C09

/-- member `i` exists and is not (any longer) plainly running: it has received a cancellation
or has finished -/
def NoRun (g : G) (i : Nat) : Prop := ∃ m ∈ g.mem, m.id = i ∧ m.status ≠ .run

theorem noRun_of_memLe {g g' : G} {i : Nat} (h : NoRun g i) (hm : MemLe g.mem g'.mem) :
    NoRun g' i := by
  obtain ⟨m, hmm, hid, hs⟩ := h
  obtain ⟨m', hm', e, _, r⟩ := hm m hmm
  refine ⟨m', hm', by rw [e, hid], ?_⟩
  intro hrun
  rw [hrun] at r
  cases hst : m.status with
  | run => exact hs hst
  | canc => rw [hst] at r; simp [rank] at r
  | done => rw [hst] at r; simp [rank] at r

theorem exists_of_memLe {ms ms' : List Mem} (hm : MemLe ms ms') {i : Nat}
    (h : ∃ m ∈ ms, m.id = i) : ∃ m ∈ ms', m.id = i := by
  obtain ⟨m, hmm, hid⟩ := h
  obtain ⟨m', hm', e, _, _⟩ := hm m hmm
  exact ⟨m', hm', by rw [e, hid]⟩

theorem deliverCancel_noRun (g : G) (i : Nat) (ht : TInv g.core) (hex : ∃ m ∈ g.mem, m.id = i) :
    NoRun (g.deliverCancel i).1 i := by
  obtain ⟨m0, hm0, hid0⟩ := hex
  have hf0 : g.find i = some m0 := by rw [← hid0]; exact find_of_mem ht.nodup hm0
  have hle := (tstep_deliverCancel g i).memLe ht
  unfold G.deliverCancel at hle ⊢
  rw [hf0] at hle ⊢
  simp only [] at hle ⊢
  cases hs : m0.status with
  | done => exact ⟨m0, hm0, hid0, by rw [hs]; simp⟩
  | canc =>
    rw [hs] at hle
    exact noRun_of_memLe ⟨m0, hm0, hid0, by rw [hs]; simp⟩ hle
  | run =>
    simp only []
    have h1 : TStep g.core (g.setMem i fun m => { m with status := .canc }).core :=
      TStep.canc g.core i m0 hm0 hid0 hs
    have ht1 := h1.preserves ht
    have hn1 : NoRun (g.setMem i fun m => { m with status := .canc }) i := by
      refine ⟨_, List.mem_map_of_mem (f := fun m => if m.id == i then { m with status := .canc } else m) hm0, ?_⟩
      simp [hid0]
    have h2 := tstep_addChildren (g.setMem i fun m => { m with status := .canc }) m0.children
    generalize (g.setMem i fun m => { m with status := .canc }).addChildren m0.children = r at h2 ⊢
    obtain ⟨g2, refused⟩ := r
    have hn2 : NoRun g2 i := noRun_of_memLe hn1 (h2.memLe ht1)
    cases refused with
    | nil => exact hn2
    | cons c cs =>
      exact noRun_of_memLe hn2 ((tstep_finishMem g2 i .exc).memLe (h2.preserves ht1))

theorem deliverCancels_noRun (g : G) (l : List Nat) (ht : TInv g.core) :
    ∀ i ∈ l, (∃ m ∈ g.mem, m.id = i) → NoRun (g.deliverCancels l).1 i := by
  induction l generalizing g with
  | nil => intro i hi; simp at hi
  | cons x xs ih =>
    intro i hi hex
    rw [deliverCancels_cons]
    simp only []
    have ht1 := (tstep_deliverCancel g x).preserves ht
    simp only [List.mem_cons] at hi
    by_cases hix : i = x
    · subst hix
      exact noRun_of_memLe (deliverCancel_noRun g i ht hex)
        ((tstep_deliverCancels _ xs).memLe ht1)
    · have hi' : i ∈ xs := by rcases hi with h | h; exact absurd h hix; exact h
      exact ih _ ht1 i hi' (exists_of_memLe ((tstep_deliverCancel g x).memLe ht) hex)

theorem mem_orderBy (perm snap : List Nat) (x : Nat) (hx : x ∈ snap) : x ∈ orderBy perm snap := by
  simp only [orderBy, List.mem_append, List.mem_filter, List.contains_eq_mem,
    decide_eq_true_eq, Bool.not_eq_true', decide_eq_false_iff_not]
  by_cases hp : x ∈ perm
  · exact Or.inl ⟨hp, hx⟩
  · exact Or.inr ⟨hx, hp⟩

/-- one clean-up sweep reaches every member of the group -/
theorem finSweep_noRun (g : G) (perm : List Nat) (hc : CInv g.core) (ht : TInv g.core) :
    ∀ m ∈ g.mem, NoRun (g.deliverCancels (orderBy perm g.rem)).1 m.id := by
  intro m hm
  by_cases hd : m.status = .done
  · exact noRun_of_memLe ⟨m, hm, rfl, by rw [hd]; simp⟩ ((tstep_deliverCancels g _).memLe ht)
  · have hcov := hc.covered m hm hd
    have hf : g.find m.id = some m := find_of_mem ht.nodup hm
    have hrem : m.id ∈ g.rem := by
      simp only [G.rem, G.unfinished, List.mem_filter, List.mem_append, List.contains_eq_mem,
        Bool.not_eq_true', decide_eq_false_iff_not]
      refine ⟨?_, ?_⟩
      · by_cases hp : m.id ∈ g.pending
        · exact Or.inl hp
        · rcases hcov with h | h
          · exact absurd h hp
          · exact Or.inr ⟨h, hp⟩
      · simp [G.isDone, G.statusOf, hf, hd]
    exact deliverCancels_noRun g _ ht m.id (mem_orderBy perm _ _ hrem) ⟨m, hm, rfl⟩

/-- where the joiner may be when the run starts: in `cancel_remaining()`, in the `next_done`
loop, just arrived in the clean-up - or gone by the abandoned exit of F11 -/
def PreFin (j : Joiner) : Prop :=
  j.phase = .next ∨ j.phase = .cancelrem ∨ (j.phase = .fin ∧ j.snapshot = none) ∨
    (j.phase = .exited ∧ j.abandoned = true)

theorem cleanup_run (perm : List Nat) : ∀ (fuel : Nat) (g : G), g.fixed = true → CInv g.core →
    TInv g.core → JInv g → NoOOF (g.runJoiner perm fuel).2 →
    ∀ j, g.joiner = some j → PreFin j →
    ∀ j', (g.runJoiner perm fuel).1.joiner = some j' → (j'.phase = .fin ∨ j'.phase = .exited) →
      j'.abandoned = false →
    ∀ m ∈ g.mem, NoRun (g.runJoiner perm fuel).1 m.id
  | 0, g, _, _, _, _, hno => by simp [G.runJoiner, NoOOF] at hno
  | fuel + 1, g, hfix, hc, ht, hji, hno => by
    intro j hj hpre j' hj' hph hab m hm
    unfold G.runJoiner at hno hj' ⊢
    cases hs : g.joinerStep perm with
    | none =>
      simp only [hs] at hj' ⊢
      rw [hj] at hj'; simp only [Option.some.injEq] at hj'; subst hj'
      have hq := (joinerStep_none_iff g perm hfix).1 hs
      simp only [G.Quiescent, hj] at hq
      exfalso
      rcases hpre with h | h | h | h
      · rcases hph with h' | h' <;> rw [h] at h' <;> cases h'
      · rcases hph with h' | h' <;> rw [h] at h' <;> cases h'
      · rcases hq with hb | hx | ⟨_, snap, hsn, _⟩
        · have := (hji.blockedNext j hj hb).1; rw [h.1] at this; cases this
        · rw [h.1] at hx; cases hx
        · rw [h.2] at hsn; cases hsn
      · rw [h.2] at hab; cases hab
    | some r =>
      obtain ⟨g1, o1⟩ := r
      simp only [hs] at hno hj' ⊢
      obtain ⟨j0, hj0, hb, hstep⟩ := joinerStep_inv hfix hs
      rw [hj] at hj0; simp only [Option.some.injEq] at hj0; subst hj0
      have hts := tstep_jstep hstep
      have hfix1 : g1.fixed = true := by
        have := hts.fixed_eq; simp only [G.core] at this; rw [this, hfix]
      have hc1 : CInv g1.core := (step_joinerStep g perm hfix hc hs).preserves hc
      have ht1 : TInv g1.core := hts.preserves ht
      have hji1 : JInv g1 := jinv_jstep hj hb hji ht hstep
      have hno1 : NoOOF (g1.runJoiner perm fuel).2 := by
        simp only [NoOOF, List.mem_append, not_or] at hno ⊢; exact hno.2
      have hle1 : MemLe g.mem g1.mem := hts.memLe ht
      have hlef : MemLe g1.mem (g1.runJoiner perm fuel).1.mem :=
        (tstep_runJoiner perm fuel g1 hfix1).memLe ht1
      -- continue with the induction hypothesis from a state that is still before the first sweep
      have cont : ∀ j1, g1.joiner = some j1 → PreFin j1 →
          NoRun (g1.runJoiner perm fuel).1 m.id := by
        intro j1 hj1 hpre1
        obtain ⟨m1, hm1, e1, _, _⟩ := hle1 m hm
        have := cleanup_run perm fuel g1 hfix1 hc1 ht1 hji1 hno1 j1 hj1 hpre1 j' hj' hph hab m1 hm1
        rw [e1] at this; exact this
      cases hstep with
      | crSweep hp hsn => exact cont _ rfl (Or.inr (Or.inl hp))
      | crDone snap hp hsn _ => exact cont _ rfl (Or.inl rfl)
      | pop hp hperm =>
        have hsn := hji.nextSnap j hj hp
        cases hd : g.doneq with
        | nil =>
          rw [joinerPop_nil j hd] at cont ⊢
          exact cont _ rfl (Or.inr (Or.inr (Or.inl ⟨rfl, hsn⟩)))
        | cons t rest =>
          rw [joinerPop_cons j hd] at cont ⊢
          refine cont _ rfl ?_
          by_cases hst : g.stopAfter t rest = true
          · exact Or.inr (Or.inr (Or.inl ⟨by simp [hst], hsn⟩))
          · exact Or.inl (by simp [hst])
      | nowait hp hperm _ =>
        exact cont _ rfl (Or.inr (Or.inr (Or.inl ⟨rfl, hji.nextSnap j hj hp⟩)))
      | nothingLeft hp hperm _ _ _ =>
        exact cont _ rfl (Or.inr (Or.inr (Or.inl ⟨rfl, hji.nextSnap j hj hp⟩)))
      | park hp hperm _ _ _ => exact cont _ rfl (Or.inl hp)
      | acquire hp hperm _ _ _ _ => exact cont _ rfl (Or.inl hp)
      | finExit hp hsn hrem =>
        -- nobody unfinished is left
        have hall := allDone_of_rem_empty g hc (by simpa [G.rem, List.isEmpty_iff] using hrem)
        have : NoRun g m.id := ⟨m, hm, rfl, by rw [hall m hm]; simp⟩
        exact noRun_of_memLe (noRun_of_memLe this hle1) hlef
      | finSweep hp hsn hrem =>
        have := finSweep_noRun g perm hc ht m hm
        exact noRun_of_memLe (g := setJ (g.deliverCancels (orderBy perm g.rem)).1 _) this hlef
      | finClear snap hp hsn _ =>
        exfalso
        rcases hpre with h | h | h | h
        · rw [hp] at h; cases h
        · rw [hp] at h; cases h
        · rw [hsn] at h; cases h.2
        · rw [hp] at h; cases h.1

/-- the joiner's record right after an environment action, when it had not reached the
clean-up before -/
theorem apply_preFin (g : G) (a : Action) (h : JInv g)
    (hpre : ∀ j, g.joiner = some j → j.phase = .next ∨ j.phase = .cancelrem) :
    ∀ j1, (g.apply a).1.joiner = some j1 → PreFin j1 := by
  have ofRel : ∀ g', JRel g g' → ∀ j1, g'.joiner = some j1 → PreFin j1 := by
    intro g' hr j1 hj1
    rcases hr.2 with e | e
    · rw [e] at hj1
      rcases hpre j1 hj1 with hp | hp
      · exact Or.inl hp
      · exact Or.inr (Or.inl hp)
    · cases hgj : g.joiner with
      | none => rw [hgj] at e; rw [e] at hj1; simp at hj1
      | some j0 =>
        rw [hgj] at e; rw [e] at hj1
        simp only [Option.map_some, Option.some.injEq] at hj1
        subst hj1
        rcases hpre j0 hgj with hp | hp
        · exact Or.inl hp
        · exact Or.inr (Or.inl hp)
  unfold G.apply
  cases a with
  | spawn i d ch =>
    simp only []
    cases ha : g.add i d ch with
    | none => exact ofRel g (JRel.refl g)
    | some g' => exact ofRel g' (jrel_add ha)
  | finish i o p =>
    simp only []; split
    · exact ofRel _ (jrel_finishMem g i o)
    · exact ofRel g (JRel.refl g)
  | extCancel i p =>
    simp only []; split
    · exact ofRel _ (jrel_deliverCancel g i)
    · exact ofRel g (JRel.refl g)
  | finCancel i p =>
    simp only []; split
    · exact ofRel _ (jrel_finishMem g i _)
    · exact ofRel g (JRel.refl g)
  | join p =>
    simp only []; split
    · intro j1 hj1; simp only [setJ, Option.some.injEq] at hj1; subst hj1; exact Or.inl rfl
    · exact ofRel g (JRel.refl g)
  | ctxExit r p =>
    simp only []; split
    · intro j1 hj1; simp only [setJ, Option.some.injEq] at hj1; subst hj1
      cases r
      · exact Or.inl rfl
      · exact Or.inr (Or.inl rfl)
    · exact ofRel g (JRel.refl g)
  | cancelJoiner p =>
    simp only []
    cases hj : g.joiner with
    | none => intro j1 hj1; rw [hj] at hj1; cases hj1
    | some j =>
      simp only []
      cases hp : j.phase with
      | exited => rcases hpre j hj with h' | h' <;> rw [hp] at h' <;> cases h'
      | fin => rcases hpre j hj with h' | h' <;> rw [hp] at h' <;> cases h'
      | next =>
        simp only []
        intro j1 hj1; simp only [setJ, Option.some.injEq] at hj1; subst hj1
        exact Or.inr (Or.inr (Or.inl ⟨rfl, h.nextSnap j hj hp⟩))
      | cancelrem =>
        simp only []
        intro j1 hj1; simp only [setJ, Option.some.injEq] at hj1; subst hj1
        exact Or.inr (Or.inr (Or.inr ⟨rfl, rfl⟩))
  | nextDone k p =>
    simp only []
    split
    · exact ofRel g (JRel.refl g)
    · split
      · exact ofRel _ (JRel.of_eq rfl rfl)
      · exact ofRel _ (JRel.trans (JRel.of_eq (g' := { g with sem := g.sem - 1 }) rfl rfl)
          (jrel_wake _ _))
  | cancelRem p => exact ofRel _ (jrel_deliverCancels g _)

end Aiorpcx.C09
