/-!
# C09 / C10 — reactive model of `aiorpcx.curio.TaskGroup` (curio.py:83-305)

`react : G → Action → G × List Obs`: an *action* is something the environment decides (somebody
spawns a member, a member finishes with an outcome, a member is cancelled from outside, a slow
reaction to cancellation ends, `join()` / `__aexit__` is entered, the joiner is cancelled,
somebody calls `next_done()`); `react` applies it and then runs the joiner's algorithm (the
`next_done` loop, the `finally:` sweep(s) of `_cancel_tasks`, `joined = True`) *to quiescence*.

The one nondeterminism inside a step — the order in which a Python `set` of tasks is iterated by
`_cancel_tasks`, which decides the completion order of members finished by the same sweep — is an
explicit input of the action (`perm`), universally quantified in the theorems and supplied from
the observed order in the correspondence.

Scripted members (what the harness runs): a member waits; on `finish o` it returns `None` /
a value / raises; when it receives a cancellation it first spawns its `children` into the group,
then reacts slowly (waits again) until `finCancel` or a second cancellation, and ends cancelled.

No Mathlib imports.
-/
namespace Aiorpcx.C09

inductive Status where | run | canc | done
  deriving Repr, DecidableEq

/-- how a member ended: returned None / returned a value / raised / was cancelled -/
inductive Outcome where | none | val | exc | cancelled
  deriving Repr, DecidableEq

inductive Policy where | all | any | object | nowait
  deriving Repr, DecidableEq

structure Child where
  id : Nat
  daemon : Bool
  deriving Repr, DecidableEq

structure Mem where
  id : Nat
  daemon : Bool
  status : Status
  outcome : Outcome
  children : List Child
  deriving Repr, DecidableEq

inductive Phase where
  | cancelrem   -- `__aexit__` with an exception: inside `cancel_remaining()`
  | next        -- in the `next_done()` loop of `join()`
  | fin         -- in the `finally:` clause of `join()`
  | exited
  deriving Repr, DecidableEq

structure Joiner where
  phase : Phase
  /-- members cancelled by the current `_cancel_tasks` call, being awaited -/
  snapshot : Option (List Nat)
  /-- a CancelledError is propagating through `join()` -/
  exc : Bool
  /-- parked on the semaphore inside `next_done()` -/
  blocked : Bool
  /-- woken with a permit (or acquired one) and about to pop the done queue -/
  hasPermit : Bool
  /-- ghost: the joiner was cancelled while awaiting members it had cancelled (they are
      abandoned: F11) -/
  abandoned : Bool
  deriving Repr, DecidableEq

inductive Waiter where
  | joiner
  | consumer (k : Nat)
  deriving Repr, DecidableEq

inductive Obs where
  | cancelReceived (i : Nat)
  | spawnRefused (i : Nat)
  | joinExit (cancelled : Bool)
  | nextDone (k : Nat) (r : Option Nat)
  | nextDoneBlocked (k : Nat)
  | invalid
  | outOfFuel
  deriving Repr, DecidableEq

structure G where
  wait : Policy
  /-- `true`: `join()` as repaired for F10 (the current tree); `false`: the pinned `finally:`
      clause (one sweep over `_pending | daemons`), kept for the counter-witness only -/
  fixed : Bool := true
  mem : List Mem := []
  pending : List Nat := []
  daemons : List Nat := []
  doneq : List Nat := []
  sem : Nat := 0
  waiters : List Waiter := []
  completed : Option Nat := none
  joined : Bool := false
  joiner : Option Joiner := none
  /-- ghost: completion order of non-daemon members -/
  log : List Nat := []
  /-- ghost: everything popped from the done queue so far, by anybody, in order -/
  popped : List Nat := []
  /-- ghost: what the joiner popped, in order -/
  joinPopped : List Nat := []
  deriving Repr, DecidableEq

inductive Action where
  | spawn (i : Nat) (daemon : Bool) (children : List Child)
  | finish (i : Nat) (o : Outcome) (perm : List Nat)
  | extCancel (i : Nat) (perm : List Nat)
  | finCancel (i : Nat) (perm : List Nat)
  | join (perm : List Nat)
  | ctxExit (bodyRaised : Bool) (perm : List Nat)
  | cancelJoiner (perm : List Nat)
  | nextDone (k : Nat) (perm : List Nat)
  /-- another task calls `group.cancel_remaining()`: every pending member is sent a
      cancellation (in the order `perm` of the set iteration); that task's own wait for them is
      not part of the group's state -/
  | cancelRem (perm : List Nat)
  deriving Repr, DecidableEq

def G.find (g : G) (i : Nat) : Option Mem := g.mem.find? (·.id == i)

def G.statusOf (g : G) (i : Nat) : Option Status := (g.find i).map (·.status)

def G.setMem (g : G) (i : Nat) (f : Mem → Mem) : G :=
  { g with mem := g.mem.map fun m => if m.id == i then f m else m }

def G.isDone (g : G) (i : Nat) : Bool := g.statusOf i == some .done

def failed : Outcome → Bool
  | .exc | .cancelled => true
  | _ => false

/-- iterate a set in the order the implementation was observed to (unknown members last) -/
def orderBy (perm snap : List Nat) : List Nat :=
  perm.filter (snap.contains ·) ++ snap.filter (fun i => !perm.contains i)

def addUnique (l : List Nat) (i : Nat) : List Nat := if l.contains i then l else l ++ [i]

/-- `_add_task` for a task that is still running -/
def G.add (g : G) (i : Nat) (daemon : Bool) (children : List Child) : Option G :=
  if g.joined then none
  else if (g.find i).isSome then none
  else
    let m : Mem := { id := i, daemon, status := .run, outcome := .none, children }
    some { g with mem := g.mem ++ [m],
                  pending := if daemon then g.pending else addUnique g.pending i,
                  daemons := if daemon then addUnique g.daemons i else g.daemons }

/-- what a task woken on the semaphore does next; consumers report, the joiner is unparked (its
    loop is continued by `runJoiner`) -/
def G.wake (g : G) (w : Waiter) : G × List Obs :=
  match w with
  | .joiner =>
      ({ g with joiner := g.joiner.map fun j => { j with blocked := false, hasPermit := true } }, [])
  | .consumer k =>
      match g.doneq with
      | [] => (g, [Obs.nextDone k none])
      | t :: rest => ({ g with doneq := rest, popped := g.popped ++ [t] }, [Obs.nextDone k (some t)])

/-- `Semaphore.release()`: hand the permit to the first waiter, or bank it -/
def G.release (g : G) : G × List Obs :=
  match g.waiters with
  | [] => ({ g with sem := g.sem + 1 }, [])
  | w :: ws => G.wake { g with waiters := ws } w

/-- a member's task finishes: `_on_done` (no callback is registered for daemons) -/
def G.finishMem (g : G) (i : Nat) (o : Outcome) : G × List Obs :=
  match g.find i with
  | none => (g, [])
  | some m =>
    if m.status == .done then (g, []) else
    let g1 := g.setMem i fun m => { m with status := .done, outcome := o }
    if m.daemon then (g1, [])
    else
      G.release { g1 with pending := g1.pending.filter (· != i),
                          doneq := g1.doneq ++ [i], log := g1.log ++ [i] }

def G.addChildren (g : G) : List Child → G × List Child
  | [] => (g, [])
  | c :: cs =>
    match g.add c.id c.daemon [] with
    | none => (g, c :: cs)
    | some g' => G.addChildren g' cs

/-- a cancellation reaches member `i` -/
def G.deliverCancel (g : G) (i : Nat) : G × List Obs :=
  match g.find i with
  | none => (g, [])
  | some m =>
    match m.status with
    | .done => (g, [])
    | .run =>
      let g1 := g.setMem i fun m => { m with status := .canc }
      let (g2, refused) := g1.addChildren m.children
      match refused with
      | [] => (g2, [Obs.cancelReceived i])
      | c :: _ =>
        -- the member's own spawn raised RuntimeError: it dies of that exception
        let (g3, o3) := g2.finishMem i .exc
        (g3, [Obs.cancelReceived i, Obs.spawnRefused c.id] ++ o3)
    | .canc =>
      -- second cancellation: the slow reaction is cut short
      g.finishMem i .cancelled

def G.deliverCancels (g : G) : List Nat → G × List Obs
  | [] => (g, [])
  | i :: is =>
    let (g1, o1) := g.deliverCancel i
    let (g2, o2) := G.deliverCancels g1 is
    (g2, o1 ++ o2)

def G.unfinished (g : G) (l : List Nat) : List Nat := l.filter fun i => !g.isDone i

def setJ (g : G) (j : Joiner) : G := { g with joiner := some j }

/-- `completed` is set to the first task the join loop pops, unless the policy is `object` and
    the task returned None -/
def countsAsCompleted (p : Policy) (o : Outcome) : Bool :=
  !(p == .object && !failed o && o == .none)

/-- the recorded outcome of task `t` -/
def G.outcomeOf (g : G) (t : Nat) : Outcome := ((g.find t).map (·.outcome)).getD .none

/-- the join loop pops `t` off the done queue and updates `completed` -/
def G.popT (g : G) (t : Nat) (rest : List Nat) : G :=
  { g with doneq := rest, popped := g.popped ++ [t], joinPopped := g.joinPopped ++ [t],
           completed := if g.completed.isNone && countsAsCompleted g.wait (g.outcomeOf t)
                        then some t else g.completed }

/-- the test at the bottom of the `join()` loop, after `t` was popped -/
def G.stopAfter (g : G) (t : Nat) (rest : List Nat) : Bool :=
  failed (g.outcomeOf t) || g.wait == .any ||
    (g.wait == .object && (g.popT t rest).completed.isSome)

/-- the tail of `next_done()` once a permit is held, and the body of the `join()` loop -/
def G.joinerPop (g : G) (j : Joiner) : G × List Obs :=
  match g.doneq with
  | [] => (setJ g { j with phase := .fin, hasPermit := false }, [])
  | t :: rest =>
    (setJ (g.popT t rest)
      { j with phase := if g.stopAfter t rest then .fin else .next, hasPermit := false }, [])

/-- one step of the joiner's algorithm; `none` = it is waiting (quiescent) or has exited -/
def G.joinerStep (g : G) (perm : List Nat) : Option (G × List Obs) :=
  match g.joiner with
  | none => none
  | some j =>
    if j.blocked then none else
    match j.phase with
    | .exited => none
    | .cancelrem =>
      match j.snapshot with
      | none =>
        -- `_cancel_tasks(self._pending)`: cancel the snapshot, then wait for all of it
        let snap := orderBy perm g.pending
        let (g1, o1) := g.deliverCancels snap
        some (setJ g1 { j with snapshot := some snap }, o1)
      | some snap =>
        if (g.unfinished snap).isEmpty then
          some (setJ g { j with phase := .next, snapshot := none }, [])
        else none
    | .next =>
      if j.hasPermit then some (g.joinerPop j)
      else if g.wait == .nowait then some (setJ g { j with phase := .fin }, [])
      else if g.doneq.isEmpty && g.pending.isEmpty then
        -- next_done() returns None without touching the semaphore
        some (setJ g { j with phase := .fin }, [])
      else if g.sem == 0 || !g.waiters.isEmpty then
        -- parks on the semaphore (FIFO)
        some (setJ { g with waiters := g.waiters ++ [.joiner] } { j with blocked := true }, [])
      else
        some (setJ { g with sem := g.sem - 1 } { j with hasPermit := true }, [])
    | .fin =>
      match j.snapshot with
      | none =>
        if g.fixed then
          -- (repaired for F10) cancel the *unfinished* members of pending ∪ daemons, repeat
          -- until none is left, then `joined = True`
          let rem := g.unfinished (g.pending ++ g.daemons.filter (fun i => !g.pending.contains i))
          if rem.isEmpty then
            some (setJ { g with joined := true } { j with phase := .exited }, [Obs.joinExit j.exc])
          else
            let snap := orderBy perm rem
            let (g1, o1) := g.deliverCancels snap
            some (setJ g1 { j with snapshot := some snap }, o1)
        else
          -- pinned: `await self._cancel_tasks(self._pending.union(self.daemons))`, once
          let all := g.pending ++ g.daemons.filter (fun i => !g.pending.contains i)
          if all.isEmpty then
            some (setJ { g with joined := true } { j with phase := .exited }, [Obs.joinExit j.exc])
          else
            let snap := orderBy perm all
            let (g1, o1) := g.deliverCancels snap
            some (setJ g1 { j with snapshot := some snap }, o1)
      | some snap =>
        if (g.unfinished snap).isEmpty then
          if g.fixed then some (setJ g { j with snapshot := none }, [])
          else some (setJ { g with joined := true } { j with phase := .exited, snapshot := none },
                     [Obs.joinExit j.exc])
        else none

def G.runJoiner (g : G) (perm : List Nat) : Nat → G × List Obs
  | 0 => (g, [Obs.outOfFuel])
  | fuel + 1 =>
    match g.joinerStep perm with
    | none => (g, [])
    | some (g1, o1) =>
      let (g2, o2) := G.runJoiner g1 perm fuel
      (g2, o1 ++ o2)

def G.fuel (g : G) : Nat :=
  8 * (g.mem.length + (g.mem.map (·.children.length)).sum + 4)

def newJoiner (ph : Phase) : Joiner :=
  { phase := ph, snapshot := none, exc := false, blocked := false, hasPermit := false,
    abandoned := false }

/-- apply the environment's action (no joiner progress yet) -/
def G.apply (g : G) : Action → G × List Obs
  | .spawn i d ch =>
    match g.add i d ch with
    | none => (g, [Obs.spawnRefused i])
    | some g' => (g', [])
  | .finish i o _ =>
    if g.statusOf i == some .run then g.finishMem i o else (g, [Obs.invalid])
  | .extCancel i _ =>
    if (g.find i).isSome then g.deliverCancel i else (g, [Obs.invalid])
  | .finCancel i _ =>
    if g.statusOf i == some .canc then g.finishMem i .cancelled else (g, [Obs.invalid])
  | .join _ =>
    if g.joiner.isNone then (setJ g (newJoiner .next), []) else (g, [Obs.invalid])
  | .ctxExit raised _ =>
    if g.joiner.isNone then (setJ g (newJoiner (if raised then .cancelrem else .next)), [])
    else (g, [Obs.invalid])
  | .cancelJoiner _ =>
    match g.joiner with
    | none => (g, [Obs.invalid])
    | some j =>
      match j.phase with
      | .exited => (g, [Obs.invalid])
      | .next =>
        -- CancelledError is raised inside `next_done()`; the `finally:` clause runs
        -- (a permit it had already been handed goes back, as `Semaphore.acquire` does)
        let g0 := { g with waiters := g.waiters.filter (· != .joiner) }
        let (g1, o1) := if j.hasPermit then g0.release else (g0, [])
        (setJ g1 { j with phase := .fin, exc := true, blocked := false, hasPermit := false }, o1)
      | .fin | .cancelrem =>
        -- cancelled while awaiting the members it cancelled: the wait is abandoned, join()
        -- raises, `joined` stays False (F11)
        (setJ g { j with phase := .exited, abandoned := true, exc := true }, [Obs.joinExit true])
  | .nextDone k _ =>
    if g.doneq.isEmpty && g.pending.isEmpty then (g, [Obs.nextDone k none])
    else if g.sem == 0 || !g.waiters.isEmpty then
      ({ g with waiters := g.waiters ++ [.consumer k] }, [Obs.nextDoneBlocked k])
    else
      G.wake { g with sem := g.sem - 1 } (.consumer k)
  | .cancelRem perm => g.deliverCancels (orderBy perm g.pending)

def Action.perm : Action → List Nat
  | .spawn .. => []
  | .finish _ _ p | .extCancel _ p | .finCancel _ p | .join p | .ctxExit _ p
  | .cancelJoiner p | .nextDone _ p | .cancelRem p => p

/-- **the reactive step**: apply the action, then run the joiner to quiescence -/
def react (g : G) (a : Action) : G × List Obs :=
  let (g1, o1) := g.apply a
  let (g2, o2) := g1.runJoiner a.perm g1.fuel
  (g2, o1 ++ o2)

def runAll (g : G) : List Action → G × List (List Obs)
  | [] => (g, [])
  | a :: as =>
    let (g1, o) := react g a
    let (g2, os) := runAll g1 as
    (g2, o :: os)

end Aiorpcx.C09
