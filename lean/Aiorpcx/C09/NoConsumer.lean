import Aiorpcx.C09.JInv
/-! Semaphore accounting in histories without a competing `next_done()` caller: the only task
that ever waits on the group's semaphore is the joiner, so

* the waiter list is `[joiner]` exactly while the joiner is parked, else empty;
* permits banked in the semaphore + the permit held by the joiner = length of the done queue;
* a parked joiner has no permit, the semaphore is at 0 (so the done queue is empty) and some
  member is still pending;
* (`s = true`, no `next_done()` caller at all) everything ever popped was popped by the join loop.

All of it except the last point also holds when other tasks do call `next_done()` but are always
served at once (`s = false`, `NoParking`): the starvation of F12 needs a caller that had to
wait. -/
namespace Aiorpcx.C09

def Action.isNextDone : Action → Bool
  | .nextDone .. => true
  | _ => false

/-- would a `next_done()` caller have to wait on the semaphore in this state? (then the action
reports `Obs.nextDoneBlocked`) -/
def G.consumerWouldPark (g : G) : Bool :=
  !(g.doneq.isEmpty && g.pending.isEmpty) && (g.sem == 0 || !g.waiters.isEmpty)

theorem parks_iff_blocked_obs (g : G) (k : Nat) (p : List Nat) :
    Obs.nextDoneBlocked k ∈ (g.apply (.nextDone k p)).2 ↔ g.consumerWouldPark = true := by
  unfold G.apply G.consumerWouldPark
  simp only []
  cases h1 : (g.doneq.isEmpty && g.pending.isEmpty)
  · cases h2 : (g.sem == 0 || !g.waiters.isEmpty)
    · simp only [Bool.false_eq_true, ↓reduceIte, Bool.not_false, Bool.and_false, iff_false]
      unfold G.wake
      cases g.doneq <;> simp
    · simp
  · simp

def hpNat (g : G) : Nat :=
  match g.joiner with
  | some j => if j.hasPermit then 1 else 0
  | none => 0

def isBlocked (g : G) : Bool :=
  match g.joiner with
  | some j => j.blocked
  | none => false

structure NInv (s : Bool) (g : G) : Prop where
  waiters : g.waiters = if isBlocked g then [Waiter.joiner] else []
  sem : g.sem + hpNat g = g.doneq.length
  blocked : ∀ j, g.joiner = some j → j.blocked = true →
    j.hasPermit = false ∧ g.sem = 0 ∧ g.pending ≠ []
  popped : s = true → g.popped = g.joinPopped

/-- the state in which `Semaphore.release()` is called: a new entry was just queued -/
structure RelPre (s : Bool) (g : G) : Prop where
  waiters : g.waiters = if isBlocked g then [Waiter.joiner] else []
  sem : g.sem + hpNat g + 1 = g.doneq.length
  blocked : ∀ j, g.joiner = some j → j.blocked = true → j.hasPermit = false ∧ g.sem = 0
  popped : s = true → g.popped = g.joinPopped

variable {s : Bool}

/-- result of a primitive: the invariant holds again, and a joiner that was not parked is left
alone -/
def NStep (s : Bool) (g g' : G) : Prop := NInv s g' ∧ (isBlocked g = false → g'.joiner = g.joiner)

theorem NStep.trans {a b c : G} (h1 : NStep s a b) (h2 : NStep s b c) : NStep s a c := by
  refine ⟨h2.1, ?_⟩
  intro hb
  have e1 := h1.2 hb
  have hb' : isBlocked b = false := by simp only [isBlocked, e1] at hb ⊢; exact hb
  rw [h2.2 hb', e1]

theorem ninv_release (g : G) (h : RelPre s g) : NStep s g g.release.1 := by
  obtain ⟨hw, hsem, hbl, hpo⟩ := h
  obtain ⟨wait, fixed, mem, pending, daemons, doneq, sem, waiters, completed, joined, joiner, log,
    popped, joinPopped⟩ := g
  simp only [] at hpo
  cases joiner with
  | none =>
    simp only [isBlocked, Bool.false_eq_true, ↓reduceIte] at hw
    subst hw
    simp only [hpNat] at hsem
    refine ⟨⟨?_, ?_, ?_, hpo⟩, fun _ => rfl⟩
    · simp [G.release, isBlocked]
    · simp only [G.release, hpNat]; omega
    · intro j hj; simp [G.release] at hj
  | some j =>
    obtain ⟨ph, sn, ex, bl, hpm, ab⟩ := j
    cases bl with
    | true =>
      obtain ⟨hperm, hs0⟩ := hbl _ rfl rfl
      simp only [] at hperm hs0
      subst hperm; subst hs0
      simp only [isBlocked, ↓reduceIte] at hw
      subst hw
      simp only [hpNat, Bool.false_eq_true, ↓reduceIte] at hsem
      refine ⟨⟨?_, ?_, ?_, hpo⟩, ?_⟩
      · simp [G.release, G.wake, isBlocked]
      · simp only [G.release, G.wake, hpNat, Option.map_some, ↓reduceIte]; omega
      · intro j hj hb
        simp only [G.release, G.wake, Option.map_some, Option.some.injEq] at hj
        subst hj; simp at hb
      · intro hb; simp [isBlocked] at hb
    | false =>
      simp only [isBlocked, Bool.false_eq_true, ↓reduceIte] at hw
      subst hw
      simp only [hpNat] at hsem
      refine ⟨⟨?_, ?_, ?_, hpo⟩, fun _ => rfl⟩
      · simp [G.release, isBlocked]
      · simp only [G.release, hpNat]; omega
      · intro j hj hb
        simp only [G.release, Option.some.injEq] at hj
        subst hj; simp at hb

/-- a state change that leaves the semaphore, the queues and the joiner alone and does not empty
`pending` keeps the invariant -/
theorem ninv_frame {g g' : G} (h : NInv s g) (hw : g'.waiters = g.waiters) (hs : g'.sem = g.sem)
    (hd : g'.doneq = g.doneq) (hj : g'.joiner = g.joiner) (hp : g.pending ≠ [] → g'.pending ≠ [])
    (hpo : g'.popped = g.popped) (hjp : g'.joinPopped = g.joinPopped) : NStep s g g' := by
  refine ⟨⟨?_, ?_, ?_, fun hs => by rw [hpo, hjp, h.popped hs]⟩, fun _ => hj⟩
  · rw [hw, h.waiters]; unfold isBlocked; rw [hj]
  · rw [hs, hd, ← h.sem]; unfold hpNat; rw [hj]
  · intro j hj' hb
    rw [hj] at hj'
    obtain ⟨a, b, c⟩ := h.blocked j hj' hb
    exact ⟨a, by rw [hs]; exact b, hp c⟩

theorem NStep.refl {g : G} (h : NInv s g) : NStep s g g := ⟨h, fun _ => rfl⟩

theorem ninv_finishMem (g : G) (i : Nat) (o : Outcome) (h : NInv s g) :
    NStep s g (g.finishMem i o).1 := by
  unfold G.finishMem
  cases hf : g.find i with
  | none => exact NStep.refl h
  | some m =>
    simp only []
    split
    · exact NStep.refl h
    · split
      · exact ninv_frame h rfl rfl rfl rfl id rfl rfl
      · have pre : RelPre s
            { (g.setMem i fun m => { m with status := .done, outcome := o }) with
              pending := (g.setMem i fun m => { m with status := .done, outcome := o }).pending.filter (· != i),
              doneq := (g.setMem i fun m => { m with status := .done, outcome := o }).doneq ++ [i],
              log := (g.setMem i fun m => { m with status := .done, outcome := o }).log ++ [i] } := by
          refine ⟨h.waiters, ?_, ?_, h.popped⟩
          · have := h.sem
            simp only [G.setMem, List.length_append, List.length_cons, List.length_nil] at this ⊢
            simp only [hpNat] at this ⊢
            omega
          · intro j hj hb
            obtain ⟨a, b, _⟩ := h.blocked j hj hb
            exact ⟨a, b⟩
        have hr := ninv_release _ pre
        exact ⟨hr.1, fun hb => hr.2 hb⟩

theorem pending_add_ne_nil {g g' : G} {i : Nat} {d : Bool} {ch : List Child}
    (ha : g.add i d ch = some g') : g'.waiters = g.waiters ∧ g'.sem = g.sem ∧ g'.doneq = g.doneq ∧
      g'.joiner = g.joiner ∧ (g.pending ≠ [] → g'.pending ≠ []) ∧ g'.popped = g.popped ∧
      g'.joinPopped = g.joinPopped := by
  unfold G.add at ha
  split at ha
  · cases ha
  · split at ha
    · cases ha
    · simp only [Option.some.injEq] at ha
      subst ha
      refine ⟨rfl, rfl, rfl, rfl, ?_, rfl, rfl⟩
      intro hne
      simp only []
      split
      · exact hne
      · intro he
        cases hp : g.pending with
        | nil => exact hne hp
        | cons x xs =>
          have : x ∈ addUnique g.pending i := mem_addUnique _ _ _ (by rw [hp]; simp)
          rw [he] at this; simp at this

theorem ninv_add {g g' : G} {i : Nat} {d : Bool} {ch : List Child} (ha : g.add i d ch = some g')
    (h : NInv s g) : NStep s g g' := by
  obtain ⟨a, b, c, d', e, f, k⟩ := pending_add_ne_nil ha
  exact ninv_frame h a b c d' e f k

theorem ninv_addChildren (g : G) (cs : List Child) (h : NInv s g) : NStep s g (g.addChildren cs).1 := by
  induction cs generalizing g with
  | nil => exact NStep.refl h
  | cons c cs ih =>
    unfold G.addChildren
    cases ha : g.add c.id c.daemon [] with
    | none => exact NStep.refl h
    | some g' =>
      have h1 := ninv_add ha h
      exact NStep.trans h1 (ih g' h1.1)

theorem ninv_deliverCancel (g : G) (i : Nat) (h : NInv s g) : NStep s g (g.deliverCancel i).1 := by
  unfold G.deliverCancel
  cases hf : g.find i with
  | none => exact NStep.refl h
  | some m =>
    simp only []
    cases hs : m.status with
    | done => exact NStep.refl h
    | canc => exact ninv_finishMem g i .cancelled h
    | run =>
      simp only []
      have h1 : NStep s g (g.setMem i fun m => { m with status := .canc }) :=
        ninv_frame h rfl rfl rfl rfl id rfl rfl
      have h2 := ninv_addChildren (g.setMem i fun m => { m with status := .canc }) m.children h1.1
      generalize (g.setMem i fun m => { m with status := .canc }).addChildren m.children = r at h2 ⊢
      obtain ⟨g2, refused⟩ := r
      cases refused with
      | nil => exact NStep.trans h1 h2
      | cons c cs => exact NStep.trans (NStep.trans h1 h2) (ninv_finishMem _ i .exc h2.1)

theorem ninv_deliverCancels (g : G) (l : List Nat) (h : NInv s g) :
    NStep s g (g.deliverCancels l).1 := by
  induction l generalizing g with
  | nil => exact NStep.refl h
  | cons i is ih =>
    rw [deliverCancels_cons]
    have h1 := ninv_deliverCancel g i h
    exact NStep.trans h1 (ih _ h1.1)

/-- replacing the record of a joiner that is not parked by one with the same permit flag -/
theorem ninv_setJ {g : G} {j : Joiner} (h : NInv s g) (hj : g.joiner = some j)
    (hb : j.blocked = false) (j' : Joiner) (hb' : j'.blocked = false)
    (hp' : j'.hasPermit = j.hasPermit) : NInv s (setJ g j') := by
  refine ⟨?_, ?_, ?_, h.popped⟩
  · have := h.waiters
    simp only [isBlocked, hj, hb] at this
    simp only [setJ, isBlocked, hb']
    exact this
  · have := h.sem
    simp only [hpNat, hj] at this
    simp only [setJ, hpNat, hp']
    exact this
  · intro j'' hj'' hbb
    simp only [setJ, Option.some.injEq] at hj''
    subst hj''
    rw [hb'] at hbb; cases hbb

theorem ninv_jstep {g : G} {perm : List Nat} {j : Joiner} {g' : G} {o : List Obs}
    (hj : g.joiner = some j) (hb : j.blocked = false) (h : NInv s g)
    (hs : JStep g perm j g' o) : NInv s g' := by
  have hnb : isBlocked g = false := by simp [isBlocked, hj, hb]
  cases hs with
  | crSweep hp hsn =>
    have h1 := ninv_deliverCancels g (orderBy perm g.pending) h
    exact ninv_setJ h1.1 ((h1.2 hnb).trans hj) hb _ hb rfl
  | crDone snap hp hsn _ => exact ninv_setJ h hj hb _ hb rfl
  | pop hp hperm =>
    unfold G.joinerPop
    have hsem := h.sem
    simp only [hpNat, hj, hperm, ↓reduceIte] at hsem
    cases hd : g.doneq with
    | nil => rw [hd] at hsem; simp at hsem
    | cons t rest =>
      simp only []
      have hw := h.waiters
      simp only [isBlocked, hj, hb] at hw
      refine ⟨?_, ?_, ?_, ?_⟩
      · simp only [setJ, G.popT, isBlocked, hb]; exact hw
      · rw [hd] at hsem
        simp only [setJ, G.popT, hpNat, List.length_cons] at hsem ⊢
        simp; omega
      · intro j' hj' hbb
        simp only [setJ, Option.some.injEq] at hj'
        subst hj'
        simp [hb] at hbb
      · intro hs; simp only [setJ, G.popT, h.popped hs]
  | nowait hp hperm _ => exact ninv_setJ h hj hb _ hb rfl
  | nothingLeft hp hperm _ _ _ => exact ninv_setJ h hj hb _ hb rfl
  | park hp hperm hw hne hsw =>
    have hwt := h.waiters
    simp only [isBlocked, hj, hb, Bool.false_eq_true, ↓reduceIte] at hwt
    have hsem := h.sem
    simp only [hpNat, hj, hperm, Bool.false_eq_true, ↓reduceIte, Nat.add_zero] at hsem
    have hs0 : g.sem = 0 := by
      rcases hsw with h0 | h0
      · exact h0
      · exact absurd hwt h0
    have hdq : g.doneq = [] := by
      rw [hs0] at hsem
      exact List.eq_nil_of_length_eq_zero hsem.symm
    have hpend : g.pending ≠ [] := fun hpe => hne ⟨hdq, hpe⟩
    refine ⟨?_, ?_, ?_, h.popped⟩
    · simp [setJ, isBlocked, hwt]
    · simp only [setJ, hpNat, hperm]; simpa using hsem
    · intro j' hj' _
      simp only [setJ, Option.some.injEq] at hj'
      subst hj'
      exact ⟨hperm, hs0, hpend⟩
  | acquire hp hperm _ _ hs0 hw0 =>
    have hsem := h.sem
    simp only [hpNat, hj, hperm, Bool.false_eq_true, ↓reduceIte, Nat.add_zero] at hsem
    refine ⟨?_, ?_, ?_, h.popped⟩
    · simp [setJ, isBlocked, hb, hw0]
    · simp only [setJ, hpNat]; simp; omega
    · intro j' hj' hbb
      simp only [setJ, Option.some.injEq] at hj'
      subst hj'
      simp [hb] at hbb
  | finExit hp hsn _ =>
    have h0 : NInv s { g with joined := true } := ⟨h.waiters, h.sem, h.blocked, h.popped⟩
    exact ninv_setJ (g := { g with joined := true }) h0 hj hb _ hb rfl
  | finSweep hp hsn _ =>
    have h1 := ninv_deliverCancels g (orderBy perm g.rem) h
    exact ninv_setJ h1.1 ((h1.2 hnb).trans hj) hb _ hb rfl
  | finClear snap hp hsn _ => exact ninv_setJ h hj hb _ hb rfl

theorem ninv_runJoiner (perm : List Nat) : ∀ (fuel : Nat) (g : G), g.fixed = true →
    NInv s g → NInv s (g.runJoiner perm fuel).1
  | 0, _, _, h => h
  | fuel + 1, g, hfix, h => by
    unfold G.runJoiner
    cases hs : g.joinerStep perm with
    | none => exact h
    | some r =>
      obtain ⟨g1, o1⟩ := r
      obtain ⟨j, hj, hb, hstep⟩ := joinerStep_inv hfix hs
      have hts := tstep_jstep hstep
      have hfix1 : g1.fixed = true := by
        have := hts.fixed_eq; simp only [G.core] at this; rw [this, hfix]
      exact ninv_runJoiner perm fuel g1 hfix1 (ninv_jstep hj hb h hstep)

theorem ninv_apply (g : G) (a : Action)
    (hnc : a.isNextDone = false ∨ (s = false ∧ g.consumerWouldPark = false)) (h : NInv s g) :
    NInv s (g.apply a).1 := by
  unfold G.apply
  cases a with
  | spawn i d ch =>
    simp only []
    cases ha : g.add i d ch with
    | none => exact h
    | some g' => exact (ninv_add ha h).1
  | finish i o p => simp only []; split; exact (ninv_finishMem g i o h).1; exact h
  | extCancel i p => simp only []; split; exact (ninv_deliverCancel g i h).1; exact h
  | finCancel i p => simp only []; split; exact (ninv_finishMem g i _ h).1; exact h
  | join p =>
    simp only []
    split
    · rename_i hn
      have hjn : g.joiner = none := by simpa using hn
      have hw := h.waiters
      simp only [isBlocked, hjn, Bool.false_eq_true, ↓reduceIte] at hw
      have hsem := h.sem
      simp only [hpNat, hjn] at hsem
      refine ⟨?_, ?_, ?_, h.popped⟩
      · simp [setJ, isBlocked, newJoiner, hw]
      · simp [setJ, hpNat, newJoiner]; omega
      · intro j hj hb; simp only [setJ, Option.some.injEq] at hj; subst hj; simp [newJoiner] at hb
    · exact h
  | ctxExit r p =>
    simp only []
    split
    · rename_i hn
      have hjn : g.joiner = none := by simpa using hn
      have hw := h.waiters
      simp only [isBlocked, hjn, Bool.false_eq_true, ↓reduceIte] at hw
      have hsem := h.sem
      simp only [hpNat, hjn] at hsem
      refine ⟨?_, ?_, ?_, h.popped⟩
      · simp [setJ, isBlocked, newJoiner, hw]
      · simp [setJ, hpNat, newJoiner]; omega
      · intro j hj hb; simp only [setJ, Option.some.injEq] at hj; subst hj; simp [newJoiner] at hb
    · exact h
  | cancelJoiner p =>
    simp only []
    cases hj : g.joiner with
    | none => exact h
    | some j =>
      simp only []
      have hw := h.waiters
      have hsem := h.sem
      simp only [isBlocked, hj] at hw
      simp only [hpNat, hj] at hsem
      cases hp : j.phase with
      | exited => exact h
      | next =>
        simp only []
        have hfil : g.waiters.filter (· != Waiter.joiner) = [] := by
          rw [hw]; cases j.blocked <;> simp
        rw [hfil]
        cases hperm : j.hasPermit with
        | true =>
          simp only [↓reduceIte, G.release]
          rw [hperm] at hsem
          refine ⟨?_, ?_, ?_, h.popped⟩
          · simp [setJ, isBlocked]
          · simp [setJ, hpNat]; simpa using hsem
          · intro j' hj' hbb; simp only [setJ, Option.some.injEq] at hj'; subst hj'; simp at hbb
        | false =>
          simp only [Bool.false_eq_true, ↓reduceIte]
          rw [hperm] at hsem
          refine ⟨?_, ?_, ?_, h.popped⟩
          · simp [setJ, isBlocked]
          · simp [setJ, hpNat]; simpa using hsem
          · intro j' hj' hbb; simp only [setJ, Option.some.injEq] at hj'; subst hj'; simp at hbb
      | fin =>
        simp only []
        refine ⟨?_, ?_, ?_, h.popped⟩
        · simp only [setJ, isBlocked]; exact hw
        · simp only [setJ, hpNat]; exact hsem
        · intro j' hj' hbb
          simp only [setJ, Option.some.injEq] at hj'; subst hj'
          exact h.blocked j hj hbb
      | cancelrem =>
        simp only []
        refine ⟨?_, ?_, ?_, h.popped⟩
        · simp only [setJ, isBlocked]; exact hw
        · simp only [setJ, hpNat]; exact hsem
        · intro j' hj' hbb
          simp only [setJ, Option.some.injEq] at hj'; subst hj'
          exact h.blocked j hj hbb
  | nextDone k p =>
    rcases hnc with hnc | ⟨hs, hpark⟩
    · simp [Action.isNextDone] at hnc
    · simp only []
      unfold G.consumerWouldPark at hpark
      split
      · exact h
      · rename_i h1
        split
        · rename_i h2
          simp [h1, h2] at hpark
        · rename_i h2
          have h2' : g.sem ≠ 0 ∧ g.waiters = [] := by simpa [List.isEmpty_iff] using h2
          have hsem := h.sem
          unfold G.wake
          cases hd : g.doneq with
          | nil =>
            exfalso
            rw [hd] at hsem
            simp at hsem
            exact h2'.1 hsem.1
          | cons t rest =>
            simp only []
            rw [hd] at hsem
            refine ⟨?_, ?_, ?_, ?_⟩
            · simp only [isBlocked]; exact h.waiters
            · simp only [hpNat, List.length_cons] at hsem ⊢; omega
            · intro j hj hb
              exact absurd (h.blocked j hj hb).2.1 h2'.1
            · intro hs'; rw [hs] at hs'; cases hs'
  | cancelRem p => exact (ninv_deliverCancels g _ h).1

theorem ninv_init (p : Policy) : NInv s { wait := p } :=
  ⟨by simp [isBlocked], by simp [hpNat], by intro j hj; simp at hj, fun _ => rfl⟩

theorem ninv_react (g : G) (a : Action)
    (hnc : a.isNextDone = false ∨ (s = false ∧ g.consumerWouldPark = false))
    (hfix : g.fixed = true) (h : NInv s g) : NInv s (react g a).1 := by
  rw [react_fst]
  have hfix1 : (g.apply a).1.fixed = true := by
    have := (tstep_apply g a).fixed_eq; simp only [G.core] at this; rw [this, hfix]
  exact ninv_runJoiner _ _ _ hfix1 (ninv_apply g a hnc h)

theorem ninv_runAll (g : G) (as : List Action) (hnc : ∀ a ∈ as, a.isNextDone = false)
    (hg : Good g) (h : NInv s g) : NInv s (runAll g as).1 := by
  induction as generalizing g with
  | nil => exact h
  | cons a as ih =>
    simp only [runAll]
    exact ih _ (fun b hb => hnc b (by simp [hb])) (good_react g a hg)
      (ninv_react g a (Or.inl (hnc a (by simp))) hg.fixed h)

/-- along the history, no `next_done()` caller ever has to wait: each one is served (or told
"nothing left") at once -/
def NoParking (g : G) : List Action → Prop
  | [] => True
  | a :: as => (a.isNextDone = true → g.consumerWouldPark = false) ∧ NoParking (react g a).1 as

theorem noParking_of_noNextDone (g : G) (as : List Action)
    (h : ∀ a ∈ as, a.isNextDone = false) : NoParking g as := by
  induction as generalizing g with
  | nil => trivial
  | cons a as ih =>
    refine ⟨fun ht => ?_, ih _ (fun b hb => h b (by simp [hb]))⟩
    rw [h a (by simp)] at ht; cases ht

theorem noParking_append (g : G) (as : List Action) (a : Action) :
    NoParking g (as ++ [a]) ↔ NoParking g as ∧
      (a.isNextDone = true → (runAll g as).1.consumerWouldPark = false) := by
  induction as generalizing g with
  | nil => simp [NoParking, runAll]
  | cons b bs ih =>
    simp only [List.cons_append, NoParking, runAll, ih]
    constructor
    · rintro ⟨h1, h2, h3⟩; exact ⟨⟨h1, h2⟩, h3⟩
    · rintro ⟨⟨h1, h2⟩, h3⟩; exact ⟨h1, h2, h3⟩

theorem ninv_runAll_noParking (g : G) (as : List Action) (hnp : NoParking g as)
    (hg : Good g) (h : NInv false g) : NInv false (runAll g as).1 := by
  induction as generalizing g with
  | nil => exact h
  | cons a as ih =>
    simp only [runAll]
    refine ih _ hnp.2 (good_react g a hg) (ninv_react g a ?_ hg.fixed h)
    cases hn : a.isNextDone with
    | false => exact Or.inl rfl
    | true => exact Or.inr ⟨rfl, hnp.1 hn⟩

end Aiorpcx.C09
