import Aiorpcx.Common.Hex
import Aiorpcx.C09.Model
/-! Line-protocol driver (monitor) for the TaskGroup model.
    in : `<policy all|any|object|none>[!] ; <action> ; <action> ...`   (`!` = pinned join)
         S i d c:d,c:d|-   F i n|v|e perm   X i perm   Y i perm   J perm   E 0|1|c perm (c = the body was cancelled)   K perm
         N k perm          (perm = comma separated ids or -)
    out: one `obs=.. j=.. c=.. d=..` record per action, separated by ` ; ` -/
open Aiorpcx Aiorpcx.C09

def parseList (s : String) : Option (List Nat) :=
  if s == "-" then some [] else (s.splitOn ",").mapM (·.toNat?)

def parseChildren (s : String) : Option (List Child) :=
  if s == "-" then some [] else
  (s.splitOn ",").mapM fun t =>
    match t.splitOn ":" with
    | [i, d] => i.toNat?.map fun n => { id := n, daemon := d == "1" }
    | _ => none

def parseAction (s : String) : Option Action :=
  match (s.splitOn " ").filter (· ≠ "") with
  | ["S", i, d, ch] => do pure (.spawn (← i.toNat?) (d == "1") (← parseChildren ch))
  | ["F", i, o, p] => do
      let oc ← match o with | "n" => some Outcome.none | "v" => some .val | "e" => some .exc | _ => none
      pure (.finish (← i.toNat?) oc (← parseList p))
  | ["X", i, p] => do pure (.extCancel (← i.toNat?) (← parseList p))
  | ["Y", i, p] => do pure (.finCancel (← i.toNat?) (← parseList p))
  | ["J", p] => do pure (.join (← parseList p))
  | ["E", r, p] => do pure (.ctxExit (r == "1" || r == "c") (← parseList p))
  | ["K", p] => do pure (.cancelJoiner (← parseList p))
  | ["N", k, p] => do pure (.nextDone (← k.toNat?) (← parseList p))
  | ["R", p] => do pure (.cancelRem (← parseList p))
  -- a member's task is handed to the group (or to another group) again: an add of an id that exists
  | ["A", i, _] => do pure (.spawn (← i.toNat?) false [])
  | _ => none

def obsStr : Obs → String
  | .cancelReceived i => s!"cr{i}"
  | .spawnRefused i => s!"sr{i}"
  | .joinExit c => s!"jx{if c then 1 else 0}"
  | .nextDone k r => s!"nd{k}={match r with | none => "N" | some t => toString t}"
  | .nextDoneBlocked k => s!"nb{k}"
  | .invalid => "inv"
  | .outOfFuel => "oof"

def insertSorted (x : String) : List String → List String
  | [] => [x]
  | y :: ys => if x ≤ y then x :: y :: ys else y :: insertSorted x ys

def sortStrs (l : List String) : List String := l.foldr insertSorted []

def record (g : G) (o : List Obs) : String :=
  let os := sortStrs (o.map obsStr)
  let dn := (g.mem.filter (·.status == .done)).map (toString ·.id)
  s!"obs={String.intercalate "," os} j={if g.joined then 1 else 0} c={match g.completed with | none => "-" | some t => toString t} d={String.intercalate "," dn}"

def policyOf : String → Option (Policy × Bool)
  | "all" => some (.all, true) | "any" => some (.any, true) | "object" => some (.object, true)
  | "none" => some (.nowait, true)
  | "all!" => some (.all, false) | "any!" => some (.any, false)
  | "object!" => some (.object, false) | "none!" => some (.nowait, false)
  | _ => none

/-- one step of the line protocol: one action, or several joined by `+` that the harness performs
back to back inside one coroutine (e.g. adding tasks that have already finished and then calling
`join()` without yielding in between); the observations are concatenated, one record is printed -/
def parseStep (s : String) : Option (List Action) :=
  ((s.splitOn "+").map (·.trimAscii.toString)).mapM parseAction

def reactAll (g : G) : List Action → G × List Obs
  | [] => (g, [])
  | a :: rest =>
    let r1 := react g a
    let r2 := reactAll r1.1 rest
    (r2.1, r1.2 ++ r2.2)

def handle (line : String) : String :=
  match (line.splitOn ";").map (·.trimAscii.toString) with
  | pol :: acts =>
    match policyOf pol, acts.mapM parseStep with
    | some p, some steps =>
      let rec go (g : G) : List (List Action) → List String
        | [] => []
        | st :: rest => let (g1, o) := reactAll g st; record g1 o :: go g1 rest
      String.intercalate " ; " (go { wait := p.1, fixed := p.2 } steps)
    | _, _ => "bad-op"
  | _ => "bad-op"

def main : IO Unit := Hex.lineLoop handle
