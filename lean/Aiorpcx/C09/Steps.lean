import Aiorpcx.C09.Inv
/-! Every primitive of the TaskGroup model acts on the core by `CStep`s. -/
namespace Aiorpcx.C09

@[simp] theorem core_setJ (g : G) (j : Joiner) : (setJ g j).core = g.core := rfl

theorem core_wake (g : G) (w : Waiter) : (g.wake w).1.core = g.core := by
  unfold G.wake
  cases w with
  | joiner => rfl
  | consumer k => cases h : g.doneq <;> simp [G.core]

theorem core_release (g : G) : g.release.1.core = g.core := by
  unfold G.release
  cases h : g.waiters with
  | nil => rfl
  | cons w ws => simp only []; rw [core_wake]; rfl

theorem core_joinerPop (g : G) (j : Joiner) : (g.joinerPop j).1.core = g.core := by
  unfold G.joinerPop
  cases h : g.doneq <;> rfl

theorem find_mem {g : G} {i : Nat} {m : Mem} (h : g.find i = some m) : m ∈ g.mem ∧ m.id = i := by
  unfold G.find at h
  exact ⟨List.mem_of_find?_eq_some h, by simpa using List.find?_some h⟩

theorem find_none {g : G} {i : Nat} (h : g.find i = none) : i ∉ g.mem.map (·.id) := by
  unfold G.find at h
  rw [List.find?_eq_none] at h
  intro hi
  simp only [List.mem_map] at hi
  obtain ⟨m, hm, rfl⟩ := hi
  exact h m hm (by simp)

theorem mem_addUnique (l : List Nat) (i x : Nat) (h : x ∈ l) : x ∈ addUnique l i := by
  unfold addUnique; split <;> simp [h]

theorem self_mem_addUnique (l : List Nat) (i : Nat) : i ∈ addUnique l i := by
  unfold addUnique; split
  · rename_i h; simpa using h
  · simp

theorem step_add {g g' : G} {i : Nat} {d : Bool} {ch : List Child} (h : g.add i d ch = some g') :
    CStep g.core g'.core := by
  unfold G.add at h
  split at h
  · cases h
  · rename_i hj
    split at h
    · cases h
    · rename_i hf
      simp only [Option.some.injEq] at h
      subst h
      have hnone : g.find i = none := by
        cases hfi : g.find i with
        | none => rfl
        | some _ => simp [hfi] at hf
      refine CStep.add g.core ⟨i, d, .run, .none, ch⟩ _ _ (by simpa [G.core] using hj)
        (find_none hnone) ?_ ?_ ?_
      · intro x hx; simp only [G.core] at hx ⊢; split
        · exact hx
        · exact mem_addUnique _ _ _ hx
      · intro x hx; simp only [G.core] at hx ⊢; split
        · exact mem_addUnique _ _ _ hx
        · exact hx
      · cases d
        · left; simp [self_mem_addUnique]
        · right; simp [self_mem_addUnique]

theorem step_finishMem (g : G) (i : Nat) (o : Outcome) : CStep g.core (g.finishMem i o).1.core := by
  unfold G.finishMem
  cases hf : g.find i with
  | none => exact CStep.refl _
  | some m =>
    simp only []
    split
    · exact CStep.refl _
    · split
      · exact CStep.fin g.core i o g.pending (fun x hx _ => hx)
      · rw [core_release]
        refine CStep.fin g.core i o _ ?_
        intro x hx hne
        simp only [G.setMem, List.mem_filter]
        exact ⟨hx, by simpa using hne⟩

theorem step_addChildren (g : G) (cs : List Child) : CStep g.core (g.addChildren cs).1.core := by
  induction cs generalizing g with
  | nil => exact CStep.refl _
  | cons c cs ih =>
    unfold G.addChildren
    cases h : g.add c.id c.daemon [] with
    | none => exact CStep.refl _
    | some g' => exact CStep.trans (step_add h) (ih g')

theorem step_deliverCancel (g : G) (i : Nat) : CStep g.core (g.deliverCancel i).1.core := by
  unfold G.deliverCancel
  cases hf : g.find i with
  | none => exact CStep.refl _
  | some m =>
    obtain ⟨hmem, hid⟩ := find_mem hf
    simp only []
    cases hs : m.status with
    | done => exact CStep.refl _
    | canc => exact step_finishMem g i .cancelled
    | run =>
      simp only []
      have h1 : CStep g.core (g.setMem i fun m => { m with status := .canc }).core :=
        CStep.canc g.core i m hmem hid hs
      have h2 := step_addChildren (g.setMem i fun m => { m with status := .canc }) m.children
      generalize (g.setMem i fun m => { m with status := .canc }).addChildren m.children = r at h2 ⊢
      obtain ⟨g2, refused⟩ := r
      cases refused with
      | nil => exact CStep.trans h1 h2
      | cons c cs => exact CStep.trans (CStep.trans h1 h2) (step_finishMem _ i .exc)

theorem step_deliverCancels (g : G) (l : List Nat) : CStep g.core (g.deliverCancels l).1.core := by
  induction l generalizing g with
  | nil => exact CStep.refl _
  | cons i is ih =>
    unfold G.deliverCancels
    exact CStep.trans (step_deliverCancel g i) (ih _)

end Aiorpcx.C09
