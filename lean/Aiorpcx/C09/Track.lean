import Aiorpcx.C09.React
import Aiorpcx.C09.JStep
/-! Book-keeping invariant of the TaskGroup model used by the progress proofs: every id in
`pending` is an unfinished non-daemon member, every id in `daemons` is a daemon member; member
statuses only move `run → canc → done` and members are never removed.

As in `Inv.lean` the primitives are first shown to act on the core by *exact* steps (`TStep`),
then the invariant and the monotonicity are proved once by induction over those steps. -/
namespace Aiorpcx.C09

def rank : Status → Nat
  | .run => 2 | .canc => 1 | .done => 0

inductive TStep : Core → Core → Prop where
  | refl (c) : TStep c c
  | add (c : Core) (i : Nat) (d : Bool) (ch : List Child) :
      c.joined = false → i ∉ c.mem.map (·.id) →
      TStep c ⟨c.mem ++ [⟨i, d, .run, .none, ch⟩],
               if d then c.pending else addUnique c.pending i,
               if d then addUnique c.daemons i else c.daemons, c.joined, c.fixed⟩
  | canc (c : Core) (i : Nat) (m0 : Mem) : m0 ∈ c.mem → m0.id = i → m0.status = .run →
      TStep c ⟨c.mem.map (fun m => if m.id == i then { m with status := .canc } else m),
               c.pending, c.daemons, c.joined, c.fixed⟩
  | finD (c : Core) (i : Nat) (o : Outcome) (m0 : Mem) : m0 ∈ c.mem → m0.id = i →
      m0.daemon = true → m0.status ≠ .done →
      TStep c ⟨c.mem.map (fun m => if m.id == i then { m with status := .done, outcome := o } else m),
               c.pending, c.daemons, c.joined, c.fixed⟩
  | finN (c : Core) (i : Nat) (o : Outcome) (m0 : Mem) : m0 ∈ c.mem → m0.id = i →
      m0.daemon = false → m0.status ≠ .done →
      TStep c ⟨c.mem.map (fun m => if m.id == i then { m with status := .done, outcome := o } else m),
               c.pending.filter (· != i), c.daemons, c.joined, c.fixed⟩
  | setJoined (c : Core) : TStep c ⟨c.mem, c.pending, c.daemons, true, c.fixed⟩
  | trans {a b c} : TStep a b → TStep b c → TStep a c

structure TInv (c : Core) : Prop where
  nodup : (c.mem.map (·.id)).Nodup
  pend : ∀ i ∈ c.pending, ∃ m ∈ c.mem, m.id = i ∧ m.daemon = false ∧ m.status ≠ .done
  daem : ∀ i ∈ c.daemons, ∃ m ∈ c.mem, m.id = i ∧ m.daemon = true

theorem mem_addUnique_iff (l : List Nat) (i x : Nat) : x ∈ addUnique l i ↔ x ∈ l ∨ x = i := by
  unfold addUnique
  split
  · rename_i h
    have hi : i ∈ l := by simpa using h
    constructor
    · exact Or.inl
    · rintro (h | rfl)
      · exact h
      · exact hi
  · simp

theorem TStep.fixed_eq {a b : Core} (h : TStep a b) : b.fixed = a.fixed := by
  induction h with
  | trans _ _ ih1 ih2 => rw [ih2, ih1]
  | _ => rfl

theorem TStep.preserves {a b : Core} (h : TStep a b) (ha : TInv a) : TInv b := by
  induction h with
  | refl c => exact ha
  | add c i d ch hj hfresh =>
    refine ⟨?_, ?_, ?_⟩
    · simp only [List.map_append, List.map_cons, List.map_nil]
      rw [List.nodup_append]
      refine ⟨ha.nodup, by simp, ?_⟩
      intro x hx y hy
      simp at hy; subst hy
      intro hxy; subst hxy; exact hfresh hx
    · intro x hx
      simp only [] at hx
      have old : x ∈ c.pending → ∃ m ∈ c.mem ++ [(⟨i, d, .run, .none, ch⟩ : Mem)],
          m.id = x ∧ m.daemon = false ∧ m.status ≠ .done := by
        intro h
        obtain ⟨m, hm, h1⟩ := ha.pend x h
        exact ⟨m, by simp [hm], h1⟩
      cases d with
      | true => exact old (by simpa using hx)
      | false =>
        simp only [Bool.false_eq_true, ↓reduceIte, mem_addUnique_iff] at hx
        rcases hx with hx | rfl
        · exact old hx
        · exact ⟨⟨x, false, .run, .none, ch⟩, by simp, rfl, rfl, by simp⟩
    · intro x hx
      simp only [] at hx
      have old : x ∈ c.daemons → ∃ m ∈ c.mem ++ [(⟨i, d, .run, .none, ch⟩ : Mem)],
          m.id = x ∧ m.daemon = true := by
        intro h
        obtain ⟨m, hm, h1⟩ := ha.daem x h
        exact ⟨m, by simp [hm], h1⟩
      cases d with
      | false => exact old (by simpa using hx)
      | true =>
        simp only [↓reduceIte, mem_addUnique_iff] at hx
        rcases hx with hx | rfl
        · exact old hx
        · exact ⟨⟨x, true, .run, .none, ch⟩, by simp, rfl, rfl⟩
  | canc c i m0 hmem hid hrun =>
    refine ⟨?_, ?_, ?_⟩
    · simp only []
      rw [map_ids_update _ _ _ (by intro m; rfl)]
      exact ha.nodup
    · intro x hx
      obtain ⟨m, hm, h1, h2, h3⟩ := ha.pend x hx
      refine ⟨_, List.mem_map_of_mem hm, ?_⟩
      split <;> simp [h1, h2, h3]
    · intro x hx
      obtain ⟨m, hm, h1, h2⟩ := ha.daem x hx
      refine ⟨_, List.mem_map_of_mem hm, ?_⟩
      split <;> simp [h1, h2]
  | finD c i o m0 hmem hid hd hnd =>
    refine ⟨?_, ?_, ?_⟩
    · simp only []
      rw [map_ids_update _ _ _ (by intro m; rfl)]
      exact ha.nodup
    · intro x hx
      obtain ⟨m, hm, h1, h2, h3⟩ := ha.pend x hx
      refine ⟨_, List.mem_map_of_mem hm, ?_⟩
      by_cases hmi : (m.id == i) = true
      · have : m = m0 := eq_of_nodup_map_ids _ ha.nodup m hm m0 hmem
          (by simp at hmi; rw [hmi, hid])
        rw [this, hd] at h2; cases h2
      · rw [if_neg hmi]; exact ⟨h1, h2, h3⟩
    · intro x hx
      obtain ⟨m, hm, h1, h2⟩ := ha.daem x hx
      refine ⟨_, List.mem_map_of_mem hm, ?_⟩
      split <;> simp [h1, h2]
  | finN c i o m0 hmem hid hd hnd =>
    refine ⟨?_, ?_, ?_⟩
    · simp only []
      rw [map_ids_update _ _ _ (by intro m; rfl)]
      exact ha.nodup
    · intro x hx
      simp only [List.mem_filter, bne_iff_ne, ne_eq] at hx
      obtain ⟨m, hm, h1, h2, h3⟩ := ha.pend x hx.1
      refine ⟨_, List.mem_map_of_mem hm, ?_⟩
      have hmi : ¬ (m.id == i) = true := by simp only [beq_iff_eq]; rw [h1]; exact hx.2
      rw [if_neg hmi]; exact ⟨h1, h2, h3⟩
    · intro x hx
      obtain ⟨m, hm, h1, h2⟩ := ha.daem x hx
      refine ⟨_, List.mem_map_of_mem hm, ?_⟩
      split <;> simp [h1, h2]
  | setJoined c => exact ⟨ha.nodup, ha.pend, ha.daem⟩
  | trans _ _ ih1 ih2 => exact ih2 (ih1 ha)

/-- members are never removed, keep their id and daemon flag, and their status only moves
`run → canc → done` -/
def MemLe (ms ms' : List Mem) : Prop :=
  ∀ m ∈ ms, ∃ m' ∈ ms', m'.id = m.id ∧ m'.daemon = m.daemon ∧ rank m'.status ≤ rank m.status

theorem MemLe.refl (ms : List Mem) : MemLe ms ms := fun m hm => ⟨m, hm, rfl, rfl, Nat.le_refl _⟩

theorem MemLe.trans {a b c : List Mem} (h1 : MemLe a b) (h2 : MemLe b c) : MemLe a c := by
  intro m hm
  obtain ⟨m1, hm1, e1, d1, r1⟩ := h1 m hm
  obtain ⟨m2, hm2, e2, d2, r2⟩ := h2 m1 hm1
  exact ⟨m2, hm2, by rw [e2, e1], by rw [d2, d1], Nat.le_trans r2 r1⟩

theorem memLe_update (ms : List Mem) (i : Nat) (f : Mem → Mem) (m0 : Mem)
    (hnd : (ms.map (·.id)).Nodup) (hm0 : m0 ∈ ms) (hid : m0.id = i)
    (hf : (f m0).id = m0.id ∧ (f m0).daemon = m0.daemon ∧ rank (f m0).status ≤ rank m0.status) :
    MemLe ms (ms.map fun m => if m.id == i then f m else m) := by
  intro m hm
  refine ⟨_, List.mem_map_of_mem hm, ?_⟩
  split
  · rename_i hmi
    have : m = m0 := eq_of_nodup_map_ids _ hnd m hm m0 hm0 (by simp at hmi; rw [hmi, hid])
    rw [this]; exact hf
  · exact ⟨rfl, rfl, Nat.le_refl _⟩

theorem TStep.memLe {a b : Core} (h : TStep a b) (ha : TInv a) : MemLe a.mem b.mem := by
  induction h with
  | refl c => exact MemLe.refl _
  | add c i d ch _ _ => intro m hm; exact ⟨m, by simp [hm], rfl, rfl, Nat.le_refl _⟩
  | canc c i m0 hm0 hid hrun =>
    exact memLe_update _ _ _ m0 ha.nodup hm0 hid ⟨rfl, rfl, by simp [rank, hrun]⟩
  | finD c i o m0 hm0 hid _ _ =>
    exact memLe_update _ _ _ m0 ha.nodup hm0 hid ⟨rfl, rfl, by simp [rank]⟩
  | finN c i o m0 hm0 hid _ _ =>
    exact memLe_update _ _ _ m0 ha.nodup hm0 hid ⟨rfl, rfl, by simp [rank]⟩
  | setJoined c => exact MemLe.refl _
  | trans h1 _ ih1 ih2 => exact (ih1 ha).trans (ih2 (h1.preserves ha))

/-! ## every primitive is a `TStep` -/

theorem tstep_add {g g' : G} {i : Nat} {d : Bool} {ch : List Child} (h : g.add i d ch = some g') :
    TStep g.core g'.core := by
  unfold G.add at h
  split at h
  · cases h
  · rename_i hj
    split at h
    · cases h
    · rename_i hf
      simp only [Option.some.injEq] at h
      subst h
      have hnone : g.find i = none := by
        cases hfi : g.find i with
        | none => rfl
        | some _ => simp [hfi] at hf
      exact TStep.add g.core i d ch (by simpa [G.core] using hj) (find_none hnone)

theorem tstep_finishMem (g : G) (i : Nat) (o : Outcome) : TStep g.core (g.finishMem i o).1.core := by
  unfold G.finishMem
  cases hf : g.find i with
  | none => exact TStep.refl _
  | some m =>
    obtain ⟨hmem, hid⟩ := find_mem hf
    simp only []
    split
    · exact TStep.refl _
    · rename_i hnd
      have hnd' : m.status ≠ .done := by simpa using hnd
      split
      · rename_i hd
        exact TStep.finD g.core i o m hmem hid hd hnd'
      · rename_i hd
        rw [core_release]
        exact TStep.finN g.core i o m hmem hid (by simpa using hd) hnd'

theorem tstep_addChildren (g : G) (cs : List Child) : TStep g.core (g.addChildren cs).1.core := by
  induction cs generalizing g with
  | nil => exact TStep.refl _
  | cons c cs ih =>
    unfold G.addChildren
    cases h : g.add c.id c.daemon [] with
    | none => exact TStep.refl _
    | some g' => exact TStep.trans (tstep_add h) (ih g')

theorem tstep_deliverCancel (g : G) (i : Nat) : TStep g.core (g.deliverCancel i).1.core := by
  unfold G.deliverCancel
  cases hf : g.find i with
  | none => exact TStep.refl _
  | some m =>
    obtain ⟨hmem, hid⟩ := find_mem hf
    simp only []
    cases hs : m.status with
    | done => exact TStep.refl _
    | canc => exact tstep_finishMem g i .cancelled
    | run =>
      simp only []
      have h1 : TStep g.core (g.setMem i fun m => { m with status := .canc }).core :=
        TStep.canc g.core i m hmem hid hs
      have h2 := tstep_addChildren (g.setMem i fun m => { m with status := .canc }) m.children
      generalize (g.setMem i fun m => { m with status := .canc }).addChildren m.children = r at h2 ⊢
      obtain ⟨g2, refused⟩ := r
      cases refused with
      | nil => exact TStep.trans h1 h2
      | cons c cs => exact TStep.trans (TStep.trans h1 h2) (tstep_finishMem _ i .exc)

theorem tstep_deliverCancels (g : G) (l : List Nat) : TStep g.core (g.deliverCancels l).1.core := by
  induction l generalizing g with
  | nil => exact TStep.refl _
  | cons i is ih =>
    unfold G.deliverCancels
    exact TStep.trans (tstep_deliverCancel g i) (ih _)

theorem tstep_jstep {g : G} {perm : List Nat} {j : Joiner} {g' : G} {o : List Obs}
    (h : JStep g perm j g' o) : TStep g.core g'.core := by
  cases h with
  | crSweep _ _ => exact tstep_deliverCancels g _
  | crDone _ _ _ _ => exact TStep.refl _
  | pop _ _ => rw [core_joinerPop]; exact TStep.refl _
  | nowait _ _ _ => exact TStep.refl _
  | nothingLeft _ _ _ _ _ => exact TStep.refl _
  | park _ _ _ _ _ => exact TStep.refl _
  | acquire _ _ _ _ _ _ => exact TStep.refl _
  | finExit _ _ _ => exact TStep.setJoined g.core
  | finSweep _ _ _ => exact tstep_deliverCancels g _
  | finClear _ _ _ _ => exact TStep.refl _

theorem tstep_runJoiner (perm : List Nat) : ∀ (fuel : Nat) (g : G), g.fixed = true →
    TStep g.core (g.runJoiner perm fuel).1.core
  | 0, g, _ => TStep.refl _
  | fuel + 1, g, hfix => by
    unfold G.runJoiner
    cases h : g.joinerStep perm with
    | none => exact TStep.refl _
    | some r =>
      obtain ⟨g1, o1⟩ := r
      obtain ⟨j, _, _, hs⟩ := joinerStep_inv hfix h
      have h1 := tstep_jstep hs
      have hfix1 : g1.fixed = true := by
        have := h1.fixed_eq; simp only [G.core] at this; rw [this, hfix]
      exact TStep.trans h1 (tstep_runJoiner perm fuel g1 hfix1)

theorem tstep_apply (g : G) (a : Action) : TStep g.core (g.apply a).1.core := by
  unfold G.apply
  cases a with
  | spawn i d ch =>
    simp only []
    cases h : g.add i d ch with
    | none => exact TStep.refl _
    | some g' => exact tstep_add h
  | finish i o p => simp only []; split; exact tstep_finishMem g i o; exact TStep.refl _
  | extCancel i p => simp only []; split; exact tstep_deliverCancel g i; exact TStep.refl _
  | finCancel i p => simp only []; split; exact tstep_finishMem g i _; exact TStep.refl _
  | join p => simp only []; split <;> exact TStep.refl _
  | ctxExit r p => simp only []; split <;> exact TStep.refl _
  | cancelJoiner p =>
    simp only []
    cases hj : g.joiner with
    | none => exact TStep.refl _
    | some j =>
      simp only []
      cases hp : j.phase with
      | exited => exact TStep.refl _
      | next =>
        simp only []
        split
        · simp only [core_setJ]
          rw [core_release]; exact TStep.refl _
        · exact TStep.refl _
      | fin => exact TStep.refl _
      | cancelrem => exact TStep.refl _
  | nextDone k p =>
    simp only []
    split
    · exact TStep.refl _
    · split
      · exact TStep.refl _
      · rw [core_wake]; exact TStep.refl _
  | cancelRem p => exact tstep_deliverCancels g _

theorem tstep_react (g : G) (a : Action) (hfix : g.fixed = true) :
    TStep g.core (react g a).1.core := by
  unfold react
  have h1 := tstep_apply g a
  have hfix1 : (g.apply a).1.fixed = true := by
    have := h1.fixed_eq; simp only [G.core] at this; rw [this, hfix]
  exact TStep.trans h1 (tstep_runJoiner _ _ _ hfix1)

theorem tinv_init (p : Policy) : TInv (G.core { wait := p }) :=
  ⟨by simp [G.core], by intro i hi; simp [G.core] at hi, by intro i hi; simp [G.core] at hi⟩

end Aiorpcx.C09
