import Aiorpcx.C09.Model
/-! One step of the joiner's algorithm (`G.joinerStep`, repaired `join()`) as an inductive relation
with one constructor per branch, plus the inversion lemma `joinerStep_inv` and the
characterisation of quiescence `joinerStep_none_iff`.  The progress / termination proofs case on
`JStep` instead of re-splitting the definition each time. -/
namespace Aiorpcx.C09

/-- what the repaired clean-up looks at: the members of `_pending | daemons` that are not done -/
def G.rem (g : G) : List Nat :=
  g.unfinished (g.pending ++ g.daemons.filter (fun i => !g.pending.contains i))

inductive JStep (g : G) (perm : List Nat) (j : Joiner) : G → List Obs → Prop where
  /-- `cancel_remaining()`: cancel `_pending`, start waiting for it -/
  | crSweep : j.phase = .cancelrem → j.snapshot = none →
      JStep g perm j
        (setJ (g.deliverCancels (orderBy perm g.pending)).1
          { j with snapshot := some (orderBy perm g.pending) })
        (g.deliverCancels (orderBy perm g.pending)).2
  /-- everything `cancel_remaining()` cancelled has finished: on to `join()` -/
  | crDone (snap : List Nat) : j.phase = .cancelrem → j.snapshot = some snap →
      (g.unfinished snap).isEmpty = true →
      JStep g perm j (setJ g { j with phase := .next, snapshot := none }) []
  /-- holds a permit: pop the done queue, run the body of the `join()` loop -/
  | pop : j.phase = .next → j.hasPermit = true →
      JStep g perm j (g.joinerPop j).1 (g.joinerPop j).2
  | nowait : j.phase = .next → j.hasPermit = false → g.wait = .nowait →
      JStep g perm j (setJ g { j with phase := .fin }) []
  /-- `next_done()` returns None: nothing queued, nothing pending -/
  | nothingLeft : j.phase = .next → j.hasPermit = false → g.wait ≠ .nowait →
      g.doneq = [] → g.pending = [] →
      JStep g perm j (setJ g { j with phase := .fin }) []
  | park : j.phase = .next → j.hasPermit = false → g.wait ≠ .nowait →
      ¬ (g.doneq = [] ∧ g.pending = []) → (g.sem = 0 ∨ g.waiters ≠ []) →
      JStep g perm j
        (setJ { g with waiters := g.waiters ++ [.joiner] } { j with blocked := true }) []
  | acquire : j.phase = .next → j.hasPermit = false → g.wait ≠ .nowait →
      ¬ (g.doneq = [] ∧ g.pending = []) → g.sem ≠ 0 → g.waiters = [] →
      JStep g perm j (setJ { g with sem := g.sem - 1 } { j with hasPermit := true }) []
  /-- clean-up: nobody unfinished is left: `joined = True`, join returns / re-raises -/
  | finExit : j.phase = .fin → j.snapshot = none → g.rem = [] →
      JStep g perm j (setJ { g with joined := true } { j with phase := .exited })
        [Obs.joinExit j.exc]
  /-- clean-up: cancel every unfinished member, start waiting for them -/
  | finSweep : j.phase = .fin → j.snapshot = none → g.rem ≠ [] →
      JStep g perm j
        (setJ (g.deliverCancels (orderBy perm g.rem)).1
          { j with snapshot := some (orderBy perm g.rem) })
        (g.deliverCancels (orderBy perm g.rem)).2
  /-- clean-up: everything the last sweep cancelled has finished: look again -/
  | finClear (snap : List Nat) : j.phase = .fin → j.snapshot = some snap →
      (g.unfinished snap).isEmpty = true →
      JStep g perm j (setJ g { j with snapshot := none }) []

theorem joinerPop_nil {g : G} (j : Joiner) (hd : g.doneq = []) :
    g.joinerPop j = (setJ g { j with phase := .fin, hasPermit := false }, []) := by
  unfold G.joinerPop; rw [hd]

theorem joinerPop_cons {g : G} (j : Joiner) {t : Nat} {rest : List Nat} (hd : g.doneq = t :: rest) :
    g.joinerPop j = (setJ (g.popT t rest)
      { j with phase := if g.stopAfter t rest then .fin else .next, hasPermit := false }, []) := by
  unfold G.joinerPop; rw [hd]

/-- inversion of `joinerStep` (repaired `join()`) -/
theorem joinerStep_inv {g : G} {perm : List Nat} {g' : G} {o : List Obs} (hfix : g.fixed = true)
    (h : g.joinerStep perm = some (g', o)) :
    ∃ j, g.joiner = some j ∧ j.blocked = false ∧ JStep g perm j g' o := by
  obtain ⟨wait, fixed, mem, pending, daemons, doneq, sem, waiters, completed, joined, joiner, log,
    popped, joinPopped⟩ := g
  dsimp only at hfix; subst hfix
  unfold G.joinerStep at h
  cases joiner with
  | none => simp at h
  | some j =>
    simp only [] at h
    obtain ⟨ph, sn, ex, bl, hpm, ab⟩ := j
    cases bl with
    | true => simp at h
    | false =>
      refine ⟨_, rfl, rfl, ?_⟩
      simp only [Bool.false_eq_true, ↓reduceIte] at h
      cases ph with
      | exited => simp at h
      | cancelrem =>
        cases sn with
        | none =>
          simp only [Option.some.injEq, Prod.mk.injEq] at h
          rw [← h.1, ← h.2]; exact JStep.crSweep rfl rfl
        | some snap =>
          simp only [] at h
          split at h
          · rename_i he
            simp only [Option.some.injEq, Prod.mk.injEq] at h
            rw [← h.1, ← h.2]; exact JStep.crDone snap rfl rfl he
          · cases h
      | next =>
        cases hpm with
        | true =>
          simp only [↓reduceIte, Option.some.injEq] at h
          rw [show g' = (G.joinerPop _ _).1 from (congrArg Prod.fst h).symm,
            show o = (G.joinerPop _ _).2 from (congrArg Prod.snd h).symm]
          exact JStep.pop rfl rfl
        | false =>
          simp only [Bool.false_eq_true, ↓reduceIte] at h
          split at h
          · rename_i hw
            simp only [Option.some.injEq, Prod.mk.injEq] at h
            rw [← h.1, ← h.2]; exact JStep.nowait rfl rfl (by simpa using hw)
          · rename_i hw
            have hw' : wait ≠ Policy.nowait := by simpa using hw
            split at h
            · rename_i he
              simp only [Bool.and_eq_true, List.isEmpty_iff] at he
              simp only [Option.some.injEq, Prod.mk.injEq] at h
              rw [← h.1, ← h.2]; exact JStep.nothingLeft rfl rfl hw' he.1 he.2
            · rename_i he
              have he' : ¬ (doneq = [] ∧ pending = []) := by
                simpa only [Bool.and_eq_true, List.isEmpty_iff] using he
              split at h
              · rename_i hs
                simp only [Option.some.injEq, Prod.mk.injEq] at h
                rw [← h.1, ← h.2]
                refine JStep.park rfl rfl hw' he' ?_
                simpa [List.isEmpty_iff] using hs
              · rename_i hs
                simp only [Option.some.injEq, Prod.mk.injEq] at h
                rw [← h.1, ← h.2]
                have hs' : sem ≠ 0 ∧ waiters = [] := by simpa [List.isEmpty_iff] using hs
                exact JStep.acquire rfl rfl hw' he' hs'.1 hs'.2
      | fin =>
        cases sn with
        | none =>
          simp only [] at h
          split at h
          · rename_i he
            simp only [Option.some.injEq, Prod.mk.injEq] at h
            rw [← h.1, ← h.2]
            refine JStep.finExit (j := ⟨.fin, none, ex, false, hpm, ab⟩) rfl rfl ?_
            simpa [G.rem, List.isEmpty_iff] using he
          · rename_i he
            simp only [Option.some.injEq, Prod.mk.injEq] at h
            rw [← h.1, ← h.2]
            refine JStep.finSweep (j := ⟨.fin, none, ex, false, hpm, ab⟩) rfl rfl ?_
            simpa [G.rem, List.isEmpty_iff] using he
        | some snap =>
          simp only [] at h
          split at h
          · rename_i he
            simp only [Option.some.injEq, Prod.mk.injEq] at h
            rw [← h.1, ← h.2]; exact JStep.finClear snap rfl rfl he
          · cases h

/-- **quiescence**: the joiner's algorithm cannot take a step exactly when there is no joiner, or
it is parked on the semaphore, or it has exited, or it is awaiting a snapshot of cancelled
members of which one is not done (the answer does not depend on `perm`) -/
def G.Quiescent (g : G) : Prop :=
  match g.joiner with
  | none => True
  | some j =>
    j.blocked = true ∨ j.phase = .exited ∨
      ((j.phase = .cancelrem ∨ j.phase = .fin) ∧
        ∃ snap, j.snapshot = some snap ∧ (g.unfinished snap).isEmpty = false)

theorem joinerStep_none_iff (g : G) (perm : List Nat) (hfix : g.fixed = true) :
    g.joinerStep perm = none ↔ g.Quiescent := by
  unfold G.joinerStep G.Quiescent
  cases hj : g.joiner with
  | none => simp
  | some j =>
    simp only []
    cases hb : j.blocked with
    | true => simp
    | false =>
      simp only [Bool.false_eq_true, ↓reduceIte, false_or]
      cases hp : j.phase with
      | exited => simp
      | cancelrem =>
        cases hs : j.snapshot with
        | none => simp
        | some snap =>
          simp only []
          cases hu : g.unfinished snap <;> simp [hu]
      | next =>
        simp only []
        cases hperm : j.hasPermit with
        | true => simp
        | false =>
          simp only [Bool.false_eq_true, ↓reduceIte]
          split
          · simp
          · split
            · simp
            · split <;> simp
      | fin =>
        cases hs : j.snapshot with
        | none =>
          simp only [hfix, ↓reduceIte]
          split <;> simp
        | some snap =>
          simp only [hfix, ↓reduceIte]
          cases hu : g.unfinished snap <;> simp [hu]

end Aiorpcx.C09
