import Aiorpcx.C09.Progress
/-! Shape of the joiner record in reachable states (holds with or without `next_done` callers):
in the `next_done` loop no snapshot is kept; a snapshot only names members of the group; only a
joiner in the loop of a waiting policy is ever parked. -/
namespace Aiorpcx.C09

/-- what `Semaphore.release()` does to a parked joiner -/
def woken (j : Joiner) : Joiner := { j with blocked := false, hasPermit := true }

/-- a primitive leaves the policy alone and the joiner record too, except that it may wake it -/
def JRel (g g' : G) : Prop :=
  g'.wait = g.wait ∧ (g'.joiner = g.joiner ∨ g'.joiner = g.joiner.map woken)

theorem JRel.refl (g : G) : JRel g g := ⟨rfl, Or.inl rfl⟩

theorem JRel.of_eq {g g' : G} (hw : g'.wait = g.wait) (hj : g'.joiner = g.joiner) : JRel g g' :=
  ⟨hw, Or.inl hj⟩

theorem JRel.trans {a b c : G} (h1 : JRel a b) (h2 : JRel b c) : JRel a c := by
  refine ⟨by rw [h2.1, h1.1], ?_⟩
  rcases h1.2 with e1 | e1 <;> rcases h2.2 with e2 | e2
  · left; rw [e2, e1]
  · right; rw [e2, e1]
  · right; rw [e2, e1]
  · right; rw [e2, e1]; cases a.joiner <;> rfl

theorem jrel_wake (g : G) (w : Waiter) : JRel g (g.wake w).1 := by
  unfold G.wake
  cases w with
  | joiner => exact ⟨rfl, Or.inr rfl⟩
  | consumer k => cases g.doneq <;> exact JRel.of_eq rfl rfl

theorem jrel_release (g : G) : JRel g g.release.1 := by
  unfold G.release
  cases hw : g.waiters with
  | nil => exact JRel.of_eq rfl rfl
  | cons w ws =>
    simp only []
    exact JRel.trans (JRel.of_eq (g := g) (g' := { g with waiters := ws }) rfl rfl) (jrel_wake _ w)

theorem jrel_finishMem (g : G) (i : Nat) (o : Outcome) : JRel g (g.finishMem i o).1 := by
  unfold G.finishMem
  cases hf : g.find i with
  | none => exact JRel.refl g
  | some m =>
    simp only []
    split
    · exact JRel.refl g
    · split
      · exact JRel.of_eq rfl rfl
      · exact JRel.trans (JRel.of_eq rfl rfl) (jrel_release _)

theorem jrel_add {g g' : G} {i : Nat} {d : Bool} {ch : List Child} (h : g.add i d ch = some g') :
    JRel g g' := by
  unfold G.add at h
  split at h
  · cases h
  · split at h
    · cases h
    · simp only [Option.some.injEq] at h; subst h; exact JRel.of_eq rfl rfl

theorem jrel_addChildren (g : G) (cs : List Child) : JRel g (g.addChildren cs).1 := by
  induction cs generalizing g with
  | nil => exact JRel.refl g
  | cons c cs ih =>
    unfold G.addChildren
    cases h : g.add c.id c.daemon [] with
    | none => exact JRel.refl g
    | some g' => exact JRel.trans (jrel_add h) (ih g')

theorem jrel_deliverCancel (g : G) (i : Nat) : JRel g (g.deliverCancel i).1 := by
  unfold G.deliverCancel
  cases hf : g.find i with
  | none => exact JRel.refl g
  | some m =>
    simp only []
    cases hs : m.status with
    | done => exact JRel.refl g
    | canc => exact jrel_finishMem g i .cancelled
    | run =>
      simp only []
      have h1 : JRel g (g.setMem i fun m => { m with status := .canc }) := JRel.of_eq rfl rfl
      have h2 := jrel_addChildren (g.setMem i fun m => { m with status := .canc }) m.children
      generalize (g.setMem i fun m => { m with status := .canc }).addChildren m.children = r at h2 ⊢
      obtain ⟨g2, refused⟩ := r
      cases refused with
      | nil => exact JRel.trans h1 h2
      | cons c cs => exact JRel.trans (JRel.trans h1 h2) (jrel_finishMem _ i .exc)

theorem jrel_deliverCancels (g : G) (l : List Nat) : JRel g (g.deliverCancels l).1 := by
  induction l generalizing g with
  | nil => exact JRel.refl g
  | cons i is ih =>
    rw [deliverCancels_cons]
    exact JRel.trans (jrel_deliverCancel g i) (ih _)

structure JInv (g : G) : Prop where
  nextSnap : ∀ j, g.joiner = some j → j.phase = .next → j.snapshot = none
  snapTracked : ∀ j snap, g.joiner = some j → j.snapshot = some snap →
    ∀ i ∈ snap, ∃ m ∈ g.mem, m.id = i
  blockedNext : ∀ j, g.joiner = some j → j.blocked = true → j.phase = .next ∧ g.wait ≠ .nowait

theorem jinv_of_jrel {g g' : G} (h : JInv g) (hr : JRel g g') (hm : MemLe g.mem g'.mem) :
    JInv g' := by
  have grow : ∀ i, (∃ m ∈ g.mem, m.id = i) → ∃ m ∈ g'.mem, m.id = i := by
    rintro i ⟨m, hmm, hid⟩
    obtain ⟨m', hm', e, _, _⟩ := hm m hmm
    exact ⟨m', hm', by rw [e, hid]⟩
  rcases hr.2 with e | e
  · refine ⟨?_, ?_, ?_⟩
    · intro j hj; rw [e] at hj; exact h.nextSnap j hj
    · intro j snap hj hs i hi; rw [e] at hj; exact grow i (h.snapTracked j snap hj hs i hi)
    · intro j hj hb; rw [e] at hj; rw [hr.1]; exact h.blockedNext j hj hb
  · cases hgj : g.joiner with
    | none =>
      rw [hgj] at e
      refine ⟨?_, ?_, ?_⟩ <;> (intro j; intros; simp_all)
    | some j0 =>
      rw [hgj] at e
      simp only [Option.map_some] at e
      refine ⟨?_, ?_, ?_⟩
      · intro j hj hp
        rw [e] at hj; simp only [Option.some.injEq] at hj; subst hj
        exact h.nextSnap j0 hgj hp
      · intro j snap hj hs i hi
        rw [e] at hj; simp only [Option.some.injEq] at hj; subst hj
        exact grow i (h.snapTracked j0 snap hgj hs i hi)
      · intro j hj hb
        rw [e] at hj; simp only [Option.some.injEq] at hj; subst hj
        simp [woken] at hb

theorem jinv_setJ (g : G) (j : Joiner) (h1 : j.phase = .next → j.snapshot = none)
    (h2 : ∀ snap, j.snapshot = some snap → ∀ i ∈ snap, ∃ m ∈ g.mem, m.id = i)
    (h3 : j.blocked = true → j.phase = .next ∧ g.wait ≠ .nowait) : JInv (setJ g j) := by
  refine ⟨?_, ?_, ?_⟩
  · intro j' hj'; simp only [setJ, Option.some.injEq] at hj'; subst hj'; exact h1
  · intro j' snap hj'; simp only [setJ, Option.some.injEq] at hj'; subst hj'; exact h2 snap
  · intro j' hj'; simp only [setJ, Option.some.injEq] at hj'; subst hj'; exact h3

theorem jinv_jstep {g : G} {perm : List Nat} {j : Joiner} {g' : G} {o : List Obs}
    (hj : g.joiner = some j) (hb : j.blocked = false) (h : JInv g) (ht : TInv g.core)
    (hs : JStep g perm j g' o) : JInv g' := by
  have inPend : ∀ i ∈ g.pending, ∃ m ∈ g.mem, m.id = i := by
    intro i hi; obtain ⟨m, hm, e, _⟩ := ht.pend i hi; exact ⟨m, hm, e⟩
  have inDaem : ∀ i ∈ g.daemons, ∃ m ∈ g.mem, m.id = i := by
    intro i hi; obtain ⟨m, hm, e, _⟩ := ht.daem i hi; exact ⟨m, hm, e⟩
  have growD : ∀ l i, (∃ m ∈ g.mem, m.id = i) → ∃ m ∈ (g.deliverCancels l).1.mem, m.id = i := by
    rintro l i ⟨m, hmm, hid⟩
    obtain ⟨m', hm', e, _, _⟩ := (tstep_deliverCancels g l).memLe ht m hmm
    exact ⟨m', hm', by rw [e, hid]⟩
  cases hs with
  | crSweep hp hsn =>
    apply jinv_setJ
    · intro hp'; simp [hp] at hp'
    · intro snap hsnap i hi
      simp only [Option.some.injEq] at hsnap; subst hsnap
      exact growD _ i (inPend i (orderBy_mem _ _ i hi))
    · intro hb'; simp [hb] at hb'
  | crDone snap hp hsn _ =>
    apply jinv_setJ
    · intro _; rfl
    · intro snap' hsnap; simp at hsnap
    · intro hb'; simp [hb] at hb'
  | pop hp hperm =>
    have hsn := h.nextSnap j hj hp
    unfold G.joinerPop
    cases g.doneq with
    | nil =>
      apply jinv_setJ
      · intro _; exact hsn
      · intro snap' hsnap; simp [hsn] at hsnap
      · intro hb'; simp [hb] at hb'
    | cons t rest =>
      apply jinv_setJ
      · intro _; exact hsn
      · intro snap' hsnap; simp [hsn] at hsnap
      · intro hb'; simp [hb] at hb'
  | nowait hp hperm _ =>
    have hsn := h.nextSnap j hj hp
    apply jinv_setJ
    · intro hp'; simp at hp'
    · intro snap' hsnap; simp [hsn] at hsnap
    · intro hb'; simp [hb] at hb'
  | nothingLeft hp hperm _ _ _ =>
    have hsn := h.nextSnap j hj hp
    apply jinv_setJ
    · intro hp'; simp at hp'
    · intro snap' hsnap; simp [hsn] at hsnap
    · intro hb'; simp [hb] at hb'
  | park hp hperm hw _ _ =>
    have hsn := h.nextSnap j hj hp
    apply jinv_setJ
    · intro _; exact hsn
    · intro snap' hsnap; simp [hsn] at hsnap
    · intro _; exact ⟨hp, hw⟩
  | acquire hp hperm _ _ _ _ =>
    have hsn := h.nextSnap j hj hp
    apply jinv_setJ
    · intro _; exact hsn
    · intro snap' hsnap; simp [hsn] at hsnap
    · intro hb'; simp [hb] at hb'
  | finExit hp hsn _ =>
    apply jinv_setJ
    · intro hp'; simp at hp'
    · intro snap' hsnap; simp [hsn] at hsnap
    · intro hb'; simp [hb] at hb'
  | finSweep hp hsn _ =>
    apply jinv_setJ
    · intro hp'; simp [hp] at hp'
    · intro snap hsnap i hi
      simp only [Option.some.injEq] at hsnap; subst hsnap
      have hi' := orderBy_mem _ _ i hi
      simp only [G.rem, G.unfinished, List.mem_filter, List.mem_append] at hi'
      rcases hi'.1 with hpd | hdm
      · exact growD _ i (inPend i hpd)
      · exact growD _ i (inDaem i hdm.1)
    · intro hb'; simp [hb] at hb'
  | finClear snap hp hsn _ =>
    apply jinv_setJ
    · intro hp'; simp [hp] at hp'
    · intro snap' hsnap; simp at hsnap
    · intro hb'; simp [hb] at hb'

theorem jinv_runJoiner (perm : List Nat) : ∀ (fuel : Nat) (g : G), g.fixed = true →
    TInv g.core → JInv g → JInv (g.runJoiner perm fuel).1
  | 0, _, _, _, h => h
  | fuel + 1, g, hfix, ht, h => by
    unfold G.runJoiner
    cases hs : g.joinerStep perm with
    | none => exact h
    | some r =>
      obtain ⟨g1, o1⟩ := r
      obtain ⟨j, hj, hb, hstep⟩ := joinerStep_inv hfix hs
      have hts := tstep_jstep hstep
      have hfix1 : g1.fixed = true := by
        have := hts.fixed_eq; simp only [G.core] at this; rw [this, hfix]
      exact jinv_runJoiner perm fuel g1 hfix1 (hts.preserves ht) (jinv_jstep hj hb h ht hstep)

theorem jinv_apply (g : G) (a : Action) (h : JInv g) (ht : TInv g.core) :
    JInv (g.apply a).1 := by
  have hm := (tstep_apply g a).memLe ht
  unfold G.apply at hm ⊢
  cases a with
  | spawn i d ch =>
    simp only [] at hm ⊢
    cases ha : g.add i d ch with
    | none => exact h
    | some g' => rw [ha] at hm; exact jinv_of_jrel h (jrel_add ha) hm
  | finish i o p =>
    simp only [] at hm ⊢
    split
    · rename_i hc; rw [if_pos hc] at hm; exact jinv_of_jrel h (jrel_finishMem g i o) hm
    · exact h
  | extCancel i p =>
    simp only [] at hm ⊢
    split
    · rename_i hc; rw [if_pos hc] at hm; exact jinv_of_jrel h (jrel_deliverCancel g i) hm
    · exact h
  | finCancel i p =>
    simp only [] at hm ⊢
    split
    · rename_i hc; rw [if_pos hc] at hm; exact jinv_of_jrel h (jrel_finishMem g i _) hm
    · exact h
  | join p =>
    simp only []
    split
    · exact jinv_setJ _ _ (fun _ => rfl) (fun s hs => by simp [newJoiner] at hs)
        (fun hb => by simp [newJoiner] at hb)
    · exact h
  | ctxExit r p =>
    simp only []
    split
    · exact jinv_setJ _ _ (fun _ => rfl) (fun s hs => by simp [newJoiner] at hs)
        (fun hb => by simp [newJoiner] at hb)
    · exact h
  | cancelJoiner p =>
    simp only []
    cases hj : g.joiner with
    | none => exact h
    | some j =>
      simp only []
      cases hp : j.phase with
      | exited => exact h
      | next =>
        simp only []
        have hsn := h.nextSnap j hj hp
        apply jinv_setJ
        · intro hp'; simp at hp'
        · intro snap hsnap; simp [hsn] at hsnap
        · intro hb'; simp at hb'
      | fin =>
        simp only []
        apply jinv_setJ
        · intro hp'; simp at hp'
        · intro snap hsnap; exact h.snapTracked j snap hj hsnap
        · intro hb'
          have := (h.blockedNext j hj hb').1
          rw [hp] at this; cases this
      | cancelrem =>
        simp only []
        apply jinv_setJ
        · intro hp'; simp at hp'
        · intro snap hsnap; exact h.snapTracked j snap hj hsnap
        · intro hb'
          have := (h.blockedNext j hj hb').1
          rw [hp] at this; cases this
  | nextDone k p =>
    simp only [] at hm ⊢
    split
    · exact h
    · split
      · exact jinv_of_jrel h (JRel.of_eq rfl rfl) (MemLe.refl _)
      · refine jinv_of_jrel h (JRel.trans (JRel.of_eq (g' := { g with sem := g.sem - 1 }) rfl rfl)
          (jrel_wake _ _)) ?_
        have : (G.wake { g with sem := g.sem - 1 } (.consumer k)).1.mem = g.mem := by
          have := core_wake { g with sem := g.sem - 1 } (.consumer k)
          simp only [G.core, Core.mk.injEq] at this
          exact this.1
        rw [this]; exact MemLe.refl _
  | cancelRem p =>
    simp only [] at hm ⊢
    exact jinv_of_jrel h (jrel_deliverCancels g _) hm

def Action.isJoinerAct : Action → Bool
  | .join _ | .ctxExit .. | .cancelJoiner _ => true
  | _ => false

/-- an action of the environment other than entering / cancelling the join leaves the joiner
record alone (it may wake it) -/
theorem jrel_apply (g : G) (a : Action) (ha : a.isJoinerAct = false) : JRel g (g.apply a).1 := by
  unfold G.apply
  cases a with
  | spawn i d ch =>
    simp only []
    cases h : g.add i d ch with
    | none => exact JRel.refl g
    | some g' => exact jrel_add h
  | finish i o p => simp only []; split; exact jrel_finishMem g i o; exact JRel.refl g
  | extCancel i p => simp only []; split; exact jrel_deliverCancel g i; exact JRel.refl g
  | finCancel i p => simp only []; split; exact jrel_finishMem g i _; exact JRel.refl g
  | join p => simp [Action.isJoinerAct] at ha
  | ctxExit r p => simp [Action.isJoinerAct] at ha
  | cancelJoiner p => simp [Action.isJoinerAct] at ha
  | nextDone k p =>
    simp only []
    split
    · exact JRel.refl g
    · split
      · exact JRel.of_eq rfl rfl
      · exact JRel.trans (JRel.of_eq (g' := { g with sem := g.sem - 1 }) rfl rfl) (jrel_wake _ _)
  | cancelRem p => exact jrel_deliverCancels g _

theorem jinv_init (p : Policy) : JInv { wait := p } :=
  ⟨by intro j hj; simp at hj, by intro j s hj; simp at hj, by intro j hj; simp at hj⟩

theorem jinv_react (g : G) (a : Action) (hg : Good g) (h : JInv g) : JInv (react g a).1 := by
  rw [react_fst]
  have h1 := good_apply g a hg
  exact jinv_runJoiner _ _ _ h1.fixed h1.tinv (jinv_apply g a h hg.tinv)

theorem jinv_runAll (g : G) (as : List Action) (hg : Good g) (h : JInv g) :
    JInv (runAll g as).1 := by
  induction as generalizing g with
  | nil => exact h
  | cons a as ih => simp only [runAll]; exact ih _ (good_react g a hg) (jinv_react g a hg h)

end Aiorpcx.C09
