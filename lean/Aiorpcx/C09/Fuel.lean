import Aiorpcx.C09.Track
import Aiorpcx.C10.Queue
/-!
# Termination of the joiner's algorithm: `G.fuel` is adequate

`react` runs the joiner (the `next_done` loop, then the repeated clean-up sweeps of the repaired
`join()`: "cancel every unfinished member, wait, look again") on fuel.  This file gives the
termination measure and proves that the fuel never runs out.

* potential `psi`: a running member weighs `3 + 3 * (number of children it spawns when cancelled)`
  (each child, once spawned, is a running member without children: 3), a member reacting to a
  cancellation 2, a finished one 0; plus 1 per queued entry of the done queue.  Delivering a
  cancellation to an unfinished member strictly lowers it (the children it adds are paid for by the
  parent), finishing a member lowers it (the queue entry is paid by the member's weight), a pop
  lowers it.
* measure `mu = 2 * psi + (phase constant)`: every `JStep` lowers it.
* `mu < G.fuel` in every state satisfying the queue invariant `LInv` (the done queue holds
  distinct finished members).
-/
namespace Aiorpcx.C09

def wMem (m : Mem) : Nat :=
  match m.status with
  | .run => 3 + 3 * m.children.length
  | .canc => 2
  | .done => 0

def wSum : List Mem → Nat
  | [] => 0
  | m :: ms => wMem m + wSum ms

def G.psi (g : G) : Nat := wSum g.mem + g.doneq.length

def NoOOF (o : List Obs) : Prop := Obs.outOfFuel ∉ o

theorem noOOF_nil : NoOOF [] := by simp [NoOOF]

theorem noOOF_append {a b : List Obs} (ha : NoOOF a) (hb : NoOOF b) : NoOOF (a ++ b) := by
  simp only [NoOOF, List.mem_append, not_or] at *
  exact ⟨ha, hb⟩

theorem wSum_append (a b : List Mem) : wSum (a ++ b) = wSum a + wSum b := by
  induction a with
  | nil => simp [wSum]
  | cons m ms ih => simp only [List.cons_append, wSum, ih]; omega

theorem map_upd_id (ms : List Mem) (i : Nat) (f : Mem → Mem) (h : ∀ x ∈ ms, x.id ≠ i) :
    ms.map (fun m => if m.id == i then f m else m) = ms := by
  induction ms with
  | nil => rfl
  | cons m ms ih =>
    simp only [List.map_cons]
    have hm : ¬ (m.id == i) = true := by simpa using h m (by simp)
    rw [if_neg hm, ih (fun x hx => h x (by simp [hx]))]

/-- replacing the (unique) member with id `i` by `f` of it changes the weight sum accordingly -/
theorem wSum_update (ms : List Mem) (i : Nat) (f : Mem → Mem) (m0 : Mem)
    (hnd : (ms.map (·.id)).Nodup) (hm0 : m0 ∈ ms) (hid : m0.id = i) :
    wSum (ms.map fun m => if m.id == i then f m else m) + wMem m0 = wSum ms + wMem (f m0) := by
  induction ms with
  | nil => simp at hm0
  | cons m ms ih =>
    simp only [List.map_cons, List.nodup_cons, List.mem_map, not_exists, not_and] at hnd
    simp only [List.mem_cons] at hm0
    rcases hm0 with rfl | hm0
    · have htail : ∀ x ∈ ms, x.id ≠ i := by
        intro x hx hxi
        exact hnd.1 x hx (by rw [hxi, hid])
      have hhead : (m0.id == i) = true := by simp [hid]
      simp only [List.map_cons, hhead, ↓reduceIte, wSum, map_upd_id ms i f htail]
      omega
    · have hne : ¬ (m.id == i) = true := by
        simp only [beq_iff_eq]
        intro hmi
        exact hnd.1 m0 hm0 (by rw [hid, hmi])
      have := ih hnd.2 hm0
      simp only [List.map_cons, if_neg hne, wSum]
      omega

theorem wSum_le (ms : List Mem) :
    wSum ms ≤ 3 * ms.length + 3 * (ms.map (·.children.length)).sum := by
  induction ms with
  | nil => simp [wSum]
  | cons m ms ih =>
    simp only [wSum, List.length_cons, List.map_cons, List.sum_cons]
    have : wMem m ≤ 3 + 3 * m.children.length := by
      unfold wMem; cases m.status <;> simp <;> omega
    omega

theorem wMem_ge_two {m : Mem} (h : m.status ≠ .done) : 2 ≤ wMem m := by
  unfold wMem
  cases hs : m.status with
  | done => exact absurd hs h
  | run => simp; omega
  | canc => simp

theorem psi_setMem (g : G) (i : Nat) (f : Mem → Mem) (m0 : Mem)
    (hnd : (g.mem.map (·.id)).Nodup) (hm0 : m0 ∈ g.mem) (hid : m0.id = i) :
    (g.setMem i f).psi + wMem m0 = g.psi + wMem (f m0) := by
  have := wSum_update g.mem i f m0 hnd hm0 hid
  simp only [G.psi, G.setMem]
  omega

theorem psi_wake (g : G) (w : Waiter) : NoOOF (g.wake w).2 ∧ (g.wake w).1.psi ≤ g.psi := by
  unfold G.wake
  cases w with
  | joiner => exact ⟨noOOF_nil, Nat.le_refl _⟩
  | consumer k =>
    cases hd : g.doneq with
    | nil => exact ⟨by simp [NoOOF], Nat.le_refl _⟩
    | cons t rest =>
      refine ⟨by simp [NoOOF], ?_⟩
      simp only [G.psi, hd, List.length_cons]
      omega

theorem psi_release (g : G) : NoOOF g.release.2 ∧ g.release.1.psi ≤ g.psi := by
  unfold G.release
  cases hw : g.waiters with
  | nil => exact ⟨noOOF_nil, Nat.le_refl _⟩
  | cons w ws => simp only []; exact psi_wake { g with waiters := ws } w

theorem psi_finishMem (g : G) (i : Nat) (o : Outcome) (hnd : (g.mem.map (·.id)).Nodup) :
    NoOOF (g.finishMem i o).2 ∧ (g.finishMem i o).1.psi ≤ g.psi ∧
    (∀ m, g.find i = some m → m.status ≠ .done → (g.finishMem i o).1.psi + 1 ≤ g.psi) := by
  unfold G.finishMem
  cases hf : g.find i with
  | none => exact ⟨noOOF_nil, Nat.le_refl _, fun m hm => by cases hm⟩
  | some m =>
    obtain ⟨hmem, hid⟩ := find_mem hf
    simp only []
    split
    · rename_i hdone
      refine ⟨noOOF_nil, Nat.le_refl _, ?_⟩
      intro m' hm' hnd'
      simp only [Option.some.injEq] at hm'
      subst hm'
      exact absurd (by simpa using hdone) hnd'
    · rename_i hnd'
      have hnd2 : m.status ≠ .done := by simpa using hnd'
      have hw := wMem_ge_two hnd2
      have key := psi_setMem g i (fun m => { m with status := .done, outcome := o }) m hnd hmem hid
      have hz : wMem ({ m with status := .done, outcome := o } : Mem) = 0 := rfl
      rw [hz] at key
      simp only [G.psi, G.setMem] at key
      split
      · refine ⟨noOOF_nil, ?_, fun _ _ _ => ?_⟩ <;> simp only [G.psi, G.setMem] <;> omega
      · refine ⟨(psi_release _).1, Nat.le_trans (psi_release _).2 ?_,
          fun _ _ _ => Nat.le_trans (Nat.add_le_add_right (psi_release _).2 1) ?_⟩ <;>
        simp only [G.psi, G.setMem, List.length_append, List.length_cons, List.length_nil] <;>
        omega

theorem psi_add {g g' : G} {i : Nat} {d : Bool} {ch : List Child} (h : g.add i d ch = some g') :
    g'.psi = g.psi + 3 + 3 * ch.length := by
  unfold G.add at h
  split at h
  · cases h
  · split at h
    · cases h
    · simp only [Option.some.injEq] at h
      subst h
      simp only [G.psi, wSum_append, wSum, wMem]
      omega

theorem psi_addChildren (g : G) (cs : List Child) :
    (g.addChildren cs).1.psi ≤ g.psi + 3 * cs.length := by
  induction cs generalizing g with
  | nil => simp [G.addChildren]
  | cons c cs ih =>
    unfold G.addChildren
    cases h : g.add c.id c.daemon [] with
    | none => simp only []; omega
    | some g' =>
      simp only []
      have h1 := psi_add h
      have h2 := ih g'
      simp only [List.length_nil, List.length_cons] at h1 ⊢
      omega

theorem psi_deliverCancel (g : G) (i : Nat) (hinv : TInv g.core) :
    NoOOF (g.deliverCancel i).2 ∧ (g.deliverCancel i).1.psi ≤ g.psi ∧
    (∀ m, g.find i = some m → m.status ≠ .done → (g.deliverCancel i).1.psi + 1 ≤ g.psi) := by
  have hnd : (g.mem.map (·.id)).Nodup := hinv.nodup
  unfold G.deliverCancel
  cases hf : g.find i with
  | none => exact ⟨noOOF_nil, Nat.le_refl _, fun m hm => by cases hm⟩
  | some m =>
    obtain ⟨hmem, hid⟩ := find_mem hf
    simp only []
    cases hs : m.status with
    | done =>
      refine ⟨noOOF_nil, Nat.le_refl _, ?_⟩
      intro m' hm' hnd'
      simp only [Option.some.injEq] at hm'
      subst hm'
      exact absurd hs hnd'
    | canc =>
      have := psi_finishMem g i .cancelled hnd
      refine ⟨this.1, this.2.1, ?_⟩
      intro m' hm' hnd'
      exact this.2.2 m (by rw [hf]) (by rw [hs]; simp)
    | run =>
      simp only []
      have key := psi_setMem g i (fun m => { m with status := .canc }) m hnd hmem hid
      have hw1 : wMem m = 3 + 3 * m.children.length := by simp [wMem, hs]
      have hw2 : wMem ({ m with status := .canc } : Mem) = 2 := rfl
      rw [hw1, hw2] at key
      have h1 : TStep g.core (g.setMem i fun m => { m with status := .canc }).core :=
        TStep.canc g.core i m hmem hid hs
      have h2 := tstep_addChildren (g.setMem i fun m => { m with status := .canc }) m.children
      have hp := psi_addChildren (g.setMem i fun m => { m with status := .canc }) m.children
      generalize (g.setMem i fun m => { m with status := .canc }).addChildren m.children = r
        at h2 hp ⊢
      obtain ⟨g2, refused⟩ := r
      simp only [] at hp h2
      cases refused with
      | nil =>
        simp only []
        refine ⟨by simp [NoOOF], by omega, fun _ _ _ => by omega⟩
      | cons c cs =>
        simp only []
        have hinv2 : TInv g2.core := (TStep.trans h1 h2).preserves hinv
        have hfin := psi_finishMem g2 i .exc hinv2.nodup
        refine ⟨?_, by omega, fun _ _ _ => by omega⟩
        have : NoOOF [Obs.cancelReceived i, Obs.spawnRefused c.id] := by simp [NoOOF]
        exact noOOF_append this hfin.1

theorem deliverCancels_cons (g : G) (i : Nat) (is : List Nat) :
    g.deliverCancels (i :: is) =
      (((g.deliverCancel i).1.deliverCancels is).1,
       (g.deliverCancel i).2 ++ ((g.deliverCancel i).1.deliverCancels is).2) := rfl

theorem psi_deliverCancels (g : G) (l : List Nat) (hinv : TInv g.core) :
    NoOOF (g.deliverCancels l).2 ∧ (g.deliverCancels l).1.psi ≤ g.psi ∧
    (∀ i is m, l = i :: is → g.find i = some m → m.status ≠ .done →
      (g.deliverCancels l).1.psi + 1 ≤ g.psi) := by
  induction l generalizing g with
  | nil => exact ⟨noOOF_nil, Nat.le_refl _, fun i is m h => by cases h⟩
  | cons i is ih =>
    rw [deliverCancels_cons]
    have h1 := psi_deliverCancel g i hinv
    have hinv1 : TInv (g.deliverCancel i).1.core := (tstep_deliverCancel g i).preserves hinv
    have h2 := ih (g.deliverCancel i).1 hinv1
    simp only []
    refine ⟨noOOF_append h1.1 h2.1, by have := h1.2.1; have := h2.2.1; omega, ?_⟩
    intro i' is' m hl hf hnd
    simp only [List.cons.injEq] at hl
    obtain ⟨rfl, rfl⟩ := hl
    have := h1.2.2 m hf hnd
    have := h2.2.1
    omega

/-! ## the measure -/

def G.mu (g : G) : Nat :=
  match g.joiner with
  | none => 0
  | some j =>
    if j.blocked then 0 else
    match j.phase with
    | .exited => 0
    | .cancelrem => 2 * g.psi + 5 + (if j.snapshot.isNone then 1 else 0)
    | .next => 2 * g.psi + 3 + (if j.hasPermit then 0 else 1)
    | .fin => 2 * g.psi + 1 + (if j.snapshot.isSome then 1 else 0)

theorem orderBy_mem (perm snap : List Nat) : ∀ x ∈ orderBy perm snap, x ∈ snap := by
  intro x hx
  simp only [orderBy, List.mem_append, List.mem_filter, List.contains_eq_mem,
    decide_eq_true_eq] at hx
  rcases hx with h | h
  · exact h.2
  · exact h.1

theorem orderBy_ne_nil (perm snap : List Nat) (h : snap ≠ []) : orderBy perm snap ≠ [] := by
  cases snap with
  | nil => exact absurd rfl h
  | cons r rs =>
    intro he
    have hr : r ∈ orderBy perm (r :: rs) := by
      simp only [orderBy, List.mem_append, List.mem_filter, List.contains_eq_mem,
        decide_eq_true_eq, Bool.not_eq_true', decide_eq_false_iff_not]
      by_cases hp : r ∈ perm
      · exact Or.inl ⟨hp, by simp⟩
      · exact Or.inr ⟨by simp, hp⟩
    rw [he] at hr
    simp at hr

/-- an element of `rem` is an existing member that has not finished -/
theorem rem_unfinished (g : G) (hinv : TInv g.core) (x : Nat) (hx : x ∈ g.rem) :
    ∃ m, g.find x = some m ∧ m.status ≠ .done := by
  simp only [G.rem, G.unfinished, List.mem_filter, List.mem_append, List.contains_eq_mem,
    Bool.not_eq_true', decide_eq_false_iff_not] at hx
  obtain ⟨hin, hnd⟩ := hx
  have hex : ∃ m ∈ g.mem, m.id = x := by
    rcases hin with h | h
    · obtain ⟨m, hm, h1, _⟩ := hinv.pend x h; exact ⟨m, hm, h1⟩
    · obtain ⟨m, hm, h1, _⟩ := hinv.daem x h.1; exact ⟨m, hm, h1⟩
  obtain ⟨m, hm, hid⟩ := hex
  have hf : g.find x = some m := by rw [← hid]; exact find_of_mem hinv.nodup hm
  refine ⟨m, hf, ?_⟩
  intro hd
  simp [G.isDone, G.statusOf, hf, hd] at hnd

theorem psi_setJ (g : G) (j : Joiner) : (setJ g j).psi = g.psi := rfl

/-- **every step of the joiner's algorithm lowers the measure** -/
theorem mu_jstep {g : G} {perm : List Nat} {j : Joiner} {g' : G} {o : List Obs}
    (hj : g.joiner = some j) (hb : j.blocked = false) (hinv : TInv g.core)
    (h : JStep g perm j g' o) : NoOOF o ∧ g'.mu + 1 ≤ g.mu := by
  obtain ⟨ph, sn, ex, bl, hpm, ab⟩ := j
  simp only [] at hb; subst hb
  cases h with
  | crSweep hp hs =>
    simp only [] at hp hs; subst hp; subst hs
    have hd := psi_deliverCancels g (orderBy perm g.pending) hinv
    refine ⟨hd.1, ?_⟩
    simp only [G.mu, hj, setJ]
    have : (setJ (g.deliverCancels (orderBy perm g.pending)).1
      ⟨.cancelrem, some (orderBy perm g.pending), ex, false, hpm, ab⟩).psi ≤ g.psi := hd.2.1
    simp only [setJ, G.psi] at this ⊢
    simp
    omega
  | crDone snap hp hs _ =>
    simp only [] at hp hs; subst hp; subst hs
    refine ⟨noOOF_nil, ?_⟩
    simp only [G.mu, hj, setJ, G.psi]
    cases hpm <;> simp
  | pop hp hperm =>
    simp only [] at hp hperm; subst hp; subst hperm
    unfold G.joinerPop
    cases hd : g.doneq with
    | nil =>
      refine ⟨noOOF_nil, ?_⟩
      simp only [G.mu, hj, setJ, G.psi, hd]
      cases sn <;> simp
    | cons t rest =>
      refine ⟨noOOF_nil, ?_⟩
      simp only [G.mu, hj, setJ, G.psi, hd, G.popT, List.length_cons]
      cases g.stopAfter t rest <;> cases sn <;> simp <;> omega
  | nowait hp hperm _ =>
    simp only [] at hp hperm; subst hp; subst hperm
    refine ⟨noOOF_nil, ?_⟩
    simp only [G.mu, hj, setJ, G.psi]
    cases sn <;> simp
  | nothingLeft hp hperm _ _ _ =>
    simp only [] at hp hperm; subst hp; subst hperm
    refine ⟨noOOF_nil, ?_⟩
    simp only [G.mu, hj, setJ, G.psi]
    cases sn <;> simp
  | park hp hperm _ _ _ =>
    simp only [] at hp hperm; subst hp; subst hperm
    refine ⟨noOOF_nil, ?_⟩
    simp [G.mu, hj, setJ]
  | acquire hp hperm _ _ _ _ =>
    simp only [] at hp hperm; subst hp; subst hperm
    refine ⟨noOOF_nil, ?_⟩
    simp [G.mu, hj, setJ, G.psi]
  | finExit hp hs _ =>
    simp only [] at hp hs; subst hp; subst hs
    refine ⟨by simp [NoOOF], ?_⟩
    simp [G.mu, hj, setJ]
  | finSweep hp hs hrem =>
    simp only [] at hp hs; subst hp; subst hs
    have hd := psi_deliverCancels g (orderBy perm g.rem) hinv
    refine ⟨hd.1, ?_⟩
    -- the first member cancelled is unfinished, so the potential drops
    have hne := orderBy_ne_nil perm g.rem hrem
    cases hob : orderBy perm g.rem with
    | nil => exact absurd hob hne
    | cons x xs =>
      have hx : x ∈ g.rem := orderBy_mem perm g.rem x (by rw [hob]; simp)
      obtain ⟨m, hf, hnd⟩ := rem_unfinished g hinv x hx
      have hstrict := hd.2.2 x xs m hob hf hnd
      rw [hob] at hstrict
      simp only [G.mu, hj, setJ, G.psi] at hstrict ⊢
      simp
      omega
  | finClear snap hp hs _ =>
    simp only [] at hp hs; subst hp; subst hs
    refine ⟨noOOF_nil, ?_⟩
    simp [G.mu, hj, setJ, G.psi]

/-- the joiner's algorithm reaches quiescence within `mu + 1` steps -/
theorem runJoiner_noOOF (perm : List Nat) : ∀ (fuel : Nat) (g : G), g.fixed = true →
    TInv g.core → g.mu < fuel → NoOOF (g.runJoiner perm fuel).2
  | 0, g, _, _, h => by omega
  | fuel + 1, g, hfix, hinv, h => by
    unfold G.runJoiner
    cases hs : g.joinerStep perm with
    | none => exact noOOF_nil
    | some r =>
      obtain ⟨g1, o1⟩ := r
      obtain ⟨j, hj, hb, hstep⟩ := joinerStep_inv hfix hs
      have hm := mu_jstep hj hb hinv hstep
      have ht := tstep_jstep hstep
      have hfix1 : g1.fixed = true := by
        have := ht.fixed_eq; simp only [G.core] at this; rw [this, hfix]
      have ih := runJoiner_noOOF perm fuel g1 hfix1 (ht.preserves hinv) (by omega)
      exact noOOF_append hm.1 ih

/-- ... and what it reaches then is quiescent -/
theorem runJoiner_quiescent (perm : List Nat) : ∀ (fuel : Nat) (g : G), g.fixed = true →
    NoOOF (g.runJoiner perm fuel).2 → (g.runJoiner perm fuel).1.Quiescent
  | 0, g, _, h => by simp [G.runJoiner, NoOOF] at h
  | fuel + 1, g, hfix, h => by
    unfold G.runJoiner at h ⊢
    cases hs : g.joinerStep perm with
    | none => exact (joinerStep_none_iff g perm hfix).1 hs
    | some r =>
      obtain ⟨g1, o1⟩ := r
      simp only [hs] at h
      obtain ⟨j, _, _, hstep⟩ := joinerStep_inv hfix hs
      have ht := tstep_jstep hstep
      have hfix1 : g1.fixed = true := by
        have := ht.fixed_eq; simp only [G.core] at this; rw [this, hfix]
      apply runJoiner_quiescent perm fuel g1 hfix1
      simp only [NoOOF, List.mem_append, not_or] at h ⊢
      exact h.2

/-! ## `mu < fuel` -/

theorem nodup_subset_length : ∀ (l1 l2 : List Nat), l1.Nodup → (∀ x ∈ l1, x ∈ l2) →
    l1.length ≤ l2.length
  | [], _, _, _ => by simp
  | a :: t, l2, hnd, hsub => by
    simp only [List.nodup_cons] at hnd
    have ha : a ∈ l2 := hsub a (by simp)
    have ht : ∀ x ∈ t, x ∈ l2.erase a := by
      intro x hx
      have hne : x ≠ a := by intro h; rw [h] at hx; exact hnd.1 hx
      exact (List.mem_erase_of_ne hne).2 (hsub x (by simp [hx]))
    have ih := nodup_subset_length t (l2.erase a) hnd.2 ht
    rw [List.length_erase_of_mem ha] at ih
    have : 0 < l2.length := List.length_pos_of_mem ha
    simp only [List.length_cons]
    omega

theorem doneq_le_mem (g : G) (hl : LInv g) : g.doneq.length ≤ g.mem.length := by
  have hnd : g.doneq.Nodup := by
    have := hl.nodup
    rw [← hl.queue] at this
    exact (List.nodup_append.1 this).2.1
  have hsub : ∀ x ∈ g.doneq, x ∈ g.mem.map (·.id) := by
    intro x hx
    have hlog : x ∈ g.log := by rw [← hl.queue]; simp [hx]
    have hd := hl.logDone x hlog
    cases hf : g.find x with
    | none => simp [G.statusOf, hf] at hd
    | some m =>
      obtain ⟨hm, hid⟩ := find_mem hf
      exact List.mem_map.2 ⟨m, hm, hid⟩
  have := nodup_subset_length _ _ hnd hsub
  simpa using this

theorem mu_lt_fuel (g : G) (hl : LInv g) : g.mu < g.fuel := by
  have h1 := wSum_le g.mem
  have h2 := doneq_le_mem g hl
  have hmu : g.mu ≤ 2 * g.psi + 6 := by
    unfold G.mu
    cases g.joiner with
    | none => simp
    | some j =>
      simp only []
      split
      · simp
      · split
        · simp
        · split <;> simp
        · split <;> simp
        · split <;> simp
  simp only [G.psi] at hmu
  simp only [G.fuel]
  omega

end Aiorpcx.C09
