import Aiorpcx.C09.Steps
/-! The joiner's algorithm and the reactive step preserve the core invariant. -/
namespace Aiorpcx.C09

theorem find_of_mem {g : G} (hnd : (g.mem.map (·.id)).Nodup) {m : Mem} (hm : m ∈ g.mem) :
    g.find m.id = some m := by
  unfold G.find
  cases h : g.mem.find? (·.id == m.id) with
  | none =>
    rw [List.find?_eq_none] at h
    exact absurd (by simp) (h m hm)
  | some m' =>
    have h1 := List.mem_of_find?_eq_some h
    have h2 : m'.id = m.id := by simpa using List.find?_some h
    rw [eq_of_nodup_map_ids _ hnd m' h1 m hm h2]

theorem allDone_of_rem_empty (g : G) (hinv : CInv g.core)
    (h : (g.unfinished (g.pending ++ g.daemons.filter (fun i => !g.pending.contains i))).isEmpty = true) :
    AllDone g.mem := by
  intro m hm
  apply Classical.byContradiction
  intro hnd
  have hcov := hinv.covered m hm hnd
  have hin : m.id ∈ g.pending ++ g.daemons.filter (fun i => !g.pending.contains i) := by
    simp only [List.mem_append, List.mem_filter]
    by_cases hp : m.id ∈ g.pending
    · exact Or.inl hp
    · rcases hcov with h1 | h1
      · exact absurd h1 hp
      · exact Or.inr ⟨h1, by simpa using hp⟩
  have hempty : g.unfinished (g.pending ++ g.daemons.filter (fun i => !g.pending.contains i)) = [] := by
    simpa using h
  unfold G.unfinished at hempty
  rw [List.filter_eq_nil_iff] at hempty
  have hd := hempty m.id hin
  simp only [G.isDone, G.statusOf, Bool.not_eq_true, Bool.not_eq_false] at hd
  rw [find_of_mem hinv.nodup hm] at hd
  simp at hd
  exact hnd hd

theorem step_joinerStep (g : G) (perm : List Nat) (hfix : g.fixed = true) (hinv : CInv g.core)
    {g' : G} {o : List Obs} (h : g.joinerStep perm = some (g', o)) : CStep g.core g'.core := by
  unfold G.joinerStep at h
  cases hj : g.joiner with
  | none => simp [hj] at h
  | some j =>
    simp only [hj] at h
    split at h
    · cases h
    · cases hp : j.phase with
      | exited => simp [hp] at h
      | cancelrem =>
        simp only [hp] at h
        cases hs : j.snapshot with
        | none =>
          simp only [hs, Option.some.injEq, Prod.mk.injEq] at h
          rw [← h.1]; simp only [core_setJ]
          exact step_deliverCancels g _
        | some snap =>
          simp only [hs] at h
          split at h
          · simp only [Option.some.injEq, Prod.mk.injEq] at h
            rw [← h.1]; exact CStep.refl _
          · cases h
      | next =>
        simp only [hp] at h
        split at h
        · simp only [Option.some.injEq] at h
          have := core_joinerPop g j
          rw [h] at this; rw [this]; exact CStep.refl _
        · split at h
          · simp only [Option.some.injEq, Prod.mk.injEq] at h
            rw [← h.1]; exact CStep.refl _
          · split at h
            · simp only [Option.some.injEq, Prod.mk.injEq] at h
              rw [← h.1]; exact CStep.refl _
            · split at h
              · simp only [Option.some.injEq, Prod.mk.injEq] at h
                rw [← h.1]; exact CStep.refl _
              · simp only [Option.some.injEq, Prod.mk.injEq] at h
                rw [← h.1]; exact CStep.refl _
      | fin =>
        simp only [hp] at h
        cases hs : j.snapshot with
        | none =>
          simp only [hs, hfix, ↓reduceIte] at h
          split at h
          · rename_i hrem
            simp only [Option.some.injEq, Prod.mk.injEq] at h
            rw [← h.1]; simp only [core_setJ]
            have := CStep.setJoined g.core (allDone_of_rem_empty g hinv hrem)
            simpa [G.core, hfix] using this
          · simp only [Option.some.injEq, Prod.mk.injEq] at h
            rw [← h.1]; simp only [core_setJ]
            exact step_deliverCancels g _
        | some snap =>
          simp only [hs, hfix, ↓reduceIte] at h
          split at h
          · simp only [Option.some.injEq, Prod.mk.injEq] at h
            rw [← h.1]; exact CStep.refl _
          · cases h

theorem step_runJoiner (perm : List Nat) : ∀ (fuel : Nat) (g : G), g.fixed = true → CInv g.core →
    CStep g.core (g.runJoiner perm fuel).1.core
  | 0, g, _, _ => CStep.refl _
  | fuel + 1, g, hfix, hinv => by
    unfold G.runJoiner
    cases h : g.joinerStep perm with
    | none => exact CStep.refl _
    | some r =>
      obtain ⟨g1, o1⟩ := r
      have h1 := step_joinerStep g perm hfix hinv h
      have hfix1 : g1.fixed = true := by have := h1.fixed_eq; simp only [G.core] at this; rw [this, hfix]
      exact CStep.trans h1 (step_runJoiner perm fuel g1 hfix1 (h1.preserves hinv))

theorem step_apply (g : G) (a : Action) : CStep g.core (g.apply a).1.core := by
  unfold G.apply
  cases a with
  | spawn i d ch =>
    simp only []
    cases h : g.add i d ch with
    | none => exact CStep.refl _
    | some g' => exact step_add h
  | finish i o p => simp only []; split; exact step_finishMem g i o; exact CStep.refl _
  | extCancel i p => simp only []; split; exact step_deliverCancel g i; exact CStep.refl _
  | finCancel i p => simp only []; split; exact step_finishMem g i _; exact CStep.refl _
  | join p => simp only []; split <;> exact CStep.refl _
  | ctxExit r p => simp only []; split <;> exact CStep.refl _
  | cancelJoiner p =>
    simp only []
    cases hj : g.joiner with
    | none => exact CStep.refl _
    | some j =>
      simp only []
      cases hp : j.phase with
      | exited => exact CStep.refl _
      | next =>
        simp only []
        split
        · simp only [core_setJ]
          rw [core_release]; exact CStep.refl _
        · exact CStep.refl _
      | fin => exact CStep.refl _
      | cancelrem => exact CStep.refl _
  | nextDone k p =>
    simp only []
    split
    · exact CStep.refl _
    · split
      · exact CStep.refl _
      · rw [core_wake]; exact CStep.refl _
  | cancelRem p => exact step_deliverCancels g _

theorem step_react (g : G) (a : Action) (hfix : g.fixed = true) (hinv : CInv g.core) :
    CStep g.core (react g a).1.core := by
  unfold react
  have h1 := step_apply g a
  have hfix1 : (g.apply a).1.fixed = true := by
    have := h1.fixed_eq; simp only [G.core] at this; rw [this, hfix]
  exact CStep.trans h1 (step_runJoiner _ _ _ hfix1 (h1.preserves hinv))

end Aiorpcx.C09
