import Aiorpcx.C09.Fuel
/-! Reachable states are `Good`; in a good state a reaction never runs out of fuel and ends in a
quiescent state (the joiner's algorithm has run to completion). -/
namespace Aiorpcx.C09

structure Good (g : G) : Prop where
  fixed : g.fixed = true
  tinv : TInv g.core
  linv : LInv g

theorem good_init (p : Policy) : Good { wait := p } :=
  ⟨rfl, tinv_init p, ⟨rfl, by simp, by intro i hi; simp at hi⟩⟩

theorem good_apply (g : G) (a : Action) (h : Good g) : Good (g.apply a).1 := by
  have ht := tstep_apply g a
  refine ⟨?_, ht.preserves h.tinv, linv_apply g a h.linv⟩
  have := ht.fixed_eq; simp only [G.core] at this; rw [this, h.fixed]

theorem good_react (g : G) (a : Action) (h : Good g) : Good (react g a).1 := by
  have ht := tstep_react g a h.fixed
  refine ⟨?_, ht.preserves h.tinv, linv_react g a h.linv⟩
  have := ht.fixed_eq; simp only [G.core] at this; rw [this, h.fixed]

theorem good_runAll (g : G) (as : List Action) (h : Good g) : Good (runAll g as).1 := by
  induction as generalizing g with
  | nil => exact h
  | cons a as ih => simp only [runAll]; exact ih _ (good_react g a h)

theorem apply_noOOF (g : G) (a : Action) (hinv : TInv g.core) : NoOOF (g.apply a).2 := by
  unfold G.apply
  cases a with
  | spawn i d ch => simp only []; cases g.add i d ch <;> simp [NoOOF]
  | finish i o p =>
    simp only []; split
    · exact (psi_finishMem g i o hinv.nodup).1
    · simp [NoOOF]
  | extCancel i p =>
    simp only []; split
    · exact (psi_deliverCancel g i hinv).1
    · simp [NoOOF]
  | finCancel i p =>
    simp only []; split
    · exact (psi_finishMem g i _ hinv.nodup).1
    · simp [NoOOF]
  | join p => simp only []; split <;> simp [NoOOF]
  | ctxExit r p => simp only []; split <;> simp [NoOOF]
  | cancelJoiner p =>
    simp only []
    cases hj : g.joiner with
    | none => simp [NoOOF]
    | some j =>
      simp only []
      cases hp : j.phase with
      | exited => simp [NoOOF]
      | next =>
        simp only []
        split
        · exact (psi_release _).1
        · exact noOOF_nil
      | fin => simp [NoOOF]
      | cancelrem => simp [NoOOF]
  | nextDone k p =>
    simp only []
    split
    · simp [NoOOF]
    · split
      · simp [NoOOF]
      · exact (psi_wake _ _).1
  | cancelRem p => exact (psi_deliverCancels g _ hinv).1

theorem react_noOOF (g : G) (a : Action) (h : Good g) : NoOOF (react g a).2 := by
  unfold react
  have h1 := good_apply g a h
  exact noOOF_append (apply_noOOF g a h.tinv)
    (runJoiner_noOOF _ _ _ h1.fixed h1.tinv (mu_lt_fuel _ h1.linv))

theorem react_fst (g : G) (a : Action) :
    (react g a).1 = ((g.apply a).1.runJoiner a.perm (g.apply a).1.fuel).1 := by
  unfold react; rfl

theorem react_snd (g : G) (a : Action) :
    (react g a).2 = (g.apply a).2 ++ ((g.apply a).1.runJoiner a.perm (g.apply a).1.fuel).2 := by
  unfold react; rfl

theorem react_quiescent (g : G) (a : Action) (h : Good g) : (react g a).1.Quiescent := by
  rw [react_fst]
  have h1 := good_apply g a h
  have := runJoiner_quiescent a.perm (g.apply a).1.fuel (g.apply a).1 h1.fixed
    (runJoiner_noOOF _ _ _ h1.fixed h1.tinv (mu_lt_fuel _ h1.linv))
  exact this

theorem runAll_noOOF (g : G) (as : List Action) (h : Good g) :
    ∀ o ∈ (runAll g as).2, NoOOF o := by
  induction as generalizing g with
  | nil => intro o ho; simp [runAll] at ho
  | cons a as ih =>
    intro o ho
    simp only [runAll, List.mem_cons] at ho
    rcases ho with rfl | ho
    · exact react_noOOF g a h
    · exact ih _ (good_react g a h) o ho

theorem runAll_quiescent (g : G) (as : List Action) (h : Good g) (hq : g.Quiescent) :
    (runAll g as).1.Quiescent := by
  induction as generalizing g with
  | nil => exact hq
  | cons a as ih =>
    simp only [runAll]
    exact ih _ (good_react g a h) (react_quiescent g a h)

end Aiorpcx.C09
