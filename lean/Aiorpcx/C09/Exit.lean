import Aiorpcx.C09.React
/-! A clean exit of the joiner (not the abandoned one of F11) implies `joined`. -/
namespace Aiorpcx.C09

def jview (g : G) : Bool × Option (Phase × Bool) := (g.joined, g.joiner.map fun j => (j.phase, j.abandoned))

theorem jview_wake (g : G) (w : Waiter) : jview (g.wake w).1 = jview g := by
  unfold G.wake
  cases w with
  | joiner => cases h : g.joiner <;> simp [jview, h]
  | consumer k => cases h : g.doneq <;> simp [jview]

theorem jview_release (g : G) : jview g.release.1 = jview g := by
  unfold G.release
  cases h : g.waiters with
  | nil => rfl
  | cons w ws => simp only []; rw [jview_wake]; rfl

theorem jview_finishMem (g : G) (i : Nat) (o : Outcome) : jview (g.finishMem i o).1 = jview g := by
  unfold G.finishMem
  cases hf : g.find i with
  | none => rfl
  | some m =>
    simp only []
    split
    · rfl
    · split
      · rfl
      · rw [jview_release]; rfl

theorem jview_add {g g' : G} {i : Nat} {d : Bool} {ch : List Child} (h : g.add i d ch = some g') :
    jview g' = jview g := by
  unfold G.add at h
  split at h
  · cases h
  · split at h
    · cases h
    · simp only [Option.some.injEq] at h; subst h; rfl

theorem jview_addChildren (g : G) (cs : List Child) : jview (g.addChildren cs).1 = jview g := by
  induction cs generalizing g with
  | nil => rfl
  | cons c cs ih =>
    unfold G.addChildren
    cases h : g.add c.id c.daemon [] with
    | none => rfl
    | some g' => simp only []; rw [ih g', jview_add h]

theorem jview_deliverCancel (g : G) (i : Nat) : jview (g.deliverCancel i).1 = jview g := by
  unfold G.deliverCancel
  cases hf : g.find i with
  | none => rfl
  | some m =>
    simp only []
    cases hs : m.status with
    | done => rfl
    | canc => exact jview_finishMem g i .cancelled
    | run =>
      simp only []
      have h2 := jview_addChildren (g.setMem i fun m => { m with status := .canc }) m.children
      generalize (g.setMem i fun m => { m with status := .canc }).addChildren m.children = r at h2 ⊢
      obtain ⟨g2, refused⟩ := r
      have h3 : jview (g.setMem i fun m => { m with status := .canc }) = jview g := rfl
      cases refused with
      | nil => simp only [] at h2 ⊢; rw [h2, h3]
      | cons c cs => simp only [] at h2 ⊢; rw [jview_finishMem, h2, h3]

theorem jview_deliverCancels (g : G) (l : List Nat) : jview (g.deliverCancels l).1 = jview g := by
  induction l generalizing g with
  | nil => rfl
  | cons i is ih => unfold G.deliverCancels; simp only []; rw [ih, jview_deliverCancel]

theorem ite_phase_ne (c : Prop) [Decidable c] :
    (if c then Phase.fin else Phase.next) ≠ Phase.exited := by split <;> simp

/-- a joiner that has exited without abandoning its members implies `joined` -/
def ExitClean (g : G) : Prop :=
  ∀ j, g.joiner = some j → j.phase = .exited → j.abandoned = false → g.joined = true

theorem exitClean_of_jview {g g' : G} (h : jview g' = jview g) (hg : ExitClean g) : ExitClean g' := by
  intro j hj hp ha
  simp only [jview, Prod.mk.injEq] at h
  obtain ⟨h1, h2⟩ := h
  rw [hj] at h2
  cases hgj : g.joiner with
  | none => rw [hgj] at h2; simp at h2
  | some j0 =>
    rw [hgj] at h2
    simp only [Option.map_some, Option.some.injEq, Prod.mk.injEq] at h2
    rw [h1]
    exact hg j0 hgj (by rw [← h2.1]; exact hp) (by rw [← h2.2]; exact ha)

theorem exitClean_setJ_of_ne (g : G) (j : Joiner) (h : j.phase ≠ .exited) : ExitClean (setJ g j) := by
  intro j' hj' hp _
  simp only [setJ, Option.some.injEq] at hj'
  subst hj'
  exact absurd hp h

theorem exitClean_joinerStep (g : G) (perm : List Nat) {g' : G} {o : List Obs}
    (h : g.joinerStep perm = some (g', o)) : ExitClean g' := by
  unfold G.joinerStep at h
  cases hj : g.joiner with
  | none => simp [hj] at h
  | some j =>
    simp only [hj] at h
    split at h
    · cases h
    · cases hp : j.phase with
      | exited => simp [hp] at h
      | cancelrem =>
        simp only [hp] at h
        cases hs : j.snapshot with
        | none =>
          simp only [hs, Option.some.injEq, Prod.mk.injEq] at h
          rw [← h.1]; exact exitClean_setJ_of_ne _ _ (by simp [hp])
        | some snap =>
          simp only [hs] at h
          split at h
          · simp only [Option.some.injEq, Prod.mk.injEq] at h
            rw [← h.1]; exact exitClean_setJ_of_ne _ _ (by simp)
          · cases h
      | next =>
        simp only [hp] at h
        split at h
        · simp only [Option.some.injEq] at h
          have hg' : g' = (g.joinerPop j).1 := by rw [h]
          rw [hg']
          unfold G.joinerPop
          cases g.doneq with
          | nil => exact exitClean_setJ_of_ne _ _ (by simp)
          | cons t rest =>
            simp only []; apply exitClean_setJ_of_ne; exact ite_phase_ne _
        · split at h
          · simp only [Option.some.injEq, Prod.mk.injEq] at h
            rw [← h.1]; exact exitClean_setJ_of_ne _ _ (by simp)
          · split at h
            · simp only [Option.some.injEq, Prod.mk.injEq] at h
              rw [← h.1]; exact exitClean_setJ_of_ne _ _ (by simp)
            · split at h
              · simp only [Option.some.injEq, Prod.mk.injEq] at h
                rw [← h.1]; exact exitClean_setJ_of_ne _ _ (by simp [hp])
              · simp only [Option.some.injEq, Prod.mk.injEq] at h
                rw [← h.1]; exact exitClean_setJ_of_ne _ _ (by simp [hp])
      | fin =>
        simp only [hp] at h
        cases hs : j.snapshot with
        | none =>
          simp only [hs] at h
          split at h
          · split at h
            · simp only [Option.some.injEq, Prod.mk.injEq] at h
              rw [← h.1]; intro _ _ _ _; rfl
            · simp only [Option.some.injEq, Prod.mk.injEq] at h
              rw [← h.1]; exact exitClean_setJ_of_ne _ _ (by simp [hp])
          · split at h
            · simp only [Option.some.injEq, Prod.mk.injEq] at h
              rw [← h.1]; intro _ _ _ _; rfl
            · simp only [Option.some.injEq, Prod.mk.injEq] at h
              rw [← h.1]; exact exitClean_setJ_of_ne _ _ (by simp [hp])
        | some snap =>
          simp only [hs] at h
          split at h
          · split at h
            · simp only [Option.some.injEq, Prod.mk.injEq] at h
              rw [← h.1]; exact exitClean_setJ_of_ne _ _ (by simp [hp])
            · simp only [Option.some.injEq, Prod.mk.injEq] at h
              rw [← h.1]; intro _ _ _ _; rfl
          · cases h

theorem exitClean_runJoiner (perm : List Nat) : ∀ (fuel : Nat) (g : G), ExitClean g →
    ExitClean (g.runJoiner perm fuel).1
  | 0, _, hg => hg
  | fuel + 1, g, hg => by
    unfold G.runJoiner
    cases h : g.joinerStep perm with
    | none => exact hg
    | some r =>
      obtain ⟨g1, o1⟩ := r
      exact exitClean_runJoiner perm fuel g1 (exitClean_joinerStep g perm h)

theorem exitClean_apply (g : G) (a : Action) (hg : ExitClean g) : ExitClean (g.apply a).1 := by
  unfold G.apply
  cases a with
  | spawn i d ch =>
    simp only []
    cases h : g.add i d ch with
    | none => exact hg
    | some g' => exact exitClean_of_jview (jview_add h) hg
  | finish i o p =>
    simp only []; split
    · exact exitClean_of_jview (jview_finishMem g i o) hg
    · exact hg
  | extCancel i p =>
    simp only []; split
    · exact exitClean_of_jview (jview_deliverCancel g i) hg
    · exact hg
  | finCancel i p =>
    simp only []; split
    · exact exitClean_of_jview (jview_finishMem g i _) hg
    · exact hg
  | join p =>
    simp only []; split
    · exact exitClean_setJ_of_ne _ _ (by simp [newJoiner])
    · exact hg
  | ctxExit r p =>
    simp only []; split
    · apply exitClean_setJ_of_ne; simp only [newJoiner]; split <;> simp
    · exact hg
  | cancelJoiner p =>
    simp only []
    cases hj : g.joiner with
    | none => exact hg
    | some j =>
      simp only []
      cases hp : j.phase with
      | exited => exact hg
      | next => simp only []; exact exitClean_setJ_of_ne _ _ (by simp)
      | fin =>
        intro j' hj' _ ha
        simp only [setJ, Option.some.injEq] at hj'
        subst hj'; simp at ha
      | cancelrem =>
        intro j' hj' _ ha
        simp only [setJ, Option.some.injEq] at hj'
        subst hj'; simp at ha
  | nextDone k p =>
    simp only []
    split
    · exact hg
    · split
      · exact exitClean_of_jview (by rfl) hg
      · exact exitClean_of_jview (by rw [jview_wake]; rfl) hg
  | cancelRem p => exact exitClean_of_jview (jview_deliverCancels g _) hg

theorem exitClean_react (g : G) (a : Action) (hg : ExitClean g) : ExitClean (react g a).1 := by
  unfold react
  exact exitClean_runJoiner _ _ _ (exitClean_apply g a hg)

end Aiorpcx.C09
