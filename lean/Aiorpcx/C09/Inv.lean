import Aiorpcx.C09.Model
/-! Invariants of the TaskGroup model that C09 needs: every unfinished member is tracked in
`pending ∪ daemons`, ids are unique, `joined` implies every member finished. -/
namespace Aiorpcx.C09

/-- the part of the state the C09 invariant talks about -/
structure Core where
  mem : List Mem
  pending : List Nat
  daemons : List Nat
  joined : Bool
  fixed : Bool

def G.core (g : G) : Core := ⟨g.mem, g.pending, g.daemons, g.joined, g.fixed⟩

def AllDone (ms : List Mem) : Prop := ∀ m ∈ ms, m.status = .done

structure CInv (c : Core) : Prop where
  nodup : (c.mem.map (·.id)).Nodup
  covered : ∀ m ∈ c.mem, m.status ≠ .done → m.id ∈ c.pending ∨ m.id ∈ c.daemons
  joinedDone : c.joined = true → AllDone c.mem

/-- steps of the core: how every primitive of the model acts on it -/
inductive CStep : Core → Core → Prop where
  | refl (c) : CStep c c
  | add (c : Core) (m : Mem) (p' d' : List Nat) :
      c.joined = false → m.id ∉ c.mem.map (·.id) →
      (∀ x ∈ c.pending, x ∈ p') → (∀ x ∈ c.daemons, x ∈ d') → (m.id ∈ p' ∨ m.id ∈ d') →
      CStep c ⟨c.mem ++ [m], p', d', c.joined, c.fixed⟩
  | canc (c : Core) (i : Nat) (m0 : Mem) :
      m0 ∈ c.mem → m0.id = i → m0.status = .run →
      CStep c ⟨c.mem.map (fun m => if m.id == i then { m with status := .canc } else m),
               c.pending, c.daemons, c.joined, c.fixed⟩
  | fin (c : Core) (i : Nat) (o : Outcome) (p' : List Nat) :
      (∀ x ∈ c.pending, x ≠ i → x ∈ p') →
      CStep c ⟨c.mem.map (fun m => if m.id == i then { m with status := .done, outcome := o } else m),
               p', c.daemons, c.joined, c.fixed⟩
  | setJoined (c : Core) : AllDone c.mem → CStep c ⟨c.mem, c.pending, c.daemons, true, c.fixed⟩
  | trans {a b c} : CStep a b → CStep b c → CStep a c

theorem map_ids_update (ms : List Mem) (i : Nat) (f : Mem → Mem) (hf : ∀ m, (f m).id = m.id) :
    (ms.map (fun m => if m.id == i then f m else m)).map (·.id) = ms.map (·.id) := by
  induction ms with
  | nil => rfl
  | cons m ms ih =>
    simp only [List.map_cons, ih]
    congr 1
    split <;> simp [hf]

theorem eq_of_nodup_map_ids : ∀ (ms : List Mem), (ms.map (·.id)).Nodup →
    ∀ x ∈ ms, ∀ y ∈ ms, x.id = y.id → x = y
  | [], _, x, hx, _, _, _ => by simp at hx
  | m :: ms, hnd, x, hx, y, hy, hxy => by
    simp only [List.map_cons, List.nodup_cons, List.mem_map, not_exists, not_and] at hnd
    simp only [List.mem_cons] at hx hy
    rcases hx with rfl | hx <;> rcases hy with rfl | hy
    · rfl
    · exact absurd hxy.symm (hnd.1 y hy)
    · exact absurd hxy (hnd.1 x hx)
    · exact eq_of_nodup_map_ids ms hnd.2 x hx y hy hxy

theorem CStep.fixed_eq {a b : Core} (h : CStep a b) : b.fixed = a.fixed := by
  induction h with
  | trans _ _ ih1 ih2 => rw [ih2, ih1]
  | _ => rfl

theorem CStep.preserves {a b : Core} (h : CStep a b) (ha : CInv a) : CInv b := by
  induction h with
  | refl c => exact ha
  | add c m p' d' hj hfresh hp hd hm =>
    refine ⟨?_, ?_, ?_⟩
    · simp only [List.map_append, List.map_cons, List.map_nil]
      rw [List.nodup_append]
      refine ⟨ha.nodup, by simp, ?_⟩
      intro x hx y hy
      simp at hy; subst hy
      intro hxy; subst hxy; exact hfresh hx
    · intro x hx hnd
      simp only [List.mem_append, List.mem_singleton] at hx
      rcases hx with hx | rfl
      · rcases ha.covered x hx hnd with h | h
        · exact Or.inl (hp _ h)
        · exact Or.inr (hd _ h)
      · exact hm
    · intro h; simp [hj] at h
  | canc c i m0 hmem hid hrun =>
    refine ⟨?_, ?_, ?_⟩
    · simp only []
      rw [map_ids_update _ _ _ (by intro m; rfl)]
      exact ha.nodup
    · intro x hx hnd
      simp only [List.mem_map] at hx
      obtain ⟨y, hy, rfl⟩ := hx
      have hne : y.status ≠ .done := by
        intro hyd
        by_cases hyi : (y.id == i) = true
        · -- y is the member with id i; ids are unique so y = m0, which is running
          have : y = m0 := by
            have hnd := ha.nodup
            have h1 : y.id = m0.id := by simp at hyi; rw [hyi, hid]
            exact eq_of_nodup_map_ids _ hnd y hy m0 hmem h1
          rw [this, hrun] at hyd; cases hyd
        · simp [hyi] at hnd; exact hnd hyd
      have := ha.covered y hy hne
      split <;> simpa using this
    · intro hj
      have hall := ha.joinedDone hj
      have := hall m0 hmem
      rw [hrun] at this; cases this
  | fin c i o p' hp =>
    refine ⟨?_, ?_, ?_⟩
    · simp only []
      rw [map_ids_update _ _ _ (by intro m; rfl)]
      exact ha.nodup
    · intro x hx hnd
      simp only [List.mem_map] at hx
      obtain ⟨y, hy, rfl⟩ := hx
      by_cases hyi : (y.id == i) = true
      · simp [hyi] at hnd
      · simp only [hyi] at hnd ⊢
        simp only [Bool.false_eq_true, ↓reduceIte] at hnd ⊢
        rcases ha.covered y hy hnd with h | h
        · exact Or.inl (hp _ h (by simpa using hyi))
        · exact Or.inr h
    · intro hj x hx
      simp only [List.mem_map] at hx
      obtain ⟨y, hy, rfl⟩ := hx
      have := ha.joinedDone hj y hy
      split <;> simp [this]
  | setJoined c hall => exact ⟨ha.nodup, ha.covered, fun _ => hall⟩
  | trans _ _ ih1 ih2 => exact ih2 (ih1 ha)

end Aiorpcx.C09
