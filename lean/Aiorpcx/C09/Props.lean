import Aiorpcx.C09.Exit
import Aiorpcx.C09.NoConsumer
import Aiorpcx.C09.Cleanup
import Aiorpcx.Facts.C09
/-!
# C09 — no task outlives its TaskGroup's join

Model: `Aiorpcx.C09.react` (see `Model.lean`).  The theorems quantify over **every** finite
sequence of environment actions (members and daemons spawned at any time, also by members that
are being cancelled; every outcome; external cancels; slow reactions; `join()` vs `__aexit__`
with or without a raising body; the joiner cancelled at any instant; `next_done()` callers), every
wait policy, and every order in which `_cancel_tasks` may iterate its set.
-/
namespace Aiorpcx.C09

/-- an empty group with wait policy `p` (the repaired `join()`) -/
def init (p : Policy) : G := { wait := p }

structure Reach (g : G) : Prop where
  fixed : g.fixed = true
  inv : CInv g.core
  exitClean : ExitClean g

theorem reach_init (p : Policy) : Reach (init p) :=
  ⟨rfl, ⟨by simp [init, G.core], by intro m hm; simp [init, G.core] at hm,
         by intro h; simp [init, G.core] at h⟩,
   by intro j hj; simp [init] at hj⟩

theorem reach_react (g : G) (a : Action) (h : Reach g) : Reach (react g a).1 := by
  have hs := step_react g a h.fixed h.inv
  refine ⟨?_, hs.preserves h.inv, exitClean_react g a h.exitClean⟩
  have := hs.fixed_eq
  simp only [G.core] at this
  rw [this, h.fixed]

theorem reach_runAll (g : G) (as : List Action) (h : Reach g) : Reach (runAll g as).1 := by
  induction as generalizing g with
  | nil => exact h
  | cons a as ih => simp only [runAll]; exact ih _ (reach_react g a h)

/-- **`joined` implies everybody finished.**  In every reachable state of every group, once
`join()` has completed (`joined = True`) every task ever placed in the group - daemonic or not,
also those spawned by members while they were being cancelled - has finished. -/
theorem joined_all_done (p : Policy) (as : List Action) :
    (runAll (init p) as).1.joined = true →
    ∀ m ∈ (runAll (init p) as).1.mem, m.status = .done :=
  (reach_runAll _ as (reach_init p)).inv.joinedDone

/-- **No task outlives the join.**  Whenever the joiner has left `join()` / `__aexit__` -
normally, because a member failed, because the body raised, or because the joining task was
cancelled - every member has finished; the one excluded exit is the joiner being cancelled
*again while it is awaiting the members it has cancelled* (`abandoned`, finding F11 below). -/
theorem join_exit_all_done (p : Policy) (as : List Action) (j : Joiner)
    (hj : (runAll (init p) as).1.joiner = some j) (hx : j.phase = .exited)
    (hclean : j.abandoned = false) :
    ∀ m ∈ (runAll (init p) as).1.mem, m.status = .done := by
  have hr := reach_runAll _ as (reach_init p)
  exact hr.inv.joinedDone (hr.exitClean j hj hx hclean)

/-- slow members are waited for: as long as some member has not finished, a joiner that has not
been cancelled a second time is still inside `join()` -/
theorem slow_members_waited (p : Policy) (as : List Action) (j : Joiner) (m : Mem)
    (hj : (runAll (init p) as).1.joiner = some j) (hclean : j.abandoned = false)
    (hm : m ∈ (runAll (init p) as).1.mem) (hrun : m.status ≠ .done) :
    j.phase ≠ .exited := by
  intro hx
  exact hrun (join_exit_all_done p as j hj hx hclean m hm)

/-- **Nothing can be added afterwards**: once joined, `spawn`/`add_task` is refused
(RuntimeError) and the group is unchanged. -/
theorem no_add_after_join (g : G) (i : Nat) (d : Bool) (ch : List Child) (h : g.joined = true) :
    g.apply (.spawn i d ch) = (g, [Obs.spawnRefused i]) := by
  simp [G.apply, G.add, h]

/-- ... and in a reachable joined group the whole reactive step changes nothing either -/
theorem no_add_after_join_react (g : G) (i : Nat) (d : Bool) (ch : List Child)
    (h : g.joined = true) : (react g (.spawn i d ch)).1.joined = true := by
  have h1 : (g.apply (.spawn i d ch)).1 = g := by rw [no_add_after_join g i d ch h]
  unfold react
  simp only []
  rw [h1]
  -- joined is never reset
  have key : ∀ (fuel : Nat) (g : G), g.joined = true → (g.runJoiner [] fuel).1.joined = true := by
    intro fuel
    induction fuel with
    | zero => intro g hg; exact hg
    | succ n ih =>
      intro g hg
      unfold G.runJoiner
      cases hs : g.joinerStep [] with
      | none => exact hg
      | some r =>
        obtain ⟨g1, o1⟩ := r
        simp only []
        apply ih
        -- every joiner step keeps `joined` or sets it
        have hv : (jview g1).1 = true ∨ g1.joined = true := by
          unfold G.joinerStep at hs
          cases hj : g.joiner with
          | none => simp [hj] at hs
          | some j =>
            simp only [hj] at hs
            split at hs
            · cases hs
            · cases hp : j.phase with
              | exited => simp [hp] at hs
              | cancelrem =>
                simp only [hp] at hs
                cases hsn : j.snapshot with
                | none =>
                  simp only [hsn, Option.some.injEq, Prod.mk.injEq] at hs
                  left; rw [← hs.1]
                  have := jview_deliverCancels g (orderBy [] g.pending)
                  simp only [jview, Prod.mk.injEq] at this
                  simpa [jview, setJ, hg] using this.1
                | some snap =>
                  simp only [hsn] at hs
                  split at hs
                  · simp only [Option.some.injEq, Prod.mk.injEq] at hs
                    right; rw [← hs.1]; exact hg
                  · cases hs
              | next =>
                simp only [hp] at hs
                split at hs
                · simp only [Option.some.injEq] at hs
                  right
                  have : g1 = (g.joinerPop j).1 := by rw [hs]
                  rw [this]; unfold G.joinerPop
                  cases g.doneq <;> exact hg
                · split at hs
                  · simp only [Option.some.injEq, Prod.mk.injEq] at hs; right; rw [← hs.1]; exact hg
                  · split at hs
                    · simp only [Option.some.injEq, Prod.mk.injEq] at hs; right; rw [← hs.1]; exact hg
                    · split at hs
                      · simp only [Option.some.injEq, Prod.mk.injEq] at hs; right; rw [← hs.1]; exact hg
                      · simp only [Option.some.injEq, Prod.mk.injEq] at hs; right; rw [← hs.1]; exact hg
              | fin =>
                simp only [hp] at hs
                cases hsn : j.snapshot with
                | none =>
                  simp only [hsn] at hs
                  split at hs
                  · split at hs
                    · simp only [Option.some.injEq, Prod.mk.injEq] at hs; right; rw [← hs.1]; rfl
                    · simp only [Option.some.injEq, Prod.mk.injEq] at hs
                      left; rw [← hs.1]
                      have := jview_deliverCancels g (orderBy [] (g.unfinished (g.pending ++ g.daemons.filter (fun i => !g.pending.contains i))))
                      simp only [jview, Prod.mk.injEq] at this
                      simpa [jview, setJ, hg] using this.1
                  · split at hs
                    · simp only [Option.some.injEq, Prod.mk.injEq] at hs; right; rw [← hs.1]; rfl
                    · simp only [Option.some.injEq, Prod.mk.injEq] at hs
                      left; rw [← hs.1]
                      have := jview_deliverCancels g (orderBy [] (g.pending ++ g.daemons.filter (fun i => !g.pending.contains i)))
                      simp only [jview, Prod.mk.injEq] at this
                      simpa [jview, setJ, hg] using this.1
                | some snap =>
                  simp only [hsn] at hs
                  split at hs
                  · split at hs
                    · simp only [Option.some.injEq, Prod.mk.injEq] at hs; right; rw [← hs.1]; exact hg
                    · simp only [Option.some.injEq, Prod.mk.injEq] at hs; right; rw [← hs.1]; rfl
                  · cases hs
        rcases hv with hv | hv
        · simpa [jview] using hv
        · exact hv
  exact key _ g h

/-- tie to the source (regenerated from /repo each run): exactly the four policies of the model
are admitted, and `join()`'s `finally:` sweeps in a loop before setting `joined` last - the shape
`G.joinerStep`'s `.fin` branch models with `fixed = true` -/
theorem facts_join_shape : Facts.C09.admittedPolicies = ["all", "any", "object", "none"] ∧
    Facts.C09.joinFinallyLoops = true ∧ Facts.C09.joinedSetLast = true := by decide

/-! ## Findings as kernel-checked witnesses -/

/-- **F10 (pinned tree; repaired by the `fix:` commit).**  With the pinned `finally:` clause - a
single `_cancel_tasks(self._pending | self.daemons)` - a member that spawns a new member while
it is being cancelled makes `join()` return with `joined = True` while the new member (100) is
still running. -/
theorem join_exit_all_done_fails_pinned :
    let g := (runAll { wait := .all, fixed := false }
      [.spawn 0 false [⟨100, false⟩], .spawn 1 false [], .join [],
       .finish 1 .exc [], .finCancel 0 []]).1
    g.joined = true ∧ g.statusOf 100 = some .run := by decide

/-- the same history on the repaired model: the join goes on to cancel 100 and is still waiting -/
example :
    let g := (runAll (init .all)
      [.spawn 0 false [⟨100, false⟩], .spawn 1 false [], .join [],
       .finish 1 .exc [], .finCancel 0 []]).1
    g.joined = false ∧ g.statusOf 100 = some .canc := by decide

/-- **F11 (known finding).**  The full statement - *every* exit of the joiner, including one
forced by a second cancellation - is false of the code: cancelling the joiner again while
`join()` awaits the (slow) members it has cancelled makes it raise with both members still
running. -/
def join_exit_all_done_full : Prop :=
  ∀ (p : Policy) (as : List Action) (j : Joiner),
    (runAll (init p) as).1.joiner = some j → j.phase = .exited →
    ∀ m ∈ (runAll (init p) as).1.mem, m.status = .done

theorem join_exit_all_done_full_fails : ¬ join_exit_all_done_full := by
  intro h
  have := h .all [.spawn 0 false [], .spawn 1 false [], .join [], .cancelJoiner [0, 1],
                  .cancelJoiner []]
    { phase := .exited, snapshot := some [0, 1], exc := true, blocked := false,
      hasPermit := false, abandoned := true } (by decide) rfl
    ⟨0, false, .canc, .none, []⟩ (by decide)
  cases this

/-! ## Non-vacuity -/

/-- a reachable, joined group with five finished tasks (member failure, a daemon, children
spawned during cancellation) -/
example :
    let g := (runAll (init .all)
      [.spawn 0 false [⟨100, false⟩, ⟨101, true⟩], .spawn 1 true [], .spawn 2 false [], .join [],
       .finish 2 .exc [0, 1], .finCancel 0 [], .finCancel 1 [], .extCancel 100 [100, 101],
       .finCancel 101 [], .finCancel 100 []]).1
    g.joined = true ∧ g.mem.length = 5 ∧ g.completed = some 2 := by decide

/-- joiner cancelled once: join re-raises after everybody finished -/
example :
    let r := runAll (init .all) [.spawn 0 false [], .join [], .cancelJoiner [0], .finCancel 0 []]
    r.1.joined = true ∧ r.2.getLast? = some [Obs.joinExit true] := by decide

/-! ## Progress: the joiner's algorithm terminates, and it only ever waits for unfinished members

(supporting files: `JStep` - the algorithm as a step relation; `Track` - book-keeping invariant;
`Fuel` - the termination measure; `Progress`, `JInv`, `NoConsumer`, `Cleanup`) -/

theorem good_reachable (p : Policy) (as : List Action) : Good (runAll (init p) as).1 :=
  good_runAll _ as (good_init p)

/-- **`G.fuel` is adequate - termination of `join()`'s algorithm.**  For every policy and every
action sequence, no reaction runs out of fuel: after each action of the environment the joiner's
algorithm - the `next_done` loop, then the repaired clean-up "cancel every unfinished member of
`_pending | daemons`, wait for them, look again, until none is left" - comes to rest within
`G.fuel` steps.  (Measure: `Fuel.lean`, `G.mu`; a running member weighs 3 plus 3 per child it
spawns when cancelled, a cancelled one 2, a queued finisher 1; every step lowers `mu`, and
`mu < G.fuel` by `mu_lt_fuel`.) -/
theorem fuel_adequate (p : Policy) (as : List Action) :
    ∀ o ∈ (runAll (init p) as).2, Obs.outOfFuel ∉ o :=
  runAll_noOOF _ as (good_init p)

/-- non-vacuity: a history with two clean-up sweeps (children spawned during cancellation, a
second cancellation) - nine reactions, none out of fuel, the last one is the join exit -/
example :
    let r := runAll (init .all)
      [.spawn 0 false [⟨100, false⟩, ⟨101, true⟩], .spawn 1 true [], .spawn 2 false [], .join [],
       .finish 2 .exc [0, 1], .finCancel 0 [], .finCancel 1 [], .extCancel 100 [100, 101],
       .finCancel 101 []]
    r.2.length = 9 ∧ (∀ o ∈ r.2, Obs.outOfFuel ∉ o) ∧ r.2.getLast? = some [Obs.joinExit false] := by
  decide

/-- the fuel bound is what makes the statement non-trivial: with too little fuel the same
algorithm does report `outOfFuel` -/
example : Obs.outOfFuel ∈ (G.runJoiner (setJ { wait := .all } (newJoiner .next)) [] 1).2 := by
  decide

/-- **every reaction runs to completion**: in every reachable state the joiner's algorithm has
nothing left to do - there is no joiner, or it is parked in `next_done()`, or it has exited, or
it is awaiting a snapshot of cancelled members one of which has not finished -/
theorem reaction_completes (p : Policy) (as : List Action) (perm : List Nat) :
    (runAll (init p) as).1.joinerStep perm = none := by
  have hg := good_reachable p as
  rw [joinerStep_none_iff _ perm hg.fixed]
  exact runAll_quiescent _ as (good_init p) (by simp [G.Quiescent, init])

/-- no `next_done()` caller at all: full semaphore accounting incl. `popped = joinPopped` -/
theorem ninv_reachable (p : Policy) (as : List Action) (hnc : ∀ a ∈ as, a.isNextDone = false) :
    NInv true (runAll (init p) as).1 :=
  ninv_runAll _ as hnc (good_init p) (ninv_init p)

/-- `next_done()` callers that never had to wait: the accounting still holds -/
theorem ninv_reachable_noParking (p : Policy) (as : List Action) (hnp : NoParking (init p) as) :
    NInv false (runAll (init p) as).1 :=
  ninv_runAll_noParking _ as hnp (good_init p) (ninv_init p)

theorem jinv_reachable (p : Policy) (as : List Action) : JInv (runAll (init p) as).1 :=
  jinv_runAll _ as (good_init p) (jinv_init p)

/-- **No stuck state.**  In a history in which no other task ever had to *wait* in
`next_done()` (`NoParking`: callers that are served at once are allowed - exactly the situation
of F12, a caller parked on the semaphore, is excluded), after any reaction a joiner that has not
exited is waiting for a member that has not finished: either it is parked in the `next_done`
loop and some *pending* (non-daemon, unfinished) member exists, or it is in
`cancel_remaining()` / the clean-up awaiting a snapshot of cancelled members of which one has
not finished. -/
theorem joiner_waits_only_for_unfinished_of_noParking (p : Policy) (as : List Action)
    (hnp : NoParking (init p) as) (j : Joiner)
    (hj : (runAll (init p) as).1.joiner = some j) (hne : j.phase ≠ .exited) :
    (j.phase = .next ∧ j.blocked = true ∧
      ∃ m ∈ (runAll (init p) as).1.mem, m.id ∈ (runAll (init p) as).1.pending ∧
        m.daemon = false ∧ m.status ≠ .done) ∨
    ((j.phase = .cancelrem ∨ j.phase = .fin) ∧
      ∃ snap, j.snapshot = some snap ∧
        ∃ m ∈ (runAll (init p) as).1.mem, m.id ∈ snap ∧ m.status ≠ .done) := by
  have hg := good_reachable p as
  have hn := ninv_reachable_noParking p as hnp
  have hji := jinv_reachable p as
  have hq : (runAll (init p) as).1.Quiescent :=
    runAll_quiescent _ as (good_init p) (by simp [G.Quiescent, init])
  generalize (runAll (init p) as).1 = g at *
  simp only [G.Quiescent, hj] at hq
  rcases hq with hb | hx | ⟨hph, snap, hsn, hun⟩
  · left
    refine ⟨(hji.blockedNext j hj hb).1, hb, ?_⟩
    obtain ⟨_, _, hpend⟩ := hn.blocked j hj hb
    cases hp : g.pending with
    | nil => exact absurd hp hpend
    | cons i is =>
      obtain ⟨m, hm, hid, hd, hs⟩ := hg.tinv.pend i (by simp [G.core, hp])
      exact ⟨m, hm, by rw [hid]; simp, hd, hs⟩
  · exact absurd hx hne
  · right
    refine ⟨hph, snap, hsn, ?_⟩
    cases hu : g.unfinished snap with
    | nil => rw [hu] at hun; simp at hun
    | cons i is =>
      have hi : i ∈ g.unfinished snap := by rw [hu]; simp
      simp only [G.unfinished, List.mem_filter, Bool.not_eq_true'] at hi
      obtain ⟨m, hm, hid⟩ := hji.snapTracked j snap hj hsn i hi.1
      refine ⟨m, hm, by rw [hid]; exact hi.1, ?_⟩
      intro hd
      have hf : g.find i = some m := by rw [← hid]; exact find_of_mem hg.tinv.nodup hm
      have := hi.2
      simp [G.isDone, G.statusOf, hf, hd] at this

/-- the same for histories without any `next_done()` caller (no `Action.nextDone`) -/
theorem joiner_waits_only_for_unfinished (p : Policy) (as : List Action)
    (hnc : ∀ a ∈ as, a.isNextDone = false) (j : Joiner)
    (hj : (runAll (init p) as).1.joiner = some j) (hne : j.phase ≠ .exited) :
    (j.phase = .next ∧ j.blocked = true ∧
      ∃ m ∈ (runAll (init p) as).1.mem, m.id ∈ (runAll (init p) as).1.pending ∧
        m.daemon = false ∧ m.status ≠ .done) ∨
    ((j.phase = .cancelrem ∨ j.phase = .fin) ∧
      ∃ snap, j.snapshot = some snap ∧
        ∃ m ∈ (runAll (init p) as).1.mem, m.id ∈ snap ∧ m.status ≠ .done) :=
  joiner_waits_only_for_unfinished_of_noParking p as (noParking_of_noNextDone _ as hnc) j hj hne

/-- `NoParking` is observable: a caller has to wait exactly when the action reports
`nextDoneBlocked`; here a caller that is served at once, before `join()` starts -/
example :
    NoParking (init .all) [.spawn 0 false [], .finish 0 .val [], .nextDone 7 [], .spawn 1 false [],
      .join [], .finish 1 .val []] ∧
    (runAll (init .all) [.spawn 0 false [], .finish 0 .val [], .nextDone 7 [], .spawn 1 false [],
      .join [], .finish 1 .val []]).1.joined = true := by
  refine ⟨?_, by decide⟩
  simp only [NoParking, Action.isNextDone]
  decide

/-- non-vacuity of both alternatives: parked in the loop waiting for member 1; in the clean-up
waiting for the slow member 0 -/
example :
    let g := (runAll (init .all) [.spawn 0 false [], .spawn 1 false [], .join [],
      .finish 0 .val []]).1
    g.joiner.map (fun j => (j.phase, j.blocked)) = some (.next, true) ∧ g.pending = [1] := by
  decide

example :
    let g := (runAll (init .any) [.spawn 0 false [], .spawn 1 false [], .join [],
      .finish 1 .val [0]]).1
    g.joiner.map (fun j => (j.phase, j.snapshot)) = some (.fin, some [0]) ∧
    g.statusOf 0 = some .canc := by decide

/-- **"Cancels the rest".**  In the reaction in which the joiner enters the clean-up of
`join()` (it was not there before - no joiner yet, in `cancel_remaining()`, or in the `next_done`
loop - and afterwards it is in the clean-up or has left by the regular exit), every member that
was in the group when the environment's action had been applied has received a cancellation or
has finished: none of them is still plainly running.  Holds with competing `next_done()`
callers too.  (Members spawned later in the same reaction by members being cancelled are caught
by the next sweep: `join_exit_all_done`.) -/
theorem cleanup_cancels_every_unfinished (p : Policy) (as : List Action) (a : Action)
    (hpre : ∀ j, (runAll (init p) as).1.joiner = some j → j.phase = .next ∨ j.phase = .cancelrem)
    (j' : Joiner) (hj' : (react (runAll (init p) as).1 a).1.joiner = some j')
    (hph : j'.phase = .fin ∨ j'.phase = .exited) (hab : j'.abandoned = false) :
    ∀ m ∈ ((runAll (init p) as).1.apply a).1.mem,
      ∃ m' ∈ (react (runAll (init p) as).1 a).1.mem, m'.id = m.id ∧ m'.status ≠ .run := by
  have hg := good_reachable p as
  have hr := reach_runAll _ as (reach_init p)
  have hji := jinv_reachable p as
  generalize (runAll (init p) as).1 = g at *
  have hg1 := good_apply g a hg
  have hc1 : CInv (g.apply a).1.core := (step_apply g a).preserves hr.inv
  have hji1 := jinv_apply g a hji hg.tinv
  have hno := runJoiner_noOOF a.perm _ _ hg1.fixed hg1.tinv (mu_lt_fuel _ hg1.linv)
  rw [react_fst] at hj' ⊢
  cases hj1 : (g.apply a).1.joiner with
  | none =>
    exfalso
    have hs : (g.apply a).1.joinerStep a.perm = none := by simp [G.joinerStep, hj1]
    have : ((g.apply a).1.runJoiner a.perm (g.apply a).1.fuel).1 = (g.apply a).1 := by
      cases (g.apply a).1.fuel <;> simp [G.runJoiner, hs]
    rw [this, hj1] at hj'; cases hj'
  | some j1 =>
    intro m hm
    exact cleanup_run a.perm _ _ hg1.fixed hc1 hg1.tinv hji1 hno j1 hj1
      (apply_preFin g a hji hpre j1 hj1) j' hj' hph hab m hm

/-- non-vacuity: member 2 fails while 0 (which will spawn 100 when cancelled), daemon 1 and 3
(already reacting to an external cancel) are unfinished; in that reaction 0 and 1 receive the
cancellation, 3 its second one; 100 appears, running, to be caught by the next sweep -/
example :
    let g := (runAll (init .all) [.spawn 0 false [⟨100, false⟩], .spawn 1 true [],
      .spawn 2 false [], .spawn 3 false [], .extCancel 3 [], .join []]).1
    let g' := (react g (.finish 2 .exc [0, 1, 3])).1
    g.joiner.map (·.phase) = some .next ∧ g'.joiner.map (·.phase) = some .fin ∧
    g'.statusOf 0 = some .canc ∧ g'.statusOf 1 = some .canc ∧ g'.statusOf 3 = some .done ∧
    g'.statusOf 100 = some .run := by decide

/-- `Action.cancelRem` (another task calls `cancel_remaining()`; every theorem above quantifies
over it too): member 0 is reacting slowly to that sweep when `join()` starts - join sees it
pending, parks, and `joined` stays false until it has finished -/
example :
    let g := (runAll (init .all) [.spawn 0 false [], .cancelRem [0], .join []]).1
    let g' := (runAll (init .all) [.spawn 0 false [], .cancelRem [0], .join [], .finCancel 0 []]).1
    g.statusOf 0 = some .canc ∧ g.pending = [0] ∧ g.joined = false ∧
    g.joiner.map (fun j => (j.phase, j.blocked)) = some (.next, true) ∧
    g'.joined = true ∧ g'.statusOf 0 = some .done := by decide

end Aiorpcx.C09
