import Aiorpcx.C09.Exit
import Aiorpcx.Facts.C09
/-!
# C09 — no task outlives its TaskGroup's join

Model: `Aiorpcx.C09.react` (see `Model.lean`).  The theorems quantify over **every** finite
sequence of environment actions (members and daemons spawned at any time, also by members that
are being cancelled; every outcome; external cancels; slow reactions; `join()` vs `__aexit__`
with or without a raising body; the joiner cancelled at any instant; `next_done()` callers), every
wait policy, and every order in which `_cancel_tasks` may iterate its set.
-/
namespace Aiorpcx.C09

/-- an empty group with wait policy `p` (the repaired `join()`) -/
def init (p : Policy) : G := { wait := p }

structure Reach (g : G) : Prop where
  fixed : g.fixed = true
  inv : CInv g.core
  exitClean : ExitClean g

theorem reach_init (p : Policy) : Reach (init p) :=
  ⟨rfl, ⟨by simp [init, G.core], by intro m hm; simp [init, G.core] at hm,
         by intro h; simp [init, G.core] at h⟩,
   by intro j hj; simp [init] at hj⟩

theorem reach_react (g : G) (a : Action) (h : Reach g) : Reach (react g a).1 := by
  have hs := step_react g a h.fixed h.inv
  refine ⟨?_, hs.preserves h.inv, exitClean_react g a h.exitClean⟩
  have := hs.fixed_eq
  simp only [G.core] at this
  rw [this, h.fixed]

theorem reach_runAll (g : G) (as : List Action) (h : Reach g) : Reach (runAll g as).1 := by
  induction as generalizing g with
  | nil => exact h
  | cons a as ih => simp only [runAll]; exact ih _ (reach_react g a h)

/-- **`joined` implies everybody finished.**  In every reachable state of every group, once
`join()` has completed (`joined = True`) every task ever placed in the group - daemonic or not,
also those spawned by members while they were being cancelled - has finished. -/
theorem joined_all_done (p : Policy) (as : List Action) :
    (runAll (init p) as).1.joined = true →
    ∀ m ∈ (runAll (init p) as).1.mem, m.status = .done :=
  (reach_runAll _ as (reach_init p)).inv.joinedDone

/-- **No task outlives the join.**  Whenever the joiner has left `join()` / `__aexit__` -
normally, because a member failed, because the body raised, or because the joining task was
cancelled - every member has finished; the one excluded exit is the joiner being cancelled
*again while it is awaiting the members it has cancelled* (`abandoned`, finding F11 below). -/
theorem join_exit_all_done (p : Policy) (as : List Action) (j : Joiner)
    (hj : (runAll (init p) as).1.joiner = some j) (hx : j.phase = .exited)
    (hclean : j.abandoned = false) :
    ∀ m ∈ (runAll (init p) as).1.mem, m.status = .done := by
  have hr := reach_runAll _ as (reach_init p)
  exact hr.inv.joinedDone (hr.exitClean j hj hx hclean)

/-- slow members are waited for: as long as some member has not finished, a joiner that has not
been cancelled a second time is still inside `join()` -/
theorem slow_members_waited (p : Policy) (as : List Action) (j : Joiner) (m : Mem)
    (hj : (runAll (init p) as).1.joiner = some j) (hclean : j.abandoned = false)
    (hm : m ∈ (runAll (init p) as).1.mem) (hrun : m.status ≠ .done) :
    j.phase ≠ .exited := by
  intro hx
  exact hrun (join_exit_all_done p as j hj hx hclean m hm)

/-- **Nothing can be added afterwards**: once joined, `spawn`/`add_task` is refused
(RuntimeError) and the group is unchanged. -/
theorem no_add_after_join (g : G) (i : Nat) (d : Bool) (ch : List Child) (h : g.joined = true) :
    g.apply (.spawn i d ch) = (g, [Obs.spawnRefused i]) := by
  simp [G.apply, G.add, h]

/-- ... and in a reachable joined group the whole reactive step changes nothing either -/
theorem no_add_after_join_react (g : G) (i : Nat) (d : Bool) (ch : List Child)
    (h : g.joined = true) : (react g (.spawn i d ch)).1.joined = true := by
  have h1 : (g.apply (.spawn i d ch)).1 = g := by rw [no_add_after_join g i d ch h]
  unfold react
  simp only []
  rw [h1]
  -- joined is never reset
  have key : ∀ (fuel : Nat) (g : G), g.joined = true → (g.runJoiner [] fuel).1.joined = true := by
    intro fuel
    induction fuel with
    | zero => intro g hg; exact hg
    | succ n ih =>
      intro g hg
      unfold G.runJoiner
      cases hs : g.joinerStep [] with
      | none => exact hg
      | some r =>
        obtain ⟨g1, o1⟩ := r
        simp only []
        apply ih
        -- every joiner step keeps `joined` or sets it
        have hv : (jview g1).1 = true ∨ g1.joined = true := by
          unfold G.joinerStep at hs
          cases hj : g.joiner with
          | none => simp [hj] at hs
          | some j =>
            simp only [hj] at hs
            split at hs
            · cases hs
            · cases hp : j.phase with
              | exited => simp [hp] at hs
              | cancelrem =>
                simp only [hp] at hs
                cases hsn : j.snapshot with
                | none =>
                  simp only [hsn, Option.some.injEq, Prod.mk.injEq] at hs
                  left; rw [← hs.1]
                  have := jview_deliverCancels g (orderBy [] g.pending)
                  simp only [jview, Prod.mk.injEq] at this
                  simpa [jview, setJ, hg] using this.1
                | some snap =>
                  simp only [hsn] at hs
                  split at hs
                  · simp only [Option.some.injEq, Prod.mk.injEq] at hs
                    right; rw [← hs.1]; exact hg
                  · cases hs
              | next =>
                simp only [hp] at hs
                split at hs
                · simp only [Option.some.injEq] at hs
                  right
                  have : g1 = (g.joinerPop j).1 := by rw [hs]
                  rw [this]; unfold G.joinerPop
                  cases g.doneq <;> exact hg
                · split at hs
                  · simp only [Option.some.injEq, Prod.mk.injEq] at hs; right; rw [← hs.1]; exact hg
                  · split at hs
                    · simp only [Option.some.injEq, Prod.mk.injEq] at hs; right; rw [← hs.1]; exact hg
                    · split at hs
                      · simp only [Option.some.injEq, Prod.mk.injEq] at hs; right; rw [← hs.1]; exact hg
                      · simp only [Option.some.injEq, Prod.mk.injEq] at hs; right; rw [← hs.1]; exact hg
              | fin =>
                simp only [hp] at hs
                cases hsn : j.snapshot with
                | none =>
                  simp only [hsn] at hs
                  split at hs
                  · split at hs
                    · simp only [Option.some.injEq, Prod.mk.injEq] at hs; right; rw [← hs.1]; rfl
                    · simp only [Option.some.injEq, Prod.mk.injEq] at hs
                      left; rw [← hs.1]
                      have := jview_deliverCancels g (orderBy [] (g.unfinished (g.pending ++ g.daemons.filter (fun i => !g.pending.contains i))))
                      simp only [jview, Prod.mk.injEq] at this
                      simpa [jview, setJ, hg] using this.1
                  · split at hs
                    · simp only [Option.some.injEq, Prod.mk.injEq] at hs; right; rw [← hs.1]; rfl
                    · simp only [Option.some.injEq, Prod.mk.injEq] at hs
                      left; rw [← hs.1]
                      have := jview_deliverCancels g (orderBy [] (g.pending ++ g.daemons.filter (fun i => !g.pending.contains i)))
                      simp only [jview, Prod.mk.injEq] at this
                      simpa [jview, setJ, hg] using this.1
                | some snap =>
                  simp only [hsn] at hs
                  split at hs
                  · split at hs
                    · simp only [Option.some.injEq, Prod.mk.injEq] at hs; right; rw [← hs.1]; exact hg
                    · simp only [Option.some.injEq, Prod.mk.injEq] at hs; right; rw [← hs.1]; rfl
                  · cases hs
        rcases hv with hv | hv
        · simpa [jview] using hv
        · exact hv
  exact key _ g h

/-- tie to the source (regenerated from /repo each run): exactly the four policies of the model
are admitted, and `join()`'s `finally:` sweeps in a loop before setting `joined` last - the shape
`G.joinerStep`'s `.fin` branch models with `fixed = true` -/
theorem facts_join_shape : Facts.C09.admittedPolicies = ["all", "any", "object", "none"] ∧
    Facts.C09.joinFinallyLoops = true ∧ Facts.C09.joinedSetLast = true := by decide

/-! ## Findings as kernel-checked witnesses -/

/-- **F10 (pinned tree; repaired by the `fix:` commit).**  With the pinned `finally:` clause - a
single `_cancel_tasks(self._pending | self.daemons)` - a member that spawns a new member while
it is being cancelled makes `join()` return with `joined = True` while the new member (100) is
still running. -/
theorem join_exit_all_done_fails_pinned :
    let g := (runAll { wait := .all, fixed := false }
      [.spawn 0 false [⟨100, false⟩], .spawn 1 false [], .join [],
       .finish 1 .exc [], .finCancel 0 []]).1
    g.joined = true ∧ g.statusOf 100 = some .run := by decide

/-- the same history on the repaired model: the join goes on to cancel 100 and is still waiting -/
example :
    let g := (runAll (init .all)
      [.spawn 0 false [⟨100, false⟩], .spawn 1 false [], .join [],
       .finish 1 .exc [], .finCancel 0 []]).1
    g.joined = false ∧ g.statusOf 100 = some .canc := by decide

/-- **F11 (known finding).**  The full statement - *every* exit of the joiner, including one
forced by a second cancellation - is false of the code: cancelling the joiner again while
`join()` awaits the (slow) members it has cancelled makes it raise with both members still
running. -/
def join_exit_all_done_full : Prop :=
  ∀ (p : Policy) (as : List Action) (j : Joiner),
    (runAll (init p) as).1.joiner = some j → j.phase = .exited →
    ∀ m ∈ (runAll (init p) as).1.mem, m.status = .done

theorem join_exit_all_done_full_fails : ¬ join_exit_all_done_full := by
  intro h
  have := h .all [.spawn 0 false [], .spawn 1 false [], .join [], .cancelJoiner [0, 1],
                  .cancelJoiner []]
    { phase := .exited, snapshot := some [0, 1], exc := true, blocked := false,
      hasPermit := false, abandoned := true } (by decide) rfl
    ⟨0, false, .canc, .none, []⟩ (by decide)
  cases this

/-! ## Non-vacuity -/

/-- a reachable, joined group with five finished tasks (member failure, a daemon, children
spawned during cancellation) -/
example :
    let g := (runAll (init .all)
      [.spawn 0 false [⟨100, false⟩, ⟨101, true⟩], .spawn 1 true [], .spawn 2 false [], .join [],
       .finish 2 .exc [0, 1], .finCancel 0 [], .finCancel 1 [], .extCancel 100 [100, 101],
       .finCancel 101 [], .finCancel 100 []]).1
    g.joined = true ∧ g.mem.length = 5 ∧ g.completed = some 2 := by decide

/-- joiner cancelled once: join re-raises after everybody finished -/
example :
    let r := runAll (init .all) [.spawn 0 false [], .join [], .cancelJoiner [0], .finCancel 0 []]
    r.1.joined = true ∧ r.2.getLast? = some [Obs.joinExit true] := by decide

end Aiorpcx.C09
