import Aiorpcx.C04.Classify
/-! Proof that the decoder agrees with the specification table of `Classify.lean` on every
payload (`classification_total` in Props).  Staged through kind-level descriptions of the
building blocks so that no case analysis multiplies. -/
namespace Aiorpcx.C04
open Aiorpcx.Py
set_option linter.unusedSimpArgs false

theorem pyEq_s20 (x : J) : pyEq x s20 = decide (x = s20) := by
  cases x <;> simp [pyEq, s20, J.toNum?]
  rename_i s
  by_cases h : s = lit "2.0" <;> simp [h]

theorem pyEq_s10 (x : J) : pyEq x s10 = decide (x = s10) := by
  cases x <;> simp [pyEq, s10, J.toNum?]
  rename_i s
  by_cases h : s = lit "1.0" <;> simp [h]

theorem jsonrpc20_eq (o : Option J) : decide (o = some s20) = decide (o.getD .null = s20) := by
  cases o with
  | none => simp [s20]
  | some x => by_cases h : x = s20 <;> simp [h]

theorem isNone_null : J.null.isNone = true := rfl

/-! ### ids -/

/-- `_message_id` of 2.0/Loose as a function of the id kind -/
theorem v2MessageId_spec (kvs : List (Str × J)) (req : Bool) :
    v2MessageId (.obj kvs) req =
      match idK kvs with
      | .absent => if req then .error (.proto (invalidRequest "request has no \"id\"")) else .ok .null
      | .other => .error (.proto (invalidRequest "invalid \"id\""))
      | _ => .ok ((J.lookup kId kvs).getD .null) := by
  unfold v2MessageId idK
  cases h : J.lookup kId kvs with
  | none => simp [h]
  | some rid => cases rid <;> simp [h, J.isNumber, J.isStr, J.isNone, J.isBool]

theorem v1MessageId_spec (kvs : List (Str × J)) :
    v1MessageId (.obj kvs) =
      match idK kvs with
      | .absent => .error (.proto (invalidRequest "request has no \"id\""))
      | _ => .ok ((J.lookup kId kvs).getD .null) := by
  unfold v1MessageId idK
  cases h : J.lookup kId kvs with
  | none => simp [h]
  | some rid => cases rid <;> simp [h]

theorem idK_null_iff (kvs : List (Str × J)) :
    ((J.lookup kId kvs).getD .null).isNone = (idK kvs == .absent || idK kvs == .null) := by
  unfold idK
  cases h : J.lookup kId kvs with
  | none => simp [h, J.isNone]
  | some rid => cases rid <;> simp [h, J.isNone]

/-! ### version member, params, method -/

theorem validate_v2_spec (P : Proto) (hP : P = .v2 ∨ P = .auto) (kvs : List (Str × J)) :
    validateMessage P kvs =
      if (shapeOf kvs).jsonrpc20 then .ok ()
      else .error (.proto (invalidRequest "\"jsonrpc\" is not \"2.0\"")) := by
  rcases hP with rfl | rfl <;>
  (simp only [validateMessage, shapeOf, getD, pyEq_s20, jsonrpc20_eq]
   by_cases h : (J.lookup kJsonrpc kvs).getD J.null = s20 <;> simp [h])

theorem requestArgs_v2_spec (P : Proto) (hP : P ≠ .v1) (kvs : List (Str × J)) :
    requestArgs P kvs =
      match paramsK kvs with
      | .other => .error (.proto (invalidArgs "invalid request arguments"))
      | _ => .ok ((J.lookup kParams kvs).getD (.arr [])) := by
  cases P <;> simp at hP <;> unfold requestArgs paramsK <;>
  (cases h : J.lookup kParams kvs with
   | none => simp [h, J.isDict, J.isList]
   | some a => cases a <;> simp [h, J.isDict, J.isList])

theorem requestArgs_v1_spec (kvs : List (Str × J)) :
    requestArgs .v1 kvs =
      match paramsK kvs with
      | .list => .ok (getD kParams kvs)
      | _ => .error (.proto (invalidArgs "invalid request arguments")) := by
  unfold requestArgs paramsK getD
  cases h : J.lookup kParams kvs with
  | none => simp [h, J.isList]
  | some a => cases a <;> simp [h, J.isList]

theorem paramsK_args (kvs : List (Str × J)) (h : paramsK kvs ≠ .other) :
    (((J.lookup kParams kvs).getD (.arr [])).isList ||
      ((J.lookup kParams kvs).getD (.arr [])).isDict) = true := by
  unfold paramsK at h
  cases h' : J.lookup kParams kvs with
  | none => simp [h', J.isList]
  | some a => cases a <;> simp_all [J.isDict, J.isList]

theorem paramsK_list_args (kvs : List (Str × J)) (h : paramsK kvs = .list) :
    ((getD kParams kvs).isList || (getD kParams kvs).isDict) = true := by
  unfold paramsK at h
  unfold getD
  cases h' : J.lookup kParams kvs with
  | none => simp_all
  | some a => cases a <;> simp_all [J.isList]

theorem singleRequest_spec (kvs : List (Str × J)) (args : J)
    (ha : (args.isList || args.isDict) = true) :
    singleRequest (getD kMethod kvs) args =
      if (shapeOf kvs).methodStr then
        .ok (match getD kMethod kvs with | .str m => m | _ => [])
      else .error (.proto (perr METHOD_NOT_FOUND "method must be a string")) := by
  unfold singleRequest shapeOf getD
  cases h : J.lookup kMethod kvs with
  | none => simp [h]
  | some m => cases m <;> simp [h, ha]

/-! ### requests -/

theorem classify_v2_request (P : Proto) (hP : P = .v2 ∨ P = .auto) (kvs : List (Str × J)) :
    outClass (processRequest P (.obj kvs)) =
      match (shapeOf kvs).id, (shapeOf kvs).jsonrpc20 with
      | .other, _ => IR
      | _, false => IR
      | _, true => classifyRequestTail (shapeOf kvs) := by
  have hP1 : P ≠ .v1 := by rcases hP with rfl | rfl <;> decide
  have hmid : messageId P (.obj kvs) false = v2MessageId (.obj kvs) false := by
    rcases hP with rfl | rfl <;> rfl
  unfold processRequest processRequestBody
  simp only [hmid, asDict, v2MessageId_spec, validate_v2_spec P hP, requestArgs_v2_spec P hP1,
    classifyRequestTail]
  have hn := idK_null_iff kvs
  have hsid : (shapeOf kvs).id = idK kvs := rfl
  have hsp : (shapeOf kvs).params = paramsK kvs := rfl
  rw [hsid, hsp]
  cases hi : idK kvs <;> cases hj : (shapeOf kvs).jsonrpc20 <;>
    simp [outClass, mkError, invalidRequest, perr, IR]
  all_goals (
    cases hp : paramsK kvs <;> (try simp [outClass, invalidArgs, perr])
    all_goals (
      rw [singleRequest_spec kvs _ (paramsK_args kvs (by rw [hp]; decide))]
      cases hs : (shapeOf kvs).methodStr <;> simp [outClass, perr, hn, hi, isNone_null]))

theorem classify_loose_request (kvs : List (Str × J)) :
    outClass (processRequest .loose (.obj kvs)) =
      match (shapeOf kvs).id with
      | .other => IR
      | _ => classifyRequestTail (shapeOf kvs) := by
  unfold processRequest processRequestBody
  simp only [messageId, asDict, v2MessageId_spec, validateMessage,
    requestArgs_v2_spec .loose (by decide), classifyRequestTail]
  have hn := idK_null_iff kvs
  have hsid : (shapeOf kvs).id = idK kvs := rfl
  have hsp : (shapeOf kvs).params = paramsK kvs := rfl
  rw [hsid, hsp]
  cases hi : idK kvs <;> simp [outClass, mkError, invalidRequest, perr, IR]
  all_goals (
    cases hp : paramsK kvs <;> (try simp [outClass, invalidArgs, perr])
    all_goals (
      rw [singleRequest_spec kvs _ (paramsK_args kvs (by rw [hp]; decide))]
      cases hs : (shapeOf kvs).methodStr <;> simp [outClass, perr, hn, hi, isNone_null]))

theorem classify_v1_request (kvs : List (Str × J)) :
    outClass (processRequest .v1 (.obj kvs)) =
      match (shapeOf kvs).id with
      | .absent => IR
      | i =>
        match (shapeOf kvs).params, (shapeOf kvs).methodStr, i with
        | .list, true, .null => .notification
        | .list, true, _ => .request
        | .list, false, _ => .err METHOD_NOT_FOUND
        | _, _, _ => .err INVALID_ARGS := by
  unfold processRequest processRequestBody
  simp only [messageId, asDict, v1MessageId_spec, validateMessage, requestArgs_v1_spec]
  have hn := idK_null_iff kvs
  have hsid : (shapeOf kvs).id = idK kvs := rfl
  have hsp : (shapeOf kvs).params = paramsK kvs := rfl
  rw [hsid, hsp]
  cases hi : idK kvs <;> simp [outClass, mkError, invalidRequest, perr, IR]
  all_goals (
    cases hp : paramsK kvs <;> (try simp [outClass, invalidArgs, perr])
    all_goals (
      rw [singleRequest_spec kvs _ (paramsK_list_args kvs hp)]
      cases hs : (shapeOf kvs).methodStr <;> simp [outClass, perr, hn, hi, isNone_null]))

/-! ### responses -/

def respClass : R RespVal → OutClass
  | .ok (.result _) => .result
  | .ok (.rpcError _ _) => .rpcError
  | .ok (.protoError c _) => .err c
  | .error (.proto e) => .err e.code
  | .error (.py _) => .crash

theorem outClass_wrap (P : Proto) (rid : J) (body : R RespVal) :
    outClass (match body with
      | .error (.proto e) => .error (.proto (mkError P e.code e.msg false rid))
      | .error e => .error e
      | .ok v => .ok (.response v, rid)) = respClass body := by
  rcases body with (e | e) | v
  · simp [outClass, respClass, mkError]
  · simp [outClass, respClass]
  · cases v <;> simp [outClass, respClass]

theorem resK_absent (kvs : List (Str × J)) (h : J.lookup kResult kvs = none) : resK kvs = .absent := by
  simp [resK, h]
theorem resK_cases (kvs : List (Str × J)) (r : J) (h : J.lookup kResult kvs = some r) :
    (r = .null ∧ resK kvs = .null) ∨ (r.isNone = false ∧ resK kvs = .nonnull) := by
  cases r <;> simp [resK, h, J.isNone]
theorem errK_absent (kvs : List (Str × J)) (h : J.lookup kError kvs = none) : errK kvs = .absent := by
  simp [errK, h]
theorem errK_cases (kvs : List (Str × J)) (e : J) (h : J.lookup kError kvs = some e) :
    (e = .null ∧ errK kvs = .null) ∨
    (e.isNone = false ∧ isWellFormedError e = true ∧ errK kvs = .wellFormed) ∨
    (e.isNone = false ∧ isWellFormedError e = false ∧ errK kvs = .other) := by
  cases hw : isWellFormedError e <;> cases e <;> simp_all [errK, J.isNone, isWellFormedError]

theorem bestEffort_class (e : J) : ∃ c m, bestEffortError e = .rpcError c m := by
  cases e <;> simp [bestEffortError]

/-- the error-object branch of `JSONRPCv2.response_value` -/
def v2Err : J → R RespVal
  | .obj ekvs =>
      match getD kMessage ekvs with
      | .str m =>
          if (getD kCode ekvs).isInt then .ok (.rpcError (getD kCode ekvs) m)
          else .error (.proto (invalidRequest "ill-formed response error object"))
      | _ => .error (.proto (invalidRequest "ill-formed response error object"))
  | _ => .error (.proto (invalidRequest "ill-formed response error object"))

theorem responseValue_v2_eq (kvs : List (Str × J)) :
    responseValue .v2 kvs =
      match J.lookup kResult kvs with
      | some result =>
          if J.hasKey kError kvs then
            .error (.proto (invalidRequest "response contains both \"result\" and \"error\""))
          else .ok (.result result)
      | none =>
          match J.lookup kError kvs with
          | none => .error (.proto (invalidRequest "response contains neither \"result\" nor \"error\""))
          | some e => v2Err e := by
  cases hr : J.lookup kResult kvs with
  | some r => simp only [responseValue, hr]
  | none =>
    cases he : J.lookup kError kvs with
    | none => simp only [responseValue, hr, he]
    | some e => cases e <;> simp only [responseValue, hr, he, v2Err] <;> rfl

/-- the 2.0 error-object check is exactly `isWellFormedError` -/
theorem respClass_v2Err (e : J) :
    respClass (v2Err e) = if isWellFormedError e then .rpcError else IR := by
  cases e <;> simp [v2Err, respClass, isWellFormedError, invalidRequest, perr, IR]
  rename_i ekvs
  unfold getD
  cases hm : J.lookup kMessage ekvs with
  | none => simp [respClass, invalidRequest, perr]
  | some m =>
    cases hc : J.lookup kCode ekvs with
    | none => cases m <;> simp [respClass, invalidRequest, perr, J.isInt]
    | some c => cases m <;> cases c <;> simp [respClass, invalidRequest, perr, J.isInt]

theorem respClass_v2 (P : Proto) (hP : P = .v2 ∨ P = .auto) (kvs : List (Str × J)) :
    respClass (responseValue P kvs) =
      match resK kvs, errK kvs with
      | .absent, .wellFormed => .rpcError
      | .absent, _ => IR
      | _, .absent => .result
      | _, _ => IR := by
  have hrv : responseValue P kvs = responseValue .v2 kvs := by rcases hP with rfl | rfl <;> rfl
  rw [hrv, responseValue_v2_eq]
  cases hr : J.lookup kResult kvs with
  | some r =>
    cases he : J.lookup kError kvs with
    | none =>
      rw [errK_absent kvs he]
      rcases resK_cases kvs r hr with ⟨_, hk⟩ | ⟨_, hk⟩ <;> simp [hk, J.hasKey, he, respClass]
    | some e =>
      rcases resK_cases kvs r hr with ⟨_, hk⟩ | ⟨_, hk⟩ <;>
        rcases errK_cases kvs e he with ⟨_, hk'⟩ | ⟨_, _, hk'⟩ | ⟨_, _, hk'⟩ <;>
        simp [hk, hk', J.hasKey, he, respClass, invalidRequest, perr, IR]
  | none =>
    rw [resK_absent kvs hr]
    cases he : J.lookup kError kvs with
    | none => rw [errK_absent kvs he]; simp [respClass, invalidRequest, perr, IR]
    | some e =>
      simp only [respClass_v2Err]
      rcases errK_cases kvs e he with ⟨rfl, hk'⟩ | ⟨_, hw, hk'⟩ | ⟨_, hw, hk'⟩
      · simp [hk', isWellFormedError]
      · simp [hk', hw]
      · simp [hk', hw]

theorem respClass_loose (kvs : List (Str × J)) :
    respClass (responseValue .loose kvs) =
      match errK kvs, resK kvs with
      | .wellFormed, .nonnull | .other, .nonnull => IR
      | .wellFormed, _ | .other, _ => .rpcError
      | _, .absent => IR
      | _, _ => .result := by
  unfold responseValue getD
  cases hr : J.lookup kResult kvs with
  | some r =>
    cases he : J.lookup kError kvs with
    | none =>
      rw [errK_absent kvs he]
      rcases resK_cases kvs r hr with ⟨_, hk⟩ | ⟨_, hk⟩ <;> simp [hr, he, hk, respClass, J.isNone]
    | some e =>
      obtain ⟨c, m, hb⟩ := bestEffort_class e
      rcases resK_cases kvs r hr with ⟨rfl, hk⟩ | ⟨hn, hk⟩ <;>
        rcases errK_cases kvs e he with ⟨rfl, hk'⟩ | ⟨hn', _, hk'⟩ | ⟨hn', _, hk'⟩ <;>
        simp_all [respClass, J.isNone, invalidRequest, perr, IR]
  | none =>
    rw [resK_absent kvs hr]
    cases he : J.lookup kError kvs with
    | none => rw [errK_absent kvs he]; simp [hr, he, respClass, J.isNone, invalidRequest, perr, IR]
    | some e =>
      obtain ⟨c, m, hb⟩ := bestEffort_class e
      rcases errK_cases kvs e he with ⟨rfl, hk'⟩ | ⟨hn', _, hk'⟩ | ⟨hn', _, hk'⟩ <;>
        simp_all [respClass, J.isNone, invalidRequest, perr, IR]

theorem respClass_v1 (kvs : List (Str × J)) :
    respClass (responseValue .v1 kvs) =
      match resK kvs, errK kvs with
      | .absent, _ | _, .absent => IR
      | _, .null => .result
      | .nonnull, _ => IR
      | .null, _ => .rpcError := by
  unfold responseValue
  cases hr : J.lookup kResult kvs with
  | some r =>
    cases he : J.lookup kError kvs with
    | none =>
      rw [errK_absent kvs he]
      rcases resK_cases kvs r hr with ⟨_, hk⟩ | ⟨_, hk⟩ <;> simp [hr, he, hk, respClass, invalidRequest, perr, IR]
    | some e =>
      obtain ⟨c, m, hb⟩ := bestEffort_class e
      rcases resK_cases kvs r hr with ⟨rfl, hk⟩ | ⟨hn, hk⟩ <;>
        rcases errK_cases kvs e he with ⟨rfl, hk'⟩ | ⟨hn', _, hk'⟩ | ⟨hn', _, hk'⟩ <;>
        simp_all [respClass, J.isNone, invalidRequest, perr, IR]
  | none =>
    rw [resK_absent kvs hr]
    cases he : J.lookup kError kvs with
    | none => rw [errK_absent kvs he]; simp [hr, he, respClass, invalidRequest, perr, IR]
    | some e => simp [hr, he, respClass, invalidRequest, perr, IR]

theorem classify_v2_response (P : Proto) (hP : P = .v2 ∨ P = .auto) (kvs : List (Str × J)) :
    outClass (processResponse P (.obj kvs)) =
      match (shapeOf kvs).id, (shapeOf kvs).jsonrpc20 with
      | .absent, _ => IR
      | .other, _ => IR
      | _, false => IR
      | _, true =>
          match (shapeOf kvs).result, (shapeOf kvs).error with
          | .absent, .wellFormed => .rpcError
          | .absent, _ => IR
          | _, .absent => .result
          | _, _ => IR := by
  have hmid : messageId P (.obj kvs) true = v2MessageId (.obj kvs) true := by
    rcases hP with rfl | rfl <;> rfl
  unfold processResponse
  simp only [hmid, asDict, v2MessageId_spec, validate_v2_spec P hP]
  have hsid : (shapeOf kvs).id = idK kvs := rfl
  have hsr : (shapeOf kvs).result = resK kvs := rfl
  have hse : (shapeOf kvs).error = errK kvs := rfl
  rw [hsid, hsr, hse, ← respClass_v2 P hP kvs]
  generalize responseValue P kvs = body
  cases hi : idK kvs <;> cases hj : (shapeOf kvs).jsonrpc20 <;> rcases body with (e | e) | (v | v | v) <;>
    simp [outClass, respClass, mkError, invalidRequest, perr, IR]

theorem classify_loose_response (kvs : List (Str × J)) :
    outClass (processResponse .loose (.obj kvs)) =
      match (shapeOf kvs).id with
      | .absent => IR
      | .other => IR
      | _ =>
          match (shapeOf kvs).error, (shapeOf kvs).result with
          | .wellFormed, .nonnull | .other, .nonnull => IR
          | .wellFormed, _ | .other, _ => .rpcError
          | _, .absent => IR
          | _, _ => .result := by
  unfold processResponse
  simp only [messageId, asDict, v2MessageId_spec, validateMessage]
  have hsid : (shapeOf kvs).id = idK kvs := rfl
  have hsr : (shapeOf kvs).result = resK kvs := rfl
  have hse : (shapeOf kvs).error = errK kvs := rfl
  rw [hsid, hsr, hse, ← respClass_loose kvs]
  generalize responseValue .loose kvs = body
  cases hi : idK kvs <;> rcases body with (e | e) | (v | v | v) <;>
    simp [outClass, respClass, mkError, invalidRequest, perr, IR]

theorem classify_v1_response (kvs : List (Str × J)) :
    outClass (processResponse .v1 (.obj kvs)) =
      match (shapeOf kvs).id with
      | .absent => IR
      | _ =>
          match (shapeOf kvs).result, (shapeOf kvs).error with
          | .absent, _ | _, .absent => IR
          | _, .null => .result
          | .nonnull, _ => IR
          | .null, _ => .rpcError := by
  unfold processResponse
  simp only [messageId, asDict, v1MessageId_spec, validateMessage]
  have hsid : (shapeOf kvs).id = idK kvs := rfl
  have hsr : (shapeOf kvs).result = resK kvs := rfl
  have hse : (shapeOf kvs).error = errK kvs := rfl
  rw [hsid, hsr, hse, ← respClass_v1 kvs]
  generalize responseValue .v1 kvs = body
  cases hi : idK kvs <;> rcases body with (e | e) | (v | v | v) <;>
    simp [outClass, respClass, mkError, invalidRequest, perr, IR]

/-- the decoder agrees with the specification table on every object payload -/
theorem classify_obj (P : Proto) (kvs : List (Str × J)) :
    outClass (payloadToItem P (.obj kvs)) = classify P (.object (shapeOf kvs)) := by
  have hm : J.hasKey kMethod kvs = (shapeOf kvs).hasMethod := rfl
  simp only [payloadToItem]
  rw [hm]
  cases P
  · -- v1
    cases hmm : (shapeOf kvs).hasMethod
    · simp only [Bool.false_eq_true, if_false, classify_v1_response, classify, classifyV1, hmm]
      cases (shapeOf kvs).id <;> rfl
    · simp only [if_true, classify_v1_request, classify, classifyV1, hmm]
      cases (shapeOf kvs).id <;> rfl
  · -- v2
    cases hmm : (shapeOf kvs).hasMethod
    · simp only [Bool.false_eq_true, if_false, classify_v2_response .v2 (Or.inl rfl), classify,
        classifyV2, hmm]
      cases (shapeOf kvs).id <;> cases (shapeOf kvs).jsonrpc20 <;> rfl
    · simp only [if_true, classify_v2_request .v2 (Or.inl rfl), classify, classifyV2, hmm]
      cases (shapeOf kvs).id <;> cases (shapeOf kvs).jsonrpc20 <;> rfl
  · -- loose
    cases hmm : (shapeOf kvs).hasMethod
    · simp only [Bool.false_eq_true, if_false, classify_loose_response, classify, classifyLoose, hmm]
      cases (shapeOf kvs).id <;> rfl
    · simp only [if_true, classify_loose_request, classify, classifyLoose, hmm]
      cases (shapeOf kvs).id <;> rfl
  · -- auto
    cases hmm : (shapeOf kvs).hasMethod
    · simp only [Bool.false_eq_true, if_false, classify_v2_response .auto (Or.inr rfl), classify,
        classifyV2, hmm]
      cases (shapeOf kvs).id <;> cases (shapeOf kvs).jsonrpc20 <;> rfl
    · simp only [if_true, classify_v2_request .auto (Or.inr rfl), classify, classifyV2, hmm]
      cases (shapeOf kvs).id <;> cases (shapeOf kvs).jsonrpc20 <;> rfl

/-- **Every** payload is classified exactly as the specification table says (`Classify.lean`):
the outcome is an item of the stated kind or a `ProtocolError` with the documented code; it
depends only on which of {jsonrpc, method, params, id, result, error} are present and on the
kinds of their values. -/
theorem classification_total_core (P : Proto) (p : J) :
    outClass (payloadToItem P p) = classify P (topOf p) := by
  cases p with
  | obj kvs => exact classify_obj P kvs
  | arr xs =>
    cases xs with
    | nil => cases P <;> rfl
    | cons x xs => cases P <;> rfl
  | null | bool _ | int _ | float _ | str _ => cases P <;> rfl

/-- an item class, or a `ProtocolError` with one of the three documented codes -/
def okClass (c : OutClass) : Bool :=
  c matches .request | .notification | .result | .rpcError | .batch ||
  c == .err INVALID_REQUEST || c == .err METHOD_NOT_FOUND || c == .err INVALID_ARGS

theorem tail_ok (s : Shape) : okClass (classifyRequestTail s) = true := by
  unfold classifyRequestTail; split <;> decide

/-- the codes of the table are the documented ones -/
theorem classify_codes_core (P : Proto) (t : TopK) : okClass (classify P t) = true := by
  cases t with
  | object s =>
    cases P <;> simp only [classify, classifyV1, classifyV2, classifyLoose] <;>
      (repeat' split) <;> first | exact tail_ok _ | decide
  | emptyArray | array | other => cases P <;> decide

/-- hence: decoding a payload never raises anything but a `ProtocolError`, and its code is one
of INVALID_REQUEST / METHOD_NOT_FOUND / INVALID_ARGS -/
theorem decode_only_protocol_errors_core (P : Proto) (p : J) :
    (∃ x, payloadToItem P p = .ok x) ∨
    (∃ e, payloadToItem P p = .error (.proto e)
      ∧ (e.code = INVALID_REQUEST ∨ e.code = METHOD_NOT_FOUND ∨ e.code = INVALID_ARGS)) := by
  have h1 := classification_total_core P p
  have h2 := classify_codes_core P (topOf p)
  rw [← h1] at h2
  rcases hres : payloadToItem P p with (e | e) | x
  · right
    refine ⟨e, rfl, ?_⟩
    rw [hres] at h2
    have h3 : (e.code = INVALID_REQUEST ∨ e.code = METHOD_NOT_FOUND) ∨ e.code = INVALID_ARGS := by
      simpa [outClass, okClass] using h2
    rcases h3 with (h | h) | h
    · exact Or.inl h
    · exact Or.inr (Or.inl h)
    · exact Or.inr (Or.inr h)
  · rw [hres] at h2
    simp [outClass, okClass] at h2
  · exact Or.inl ⟨x, rfl⟩

end Aiorpcx.C04
