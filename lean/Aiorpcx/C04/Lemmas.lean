import Aiorpcx.C04.Model
/-! Helper lemmas and the simp set used by the C04 property proofs. -/
namespace Aiorpcx.C04
open Aiorpcx.Py

theorem lookup_cons (k k' : Str) (v : J) (r : List (Str × J)) :
    J.lookup k ((k', v) :: r) = if k = k' then some v else J.lookup k r := rfl
theorem lookup_nil (k : Str) : J.lookup k [] = none := rfl

/-- unfold the codec on a payload whose shape is (mostly) known and decide the key comparisons -/
macro "codec_simp" " [" ts:Lean.Parser.Tactic.simpLemma,* "]" : tactic =>
  `(tactic| simp +decide [J.truthy, pyEq, pyEqObj, pyEqList, payloadToItem, J.hasKey, lookup_cons,
      lookup_nil, processRequest, processResponse, messageId, v2MessageId, v1MessageId,
      processRequestBody, asDict, validateMessage, getD, requestArgs, singleRequest, responseValue,
      bestEffortError, requestPayload, responsePayload, errorPayload, errorObj, mkError,
      responseMessagePayload, memberPayload, protocolForPayload, detectProtocol,
      J.isList, J.isDict, J.isNone, J.isNumber, J.isStr, J.isInt, J.isBool, kId, kMethod, kJsonrpc, kParams,
      kResult, kError, kCode, kMessage, s20, s10, $ts,*])

/-- evaluate lookups in literal member lists -/
macro "lk" : tactic =>
  `(tactic| simp +decide [lookup_cons, lookup_nil, J.hasKey, responseMessagePayload, responsePayload,
      errorPayload, errorObj, kJsonrpc, kMethod, kParams, kId, kResult, kError, kCode, kMessage, s20])

/-- request arguments: a list (or tuple) or a dict -/
def Args (a : J) : Prop := a.isList = true ∨ a.isDict = true
/-- a JSON number: `int` or `float`, not `bool` -/
def isJsonNumber : J → Bool
  | .int _ | .float _ => true
  | _ => false
/-- ids a 2.0 / Loose request can carry: numbers and strings -/
def ReqId (rid : J) : Prop := isJsonNumber rid = true ∨ rid.isStr = true
/-- ids a 2.0 / Loose response can carry (`null` included) -/
def RespId (rid : J) : Prop := isJsonNumber rid = true ∨ rid.isStr = true ∨ rid.isNone = true

theorem ReqId.respId {rid : J} (h : ReqId rid) : RespId rid := by
  rcases h with h | h
  · exact Or.inl h
  · exact Or.inr (Or.inl h)

theorem ReqId.notNone {rid : J} (h : ReqId rid) : rid.isNone = false := by
  cases rid <;> simp_all [ReqId, isJsonNumber, J.isStr, J.isNone]

end Aiorpcx.C04
