import Aiorpcx.Common.Py
/-!
# C04 — model of the JSON-RPC codec (aiorpcx/jsonrpc.py: JSONRPC, JSONRPCv1, JSONRPCv2,
JSONRPCLoose, JSONRPCAutoDetect).  No Mathlib: the drivers link this.

The model works on *payloads* (`J`, the Python value between `json.loads` and the classmethods)
and mirrors the code's case splits and the order of its checks.  `json.dumps` is modelled by
`dumps` (escape table, separators, `ensure_ascii`); `json.loads` is a parameter (`Ser`, law L1).
Python operations that can fail do so explicitly (`Exc.py`), e.g. v1's `'id' not in message`
on a non-dict.  Message *texts* of library-generated errors are carried for readability only:
no theorem, oracle or comparison looks at them.
-/
namespace Aiorpcx.C04
open Aiorpcx.Py

/-! ## Constants (tied to /repo by `Facts.C04`, see Props) -/

def PARSE_ERROR : Int := -32700
def INVALID_REQUEST : Int := -32600
def METHOD_NOT_FOUND : Int := -32601
def INVALID_ARGS : Int := -32602
def INTERNAL_ERROR : Int := -32603
def ERROR_CODE_UNAVAILABLE : Int := -100

/-- the protocol classes; `auto` is `JSONRPCAutoDetect` itself (a `JSONRPCv2` subclass), which a
connection keeps only while detection has not succeeded -/
inductive Proto where | v1 | v2 | loose | auto
  deriving DecidableEq, Repr, Inhabited

/-- `cls.allow_batches` -/
def Proto.allowBatches : Proto → Bool
  | .v1 => false
  | _ => true

/-- member names -/
def kJsonrpc : Str := lit "jsonrpc"
def kMethod : Str := lit "method"
def kParams : Str := lit "params"
def kId : Str := lit "id"
def kResult : Str := lit "result"
def kError : Str := lit "error"
def kCode : Str := lit "code"
def kMessage : Str := lit "message"
def s20 : J := .str (lit "2.0")
def s10 : J := .str (lit "1.0")

/-! ## Items and errors -/

/-- the value inside a `Response` -/
inductive RespVal where
  | result (v : J)
  /-- `RPCError(code, message)`; `code` is whatever passed `isinstance(code, int)` (so possibly a
  `bool`) or the default -/
  | rpcError (code : J) (message : Str)
  /-- a `ProtocolError` stored in the request's future -/
  | protoError (code : Int) (message : Str)
  deriving DecidableEq, Repr

inductive Item where
  | request (method : Str) (args : J)
  | notification (method : Str) (args : J)
  | response (r : RespVal)
  /-- `message_to_item` returns the raw member payloads of a batch -/
  | batch (payloads : List J)
  deriving DecidableEq, Repr

/-- what `ProtocolError.error_message` encodes (before `json.dumps`) -/
inductive Reply where
  | single (payload : J)
  /-- `batch_message_from_parts` of the members' error replies -/
  | batch (payloads : List J)
  deriving DecidableEq, Repr

/-- `ProtocolError(code, message)` with its two extra attributes -/
structure PErr where
  code : Int
  msg : Str
  /-- `error_message`: `none` = Python `None` -/
  errorMessage : Option Reply := none
  /-- `some i` ⇔ `response_msg_id is not id` (the error was found in a response with id `i`) -/
  responseMsgId : Option J := none
  deriving DecidableEq, Repr

inductive Exc where
  | proto (e : PErr)
  | py (e : PyExc)
  deriving DecidableEq, Repr

def Exc.cls : Exc → PyExc
  | .proto _ => .protocolError
  | .py e => e

abbrev R (α : Type) := Except Exc α

def perr (code : Int) (msg : String) : PErr := { code := code, msg := lit msg }
def invalidRequest (msg : String) : PErr := perr INVALID_REQUEST msg
def invalidArgs (msg : String) : PErr := perr INVALID_ARGS msg

/-- `d.get(k)` (default `None`) on a dict payload -/
def getD (k : Str) (kvs : List (Str × J)) : J := (J.lookup k kvs).getD .null

/-! ## Encoders: `request_payload`, `response_payload`, `error_payload` -/

def objV2Head : List (Str × J) := [(kJsonrpc, s20)]

/-- `cls.request_payload(request, request_id)`; `rid = null` for a notification -/
def requestPayload : Proto → Str → J → J → R J
  | .v1, method, args, rid =>
      if args.isDict then .error (.proto (invalidArgs "JSONRPCv1 does not support named arguments"))
      else .ok (.obj [(kMethod, .str method), (kParams, args), (kId, rid)])
  | _, method, args, rid =>
      let p0 : List (Str × J) := [(kJsonrpc, s20), (kMethod, .str method)]
      let p1 := if !rid.isNone then p0 ++ [(kId, rid)] else p0
      -- `if request.args or request.args == {}`
      let p2 := if args.truthy || pyEq args (.obj []) then p1 ++ [(kParams, args)] else p1
      .ok (.obj p2)

/-- `cls.response_payload(result, request_id)` -/
def responsePayload : Proto → J → J → J
  | .v1, result, rid => .obj [(kResult, result), (kError, .null), (kId, rid)]
  | _, result, rid => .obj [(kJsonrpc, s20), (kResult, result), (kId, rid)]

def errorObj (code message : J) : J := .obj [(kCode, code), (kMessage, message)]

/-- `cls.error_payload(error, request_id)` with `error.code`, `error.message` -/
def errorPayload : Proto → J → J → J → J
  | .v1, code, message, rid => .obj [(kResult, .null), (kError, errorObj code message), (kId, rid)]
  | _, code, message, rid => .obj [(kJsonrpc, s20), (kError, errorObj code message), (kId, rid)]

/-- what the application hands to `response_message` -/
inductive Outgoing where
  | result (v : J)
  | error (code message : J)      -- any `CodeMessageError`
  deriving DecidableEq, Repr

/-- `response_message` before `encode_payload` -/
def responseMessagePayload (P : Proto) (r : Outgoing) (rid : J) : J :=
  match r with
  | .result v => responsePayload P v rid
  | .error c m => errorPayload P c m rid

/-- `cls._error(code, message, send, msg_id)` -/
def mkError (P : Proto) (code : Int) (msg : Str) (send : Bool) (msgId : J) : PErr :=
  if send then
    { code := code, msg := msg,
      errorMessage := some (.single (errorPayload P (.int code) (.str msg) msgId)) }
  else { code := code, msg := msg, responseMsgId := some msgId }

/-- a member of a request `Batch` together with the id `send_batch` drew for it -/
inductive Member where
  | request (method : Str) (args : J) (rid : J)
  | notification (method : Str) (args : J)
  deriving DecidableEq, Repr

def memberPayload (P : Proto) : Member → R J
  | .request m a rid => requestPayload P m a rid
  | .notification m a => requestPayload P m a .null

def mapM' {α β : Type} (f : α → R β) : List α → R (List β)
  | [] => .ok []
  | x :: xs =>
      match f x with
      | .error e => .error e
      | .ok y =>
          match mapM' f xs with
          | .error e => .error e
          | .ok ys => .ok (y :: ys)

/-- `cls.batch_message(batch, ids)` up to `encode_payload`: the member payloads in order.
(`Batch.__init__` has already refused an empty item list.) -/
def batchPayloads (P : Proto) (ms : List Member) : R (List J) :=
  if !P.allowBatches then .error (.proto (invalidRequest "protocol does not permit batches"))
  else
    match mapM' (memberPayload P) ms with
    | .error e => .error e
    | .ok [] => .error (.proto (invalidRequest "batch is empty"))
    | .ok ps => .ok ps

/-! ## Decoders -/

/-- `JSONRPCv1._message_id`.  Reached by the library with dict payloads only (v1 has no
batches); on other payloads Python's `in` / subscription behave as spelled out here. -/
def v1MessageId : J → R J
  | .obj kvs =>
      match J.lookup kId kvs with
      | none => .error (.proto (invalidRequest "request has no \"id\""))
      | some rid => .ok rid
  | .arr xs =>
      -- `'id' not in [..]` compares with `==`; then `message['id']` on a list is a TypeError
      if xs.any (pyEq (.str kId)) then .error (.py .typeError)
      else .error (.proto (invalidRequest "request has no \"id\""))
  | .str s =>
      -- substring test; then `message['id']` on a str is a TypeError
      if (List.range (s.length + 1)).any (fun i => (s.drop i).take 2 == kId) then
        .error (.py .typeError)
      else .error (.proto (invalidRequest "request has no \"id\""))
  | _ => .error (.py .typeError)       -- argument of type 'int'/'NoneType'/.. is not iterable

/-- `JSONRPCv2._message_id` (also `JSONRPCLoose._message_id`).  A `bool` id is refused although
`isinstance(True, Number)` holds (the F7 repair: `isinstance(request_id, bool) or not
isinstance(request_id, (Number, str, type(None)))`). -/
def v2MessageId (message : J) (requireId : Bool) : R J :=
  match message with
  | .obj kvs =>
      match J.lookup kId kvs with
      | some rid =>
          if rid.isBool || !(rid.isNumber || rid.isStr || rid.isNone) then
            .error (.proto (invalidRequest "invalid \"id\""))
          else .ok rid
      | none =>
          if requireId then .error (.proto (invalidRequest "request has no \"id\""))
          else .ok .null
  | _ => .error (.proto (invalidRequest "request object must be a dictionary"))

def messageId : Proto → J → Bool → R J
  | .v1, m, _ => v1MessageId m
  | _, m, req => v2MessageId m req

/-- `cls._validate_message(message)`; `message` is a dict whenever this is reached -/
def validateMessage : Proto → List (Str × J) → R Unit
  | .v2, kvs | .auto, kvs =>
      if !(pyEq (getD kJsonrpc kvs) s20) then
        .error (.proto (invalidRequest "\"jsonrpc\" is not \"2.0\""))
      else .ok ()
  | _, _ => .ok ()

/-- `cls._request_args(request)` -/
def requestArgs : Proto → List (Str × J) → R J
  | .v1, kvs =>
      let args := getD kParams kvs
      if !args.isList then .error (.proto (invalidArgs "invalid request arguments"))
      else .ok args
  | _, kvs =>
      let args := (J.lookup kParams kvs).getD (.arr [])
      if !(args.isDict || args.isList) then
        .error (.proto (invalidArgs "invalid request arguments"))
      else .ok args

/-- `SingleRequest.__init__(method, args)`: returns the validated method name -/
def singleRequest (method args : J) : R Str :=
  match method with
  | .str m =>
      if !(args.isList || args.isDict) then
        .error (.proto (invalidArgs "request arguments must be a list or a dictionary"))
      else .ok m
  | _ => .error (.proto (perr METHOD_NOT_FOUND "method must be a string"))

/-- `JSONRPCv1._best_effort_error(error)` -/
def bestEffortError (error : J) : RespVal :=
  let code0 : J := .int ERROR_CODE_UNAVAILABLE
  let msg0 : Str := lit "no error message provided"
  match error with
  | .str s => .rpcError code0 s
  | .int _ | .bool _ => .rpcError error msg0
  | .obj kvs =>
      let message := match getD kMessage kvs with
        | .str s => s
        | _ => msg0
      let code := if (getD kCode kvs).isInt then getD kCode kvs else code0
      .rpcError code message
  | _ => .rpcError code0 msg0

/-- `cls.response_value(payload)` -/
def responseValue : Proto → List (Str × J) → R RespVal
  | .v1, kvs =>
      match J.lookup kResult kvs, J.lookup kError kvs with
      | some result, some error =>
          if error.isNone then .ok (.result result)
          else if !result.isNone then
            .error (.proto (invalidRequest "response has a \"result\" and an \"error\""))
          else .ok (bestEffortError error)
      | _, _ => .error (.proto (invalidRequest "response must contain both \"result\" and \"error\""))
  | .loose, kvs =>
      if !(getD kError kvs).isNone then
        if !(getD kResult kvs).isNone then
          .error (.proto (invalidRequest "response contains both \"result\" and \"error\""))
        else .ok (bestEffortError (getD kError kvs))
      else
        match J.lookup kResult kvs with
        | none => .error (.proto (invalidRequest "response contains neither \"result\" nor \"error\""))
        | some result => .ok (.result result)
  | _, kvs =>
      match J.lookup kResult kvs with
      | some result =>
          if J.hasKey kError kvs then
            .error (.proto (invalidRequest "response contains both \"result\" and \"error\""))
          else .ok (.result result)
      | none =>
          match J.lookup kError kvs with
          | none => .error (.proto (invalidRequest "response contains neither \"result\" nor \"error\""))
          | some (.obj ekvs) =>
              match getD kMessage ekvs with
              | .str m =>
                  if (getD kCode ekvs).isInt then .ok (.rpcError (getD kCode ekvs) m)
                  else .error (.proto (invalidRequest "ill-formed response error object"))
              | _ => .error (.proto (invalidRequest "ill-formed response error object"))
          | some _ => .error (.proto (invalidRequest "ill-formed response error object"))

/-- the dict a payload must be for `.get` to work; anything else is an `AttributeError` in
Python (unreachable: `_message_id` has refused or crashed on non-dicts before) -/
def asDict : J → R (List (Str × J))
  | .obj kvs => .ok kvs
  | _ => .error (.py .attributeError)

/-- body of the `try` in `_process_request` -/
def processRequestBody (P : Proto) (payload : J) (rid : J) : R Item :=
  match asDict payload with
  | .error e => .error e
  | .ok kvs =>
    match validateMessage P kvs with
    | .error e => .error e
    | .ok () =>
      let method := getD kMethod kvs
      match requestArgs P kvs with
      | .error e => .error e
      | .ok args =>
        match singleRequest method args with
        | .error e => .error e
        | .ok m => .ok (if rid.isNone then .notification m args else .request m args)

/-- `cls._process_request(payload)`: a `ProtocolError` raised inside the `try` is re-raised via
`_error(code, message, True, request_id)` where `request_id` is `None` unless `_message_id`
succeeded; anything else propagates. -/
def processRequest (P : Proto) (payload : J) : R (Item × J) :=
  match messageId P payload false with
  | .error (.proto e) => .error (.proto (mkError P e.code e.msg true .null))
  | .error e => .error e
  | .ok rid =>
      match processRequestBody P payload rid with
      | .error (.proto e) => .error (.proto (mkError P e.code e.msg true rid))
      | .error e => .error e
      | .ok item => .ok (item, rid)

/-- `cls._process_response(payload)` -/
def processResponse (P : Proto) (payload : J) : R (Item × J) :=
  match messageId P payload true with
  | .error (.proto e) => .error (.proto (mkError P e.code e.msg false .null))
  | .error e => .error e
  | .ok rid =>
      let body : R RespVal :=
        match asDict payload with
        | .error e => .error e
        | .ok kvs =>
          match validateMessage P kvs with
          | .error e => .error e
          | .ok () => responseValue P kvs
      match body with
      | .error (.proto e) => .error (.proto (mkError P e.code e.msg false rid))
      | .error e => .error e
      | .ok v => .ok (.response v, rid)

/-- `cls.message_to_item` after `_message_to_payload` succeeded with `payload` -/
def payloadToItem (P : Proto) (payload : J) : R (Item × J) :=
  match payload with
  | .obj kvs =>
      if J.hasKey kMethod kvs then processRequest P payload else processResponse P payload
  | .arr xs =>
      if P.allowBatches then
        if xs.isEmpty then .error (.proto (mkError P INVALID_REQUEST (lit "batch is empty") true .null))
        else .ok (.batch xs, .null)
      else .error (.proto (mkError P INVALID_REQUEST (lit "request object must be a dictionary") true .null))
  | _ => .error (.proto (mkError P INVALID_REQUEST (lit "request object must be a dictionary") true .null))

/-! ## `json.loads(message.decode())` and `_message_to_payload` -/

/-- complete outcome space of `json.loads(message.decode())` (trusted-base law L3) -/
inductive LoadsOutcome where
  | value (v : J)
  | unicodeError            -- `message.decode()` failed
  | jsonDecodeError
  | recursionError          -- nesting beyond the interpreter's recursion limit
  | intDigitsValueError     -- plain `ValueError`: integer literal over the 4300-digit limit
  deriving DecidableEq, Repr

def LoadsOutcome.exc? : LoadsOutcome → Option PyExc
  | .value _ => none
  | .unicodeError => some .unicodeDecodeError
  | .jsonDecodeError => some .jsonDecodeError
  | .recursionError => some .recursionError
  | .intDigitsValueError => some .valueError

/-- the two `except` clauses of `_message_to_payload`, in source order, as sets of caught classes -/
structure PayloadGuards where
  clause1 : List PyExc
  clause2 : List PyExc
  deriving DecidableEq, Repr

/-- the code as repaired by fixes/F06 -/
def PayloadGuards.repaired : PayloadGuards :=
  { clause1 := [.unicodeDecodeError], clause2 := [.valueError, .recursionError] }
/-- the pinned tree -/
def PayloadGuards.pinned : PayloadGuards :=
  { clause1 := [.unicodeDecodeError], clause2 := [.jsonDecodeError] }

/-- `cls._message_to_payload(message)` -/
def messageToPayload (g : PayloadGuards) (P : Proto) (o : LoadsOutcome) : R J :=
  match o with
  | .value v => .ok v
  | o =>
      match o.exc? with
      | none => .error (.py .assertionError)     -- not reachable
      | some e =>
          if e.caughtBy g.clause1 then
            .error (.proto (mkError P PARSE_ERROR (lit "messages must be encoded in UTF-8") true .null))
          else if e.caughtBy g.clause2 then
            .error (.proto (mkError P PARSE_ERROR (lit "invalid JSON") true .null))
          else .error (.py e)

/-- `cls.message_to_item(message)` -/
def messageToItem (g : PayloadGuards) (P : Proto) (o : LoadsOutcome) : R (Item × J) :=
  match messageToPayload g P o with
  | .error e => .error e
  | .ok payload => payloadToItem P payload

/-! ## `JSONRPCAutoDetect.detect_protocol` -/

def protocolForPayload : J → Proto
  | .obj kvs =>
      let version := getD kJsonrpc kvs
      if pyEq version s20 then .v2
      else if pyEq version s10 then .v1
      else if J.hasKey kResult kvs && J.hasKey kError kvs then .v1
      else .loose
  | _ => .loose

/-- on the payload `detect_protocol` obtained from `_message_to_payload` -/
def detectProtocol : J → Proto
  | .arr xs =>
      let parts := xs.map protocolForPayload
      match parts with
      | [] => .loose
      | p :: rest =>
          if rest.all (· == p) then p
          else if parts.contains .v2 then .v2
          else if parts.contains .v1 then .v1
          else .loose
  | payload => protocolForPayload payload

/-! ## Serializer model: `json.dumps(payload, separators=…)` with `ensure_ascii=True` -/

structure DumpCfg where
  itemSep : List Char
  keySep : List Char
  ensureAscii : Bool
  /-- `indent`, `sort_keys`, `default`, `cls`, `allow_nan=False`, … : any other keyword present -/
  otherKeywords : Bool
  deriving DecidableEq, Repr

def hexDigit (n : Nat) : Char :=
  if n < 10 then Char.ofNat (n + 48) else Char.ofNat (n - 10 + 97)

/-- `'\\u{0:04x}'` for `n < 0x10000` -/
def u4 (n : Nat) : List Char :=
  ['\\', 'u', hexDigit (n / 4096 % 16), hexDigit (n / 256 % 16), hexDigit (n / 16 % 16), hexDigit (n % 16)]

/-- `json.encoder.py_encode_basestring_ascii` on one code point -/
def escapeCp (c : Nat) : List Char :=
  if c = 34 then ['\\', '"']
  else if c = 92 then ['\\', '\\']
  else if c = 10 then ['\\', 'n']
  else if c = 13 then ['\\', 'r']
  else if c = 9 then ['\\', 't']
  else if c = 8 then ['\\', 'b']
  else if c = 12 then ['\\', 'f']
  else if 32 ≤ c ∧ c ≤ 126 then [Char.ofNat c]
  else if c < 0x10000 then u4 c
  else
    let v := c - 0x10000
    u4 (0xd800 + (v / 1024) % 1024) ++ u4 (0xdc00 + v % 1024)

def dumpsStr (s : Str) : List Char := '"' :: (s.flatMap escapeCp ++ ['"'])

def natDigitsAux : Nat → Nat → List Char → List Char
  | 0, _, acc => acc
  | fuel + 1, n, acc =>
      if n < 10 then hexDigit n :: acc else natDigitsAux fuel (n / 10) (hexDigit (n % 10) :: acc)

def natDigits (n : Nat) : List Char := natDigitsAux (n + 1) n []

def dumpsInt : Int → List Char
  | .ofNat n => natDigits n
  | .negSucc n => '-' :: natDigits (n + 1)

def joinWith (sep : List Char) : List (List Char) → List Char
  | [] => []
  | [x] => x
  | x :: y :: r => x ++ sep ++ joinWith sep (y :: r)

mutual
/-- `json.dumps(v, separators=(itemSep, keySep))`; `fr` renders a float (`float.__repr__`,
`NaN`, `Infinity`, `-Infinity`) -/
def dumps (cfg : DumpCfg) (fr : F → List Char) : J → List Char
  | .null => ['n', 'u', 'l', 'l']
  | .bool true => ['t', 'r', 'u', 'e']
  | .bool false => ['f', 'a', 'l', 's', 'e']
  | .int i => dumpsInt i
  | .float f => fr f
  | .str s => dumpsStr s
  | .arr xs => '[' :: (joinWith cfg.itemSep (dumpsList cfg fr xs) ++ [']'])
  | .obj kvs => '{' :: (joinWith cfg.itemSep (dumpsObj cfg fr kvs) ++ ['}'])
def dumpsList (cfg : DumpCfg) (fr : F → List Char) : List J → List (List Char)
  | [] => []
  | x :: xs => dumps cfg fr x :: dumpsList cfg fr xs
def dumpsObj (cfg : DumpCfg) (fr : F → List Char) : List (Str × J) → List (List Char)
  | [] => []
  | (k, v) :: r => (dumpsStr k ++ cfg.keySep ++ dumps cfg fr v) :: dumpsObj cfg fr r
end

/-- `batch_message_from_parts(messages)`: `b'[' + sep.join(messages) + b']'`; the separator
(`b', '` in the pinned tree) is a call-site fact -/
def batchFromParts (sep : List Char) (parts : List (List Char)) : List Char :=
  '[' :: (joinWith sep parts ++ [']'])

/-- a legal element separator of a JSON array that keeps the message on one line: exactly one
comma, otherwise blanks/tabs -/
def sepOK (sep : List Char) : Bool :=
  sep.all (fun c => c = ',' || c = ' ' || c = '\t') && sep.count ',' == 1

/-- bytes of a `Reply` -/
def Reply.bytes (cfg : DumpCfg) (sep : List Char) (fr : F → List Char) : Reply → List Char
  | .single p => dumps cfg fr p
  | .batch ps => batchFromParts sep (ps.map (dumps cfg fr))

end Aiorpcx.C04
