import Aiorpcx.C04.Lemmas
/-!
# Specification table for incoming messages

`classify P (topOf payload)` is the *documented* classification of an incoming message as a
function of which of the six members {jsonrpc, method, params, id, result, error} are present
and of the kind of their values — written as a priority table, independently of the structure of
the decoder.  `classification_total` (Props) proves the decoder agrees with it on **every**
payload.
-/
namespace Aiorpcx.C04
open Aiorpcx.Py

inductive ParamsK where | absent | list | dict | other
  deriving DecidableEq, Repr
/-- `atom`: a JSON number or a string (`true`/`false` are not numbers) -/
inductive IdK where | absent | null | atom | other
  deriving DecidableEq, Repr
inductive ResK where | absent | null | nonnull
  deriving DecidableEq, Repr
/-- `wellFormed`: an object whose `code` is an int and whose `message` is a string -/
inductive ErrK where | absent | null | wellFormed | other
  deriving DecidableEq, Repr

structure Shape where
  jsonrpc20 : Bool
  hasMethod : Bool
  methodStr : Bool
  params : ParamsK
  id : IdK
  result : ResK
  error : ErrK
  deriving DecidableEq, Repr

inductive TopK where
  | object (s : Shape)
  | emptyArray
  | array
  | other
  deriving DecidableEq, Repr

inductive OutClass where
  | request | notification | result | rpcError | batch
  | err (code : Int)
  /-- a non-`ProtocolError` exception -/
  | crash
  deriving DecidableEq, Repr

def paramsK (kvs : List (Str × J)) : ParamsK :=
  match J.lookup kParams kvs with
  | none => .absent
  | some (.arr _) => .list
  | some (.obj _) => .dict
  | some _ => .other

def idK (kvs : List (Str × J)) : IdK :=
  match J.lookup kId kvs with
  | none => .absent
  | some .null => .null
  | some (.int _) | some (.float _) | some (.str _) => .atom
  | some _ => .other

def resK (kvs : List (Str × J)) : ResK :=
  match J.lookup kResult kvs with
  | none => .absent
  | some .null => .null
  | some _ => .nonnull

def isWellFormedError : J → Bool
  | .obj e =>
      (match J.lookup kCode e with
       | some (.int _) | some (.bool _) => true
       | _ => false) &&
      (match J.lookup kMessage e with
       | some (.str _) => true
       | _ => false)
  | _ => false

def errK (kvs : List (Str × J)) : ErrK :=
  match J.lookup kError kvs with
  | none => .absent
  | some .null => .null
  | some e => if isWellFormedError e then .wellFormed else .other

def shapeOf (kvs : List (Str × J)) : Shape :=
  { jsonrpc20 := decide (J.lookup kJsonrpc kvs = some s20)
    hasMethod := (J.lookup kMethod kvs).isSome
    methodStr := match J.lookup kMethod kvs with | some (.str _) => true | _ => false
    params := paramsK kvs
    id := idK kvs
    result := resK kvs
    error := errK kvs }

def topOf : J → TopK
  | .obj kvs => .object (shapeOf kvs)
  | .arr [] => .emptyArray
  | .arr _ => .array
  | _ => .other

def IR : OutClass := .err INVALID_REQUEST

/-- request side shared by 2.0 and Loose (the id has already been accepted):
params, then method, then request/notification by id -/
def classifyRequestTail (s : Shape) : OutClass :=
  match s.params, s.methodStr, s.id with
  | .other, _, _ => .err INVALID_ARGS
  | _, false, _ => .err METHOD_NOT_FOUND
  | _, true, .atom => .request
  | _, true, _ => .notification

def classifyV2 (s : Shape) : OutClass :=
  match s.hasMethod, s.id, s.jsonrpc20 with
  -- a request: id of a wrong type, then the version member, then the rest
  | true, .other, _ => IR
  | true, _, false => IR
  | true, _, true => classifyRequestTail s
  -- a response needs an id of the right type and the version member
  | false, .absent, _ => IR
  | false, .other, _ => IR
  | false, _, false => IR
  | false, _, true =>
      match s.result, s.error with
      | .absent, .wellFormed => .rpcError
      | .absent, _ => IR
      | _, .absent => .result
      | _, _ => IR                                  -- both members present

def classifyLoose (s : Shape) : OutClass :=
  match s.hasMethod, s.id with
  | true, .other => IR
  | true, _ => classifyRequestTail s
  | false, .absent => IR
  | false, .other => IR
  | false, _ =>
      match s.error, s.result with
      | .wellFormed, .nonnull | .other, .nonnull => IR
      | .wellFormed, _ | .other, _ => .rpcError          -- best effort on any non-null error
      | _, .absent => IR
      | _, _ => .result

def classifyV1 (s : Shape) : OutClass :=
  match s.hasMethod, s.id with
  | _, .absent => IR                                     -- 1.0 always needs an id member
  | true, i =>
      match s.params, s.methodStr, i with
      | .list, true, .null => .notification
      | .list, true, _ => .request
      | .list, false, _ => .err METHOD_NOT_FOUND
      | _, _, _ => .err INVALID_ARGS                      -- positional params only
  | false, _ =>
      match s.result, s.error with
      | .absent, _ | _, .absent => IR
      | _, .null => .result
      | .nonnull, _ => IR
      | .null, _ => .rpcError

/-- the documented outcome class of `message_to_item` on a decoded payload -/
def classify : Proto → TopK → OutClass
  | .v1, .object s => classifyV1 s
  | .v1, _ => IR                               -- 1.0 has no batches
  | .loose, .object s => classifyLoose s
  | _, .object s => classifyV2 s               -- v2 and the AutoDetect class itself
  | _, .emptyArray => IR
  | _, .array => .batch
  | _, .other => IR

def outClass : R (Item × J) → OutClass
  | .ok (.request _ _, _) => .request
  | .ok (.notification _ _, _) => .notification
  | .ok (.response (.result _), _) => .result
  | .ok (.response (.rpcError _ _), _) => .rpcError
  | .ok (.response (.protoError c _), _) => .err c
  | .ok (.batch _, _) => .batch
  | .error (.proto e) => .err e.code
  | .error (.py _) => .crash

end Aiorpcx.C04
