import Aiorpcx.C04.Dumps
/-!
# A reader for what `dumps` writes, and the proof that it inverts `dumps`

`Props.lean` states the message-level theorems for *any* pair (`fr`, `loads`) satisfying the laws
L1 / L1b (`Ser`).  This file shows that the laws are satisfiable — i.e. that the serializer model
`dumps` is injective on well-formed values and that the batch framing can be undone — by
constructing a `Ser` from nothing but a float codec (`FloatCodec`: a rendering of the canonical
finite floats as number tokens together with a left inverse), and then exhibiting one such codec.

`parseValue` is a small recursive-descent JSON reader (blanks allowed around `,` and `:`); the main
theorem is `parseValue_dumps`: reading `dumps cfg fr v ++ rest` gives back `v` and leaves `rest`.
-/
namespace Aiorpcx.C04
open Aiorpcx.Py

/-! ## characters -/

def isBlank (c : Char) : Bool := c == ' ' || c == '\t'

def skipWs : List Char → List Char
  | [] => []
  | c :: cs => if isBlank c then skipWs cs else c :: cs

def isDigitCh (c : Char) : Bool := decide (48 ≤ c.toNat) && decide (c.toNat ≤ 57)

/-- characters of a JSON number token -/
def isNumCh (c : Char) : Bool :=
  isDigitCh c || c == '-' || c == '+' || c == '.' || c == 'e' || c == 'E'

def hexVal (c : Char) : Option Nat :=
  if isDigitCh c then some (c.toNat - 48)
  else if 97 ≤ c.toNat ∧ c.toNat ≤ 102 then some (c.toNat - 87)
  else if 65 ≤ c.toNat ∧ c.toNat ≤ 70 then some (c.toNat - 55)
  else none

theorem hexVal_hexDigit : ∀ k, k < 16 → hexVal (hexDigit k) = some k := by decide

theorem hexDigit_digit : ∀ k, k < 10 → isDigitCh (hexDigit k) = true ∧ (hexDigit k).toNat = k + 48 := by
  decide

def hex4 (a b c d : Char) : Option Nat :=
  match hexVal a, hexVal b, hexVal c, hexVal d with
  | some a, some b, some c, some d => some (((a * 16 + b) * 16 + c) * 16 + d)
  | _, _, _, _ => none

theorem hex4_u4 (n : Nat) (h : n < 65536) :
    hex4 (hexDigit (n / 4096 % 16)) (hexDigit (n / 256 % 16)) (hexDigit (n / 16 % 16)) (hexDigit (n % 16))
      = some n := by
  simp only [hex4, hexVal_hexDigit _ (Nat.mod_lt _ (by decide : 16 > 0))]
  congr 1
  omega

/-! ## strings -/

/-- the character after a backslash (other than `u`) -/
def unescape (c : Char) : Option Nat :=
  if c = '"' then some 34 else if c = '\\' then some 92 else if c = '/' then some 47
  else if c = 'n' then some 10 else if c = 'r' then some 13 else if c = 't' then some 9
  else if c = 'b' then some 8 else if c = 'f' then some 12 else none

/-- is there a `\uXXXX` escape of a low surrogate at the head?  (what `json.loads` looks for after
a high surrogate) -/
def lowEscAhead : List Char → Option (Nat × List Char)
  | [] => none
  | x1 :: t =>
      if x1 ≠ '\\' then none
      else match t with
        | [] => none
        | x2 :: rest =>
            if x2 ≠ 'u' then none
            else match rest with
              | a :: b :: c :: d :: r =>
                  match hex4 a b c d with
                  | some m => if isLoSur m then some (m, r) else none
                  | none => none
              | _ => none

/-- body of a string literal, after the opening quote; `acc` holds the code points read so far
(reversed).  `fuel` bounds the number of steps (one per escape / character). -/
def parseStrBody : Nat → List Char → List Nat → Option (Str × List Char)
  | 0, _, _ => none
  | _ + 1, [], _ => none
  | fuel + 1, c :: cs, acc =>
      if c = '"' then some (acc.reverse, cs)
      else if c = '\\' then
        match cs with
        | [] => none
        | e :: r =>
            if e = 'u' then
              match r with
              | a :: b :: c' :: d :: r' =>
                  match hex4 a b c' d with
                  | none => none
                  | some n =>
                      if isHiSur n then
                        match lowEscAhead r' with
                        | some (m, r'') =>
                            parseStrBody fuel r'' ((0x10000 + (n - 0xD800) * 1024 + (m - 0xDC00)) :: acc)
                        | none => parseStrBody fuel r' (n :: acc)
                      else parseStrBody fuel r' (n :: acc)
              | _ => none
            else
              match unescape e with
              | some n => parseStrBody fuel r (n :: acc)
              | none => none
      else parseStrBody fuel cs (c.toNat :: acc)

theorem escapeCp_length_pos (c : Nat) : 0 < (escapeCp c).length := by
  unfold escapeCp
  repeat' split
  all_goals simp [u4]

theorem ofNat_plain' : ∀ c, c < 127 → (32 ≤ c ∧ c ≠ 34 ∧ c ≠ 92 →
    (Char.ofNat c != '"' && Char.ofNat c != '\\' && (Char.ofNat c).toNat == c) = true) := by decide

theorem ofNat_plain (c : Nat) (h1 : c < 127) (h2 : 32 ≤ c) (h3 : c ≠ 34) (h4 : c ≠ 92) :
    Char.ofNat c ≠ '"' ∧ Char.ofNat c ≠ '\\' ∧ (Char.ofNat c).toNat = c := by
  have := ofNat_plain' c h1 ⟨h2, h3, h4⟩
  simp only [Bool.and_eq_true, bne_iff_ne, ne_eq, beq_iff_eq] at this
  exact ⟨this.1.1, this.1.2, this.2⟩

theorem lowEscAhead_u4 (n : Nat) (h : n < 65536) (t : List Char) :
    lowEscAhead (u4 n ++ t) = if isLoSur n then some (n, t) else none := by
  simp [lowEscAhead, u4, hex4_u4 n h]

/-- no escape sequence that `escapeCp` writes for something other than a low surrogate looks like
the escape of a low surrogate -/
theorem lowEscAhead_escapeCp (b : Nat) (hb : b ≤ 0x10FFFF) (hlo : isLoSur b = false) (t : List Char) :
    lowEscAhead (escapeCp b ++ t) = none := by
  unfold escapeCp
  repeat' split
  any_goals (simp [lowEscAhead]; done)
  · rename_i h
    have := ofNat_plain b (by omega) h.1 (by omega) (by omega)
    simp [lowEscAhead, this.2.1]
  · rename_i h
    rw [lowEscAhead_u4 b h, hlo]; rfl
  · rw [List.append_assoc, lowEscAhead_u4 _ (by omega)]
    have : isLoSur (0xd800 + (b - 0x10000) / 1024 % 1024) = false := by
      simp [isLoSur]; omega
    rw [this]; rfl

theorem parseStrBody_u4 (n : Nat) (h : n < 65536) (fuel : Nat) (rest : List Char) (acc : List Nat) :
    parseStrBody (fuel + 1) (u4 n ++ rest) acc =
      if isHiSur n then
        match lowEscAhead rest with
        | some (m, r'') =>
            parseStrBody fuel r'' ((0x10000 + (n - 0xD800) * 1024 + (m - 0xDC00)) :: acc)
        | none => parseStrBody fuel rest (n :: acc)
      else parseStrBody fuel rest (n :: acc) := by
  simp only [u4, List.cons_append, List.nil_append, parseStrBody]
  simp [hex4_u4 n h]

/-- reading back one escaped code point takes one step -/
theorem parseStrBody_escapeCp (c : Nat) (hc : c ≤ 0x10FFFF) (tail : List Char) (acc : List Nat)
    (fuel : Nat) (hnext : isHiSur c = true → lowEscAhead tail = none) :
    parseStrBody (fuel + 1) (escapeCp c ++ tail) acc = parseStrBody fuel tail (c :: acc) := by
  unfold escapeCp
  repeat' split
  any_goals (subst_vars; simp [parseStrBody, unescape]; done)
  · rename_i h
    obtain ⟨h1, h2, h3⟩ := ofNat_plain c (by omega) h.1 (by omega) (by omega)
    simp [parseStrBody, h1, h2, h3]
  · rename_i h
    rw [parseStrBody_u4 c h]
    cases hh : isHiSur c
    · simp
    · simp [hnext hh]
  · rename_i h1 h2
    have hhi : 0xd800 + (c - 0x10000) / 1024 % 1024 < 65536 := by omega
    have hlo : 0xdc00 + (c - 0x10000) % 1024 < 65536 := by omega
    have e1 : isHiSur (0xd800 + (c - 0x10000) / 1024 % 1024) = true := by
      simp only [isHiSur, Bool.and_eq_true, decide_eq_true_eq]; omega
    have e2 : isLoSur (0xdc00 + (c - 0x10000) % 1024) = true := by
      simp only [isLoSur, Bool.and_eq_true, decide_eq_true_eq]; omega
    have e3 : 0x10000 + (0xd800 + (c - 0x10000) / 1024 % 1024 - 0xD800) * 1024
        + (0xdc00 + (c - 0x10000) % 1024 - 0xDC00) = c := by omega
    rw [List.append_assoc, parseStrBody_u4 _ hhi, e1, if_pos rfl, lowEscAhead_u4 _ hlo, e2, if_pos rfl]
    simp only [e3]

theorem strWf_cons {c : Nat} {s : Str} (h : strWf (c :: s) = true) :
    c ≤ 0x10FFFF ∧ strWf s = true ∧ (isHiSur c = true → ∀ b r, s = b :: r → isLoSur b = false) := by
  cases s with
  | nil => simp [strWf] at h ⊢; exact h
  | cons b r =>
      simp only [strWf, Bool.and_eq_true, decide_eq_true_eq, Bool.not_eq_true'] at h
      refine ⟨h.1.1, h.2, ?_⟩
      intro hh b' r' hbr
      injection hbr with hb _
      subst hb
      have := h.1.2
      simp [hh] at this
      exact this

/-- reading back the body of a string literal written by `dumpsStr` -/
theorem parseStrBody_flatMap (s : Str) (hs : strWf s = true) (rest : List Char) :
    ∀ (acc : List Nat) (fuel : Nat), s.length < fuel →
      parseStrBody fuel (s.flatMap escapeCp ++ '"' :: rest) acc = some (acc.reverse ++ s, rest) := by
  induction s with
  | nil =>
      intro acc fuel hf
      cases fuel with
      | zero => omega
      | succ f => simp [parseStrBody]
  | cons c s ih =>
      intro acc fuel hf
      obtain ⟨hc, hs', hnext⟩ := strWf_cons hs
      cases fuel with
      | zero => omega
      | succ f =>
          rw [List.flatMap_cons, List.append_assoc, parseStrBody_escapeCp c hc _ acc f]
          · rw [ih hs' (c :: acc) f (by simp at hf; omega)]
            simp
          · intro hh
            cases s with
            | nil => simp [lowEscAhead]
            | cons b r =>
                have hb := hnext hh b r rfl
                obtain ⟨hb', _, _⟩ := strWf_cons hs'
                rw [List.flatMap_cons, List.append_assoc]
                exact lowEscAhead_escapeCp b hb' hb _

theorem flatMap_escapeCp_length (s : Str) : s.length ≤ (s.flatMap escapeCp).length := by
  induction s with
  | nil => simp
  | cons c s ih =>
      rw [List.flatMap_cons, List.length_append, List.length_cons]
      have := escapeCp_length_pos c
      omega

/-! ## numbers -/

/-- value of a non-empty all-digit token -/
def digitsValAux : List Char → Nat → Option Nat
  | [], a => some a
  | c :: cs, a => if isDigitCh c then digitsValAux cs (a * 10 + (c.toNat - 48)) else none

def digitsVal : List Char → Option Nat
  | [] => none
  | cs => digitsValAux cs 0

/-- an integer literal as `dumpsInt` writes it -/
def parseIntTok : List Char → Option Int
  | [] => none
  | c :: cs =>
      if c = '-' then (digitsVal cs).map fun n => -(n : Int)
      else (digitsVal (c :: cs)).map fun n => (n : Int)

/-- split off the longest prefix of number characters -/
def spanNum : List Char → List Char × List Char
  | [] => ([], [])
  | c :: cs => if isNumCh c then ((spanNum cs).1.cons c, (spanNum cs).2) else ([], c :: cs)

/-- nothing that could continue a number token comes next -/
def delim (rest : List Char) : Prop := ∀ c r, rest = c :: r → isNumCh c = false

theorem delim_nil : delim [] := by intro c r h; cases h
theorem delim_cons {c : Char} {r : List Char} (h : isNumCh c = false) : delim (c :: r) := by
  intro c' r' h'; injection h' with h1 _; subst h1; exact h

theorem spanNum_append (t rest : List Char) (ht : t.all isNumCh = true) (hr : delim rest) :
    spanNum (t ++ rest) = (t, rest) := by
  induction t with
  | nil =>
      cases rest with
      | nil => rfl
      | cons c r => simp [spanNum, hr c r rfl]
  | cons c t ih =>
      simp only [List.all_cons, Bool.and_eq_true] at ht
      simp [spanNum, ht.1, ih ht.2]

theorem natDigitsAux_acc : ∀ (fuel n : Nat) (acc : List Char),
    natDigitsAux fuel n acc = natDigitsAux fuel n [] ++ acc
  | 0, _, acc => by simp [natDigitsAux]
  | fuel + 1, n, acc => by
      unfold natDigitsAux
      split
      · simp
      · rw [natDigitsAux_acc fuel (n / 10) (hexDigit (n % 10) :: acc),
            natDigitsAux_acc fuel (n / 10) [hexDigit (n % 10)]]
        simp

theorem digitsValAux_append (xs ys : List Char) (a : Nat) :
    digitsValAux (xs ++ ys) a = (digitsValAux xs a).bind (digitsValAux ys) := by
  induction xs generalizing a with
  | nil => simp [digitsValAux]
  | cons c xs ih =>
      simp only [List.cons_append, digitsValAux]
      split
      · exact ih _
      · rfl

/-- the digits `natDigits` writes are read back as the number -/
theorem digitsValAux_natDigitsAux : ∀ (fuel n : Nat), n < fuel →
    natDigitsAux fuel n [] ≠ [] ∧ digitsValAux (natDigitsAux fuel n []) 0 = some n
      ∧ (natDigitsAux fuel n []).all isDigitCh = true
  | 0, _, h => by omega
  | fuel + 1, n, h => by
      unfold natDigitsAux
      split
      · rename_i hn
        obtain ⟨h1, h2⟩ := hexDigit_digit n hn
        simp [digitsValAux, h1, h2]
      · rename_i hn
        obtain ⟨i1, i2, i3⟩ := digitsValAux_natDigitsAux fuel (n / 10) (by omega)
        obtain ⟨h1, h2⟩ := hexDigit_digit (n % 10) (by omega)
        rw [natDigitsAux_acc]
        refine ⟨by simp, ?_, by simp [i3, h1]⟩
        rw [digitsValAux_append, i2]
        simp [digitsValAux, h1, h2]
        omega

theorem natDigits_spec (n : Nat) :
    natDigits n ≠ [] ∧ digitsVal (natDigits n) = some n ∧ (natDigits n).all isDigitCh = true := by
  obtain ⟨h1, h2, h3⟩ := digitsValAux_natDigitsAux (n + 1) n (by omega)
  refine ⟨h1, ?_, h3⟩
  unfold natDigits at *
  cases h : natDigitsAux (n + 1) n [] with
  | nil => exact absurd h h1
  | cons c cs => rw [h] at h2; simpa [digitsVal] using h2

theorem isDigitCh_numCh {c : Char} (h : isDigitCh c = true) : isNumCh c = true := by
  simp [isNumCh, h]

theorem isDigitCh_ne_minus {c : Char} (h : isDigitCh c = true) : c ≠ '-' := by
  intro hc; subst hc; revert h; decide

/-- `dumpsInt` is read back by `parseIntTok`; its characters are number characters -/
theorem parseIntTok_dumpsInt (i : Int) :
    parseIntTok (dumpsInt i) = some i ∧ (dumpsInt i).all isNumCh = true ∧ dumpsInt i ≠ [] := by
  cases i with
  | ofNat n =>
      obtain ⟨h1, h2, h3⟩ := natDigits_spec n
      simp only [dumpsInt]
      refine ⟨?_, ?_, h1⟩
      · cases h : natDigits n with
        | nil => exact absurd h h1
        | cons c cs =>
            rw [h] at h2 h3
            simp only [List.all_cons, Bool.and_eq_true] at h3
            simp [parseIntTok, isDigitCh_ne_minus h3.1, h2]
      · rw [List.all_eq_true] at h3 ⊢
        exact fun c hc => isDigitCh_numCh (h3 c hc)
  | negSucc n =>
      obtain ⟨h1, h2, h3⟩ := natDigits_spec (n + 1)
      simp only [dumpsInt]
      refine ⟨?_, ?_, by simp⟩
      · simp [parseIntTok, h2, Int.negSucc_eq]
      · rw [List.all_eq_true] at h3
        simp only [List.all_cons, Bool.and_eq_true, List.all_eq_true]
        exact ⟨by decide, fun c hc => isDigitCh_numCh (h3 c hc)⟩

/-! ## the float codec (the only part of `json` left as a parameter) -/

/-- a rendering of floats as number tokens with a left inverse on the canonical finite floats:
what `float.__repr__` / `float()` are to CPython -/
structure FloatCodec where
  fr : F → List Char
  pf : List Char → Option F
  /-- the rendering is a non-empty token of number characters … -/
  numCh : ∀ f, f.wf = true → (fr f).all isNumCh = true ∧ fr f ≠ []
  /-- … that is not an integer literal (it has a `.` or an exponent) … -/
  notInt : ∀ f, f.wf = true → parseIntTok (fr f) = none
  /-- … and reading it gives the float back -/
  inv : ∀ f, f.wf = true → pf (fr f) = some f

/-! ## the reader -/

def kwNull : List Char := ['n', 'u', 'l', 'l']
def kwTrue : List Char := ['t', 'r', 'u', 'e']
def kwFalse : List Char := ['f', 'a', 'l', 's', 'e']

/-- a number token at the head -/
def parseNumber (pf : List Char → Option F) (cs : List Char) : Option (J × List Char) :=
  let tok := (spanNum cs).1
  let rest := (spanNum cs).2
  if tok = [] then none
  else match parseIntTok tok with
    | some i => some (.int i, rest)
    | none => (pf tok).map fun f => (.float f, rest)

mutual
/-- one JSON value at the head of `cs` (no leading blanks); returns it with what follows -/
def parseValue (pf : List Char → Option F) : Nat → List Char → Option (J × List Char)
  | 0, _ => none
  | _ + 1, [] => none
  | fuel + 1, c :: r =>
      if c = '"' then
        (parseStrBody (r.length + 1) r []).map fun (s, r') => (.str s, r')
      else if c = '[' then
        match skipWs r with
        | [] => none
        | c2 :: r2 =>
            if c2 = ']' then some (.arr [], r2)
            else (parseElems pf fuel (c2 :: r2)).map fun (xs, r') => (.arr xs, r')
      else if c = '{' then
        match skipWs r with
        | [] => none
        | c2 :: r2 =>
            if c2 = '}' then some (.obj [], r2)
            else (parseMembers pf fuel (c2 :: r2)).map fun (kvs, r') => (.obj kvs, r')
      else if (c :: r).take 4 = kwNull then some (.null, (c :: r).drop 4)
      else if (c :: r).take 4 = kwTrue then some (.bool true, (c :: r).drop 4)
      else if (c :: r).take 5 = kwFalse then some (.bool false, (c :: r).drop 5)
      else parseNumber pf (c :: r)
/-- `v₁ , v₂ , … ]` -/
def parseElems (pf : List Char → Option F) : Nat → List Char → Option (List J × List Char)
  | 0, _ => none
  | fuel + 1, cs =>
      match parseValue pf fuel cs with
      | none => none
      | some (v, r) =>
          match skipWs r with
          | [] => none
          | c :: r' =>
              if c = ',' then (parseElems pf fuel (skipWs r')).map fun (xs, r'') => (v :: xs, r'')
              else if c = ']' then some ([v], r')
              else none
/-- `"k₁" : v₁ , … }` -/
def parseMembers (pf : List Char → Option F) : Nat → List Char → Option (List (Str × J) × List Char)
  | 0, _ => none
  | _ + 1, [] => none
  | fuel + 1, c :: r =>
      if c = '"' then
        match parseStrBody (r.length + 1) r [] with
        | none => none
        | some (k, r1) =>
            match skipWs r1 with
            | [] => none
            | c1 :: r2 =>
                if c1 = ':' then
                  match parseValue pf fuel (skipWs r2) with
                  | none => none
                  | some (v, r3) =>
                      match skipWs r3 with
                      | [] => none
                      | c3 :: r4 =>
                          if c3 = ',' then
                            (parseMembers pf fuel (skipWs r4)).map fun (kvs, r5) => ((k, v) :: kvs, r5)
                          else if c3 = '}' then some ([(k, v)], r4)
                          else none
                else none
      else none
end

/-! ## reading back what `dumps` wrote -/

/-- blanks, the punctuation character, blanks: `","`, `", "`, `": "` … -/
def SepForm (sep : List Char) (ch : Char) : Prop :=
  ∃ a b, sep = a ++ ch :: b ∧ a.all isBlank = true ∧ b.all isBlank = true

/-- the separators `json.dumps` was called with are a comma / a colon, possibly padded -/
def CfgOK (cfg : DumpCfg) : Prop := SepForm cfg.itemSep ',' ∧ SepForm cfg.keySep ':'

theorem skipWs_blanks (a x : List Char) (ha : a.all isBlank = true) : skipWs (a ++ x) = skipWs x := by
  induction a with
  | nil => rfl
  | cons c a ih =>
      simp only [List.all_cons, Bool.and_eq_true] at ha
      simp [skipWs, ha.1, ih ha.2]

/-- the text starts with the first character of a value: not a blank, not a closing bracket -/
def startsValue (cs : List Char) : Prop :=
  ∃ c, cs.head? = some c ∧ isBlank c = false ∧ c ≠ ']' ∧ c ≠ '}'

theorem startsValue.cons {cs : List Char} (h : startsValue cs) :
    ∃ c t, cs = c :: t ∧ isBlank c = false ∧ c ≠ ']' ∧ c ≠ '}' := by
  obtain ⟨c, hh, hb, h1, h2⟩ := h
  cases cs with
  | nil => cases hh
  | cons c' t =>
      simp only [List.head?_cons, Option.some.injEq] at hh
      subst hh
      exact ⟨c', t, rfl, hb, h1, h2⟩

theorem startsValue.skipWs {cs : List Char} (h : startsValue cs) : skipWs cs = cs := by
  obtain ⟨c, t, rfl, hb, _, _⟩ := h.cons
  simp [Aiorpcx.C04.skipWs, hb]

theorem startsValue_append {a : List Char} (t : List Char) (h : startsValue a) : startsValue (a ++ t) := by
  obtain ⟨c, hh, hb, h1, h2⟩ := h
  exact ⟨c, by simp [List.head?_append, hh], hb, h1, h2⟩

theorem startsValue_quote (t : List Char) : startsValue ('"' :: t) :=
  ⟨'"', rfl, by decide, by decide, by decide⟩

theorem numCh_props {c : Char} (h : isNumCh c = true) :
    isBlank c = false ∧ c ≠ ']' ∧ c ≠ '}' ∧ c ≠ '"' ∧ c ≠ '[' ∧ c ≠ '{' ∧ c ≠ 'n' ∧ c ≠ 't' ∧ c ≠ 'f' := by
  refine ⟨?_, ?_, ?_, ?_, ?_, ?_, ?_, ?_, ?_⟩
  · cases hb : isBlank c
    · rfl
    · simp only [isBlank, Bool.or_eq_true, beq_iff_eq] at hb
      rcases hb with rfl | rfl <;> revert h <;> decide
  all_goals (intro hc; subst hc; revert h; decide)

theorem blank_not_numCh {c : Char} (h : isBlank c = true) : isNumCh c = false := by
  cases hn : isNumCh c
  · rfl
  · rw [(numCh_props hn).1] at h; cases h

theorem startsValue_tok {tok : List Char} (h1 : tok.all isNumCh = true) (h2 : tok ≠ []) :
    startsValue tok := by
  cases tok with
  | nil => exact absurd rfl h2
  | cons c t =>
      simp only [List.all_cons, Bool.and_eq_true] at h1
      obtain ⟨p1, p2, p3, _⟩ := numCh_props h1.1
      exact ⟨c, rfl, p1, p2, p3⟩

theorem startsValue_dumps (cfg : DumpCfg) (C : FloatCodec) (v : J) (hv : v.wf = true) :
    startsValue (dumps cfg C.fr v) := by
  cases v with
  | null => exact ⟨'n', rfl, by decide, by decide, by decide⟩
  | bool b => cases b <;> exact ⟨_, rfl, by decide, by decide, by decide⟩
  | int i =>
      obtain ⟨_, h2, h3⟩ := parseIntTok_dumpsInt i
      unfold dumps
      exact startsValue_tok h2 h3
  | float f =>
      unfold dumps
      obtain ⟨h1, h2⟩ := C.numCh f (by simpa [J.wf] using hv)
      exact startsValue_tok h1 h2
  | str s => exact ⟨'"', rfl, by decide, by decide, by decide⟩
  | arr xs => exact ⟨'[', by unfold dumps; rfl, by decide, by decide, by decide⟩
  | obj kvs => exact ⟨'{', by unfold dumps; rfl, by decide, by decide, by decide⟩

theorem dumps_length_pos (cfg : DumpCfg) (C : FloatCodec) (v : J) (hv : v.wf = true) :
    0 < (dumps cfg C.fr v).length := by
  obtain ⟨c, t, h, _⟩ := (startsValue_dumps cfg C v hv).cons
  rw [h]; simp

/-- after a value comes a separator or a closing bracket: nothing that continues a number -/
theorem delim_sep {sep : List Char} {ch : Char} (hs : SepForm sep ch) (hch : isNumCh ch = false)
    (t : List Char) : delim (sep ++ t) := by
  obtain ⟨a, b, rfl, ha, _⟩ := hs
  cases a with
  | nil => exact delim_cons hch
  | cons c a =>
      simp only [List.all_cons, Bool.and_eq_true] at ha
      exact delim_cons (blank_not_numCh ha.1)

theorem skipWs_sep {sep : List Char} {ch : Char} (hs : SepForm sep ch) (hch : isBlank ch = false)
    (t : List Char) : ∃ b, b.all isBlank = true ∧ skipWs (sep ++ t) = ch :: (b ++ t) := by
  obtain ⟨a, b, rfl, ha, hb⟩ := hs
  refine ⟨b, hb, ?_⟩
  rw [List.append_assoc, skipWs_blanks _ _ ha]
  simp [skipWs, hch]

theorem sep_length_pos {sep : List Char} {ch : Char} (hs : SepForm sep ch) : 0 < sep.length := by
  obtain ⟨a, b, rfl, _, _⟩ := hs
  simp; omega

theorem wfList_cons {x : J} {xs : List J} (h : J.wfList (x :: xs) = true) :
    x.wf = true ∧ J.wfList xs = true := by
  simpa [J.wfList] using h

theorem wfObj_cons {k : Str} {v : J} {r : List (Str × J)} (h : J.wfObj ((k, v) :: r) = true) :
    v.wf = true ∧ J.wfObj r = true := by
  simpa [J.wfObj] using h

theorem keysWf_cons {k : Str} {v : J} {r : List (Str × J)} (h : keysWf ((k, v) :: r) = true) :
    strWf k = true ∧ keysWf r = true := by
  simpa [keysWf] using h

/-- reading a string body written by `dumpsStr`, followed by anything, with enough fuel -/
theorem parseStr_any (s : Str) (hs : strWf s = true) (rest : List Char) (n : Nat)
    (hn : (s.flatMap escapeCp).length < n) :
    parseStrBody n (s.flatMap escapeCp ++ '"' :: rest) [] = some (s, rest) := by
  have := parseStrBody_flatMap s hs rest [] n (by have := flatMap_escapeCp_length s; omega)
  simpa using this

/-! the dispatch of `parseValue`, one lemma per first character -/

theorem parseValue_quote (pf : List Char → Option F) (f : Nat) (r : List Char) :
    parseValue pf (f + 1) ('"' :: r)
      = (parseStrBody (r.length + 1) r []).map fun (s, r') => (.str s, r') := by
  simp [parseValue]

theorem parseValue_bracket (pf : List Char → Option F) (f : Nat) (r : List Char) (c2 : Char)
    (t2 : List Char) (h : skipWs r = c2 :: t2) (hne : c2 ≠ ']') :
    parseValue pf (f + 1) ('[' :: r)
      = (parseElems pf f (c2 :: t2)).map fun (xs, r') => (.arr xs, r') := by
  simp [parseValue, h, hne]

theorem parseValue_brace (pf : List Char → Option F) (f : Nat) (r : List Char) (c2 : Char)
    (t2 : List Char) (h : skipWs r = c2 :: t2) (hne : c2 ≠ '}') :
    parseValue pf (f + 1) ('{' :: r)
      = (parseMembers pf f (c2 :: t2)).map fun (kvs, r') => (.obj kvs, r') := by
  simp [parseValue, h, hne]

theorem parseValue_number (pf : List Char → Option F) (f : Nat) (c : Char) (t : List Char)
    (hc : isNumCh c = true) :
    parseValue pf (f + 1) (c :: t) = parseNumber pf (c :: t) := by
  obtain ⟨_, _, _, p1, p2, p3, p4, p5, p6⟩ := numCh_props hc
  simp [parseValue, p1, p2, p3, p4, p5, p6, kwNull, kwTrue, kwFalse]

theorem parseNumber_tok (pf : List Char → Option F) (tok rest : List Char)
    (h1 : tok.all isNumCh = true) (h2 : tok ≠ []) (hd : delim rest) :
    parseNumber pf (tok ++ rest) =
      match parseIntTok tok with
      | some i => some (.int i, rest)
      | none => (pf tok).map fun f => (.float f, rest) := by
  simp [parseNumber, spanNum_append tok rest h1 hd, h2]

theorem parseElems_step (pf : List Char → Option F) (f : Nat) (cs : List Char) (v : J) (r : List Char)
    (h : parseValue pf f cs = some (v, r)) :
    parseElems pf (f + 1) cs =
      match skipWs r with
      | [] => none
      | c :: r' =>
          if c = ',' then (parseElems pf f (skipWs r')).map fun (xs, r'') => (v :: xs, r'')
          else if c = ']' then some ([v], r')
          else none := by
  simp [parseElems, h]

theorem parseMembers_step (pf : List Char → Option F) (f : Nat) (r : List Char) (k : Str)
    (r1 r2 r3 : List Char) (v : J)
    (h1 : parseStrBody (r.length + 1) r [] = some (k, r1))
    (h2 : skipWs r1 = ':' :: r2)
    (h3 : parseValue pf f (skipWs r2) = some (v, r3)) :
    parseMembers pf (f + 1) ('"' :: r) =
      match skipWs r3 with
      | [] => none
      | c3 :: r4 =>
          if c3 = ',' then
            (parseMembers pf f (skipWs r4)).map fun (kvs, r5) => ((k, v) :: kvs, r5)
          else if c3 = '}' then some ([(k, v)], r4)
          else none := by
  simp [parseMembers, h1, h2, h3]

theorem joinWith_dumpsList_starts (cfg : DumpCfg) (C : FloatCodec) (sep : List Char) (x : J)
    (xs : List J) (hx : x.wf = true) :
    startsValue (joinWith sep (dumpsList cfg C.fr (x :: xs))) := by
  cases xs with
  | nil => simpa [dumpsList, joinWith] using startsValue_dumps cfg C x hx
  | cons y r =>
      simp only [dumpsList, joinWith, List.append_assoc]
      exact startsValue_append _ (startsValue_dumps cfg C x hx)

theorem joinWith_dumpsObj_starts (cfg : DumpCfg) (fr : F → List Char) (sep : List Char) (k : Str) (v : J)
    (r : List (Str × J)) :
    startsValue (joinWith sep (dumpsObj cfg fr ((k, v) :: r))) := by
  cases r with
  | nil => exact ⟨'"', by simp [dumpsObj, joinWith, dumpsStr], by decide, by decide, by decide⟩
  | cons y r' =>
      obtain ⟨k', v'⟩ := y
      exact ⟨'"', by simp [dumpsObj, joinWith, dumpsStr], by decide, by decide, by decide⟩

theorem joinWith_dumpsObj_cons (cfg : DumpCfg) (fr : F → List Char) (sep : List Char) (k : Str) (v : J)
    (r : List (Str × J)) (t : List Char) :
    ∃ t', joinWith sep (dumpsObj cfg fr ((k, v) :: r)) ++ t
        = '"' :: (k.flatMap escapeCp ++ '"' :: (cfg.keySep ++ (dumps cfg fr v ++ t')))
      ∧ t' = (match r with | [] => t | y :: r' => sep ++ (joinWith sep (dumpsObj cfg fr (y :: r')) ++ t)) := by
  cases r with
  | nil => exact ⟨t, by simp [dumpsObj, joinWith, dumpsStr], rfl⟩
  | cons y r' =>
      obtain ⟨k', v'⟩ := y
      exact ⟨_, by simp [dumpsObj, joinWith, dumpsStr], rfl⟩

mutual
/-- **reading back a value**: `parseValue` on `dumps v` followed by `rest` returns `v` and `rest` -/
theorem parseValue_dumps (cfg : DumpCfg) (C : FloatCodec) (hc : CfgOK cfg) :
    ∀ (v : J), v.wf = true → ∀ (fuel : Nat) (rest : List Char),
      (dumps cfg C.fr v).length < fuel → delim rest →
      parseValue C.pf fuel (dumps cfg C.fr v ++ rest) = some (v, rest)
  | .null, _, fuel, rest, hf, _ => by
      cases fuel with
      | zero => omega
      | succ f => simp [dumps, parseValue, kwNull]
  | .bool true, _, fuel, rest, hf, _ => by
      cases fuel with
      | zero => omega
      | succ f => simp [dumps, parseValue, kwNull, kwTrue]
  | .bool false, _, fuel, rest, hf, _ => by
      cases fuel with
      | zero => omega
      | succ f => simp [dumps, parseValue, kwNull, kwTrue, kwFalse]
  | .int i, _, fuel, rest, hf, hd => by
      obtain ⟨h1, h2, h3⟩ := parseIntTok_dumpsInt i
      cases fuel with
      | zero => omega
      | succ f =>
          unfold dumps
          cases ht : dumpsInt i with
          | nil => exact absurd ht h3
          | cons c t =>
              have hc' : isNumCh c = true := by
                rw [ht] at h2; simp only [List.all_cons, Bool.and_eq_true] at h2; exact h2.1
              rw [List.cons_append, parseValue_number _ _ _ _ hc', ← List.cons_append, ← ht,
                parseNumber_tok _ _ _ h2 h3 hd, h1]
  | .float x, hv, fuel, rest, hf, hd => by
      have hx : x.wf = true := by simpa [J.wf] using hv
      obtain ⟨h2, h3⟩ := C.numCh x hx
      have h1 := C.notInt x hx
      have h4 := C.inv x hx
      cases fuel with
      | zero => omega
      | succ f =>
          unfold dumps
          cases ht : C.fr x with
          | nil => exact absurd ht h3
          | cons c t =>
              have hc' : isNumCh c = true := by
                rw [ht] at h2; simp only [List.all_cons, Bool.and_eq_true] at h2; exact h2.1
              rw [List.cons_append, parseValue_number _ _ _ _ hc', ← List.cons_append, ← ht,
                parseNumber_tok _ _ _ h2 h3 hd, h1, h4]
              rfl
  | .str s, hv, fuel, rest, hf, _ => by
      have hs : strWf s = true := by simpa [J.wf] using hv
      cases fuel with
      | zero => omega
      | succ f =>
          have e : dumps cfg C.fr (.str s) ++ rest = '"' :: (s.flatMap escapeCp ++ '"' :: rest) := by
            simp [dumps, dumpsStr]
          rw [e, parseValue_quote, parseStr_any s hs rest _ (by simp; omega)]
          rfl
  | .arr [], _, fuel, rest, hf, _ => by
      cases fuel with
      | zero => omega
      | succ f => simp [dumps, dumpsList, joinWith, parseValue, skipWs, isBlank]
  | .arr (x :: xs), hv, fuel, rest, hf, _ => by
      have hw : J.wfList (x :: xs) = true := by simpa [J.wf] using hv
      cases fuel with
      | zero => omega
      | succ f =>
          have hlen : (joinWith cfg.itemSep (dumpsList cfg C.fr (x :: xs))).length + 1 < f := by
            simp [dumps] at hf; omega
          have ih := parseElems_dumps cfg C hc (x :: xs) hw (by simp) cfg.itemSep hc.1 f rest hlen
          have hsv := startsValue_append (']' :: rest)
            (joinWith_dumpsList_starts cfg C cfg.itemSep x xs (wfList_cons hw).1)
          have hsk := hsv.skipWs
          obtain ⟨c2, t2, hr, _, hne, _⟩ := hsv.cons
          have e : dumps cfg C.fr (.arr (x :: xs)) ++ rest
              = '[' :: (joinWith cfg.itemSep (dumpsList cfg C.fr (x :: xs)) ++ ']' :: rest) := by
            simp [dumps]
          rw [e, parseValue_bracket _ _ _ c2 t2 (by rw [hsk, hr]) hne, ← hr, ih]
          rfl
  | .obj [], _, fuel, rest, hf, _ => by
      cases fuel with
      | zero => omega
      | succ f => simp [dumps, dumpsObj, joinWith, parseValue, skipWs, isBlank]
  | .obj ((k, v) :: r), hv, fuel, rest, hf, _ => by
      have hw : keysWf ((k, v) :: r) = true ∧ J.wfObj ((k, v) :: r) = true := by
        simp only [J.wf, Bool.and_eq_true] at hv; exact ⟨hv.1.2, hv.2⟩
      cases fuel with
      | zero => omega
      | succ f =>
          have hlen : (joinWith cfg.itemSep (dumpsObj cfg C.fr ((k, v) :: r))).length + 1 < f := by
            simp [dumps] at hf; omega
          have ih := parseMembers_dumps cfg C hc ((k, v) :: r) hw.1 hw.2 (by simp) f rest hlen
          have hsv := startsValue_append ('}' :: rest)
            (joinWith_dumpsObj_starts cfg C.fr cfg.itemSep k v r)
          have hsk := hsv.skipWs
          obtain ⟨c2, t2, hr, _, _, hne⟩ := hsv.cons
          have e : dumps cfg C.fr (.obj ((k, v) :: r)) ++ rest
              = '{' :: (joinWith cfg.itemSep (dumpsObj cfg C.fr ((k, v) :: r)) ++ '}' :: rest) := by
            simp [dumps]
          rw [e, parseValue_brace _ _ _ c2 t2 (by rw [hsk, hr]) hne, ← hr, ih]
          rfl
theorem parseElems_dumps (cfg : DumpCfg) (C : FloatCodec) (hc : CfgOK cfg) :
    ∀ (xs : List J), J.wfList xs = true → xs ≠ [] → ∀ (sep : List Char), SepForm sep ',' →
      ∀ (fuel : Nat) (rest : List Char),
      (joinWith sep (dumpsList cfg C.fr xs)).length + 1 < fuel →
      parseElems C.pf fuel (joinWith sep (dumpsList cfg C.fr xs) ++ ']' :: rest) = some (xs, rest)
  | [], _, hne, _, _, _, _, _ => absurd rfl hne
  | [x], hw, _, sep, hs, fuel, rest, hf => by
      cases fuel with
      | zero => omega
      | succ f =>
          have hx := (wfList_cons hw).1
          have h1 := parseValue_dumps cfg C hc x hx f (']' :: rest)
            (by simp [dumpsList, joinWith] at hf; omega) (delim_cons (by decide))
          have e : joinWith sep (dumpsList cfg C.fr [x]) ++ ']' :: rest
              = dumps cfg C.fr x ++ ']' :: rest := by simp [dumpsList, joinWith]
          rw [e, parseElems_step _ _ _ _ _ h1]
          simp [skipWs, isBlank]
  | x :: y :: r, hw, _, sep, hs, fuel, rest, hf => by
      cases fuel with
      | zero => omega
      | succ f =>
          obtain ⟨hx, hw'⟩ := wfList_cons hw
          have hpos := dumps_length_pos cfg C x hx
          have hsl := sep_length_pos hs
          have e : joinWith sep (dumpsList cfg C.fr (x :: y :: r)) ++ ']' :: rest
              = dumps cfg C.fr x ++ (sep ++ (joinWith sep (dumpsList cfg C.fr (y :: r)) ++ ']' :: rest)) := by
            simp [dumpsList, joinWith]
          have hl : (joinWith sep (dumpsList cfg C.fr (x :: y :: r))).length
              = (dumps cfg C.fr x).length + sep.length + (joinWith sep (dumpsList cfg C.fr (y :: r))).length := by
            simp [dumpsList, joinWith]; omega
          have h1 := parseValue_dumps cfg C hc x hx f
            (sep ++ (joinWith sep (dumpsList cfg C.fr (y :: r)) ++ ']' :: rest)) (by omega)
            (delim_sep hs (by decide) _)
          obtain ⟨b, hb, hsk⟩ := skipWs_sep hs (by decide : isBlank ',' = false)
            (joinWith sep (dumpsList cfg C.fr (y :: r)) ++ ']' :: rest)
          have hsv := startsValue_append (']' :: rest)
            (joinWith_dumpsList_starts cfg C sep y r (wfList_cons hw').1)
          have ih := parseElems_dumps cfg C hc (y :: r) hw' (by simp) sep hs f rest (by omega)
          rw [e, parseElems_step _ _ _ _ _ h1, hsk]
          simp [skipWs_blanks _ _ hb, hsv.skipWs, ih]
theorem parseMembers_dumps (cfg : DumpCfg) (C : FloatCodec) (hc : CfgOK cfg) :
    ∀ (kvs : List (Str × J)), keysWf kvs = true → J.wfObj kvs = true → kvs ≠ [] →
      ∀ (fuel : Nat) (rest : List Char),
      (joinWith cfg.itemSep (dumpsObj cfg C.fr kvs)).length + 1 < fuel →
      parseMembers C.pf fuel (joinWith cfg.itemSep (dumpsObj cfg C.fr kvs) ++ '}' :: rest) = some (kvs, rest)
  | [], _, _, hne, _, _, _ => absurd rfl hne
  | [(k, v)], hk, hw, _, fuel, rest, hf => by
      cases fuel with
      | zero => omega
      | succ f =>
          have hv := (wfObj_cons hw).1
          have hks := (keysWf_cons hk).1
          have hl : (joinWith cfg.itemSep (dumpsObj cfg C.fr [(k, v)])).length
              = (dumpsStr k).length + cfg.keySep.length + (dumps cfg C.fr v).length := by
            simp [dumpsObj, joinWith]; omega
          obtain ⟨b, hb, hsk⟩ := skipWs_sep hc.2 (by decide : isBlank ':' = false)
            (dumps cfg C.fr v ++ '}' :: rest)
          have hsv := startsValue_append ('}' :: rest) (startsValue_dumps cfg C v hv)
          have h1 := parseValue_dumps cfg C hc v hv f ('}' :: rest) (by omega) (delim_cons (by decide))
          have e : joinWith cfg.itemSep (dumpsObj cfg C.fr [(k, v)]) ++ '}' :: rest
              = '"' :: (k.flatMap escapeCp ++ '"' :: (cfg.keySep ++ (dumps cfg C.fr v ++ '}' :: rest))) := by
            simp [dumpsObj, joinWith, dumpsStr]
          rw [e, parseMembers_step _ _ _ k _ (b ++ (dumps cfg C.fr v ++ '}' :: rest)) ('}' :: rest) v
            (parseStr_any k hks _ _ (by simp; omega)) hsk
            (by rw [skipWs_blanks _ _ hb, hsv.skipWs]; exact h1)]
          simp [skipWs, isBlank]
  | (k, v) :: y :: r, hk, hw, _, fuel, rest, hf => by
      cases fuel with
      | zero => omega
      | succ f =>
          obtain ⟨hv, hw'⟩ := wfObj_cons hw
          obtain ⟨hks, hk'⟩ := keysWf_cons hk
          have hsl := sep_length_pos hc.1
          have hpos := dumps_length_pos cfg C v hv
          have hl : (joinWith cfg.itemSep (dumpsObj cfg C.fr ((k, v) :: y :: r))).length
              = (dumpsStr k).length + cfg.keySep.length + (dumps cfg C.fr v).length + cfg.itemSep.length
                + (joinWith cfg.itemSep (dumpsObj cfg C.fr (y :: r))).length := by
            simp [dumpsObj, joinWith]; omega
          obtain ⟨tail, htail⟩ : ∃ tail, tail = joinWith cfg.itemSep (dumpsObj cfg C.fr (y :: r)) ++ '}' :: rest :=
            ⟨_, rfl⟩
          obtain ⟨b, hb, hsk⟩ := skipWs_sep hc.2 (by decide : isBlank ':' = false)
            (dumps cfg C.fr v ++ (cfg.itemSep ++ tail))
          have h1 := parseValue_dumps cfg C hc v hv f (cfg.itemSep ++ tail) (by omega)
            (delim_sep hc.1 (by decide) _)
          obtain ⟨b2, hb2, hsk2⟩ := skipWs_sep hc.1 (by decide : isBlank ',' = false) tail
          have hsv := startsValue_append (cfg.itemSep ++ tail) (startsValue_dumps cfg C v hv)
          have hsv2 : startsValue tail := by
            obtain ⟨k', v'⟩ := y
            rw [htail]
            exact startsValue_append _ (joinWith_dumpsObj_starts cfg C.fr cfg.itemSep k' v' r)
          have ih := parseMembers_dumps cfg C hc (y :: r) hk' hw' (by simp) f rest (by omega)
          rw [← htail] at ih
          have e : joinWith cfg.itemSep (dumpsObj cfg C.fr ((k, v) :: y :: r)) ++ '}' :: rest
              = '"' :: (k.flatMap escapeCp ++ '"' :: (cfg.keySep ++ (dumps cfg C.fr v ++ (cfg.itemSep ++ tail)))) := by
            rw [htail]; simp [dumpsObj, joinWith, dumpsStr]
          rw [e, parseMembers_step _ _ _ k _ (b ++ (dumps cfg C.fr v ++ (cfg.itemSep ++ tail)))
            (cfg.itemSep ++ tail) v (parseStr_any k hks _ _ (by simp; omega)) hsk
            (by rw [skipWs_blanks _ _ hb, hsv.skipWs]; exact h1), hsk2]
          simp [skipWs_blanks _ _ hb2, hsv2.skipWs, ih]
end

/-! ## `json.loads` for what `dumps` writes, and the laws L1 / L1b as theorems -/

/-- read one value; the whole text must be consumed (trailing blanks allowed) -/
def loadsOf (pf : List Char → Option F) (s : List Char) : LoadsOutcome :=
  match parseValue pf (s.length + 1) s with
  | some (v, r) => if skipWs r = [] then .value v else .jsonDecodeError
  | none => .jsonDecodeError

/-- **L1 is a theorem**: for every float codec, reading what `dumps` wrote gives the value back -/
theorem loads_dumps (cfg : DumpCfg) (C : FloatCodec) (hc : CfgOK cfg) (v : J) (hv : v.wf = true) :
    loadsOf C.pf (dumps cfg C.fr v) = .value v := by
  have := parseValue_dumps cfg C hc v hv ((dumps cfg C.fr v).length + 1) [] (by omega) delim_nil
  simp only [List.append_nil] at this
  simp [loadsOf, this, skipWs]

/-- hence the serializer model is injective on well-formed values: distinct values never share
their bytes (with the pre-canonical `wf`, `fin 2 0` and `fin 1 1` did under the real float repr) -/
theorem dumps_injective (cfg : DumpCfg) (C : FloatCodec) (hc : CfgOK cfg) (v w : J)
    (hv : v.wf = true) (hw : w.wf = true) (h : dumps cfg C.fr v = dumps cfg C.fr w) : v = w := by
  have h1 := loads_dumps cfg C hc v hv
  rw [h, loads_dumps cfg C hc w hw] at h1
  injection h1 with h1
  exact h1.symm

theorem dumpsList_eq_map (cfg : DumpCfg) (fr : F → List Char) (xs : List J) :
    dumpsList cfg fr xs = xs.map (dumps cfg fr) := by
  induction xs with
  | nil => rfl
  | cons x xs ih => simp [dumpsList, ih]

theorem wfList_of_forall {vs : List J} (h : ∀ v ∈ vs, v.wf = true) : J.wfList vs = true := by
  induction vs with
  | nil => rfl
  | cons v vs ih =>
      simp only [J.wfList, Bool.and_eq_true]
      exact ⟨h v (by simp), ih (fun w hw => h w (by simp [hw]))⟩

/-- **L1b is a theorem**: the batch framing `[` parts joined by the separator `]` reads back as the
list of the parts -/
theorem loads_batch (cfg : DumpCfg) (C : FloatCodec) (hc : CfgOK cfg) (sep : List Char)
    (hs : SepForm sep ',') (vs : List J) (hne : vs ≠ []) (hwf : ∀ v ∈ vs, v.wf = true) :
    loadsOf C.pf (batchFromParts sep (vs.map (dumps cfg C.fr))) = .value (.arr vs) := by
  cases vs with
  | nil => exact absurd rfl hne
  | cons x xs =>
      have hw := wfList_of_forall hwf
      have hsv := startsValue_append [']']
        (joinWith_dumpsList_starts cfg C sep x xs (wfList_cons hw).1)
      have hsk := hsv.skipWs
      obtain ⟨c2, t2, hr, _, hne2, _⟩ := hsv.cons
      have ih := parseElems_dumps cfg C hc (x :: xs) hw (by simp) sep hs
        ((joinWith sep (dumpsList cfg C.fr (x :: xs))).length + 2) [] (by omega)
      rw [← dumpsList_eq_map]
      unfold batchFromParts loadsOf
      have e : ('[' :: (joinWith sep (dumpsList cfg C.fr (x :: xs)) ++ [']'])).length + 1
          = ((joinWith sep (dumpsList cfg C.fr (x :: xs))).length + 2) + 1 := by simp
      rw [e, parseValue_bracket _ _ _ c2 t2 (by rw [hsk, hr]) hne2, ← hr, ih]
      simp [skipWs]

/-! ## one float codec (so that the laws are known to be satisfiable) -/

theorem dumpsInt_chars (i : Int) : ∀ c ∈ dumpsInt i, isDigitCh c = true ∨ c = '-' := by
  intro c hc
  cases i with
  | ofNat n =>
      have := (natDigits_spec n).2.2
      rw [List.all_eq_true] at this
      exact Or.inl (this c hc)
  | negSucc n =>
      have := (natDigits_spec (n + 1)).2.2
      rw [List.all_eq_true] at this
      simp only [dumpsInt, List.mem_cons] at hc
      rcases hc with rfl | hc
      · exact Or.inr rfl
      · exact Or.inl (this c hc)

theorem dumpsInt_no_e (i : Int) : ∀ c ∈ dumpsInt i, c ≠ 'e' := by
  intro c hc he
  subst he
  rcases dumpsInt_chars i _ hc with h | h
  · revert h; decide
  · revert h; decide

/-- split at the first `e` -/
def splitE : List Char → List Char × List Char
  | [] => ([], [])
  | c :: cs => if c = 'e' then ([], cs) else ((splitE cs).1.cons c, (splitE cs).2)

theorem splitE_append (a b : List Char) (ha : ∀ c ∈ a, c ≠ 'e') : splitE (a ++ 'e' :: b) = (a, b) := by
  induction a with
  | nil => simp [splitE]
  | cons c a ih =>
      have hc : c ≠ 'e' := ha c (by simp)
      simp [splitE, hc, ih (fun x hx => ha x (by simp [hx]))]

theorem digitsValAux_nondigit (xs ys : List Char) (c : Char) (hc : isDigitCh c = false) (a : Nat) :
    digitsValAux (xs ++ c :: ys) a = none := by
  rw [digitsValAux_append]
  cases digitsValAux xs a <;> simp [digitsValAux, hc]

theorem parseIntTok_with_e (a b : List Char) : parseIntTok (a ++ 'e' :: b) = none := by
  have he : isDigitCh 'e' = false := by decide
  cases a with
  | nil => simp [parseIntTok, digitsVal, digitsValAux, he]
  | cons c a =>
      simp only [List.cons_append, parseIntTok]
      split
      · cases a with
        | nil => simp [digitsVal, digitsValAux, he]
        | cons d a =>
            have := digitsValAux_nondigit (d :: a) b 'e' he 0
            simp only [List.cons_append] at this
            simp [digitsVal, this]
      · have := digitsValAux_nondigit (c :: a) b 'e' he 0
        simp only [List.cons_append] at this
        simp [digitsVal, this]

/-- a toy rendering: `m·2^e` is written `<m>e<e>` (decimal), `-0.0` as `-0.0` -/
def toyFr : F → List Char
  | .fin m e => dumpsInt m ++ 'e' :: dumpsInt e
  | .negZero => ['-', '0', '.', '0']
  | _ => ['.']

def toyPf (tok : List Char) : Option F :=
  if tok = ['-', '0', '.', '0'] then some .negZero
  else match parseIntTok (splitE tok).1, parseIntTok (splitE tok).2 with
    | some m, some e => some (.fin m e)
    | _, _ => none

def toyFloat : FloatCodec where
  fr := toyFr
  pf := toyPf
  numCh := by
    intro f hf
    cases f with
    | fin m e =>
        obtain ⟨_, h2, h3⟩ := parseIntTok_dumpsInt m
        obtain ⟨_, k2, _⟩ := parseIntTok_dumpsInt e
        refine ⟨?_, by simp [toyFr]⟩
        simp only [toyFr, List.all_append, List.all_cons, Bool.and_eq_true]
        exact ⟨h2, by decide, k2⟩
    | negZero => exact ⟨by decide, by decide⟩
    | inf n => simp [F.wf] at hf
    | nan => simp [F.wf] at hf
  notInt := by
    intro f hf
    cases f with
    | fin m e => exact parseIntTok_with_e _ _
    | negZero => decide
    | inf n => simp [F.wf] at hf
    | nan => simp [F.wf] at hf
  inv := by
    intro f hf
    cases f with
    | fin m e =>
        have hne : dumpsInt m ++ 'e' :: dumpsInt e ≠ ['-', '0', '.', '0'] := by
          intro h
          have : 'e' ∈ dumpsInt m ++ 'e' :: dumpsInt e := by simp
          rw [h] at this
          revert this; decide
        simp only [toyFr, toyPf, hne, if_false, splitE_append _ _ (dumpsInt_no_e m),
          (parseIntTok_dumpsInt m).1, (parseIntTok_dumpsInt e).1]
    | negZero => decide
    | inf n => simp [F.wf] at hf
    | nan => simp [F.wf] at hf

/-! ## recognising padded separators (for the facts tie) -/

def dropBlanks : List Char → List Char
  | [] => []
  | c :: cs => if isBlank c then dropBlanks cs else c :: cs

/-- blanks, `ch`, blanks - as a computation -/
def sepFormB (sep : List Char) (ch : Char) : Bool :=
  match dropBlanks sep with
  | [] => false
  | c :: r => c == ch && r.all isBlank

theorem dropBlanks_spec (s : List Char) :
    ∃ a, s = a ++ dropBlanks s ∧ a.all isBlank = true := by
  induction s with
  | nil => exact ⟨[], rfl, rfl⟩
  | cons c s ih =>
      cases hb : isBlank c
      · exact ⟨[], by simp [dropBlanks, hb], rfl⟩
      · obtain ⟨a, h1, h2⟩ := ih
        refine ⟨c :: a, ?_, by simp [hb, h2]⟩
        simp only [dropBlanks, hb, if_true, List.cons_append]
        exact congrArg _ h1

theorem sepFormB_sound {sep : List Char} {ch : Char} (h : sepFormB sep ch = true) : SepForm sep ch := by
  obtain ⟨a, h1, h2⟩ := dropBlanks_spec sep
  unfold sepFormB at h
  cases hd : dropBlanks sep with
  | nil => rw [hd] at h; cases h
  | cons c r =>
      rw [hd] at h h1
      simp only [Bool.and_eq_true, beq_iff_eq] at h
      exact ⟨a, r, by rw [h1, h.1], h2, h.2⟩

example : CfgOK ⟨[','], [':'], true, false⟩ := ⟨sepFormB_sound (by decide), sepFormB_sound (by decide)⟩
example : CfgOK ⟨[',', ' '], [':', ' '], true, false⟩ := ⟨sepFormB_sound (by decide), sepFormB_sound (by decide)⟩

end Aiorpcx.C04
