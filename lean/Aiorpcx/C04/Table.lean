import Aiorpcx.C04.Classify
/-!
# The finite tables that `tools/facts/c04.py` fills in by RUNNING the real codec

* `allTops`   — every row of the specification table (`Classify.lean`), in a fixed order; the
  generated `Facts.C04.decodeTable P` lists, in the same order, the outcome class (`outCode`) the
  real `message_to_item` of class `P` produced on a representative message of that row;
* `EncRow`    — one probe of a real encoder with what it emitted (payload parsed back from the
  bytes, or the code of the `ProtocolError` raised); `EncRow.holds` says the model's encoder
  produces the same payload (members compared as a set: JSON objects are unordered).

The theorems `facts_decode_table` / `facts_encode_table` (Props) are re-proved on every run.
-/
namespace Aiorpcx.C04
open Aiorpcx.Py

def allParamsK : List ParamsK := [.absent, .list, .dict, .other]
def allIdK : List IdK := [.absent, .null, .atom, .other]
def allResK : List ResK := [.absent, .null, .nonnull]
def allErrK : List ErrK := [.absent, .null, .wellFormed, .other]
/-- `(hasMethod, methodStr)`: no method member, a string, something else -/
def allMethodK : List (Bool × Bool) := [(false, false), (true, true), (true, false)]

/-- every shape a decoded object can have (`methodStr` implies `hasMethod`) -/
def allShapes : List Shape :=
  [false, true].flatMap fun j =>
    allMethodK.flatMap fun (hm, ms) =>
      allParamsK.flatMap fun p =>
        allIdK.flatMap fun i =>
          allResK.flatMap fun r =>
            allErrK.map fun e =>
              { jsonrpc20 := j, hasMethod := hm, methodStr := ms, params := p, id := i,
                result := r, error := e }

def allTops : List TopK := allShapes.map .object ++ [.emptyArray, .array, .other]

/-- numeric code of an outcome class (twin of the constants in tools/facts/c04.py) -/
def outCode : OutClass → Nat
  | .request => 0
  | .notification => 1
  | .result => 2
  | .rpcError => 3
  | .batch => 4
  | .err c =>
      if c = INVALID_REQUEST then 5 else if c = METHOD_NOT_FOUND then 6
      else if c = INVALID_ARGS then 7 else 8
  | .crash => 9

/-- the column of the table the specification predicts for class `P` -/
def specColumn (P : Proto) : List Nat := allTops.map fun t => outCode (classify P t)

/-! ## every decoded payload falls in a row of the table -/

theorem shapeOf_methodStr (kvs : List (Str × J)) :
    (shapeOf kvs).methodStr = true → (shapeOf kvs).hasMethod = true := by
  unfold shapeOf
  cases h : J.lookup kMethod kvs <;> simp

/-! ## encoder probes -/

inductive EncOut where
  | payload (p : J)
  | protocolError (code : Int)
  /-- any other exception, or bytes that are not JSON -/
  | crash
  deriving DecidableEq, Repr

inductive EncRow where
  | req (P : Proto) (method : Str) (args rid : J) (out : EncOut)
  | res (P : Proto) (value rid : J) (out : EncOut)
  | err (P : Proto) (code message rid : J) (out : EncOut)
  | batch (P : Proto) (members : List Member) (out : EncOut)
  deriving Repr

/-- same members (each name once), whatever the order -/
def sameMembers (a b : List (Str × J)) : Bool :=
  a.length == b.length && uniqueKeys a && a.all fun (k, v) => J.lookup k b == some v

/-- equal as JSON messages: objects at the top compare as member sets (the nested values, among
them the error object, compare member-wise one level down as well) -/
def sameMsg : J → J → Bool
  | .obj a, .obj b =>
      a.length == b.length && uniqueKeys a && a.all fun (k, v) =>
        match v, J.lookup k b with
        | .obj x, some (.obj y) => sameMembers x y
        | v, some w => v == w
        | _, none => false
  | a, b => a == b

def sameMsgs : List J → List J → Bool
  | [], [] => true
  | x :: xs, y :: ys => sameMsg x y && sameMsgs xs ys
  | _, _ => false

def matchR (model : R J) (out : EncOut) : Bool :=
  match model, out with
  | .ok p, .payload q => sameMsg p q
  | .error (.proto e), .protocolError c => e.code == c
  | _, _ => false

/-- tuples reach the wire as arrays: the probe's arguments are given as the JSON they denote -/
def EncRow.holds : EncRow → Bool
  | .req P m args rid out => matchR (requestPayload P m args rid) out
  | .res P v rid out => matchR (.ok (responsePayload P v rid)) out
  | .err P c m rid out => matchR (.ok (errorPayload P c m rid)) out
  | .batch P ms out =>
      match batchPayloads P ms, out with
      | .ok ps, .payload (.arr qs) => sameMsgs ps qs
      | .error (.proto e), .protocolError c => e.code == c
      | _, _ => false

end Aiorpcx.C04
