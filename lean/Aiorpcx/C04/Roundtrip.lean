import Aiorpcx.C04.Lemmas
/-! C04 round-trip theorems at payload level (`decode (encode item) = item`, same id); restated
in `Props.lean`'s index.  Separate file only to keep each proof file fast. -/
namespace Aiorpcx.C04
open Aiorpcx.Py

/-! ## Round trips at payload level (`decode (encode item) = item`, same id) -/

/-- 2.0 / Loose / AutoDetect: a request with list-or-dict arguments and a number-or-string id -/
theorem roundtrip_request (P : Proto) (hP : P ≠ .v1) (m : Str) (args rid : J)
    (hargs : Args args) (hrid : ReqId rid) :
    ∃ p, requestPayload P m args rid = .ok p ∧ processRequest P p = .ok (.request m args, rid)
      ∧ payloadToItem P p = .ok (.request m args, rid) := by
  cases P <;> simp at hP <;> refine ⟨_, rfl, ?_⟩ <;>
  (rcases args with _ | _ | _ | _ | _ | xs | kvs <;> simp [Args, J.isList, J.isDict] at hargs
   · cases xs <;> cases rid <;> simp [ReqId, isJsonNumber, J.isStr] at hrid <;> codec_simp []
   · cases kvs <;> cases rid <;> simp [ReqId, isJsonNumber, J.isStr] at hrid <;> codec_simp [])

example : ∃ p, requestPayload .v2 (lit "m") (.arr []) (.int 7) = .ok p
    ∧ payloadToItem .v2 p = .ok (.request (lit "m") (.arr []) , .int 7) :=
  let ⟨p, h1, _, h3⟩ := roundtrip_request .v2 (by decide) (lit "m") (.arr []) (.int 7)
    (Or.inl rfl) (Or.inl rfl)
  ⟨p, h1, h3⟩

theorem roundtrip_notification (P : Proto) (hP : P ≠ .v1) (m : Str) (args : J) (hargs : Args args) :
    ∃ p, requestPayload P m args .null = .ok p
      ∧ processRequest P p = .ok (.notification m args, .null)
      ∧ payloadToItem P p = .ok (.notification m args, .null) := by
  cases P <;> simp at hP <;> refine ⟨_, rfl, ?_⟩ <;>
  (rcases args with _ | _ | _ | _ | _ | xs | kvs <;> simp [Args, J.isList, J.isDict] at hargs
   · cases xs <;> codec_simp []
   · cases kvs <;> codec_simp [])

theorem roundtrip_result (P : Proto) (hP : P ≠ .v1) (v rid : J) (hrid : RespId rid) :
    payloadToItem P (responsePayload P v rid) = .ok (.response (.result v), rid) := by
  cases P <;> simp at hP <;> cases rid <;>
    simp [RespId, isJsonNumber, J.isStr, J.isNone] at hrid <;> codec_simp []

/-- an error with an `int` code (a `bool` is an `int` to Python) and a string message -/
theorem roundtrip_error (P : Proto) (hP : P ≠ .v1) (code : J) (msg : Str) (rid : J)
    (hcode : code.isInt = true) (hrid : RespId rid) :
    payloadToItem P (errorPayload P code (.str msg) rid) = .ok (.response (.rpcError code msg), rid) := by
  cases P <;> simp at hP <;> cases rid <;>
    simp [RespId, isJsonNumber, J.isStr, J.isNone] at hrid <;>
    cases code <;> simp [J.isInt] at hcode <;> codec_simp []

/-- 1.0: positional arguments, **any** non-null JSON value as id -/
theorem roundtrip_request_v1 (m : Str) (xs : List J) (rid : J) (hrid : rid.isNone = false) :
    ∃ p, requestPayload .v1 m (.arr xs) rid = .ok p
      ∧ payloadToItem .v1 p = .ok (.request m (.arr xs), rid) := by
  refine ⟨_, rfl, ?_⟩
  cases rid <;> simp [J.isNone] at hrid <;> codec_simp []

theorem roundtrip_notification_v1 (m : Str) (xs : List J) :
    ∃ p, requestPayload .v1 m (.arr xs) .null = .ok p
      ∧ payloadToItem .v1 p = .ok (.notification m (.arr xs), .null) := by
  refine ⟨_, rfl, ?_⟩
  codec_simp []

/-- 1.0 results round-trip for every result (`None` included) and every id -/
theorem roundtrip_result_v1 (v rid : J) :
    payloadToItem .v1 (responsePayload .v1 v rid) = .ok (.response (.result v), rid) := by
  codec_simp []

theorem roundtrip_error_v1 (code : J) (msg : Str) (rid : J) (hcode : code.isInt = true) :
    payloadToItem .v1 (errorPayload .v1 code (.str msg) rid)
      = .ok (.response (.rpcError code msg), rid) := by
  cases code <;> simp [J.isInt] at hcode <;> codec_simp []

/-! ### batches -/

def Member.item : Member → Item × J
  | .request m a rid => (.request m a, rid)
  | .notification m a => (.notification m a, .null)

def Member.valid : Member → Prop
  | .request _ a rid => Args a ∧ ReqId rid
  | .notification _ a => Args a

theorem member_roundtrip (P : Proto) (hP : P ≠ .v1) (mb : Member) (h : mb.valid) :
    ∃ p, memberPayload P mb = .ok p ∧ processRequest P p = .ok mb.item := by
  cases mb with
  | request m a rid =>
      obtain ⟨p, h1, h2, _⟩ := roundtrip_request P hP m a rid h.1 h.2
      exact ⟨p, h1, h2⟩
  | notification m a =>
      obtain ⟨p, h1, h2, _⟩ := roundtrip_notification P hP m a h
      exact ⟨p, h1, h2⟩

theorem members_roundtrip (P : Proto) (hP : P ≠ .v1) :
    ∀ ms : List Member, (∀ mb ∈ ms, mb.valid) →
      ∃ ps, mapM' (memberPayload P) ms = .ok ps ∧ ps.length = ms.length
        ∧ mapM' (processRequest P) ps = .ok (ms.map Member.item)
  | [], _ => ⟨[], rfl, rfl, rfl⟩
  | mb :: ms, h => by
      obtain ⟨p, h1, h2⟩ := member_roundtrip P hP mb (h mb (by simp))
      obtain ⟨ps, h3, h4, h5⟩ := members_roundtrip P hP ms (fun x hx => h x (by simp [hx]))
      refine ⟨p :: ps, ?_, by simp [h4], ?_⟩
      · simp [mapM', h1, h3]
      · simp [mapM', h2, h5]

/-- a batch of requests and notifications: the message is the array of the member payloads,
`message_to_item` hands back exactly those payloads, and decoding them one by one
(`_receive_request_batch`) gives the members back in order, each under its own id -/
theorem roundtrip_batch (P : Proto) (hP : P ≠ .v1) (ms : List Member) (hne : ms ≠ [])
    (h : ∀ mb ∈ ms, mb.valid) :
    ∃ ps, batchPayloads P ms = .ok ps ∧ payloadToItem P (.arr ps) = .ok (.batch ps, .null)
      ∧ mapM' (processRequest P) ps = .ok (ms.map Member.item) := by
  obtain ⟨ps, h1, h2, h3⟩ := members_roundtrip P hP ms h
  have hps : ps ≠ [] := by
    intro hnil
    rw [hnil] at h2
    exact hne (List.length_eq_zero_iff.1 h2.symm)
  have hab : P.allowBatches = true := by cases P <;> simp_all [Proto.allowBatches]
  refine ⟨ps, ?_, ?_, h3⟩
  · unfold batchPayloads
    rw [h1]
    cases ps with
    | nil => exact absurd rfl hps
    | cons p ps => simp [hab]
  · cases ps with
    | nil => exact absurd rfl hps
    | cons p ps => simp [payloadToItem, hab]

example : ∃ ps, batchPayloads .v2 [.request (lit "a") (.arr []) (.int 0), .notification (lit "b") (.obj [])]
    = .ok ps ∧ payloadToItem .v2 (.arr ps) = .ok (.batch ps, .null) :=
  let ⟨ps, h1, h2, _⟩ := roundtrip_batch .v2 (by decide)
    [.request (lit "a") (.arr []) (.int 0), .notification (lit "b") (.obj [])] (by simp)
    (by intro mb hmb; simp at hmb; rcases hmb with rfl | rfl
        · exact ⟨Or.inl rfl, Or.inl rfl⟩
        · exact Or.inr rfl)
  ⟨ps, h1, h2⟩

end Aiorpcx.C04
