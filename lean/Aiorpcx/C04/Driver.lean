import Aiorpcx.Common.Hex
import Aiorpcx.Common.JWire
import Aiorpcx.C04.Model
import Aiorpcx.C04.Loads
import Aiorpcx.C04.Conn
import Aiorpcx.Facts.C04
/-! Line-protocol driver for the C04 model (values in the `JWire` token encoding).

    echo <J>                         -> <J>                       wire self-test
    dec <P> <J payload>              -> item line                 `message_to_item` after loads
    decx <P> <outcome>               -> item line                 outcome ∈ unicode|json|recursion|intdigits
    req <P> <s method> <J args> <J id>   -> ok <J payload> | item line (error)
      (payloads and replies are printed with `canonMsg`: members sorted by name)
    res <P> <J result> <J id>        -> ok <J payload>
    err <P> <J code> <J msg> <J id>  -> ok <J payload>
    batch <P> <k> (R <s> <J> <J> | N <s> <J>)*   -> ok <J array of payloads> | item line (error)
    detect <J payload>               -> v1|v2|loose
    dumps <J>                        -> D<the model's json.dumps text>   (floats print as `F`)
    conn <P> <k> (x:<outcome> | <J payload>)*   -> <class>* | <protocol afterwards>
                                        a history of k received messages through one connection created
                                        with class P; class = R | N | V (a response, also a refused one)
                                        | B | PE<code> (error with a reply) | PY<Exception>
    loads <hex bytes>                -> L<J> | Lfail      the reader of Loads.lean (`loadsOf`) on the
                                        bytes a real encoder emitted (float-free messages only)

  item line:  R <s method> <J args> <J id> | N <s method> <J args> | V <J result> <J id>
            | E <J code> <s message> <J id> | X <int code> <J id>          (ProtocolError in a Response)
            | B <J array>
            | PE <code> <masked reply J or -> <response id J or ->
            | PY <ExceptionName>
  The guards of `_message_to_payload` are the ones read from /repo (`Facts.C04.payloadGuards`). -/
open Aiorpcx Aiorpcx.Py Aiorpcx.C04 Aiorpcx.JWire

def parseProto : String → Option Proto
  | "v1" => some .v1 | "v2" => some .v2 | "loose" => some .loose | "auto" => some .auto
  | _ => none

def showProto : Proto → String
  | .v1 => "v1" | .v2 => "v2" | .loose => "loose" | .auto => "auto"

/-- library-generated message texts are not compared: replace `error.message` by "*" -/
def maskMsg : J → J
  | .obj kvs => .obj (kvs.map fun (k, v) =>
      if k = kError then
        match v with
        | .obj e => (k, .obj (e.map fun (k2, v2) => if k2 = kMessage then (k2, .str (lit "*")) else (k2, v2)))
        | _ => (k, v)
      else (k, v))
  | v => v

def showReply : Option Reply → String
  | none => "-"
  | some (.single p) => showJ (canonMsg (maskMsg p))
  | some (.batch ps) => showJ (.arr (ps.map fun p => canonMsg (maskMsg p)))

def showExc : Exc → String
  | .py e => "PY " ++ e.name
  | .proto e =>
      s!"PE {e.code} {showReply e.errorMessage} " ++
        (match e.responseMsgId with | none => "-" | some i => showJ i)

def showItem : Item × J → String
  | (.request m a, rid) => s!"R {showStrTok m} {showJ a} {showJ rid}"
  | (.notification m a, _) => s!"N {showStrTok m} {showJ a}"
  | (.response (.result v), rid) => s!"V {showJ v} {showJ rid}"
  | (.response (.rpcError c m), rid) => s!"E {showJ c} {showStrTok m} {showJ rid}"
  | (.response (.protoError c _), rid) => s!"X {c} {showJ rid}"
  | (.batch ps, _) => s!"B {showJ (.arr ps)}"

def showR {α : Type} (f : α → String) : R α → String
  | .ok a => f a
  | .error e => showExc e

/-- floats render as a fixed token in the driver: float text is never compared -/
def frDriver : F → List Char := fun _ => ['F']

def parseOutcome : String → Option LoadsOutcome
  | "unicode" => some .unicodeError
  | "json" => some .jsonDecodeError
  | "recursion" => some .recursionError
  | "intdigits" => some .intDigitsValueError
  | _ => none

def strOf : J → Option Str
  | .str s => some s
  | _ => none

/-- parse `k` batch members -/
def parseMembers : Nat → List String → Option (List Member)
  | 0, [] => some []
  | 0, _ :: _ => none
  | k + 1, "R" :: rest => do
      let (m, r1) ← parsePrefix rest
      let (a, r2) ← parsePrefix r1
      let (i, r3) ← parsePrefix r2
      let ms ← parseMembers k r3
      let m ← strOf m
      pure (.request m a i :: ms)
  | k + 1, "N" :: rest => do
      let (m, r1) ← parsePrefix rest
      let (a, r2) ← parsePrefix r1
      let ms ← parseMembers k r2
      let m ← strOf m
      pure (.notification m a :: ms)
  | _, _ => none

def connClass : R (Item × J) → String
  | .ok (.request _ _, _) => "R"
  | .ok (.notification _ _, _) => "N"
  | .ok (.response _, _) => "V"
  | .ok (.batch _, _) => "B"
  | .error (.proto e) => if e.errorMessage.isSome then s!"PE{e.code}" else "V"
  | .error (.py e) => "PY" ++ e.name

/-- parse `k` messages of a history -/
def parseHistory : Nat → List String → Option (List LoadsOutcome)
  | 0, [] => some []
  | 0, _ :: _ => none
  | _ + 1, [] => none
  | k + 1, tok :: rest =>
      if tok.startsWith "x:" then
        match parseOutcome (tok.drop 2).toString, parseHistory k rest with
        | some o, some os => some (o :: os)
        | _, _ => none
      else
        match parsePrefix (tok :: rest) with
        | some (v, r) => (parseHistory k r).map (LoadsOutcome.value v :: ·)
        | none => none

def handle (line : String) : String :=
  let g := Aiorpcx.Facts.C04.payloadGuards
  match tokens line with
  | "echo" :: rest =>
      match parseToks rest with
      | some v => showJ v
      | none => "bad-op"
  | "dec" :: p :: rest =>
      match parseProto p, parseToks rest with
      | some P, some v => showR showItem (messageToItem g P (.value v))
      | _, _ => "bad-op"
  | ["decx", p, o] =>
      match parseProto p, parseOutcome o with
      | some P, some o => showR showItem (messageToItem g P o)
      | _, _ => "bad-op"
  | "req" :: p :: rest =>
      match parseProto p, parsePrefix rest with
      | some P, some (.str m, r1) =>
          match parsePrefix r1 with
          | some (a, r2) =>
              match parseToks r2 with
              | some i => showR (fun v => "ok " ++ showJ (canonMsg v)) (requestPayload P m a i)
              | none => "bad-op"
          | none => "bad-op"
      | _, _ => "bad-op"
  | "res" :: p :: rest =>
      match parseProto p, parsePrefix rest with
      | some P, some (v, r1) =>
          match parseToks r1 with
          | some i => "ok " ++ showJ (canonMsg (responsePayload P v i))
          | none => "bad-op"
      | _, _ => "bad-op"
  | "err" :: p :: rest =>
      match parseProto p, parsePrefix rest with
      | some P, some (c, r1) =>
          match parsePrefix r1 with
          | some (m, r2) =>
              match parseToks r2 with
              | some i => "ok " ++ showJ (canonMsg (errorPayload P c m i))
              | none => "bad-op"
          | none => "bad-op"
      | _, _ => "bad-op"
  | "batch" :: p :: k :: rest =>
      match parseProto p, k.toNat? with
      | some P, some k =>
          match parseMembers k rest with
          | some ms => showR (fun ps => "ok " ++ showJ (.arr (ps.map canonMsg))) (batchPayloads P ms)
          | none => "bad-op"
      | _, _ => "bad-op"
  | "detect" :: rest =>
      match parseToks rest with
      | some v => showProto (detectProtocol v)
      | none => "bad-op"
  | "conn" :: p :: k :: rest =>
      match parseProto p, k.toNat? with
      | some P, some k =>
          match parseHistory k rest with
          | some os =>
              " ".intercalate ((connRun g P os).map connClass) ++ " | " ++ showProto (connProto g P os)
          | none => "bad-op"
      | _, _ => "bad-op"
  | ["loads", hex] =>
      match Hex.parseBytes hex with
      | some bs =>
          if bs.all (· < 128) then
            match loadsOf toyPf (bs.map fun b => Char.ofNat b.toNat) with
            | .value v => "L" ++ showJ v
            | _ => "Lfail"
          else "Lfail"
      | none => "bad-op"
  | "dumps" :: rest =>
      match parseToks rest with
      | some v => "D" ++ String.ofList (dumps Aiorpcx.Facts.C04.dumpCfg frDriver v)
      | none => "bad-op"
  | _ => "bad-op"

def main : IO Unit := Hex.lineLoop handle
