import Aiorpcx.C04.ClassifyProofs
import Aiorpcx.C04.Lemmas
/-! Loose is an extension of both strict decoders: every payload strict 2.0 (resp. 1.0, for
ids Loose admits) accepts is accepted by Loose with the same item and id.  Stronger than the
property needs (which only speaks of encoder outputs). -/
namespace Aiorpcx.C04
open Aiorpcx.Py
set_option linter.unusedSimpArgs false


theorem processRequest_loose_of_v2 (p : J) (x : Item × J) (h : processRequest .v2 p = .ok x) :
    processRequest .loose p = .ok x := by
  unfold processRequest at h ⊢
  have hm : messageId .loose p false = messageId .v2 p false := rfl
  rw [hm]
  cases hid : messageId .v2 p false with
  | error e => rw [hid] at h; cases e <;> simp at h
  | ok rid =>
    rw [hid] at h
    simp only at h ⊢
    unfold processRequestBody at h ⊢
    cases hd : asDict p with
    | error e => rw [hd] at h; cases e <;> simp at h
    | ok kvs =>
      rw [hd] at h
      simp only at h ⊢
      cases hv : validateMessage .v2 kvs with
      | error e => rw [hv] at h; cases e <;> simp at h
      | ok u =>
        rw [hv] at h
        simp only [validateMessage] at h ⊢
        have ha : requestArgs .loose kvs = requestArgs .v2 kvs := rfl
        rw [ha]
        exact h

theorem responseValue_loose_of_v2 (kvs : List (Str × J)) (v : RespVal)
    (h : responseValue .v2 kvs = .ok v) : responseValue .loose kvs = .ok v := by
  rw [responseValue_v2_eq] at h
  unfold responseValue getD
  cases hr : J.lookup kResult kvs with
  | some r =>
    rw [hr] at h
    simp only at h
    cases he : J.lookup kError kvs with
    | none =>
      simp [J.hasKey, he] at h
      simp [J.isNone, h, hr, he]
    | some e => simp [J.hasKey, he] at h
  | none =>
    rw [hr] at h
    simp only at h
    cases he : J.lookup kError kvs with
    | none => rw [he] at h; cases h
    | some e =>
      rw [he] at h
      simp only at h
      cases e with
      | obj ekvs =>
        simp only [v2Err, getD] at h
        cases hm : J.lookup kMessage ekvs with
        | none => rw [hm] at h; simp at h
        | some m =>
          rw [hm] at h
          cases m with
          | null | bool _ | int _ | float _ | arr _ | obj _ => cases h
          | str s =>
          cases hc : ((J.lookup kCode ekvs).getD J.null).isInt with
          | false => simp [hc] at h
          | true =>
            simp [hc] at h
            subst h
            simp [J.isNone, bestEffortError, getD, hm, hc, hr, he]
      | null | bool _ | int _ | float _ | str _ | arr _ => simp [v2Err] at h

theorem processResponse_loose_of_v2 (p : J) (x : Item × J) (h : processResponse .v2 p = .ok x) :
    processResponse .loose p = .ok x := by
  unfold processResponse at h ⊢
  have hm : messageId .loose p true = messageId .v2 p true := rfl
  rw [hm]
  cases hid : messageId .v2 p true with
  | error e => rw [hid] at h; cases e <;> simp at h
  | ok rid =>
    rw [hid] at h
    simp only at h ⊢
    cases hd : asDict p with
    | error e => rw [hd] at h; cases e <;> simp at h
    | ok kvs =>
      rw [hd] at h
      simp only at h ⊢
      cases hv : validateMessage .v2 kvs with
      | error e => rw [hv] at h; cases e <;> simp at h
      | ok u =>
        rw [hv] at h
        simp only [validateMessage] at h ⊢
        cases hr : responseValue .v2 kvs with
        | error e => rw [hr] at h; cases e <;> simp at h
        | ok v =>
          rw [hr] at h
          rw [responseValue_loose_of_v2 kvs v hr]
          exact h

/-- Loose accepts every payload strict 2.0 accepts, with the same item and id -/
theorem loose_extends_v2 (p : J) (x : Item × J) (h : payloadToItem .v2 p = .ok x) :
    payloadToItem .loose p = .ok x := by
  cases p with
  | obj kvs =>
    simp only [payloadToItem] at h ⊢
    split
    · rename_i hm; simp only [hm, if_true] at h; exact processRequest_loose_of_v2 _ _ h
    · rename_i hm; simp only [hm] at h; exact processResponse_loose_of_v2 _ _ h
  | arr xs => exact h
  | null | bool _ | int _ | float _ | str _ => simp [payloadToItem] at h


theorem messageId_loose_of_v1 (p rid : J) (req : Bool) (h : messageId .v1 p req = .ok rid)
    (hrid : RespId rid) : messageId .loose p req = .ok rid := by
  obtain ⟨kvs, rfl⟩ : ∃ kvs, p = .obj kvs := by
    cases p with
    | obj kvs => exact ⟨kvs, rfl⟩
    | arr xs => simp [messageId, v1MessageId] at h; split at h <;> cases h
    | str s => simp [messageId, v1MessageId] at h; split at h <;> cases h
    | null | bool _ | int _ | float _ => simp [messageId, v1MessageId] at h
  simp only [messageId, v1MessageId, v2MessageId] at h ⊢
  cases hl : J.lookup kId kvs with
  | none => rw [hl] at h; cases h
  | some r =>
    rw [hl] at h
    injection h with h; subst h
    cases r <;> simp [RespId, isJsonNumber, J.isStr, J.isNone] at hrid <;>
      simp [J.isNumber, J.isStr, J.isNone, J.isBool]

theorem requestArgs_loose_of_v1 (kvs : List (Str × J)) (a : J) (h : requestArgs .v1 kvs = .ok a) :
    requestArgs .loose kvs = .ok a := by
  rw [requestArgs_v1_spec] at h
  rw [requestArgs_v2_spec .loose (by decide)]
  unfold paramsK at h ⊢
  unfold getD at h
  cases hl : J.lookup kParams kvs with
  | none => simp [hl] at h
  | some x => cases x <;> simp [hl] at h ⊢ <;> exact h

theorem responseValue_loose_of_v1 (kvs : List (Str × J)) (v : RespVal)
    (h : responseValue .v1 kvs = .ok v) : responseValue .loose kvs = .ok v := by
  cases hr : J.lookup kResult kvs with
  | none => simp [responseValue, hr] at h
  | some r =>
    cases he : J.lookup kError kvs with
    | none => simp [responseValue, hr, he] at h
    | some e =>
      simp only [responseValue, getD, hr, he, Option.getD] at h ⊢
      cases hen : e.isNone with
      | true =>
        simp [hen] at h
        subst h
        simp [hen]
      | false =>
        simp [hen] at h
        cases hrn : r.isNone with
        | false => simp [hrn] at h
        | true => simp [hrn] at h; subst h; simp [hen, hrn]

theorem loose_extends_v1 (p : J) (item : Item) (rid : J) (hrid : RespId rid)
    (h : payloadToItem .v1 p = .ok (item, rid)) : payloadToItem .loose p = .ok (item, rid) := by
  cases p with
  | obj kvs =>
    simp only [payloadToItem] at h ⊢
    split
    · rename_i hm
      simp only [hm, if_true] at h
      unfold processRequest at h ⊢
      cases hid : messageId .v1 (.obj kvs) false with
      | error e => rw [hid] at h; cases e <;> simp at h
      | ok r =>
        rw [hid] at h
        simp only at h
        unfold processRequestBody at h
        simp only [asDict, validateMessage] at h
        cases ha : requestArgs .v1 kvs with
        | error e => rw [ha] at h; cases e <;> simp at h
        | ok a =>
          rw [ha] at h
          simp only at h
          cases hs : singleRequest (getD kMethod kvs) a with
          | error e => rw [hs] at h; cases e <;> simp at h
          | ok m =>
            rw [hs] at h
            simp only at h
            injection h with h; injection h with h1 h2
            subst h2
            rw [messageId_loose_of_v1 _ _ _ hid hrid]
            simp only [processRequestBody, asDict, validateMessage, requestArgs_loose_of_v1 kvs a ha, hs, h1]
    · rename_i hm
      simp only [hm] at h
      unfold processResponse at h ⊢
      cases hid : messageId .v1 (.obj kvs) true with
      | error e => rw [hid] at h; cases e <;> simp at h
      | ok r =>
        rw [hid] at h
        simp only [asDict, validateMessage] at h
        cases hv : responseValue .v1 kvs with
        | error e => rw [hv] at h; cases e <;> simp at h
        | ok v =>
          rw [hv] at h
          simp only at h
          injection h with h; injection h with h1 h2
          subst h2
          rw [messageId_loose_of_v1 _ _ _ hid hrid]
          simp only [asDict, validateMessage, responseValue_loose_of_v1 kvs v hv, h1]
  | arr xs => simp [payloadToItem, Proto.allowBatches] at h
  | null | bool _ | int _ | float _ | str _ => simp [payloadToItem] at h
end Aiorpcx.C04
