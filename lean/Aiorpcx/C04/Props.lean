import Aiorpcx.C04.Model
import Aiorpcx.Facts.C04
