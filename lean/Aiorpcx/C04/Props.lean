import Aiorpcx.C04.Dumps
import Aiorpcx.C04.Loads
import Aiorpcx.C04.Roundtrip
import Aiorpcx.C04.Loose
import Aiorpcx.C04.ClassifyProofs
import Aiorpcx.C04.Table
import Aiorpcx.C04.Conn
import Aiorpcx.Facts.C04
/-!
# C04 — the JSON-RPC codec is loss-free and conforms to each version's wire format

Model: `Aiorpcx.C04` (`Model.lean`, mirrors aiorpcx/jsonrpc.py).  Payloads are `J` values (the
Python value between `json.loads` and the classmethods); "tuples and lists are the same JSON
array", so equality of items is equality at the JSON data-model level (`J`, structural — which
also preserves dict order and distinguishes `1`, `1.0`, `true`).  Everything is quantified over
**all** methods, argument values, ids and payloads; there is no bound.

`json.dumps` is the serializer model `dumps`, whose output alphabet is a theorem.  `json.loads` is a
parameter (`Ser.loads`) with the laws L1/L1b; `Loads.lean` proves that the laws are satisfiable
(`serOf`: a reader for which L1 and L1b are theorems, for any float codec - so `dumps` is injective
on well-formed values and no `*_message` theorem is vacuous); what remains trusted about the real
`json` module is that it obeys the same two laws (sampled on every generated value each run).
-/
namespace Aiorpcx.C04
open Aiorpcx.Py

/-! ## What 1.0 refuses to encode -/

/-- the 1.0 encoder raises (`INVALID_ARGS`) on named arguments; nothing is emitted -/
theorem v1_rejects_named_args (m : Str) (kvs : List (Str × J)) (rid : J) :
    ∃ e, requestPayload .v1 m (.obj kvs) rid = .error (.proto e) ∧ e.code = INVALID_ARGS
      ∧ e.errorMessage = none :=
  ⟨_, rfl, rfl, rfl⟩

/-- the 1.0 encoder raises on every batch; nothing is emitted -/
theorem v1_rejects_batches (ms : List Member) :
    ∃ e, batchPayloads .v1 ms = .error (.proto e) ∧ e.code = INVALID_REQUEST :=
  ⟨_, rfl, rfl⟩

/-- … and the 1.0 decoder accepts no batch either -/
theorem v1_decodes_no_batch (xs : List J) :
    ∃ e, payloadToItem .v1 (.arr xs) = .error (.proto e) ∧ e.code = INVALID_REQUEST :=
  ⟨_, rfl, rfl⟩

/-! ## Wire format of what the encoders emit -/

/-- 2.0 responses: an object with `"jsonrpc":"2.0"`, the id, and exactly one of result/error -/
theorem wire_v2 (P : Proto) (hP : P ≠ .v1) (r : Outgoing) (rid : J) :
    ∃ kvs, responseMessagePayload P r rid = .obj kvs
      ∧ J.lookup kJsonrpc kvs = some s20 ∧ J.lookup kId kvs = some rid
      ∧ (J.hasKey kResult kvs != J.hasKey kError kvs) = true := by
  cases P <;> simp at hP <;> cases r <;> exact ⟨_, rfl, by lk, by lk, by lk⟩

/-- 2.0 requests: `"jsonrpc":"2.0"`, the method, and params (if present) a list or a dict -/
theorem wire_v2_request (P : Proto) (hP : P ≠ .v1) (m : Str) (args rid : J) :
    ∃ kvs, requestPayload P m args rid = .ok (.obj kvs)
      ∧ J.lookup kJsonrpc kvs = some s20 ∧ J.lookup kMethod kvs = some (.str m)
      ∧ (J.lookup kParams kvs = none ∨ J.lookup kParams kvs = some args)
      ∧ (J.lookup kId kvs = if rid.isNone then none else some rid) := by
  cases P <;> simp at hP <;> refine ⟨_, rfl, ?_⟩ <;>
    (cases hn : rid.isNone <;> cases ht : (args.truthy || pyEq args (.obj [])) <;>
      simp +decide [lookup_cons, lookup_nil, kJsonrpc, kMethod, kParams, kId])

/-- 1.0 responses: result and error both present, at least one of them null -/
theorem wire_v1 (r : Outgoing) (rid : J) :
    ∃ kvs result error, responseMessagePayload .v1 r rid = .obj kvs
      ∧ J.lookup kResult kvs = some result ∧ J.lookup kError kvs = some error
      ∧ J.lookup kId kvs = some rid ∧ (result = .null ∨ error = .null) := by
  cases r with
  | result v => exact ⟨_, v, .null, rfl, by lk, by lk, by lk, Or.inr rfl⟩
  | error c m => exact ⟨_, .null, errorObj c m, rfl, by lk, by lk, by lk, Or.inl rfl⟩

/-- 1.0 requests: positional params only (a list), id always present -/
theorem wire_v1_request (m : Str) (args rid p : J) (h : requestPayload .v1 m args rid = .ok p) :
    args.isDict = false ∧ ∃ kvs, p = .obj kvs ∧ J.lookup kParams kvs = some args
      ∧ J.lookup kId kvs = some rid ∧ J.lookup kMethod kvs = some (.str m) := by
  unfold requestPayload at h
  cases hd : args.isDict
  · simp [hd] at h
    exact ⟨rfl, _, h.symm, by lk, by lk, by lk⟩
  · simp [hd] at h

/-- `{}` stays `{}`; `[]` is omitted and decodes back to `[]` -/
theorem empty_params_preserved (P : Proto) (hP : P ≠ .v1) (m : Str) (rid : J) :
    (∃ kvs, requestPayload P m (.obj []) rid = .ok (.obj kvs) ∧ J.lookup kParams kvs = some (.obj []))
    ∧ (∃ kvs, requestPayload P m (.arr []) rid = .ok (.obj kvs) ∧ J.lookup kParams kvs = none
        ∧ requestArgs P kvs = .ok (.arr [])) := by
  cases P <;> simp at hP <;> cases hn : rid.isNone <;>
    exact ⟨⟨_, by simp [requestPayload, hn, J.truthy, pyEq, pyEqObj]; rfl, by lk⟩,
           ⟨_, by simp [requestPayload, hn, J.truthy, pyEq]; rfl, by lk, by codec_simp []⟩⟩

/-! ## The loose decoder agrees with both strict ones -/

/-- Loose gives every 2.0 encoder output the meaning 2.0 gives it -/
theorem loose_agrees_v2 (m : Str) (args rid : J) (hargs : Args args) :
    (ReqId rid → ∃ p, requestPayload .v2 m args rid = .ok p
        ∧ payloadToItem .loose p = payloadToItem .v2 p)
    ∧ (∃ p, requestPayload .v2 m args .null = .ok p ∧ payloadToItem .loose p = payloadToItem .v2 p)
    ∧ (∀ v, RespId rid → payloadToItem .loose (responsePayload .v2 v rid)
        = payloadToItem .v2 (responsePayload .v2 v rid))
    ∧ (∀ code msg, code.isInt = true → RespId rid →
        payloadToItem .loose (errorPayload .v2 code (.str msg) rid)
          = payloadToItem .v2 (errorPayload .v2 code (.str msg) rid)) := by
  refine ⟨?_, ?_, ?_, ?_⟩
  · intro hrid
    obtain ⟨p, h1, _, h3⟩ := roundtrip_request .v2 (by decide) m args rid hargs hrid
    obtain ⟨p', h1', _, h3'⟩ := roundtrip_request .loose (by decide) m args rid hargs hrid
    have : p' = p := by
      have : requestPayload .loose m args rid = requestPayload .v2 m args rid := rfl
      rw [this, h1] at h1'; injection h1' with h; exact h.symm
    exact ⟨p, h1, by rw [h3, ← this, h3']⟩
  · obtain ⟨p, h1, _, h3⟩ := roundtrip_notification .v2 (by decide) m args hargs
    obtain ⟨p', h1', _, h3'⟩ := roundtrip_notification .loose (by decide) m args hargs
    have : p' = p := by
      have : requestPayload .loose m args .null = requestPayload .v2 m args .null := rfl
      rw [this, h1] at h1'; injection h1' with h; exact h.symm
    exact ⟨p, h1, by rw [h3, ← this, h3']⟩
  · intro v hrid
    rw [roundtrip_result .v2 (by decide) v rid hrid]
    exact roundtrip_result .loose (by decide) v rid hrid
  · intro code msg hc hrid
    rw [roundtrip_error .v2 (by decide) code msg rid hc hrid]
    exact roundtrip_error .loose (by decide) code msg rid hc hrid

/-- Loose gives every 1.0 encoder output the meaning 1.0 gives it — for the ids Loose admits
(numbers, strings, null; 1.0 on its own allows any JSON value) -/
theorem loose_agrees_v1 (m : Str) (xs : List J) (rid : J) :
    (ReqId rid → ∃ p, requestPayload .v1 m (.arr xs) rid = .ok p
        ∧ payloadToItem .loose p = payloadToItem .v1 p)
    ∧ (∃ p, requestPayload .v1 m (.arr xs) .null = .ok p
        ∧ payloadToItem .loose p = payloadToItem .v1 p)
    ∧ (∀ v, RespId rid → payloadToItem .loose (responsePayload .v1 v rid)
        = payloadToItem .v1 (responsePayload .v1 v rid))
    ∧ (∀ code msg, code.isInt = true → RespId rid →
        payloadToItem .loose (errorPayload .v1 code (.str msg) rid)
          = payloadToItem .v1 (errorPayload .v1 code (.str msg) rid)) := by
  refine ⟨?_, ⟨_, rfl, by codec_simp []⟩, ?_, ?_⟩
  · intro hrid
    refine ⟨_, rfl, ?_⟩
    cases rid <;> simp [ReqId, isJsonNumber, J.isStr] at hrid <;> codec_simp []
  · intro v hrid
    cases rid <;> simp [RespId, isJsonNumber, J.isStr, J.isNone] at hrid <;> codec_simp []
  · intro code msg hc hrid
    cases rid <;> simp [RespId, isJsonNumber, J.isStr, J.isNone] at hrid <;>
      cases code <;> simp [J.isInt] at hc <;> codec_simp []

/-- outside that id range the two differ: a 1.0 request with a list id is a request to 1.0 and
an error to Loose (which is why `loose_agrees_v1` is restricted) -/
theorem loose_v1_list_id_differs :
    payloadToItem .v1 (.obj [(kMethod, .str (lit "m")), (kParams, .arr []), (kId, .arr [.int 1])])
      = .ok (.request (lit "m") (.arr []), .arr [.int 1])
    ∧ outClass (payloadToItem .loose
        (.obj [(kMethod, .str (lit "m")), (kParams, .arr []), (kId, .arr [.int 1])])) = IR := by
  constructor <;> decide

/-! ## Auto-detection -/

theorem detect_v2_obj (kvs : List (Str × J)) (h : J.lookup kJsonrpc kvs = some s20) :
    detectProtocol (.obj kvs) = .v2 := by
  simp [detectProtocol, protocolForPayload, getD, h, pyEq_s20]

theorem payloads_eq_v2 (P : Proto) (hP : P ≠ .v1) :
    (∀ m a r, requestPayload P m a r = requestPayload .v2 m a r)
    ∧ (∀ v r, responsePayload P v r = responsePayload .v2 v r)
    ∧ (∀ c m r, errorPayload P c m r = errorPayload .v2 c m r) := by
  cases P <;> simp at hP <;> exact ⟨fun _ _ _ => rfl, fun _ _ => rfl, fun _ _ _ => rfl⟩

/-- every first message a 2.0 (or Loose, which encodes as 2.0) encoder produces is detected as
2.0, and 2.0 decodes it exactly as the originating class does -/
theorem autodetect_first_message_v2 (P : Proto) (hP : P ≠ .v1) (m : Str) (args rid : J)
    (hargs : Args args) :
    (ReqId rid → ∃ p, requestPayload P m args rid = .ok p ∧ detectProtocol p = .v2
        ∧ payloadToItem (detectProtocol p) p = payloadToItem P p)
    ∧ (∃ p, requestPayload P m args .null = .ok p ∧ detectProtocol p = .v2
        ∧ payloadToItem (detectProtocol p) p = payloadToItem P p)
    ∧ (∀ v, RespId rid → detectProtocol (responsePayload P v rid) = .v2
        ∧ payloadToItem (detectProtocol (responsePayload P v rid)) (responsePayload P v rid)
            = payloadToItem P (responsePayload P v rid))
    ∧ (∀ code msg, code.isInt = true → RespId rid →
        detectProtocol (errorPayload P code (.str msg) rid) = .v2
        ∧ payloadToItem (detectProtocol (errorPayload P code (.str msg) rid))
              (errorPayload P code (.str msg) rid)
            = payloadToItem P (errorPayload P code (.str msg) rid)) := by
  obtain ⟨e1, e2, e3⟩ := payloads_eq_v2 P hP
  refine ⟨?_, ?_, ?_, ?_⟩
  · intro hrid
    obtain ⟨p, h1, _, h3⟩ := roundtrip_request P hP m args rid hargs hrid
    obtain ⟨p', h1', _, h3'⟩ := roundtrip_request .v2 (by decide) m args rid hargs hrid
    have hpp : p' = p := by rw [e1, h1'] at h1; injection h1
    subst hpp
    have hd : detectProtocol p' = .v2 := by
      simp only [requestPayload] at h1'
      injection h1' with h; subst h
      cases hn : rid.isNone <;> cases ht : (args.truthy || pyEq args (.obj [])) <;>
        exact detect_v2_obj _ (by lk)
    exact ⟨p', h1, hd, by rw [hd, h3, h3']⟩
  · obtain ⟨p, h1, _, h3⟩ := roundtrip_notification P hP m args hargs
    obtain ⟨p', h1', _, h3'⟩ := roundtrip_notification .v2 (by decide) m args hargs
    have hpp : p' = p := by rw [e1, h1'] at h1; injection h1
    subst hpp
    have hd : detectProtocol p' = .v2 := by
      simp only [requestPayload] at h1'
      injection h1' with h; subst h
      cases ht : (args.truthy || pyEq args (.obj [])) <;> exact detect_v2_obj _ (by lk)
    exact ⟨p', h1, hd, by rw [hd, h3, h3']⟩
  · intro v hrid
    have hd : detectProtocol (responsePayload P v rid) = .v2 := by
      rw [e2]; exact detect_v2_obj _ (by lk)
    refine ⟨hd, ?_⟩
    rw [hd, roundtrip_result P hP v rid hrid, e2, roundtrip_result .v2 (by decide) v rid hrid]
  · intro code msg hc hrid
    have hd : detectProtocol (errorPayload P code (.str msg) rid) = .v2 := by
      rw [e3]; exact detect_v2_obj _ (by lk)
    refine ⟨hd, ?_⟩
    rw [hd, roundtrip_error P hP code msg rid hc hrid, e3,
      roundtrip_error .v2 (by decide) code msg rid hc hrid]

/-- a 1.0 response is detected as 1.0; a 1.0 request (which has neither `jsonrpc` nor both of
result/error) is detected as Loose, which decodes it exactly as 1.0 does — for the ids of the
property's quantifier (numbers, strings, null) -/
theorem autodetect_first_message_v1 (m : Str) (xs : List J) (rid : J) :
    (ReqId rid → ∃ p, requestPayload .v1 m (.arr xs) rid = .ok p
        ∧ payloadToItem (detectProtocol p) p = payloadToItem .v1 p)
    ∧ (∃ p, requestPayload .v1 m (.arr xs) .null = .ok p
        ∧ payloadToItem (detectProtocol p) p = payloadToItem .v1 p)
    ∧ (∀ v, detectProtocol (responsePayload .v1 v rid) = .v1)
    ∧ (∀ code msg, detectProtocol (errorPayload .v1 code msg rid) = .v1) := by
  refine ⟨?_, ⟨_, rfl, by codec_simp []⟩, ?_, ?_⟩
  · intro hrid
    refine ⟨_, rfl, ?_⟩
    cases rid <;> simp [ReqId, isJsonNumber, J.isStr] at hrid <;> codec_simp []
  · intro v; codec_simp []
  · intro c msg; codec_simp []

/-- outside that id range auto-detection does *not* reproduce 1.0: a first 1.0 request whose id
is a list is detected as Loose, which refuses the id (recorded divergence; the property's
quantifier gives arbitrary-JSON ids to "the 1.0 class on its own" only) -/
theorem autodetect_v1_list_id_differs :
    detectProtocol (.obj [(kMethod, .str (lit "m")), (kParams, .arr []), (kId, .arr [.int 1])]) = .loose
    ∧ outClass (payloadToItem .loose
        (.obj [(kMethod, .str (lit "m")), (kParams, .arr []), (kId, .arr [.int 1])])) = IR
    ∧ outClass (payloadToItem .v1
        (.obj [(kMethod, .str (lit "m")), (kParams, .arr []), (kId, .arr [.int 1])])) = .request := by
  refine ⟨by decide, by decide, by decide⟩

/-- a batch whose members all carry `"jsonrpc":"2.0"` is detected as 2.0 -/
theorem autodetect_batch (ps : List J) (hne : ps ≠ [])
    (h : ∀ p ∈ ps, ∃ kvs, p = .obj kvs ∧ J.lookup kJsonrpc kvs = some s20) :
    detectProtocol (.arr ps) = .v2 := by
  have hall : ∀ p ∈ ps, protocolForPayload p = .v2 := by
    intro p hp
    obtain ⟨kvs, rfl, hk⟩ := h p hp
    simp [protocolForPayload, getD, hk, pyEq_s20]
  cases ps with
  | nil => exact absurd rfl hne
  | cons p ps =>
    have h1 : protocolForPayload p = .v2 := hall p (by simp)
    have h2 : (ps.map protocolForPayload).all (· == Proto.v2) = true := by
      simp only [List.all_map, List.all_eq_true]
      intro q hq
      simp [hall q (by simp [hq])]
    simp only [detectProtocol, List.map_cons, h1, h2, if_true]

/-! ## Classification of every incoming message -/

/-- **Every** payload is classified exactly as the specification table says (`Classify.lean`):
the outcome is an item of the stated kind or a `ProtocolError` with the documented code; it
depends only on which of {jsonrpc, method, params, id, result, error} are present and on the
kinds of their values.  (Proof in `ClassifyProofs.lean`, which C05 reuses.) -/
theorem classification_total (P : Proto) (p : J) :
    outClass (payloadToItem P p) = classify P (topOf p) :=
  classification_total_core P p

/-- the codes of the table are the documented ones -/
theorem classify_codes (P : Proto) (t : TopK) : okClass (classify P t) = true :=
  classify_codes_core P t

/-- hence: decoding a payload never raises anything but a `ProtocolError`, and its code is one
of INVALID_REQUEST / METHOD_NOT_FOUND / INVALID_ARGS -/
theorem decode_only_protocol_errors (P : Proto) (p : J) :
    (∃ x, payloadToItem P p = .ok x) ∨
    (∃ e, payloadToItem P p = .error (.proto e)
      ∧ (e.code = INVALID_REQUEST ∨ e.code = METHOD_NOT_FOUND ∨ e.code = INVALID_ARGS)) :=
  decode_only_protocol_errors_core P p

/-! ## The bytes: one newline-free line -/

/-- every character `json.dumps` (as configured at the call site) emits is printable ASCII -/
theorem dumps_printable (cfg : DumpCfg) (fr : F → List Char) (hc : cfg.ok) (hf : ∀ f, allPr (fr f))
    (v : J) : allPr (dumps cfg fr v) :=
  allPr_dumps cfg fr hc hf v

/-- `dumps` never emits a raw newline (nor a carriage return) -/
theorem dumps_no_newline (cfg : DumpCfg) (fr : F → List Char) (hc : cfg.ok)
    (hf : ∀ f, allPr (fr f)) (v : J) :
    '\n' ∉ dumps cfg fr v ∧ '\r' ∉ dumps cfg fr v := by
  have h := allPr_dumps cfg fr hc hf v
  constructor
  · intro hm; have := h _ hm; simp [not_pr_newline] at this
  · intro hm; have := h _ hm; simp [not_pr_cr] at this

example : '\n' ∉ dumps ⟨[','], [':'], true, false⟩ (fun _ => ['1', '.', '5'])
    (.obj [(lit "a\n", .arr [.str [10, 0x2028], .float (.fin 3 (-1))])]) :=
  (dumps_no_newline _ _ ⟨by decide, by decide, rfl, rfl⟩ (fun _ => by decide) _).1

/-- every `*_message` output (single message or batch, error replies included) is one line:
printable ASCII (plus, in a batch, whatever blanks the separator has), no newline -/
theorem message_one_line (cfg : DumpCfg) (sep : List Char) (fr : F → List Char) (hc : cfg.ok)
    (hsep : sepOK sep = true) (hf : ∀ f, allPr (fr f)) (r : Reply) :
    allLine (r.bytes cfg sep fr) ∧ '\n' ∉ r.bytes cfg sep fr ∧ '\r' ∉ r.bytes cfg sep fr := by
  have h : allLine (r.bytes cfg sep fr) := by
    cases r with
    | single p => exact (allPr_dumps cfg fr hc hf p).line
    | batch ps =>
      apply allLine_batchFromParts sep hsep
      intro s hs
      obtain ⟨p, _, rfl⟩ := List.mem_map.1 hs
      exact allPr_dumps cfg fr hc hf p
  exact ⟨h, allLine_no_newline h⟩

/-- `batch_message` is `[` + the member messages joined with the separator + `]` -/
theorem batch_message_join (sep : List Char) (parts : List (List Char)) :
    batchFromParts sep parts = '[' :: (List.intercalate sep parts ++ [']']) := by
  simp [batchFromParts, joinWith_eq_intercalate]

/-! ## Message level: through `json.dumps` / `json.loads` (laws L1, L1b) -/

/-- the stdlib pair as a parameter: `dumps` is the serializer model with *some* float rendering,
`loads` is only known through the two laws -/
structure Ser (cfg : DumpCfg) (sep : List Char) where
  fr : F → List Char
  loads : List Char → LoadsOutcome
  /-- L1: `json.loads(json.dumps(v)) == v` for JSON-representable `v` -/
  L1 : ∀ v : J, v.wf = true → loads (dumps cfg fr v) = .value v
  /-- L1b: the batch framing `[a, b, …]` parses to the list of the parts -/
  L1b : ∀ vs : List J, vs ≠ [] → (∀ v ∈ vs, v.wf = true) →
    loads (batchFromParts sep (vs.map (dumps cfg fr))) = .value (.arr vs)

/-- decoding the bytes of an encoded payload is decoding the payload -/
theorem message_level (cfg : DumpCfg) {sep : List Char} (S : Ser cfg sep) (g : PayloadGuards) (P : Proto) (p : J)
    (hwf : p.wf = true) :
    messageToItem g P (S.loads (dumps cfg S.fr p)) = payloadToItem P p := by
  rw [S.L1 p hwf]; rfl

theorem message_level_batch (cfg : DumpCfg) {sep : List Char} (S : Ser cfg sep) (g : PayloadGuards) (P : Proto)
    (ps : List J) (hne : ps ≠ []) (hwf : ∀ p ∈ ps, p.wf = true) :
    messageToItem g P (S.loads (batchFromParts sep (ps.map (dumps cfg S.fr))))
      = payloadToItem P (.arr ps) := by
  rw [S.L1b ps hne hwf]; rfl

/-- **the laws are satisfiable**: from any float codec (a rendering of the canonical finite floats
as number tokens with a left inverse - what `float.__repr__`/`float()` are to CPython) the reader of
`Loads.lean` makes a `Ser`, for every comma/colon-separated configuration and batch separator -/
def serOf (cfg : DumpCfg) (sep : List Char) (C : FloatCodec) (hc : CfgOK cfg) (hs : SepForm sep ',') :
    Ser cfg sep where
  fr := C.fr
  loads := loadsOf C.pf
  L1 := loads_dumps cfg C hc
  L1b := loads_batch cfg C hc sep hs

/-- in particular for the configuration observed in /repo on this run -/
theorem ser_exists (cfg : DumpCfg) (sep : List Char) (hc : CfgOK cfg) (hs : SepForm sep ',') :
    Nonempty (Ser cfg sep) := ⟨serOf cfg sep toyFloat hc hs⟩

theorem wf_obj_cons (k : Str) (v : J) (r : List (Str × J)) :
    (J.obj ((k, v) :: r)).wf = (!(J.hasKey k r) && uniqueKeys r && (strWf k && keysWf r)
      && (v.wf && J.wfObj r)) := by
  simp [J.wf, uniqueKeys, keysWf, J.wfObj, Bool.and_assoc]

/-- the encoders produce JSON-representable payloads from JSON-representable parts -/
theorem requestPayload_wf (P : Proto) (m : Str) (args rid p : J)
    (h : requestPayload P m args rid = .ok p)
    (hm : strWf m = true) (ha : args.wf = true) (hr : rid.wf = true) : p.wf = true := by
  cases P <;> unfold requestPayload at h
  · cases hd : args.isDict <;> simp [hd] at h
    subst h
    simp +decide [J.wf, uniqueKeys, keysWf, J.wfObj, J.hasKey, lookup_cons, lookup_nil, hm, ha, hr,
      kMethod, kParams, kId]
  all_goals (
    cases hn : rid.isNone <;> cases ht : (args.truthy || pyEq args (.obj [])) <;>
      simp [hn, ht] at h <;> subst h <;>
      simp +decide [J.wf, uniqueKeys, keysWf, J.wfObj, J.hasKey, lookup_cons, lookup_nil, hm, ha, hr,
        kMethod, kParams, kId, kJsonrpc, s20])

theorem responsePayload_wf (P : Proto) (v rid : J) (hv : v.wf = true) (hr : rid.wf = true) :
    (responsePayload P v rid).wf = true := by
  cases P <;>
    simp +decide [responsePayload, J.wf, uniqueKeys, keysWf, J.wfObj, J.hasKey, lookup_cons,
      lookup_nil, hv, hr, kResult, kError, kId, kJsonrpc, s20]

theorem errorPayload_wf (P : Proto) (code : J) (msg : Str) (rid : J) (hc : code.wf = true)
    (hm : strWf msg = true) (hr : rid.wf = true) :
    (errorPayload P code (.str msg) rid).wf = true := by
  cases P <;>
    simp +decide [errorPayload, errorObj, J.wf, uniqueKeys, keysWf, J.wfObj, J.hasKey, lookup_cons,
      lookup_nil, hc, hm, hr, kResult, kError, kId, kJsonrpc, kCode, kMessage, s20]

/-- **round trip through the bytes** (2.0 / Loose / AutoDetect): request -/
theorem roundtrip_request_message (cfg : DumpCfg) {sep : List Char} (S : Ser cfg sep) (g : PayloadGuards) (P : Proto)
    (hP : P ≠ .v1) (m : Str) (args rid : J) (hargs : Args args) (hrid : ReqId rid)
    (hm : strWf m = true) (ha : args.wf = true) (hr : rid.wf = true) :
    ∃ p, requestPayload P m args rid = .ok p
      ∧ messageToItem g P (S.loads (dumps cfg S.fr p)) = .ok (.request m args, rid) := by
  obtain ⟨p, h1, _, h3⟩ := roundtrip_request P hP m args rid hargs hrid
  exact ⟨p, h1, by rw [message_level cfg S g P p (requestPayload_wf P m args rid p h1 hm ha hr), h3]⟩

theorem roundtrip_notification_message (cfg : DumpCfg) {sep : List Char} (S : Ser cfg sep) (g : PayloadGuards)
    (P : Proto) (hP : P ≠ .v1) (m : Str) (args : J) (hargs : Args args)
    (hm : strWf m = true) (ha : args.wf = true) :
    ∃ p, requestPayload P m args .null = .ok p
      ∧ messageToItem g P (S.loads (dumps cfg S.fr p)) = .ok (.notification m args, .null) := by
  obtain ⟨p, h1, _, h3⟩ := roundtrip_notification P hP m args hargs
  exact ⟨p, h1, by rw [message_level cfg S g P p (requestPayload_wf P m args .null p h1 hm ha rfl), h3]⟩

theorem roundtrip_result_message (cfg : DumpCfg) {sep : List Char} (S : Ser cfg sep) (g : PayloadGuards) (P : Proto)
    (hP : P ≠ .v1) (v rid : J) (hrid : RespId rid) (hv : v.wf = true) (hr : rid.wf = true) :
    messageToItem g P (S.loads (dumps cfg S.fr (responsePayload P v rid)))
      = .ok (.response (.result v), rid) := by
  rw [message_level cfg S g P _ (responsePayload_wf P v rid hv hr), roundtrip_result P hP v rid hrid]

theorem roundtrip_error_message (cfg : DumpCfg) {sep : List Char} (S : Ser cfg sep) (g : PayloadGuards) (P : Proto)
    (hP : P ≠ .v1) (code : J) (msg : Str) (rid : J) (hcode : code.isInt = true) (hrid : RespId rid)
    (hm : strWf msg = true) (hr : rid.wf = true) :
    messageToItem g P (S.loads (dumps cfg S.fr (errorPayload P code (.str msg) rid)))
      = .ok (.response (.rpcError code msg), rid) := by
  have hc : code.wf = true := by cases code <;> simp [J.isInt] at hcode <;> rfl
  rw [message_level cfg S g P _ (errorPayload_wf P code msg rid hc hm hr),
    roundtrip_error P hP code msg rid hcode hrid]

/-- 1.0 through the bytes: results (any result, any id), requests (any non-null id),
notifications, and errors (int code, string message, any id) -/
theorem roundtrip_v1_message (cfg : DumpCfg) {sep : List Char} (S : Ser cfg sep) (g : PayloadGuards) (m : Str)
    (xs : List J) (v rid : J) (hm : strWf m = true) (hx : (J.arr xs).wf = true)
    (hv : v.wf = true) (hr : rid.wf = true) :
    messageToItem g .v1 (S.loads (dumps cfg S.fr (responsePayload .v1 v rid)))
      = .ok (.response (.result v), rid)
    ∧ (rid.isNone = false → ∃ p, requestPayload .v1 m (.arr xs) rid = .ok p
        ∧ messageToItem g .v1 (S.loads (dumps cfg S.fr p)) = .ok (.request m (.arr xs), rid))
    ∧ (∃ p, requestPayload .v1 m (.arr xs) .null = .ok p
        ∧ messageToItem g .v1 (S.loads (dumps cfg S.fr p)) = .ok (.notification m (.arr xs), .null))
    ∧ (∀ (code : J) (msg : Str), code.isInt = true → strWf msg = true →
        messageToItem g .v1 (S.loads (dumps cfg S.fr (errorPayload .v1 code (.str msg) rid)))
          = .ok (.response (.rpcError code msg), rid)) := by
  refine ⟨?_, ?_, ?_, ?_⟩
  · rw [message_level cfg S g .v1 _ (responsePayload_wf .v1 v rid hv hr), roundtrip_result_v1]
  · intro hn
    obtain ⟨p, h1, h2⟩ := roundtrip_request_v1 m xs rid hn
    exact ⟨p, h1, by rw [message_level cfg S g .v1 p (requestPayload_wf .v1 m _ rid p h1 hm hx hr), h2]⟩
  · obtain ⟨p, h1, h2⟩ := roundtrip_notification_v1 m xs
    exact ⟨p, h1, by rw [message_level cfg S g .v1 p (requestPayload_wf .v1 m _ .null p h1 hm hx rfl), h2]⟩
  · intro code msg hcode hmsg
    have hc : code.wf = true := by cases code <;> simp [J.isInt] at hcode <;> rfl
    rw [message_level cfg S g .v1 _ (errorPayload_wf .v1 code msg rid hc hmsg hr),
      roundtrip_error_v1 code msg rid hcode]

/-- a batch through the bytes: the framed member messages read back as the batch of the member
payloads, which decode one by one to the members, each under its own id -/
theorem roundtrip_batch_message (cfg : DumpCfg) {sep : List Char} (S : Ser cfg sep) (g : PayloadGuards)
    (P : Proto) (hP : P ≠ .v1) (ms : List Member) (hne : ms ≠ []) (h : ∀ mb ∈ ms, mb.valid)
    (hwf : ∀ ps, batchPayloads P ms = .ok ps → ∀ p ∈ ps, p.wf = true) :
    ∃ ps, batchPayloads P ms = .ok ps
      ∧ messageToItem g P (S.loads (batchFromParts sep (ps.map (dumps cfg S.fr)))) = .ok (.batch ps, .null)
      ∧ mapM' (processRequest P) ps = .ok (ms.map Member.item) := by
  obtain ⟨ps, h1, h2, h3⟩ := roundtrip_batch P hP ms hne h
  have hps : ps ≠ [] := by
    intro hnil
    rw [hnil] at h2
    cases P <;> simp [payloadToItem, Proto.allowBatches] at h2
  exact ⟨ps, h1, by rw [message_level_batch cfg S g P ps hps (hwf ps h1), h2], h3⟩

/-! ### the message-level theorems are not vacuous: instances with the reader of `Loads.lean` -/

/-- the pinned configuration `separators=(',', ':')`, batch separator `", "` -/
def cfgPinned : DumpCfg := ⟨[','], [':'], true, false⟩
def serPinned : Ser cfgPinned [',', ' '] :=
  serOf cfgPinned [',', ' '] toyFloat ⟨sepFormB_sound (by decide), sepFormB_sound (by decide)⟩
    (sepFormB_sound (by decide))

example : ∃ p, requestPayload .v2 (lit "m\n") (.arr [.float (.fin 3 (-1)), .str [0xD800]]) (.int 7) = .ok p
    ∧ messageToItem .repaired .v2 (serPinned.loads (dumps cfgPinned serPinned.fr p))
        = .ok (.request (lit "m\n") (.arr [.float (.fin 3 (-1)), .str [0xD800]]), .int 7) :=
  roundtrip_request_message cfgPinned serPinned .repaired .v2 (by decide) _ _ _ (Or.inl rfl) (Or.inl rfl)
    (by decide) (by decide) (by decide)

example : messageToItem .repaired .loose
      (serPinned.loads (dumps cfgPinned serPinned.fr (responsePayload .loose (.obj [(lit "k", .null)]) (.str []))))
    = .ok (.response (.result (.obj [(lit "k", .null)])), .str []) :=
  roundtrip_result_message cfgPinned serPinned .repaired .loose (by decide) _ _ (Or.inr (Or.inl rfl))
    (by decide) (by decide)

example : messageToItem .repaired .v1
      (serPinned.loads (dumps cfgPinned serPinned.fr (responsePayload .v1 (.int 5) (.arr [.int 1]))))
    = .ok (.response (.result (.int 5)), .arr [.int 1]) :=
  (roundtrip_v1_message cfgPinned serPinned .repaired [] [] (.int 5) (.arr [.int 1]) (by decide) (by decide)
    (by decide) (by decide)).1

/-! ## Noted divergences from the letter of the property (outside its quantifier) -/

/-- a non-integer error code does not survive 2.0: the decoder refuses the error object -/
theorem float_error_code_rejected_v2 :
    outClass (payloadToItem .v2 (errorPayload .v2 (.float (.fin 3 (-1))) (.str (lit "x")) (.int 1)))
      = IR := by decide

/-- a 2.0 request whose id is `null` is a notification to the decoder -/
theorem null_id_is_notification :
    payloadToItem .v2 (.obj [(kJsonrpc, s20), (kMethod, .str (lit "m")), (kId, .null)])
      = .ok (.notification (lit "m") (.arr []), .null) := by decide

/-- F7 (repaired in /repo): `"id": true` is refused by 2.0 and Loose; 1.0 does not constrain ids -/
theorem bool_id_refused :
    outClass (payloadToItem .v2 (.obj [(kJsonrpc, s20), (kResult, .int 7), (kId, .bool true)])) = IR
    ∧ outClass (payloadToItem .loose (.obj [(kResult, .int 7), (kId, .bool false)])) = IR
    ∧ payloadToItem .v1 (.obj [(kResult, .int 7), (kError, .null), (kId, .bool true)])
        = .ok (.response (.result (.int 7)), .bool true) := by
  refine ⟨by decide, by decide, by decide⟩

/-- ids `1` and `1.0` are different JSON values and both survive unchanged (matching against the
outstanding request is C01's business) -/
theorem float_id_preserved :
    payloadToItem .v2 (responsePayload .v2 .null (.float (.fin 1 0)))
      = .ok (.response (.result .null), .float (.fin 1 0)) := by decide

/-! ## Facts tie: what RUNNING the codec of /repo showed on this run (tools/facts/c04.py) -/

theorem facts_codes :
    Facts.C04.parseError = PARSE_ERROR ∧ Facts.C04.invalidRequest = INVALID_REQUEST
    ∧ Facts.C04.methodNotFound = METHOD_NOT_FOUND ∧ Facts.C04.invalidArgs = INVALID_ARGS
    ∧ Facts.C04.internalError = INTERNAL_ERROR
    ∧ Facts.C04.errorCodeUnavailable = ERROR_CODE_UNAVAILABLE
    ∧ Facts.C04.codesSameOnEveryClass = true := by decide

/-- which classes decode an array as a batch and emit batches (probed on both directions) -/
theorem facts_allow_batches :
    (∀ P : Proto, Facts.C04.allowBatches P = P.allowBatches)
    ∧ Facts.C04.allowBatchesConsistent = true := by
  refine ⟨?_, by decide⟩
  intro P; cases P <;> decide

/-- the serializer, as observed on the bytes every encoder emits, is configured so that
`dumps_no_newline` applies: printable separators, non-ASCII escaped, nothing else deviating from
`json.dumps(v, separators=…)` on the probe set -/
theorem facts_dumps_cfg : Facts.C04.dumpCfg.ok :=
  ⟨by decide, by decide, by decide, by decide⟩

/-- … and so that the reader of `Loads.lean` inverts it: the separators are a comma / a colon with
blanks around them at most, hence `Ser Facts.C04.dumpCfg Facts.C04.batchJoin` is inhabited and
`dumps Facts.C04.dumpCfg` is injective on well-formed values -/
theorem facts_readable :
    CfgOK Facts.C04.dumpCfg ∧ SepForm Facts.C04.batchJoin ','
    ∧ Nonempty (Ser Facts.C04.dumpCfg Facts.C04.batchJoin) := by
  have h1 : CfgOK Facts.C04.dumpCfg := ⟨sepFormB_sound (by decide), sepFormB_sound (by decide)⟩
  have h2 : SepForm Facts.C04.batchJoin ',' := sepFormB_sound (by decide)
  exact ⟨h1, h2, ser_exists _ _ h1 h2⟩

/-- what `batch_message_from_parts` / `batch_message` put between the member messages keeps the
batch a one-line JSON array, and the whole is `[` … `]` -/
theorem facts_batch_join :
    sepOK Facts.C04.batchJoin = true ∧ Facts.C04.batchWrapIsBrackets = true := by decide

/-- **decision table of the real decoders**: on a representative message of every row of the
specification table (all 1152 object shapes, empty array, array, non-container) the real
`message_to_item` of each protocol class produced exactly the outcome class `classify` states -/
theorem facts_decode_table : ∀ P : Proto, Facts.C04.decodeTable P = specColumn P := by
  intro P; cases P <;> decide +kernel

/-- the table has a row for every decoded payload … -/
theorem mem_allShapes (s : Shape) (h : s.methodStr = true → s.hasMethod = true) :
    s ∈ allShapes := by
  obtain ⟨j, hm, ms, p, i, r, e⟩ := s
  simp only [allShapes, List.mem_flatMap, List.mem_map]
  refine ⟨j, by cases j <;> simp, (hm, ms), ?_, p, by cases p <;> simp [allParamsK],
    i, by cases i <;> simp [allIdK], r, by cases r <;> simp [allResK],
    e, by cases e <;> simp [allErrK], rfl⟩
  cases hm <;> cases ms <;> simp_all [allMethodK]

theorem topOf_mem_allTops (p : J) : topOf p ∈ allTops := by
  unfold allTops
  cases p with
  | obj kvs =>
      exact List.mem_append_left _ (List.mem_map.2 ⟨_, mem_allShapes _ (shapeOf_methodStr kvs), rfl⟩)
  | arr xs => cases xs <;> simp [topOf]
  | _ => simp [topOf]

/-- … so, with `classification_total`: for **every** payload the model's decoder gives the
outcome class the real decoder gave on the representative of the payload's row -/
theorem decode_table_covers (P : Proto) (p : J) :
    ∃ i : Nat, allTops[i]? = some (topOf p)
      ∧ (Facts.C04.decodeTable P)[i]? = some (outCode (outClass (payloadToItem P p))) := by
  obtain ⟨i, hi⟩ := List.getElem?_of_mem (topOf_mem_allTops p)
  refine ⟨i, hi, ?_⟩
  rw [facts_decode_table P, classification_total P p]
  simp [specColumn, List.getElem?_map, hi]

/-- **what the real encoders emitted** on the probe grid (requests / notifications with every
argument kind incl. `[]`, `()`, `{}`; results; errors; a batch; under all four classes) is what the
model's encoders produce - members compared as sets, refusals by their code -/
theorem facts_encode_table : Facts.C04.encodeTable.all EncRow.holds = true := by decide +kernel

/-- the real `detect_protocol` chose, on every probe message (all combinations of the members it
looks at, non-objects, batches mixing the classes), the class the model's `detectProtocol` chooses -/
theorem facts_detect_table :
    Facts.C04.detectTable.all (fun r => some (detectProtocol r.1) == r.2) = true := by decide +kernel

/-- the failing outcomes of `json.loads(message.decode())` C04 is concerned with (invalid UTF-8,
invalid JSON) were turned into PARSE_ERROR by the real decoder (the resource-limit outcomes are
C05's) -/
theorem facts_parse_errors (P : Proto) :
    (∃ e, messageToItem Facts.C04.payloadGuards P .unicodeError = .error (.proto e)
        ∧ e.code = PARSE_ERROR)
    ∧ (∃ e, messageToItem Facts.C04.payloadGuards P .jsonDecodeError = .error (.proto e)
        ∧ e.code = PARSE_ERROR) := by
  cases P <;> exact ⟨⟨_, rfl, rfl⟩, ⟨_, rfl, rfl⟩⟩

end Aiorpcx.C04
