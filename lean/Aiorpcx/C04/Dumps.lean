import Aiorpcx.C04.Model
/-! Lemmas about the serializer model: every character `dumps` emits is printable ASCII
(so there is no raw newline, and `.encode()` cannot fail). -/
namespace Aiorpcx.C04
open Aiorpcx.Py

/-- printable ASCII: `' '` … `'~'` -/
def pr (c : Char) : Bool := decide (32 ≤ c.toNat) && decide (c.toNat ≤ 126)

def allPr (s : List Char) : Prop := ∀ c ∈ s, pr c = true

instance (s : List Char) : Decidable (allPr s) := by unfold allPr; infer_instance

theorem allPr_nil : allPr [] := by intro c h; cases h
theorem allPr_cons {c : Char} {s : List Char} (h1 : pr c = true) (h2 : allPr s) : allPr (c :: s) := by
  intro x hx
  cases hx with
  | head => exact h1
  | tail _ h => exact h2 x h
theorem allPr_append {a b : List Char} (h1 : allPr a) (h2 : allPr b) : allPr (a ++ b) := by
  intro x hx
  rcases List.mem_append.1 hx with h | h
  · exact h1 x h
  · exact h2 x h

theorem pr_hexDigit : ∀ k, k < 16 → pr (hexDigit k) = true := by decide

theorem pr_ofNat : ∀ c, c < 127 → 32 ≤ c → pr (Char.ofNat c) = true := by decide

theorem allPr_u4 (n : Nat) : allPr (u4 n) := by
  unfold u4
  refine allPr_cons (by decide) (allPr_cons (by decide) ?_)
  refine allPr_cons (pr_hexDigit _ (Nat.mod_lt _ (by decide))) ?_
  refine allPr_cons (pr_hexDigit _ (Nat.mod_lt _ (by decide))) ?_
  refine allPr_cons (pr_hexDigit _ (Nat.mod_lt _ (by decide))) ?_
  exact allPr_cons (pr_hexDigit _ (Nat.mod_lt _ (by decide))) allPr_nil

theorem allPr_escapeCp (c : Nat) : allPr (escapeCp c) := by
  unfold escapeCp
  split
  · exact allPr_cons (by decide) (allPr_cons (by decide) allPr_nil)
  split
  · exact allPr_cons (by decide) (allPr_cons (by decide) allPr_nil)
  split
  · exact allPr_cons (by decide) (allPr_cons (by decide) allPr_nil)
  split
  · exact allPr_cons (by decide) (allPr_cons (by decide) allPr_nil)
  split
  · exact allPr_cons (by decide) (allPr_cons (by decide) allPr_nil)
  split
  · exact allPr_cons (by decide) (allPr_cons (by decide) allPr_nil)
  split
  · exact allPr_cons (by decide) (allPr_cons (by decide) allPr_nil)
  split
  · rename_i h
    exact allPr_cons (pr_ofNat c (by omega) h.1) allPr_nil
  split
  · exact allPr_u4 c
  · exact allPr_append (allPr_u4 _) (allPr_u4 _)

theorem allPr_flatMap_escape (s : Str) : allPr (s.flatMap escapeCp) := by
  induction s with
  | nil => exact allPr_nil
  | cons c r ih =>
    rw [List.flatMap_cons]
    exact allPr_append (allPr_escapeCp c) ih

theorem allPr_dumpsStr (s : Str) : allPr (dumpsStr s) := by
  unfold dumpsStr
  exact allPr_cons (by decide) (allPr_append (allPr_flatMap_escape s) (allPr_cons (by decide) allPr_nil))

theorem allPr_natDigitsAux : ∀ (fuel n : Nat) (acc : List Char), allPr acc → allPr (natDigitsAux fuel n acc)
  | 0, _, _, h => h
  | fuel + 1, n, acc, h => by
      unfold natDigitsAux
      split
      · exact allPr_cons (pr_hexDigit n (by omega)) h
      · exact allPr_natDigitsAux fuel _ _ (allPr_cons (pr_hexDigit _ (by omega)) h)

theorem allPr_dumpsInt (i : Int) : allPr (dumpsInt i) := by
  cases i with
  | ofNat n => exact allPr_natDigitsAux _ _ _ allPr_nil
  | negSucc n => exact allPr_cons (by decide) (allPr_natDigitsAux _ _ _ allPr_nil)

theorem allPr_joinWith (sep : List Char) (hsep : allPr sep) :
    ∀ parts : List (List Char), (∀ p ∈ parts, allPr p) → allPr (joinWith sep parts)
  | [], _ => allPr_nil
  | [x], h => h x (by simp)
  | x :: y :: r, h => by
      unfold joinWith
      refine allPr_append (allPr_append (h x (by simp)) hsep) ?_
      exact allPr_joinWith sep hsep (y :: r) (fun p hp => h p (by simp [hp]))

/-- the call configuration is the one under which the theorems hold: printable separators,
`ensure_ascii` left on, no other keyword (`indent`, `default`, …) -/
def DumpCfg.ok (cfg : DumpCfg) : Prop :=
  allPr cfg.itemSep ∧ allPr cfg.keySep ∧ cfg.ensureAscii = true ∧ cfg.otherKeywords = false

mutual
theorem allPr_dumps (cfg : DumpCfg) (fr : F → List Char) (hc : cfg.ok) (hf : ∀ f, allPr (fr f)) :
    ∀ v : J, allPr (dumps cfg fr v)
  | .null => by unfold dumps; decide
  | .bool true => by unfold dumps; decide
  | .bool false => by unfold dumps; decide
  | .int i => by unfold dumps; exact allPr_dumpsInt i
  | .float f => by unfold dumps; exact hf f
  | .str s => by unfold dumps; exact allPr_dumpsStr s
  | .arr xs => by
      unfold dumps
      exact allPr_cons (by decide) (allPr_append
        (allPr_joinWith _ hc.1 _ (allPr_dumpsList cfg fr hc hf xs)) (allPr_cons (by decide) allPr_nil))
  | .obj kvs => by
      unfold dumps
      exact allPr_cons (by decide) (allPr_append
        (allPr_joinWith _ hc.1 _ (allPr_dumpsObj cfg fr hc hf kvs)) (allPr_cons (by decide) allPr_nil))
theorem allPr_dumpsList (cfg : DumpCfg) (fr : F → List Char) (hc : cfg.ok) (hf : ∀ f, allPr (fr f)) :
    ∀ xs : List J, ∀ p ∈ dumpsList cfg fr xs, allPr p
  | [] => by intro p hp; simp [dumpsList] at hp
  | x :: xs => by
      intro p hp
      simp only [dumpsList, List.mem_cons] at hp
      rcases hp with rfl | hp
      · exact allPr_dumps cfg fr hc hf x
      · exact allPr_dumpsList cfg fr hc hf xs p hp
theorem allPr_dumpsObj (cfg : DumpCfg) (fr : F → List Char) (hc : cfg.ok) (hf : ∀ f, allPr (fr f)) :
    ∀ kvs : List (Str × J), ∀ p ∈ dumpsObj cfg fr kvs, allPr p
  | [] => by intro p hp; simp [dumpsObj] at hp
  | (k, v) :: r => by
      intro p hp
      simp only [dumpsObj, List.mem_cons] at hp
      rcases hp with rfl | hp
      · exact allPr_append (allPr_append (allPr_dumpsStr k) hc.2.1) (allPr_dumps cfg fr hc hf v)
      · exact allPr_dumpsObj cfg fr hc hf r p hp
end

/-- printable ASCII, or a tab: nothing that breaks a line -/
def allLine (s : List Char) : Prop := ∀ c ∈ s, pr c = true ∨ c = '\t'

theorem allPr.line {s : List Char} (h : allPr s) : allLine s := fun c hc => Or.inl (h c hc)

theorem allLine_append {a b : List Char} (h1 : allLine a) (h2 : allLine b) : allLine (a ++ b) := by
  intro x hx
  rcases List.mem_append.1 hx with h | h
  · exact h1 x h
  · exact h2 x h

theorem allLine_cons {c : Char} {s : List Char} (h1 : pr c = true ∨ c = '\t') (h2 : allLine s) :
    allLine (c :: s) := by
  intro x hx
  cases hx with
  | head => exact h1
  | tail _ h => exact h2 x h

theorem sepOK_line (sep : List Char) (h : sepOK sep = true) : allLine sep := by
  intro c hc
  simp only [sepOK, Bool.and_eq_true, List.all_eq_true] at h
  have := h.1 c hc
  simp only [Bool.or_eq_true, decide_eq_true_eq] at this
  rcases this with (rfl | rfl) | rfl
  · exact Or.inl (by decide)
  · exact Or.inl (by decide)
  · exact Or.inr rfl

theorem allLine_joinWith (sep : List Char) (hsep : allLine sep) :
    ∀ parts : List (List Char), (∀ p ∈ parts, allLine p) → allLine (joinWith sep parts)
  | [], _ => by intro c hc; cases hc
  | [x], h => h x (by simp)
  | x :: y :: r, h => by
      unfold joinWith
      refine allLine_append (allLine_append (h x (by simp)) hsep) ?_
      exact allLine_joinWith sep hsep (y :: r) (fun p hp => h p (by simp [hp]))

theorem allLine_batchFromParts (sep : List Char) (hsep : sepOK sep = true)
    (parts : List (List Char)) (h : ∀ p ∈ parts, allPr p) :
    allLine (batchFromParts sep parts) := by
  unfold batchFromParts
  refine allLine_cons (Or.inl (by decide)) (allLine_append ?_ (allLine_cons (Or.inl (by decide)) ?_))
  · exact allLine_joinWith sep (sepOK_line sep hsep) parts (fun p hp => (h p hp).line)
  · intro c hc; cases hc

theorem allLine_no_newline {s : List Char} (h : allLine s) : '\n' ∉ s ∧ '\r' ∉ s := by
  constructor
  · intro hm
    rcases h _ hm with h | h
    · simp [pr] at h
    · cases h
  · intro hm
    rcases h _ hm with h | h
    · simp [pr] at h
    · cases h

theorem not_pr_newline : pr '\n' = false := by decide
theorem not_pr_cr : pr '\r' = false := by decide

theorem joinWith_eq_intercalate (sep : List Char) :
    ∀ parts : List (List Char), joinWith sep parts = List.intercalate sep parts
  | [] => by simp [joinWith, List.intercalate]
  | [x] => by simp [joinWith, List.intercalate]
  | x :: y :: r => by
      have ih := joinWith_eq_intercalate sep (y :: r)
      simp only [joinWith, ih]
      simp [List.intercalate, List.intersperse]

end Aiorpcx.C04
