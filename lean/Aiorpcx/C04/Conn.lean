import Aiorpcx.C04.Model
/-!
# The protocol of a connection over a history of received messages

`JSONRPCConnection.receive_message` as far as the *protocol class* is concerned: a connection
created with `JSONRPCAutoDetect` runs `detect_protocol` on a received message **as long as its
protocol still is `JSONRPCAutoDetect`** and replaces its protocol by the answer; every other
connection keeps the protocol it was created with.  `detect_protocol` parses the message with
`_message_to_payload` first: if that raises (invalid UTF-8 / JSON …) the exception leaves
`receive_message` and the protocol is not assigned, so detection is still pending.

`autodetect_settles`: after the first message that parses, the connection decodes every later
message exactly as a connection fixed to the protocol detected on that first message.  No Mathlib
(the driver links this file).
-/
namespace Aiorpcx.C04
open Aiorpcx.Py

/-- one `receive_message`: the protocol afterwards and what `message_to_item` gave (or what
`detect_protocol` raised) -/
def connStep (g : PayloadGuards) (P : Proto) (o : LoadsOutcome) : Proto × R (Item × J) :=
  if P = .auto then
    match messageToPayload g .auto o with
    | .error e => (.auto, .error e)
    | .ok payload => (detectProtocol payload, messageToItem g (detectProtocol payload) o)
  else (P, messageToItem g P o)

/-- the outcomes of a history of received messages -/
def connRun (g : PayloadGuards) : Proto → List LoadsOutcome → List (R (Item × J))
  | _, [] => []
  | P, o :: os => (connStep g P o).2 :: connRun g (connStep g P o).1 os

/-- the protocol after a history -/
def connProto (g : PayloadGuards) : Proto → List LoadsOutcome → Proto
  | P, [] => P
  | P, o :: os => connProto g (connStep g P o).1 os

theorem protocolForPayload_ne_auto (p : J) : protocolForPayload p ≠ .auto := by
  cases p with
  | obj kvs =>
      simp only [protocolForPayload]
      cases pyEq (getD kJsonrpc kvs) s20 <;> cases pyEq (getD kJsonrpc kvs) s10 <;>
        cases (J.hasKey kResult kvs && J.hasKey kError kvs) <;> simp
  | _ => simp [protocolForPayload]

/-- `detect_protocol` never answers `JSONRPCAutoDetect`: one detection ends the detecting -/
theorem detectProtocol_ne_auto (p : J) : detectProtocol p ≠ .auto := by
  cases p with
  | arr xs =>
      cases xs with
      | nil => simp [detectProtocol]
      | cons x xs' =>
          have hq := protocolForPayload_ne_auto x
          simp only [detectProtocol, List.map_cons]
          repeat' split
          all_goals first | exact hq | (intro h; cases h)
  | obj kvs => exact protocolForPayload_ne_auto (.obj kvs)
  | _ => simp [detectProtocol, protocolForPayload]

/-- a connection that is not detecting keeps its protocol and just decodes -/
theorem connStep_fixed (g : PayloadGuards) (P : Proto) (hP : P ≠ .auto) (o : LoadsOutcome) :
    connStep g P o = (P, messageToItem g P o) := by
  simp [connStep, hP]

theorem connRun_fixed (g : PayloadGuards) (P : Proto) (hP : P ≠ .auto) :
    ∀ os, connRun g P os = os.map (messageToItem g P) ∧ connProto g P os = P
  | [] => ⟨rfl, rfl⟩
  | o :: os => by
      obtain ⟨h1, h2⟩ := connRun_fixed g P hP os
      simp [connRun, connProto, connStep_fixed g P hP, h1, h2]

/-- **auto-detection settles on the first message**: when the first message parses (to `v`), it is
decoded by the protocol detected on it, and every later message - whatever it is, whatever it
would itself be detected as - is decoded exactly as by a connection created with that protocol;
the protocol never changes again -/
theorem autodetect_settles (g : PayloadGuards) (v : J) (os : List LoadsOutcome) :
    connRun g .auto (.value v :: os)
      = messageToItem g (detectProtocol v) (.value v) :: os.map (messageToItem g (detectProtocol v))
    ∧ connRun g .auto (.value v :: os) = connRun g (detectProtocol v) (.value v :: os)
    ∧ connProto g .auto (.value v :: os) = detectProtocol v := by
  have hne := detectProtocol_ne_auto v
  obtain ⟨h1, h2⟩ := connRun_fixed g (detectProtocol v) hne os
  obtain ⟨h3, _⟩ := connRun_fixed g (detectProtocol v) hne (.value v :: os)
  refine ⟨?_, ?_, ?_⟩
  · simp [connRun, connStep, messageToPayload, h1]
  · rw [h3]; simp [connRun, connStep, messageToPayload, h1]
  · simp [connProto, connStep, messageToPayload, h2]

/-- a message that does not even parse leaves the detection pending: the error `detect_protocol`
raised comes out, and the rest of the history is treated as by a fresh detecting connection -/
theorem autodetect_waits (g : PayloadGuards) (o : LoadsOutcome) (e : Exc)
    (h : messageToPayload g .auto o = .error e) (os : List LoadsOutcome) :
    connRun g .auto (o :: os) = .error e :: connRun g .auto os
    ∧ connProto g .auto (o :: os) = connProto g .auto os := by
  simp [connRun, connProto, connStep, h]

/-! ## the variant that keeps detecting while the answer is Loose is a different connection -/

/-- `detecting` stays on while the detected protocol is Loose -/
def connStepLoose (g : PayloadGuards) (s : Proto × Bool) (o : LoadsOutcome) :
    (Proto × Bool) × R (Item × J) :=
  if s.2 then
    match messageToPayload g .auto o with
    | .error e => (s, .error e)
    | .ok payload =>
        ((detectProtocol payload, detectProtocol payload == .loose),
          messageToItem g (detectProtocol payload) o)
  else (s, messageToItem g s.1 o)

def connRunLoose (g : PayloadGuards) : Proto × Bool → List LoadsOutcome → List (R (Item × J))
  | _, [] => []
  | s, o :: os => (connStepLoose g s o).2 :: connRunLoose g (connStepLoose g s o).1 os

def v1Request (m : String) (rid : Int) : J :=
  .obj [(kMethod, .str (lit m)), (kParams, .arr [.int 1]), (kId, .int rid)]
def v2Notification : J :=
  .obj [(kJsonrpc, s20), (kMethod, .str (lit "m")), (kParams, .arr [.int 2])]

/-- a 1.0-style request (detected as Loose), a 2.0 notification, a second 1.0-style request: the
real connection accepts all three; the re-detecting variant refuses the third -/
theorem redetect_while_loose_refuted :
    let h := [LoadsOutcome.value (v1Request "a" 11), .value v2Notification, .value (v1Request "b" 12)]
    (connRun .repaired .auto h).map (fun r => r.toOption.isSome) = [true, true, true]
    ∧ (connRunLoose .repaired (.auto, true) h).map (fun r => r.toOption.isSome) = [true, true, false] := by
  decide

end Aiorpcx.C04
