import Aiorpcx.C03.Model
import Aiorpcx.C03.Serve
import Aiorpcx.C03.Timed
import Aiorpcx.Facts.C03
/-!
# C03 — any handler outcome yields one well-formed reply; the session survives

The decision logic is stated outright (`reply_table`), tied to the running code by the
behavioural table (`facts_ladder_table`), lifted to any number of concurrent items in any
completion order (`serve_spec`, `session_survives`, `disconnect_cuts_rest`), and to the K-slot
schedule with the processing timeout (`schedule_complete`, `timed_session_survives`).
`Variant.repaired` is the current tree.
-/
namespace Aiorpcx.C03

/-- the configuration read from the source on this run -/
def factsCfg : Cfg :=
  { internalError := Facts.C03.internalError, serverBusy := Facts.C03.serverBusy,
    excessiveUsage := Facts.C03.excessiveUsage, baseCost := Facts.C03.baseCost }

def kindOf (request : Bool) : Kind := if request then .request else .notification

/-- **Tie to the running code.**  The codes are the ones the property names, and on every row of
the behavioural table - one real serving session per row, given one request or notification
whose handler behaves as each outcome class (values, the three kinds of unencodable values, a
returned RPCError object, RPCError, ProtocolError, five other exception classes, an overrun in
the handler / while queued for a slot / in the throttle sleep, the three ReplyAndDisconnect
payloads, a refusal by the limiter, and the behaviours outside the quantifier) - the decision
model predicts exactly what was observed: the reply, the rise of the error count and of the
cost, the close, the hook, and whether the session stopped serving. -/
theorem facts_ladder_table :
    Facts.C03.internalError = -32603 ∧ Facts.C03.serverBusy = -102 ∧
    Facts.C03.excessiveUsage = -101 ∧
    (∀ row ∈ Facts.C03.table,
      obsOf (throttled .repaired factsCfg row.2.1 (kindOf row.1)) = row.2.2) ∧
    40 ≤ Facts.C03.table.length :=
  ⟨by decide, by decide, by decide, by decide, by decide⟩

/-- the requests of one schedule probe: request `i` runs for its duration and returns a value,
or never ends by itself -/
def probeItems : Nat → List (Nat × Bool × Nat) → List TItem
  | _, [] => []
  | i, (d, never, arr) :: rest =>
    ⟨⟨i, .request, false, if never then .overruns else .returns (.value i)⟩, d, arr⟩ ::
      probeItems (i + 1) rest

/-- **Tie of the schedule to the running code.**  On every row of the observed schedule table -
real sessions with 1, 2 and 3 slots, with and without a throttle sleep, given 3 to 5 requests at
once or one after the other - `schedule` predicts the instant at which every request completed (its handler reached its
outcome, or the processing timeout answered for it), in the observed order. -/
theorem facts_schedule_table :
    (∀ row ∈ Facts.C03.scheduleTable,
      (schedule { slots := row.1, deadline := Facts.C03.probeDeadline, throttle := row.2.1 }
          (probeItems 0 row.2.2.1)).map (fun ev => (ev.2.id, ev.1)) = row.2.2.2) ∧
    20 ≤ Facts.C03.scheduleTable.length :=
  ⟨by decide, by decide⟩

/-! ## One item -/

/-- the behaviours the property quantifies over, plus the limiter's refusal (not a handler
behaviour, but one the ladder serves).  Outside: `raise ReplyAndDisconnect()` with no argument
and the three BaseException behaviours. -/
def inScope : Outcome → Bool
  | .raisesTaskTimeout => false
  | .raisesBase => false
  | .replyAndDisconnectNoArg => false
  | _ => true

/-- the reply the property text prescribes -/
def textReply (cfg : Cfg) : Outcome → Reply
  | .returns (.value v) => .result v
  | .returns (.unencodable _) => .error cfg.internalError msgEncoding
  | .returns (.error c m _) => .error c m
  | .raisesRpcError c m _ => .error c m
  | .raisesProtocolError c m => .error c m
  | .raisesOther => .error cfg.internalError msgInternal
  | .raisesExcessive => .error cfg.internalError msgInternal      -- an Exception like any other
  | .overruns => .error cfg.serverBusy msgBusy
  | .replyAndDisconnect (.value v) => .result v
  | .replyAndDisconnect (.unencodable _) => .error cfg.internalError msgEncoding
  | .replyAndDisconnect (.error c m _) => .error c m
  | .excessiveCost => .error cfg.excessiveUsage msgExcessive
  | _ => .error cfg.internalError msgInternal

/-- **The reply table.**  For a request, whatever the handler did (within the property's
quantifier, the handler raising the limiter's own exception class apart), exactly one reply is
produced and it is: the value; the handler's own code and message (RPCError, ProtocolError, a
returned RPCError object); -32603 for any other exception and for a value that cannot be
encoded; -102 for an overrun of the processing timeout; the carried value/error for
ReplyAndDisconnect; -101 for a refusal by the limiter.  Nothing escapes. -/
theorem reply_table (cfg : Cfg) (o : Outcome) (hs : inScope o = true) (hx : o ≠ .raisesExcessive) :
    (throttled .repaired cfg o .request).escapes = false ∧
    (throttled .repaired cfg o .request).reply = some (textReply cfg o) := by
  cases o with
  | returns p => cases p <;> simp [throttled, ladder, replyOf, textReply]
  | replyAndDisconnect p => cases p <;> simp [throttled, ladder, replyOf, textReply]
  | raisesExcessive => exact absurd rfl hx
  | raisesTaskTimeout => simp [inScope] at hs
  | raisesBase => simp [inScope] at hs
  | replyAndDisconnectNoArg => simp [inScope] at hs
  | _ => simp [throttled, ladder, replyOf, textReply]

example : inScope .raisesOther = true ∧ Outcome.raisesOther ≠ .raisesExcessive := by decide

/-- the full-strength statement: every behaviour within the quantifier - `raise
ExcessiveSessionCostError()` in a handler is "an arbitrary Exception" - gets the text's reply
and does not close the connection unless it is a ReplyAndDisconnect / a limiter refusal -/
def reply_table_full : Prop :=
  ∀ (cfg : Cfg) (o : Outcome), inScope o = true →
    (throttled .repaired cfg o .request).escapes = false ∧
    (throttled .repaired cfg o .request).reply = some (textReply cfg o)

/-- the code violates it: a handler that itself raises ExcessiveSessionCostError is answered
-101 'excessive resource usage' (and the session is disconnected) by the clause meant for the
limiter (known finding `c03:handler-raised-excessive-cost-error`) -/
theorem reply_table_full_fails : ¬ reply_table_full := by
  intro h
  have := (h {} .raisesExcessive rfl).2
  revert this
  decide

/-- what the code does with that behaviour -/
theorem raises_excessive_as_limiter (cfg : Cfg) (k : Kind) :
    throttled .repaired cfg .raisesExcessive k = throttled .repaired cfg .excessiveCost k := by
  cases k <;> rfl

/-- the behaviours outside the quantifier: a TaskTimeout raised by the handler is answered like
an overrun; `ReplyAndDisconnect()` and any other BaseException leave `_throttled_request` -
then message processing is dead, the connection is aborted (repair F34: no session is left open
but deaf), and whatever completes later is lost -/
theorem outside_quantifier (v : Variant) (cfg : Cfg) (k : Kind) :
    throttled v cfg .raisesTaskTimeout k = throttled v cfg .overruns k ∧
    (throttled v cfg .raisesBase k).escapes = true ∧
    (throttled v cfg .replyAndDisconnectNoArg k).escapes = true ∧
    (∀ (s : Served) (it : Item), s.alive = true → s.closed = false →
      (throttled v cfg it.outcome it.kind).escapes = true →
      serveOne v cfg s it = { s with alive := false, closed := true, lost := s.lost ++ [it.id] }) := by
  refine ⟨?_, ?_, ?_, ?_⟩
  · cases k <;> simp [throttled, ladder]
  · cases k <;> simp [throttled, ladder]
  · cases k <;> simp [throttled, ladder]
  · intro s it ha hc he
    simp [serveOne, ha, hc, he]

/-- a notification is never answered, whatever its handler did, and within the quantifier
nothing escapes either -/
theorem notification_silent (v : Variant) (cfg : Cfg) (o : Outcome) :
    (throttled v cfg o .notification).reply = none ∧
    (inScope o = true → (throttled v cfg o .notification).escapes = false) := by
  cases o <;> simp [throttled, ladder, inScope]

/-- whether an item counts as failed: everything except a plain (or carried) encodable value -
for a notification an unencodable return value goes unnoticed, since nothing is encoded -/
def failedItem (k : Kind) : Outcome → Bool
  | .returns (.value _) => false
  | .replyAndDisconnect (.value _) => false
  | .returns (.unencodable _) => k == .request
  | .replyAndDisconnect (.unencodable _) => k == .request
  | _ => true

/-- **Error accounting**: each failed request raises the error count by exactly one and the
cost by the base error cost plus the error's own cost; a successful one by nothing. -/
theorem errors_cost_accounting (cfg : Cfg) (o : Outcome) (k : Kind) (hs : inScope o = true) :
    (throttled .repaired cfg o k).errors = (if failedItem k o then 1 else 0) ∧
    (throttled .repaired cfg o k).cost =
      (if failedItem k o then cfg.baseCost + (match o with
          | .raisesRpcError _ _ c => c
          | .returns (.error _ _ c) => c
          | .replyAndDisconnect (.error _ _ c) => c
          | _ => 0) else 0) := by
  cases k <;> cases o with
  | returns p => cases p <;> simp [throttled, ladder, failedItem, isException, errorCost, replyOf]
  | replyAndDisconnect p =>
    cases p <;> simp [throttled, ladder, failedItem, isException, errorCost, replyOf]
  | raisesTaskTimeout => simp [inScope] at hs
  | raisesBase => simp [inScope] at hs
  | replyAndDisconnectNoArg => simp [inScope] at hs
  | _ => simp [throttled, ladder, failedItem, isException, errorCost, replyOf]

example : inScope (.raisesRpcError 5 1 10) = true := rfl

/-- the connection is closed exactly for ReplyAndDisconnect and for the limiter's exception
class, and the disconnect hook runs exactly for the latter -/
theorem close_and_hook (cfg : Cfg) (o : Outcome) (k : Kind) :
    (throttled .repaired cfg o k).close =
      (match o with | .replyAndDisconnect _ => true | .excessiveCost => true
                    | .raisesExcessive => true | _ => false) ∧
    (throttled .repaired cfg o k).hook =
      (match o with | .excessiveCost => true | .raisesExcessive => true | _ => false) := by
  cases k <;> cases o with
  | returns p => cases p <;> simp [throttled, ladder]
  | replyAndDisconnect p => cases p <;> simp [throttled, ladder]
  | _ => simp [throttled, ladder]

/-- within the quantifier no exception leaves `_throttled_request` -/
theorem never_escapes (cfg : Cfg) (o : Outcome) (k : Kind) (hs : inScope o = true) :
    (throttled .repaired cfg o k).escapes = false := by
  cases k <;> cases o with
  | returns p => cases p <;> simp [throttled, ladder]
  | replyAndDisconnect p => cases p <;> simp [throttled, ladder]
  | raisesTaskTimeout => simp [inScope] at hs
  | raisesBase => simp [inScope] at hs
  | replyAndDisconnectNoArg => simp [inScope] at hs
  | _ => simp [throttled, ladder]

example : inScope .overruns = true := rfl

/-- a request always gets a reply unless an exception leaves the function -/
theorem request_replied (cfg : Cfg) (o : Outcome)
    (h : (throttled .repaired cfg o .request).escapes = false) :
    (throttled .repaired cfg o .request).reply.isSome = true := by
  cases o with
  | returns p => cases p <;> simp [throttled, ladder, replyOf]
  | replyAndDisconnect p => cases p <;> simp [throttled, ladder, replyOf]
  | raisesBase => simp [throttled, ladder] at h
  | replyAndDisconnectNoArg => simp [throttled, ladder] at h
  | _ => simp [throttled, ladder, replyOf]

/-! ## Any number of items, any completion order -/

/-- **What `serve` computes.**  For every list of completions (any items, any outcomes, any
order): exactly the completions in `live` (up to and including the first reply-and-disconnect,
stopping before an escaping exception) are answered and counted, the rest is cut off. -/
theorem serve_spec (cfg : Cfg) (items : List Item) :
    serve .repaired cfg items =
      { alive := !dies cfg items,
        closed := (live cfg items).any (closes cfg) || dies cfg items,
        replies := ((live cfg items).filter fun it => !it.batch).flatMap (expectedReply cfg),
        batchParts := ((live cfg items).filter fun it => it.batch).flatMap (expectedReply cfg),
        errors := ((live cfg items).map fun it => (stepOf cfg it).errors).sum,
        cost := ((live cfg items).map fun it => (stepOf cfg it).cost).sum,
        hooks := ((live cfg items).filter fun it => (stepOf cfg it).hook).length,
        lost := (cutOff cfg items).map (·.id) } := by
  have := foldl_spec cfg items {} rfl rfl
  simpa [serve] using this

/-- an item the property speaks about that does not disconnect -/
def clean (cfg : Cfg) (it : Item) : Prop := inScope it.outcome = true ∧ closes cfg it = false

instance (cfg : Cfg) (it : Item) : Decidable (clean cfg it) :=
  inferInstanceAs (Decidable (_ ∧ _))

theorem clean_not_escapes {cfg : Cfg} {it : Item} (h : inScope it.outcome = true) :
    escapes cfg it = false := never_escapes cfg it.outcome it.kind h

theorem clean_ne_excessive {cfg : Cfg} {it : Item} (h : clean cfg it) :
    it.outcome ≠ .raisesExcessive := by
  intro he
  have := h.2
  rw [closes, stepOf, (close_and_hook cfg it.outcome it.kind).1, he] at this
  exact absurd this (by decide)

/-- the reply of an item within the quantifier: one for a request - the table's - none for a
notification -/
theorem expectedReply_eq (cfg : Cfg) (it : Item) (hs : inScope it.outcome = true)
    (hx : it.outcome ≠ .raisesExcessive) :
    expectedReply cfg it =
      (match it.kind with
       | .request => [(it.id, textReply cfg it.outcome)]
       | .notification => []) := by
  unfold expectedReply replyList stepOf
  cases hk : it.kind with
  | request => simp [(reply_table cfg it.outcome hs hx).2]
  | notification => simp [(notification_silent .repaired cfg it.outcome).1]

theorem flatMap_expected (cfg : Cfg) (l : List Item)
    (h : ∀ it ∈ l, inScope it.outcome = true ∧ it.outcome ≠ .raisesExcessive) :
    l.flatMap (expectedReply cfg) =
      (l.filter fun it => it.kind == .request).map fun it => (it.id, textReply cfg it.outcome) := by
  induction l with
  | nil => rfl
  | cons it rest ih =>
    have h0 := h it (by simp)
    have := ih fun x hx => h x (by simp [hx])
    rw [List.flatMap_cons, expectedReply_eq cfg it h0.1 h0.2, this]
    cases hk : it.kind <;> simp [hk]

/-- the error count over items that do not escape: the failed ones -/
theorem errors_sum (cfg : Cfg) (l : List Item) (h : ∀ it ∈ l, inScope it.outcome = true) :
    (l.map fun it => (stepOf cfg it).errors).sum =
      (l.filter fun it => failedItem it.kind it.outcome).length := by
  induction l with
  | nil => rfl
  | cons it rest ih =>
    have := ih fun x hx => h x (by simp [hx])
    simp only [List.map_cons, List.sum_cons, List.filter_cons]
    rw [this]
    simp only [stepOf, (errors_cost_accounting cfg it.outcome it.kind (h it (by simp))).1]
    split <;> simp <;> omega

/-- **The session survives, and every request is answered exactly once.**  For every finite
set of in-flight requests, notifications and batch members with any assignment of handler
behaviours from the property's list, completing in *any* order, none of them a
reply-and-disconnect: message processing is still alive afterwards, the connection open, no
item is lost; the responses written to single requests are exactly one per request - the one
`reply_table` prescribes, in completion order - and none for a notification; the parts of the
batch response are exactly one per request member; the error count is the number of failed
items. -/
theorem session_survives (cfg : Cfg) (items : List Item) (h : ∀ it ∈ items, clean cfg it) :
    (serve .repaired cfg items).alive = true ∧ (serve .repaired cfg items).closed = false ∧
    (serve .repaired cfg items).lost = [] ∧
    (serve .repaired cfg items).replies =
      (items.filter fun it => !it.batch && it.kind == .request).map
        (fun it => (it.id, textReply cfg it.outcome)) ∧
    (serve .repaired cfg items).batchParts =
      (items.filter fun it => it.batch && it.kind == .request).map
        (fun it => (it.id, textReply cfg it.outcome)) ∧
    (serve .repaired cfg items).errors =
      (items.filter fun it => failedItem it.kind it.outcome).length := by
  obtain ⟨hl, hc, hd⟩ := live_all cfg items fun it hit => ⟨(h it hit).2, clean_not_escapes (h it hit).1⟩
  have hclosed : items.any (closes cfg) = false := by
    simp only [List.any_eq_false]
    intro it hit; simpa using (h it hit).2
  have hscope : ∀ (p : Item → Bool), ∀ it ∈ items.filter p,
      inScope it.outcome = true ∧ it.outcome ≠ .raisesExcessive := by
    intro p it hit
    have := h it (List.mem_filter.mp hit).1
    exact ⟨this.1, clean_ne_excessive this⟩
  rw [serve_spec, hl, hc, hd]
  refine ⟨rfl, by simp [hclosed], rfl, ?_, ?_, ?_⟩
  · simp only []
    rw [flatMap_expected cfg _ (hscope _), List.filter_filter]
    congr 1
    apply List.filter_congr
    intro x _; simp [Bool.and_comm]
  · simp only []
    rw [flatMap_expected cfg _ (hscope _), List.filter_filter]
    congr 1
    apply List.filter_congr
    intro x _; simp [Bool.and_comm]
  · exact errors_sum cfg items fun it hit => (h it hit).1

/-- non-vacuity: three concurrent requests (a value, an RPCError, an exception) and a failing
notification, completing out of arrival order -/
example :
    let items : List Item := [⟨2, .request, false, .raisesOther⟩, ⟨0, .request, false, .returns (.value 7)⟩,
      ⟨3, .notification, false, .raisesRpcError 5 1 0⟩, ⟨1, .request, false, .raisesRpcError 9 2 40⟩]
    (∀ it ∈ items, clean {} it) ∧
    (serve .repaired {} items).replies =
      [(2, .error (-32603) msgInternal), (0, .result 7), (1, .error 9 2)] ∧
    (serve .repaired {} items).errors = 3 := by decide

/-- **The batch response**: with the same hypotheses, a batch that has request members is
answered by exactly one response, made of one part per request member. -/
theorem batch_answered_once (cfg : Cfg) (items : List Item) (h : ∀ it ∈ items, clean cfg it)
    (hb : 0 < batchCount items) :
    batchResponse items (serve .repaired cfg items) =
      some ((items.filter fun it => it.batch && it.kind == .request).map
        (fun it => (it.id, textReply cfg it.outcome))) := by
  have := (session_survives cfg items h).2.2.2.2.1
  unfold batchResponse
  rw [this]
  simp only [batchCount] at hb ⊢
  simp [hb]

/-- **A reply-and-disconnect cuts the rest.**  If the items completing before `d` neither
disconnect nor escape and `d` closes the connection (ReplyAndDisconnect, a refusal by the
limiter), then serving `pre ++ d :: rest` is serving `pre ++ [d]` - `d` itself is still answered
and counted - and every item of `rest` is lost: never answered, never counted. -/
theorem disconnect_cuts_rest (cfg : Cfg) (pre : List Item) (d : Item) (rest : List Item)
    (hpre : ∀ it ∈ pre, clean cfg it) (hd : closes cfg d = true) (hds : inScope d.outcome = true) :
    serve .repaired cfg (pre ++ d :: rest) =
      { serve .repaired cfg (pre ++ [d]) with lost := rest.map (·.id) } ∧
    (serve .repaired cfg (pre ++ [d])).closed = true ∧
    (serve .repaired cfg (pre ++ [d])).alive = true ∧
    (serve .repaired cfg (pre ++ [d])).replies =
      ((pre ++ [d]).filter fun it => !it.batch).flatMap (expectedReply cfg) ∧
    (serve .repaired cfg (pre ++ [d])).errors =
      ((pre ++ [d]).filter fun it => failedItem it.kind it.outcome).length := by
  have hp : ∀ it ∈ pre, closes cfg it = false ∧ escapes cfg it = false :=
    fun it hit => ⟨(hpre it hit).2, clean_not_escapes (hpre it hit).1⟩
  have hde := clean_not_escapes (cfg := cfg) hds
  obtain ⟨l1, c1, d1⟩ := live_through_close cfg pre d rest hp hd hde
  obtain ⟨l2, c2, d2⟩ := live_through_close cfg pre d [] hp hd hde
  have hsc : ∀ it ∈ pre ++ [d], inScope it.outcome = true := by
    intro it hit
    rcases List.mem_append.mp hit with h | h
    · exact (hpre it h).1
    · simp at h; subst h; exact hds
  refine ⟨?_, ?_, ?_, ?_, ?_⟩
  · rw [serve_spec, serve_spec, l1, c1, d1, l2, c2, d2]
  · rw [serve_spec, l2]; simp [hd]
  · rw [serve_spec, d2]; rfl
  · rw [serve_spec, l2]
  · rw [serve_spec, l2]; exact errors_sum cfg _ hsc

/-- non-vacuity, and the audit's counter-example: R0 replies and disconnects, R1 completes
afterwards and is never answered -/
example :
    serve .repaired {} [⟨0, .request, false, .replyAndDisconnect (.value 5)⟩,
                        ⟨1, .request, false, .returns (.value 6)⟩] =
      { closed := true, replies := [(0, .result 5)], lost := [1] } := by decide

/-- **Answered unless cut** (`session_survives` with its side condition): a request is answered
with the table's reply whenever no item that completed strictly before it disconnected -
whatever completes after it, including disconnects and behaviours outside the quantifier. -/
theorem answered_unless_cut (cfg : Cfg) (pre : List Item) (it : Item) (post : List Item)
    (hpre : ∀ x ∈ pre, clean cfg x) (hs : inScope it.outcome = true)
    (hx : it.outcome ≠ .raisesExcessive) (hreq : it.kind = .request) (hb : it.batch = false) :
    (it.id, textReply cfg it.outcome) ∈ (serve .repaired cfg (pre ++ it :: post)).replies := by
  have hp : ∀ x ∈ pre, closes cfg x = false ∧ escapes cfg x = false :=
    fun x hx => ⟨(hpre x hx).2, clean_not_escapes (hpre x hx).1⟩
  have hlive : it ∈ live cfg (pre ++ it :: post) := by
    rw [live_prefix cfg pre _ hp]
    apply List.mem_append_right
    have he := clean_not_escapes (cfg := cfg) hs
    by_cases hc : closes cfg it = true <;> simp [live, he, hc]
  rw [serve_spec]
  simp only [List.mem_flatMap]
  refine ⟨it, List.mem_filter.mpr ⟨hlive, by simp [hb]⟩, ?_⟩
  rw [expectedReply_eq cfg it hs hx, hreq]
  simp

example : inScope (Outcome.returns (.value 1)) = true ∧
    Outcome.returns (.value 1) ≠ .raisesExcessive := by decide

/-- completion order does not matter for *which* replies are sent: any permutation of the
completion order (no disconnecting item among them) yields a permutation of the same replies -/
theorem replies_order_independent (cfg : Cfg) (a b : List Item) (h : a.Perm b)
    (ha : ∀ it ∈ a, clean cfg it) :
    (serve .repaired cfg a).replies.Perm (serve .repaired cfg b).replies := by
  have hb : ∀ it ∈ b, clean cfg it := fun it hit => ha it (h.mem_iff.mpr hit)
  rw [(session_survives cfg a ha).2.2.2.1, (session_survives cfg b hb).2.2.2.1]
  exact (h.filter _).map _

/-! ## The schedule: K slots, throttle sleep, processing timeout -/

/-- **The schedule is complete and respects the deadline**: the completion order is a
rearrangement, ascending in time, of one completion per arrival; every completion is the
handler's own outcome strictly before the processing timeout (counted from the arrival), or an
overrun exactly at it -
whether the time went on the handler, on the throttle sleep or on waiting for a slot. -/
theorem schedule_complete (tm : Timing) (tis : List TItem) :
    (schedule tm tis).Perm (completions tm (List.replicate tm.slots 0) tis) ∧
    (schedule tm tis).Pairwise (fun a b => a.1 ≤ b.1) ∧
    (completions tm (List.replicate tm.slots 0) tis).length = tis.length ∧
    (∀ p ∈ (completions tm (List.replicate tm.slots 0) tis).zip tis, Completes tm p.1 p.2) ∧
    (∀ ev ∈ schedule tm tis, ∃ ti ∈ tis, Completes tm ev ti) := by
  refine ⟨sortEv_perm _, sortEv_sorted _, completions_length _ _ _, completions_pointwise _ _ _, ?_⟩
  intro ev hev
  exact completions_of_mem tm tis _ ev ((sortEv_perm _).mem_iff.mp hev)

theorem clean_overrun {cfg : Cfg} (it : Item) : clean cfg (overrun it) := by
  constructor
  · rfl
  · cases hk : it.kind <;> simp [closes, stepOf, overrun, throttled, ladder, hk]

/-- the requests that are not batch members, counted through any rearrangement that keeps
shapes -/
theorem count_singles (l : List Item) :
    (l.filter fun it => !it.batch && it.kind == .request).length =
      ((l.map shape).filter fun s => !s.2.2 && s.2.1 == .request).length := by
  induction l with
  | nil => rfl
  | cons it rest ih => simp only [List.map_cons, List.filter_cons, shape] at ih ⊢; split <;> simp [ih]

theorem count_singles_t (tis : List TItem) :
    (tis.filter fun ti => !ti.item.batch && ti.item.kind == .request).length =
      ((tis.map fun ti => shape ti.item).filter fun s => !s.2.2 && s.2.1 == .request).length := by
  induction tis with
  | nil => rfl
  | cons ti rest ih => simp only [List.map_cons, List.filter_cons, shape] at ih ⊢; split <;> simp [ih]

/-- **Timed lifting.**  Requests arrive at any instants; `slots` handlers run at once, each after
the throttle sleep; none of the behaviours is a reply-and-disconnect.  Then whatever the
durations: message processing survives, nothing is lost, the single requests get exactly one
response each, and each request is answered with the table's reply if its handler finished
before the processing timeout and with 'server busy' if it did not. -/
theorem timed_session_survives (cfg : Cfg) (tm : Timing) (tis : List TItem)
    (h : ∀ ti ∈ tis, clean cfg ti.item) :
    (runTimed .repaired cfg tm tis).alive = true ∧ (runTimed .repaired cfg tm tis).closed = false ∧
    (runTimed .repaired cfg tm tis).lost = [] ∧
    (runTimed .repaired cfg tm tis).replies.length =
      (tis.filter fun ti => !ti.item.batch && ti.item.kind == .request).length ∧
    (∀ ti ∈ tis, ti.item.kind = .request → ti.item.batch = false →
      ((∃ t, t < ti.arr + tm.deadline ∧ (t, ti.item) ∈ schedule tm tis) ∧
        (ti.item.id, textReply cfg ti.item.outcome) ∈ (runTimed .repaired cfg tm tis).replies) ∨
      ((ti.arr + tm.deadline, overrun ti.item) ∈ schedule tm tis ∧
        (ti.item.id, Reply.error cfg.serverBusy msgBusy) ∈ (runTimed .repaired cfg tm tis).replies)) := by
  have hperm := sortEv_perm (completions tm (List.replicate tm.slots 0) tis)
  -- every completion is clean
  have hclean : ∀ it ∈ (schedule tm tis).map (·.2), clean cfg it := by
    intro it hit
    obtain ⟨ev, hev, rfl⟩ := List.mem_map.mp hit
    obtain ⟨ti, hti, hc⟩ := completions_of_mem tm tis _ ev (hperm.mem_iff.mp hev)
    rcases hc with hc | hc
    · rw [hc.1]; exact h ti hti
    · rw [hc.1]; exact clean_overrun _
  obtain ⟨h1, h2, h3, h4, _, _⟩ := session_survives cfg _ hclean
  refine ⟨h1, h2, h3, ?_, ?_⟩
  · unfold runTimed
    rw [h4, List.length_map, count_singles, count_singles_t]
    have : (((schedule tm tis).map (·.2)).map shape).Perm (tis.map fun ti => shape ti.item) := by
      have := (hperm.map (fun ev => shape ev.2))
      rw [completions_shape] at this
      simpa [List.map_map, schedule, Function.comp_def] using this
    exact (this.filter _).length_eq
  · intro ti hti hreq hb
    obtain ⟨ev, hev, hc⟩ := mem_completions tm tis (List.replicate tm.slots 0) ti hti
    have hev' : ev ∈ schedule tm tis := hperm.mem_iff.mpr hev
    have hmem : ∀ it : Item, it ∈ (schedule tm tis).map (·.2) → it.kind = .request →
        it.batch = false →
        (it.id, textReply cfg it.outcome) ∈ (runTimed .repaired cfg tm tis).replies := by
      intro it hit hk hbt
      unfold runTimed
      rw [h4]
      exact List.mem_map.mpr ⟨it, List.mem_filter.mpr ⟨hit, by simp [hk, hbt]⟩, rfl⟩
    rcases hc with hc | hc
    · left
      refine ⟨⟨ev.1, hc.2, ?_⟩, ?_⟩
      · rw [← hc.1]; exact hev'
      · have := hmem ev.2 (List.mem_map.mpr ⟨ev, hev', rfl⟩) (by rw [hc.1]; exact hreq)
          (by rw [hc.1]; exact hb)
        rwa [hc.1] at this
    · right
      refine ⟨?_, ?_⟩
      · rw [← hc.1, ← hc.2]; exact hev'
      · have := hmem ev.2 (List.mem_map.mpr ⟨ev, hev', rfl⟩) (by rw [hc.1]; exact hreq)
          (by rw [hc.1]; exact hb)
        rwa [hc.1] at this

/-- first occurrence of an element -/
theorem split_first {α : Type} [DecidableEq α] (l : List α) (x : α) (h : x ∈ l) :
    ∃ pre post, l = pre ++ x :: post ∧ x ∉ pre := by
  induction l with
  | nil => simp at h
  | cons y ys ih =>
    by_cases hxy : x = y
    · exact ⟨[], ys, by simp [hxy], by simp⟩
    · have : x ∈ ys := by
        rcases List.mem_cons.mp h with h | h
        · exact absurd h hxy
        · exact h
      obtain ⟨pre, post, he, hn⟩ := ih this
      exact ⟨y :: pre, post, by simp [he], by simp [hxy, hn]⟩

/-- **Timed, with disconnects.**  In the schedule, a request whose completion (its own outcome
before the deadline, or the overrun at it) comes strictly before every reply-and-disconnect and
every behaviour outside the quantifier is answered with the table's reply - whatever happens
later. -/
theorem timed_answered_unless_cut (cfg : Cfg) (tm : Timing) (tis : List TItem) (ev : Nat × Item)
    (hev : ev ∈ schedule tm tis)
    (hcut : ∀ e ∈ schedule tm tis, ¬ clean cfg e.2 → ev.1 < e.1 ∨ e = ev)
    (hs : inScope ev.2.outcome = true) (hx : ev.2.outcome ≠ .raisesExcessive)
    (hreq : ev.2.kind = .request) (hb : ev.2.batch = false) :
    (ev.2.id, textReply cfg ev.2.outcome) ∈ (runTimed .repaired cfg tm tis).replies := by
  obtain ⟨pre, post, he, hn⟩ := split_first _ ev hev
  have hsorted := (schedule_complete tm tis).2.1
  rw [he] at hsorted
  have hle := (List.pairwise_append.mp hsorted).2.2
  have hpre : ∀ x ∈ pre.map (·.2), clean cfg x := by
    intro x hx'
    obtain ⟨e, hepre, rfl⟩ := List.mem_map.mp hx'
    have hmem : e ∈ schedule tm tis := by rw [he]; simp [hepre]
    have hle' : e.1 ≤ ev.1 := hle e hepre ev (by simp)
    by_cases hc : clean cfg e.2
    · exact hc
    · rcases hcut e hmem hc with h | h
      · omega
      · exact absurd (h ▸ hepre) hn
  unfold runTimed
  rw [he, List.map_append, List.map_cons]
  exact answered_unless_cut cfg _ ev.2 _ hpre hs hx hreq hb

/-- non-vacuity: two slots; request 1 replies and disconnects at 9 s; request 0 (7 s) completed
before and is answered, request 2 (would complete at 11 s) is cut off -/
example :
    let tis : List TItem := [⟨⟨0, .request, false, .returns (.value 1)⟩, 7, 0⟩,
      ⟨⟨1, .request, false, .replyAndDisconnect (.value 2)⟩, 9, 0⟩, ⟨⟨2, .request, false, .returns (.value 3)⟩, 4, 0⟩]
    (schedule { slots := 2 } tis).map (fun ev => (ev.1, ev.2.id)) = [(7, 0), (9, 1), (11, 2)] ∧
    (runTimed .repaired {} { slots := 2 } tis).replies = [(0, .result 1), (1, .result 2)] ∧
    (runTimed .repaired {} { slots := 2 } tis).lost = [2] := by decide

/-- the error count of a timed run without disconnects: the requests and notifications that
failed or overran -/
theorem timed_errors (cfg : Cfg) (tm : Timing) (tis : List TItem)
    (h : ∀ ti ∈ tis, clean cfg ti.item) :
    (runTimed .repaired cfg tm tis).errors =
      (((schedule tm tis).map (·.2)).filter fun it => failedItem it.kind it.outcome).length := by
  have hperm := sortEv_perm (completions tm (List.replicate tm.slots 0) tis)
  have hclean : ∀ it ∈ (schedule tm tis).map (·.2), clean cfg it := by
    intro it hit
    obtain ⟨ev, hev, rfl⟩ := List.mem_map.mp hit
    obtain ⟨ti, hti, hc⟩ := completions_of_mem tm tis _ ev (hperm.mem_iff.mp hev)
    rcases hc with hc | hc
    · rw [hc.1]; exact h ti hti
    · rw [hc.1]; exact clean_overrun _
  exact (session_survives cfg _ hclean).2.2.2.2.2

/-- non-vacuity: one slot, three requests - the first finishes (7 s), the second would need
until 33 s and overruns in its handler, the third is still queued when its timeout expires -/
example :
    let tis : List TItem := [⟨⟨0, .request, false, .returns (.value 1)⟩, 7, 0⟩,
      ⟨⟨1, .request, false, .raisesRpcError 5 1 0⟩, 26, 0⟩, ⟨⟨2, .request, false, .returns (.value 3)⟩, 1, 0⟩]
    (∀ ti ∈ tis, clean {} ti.item) ∧
    (schedule { slots := 1 } tis).map (fun ev => (ev.1, ev.2.id)) = [(7, 0), (30, 1), (30, 2)] ∧
    (runTimed .repaired {} { slots := 1 } tis).replies =
      [(0, .result 1), (1, .error (-102) msgBusy), (2, .error (-102) msgBusy)] := by decide

/-! ## A slow peer and the abort of a dead session -/

theorem wireOne_base (v : Variant) (cfg : Cfg) (total drain : Nat) (w : Wire) (ev : Nat × Item) :
    (wireOne v cfg total drain w ev).base = serveOne v cfg w.base ev.2 := by
  obtain ⟨t, it⟩ := ev
  simp only [wireOne]
  repeat' split
  all_goals rfl

/-- **The wire layer adds, it does not change**: whatever the drain delay of the peer, what is
handed to the transport, counted and lost is exactly `serve`'s state - so every theorem about
`serve` speaks about the slow-peer runs too. -/
theorem wire_base (v : Variant) (cfg : Cfg) (drain : Nat) (evs : List (Nat × Item)) :
    (serveWire v cfg drain evs).base = serve v cfg (evs.map (·.2)) := by
  have : ∀ (total : Nat) (l : List (Nat × Item)) (w : Wire),
      (l.foldl (wireOne v cfg total drain) w).base = (l.map (·.2)).foldl (serveOne v cfg) w.base := by
    intro total l
    induction l with
    | nil => intro w; rfl
    | cons ev rest ih =>
      intro w
      simp only [List.foldl_cons, List.map_cons]
      rw [ih, wireOne_base]
  exact this _ evs {}

theorem wireOne_not_aborted (v : Variant) (cfg : Cfg) (total drain : Nat) (w : Wire)
    (ev : Nat × Item) (hw : w.abortedAt = none)
    (he : (throttled v cfg ev.2.outcome ev.2.kind).escapes = false) :
    (wireOne v cfg total drain w ev).abortedAt = none := by
  obtain ⟨t, it⟩ := ev
  simp only [wireOne, hw, he]
  repeat' split
  all_goals simp_all

/-- **No abort within the quantifier.**  If no completion lets an exception escape - in
particular if every behaviour is one the property lists (`never_escapes`) - the connection is
never aborted and everything handed to the transport reaches the peer, however slowly it
reads: the delivered replies are `serve`'s replies, the delivered batch response its batch
response. -/
theorem wire_never_aborted (v : Variant) (cfg : Cfg) (drain : Nat) (evs : List (Nat × Item))
    (h : ∀ ev ∈ evs, (throttled v cfg ev.2.outcome ev.2.kind).escapes = false) :
    (serveWire v cfg drain evs).abortedAt = none ∧
    deliveredReplies drain (serveWire v cfg drain evs) = (serve v cfg (evs.map (·.2))).replies ∧
    deliveredBatch drain (evs.map (·.2)) (serveWire v cfg drain evs) =
      batchResponse (evs.map (·.2)) (serve v cfg (evs.map (·.2))) := by
  have hab : ∀ (total : Nat) (l : List (Nat × Item)) (w : Wire), w.abortedAt = none →
      (∀ ev ∈ l, (throttled v cfg ev.2.outcome ev.2.kind).escapes = false) →
      (l.foldl (wireOne v cfg total drain) w).abortedAt = none := by
    intro total l
    induction l with
    | nil => intro w hw _; exact hw
    | cons ev rest ih =>
      intro w hw hl
      simp only [List.foldl_cons]
      exact ih _ (wireOne_not_aborted v cfg total drain w ev hw (hl ev (by simp)))
        (fun e he => hl e (by simp [he]))
  have h0 : (serveWire v cfg drain evs).abortedAt = none := hab _ evs {} rfl h
  refine ⟨h0, ?_, ?_⟩
  · simp only [deliveredReplies, h0, wire_base]
  · simp only [deliveredBatch, h0, wire_base]

/-- non-vacuity, and what an escape does with a slow peer (drain 5 s): requests 0, 1, 3 complete
at 4, 7, 8 s and are answered; the handler of request 4 raises CancelledError at 9 s - the
connection is aborted, and of the three replies only the one written at 4 s had left the send
buffer.  With a peer that reads at once all three got through. -/
example :
    let evs : List (Nat × Item) := [(4, ⟨0, .request, false, .raisesProtocolError (-32602) 2⟩),
      (7, ⟨1, .request, false, .raisesOther⟩), (8, ⟨3, .request, false, .returns (.value 904)⟩),
      (9, ⟨4, .request, false, .raisesBase⟩)]
    (serveWire .repaired {} 5 evs).abortedAt = some 9 ∧
    (serveWire .repaired {} 5 evs).base.closed = true ∧
    deliveredReplies 5 (serveWire .repaired {} 5 evs) = [(0, .error (-32602) 2)] ∧
    deliveredReplies 0 (serveWire .repaired {} 0 evs) =
      [(0, .error (-32602) 2), (1, .error (-32603) msgInternal), (3, .result 904)] := by decide

/-- a reply-and-disconnect at 6 s with a slow peer: the close waits for the buffer (until 11 s);
a handler that escapes at 8 s, inside that window, aborts the connection and the buffered reply
is discarded; at 12 s it would have been cancelled with the connection and nothing is lost -/
example :
    let evs (t : Nat) : List (Nat × Item) := [(6, ⟨0, .request, false, .replyAndDisconnect (.value 1)⟩),
      (t, ⟨1, .request, false, .raisesBase⟩)]
    deliveredReplies 5 (serveWire .repaired {} 5 (evs 8)) = [] ∧
    deliveredReplies 5 (serveWire .repaired {} 5 (evs 12)) = [(0, .result 1)] := by decide

/-! ## F9 (pinned tree; repaired by a `fix:` commit) -/

/-- with the pinned code a handler returning something `json.dumps` cannot encode makes the
ProtocolError escape `_throttled_request`: that request gets no reply, message processing dies,
and an unrelated request completing later (id 3) is never answered -/
theorem session_survives_fails_pinned :
    let s := serve .pinned {} [⟨1, .request, false, .returns (.value 7)⟩,
                               ⟨2, .request, false, .returns (.unencodable 0)⟩,
                               ⟨3, .request, false, .returns (.value 9)⟩]
    s.alive = false ∧ s.replies = [(1, .result 7)] ∧ s.lost = [2, 3] := by decide

/-- the same vector on the repaired model -/
example :
    let s := serve .repaired {} [⟨1, .request, false, .returns (.value 7)⟩,
                                 ⟨2, .request, false, .returns (.unencodable 0)⟩,
                                 ⟨3, .request, false, .returns (.value 9)⟩]
    s.alive = true ∧ s.replies = [(1, .result 7), (2, .error (-32603) msgEncoding), (3, .result 9)]
      ∧ s.errors = 1 := by decide

end Aiorpcx.C03
