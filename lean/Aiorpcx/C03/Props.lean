import Aiorpcx.C03.Model
import Aiorpcx.Facts.C03
/-!
# C03 — any handler outcome yields one well-formed reply; the session survives

The decision logic is stated outright (`reply_table`), then lifted to any number of concurrent
items in any completion order (`session_survives`).  `Variant.repaired` is the current tree.
-/
namespace Aiorpcx.C03

/-- the configuration read from the source on this run -/
def factsCfg : Cfg :=
  { internalError := Facts.C03.internalError, serverBusy := Facts.C03.serverBusy,
    excessiveUsage := Facts.C03.excessiveUsage, baseCost := Facts.C03.baseCost }

/-- tie to the source: the codes the property names, the order of the except clauses the model's
`ladder` mirrors, the guard around `send_result` (F9 repair) and the code `encode_payload`
attaches to an unencodable payload -/
theorem facts_codes_and_ladder :
    Facts.C03.internalError = -32603 ∧ Facts.C03.serverBusy = -102 ∧
    Facts.C03.excessiveUsage = -101 ∧
    Facts.C03.ladder = [["ProtocolError", "RPCError"], ["TaskTimeout"], ["ReplyAndDisconnect"],
                        ["ExcessiveSessionCostError"], ["Exception"]] ∧
    Facts.C03.sendResultGuarded = true ∧ Facts.C03.rpcErrorIsException = true ∧
    Facts.C03.encodeFailureCode = Facts.C03.internalError :=
  ⟨by decide, by decide, by decide, by decide, by decide, by decide, by decide⟩

/-- **The reply table.**  For a request, whatever the handler did, exactly one reply is
produced and it is: the value; the handler's own code and message (RPCError, ProtocolError);
-32603 for any other exception and for a value that cannot be encoded; -102 for an overrun of
the processing timeout; the carried value/error for ReplyAndDisconnect; -101 for a refusal by
the limiter.  Nothing escapes. -/
theorem reply_table (cfg : Cfg) (o : Outcome) :
    (throttled .repaired cfg o .request).escapes = false ∧
    (throttled .repaired cfg o .request).reply = some (match o with
      | .returns (.value v) => .result v
      | .returns (.unencodable _) => .error cfg.internalError msgEncoding
      | .returns (.error c m _) => .error c m
      | .raisesRpcError c m _ => .error c m
      | .raisesProtocolError c m => .error c m
      | .raisesOther => .error cfg.internalError msgInternal
      | .overruns => .error cfg.serverBusy msgBusy
      | .replyAndDisconnect (.value v) => .result v
      | .replyAndDisconnect (.unencodable _) => .error cfg.internalError msgEncoding
      | .replyAndDisconnect (.error c m _) => .error c m
      | .excessiveCost => .error cfg.excessiveUsage msgExcessive) := by
  cases o with
  | returns p => cases p <;> simp [throttled, ladder, replyOf]
  | replyAndDisconnect p => cases p <;> simp [throttled, ladder, replyOf]
  | _ => simp [throttled, ladder, replyOf]

/-- a notification is never answered, whatever its handler did, and nothing escapes either -/
theorem notification_silent (v : Variant) (cfg : Cfg) (o : Outcome) :
    (throttled v cfg o .notification).reply = none ∧
    (throttled v cfg o .notification).escapes = false := by
  cases o <;> simp [throttled, ladder]

/-- whether an item counts as failed: everything except a plain (or carried) encodable value -
for a notification an unencodable return value goes unnoticed, since nothing is encoded -/
def failedItem (k : Kind) : Outcome → Bool
  | .returns (.value _) => false
  | .replyAndDisconnect (.value _) => false
  | .returns (.unencodable _) => k == .request
  | .replyAndDisconnect (.unencodable _) => k == .request
  | _ => true

/-- **Error accounting**: each failed request raises the error count by exactly one and the
cost by the base error cost plus the error's own cost; a successful one by nothing. -/
theorem errors_cost_accounting (cfg : Cfg) (o : Outcome) (k : Kind) :
    (throttled .repaired cfg o k).errors = (if failedItem k o then 1 else 0) ∧
    (throttled .repaired cfg o k).cost =
      (if failedItem k o then cfg.baseCost + (match o with
          | .raisesRpcError _ _ c => c
          | .returns (.error _ _ c) => c
          | .replyAndDisconnect (.error _ _ c) => c
          | _ => 0) else 0) := by
  cases k <;> cases o with
  | returns p => cases p <;> simp [throttled, ladder, failedItem, isException, errorCost, replyOf]
  | replyAndDisconnect p =>
    cases p <;> simp [throttled, ladder, failedItem, isException, errorCost, replyOf]
  | _ => simp [throttled, ladder, failedItem, isException, errorCost, replyOf]

/-- the connection is closed exactly for ReplyAndDisconnect and for a refusal by the limiter,
and the disconnect hook runs exactly for the latter -/
theorem close_and_hook (cfg : Cfg) (o : Outcome) (k : Kind) :
    (throttled .repaired cfg o k).close =
      (match o with | .replyAndDisconnect _ => true | .excessiveCost => true | _ => false) ∧
    (throttled .repaired cfg o k).hook = (match o with | .excessiveCost => true | _ => false) := by
  cases k <;> cases o with
  | returns p => cases p <;> simp [throttled, ladder]
  | replyAndDisconnect p => cases p <;> simp [throttled, ladder]
  | _ => simp [throttled, ladder]

theorem never_escapes (cfg : Cfg) (o : Outcome) (k : Kind) :
    (throttled .repaired cfg o k).escapes = false := by
  cases k
  · exact (reply_table cfg o).1
  · exact (notification_silent .repaired cfg o).2

/-! ## Any number of items, any completion order -/

def expectedReply (cfg : Cfg) (it : Item) : Option (Nat × Reply) :=
  (throttled .repaired cfg it.outcome it.kind).reply.map fun r => (it.id, r)

theorem serve_invariant (cfg : Cfg) (items : List Item) : ∀ (s : Served), s.alive = true →
    (items.foldl (serveOne .repaired cfg) s).alive = true ∧
    (items.foldl (serveOne .repaired cfg) s).lost = s.lost ∧
    (items.foldl (serveOne .repaired cfg) s).replies =
      s.replies ++ items.filterMap (expectedReply cfg) ∧
    (items.foldl (serveOne .repaired cfg) s).errors =
      s.errors + (items.map fun it => (throttled .repaired cfg it.outcome it.kind).errors).sum := by
  induction items with
  | nil => intro s hs; simp [hs]
  | cons it its ih =>
    intro s hs
    have hne := never_escapes cfg it.outcome it.kind
    have hstep : (serveOne .repaired cfg s it).alive = true := by
      simp [serveOne, hs, hne]
    obtain ⟨h1, h2, h3, h4⟩ := ih (serveOne .repaired cfg s it) hstep
    simp only [List.foldl_cons]
    refine ⟨h1, ?_, ?_, ?_⟩
    · rw [h2]; simp [serveOne, hs, hne]
    · rw [h3]
      simp only [List.filterMap_cons, expectedReply]
      cases hr : (throttled .repaired cfg it.outcome it.kind).reply <;>
        simp [serveOne, hs, hne, hr]
    · rw [h4]; simp [serveOne, hs, hne]; omega

/-- **The session survives, and every request is answered exactly once.**  For every finite set
of in-flight requests, notifications and batch members with any assignment of handler outcomes,
completing in *any* order: message processing is still alive afterwards, no item is lost, the
replies written are exactly one per request - the one `reply_table` prescribes, in completion
order - and none for a notification; the error count is the number of failed items. -/
theorem session_survives (cfg : Cfg) (items : List Item) :
    (serve .repaired cfg items).alive = true ∧ (serve .repaired cfg items).lost = [] ∧
    (serve .repaired cfg items).replies = items.filterMap (expectedReply cfg) ∧
    (serve .repaired cfg items).errors = (items.filter fun it => failedItem it.kind it.outcome).length := by
  obtain ⟨h1, h2, h3, h4⟩ := serve_invariant cfg items {} rfl
  refine ⟨h1, h2, by simpa [serve] using h3, ?_⟩
  unfold serve
  rw [h4]
  simp only [Nat.zero_add]
  induction items with
  | nil => rfl
  | cons it its ih =>
    simp only [List.map_cons, List.sum_cons, List.filter_cons]
    rw [(errors_cost_accounting cfg it.outcome it.kind).1]
    have : (its.map fun it => (throttled .repaired cfg it.outcome it.kind).errors).sum =
        (its.filter fun it => failedItem it.kind it.outcome).length := by
      apply ih
      · exact (serve_invariant cfg its {} rfl).1
      · exact (serve_invariant cfg its {} rfl).2.1
      · exact (serve_invariant cfg its {} rfl).2.2.1
      · exact (serve_invariant cfg its {} rfl).2.2.2
    rw [this]
    split <;> simp <;> omega

/-- completion order does not matter for *which* replies are sent: any permutation of the
completion order yields a permutation of the same replies -/
theorem replies_order_independent (cfg : Cfg) (a b : List Item) (h : a.Perm b) :
    (serve .repaired cfg a).replies.Perm (serve .repaired cfg b).replies := by
  rw [(session_survives cfg a).2.2.1, (session_survives cfg b).2.2.1]
  exact h.filterMap _

/-! ## F9 (pinned tree; repaired by a `fix:` commit) -/

/-- with the pinned code a handler returning something `json.dumps` cannot encode makes the
ProtocolError escape `_throttled_request`: that request gets no reply, message processing dies,
and an unrelated request completing later (id 3) is never answered -/
theorem session_survives_fails_pinned :
    let s := serve .pinned {} [⟨1, .request, .returns (.value 7)⟩,
                               ⟨2, .request, .returns (.unencodable 0)⟩,
                               ⟨3, .request, .returns (.value 9)⟩]
    s.alive = false ∧ s.replies = [(1, .result 7)] ∧ s.lost = [2, 3] := by decide

/-- the same vector on the repaired model -/
example :
    let s := serve .repaired {} [⟨1, .request, .returns (.value 7)⟩,
                                 ⟨2, .request, .returns (.unencodable 0)⟩,
                                 ⟨3, .request, .returns (.value 9)⟩]
    s.alive = true ∧ s.replies = [(1, .result 7), (2, .error (-32603) msgEncoding), (3, .result 9)]
      ∧ s.errors = 1 := by decide

end Aiorpcx.C03
