import Aiorpcx.Common.Hex
import Aiorpcx.C03.Model
/-! Line-protocol driver for the C03 model.
    in : `<repaired|pinned> <internal> <busy> <excessive> <base> ; <R|N> <id> <outcome> ; ...`
         (items in completion order) outcome: v<n> u<n> r<code>:<msg>:<cost> p<code>:<msg> o t
         dv<n> du<n> de<code>:<msg>:<cost> x
    out: `alive=.. close=.. errors=.. cost=.. lost=a,b replies=id:R<n>|id:E<code>:<msg>,...` -/
open Aiorpcx Aiorpcx.C03

def parseTriple (s : String) : Option (Int × Nat × Nat) :=
  match s.splitOn ":" with
  | [a, b, c] => do pure ((← a.toInt?), (← b.toNat?), (← c.toNat?))
  | _ => none

def parsePair (s : String) : Option (Int × Nat) :=
  match s.splitOn ":" with
  | [a, b] => do pure ((← a.toInt?), (← b.toNat?))
  | _ => none

def dropN (s : String) (n : Nat) : String := String.ofList (s.toList.drop n)

def parseOutcome (s : String) : Option Outcome :=
  if s == "o" then some .raisesOther
  else if s == "t" then some .overruns
  else if s == "x" then some .excessiveCost
  else if s.startsWith "dv" then (dropN s 2).toNat?.map fun n => .replyAndDisconnect (.value n)
  else if s.startsWith "du" then (dropN s 2).toNat?.map fun n => .replyAndDisconnect (.unencodable n)
  else if s.startsWith "de" then
    (parseTriple (dropN s 2)).map fun (c, m, k) => .replyAndDisconnect (.error c m k)
  else if s.startsWith "v" then (dropN s 1).toNat?.map fun n => .returns (.value n)
  else if s.startsWith "u" then (dropN s 1).toNat?.map fun n => .returns (.unencodable n)
  else if s.startsWith "r" then (parseTriple (dropN s 1)).map fun (c, m, k) => .raisesRpcError c m k
  else if s.startsWith "p" then (parsePair (dropN s 1)).map fun (c, m) => .raisesProtocolError c m
  else none

def parseItem (s : String) : Option Item :=
  match (s.splitOn " ").filter (· ≠ "") with
  | [k, i, o] => do
      let kind ← (if k == "R" then some Kind.request else if k == "N" then some Kind.notification else none)
      pure { id := (← i.toNat?), kind, outcome := (← parseOutcome o) }
  | _ => none

def replyStr : Nat × Reply → String
  | (i, .result n) => s!"{i}:R{n}"
  | (i, .error c m) => s!"{i}:E{c}:{m}"

def b01 (b : Bool) : String := if b then "1" else "0"

def handle (line : String) : String :=
  match (line.splitOn ";").map (·.trimAscii.toString) with
  | hd :: items =>
    match (hd.splitOn " ").filter (· ≠ ""), (items.filter (· ≠ "")).mapM parseItem with
    | [v, a, b, c, d], some its =>
      match a.toInt?, b.toInt?, c.toInt?, d.toNat? with
      | some ie, some sb, some ex, some bc =>
        let cfg : Cfg := { internalError := ie, serverBusy := sb, excessiveUsage := ex, baseCost := bc }
        let s := serve (if v == "pinned" then .pinned else .repaired) cfg its
        s!"alive={b01 s.alive} close={b01 s.closeRequested} errors={s.errors} cost={s.cost} lost={String.intercalate "," (s.lost.map toString)} replies={String.intercalate "," (s.replies.map replyStr)}"
      | _, _, _, _ => "bad-op"
    | _, _ => "bad-op"
  | _ => "bad-op"

def main : IO Unit := Hex.lineLoop handle
