import Aiorpcx.Common.Hex
import Aiorpcx.C03.Model
/-! Line-protocol driver for the C03 model.
    in : `<repaired|pinned> <internal> <busy> <excessive> <base> ;
          <slots> <deadline> <throttle> <drain> ;
          <R|N|B|M> <id> <outcome> <dur> <arrival> ; ...`   (items in arrival order; B/M =
         request / notification member of the batch)
         outcome: v<n> u<n> e<code>:<msg>:<cost> r<code>:<msg>:<cost> p<code>:<msg> o<n> t
         dv<n> du<n> de<code>:<msg>:<cost> d0 x xe tt b<n>
    out: `alive=.. close=.. errors=.. cost=.. hook=.. lost=a,b replies=id:R<n>|id:E<code>:<msg>,..
          batch=none|id:..,.. abort=none|<t> cut=none|<t> times=id@t,..`
         (replies / batch = what reaches a peer whose send buffer drains `drain` seconds late) -/
open Aiorpcx Aiorpcx.C03

def parseTriple (s : String) : Option (Int × Nat × Nat) :=
  match s.splitOn ":" with
  | [a, b, c] => do pure ((← a.toInt?), (← b.toNat?), (← c.toNat?))
  | _ => none

def parsePair (s : String) : Option (Int × Nat) :=
  match s.splitOn ":" with
  | [a, b] => do pure ((← a.toInt?), (← b.toNat?))
  | _ => none

def dropN (s : String) (n : Nat) : String := String.ofList (s.toList.drop n)

def parseOutcome (s : String) : Option Outcome :=
  if s == "t" then some .overruns
  else if s == "x" then some .excessiveCost
  else if s == "xe" then some .raisesExcessive
  else if s == "tt" then some .raisesTaskTimeout
  else if s == "d0" then some .replyAndDisconnectNoArg
  else if s.startsWith "dv" then (dropN s 2).toNat?.map fun n => .replyAndDisconnect (.value n)
  else if s.startsWith "du" then (dropN s 2).toNat?.map fun n => .replyAndDisconnect (.unencodable n)
  else if s.startsWith "de" then
    (parseTriple (dropN s 2)).map fun (c, m, k) => .replyAndDisconnect (.error c m k)
  else if s.startsWith "v" then (dropN s 1).toNat?.map fun n => .returns (.value n)
  else if s.startsWith "u" then (dropN s 1).toNat?.map fun n => .returns (.unencodable n)
  else if s.startsWith "e" then (parseTriple (dropN s 1)).map fun (c, m, k) => .returns (.error c m k)
  else if s.startsWith "r" then (parseTriple (dropN s 1)).map fun (c, m, k) => .raisesRpcError c m k
  else if s.startsWith "p" then (parsePair (dropN s 1)).map fun (c, m) => .raisesProtocolError c m
  else if s.startsWith "o" then (dropN s 1).toNat?.map fun _ => .raisesOther
  else if s.startsWith "b" then (dropN s 1).toNat?.map fun _ => .raisesBase
  else none

def parseItem (s : String) : Option TItem :=
  match (s.splitOn " ").filter (· ≠ "") with
  | [k, i, o, d, a] => do
      let (kind, batch) ←
        (if k == "R" then some (Kind.request, false) else if k == "N" then some (Kind.notification, false)
         else if k == "B" then some (Kind.request, true) else if k == "M" then some (Kind.notification, true)
         else none)
      pure { item := { id := (← i.toNat?), kind, batch, outcome := (← parseOutcome o) },
             dur := (← d.toNat?), arr := (← a.toNat?) }
  | _ => none

def replyStr : Nat × Reply → String
  | (i, .result n) => s!"{i}:R{n}"
  | (i, .error c m) => s!"{i}:E{c}:{m}"

def b01 (b : Bool) : String := if b then "1" else "0"

def words (s : String) : List String := (s.splitOn " ").filter (· ≠ "")

def handle (line : String) : String :=
  match (line.splitOn ";").map (·.trimAscii.toString) with
  | hd :: tmS :: items =>
    match words hd, words tmS, (items.filter (· ≠ "")).mapM parseItem with
    | [v, a, b, c, d], [k, p, s, dr], some tis =>
      match a.toInt?, b.toInt?, c.toInt?, d.toNat?, k.toNat?, p.toNat?, s.toNat?, dr.toNat? with
      | some ie, some sb, some ex, some bc, some slots, some deadline, some throttle, some drain =>
        let cfg : Cfg := { internalError := ie, serverBusy := sb, excessiveUsage := ex, baseCost := bc }
        let tm : Timing := { slots, deadline, throttle }
        let var := if v == "pinned" then Variant.pinned else Variant.repaired
        let evs := schedule tm tis
        let items := evs.map (·.2)
        let w := serveWire var cfg drain evs
        let r := w.base
        let cut := (evs.find? fun (_, it) =>
          let st := throttled var cfg it.outcome it.kind
          st.close || st.escapes).map (·.1)
        let batch := match deliveredBatch drain items w with
          | some parts => String.intercalate "," (parts.map replyStr)
          | none => "none"
        s!"alive={b01 r.alive} close={b01 r.closed} errors={r.errors} cost={r.cost} hook={r.hooks} lost={String.intercalate "," (r.lost.map toString)} replies={String.intercalate "," ((deliveredReplies drain w).map replyStr)} batch={batch} abort={match w.abortedAt with | some t => toString t | none => "none"} cut={match cut with | some t => toString t | none => "none"} times={String.intercalate "," (evs.map fun (t, it) => s!"{it.id}@{t}")}"
      | _, _, _, _, _, _, _, _ => "bad-op"
    | _, _, _ => "bad-op"
  | _ => "bad-op"

def main : IO Unit := Hex.lineLoop handle
