/-!
# C03 — model of `RPCSession._throttled_request` (session.py:472-505) and of the way
`process_messages` treats handler tasks (session.py:224-230)

Decision function `throttled : Variant → Cfg → Outcome → Kind → Step`: what the serving side does
with one request/notification whose handler behaved as `Outcome`.  It mirrors the code's
`try/except` ladder, the `send_result` call, `_bump_errors` and the optional `close()` in the
code's order.  `Variant.repaired` is the current tree (F9 repaired: `send_result` guarded);
`Variant.pinned` lets the `ProtocolError` of an unencodable result escape.

`serve` folds that over any number of in-flight items in any completion order, with the
message-loop's liveness: a handler task that *raises* makes `task.result()` re-raise inside
`process_messages`, which ends message processing (everything still in flight is cancelled and
nothing later is answered).

No Mathlib imports.
-/
namespace Aiorpcx.C03

inductive Variant where | repaired | pinned
  deriving Repr, DecidableEq

/-- error codes, read from the source by the facts extractor -/
structure Cfg where
  internalError : Int := -32603
  serverBusy : Int := -102
  excessiveUsage : Int := -101
  /-- `error_base_cost`, in the model's cost unit -/
  baseCost : Nat := 100
  deriving Repr, DecidableEq

/-- what a handler returned / what `ReplyAndDisconnect` carries -/
inductive Payload where
  | value (id : Nat)               -- a JSON-encodable value
  | unencodable (id : Nat)         -- something `json.dumps` raises TypeError for
  | error (code : Int) (msg : Nat) (cost : Nat)   -- an RPCError object
  deriving Repr, DecidableEq

inductive Outcome where
  | returns (p : Payload)                          -- handler returned (values only make sense)
  | raisesRpcError (code : Int) (msg : Nat) (cost : Nat)
  | raisesProtocolError (code : Int) (msg : Nat)
  | raisesOther
  | overruns                                        -- sleeps past processing_timeout
  | replyAndDisconnect (p : Payload)
  | excessiveCost                                   -- the limiter refused entry
  deriving Repr, DecidableEq

inductive Kind where | request | notification
  deriving Repr, DecidableEq

/-- message texts are abstract ids; these three are the library's own -/
def msgBusy : Nat := 1000001
def msgExcessive : Nat := 1000002
def msgInternal : Nat := 1000003
def msgEncoding : Nat := 1000004

inductive Reply where
  | result (id : Nat)
  | error (code : Int) (msg : Nat)
  deriving Repr, DecidableEq

structure Step where
  reply : Option Reply := none
  errors : Nat := 0          -- increment of session.errors
  cost : Nat := 0            -- increment of session.cost (error part only)
  close : Bool := false
  hook : Bool := false       -- on_disconnect_due_to_excessive_session_cost called
  escapes : Bool := false    -- an exception leaves `_throttled_request`
  deriving Repr, DecidableEq

/-- the `result` object after the try/except ladder, with the `disconnect` and hook flags -/
def ladder (cfg : Cfg) : Outcome → Payload × Bool × Bool
  | .returns p => (p, false, false)
  | .raisesRpcError c m k => (.error c m k, false, false)
  | .raisesProtocolError c m => (.error c m 0, false, false)
  | .overruns => (.error cfg.serverBusy msgBusy 0, false, false)
  | .replyAndDisconnect p => (p, true, false)
  | .excessiveCost => (.error cfg.excessiveUsage msgExcessive 0, true, true)
  | .raisesOther => (.error cfg.internalError msgInternal 0, false, false)

def isException : Payload → Bool
  | .error .. => true
  | _ => false

def errorCost (cfg : Cfg) : Payload → Nat
  | .error _ _ k => cfg.baseCost + k
  | _ => 0

def replyOf : Payload → Option Reply
  | .value v => some (.result v)
  | .error c m _ => some (.error c m)
  | .unencodable _ => none

def throttled (v : Variant) (cfg : Cfg) (o : Outcome) (k : Kind) : Step :=
  let (res, disconnect, hook) := ladder cfg o
  match k with
  | .notification =>
    -- no send_result for notifications
    { reply := none, errors := if isException res then 1 else 0, cost := errorCost cfg res,
      close := disconnect, hook := hook }
  | .request =>
    match res with
    | .unencodable _ =>
      match v with
      | .pinned =>
        -- `request.send_result(result)` raises ProtocolError(INTERNAL_ERROR): nothing below runs
        { escapes := true, hook := hook }
      | .repaired =>
        -- the ProtocolError becomes the result: one internal-error reply, counted as an error
        let res' := Payload.error cfg.internalError msgEncoding 0
        { reply := replyOf res', errors := 1, cost := errorCost cfg res', close := disconnect,
          hook := hook }
    | _ =>
      { reply := replyOf res, errors := if isException res then 1 else 0,
        cost := errorCost cfg res, close := disconnect, hook := hook }

/-! ## Many items in flight -/

structure Item where
  id : Nat
  kind : Kind
  outcome : Outcome
  deriving Repr, DecidableEq

structure Served where
  /-- the message-processing task is still running -/
  alive : Bool := true
  /-- replies written, in order: (item id, reply) -/
  replies : List (Nat × Reply) := []
  errors : Nat := 0
  cost : Nat := 0
  closeRequested : Bool := false
  /-- items whose handler finished while message processing was dead: never answered -/
  lost : List Nat := []
  deriving Repr, DecidableEq

def serveOne (v : Variant) (cfg : Cfg) (s : Served) (it : Item) : Served :=
  if !s.alive then { s with lost := s.lost ++ [it.id] }
  else
    let st := throttled v cfg it.outcome it.kind
    if st.escapes then { s with alive := false, lost := s.lost ++ [it.id] }
    else
      { s with replies := match st.reply with
                          | some r => s.replies ++ [(it.id, r)]
                          | none => s.replies,
               errors := s.errors + st.errors, cost := s.cost + st.cost,
               closeRequested := s.closeRequested || st.close }

/-- items complete in the order given (any permutation of the arrival order) -/
def serve (v : Variant) (cfg : Cfg) (items : List Item) : Served :=
  items.foldl (serveOne v cfg) {}

end Aiorpcx.C03
