/-!
# C03 — model of `RPCSession._throttled_request` (session.py), of the way `process_messages`
treats handler tasks, and of the K-slot schedule that decides *when* each request completes

* `throttled : Variant → Cfg → Outcome → Kind → Step`: what the serving side does with one
  request/notification whose handler behaved as `Outcome`.  It mirrors the code's `try/except`
  ladder, the `send_result` call, `_bump_errors` and the optional `close()` in the code's order.
  `Variant.repaired` is the current tree (F9 repaired: `send_result` guarded);
  `Variant.pinned` lets the `ProtocolError` of an unencodable result escape.
* `serve` folds that over any number of in-flight items in any completion order, with the
  message loop's liveness (a handler task that *raises* makes `task.result()` re-raise inside
  `process_messages`: nothing later is answered, and the transport protocol aborts the
  connection - repair F34) and with the effect of a reply-and-disconnect
  (once `close()` ran, the tasks still in flight are cancelled and nothing more is written:
  later completions are cut off).  Members of a request batch are answered by one batch
  response, emitted when `len(parts) == count`.
* `schedule`: items arrive at their instants `arr`; `slots` of them run at once (FIFO
  semaphore), each first sleeps `throttle` seconds (`_cost_fraction * cost_sleep`), then runs its
  handler for `dur`; whatever has not finished `deadline` after its arrival (`processing_timeout`,
  which covers the wait for a slot and the throttle sleep) overruns.  `runTimed` = `serve` over the resulting
  completion order.

No Mathlib imports.
-/
namespace Aiorpcx.C03

inductive Variant where | repaired | pinned
  deriving Repr, DecidableEq

/-- error codes, read from the source by the facts extractor -/
structure Cfg where
  internalError : Int := -32603
  serverBusy : Int := -102
  excessiveUsage : Int := -101
  /-- `error_base_cost`, in the model's cost unit -/
  baseCost : Nat := 100
  deriving Repr, DecidableEq

/-- what a handler returned / what `ReplyAndDisconnect` carries -/
inductive Payload where
  | value (id : Nat)               -- a JSON-encodable value
  | unencodable (id : Nat)         -- something `json.dumps` raises TypeError for
  | error (code : Int) (msg : Nat) (cost : Nat)   -- an RPCError object
  deriving Repr, DecidableEq

inductive Outcome where
  | returns (p : Payload)                          -- handler returned
  | raisesRpcError (code : Int) (msg : Nat) (cost : Nat)
  | raisesProtocolError (code : Int) (msg : Nat)
  | raisesOther                                     -- any Exception no clause names
  | overruns                                        -- not finished at the processing timeout
  | replyAndDisconnect (p : Payload)
  | excessiveCost                                   -- the limiter refused entry
  /-- the handler itself raises `ExcessiveSessionCostError` (a RuntimeError): the clause meant
  for the limiter catches it -/
  | raisesExcessive
  /-- the handler raises `TaskTimeout` itself (a BaseException, outside "arbitrary Exception"):
  the clause meant for the processing timeout catches it -/
  | raisesTaskTimeout
  /-- the handler raises CancelledError / TimeoutCancellationError / another BaseException: no
  clause catches it (outside "arbitrary Exception") -/
  | raisesBase
  /-- `raise ReplyAndDisconnect()` without an argument: `e.args[0]` raises IndexError inside the
  except clause (outside "ReplyAndDisconnect(value or error)") -/
  | replyAndDisconnectNoArg
  deriving Repr, DecidableEq

inductive Kind where | request | notification
  deriving Repr, DecidableEq

/-- message texts are abstract ids; these four are the library's own -/
def msgBusy : Nat := 1000001
def msgExcessive : Nat := 1000002
def msgInternal : Nat := 1000003
def msgEncoding : Nat := 1000004

inductive Reply where
  | result (id : Nat)
  | error (code : Int) (msg : Nat)
  deriving Repr, DecidableEq

structure Step where
  reply : Option Reply := none
  errors : Nat := 0          -- increment of session.errors
  cost : Nat := 0            -- increment of session.cost (error part only)
  close : Bool := false
  hook : Bool := false       -- on_disconnect_due_to_excessive_session_cost called
  escapes : Bool := false    -- an exception leaves `_throttled_request`
  deriving Repr, DecidableEq

/-- the `result` object after the try/except ladder, with the `disconnect` and hook flags;
`none`: an exception leaves the function from inside the ladder -/
def ladder (cfg : Cfg) : Outcome → Option (Payload × Bool × Bool)
  | .returns p => some (p, false, false)
  | .raisesRpcError c m k => some (.error c m k, false, false)
  | .raisesProtocolError c m => some (.error c m 0, false, false)
  | .overruns => some (.error cfg.serverBusy msgBusy 0, false, false)
  | .raisesTaskTimeout => some (.error cfg.serverBusy msgBusy 0, false, false)
  | .replyAndDisconnect p => some (p, true, false)
  | .replyAndDisconnectNoArg => none
  | .excessiveCost => some (.error cfg.excessiveUsage msgExcessive 0, true, true)
  | .raisesExcessive => some (.error cfg.excessiveUsage msgExcessive 0, true, true)
  | .raisesOther => some (.error cfg.internalError msgInternal 0, false, false)
  | .raisesBase => none

def isException : Payload → Bool
  | .error .. => true
  | _ => false

def errorCost (cfg : Cfg) : Payload → Nat
  | .error _ _ k => cfg.baseCost + k
  | _ => 0

def replyOf : Payload → Option Reply
  | .value v => some (.result v)
  | .error c m _ => some (.error c m)
  | .unencodable _ => none

def throttled (v : Variant) (cfg : Cfg) (o : Outcome) (k : Kind) : Step :=
  match ladder cfg o with
  | none => { escapes := true }
  | some (res, disconnect, hook) =>
    match k with
    | .notification =>
      -- no send_result for notifications
      { reply := none, errors := if isException res then 1 else 0, cost := errorCost cfg res,
        close := disconnect, hook := hook }
    | .request =>
      match res with
      | .unencodable _ =>
        match v with
        | .pinned =>
          -- `request.send_result(result)` raises ProtocolError(INTERNAL_ERROR): nothing below runs
          { escapes := true, hook := hook }
        | .repaired =>
          -- the ProtocolError becomes the result: one internal-error reply, counted as an error
          let res' := Payload.error cfg.internalError msgEncoding 0
          { reply := replyOf res', errors := 1, cost := errorCost cfg res', close := disconnect,
            hook := hook }
      | _ =>
        { reply := replyOf res, errors := if isException res then 1 else 0,
          cost := errorCost cfg res, close := disconnect, hook := hook }

/-- what the facts extractor observes when it runs the real session on one item: the reply in
canonical form (is a result?, value id / error code, message id - 0 for the library's own
texts), the bumps, whether the connection was closed, the hook, and whether the transport was
aborted (an exception left `_throttled_request`: message processing ends abnormally and
`RSTransport.process_messages` aborts the connection - repair F34) -/
structure Obs where
  aborted : Bool
  reply : Option (Bool × Int × Nat)
  errors : Nat
  cost : Nat
  closed : Bool
  hook : Bool
  deriving Repr, DecidableEq

def canonReply : Reply → Bool × Int × Nat
  | .result n => (true, n, 0)
  | .error c m => (false, c, if 1000000 ≤ m then 0 else m)

def obsOf (st : Step) : Obs :=
  { aborted := st.escapes, reply := st.reply.map canonReply, errors := st.errors, cost := st.cost,
    closed := st.close || st.escapes, hook := st.hook }

/-! ## Many items in flight -/

structure Item where
  id : Nat
  kind : Kind
  /-- member of the (one) request batch -/
  batch : Bool := false
  outcome : Outcome
  deriving Repr, DecidableEq

structure Served where
  /-- the message-processing task is still running -/
  alive : Bool := true
  /-- `close()` ran, or the connection was aborted: it is closing / closed -/
  closed : Bool := false
  /-- responses to single requests, in the order written: (item id, reply) -/
  replies : List (Nat × Reply) := []
  /-- parts of the batch response collected so far -/
  batchParts : List (Nat × Reply) := []
  errors : Nat := 0
  cost : Nat := 0
  /-- calls of on_disconnect_due_to_excessive_session_cost -/
  hooks : Nat := 0
  /-- items whose handler finished (or would have) after message processing died or after the
  connection was closed: never answered, never counted -/
  lost : List Nat := []
  deriving Repr, DecidableEq

def replyList (st : Step) (it : Item) : List (Nat × Reply) :=
  match st.reply with
  | some r => [(it.id, r)]
  | none => []

/-- `send_result` (single: the response; batch member: one more part), `_bump_errors`, the hook
and `close()` of one completed item -/
def record (s : Served) (it : Item) (st : Step) : Served :=
  { s with
    replies := if it.batch then s.replies else s.replies ++ replyList st it,
    batchParts := if it.batch then s.batchParts ++ replyList st it else s.batchParts,
    errors := s.errors + st.errors, cost := s.cost + st.cost,
    hooks := s.hooks + (if st.hook then 1 else 0), closed := st.close }

def serveOne (v : Variant) (cfg : Cfg) (s : Served) (it : Item) : Served :=
  if !s.alive || s.closed then { s with lost := s.lost ++ [it.id] }
  else
    let st := throttled v cfg it.outcome it.kind
    if st.escapes then
      -- `task.result()` re-raises in `process_messages`; the transport protocol aborts the
      -- connection of the dead session (F34)
      { s with alive := false, closed := true, lost := s.lost ++ [it.id] }
    else record s it st

/-- items complete in the order given (any permutation of the arrival order) -/
def serve (v : Variant) (cfg : Cfg) (items : List Item) : Served :=
  items.foldl (serveOne v cfg) {}

/-- `count` of `_receive_request_batch`: the request members of the batch -/
def batchCount (items : List Item) : Nat :=
  (items.filter fun it => it.batch && it.kind == .request).length

/-- the batch response: written when `len(parts) == count` -/
def batchResponse (items : List Item) (s : Served) : Option (List (Nat × Reply)) :=
  if 0 < batchCount items ∧ s.batchParts.length = batchCount items then some s.batchParts else none

/-! ## When items complete: K slots, throttle sleep, processing timeout -/

structure Timing where
  /-- `initial_concurrent`: handlers running at once -/
  slots : Nat := 20
  /-- `processing_timeout`, counted from arrival -/
  deadline : Nat := 30
  /-- `_cost_fraction * cost_sleep`: sleep between getting a slot and starting the handler -/
  throttle : Nat := 0
  deriving Repr, DecidableEq

structure TItem where
  item : Item
  /-- running time of the handler before it behaves as `item.outcome` -/
  dur : Nat
  /-- instant of arrival (ascending along the list of arrivals) -/
  arr : Nat := 0
  deriving Repr, DecidableEq

def insertSorted (x : Nat) : List Nat → List Nat
  | [] => [x]
  | y :: ys => if x ≤ y then x :: y :: ys else y :: insertSorted x ys

def overrun (it : Item) : Item := { it with outcome := .overruns }

/-- one arrival.  `free` = the instants at which the slots become free, ascending.  Returns the
new slot list and the completion (instant, item with the outcome that takes effect).  The
processing timeout runs from the arrival: it covers the wait for a slot and the throttle sleep. -/
def arrive (tm : Timing) (free : List Nat) (ti : TItem) : List Nat × (Nat × Item) :=
  match free with
  | [] => (free, (ti.arr + tm.deadline, overrun ti.item))
  | f :: rest =>
    let a := max f ti.arr          -- the instant the request gets its slot
    if ti.arr + tm.deadline ≤ a then
      -- still queued on the semaphore when the timeout expires: takes no slot
      (free, (ti.arr + tm.deadline, overrun ti.item))
    else if ti.item.outcome = .excessiveCost then
      -- refused on entering the limiter: the slot is handed back at once
      (insertSorted a rest, (a, ti.item))
    else if ti.item.outcome = .overruns ∨ ti.arr + tm.deadline ≤ a + tm.throttle + ti.dur then
      (insertSorted (ti.arr + tm.deadline) rest, (ti.arr + tm.deadline, overrun ti.item))
    else
      (insertSorted (a + tm.throttle + ti.dur) rest, (a + tm.throttle + ti.dur, ti.item))

/-- completions in arrival order -/
def completions (tm : Timing) : List Nat → List TItem → List (Nat × Item)
  | _, [] => []
  | free, ti :: rest => (arrive tm free ti).2 :: completions tm (arrive tm free ti).1 rest

/-- stable insertion by instant -/
def insertEv (e : Nat × Item) : List (Nat × Item) → List (Nat × Item)
  | [] => [e]
  | x :: xs => if e.1 ≤ x.1 then e :: x :: xs else x :: insertEv e xs

def sortEv : List (Nat × Item) → List (Nat × Item)
  | [] => []
  | e :: es => insertEv e (sortEv es)

/-- the completion order: (instant, item) ascending in time, arrival order among equals -/
def schedule (tm : Timing) (tis : List TItem) : List (Nat × Item) :=
  sortEv (completions tm (List.replicate tm.slots 0) tis)

def runTimed (v : Variant) (cfg : Cfg) (tm : Timing) (tis : List TItem) : Served :=
  serve v cfg ((schedule tm tis).map (·.2))

/-! ## A slow peer: what is handed to the transport stays `drain` seconds in the send buffer

A graceful close (reply-and-disconnect) flushes the buffer: the connection is lost only once it
has drained, and until then the handlers still in flight go on running - their replies are
dropped, but an exception escaping from one of them ends message processing and ABORTS the
connection (F34; F25 for the `close()` that was waiting), which discards what is still buffered.
`Wire.base` is exactly `serve`'s state (`wire_base`); the other fields say when its replies were
handed over and when the connection was aborted. -/

structure Wire where
  base : Served := {}
  /-- instants at which `base.replies` were handed to the transport, in the same order -/
  sentAt : List Nat := []
  /-- instant at which the batch response was handed to the transport -/
  batchSentAt : Option Nat := none
  /-- a graceful close is pending until this instant (the buffer has drained) -/
  lostAt : Option Nat := none
  abortedAt : Option Nat := none
  deriving Repr, DecidableEq

def lastSent (w : Wire) : Option Nat :=
  match w.sentAt.getLast?, w.batchSentAt with
  | some a, some b => some (max a b)
  | some a, none => some a
  | none, b => b

/-- `total` = `batchCount` of the items, `drain` = seconds a write stays in the send buffer -/
def wireOne (v : Variant) (cfg : Cfg) (total drain : Nat) (w : Wire) (ev : Nat × Item) : Wire :=
  let (t, it) := ev
  let st := throttled v cfg it.outcome it.kind
  let base := serveOne v cfg w.base it
  if w.abortedAt.isSome then { w with base }
  else match w.lostAt with
    | some l =>
      -- closing, buffer not yet drained: the handler still runs if the connection is not lost
      if t < l && st.escapes then { w with base, abortedAt := some t } else { w with base }
    | none =>
      if st.escapes then { w with base, abortedAt := some t }
      else
        let w1 : Wire :=
          { w with base,
                   sentAt := if it.batch then w.sentAt else w.sentAt ++ (replyList st it).map fun _ => t,
                   batchSentAt := if it.batch && st.reply.isSome && base.batchParts.length == total
                                  then some t else w.batchSentAt }
        if st.close then
          { w1 with lostAt := some (match lastSent w1 with
                                    | some a => max t (a + drain)
                                    | none => t) }
        else w1

def serveWire (v : Variant) (cfg : Cfg) (drain : Nat) (evs : List (Nat × Item)) : Wire :=
  evs.foldl (wireOne v cfg (batchCount (evs.map (·.2))) drain) {}

/-- the responses to single requests that reach the peer -/
def deliveredReplies (drain : Nat) (w : Wire) : List (Nat × Reply) :=
  match w.abortedAt with
  | none => w.base.replies
  | some T => ((w.base.replies.zip w.sentAt).filter fun p => p.2 + drain ≤ T).map (·.1)

/-- the batch response, if it reaches the peer -/
def deliveredBatch (drain : Nat) (items : List Item) (w : Wire) : Option (List (Nat × Reply)) :=
  match w.abortedAt, w.batchSentAt with
  | some T, some b => if b + drain ≤ T then batchResponse items w.base else none
  | some _, none => none
  | none, _ => batchResponse items w.base

end Aiorpcx.C03
