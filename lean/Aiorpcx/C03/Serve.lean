import Aiorpcx.C03.Model
/-!
# C03 — what `serve` computes, in closed form

`live` = the completions that are actually served (up to and including the first that closes the
connection, stopping before the first whose exception escapes); `cutOff` = the rest.
`foldl_spec` gives the whole final state of the fold in terms of them.
-/
namespace Aiorpcx.C03

def stepOf (cfg : Cfg) (it : Item) : Step := throttled .repaired cfg it.outcome it.kind
def closes (cfg : Cfg) (it : Item) : Bool := (stepOf cfg it).close
def escapes (cfg : Cfg) (it : Item) : Bool := (stepOf cfg it).escapes

/-- the completions that are served -/
def live (cfg : Cfg) : List Item → List Item
  | [] => []
  | it :: rest =>
    if escapes cfg it then [] else if closes cfg it then [it] else it :: live cfg rest

/-- the completions that are not: everything after a close, everything from an escape on -/
def cutOff (cfg : Cfg) : List Item → List Item
  | [] => []
  | it :: rest =>
    if escapes cfg it then it :: rest else if closes cfg it then rest else cutOff cfg rest

/-- message processing ends with an exception -/
def dies (cfg : Cfg) : List Item → Bool
  | [] => false
  | it :: rest => if escapes cfg it then true else if closes cfg it then false else dies cfg rest

/-- the reply of one served item, as a list (empty for a notification) -/
def expectedReply (cfg : Cfg) (it : Item) : List (Nat × Reply) := replyList (stepOf cfg it) it

theorem foldl_cut (v : Variant) (cfg : Cfg) (items : List Item) :
    ∀ s : Served, (s.alive = false ∨ s.closed = true) →
      items.foldl (serveOne v cfg) s = { s with lost := s.lost ++ items.map (·.id) } := by
  induction items with
  | nil => intro s _; simp
  | cons it rest ih =>
    intro s h
    have h1 : serveOne v cfg s it = { s with lost := s.lost ++ [it.id] } := by
      rcases h with h | h <;> simp [serveOne, h]
    simp only [List.foldl_cons, h1]
    rw [ih _ (by simpa using h)]
    simp

theorem foldl_spec (cfg : Cfg) (items : List Item) :
    ∀ s : Served, s.alive = true → s.closed = false →
      items.foldl (serveOne .repaired cfg) s =
        { alive := !dies cfg items,
          closed := (live cfg items).any (closes cfg) || dies cfg items,
          replies := s.replies ++
            ((live cfg items).filter fun it => !it.batch).flatMap (expectedReply cfg),
          batchParts := s.batchParts ++
            ((live cfg items).filter fun it => it.batch).flatMap (expectedReply cfg),
          errors := s.errors + ((live cfg items).map fun it => (stepOf cfg it).errors).sum,
          cost := s.cost + ((live cfg items).map fun it => (stepOf cfg it).cost).sum,
          hooks := s.hooks + ((live cfg items).filter fun it => (stepOf cfg it).hook).length,
          lost := s.lost ++ (cutOff cfg items).map (·.id) } := by
  induction items with
  | nil => intro s ha hc; cases s; simp_all [live, cutOff, dies]
  | cons it rest ih =>
    intro s ha hc
    simp only [List.foldl_cons]
    by_cases he : escapes cfg it = true
    · -- the exception leaves the function: message processing dies
      have h1 : serveOne .repaired cfg s it =
          { s with alive := false, closed := true, lost := s.lost ++ [it.id] } := by
        have : (throttled .repaired cfg it.outcome it.kind).escapes = true := he
        simp [serveOne, ha, hc, this]
      rw [h1, foldl_cut _ _ _ _ (Or.inl rfl)]
      cases s
      simp_all [live, cutOff, dies]
    · have he' : (throttled .repaired cfg it.outcome it.kind).escapes = false := by
        simpa [escapes, stepOf] using he
      have h1 : serveOne .repaired cfg s it = record s it (stepOf cfg it) := by
        simp [serveOne, ha, hc, he', stepOf]
      by_cases hcl : closes cfg it = true
      · have h2 : (record s it (stepOf cfg it)).closed = true := by simpa [record, closes] using hcl
        rw [h1, foldl_cut _ _ _ _ (Or.inr h2)]
        cases s
        cases hb : it.batch <;> cases hh : (stepOf cfg it).hook <;>
          simp_all [live, cutOff, dies, record, expectedReply, closes, escapes]
      · have h2 : (record s it (stepOf cfg it)).closed = false := by simpa [record, closes] using hcl
        have h3 : (record s it (stepOf cfg it)).alive = true := by simpa [record] using ha
        rw [h1, ih _ h3 h2]
        cases s
        cases hb : it.batch <;> cases hh : (stepOf cfg it).hook <;>
          simp_all [live, cutOff, dies, record, expectedReply, closes, escapes, Nat.add_assoc,
            Nat.add_comm 1]

/-- `live ++ cutOff` is the completion order itself -/
theorem live_append_cutOff (cfg : Cfg) (items : List Item) :
    live cfg items ++ cutOff cfg items = items := by
  induction items with
  | nil => rfl
  | cons it rest ih =>
    by_cases he : escapes cfg it = true
    · simp [live, cutOff, he]
    · by_cases hcl : closes cfg it = true
      · simp [live, cutOff, he, hcl]
      · simp [live, cutOff, he, hcl, ih]

/-- nothing closes or escapes: everything is served -/
theorem live_all (cfg : Cfg) (items : List Item)
    (h : ∀ it ∈ items, closes cfg it = false ∧ escapes cfg it = false) :
    live cfg items = items ∧ cutOff cfg items = [] ∧ dies cfg items = false := by
  induction items with
  | nil => simp [live, cutOff, dies]
  | cons it rest ih =>
    have h0 := h it (by simp)
    have := ih (fun x hx => h x (by simp [hx]))
    simp [live, cutOff, dies, h0.1, h0.2, this]

/-- a clean prefix, then a closing item: served up to and including it, the rest cut off -/
theorem live_through_close (cfg : Cfg) (pre : List Item) (d : Item) (rest : List Item)
    (hpre : ∀ it ∈ pre, closes cfg it = false ∧ escapes cfg it = false)
    (hd : closes cfg d = true) (hde : escapes cfg d = false) :
    live cfg (pre ++ d :: rest) = pre ++ [d] ∧ cutOff cfg (pre ++ d :: rest) = rest ∧
    dies cfg (pre ++ d :: rest) = false := by
  induction pre with
  | nil => simp [live, cutOff, dies, hd, hde]
  | cons it pre ih =>
    have h0 := hpre it (by simp)
    have := ih (fun x hx => hpre x (by simp [hx]))
    simp [live, cutOff, dies, h0.1, h0.2, this]

/-- a clean prefix: served, whatever follows -/
theorem live_prefix (cfg : Cfg) (pre : List Item) (post : List Item)
    (hpre : ∀ it ∈ pre, closes cfg it = false ∧ escapes cfg it = false) :
    live cfg (pre ++ post) = pre ++ live cfg post := by
  induction pre with
  | nil => rfl
  | cons it pre ih =>
    have h0 := hpre it (by simp)
    have := ih (fun x hx => hpre x (by simp [hx]))
    simp [live, h0.1, h0.2, this]

end Aiorpcx.C03
