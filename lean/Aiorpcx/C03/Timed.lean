import Aiorpcx.C03.Serve
/-!
# C03 — lemmas about the schedule (`arrive`, `completions`, `sortEv`)
-/
namespace Aiorpcx.C03

/-- id, kind and batch membership of an item: what no schedule changes -/
def shape (it : Item) : Nat × Kind × Bool := (it.id, it.kind, it.batch)

@[simp] theorem shape_overrun (it : Item) : shape (overrun it) = shape it := rfl

/-- how a completion relates to the arrival it came from: the handler's own outcome strictly
before the deadline, or an overrun exactly at the deadline -/
def Completes (tm : Timing) (ev : Nat × Item) (ti : TItem) : Prop :=
  (ev.2 = ti.item ∧ ev.1 < ti.arr + tm.deadline) ∨
  (ev.2 = overrun ti.item ∧ ev.1 = ti.arr + tm.deadline)

theorem arrive_completes (tm : Timing) (free : List Nat) (ti : TItem) :
    Completes tm (arrive tm free ti).2 ti := by
  unfold arrive Completes
  cases free with
  | nil => simp
  | cons f rest =>
    by_cases h1 : ti.arr + tm.deadline ≤ max f ti.arr
    · simp [h1]
    · by_cases h2 : ti.item.outcome = .excessiveCost
      · simp only [h1, h2, if_false, if_true]
        left
        exact ⟨trivial, by omega⟩
      · by_cases h3 : ti.item.outcome = .overruns ∨
            ti.arr + tm.deadline ≤ max f ti.arr + tm.throttle + ti.dur
        · simp [h1, h2, h3]
        · have h4 : ¬ ti.arr + tm.deadline ≤ max f ti.arr + tm.throttle + ti.dur :=
            fun h => h3 (Or.inr h)
          simp only [h1, h2, h3, if_false]
          left
          exact ⟨trivial, by omega⟩

theorem completions_length (tm : Timing) (tis : List TItem) :
    ∀ free, (completions tm free tis).length = tis.length := by
  induction tis with
  | nil => intro _; rfl
  | cons ti rest ih => intro free; simp [completions, ih]

/-- position by position, the completions come from the arrivals -/
theorem completions_pointwise (tm : Timing) (tis : List TItem) :
    ∀ free, ∀ p ∈ (completions tm free tis).zip tis, Completes tm p.1 p.2 := by
  induction tis with
  | nil => intro _ p hp; simp [completions] at hp
  | cons ti rest ih =>
    intro free p hp
    simp only [completions, List.zip_cons_cons, List.mem_cons] at hp
    rcases hp with rfl | hp
    · exact arrive_completes tm free ti
    · exact ih _ p hp

theorem completions_of_mem (tm : Timing) (tis : List TItem) :
    ∀ free, ∀ ev ∈ completions tm free tis, ∃ ti ∈ tis, Completes tm ev ti := by
  induction tis with
  | nil => intro _ ev h; simp [completions] at h
  | cons ti rest ih =>
    intro free ev h
    simp only [completions, List.mem_cons] at h
    rcases h with rfl | h
    · exact ⟨ti, by simp, arrive_completes tm free ti⟩
    · obtain ⟨t, ht, hc⟩ := ih _ ev h
      exact ⟨t, by simp [ht], hc⟩

theorem mem_completions (tm : Timing) (tis : List TItem) :
    ∀ free, ∀ ti ∈ tis, ∃ ev ∈ completions tm free tis, Completes tm ev ti := by
  induction tis with
  | nil => intro _ ti h; simp at h
  | cons t rest ih =>
    intro free ti h
    rcases List.mem_cons.mp h with rfl | h
    · exact ⟨_, by simp [completions], arrive_completes tm free _⟩
    · obtain ⟨ev, hev, hc⟩ := ih (arrive tm free t).1 ti h
      exact ⟨ev, by simp [completions, hev], hc⟩

theorem insertEv_perm (e : Nat × Item) (l : List (Nat × Item)) :
    (insertEv e l).Perm (e :: l) := by
  induction l with
  | nil => exact .refl _
  | cons x xs ih =>
    unfold insertEv
    by_cases h : e.1 ≤ x.1
    · simp [h]
    · simp only [h, if_false]
      exact (List.Perm.cons x ih).trans (List.Perm.swap e x xs)

theorem sortEv_perm (l : List (Nat × Item)) : (sortEv l).Perm l := by
  induction l with
  | nil => exact .refl _
  | cons e es ih =>
    exact (insertEv_perm e (sortEv es)).trans (List.Perm.cons e ih)

theorem insertEv_sorted (e : Nat × Item) (l : List (Nat × Item))
    (h : l.Pairwise fun a b => a.1 ≤ b.1) : (insertEv e l).Pairwise fun a b => a.1 ≤ b.1 := by
  induction l with
  | nil => simp [insertEv]
  | cons x xs ih =>
    unfold insertEv
    have hx := List.pairwise_cons.mp h
    by_cases hle : e.1 ≤ x.1
    · simp only [hle, if_true]
      refine List.pairwise_cons.mpr ⟨?_, h⟩
      intro y hy
      rcases List.mem_cons.mp hy with rfl | hy
      · exact hle
      · exact Nat.le_trans hle (hx.1 y hy)
    · simp only [hle, if_false]
      refine List.pairwise_cons.mpr ⟨?_, ih hx.2⟩
      intro y hy
      have := (insertEv_perm e xs).mem_iff.mp hy
      rcases List.mem_cons.mp this with rfl | hy
      · omega
      · exact hx.1 y hy

theorem sortEv_sorted (l : List (Nat × Item)) : (sortEv l).Pairwise fun a b => a.1 ≤ b.1 := by
  induction l with
  | nil => simp [sortEv]
  | cons e es ih => exact insertEv_sorted e _ ih

/-- the completions, in arrival order, have the shapes of the arrivals -/
theorem completions_shape (tm : Timing) (tis : List TItem) :
    ∀ free, (completions tm free tis).map (fun ev => shape ev.2) = tis.map fun ti => shape ti.item := by
  induction tis with
  | nil => intro _; rfl
  | cons ti rest ih =>
    intro free
    simp only [completions, List.map_cons, ih]
    rcases arrive_completes tm free ti with h | h <;> simp [h.1]

end Aiorpcx.C03
