import Aiorpcx.C14.Lemmas
import Aiorpcx.Facts.C14
/-!
# C14 — property theorems for the session cost accounting

Model: `Aiorpcx.C14.step` (Model.lean) mirrors `bump_cost` / `recalc_concurrency` /
`data_received` / `_send_message` / `_bump_errors` of `SessionBase` over exact rationals; the
environment (clock, `extra_cost()`) is part of the state and changed by its own operations.
Everything is quantified over **all** configurations and **all** histories (`List Op`), no bound.
Floats: IEEE operations are monotone, so the monotonicity statements transfer; equalities are
claimed for the rational model only (DESIGN §3); the correspondence treats the discontinuities
(`ceil`, the strict drift test) as ties.
-/
namespace Aiorpcx.C14

/-! ## one evaluation -/

/-- **Decay on evaluation**: `recalc_concurrency` subtracts `(now − last evaluation)·rate`, clamps
at 0, and remembers when and at which cost it evaluated. -/
theorem decay_on_eval (c : Cfg) (s : St) :
    (recalc c s).cost = max 0 (s.cost - (s.now - s.time) * c.decay) ∧
    (recalc c s).time = s.now ∧ (recalc c s).last = (recalc c s).cost ∧
    (recalc c s).now = s.now ∧ (recalc c s).extra = s.extra := by
  unfold recalc
  by_cases h : c.hard - c.soft ≤ 0 <;> simp [h]

/-- **Target formula**: with `hard > soft` an evaluation sets the fraction to
`max 0 ((cost + extra − soft)/(hard − soft))` and the limit to `max 0 ⌈(1 − fraction)·initial⌉`. -/
theorem target_formula (c : Cfg) (s : St) (h : 0 < c.hard - c.soft) :
    (recalc c s).fraction = fractionOf c ((recalc c s).cost + s.extra) ∧
    (recalc c s).target = targetOf c ((recalc c s).cost + s.extra) := by
  have h' : ¬ c.hard - c.soft ≤ 0 := by grind
  unfold recalc targetOf
  simp [h']

theorem recalc_disabled (c : Cfg) (s : St) (h : c.hard - c.soft ≤ 0) :
    (recalc c s).fraction = s.fraction ∧ (recalc c s).target = s.target := by
  unfold recalc; simp [h]

/-! ## charging -/

/-- **Charges are exact**: every chunk received and every message sent is charged `n·bw`, every
failed request `base + its own cost`, through the same `bump_cost`; and `bump_cost(δ)` moves the
cost to `max 0 (cost + δ)` — further decayed only if that drift triggers a re-evaluation. -/
theorem charges_exact (c : Cfg) (s : St) :
    (∀ n, step c s (.dataReceived n) = bump c s ((n : Rat) * c.bw)) ∧
    (∀ n, step c s (.sent n) = bump c s ((n : Rat) * c.bw)) ∧
    (∀ e, step c s (.error e) = bump c s (c.base + e)) ∧
    (∀ δ, step c s (.bump δ) = bump c s δ) ∧
    (∀ δ, (¬ absQ (max 0 (s.cost + δ) - s.last) > c.threshold →
            bump c s δ = { s with cost := max 0 (s.cost + δ) }) ∧
          (absQ (max 0 (s.cost + δ) - s.last) > c.threshold →
            bump c s δ = recalc c { s with cost := max 0 (s.cost + δ) })) := by
  refine ⟨fun _ => rfl, fun _ => rfl, fun _ => rfl, fun _ => rfl, fun δ => ⟨?_, ?_⟩⟩
  · intro h; unfold bump; simp [h]
  · intro h; unfold bump; simp [h]

/-! ## invariants over all histories -/

structure Good (c : Cfg) (s : St) : Prop where
  cost_nonneg : 0 ≤ s.cost
  last_nonneg : 0 ≤ s.last
  drift : absQ (s.cost - s.last) ≤ c.threshold
  frac_nonneg : 0 ≤ s.fraction
  coherent : 0 < c.hard - c.soft → s.target = targetOfFraction c s.fraction
  disabled : c.hard - c.soft ≤ 0 → s.target = c.initial ∧ s.fraction = 0

theorem init_good (c : Cfg) (start : Rat) (ht : 0 ≤ c.threshold) (hi : 0 ≤ c.initial) :
    Good c (init c start) := by
  refine ⟨by simp [init], by simp [init], ?_, by simp [init], ?_, ?_⟩
  · simp only [init]; rw [show (0 : Rat) - 0 = 0 by grind, absQ_zero]; exact ht
  · intro _; simp only [init]; exact (targetOfFraction_zero c hi).symm
  · intro _; simp [init]

/-- what `recalc` needs from the state it starts in (the drift may be anything) -/
structure Pre (c : Cfg) (s : St) : Prop where
  frac_nonneg : 0 ≤ s.fraction
  coherent : 0 < c.hard - c.soft → s.target = targetOfFraction c s.fraction
  disabled : c.hard - c.soft ≤ 0 → s.target = c.initial ∧ s.fraction = 0

theorem Good.pre {c : Cfg} {s : St} (g : Good c s) : Pre c s := ⟨g.frac_nonneg, g.coherent, g.disabled⟩

theorem recalc_good (c : Cfg) (s : St) (ht : 0 ≤ c.threshold) (g : Pre c s) :
    Good c (recalc c s) := by
  obtain ⟨h1, h2, h3, _, _⟩ := decay_on_eval c s
  have hc : 0 ≤ (recalc c s).cost := by rw [h1]; grind
  refine ⟨hc, by rw [h3]; exact hc, ?_, ?_, ?_, ?_⟩
  · rw [h3, show (recalc c s).cost - (recalc c s).cost = 0 by grind, absQ_zero]; exact ht
  · by_cases h : c.hard - c.soft ≤ 0
    · rw [(recalc_disabled c s h).1]; exact g.frac_nonneg
    · rw [(target_formula c s (by grind)).1]; exact fractionOf_nonneg _ _
  · intro h
    have := target_formula c s h
    rw [this.2, this.1]; rfl
  · intro h
    have := recalc_disabled c s h
    rw [this.1, this.2]; exact g.disabled h

theorem bump_good (c : Cfg) (s : St) (δ : Rat) (ht : 0 ≤ c.threshold) (g : Good c s) :
    Good c (bump c s δ) := by
  have g1 : 0 ≤ max 0 (s.cost + δ) := by grind
  by_cases h : absQ (max 0 (s.cost + δ) - s.last) > c.threshold
  · rw [((charges_exact c s).2.2.2.2 δ).2 h]
    exact recalc_good c _ ht ⟨g.frac_nonneg, g.coherent, g.disabled⟩
  · rw [((charges_exact c s).2.2.2.2 δ).1 h]
    exact ⟨g1, g.last_nonneg, by grind, g.frac_nonneg, g.coherent, g.disabled⟩

theorem step_good (c : Cfg) (s : St) (op : Op) (ht : 0 ≤ c.threshold) (g : Good c s) :
    Good c (step c s op) := by
  cases op with
  | bump δ => exact bump_good c s δ ht g
  | recalc => exact recalc_good c s ht g.pre
  | dataReceived n => exact bump_good c s _ ht g
  | sent n => exact bump_good c s _ ht g
  | error e => exact bump_good c s _ ht g
  | advance dt => exact ⟨g.cost_nonneg, g.last_nonneg, g.drift, g.frac_nonneg, g.coherent, g.disabled⟩
  | setExtra e => exact ⟨g.cost_nonneg, g.last_nonneg, g.drift, g.frac_nonneg, g.coherent, g.disabled⟩

theorem run_good (c : Cfg) (ht : 0 ≤ c.threshold) (ops : List Op) :
    ∀ s, Good c s → Good c (run c s ops) := by
  induction ops with
  | nil => intro s g; exact g
  | cons op ops ih => intro s g; exact ih _ (step_good c s op ht g)

/-- a session as constructed by `SessionBase.__init__` (server: the class attributes; client: the
hard limit forced to 0), started at clock value `start`, after the history `ops` -/
def after (c : Cfg) (start : Rat) (ops : List Op) : St := run c (init c start) ops

/-- **The cost is never negative** — whatever the history: negative `bump_cost` deltas, clocks
running backwards, any configuration. -/
theorem cost_nonneg (c : Cfg) (start : Rat) (ops : List Op) : 0 ≤ (after c start ops).cost := by
  -- a direct induction: no side condition on the configuration at all
  suffices h : ∀ s, 0 ≤ s.cost → 0 ≤ (run c s ops).cost from h _ (by simp [init])
  induction ops with
  | nil => intro s h; exact h
  | cons op ops ih =>
    intro s h
    apply ih
    have hb : ∀ δ, 0 ≤ (bump c s δ).cost := by
      intro δ
      by_cases hd : absQ (max 0 (s.cost + δ) - s.last) > c.threshold
      · rw [((charges_exact c s).2.2.2.2 δ).2 hd, (decay_on_eval c _).1]; grind
      · rw [((charges_exact c s).2.2.2.2 δ).1 hd]; show 0 ≤ max 0 (s.cost + δ); grind
    cases op with
    | bump δ => exact hb δ
    | recalc => show 0 ≤ (recalc c s).cost; rw [(decay_on_eval c s).1]; grind
    | dataReceived n => exact hb _
    | sent n => exact hb _
    | error e => exact hb _
    | advance dt => exact h
    | setExtra e => exact h

/-- **The lazily evaluated cost never runs away**: between evaluations the current cost stays
within the drift threshold of the cost at the last evaluation. -/
theorem drift_bounded (c : Cfg) (start : Rat) (ops : List Op) (ht : 0 ≤ c.threshold)
    (hi : 0 ≤ c.initial) :
    absQ ((after c start ops).cost - (after c start ops).last) ≤ c.threshold :=
  (run_good c ht ops _ (init_good c start ht hi)).drift

/-! ## the throttle -/

/-- **Monotone throttle**: a larger evaluated cost never gives a larger limit, and never a smaller
delay fraction. -/
theorem target_monotone (c : Cfg) (hr : 0 < c.hard - c.soft) (hi : 0 ≤ c.initial) {e1 e2 : Rat}
    (h : e1 ≤ e2) :
    targetOf c e2 ≤ targetOf c e1 ∧ fractionOf c e1 ≤ fractionOf c e2 :=
  ⟨targetOfFraction_anti c hi (fractionOf_mono c hr h), fractionOf_mono c hr h⟩

/-- **End points**: at or below the soft limit the limit is the initial one and there is no delay;
at or beyond the hard limit the limit is 0; strictly between, the limit is in `(0, initial]` and
the fraction is exactly the linear interpolation `(ev − soft)/(hard − soft) ∈ (0,1)`. -/
theorem target_endpoints (c : Cfg) (hr : 0 < c.hard - c.soft) (hi : 1 ≤ c.initial) (e : Rat) :
    (e ≤ c.soft → targetOf c e = c.initial ∧ fractionOf c e = 0) ∧
    (c.hard ≤ e → targetOf c e = 0) ∧
    (c.soft < e → e < c.hard →
      0 < targetOf c e ∧ targetOf c e ≤ c.initial ∧
      fractionOf c e = (e - c.soft) / (c.hard - c.soft) ∧ 0 < fractionOf c e ∧ fractionOf c e < 1) := by
  have hi0 : 0 ≤ c.initial := by omega
  refine ⟨?_, ?_, ?_⟩
  · intro h
    have := fractionOf_below c hr h
    exact ⟨by unfold targetOf; rw [this]; exact targetOfFraction_zero c hi0, this⟩
  · intro h
    exact targetOfFraction_ge_one c hi0 (fractionOf_above c hr h)
  · intro h1 h2
    obtain ⟨a, b, d⟩ := fractionOf_between c hr h1 h2
    exact ⟨targetOfFraction_lt_one c hi d, targetOfFraction_le_initial c hi0 (Rat.le_of_lt b), a, b, d⟩

/-- **Delay is proportional and bounded**, for every history: the limit and the fraction are
always those of the same evaluation (`coherent`), so a request that is admitted (limit > 0 at the
moment `_retarget_semaphore` tests it; no suspension point before `_cost_fraction` is read) sleeps
`fraction·cost_sleep` with `0 ≤ fraction < 1`: strictly less than the configured maximum. -/
theorem delay_proportional (c : Cfg) (start : Rat) (ops : List Op) (ht : 0 ≤ c.threshold)
    (hi : 0 ≤ c.initial) (hs : 0 < c.sleepMax) (hr : 0 < c.hard - c.soft)
    (hadm : 0 < (after c start ops).target) :
    ∃ d, admission c (after c start ops) = .run d ∧ 0 ≤ d ∧ d < c.sleepMax ∧
      d = (after c start ops).fraction * c.sleepMax := by
  have g : Good c (after c start ops) := run_good c ht ops _ (init_good c start ht hi)
  have hlt : (after c start ops).fraction < 1 := by
    apply fraction_lt_one_of_target_pos c hi
    rw [← g.coherent hr]; exact hadm
  have h0 := g.frac_nonneg
  have hnot : ¬ (after c start ops).target ≤ 0 := by omega
  refine ⟨(after c start ops).fraction * c.sleepMax, ?_, ?_, ?_, rfl⟩
  · unfold admission
    simp only [hnot, ↓reduceIte]
    by_cases hz : (after c start ops).fraction = 0
    · simp [hz, Rat.zero_mul]
    · simp [hz]
  · exact Rat.mul_nonneg h0 (Rat.le_of_lt hs)
  · have := Rat.mul_lt_mul_of_pos_right hlt hs
    rw [Rat.one_mul] at this
    exact this

/-- **Refused past the hard limit**: an evaluation that finds `cost + extra ≥ hard` sets the limit
to 0, so the next request that obtains the permit takes the refusal branch (hook, −101, close:
`facts_refusal_branch`), and charging operations that do not re-evaluate leave it so. -/
theorem refused_past_hard (c : Cfg) (s : St) (hr : 0 < c.hard - c.soft) (hi : 0 ≤ c.initial)
    (h : c.hard ≤ (recalc c s).cost + s.extra) :
    (recalc c s).target = 0 ∧ admission c (recalc c s) = .refused ∧
    (∀ δ, ¬ absQ (max 0 ((recalc c s).cost + δ) - (recalc c s).last) > c.threshold →
       admission c (bump c (recalc c s) δ) = .refused) := by
  have ht : (recalc c s).target = 0 := by
    rw [(target_formula c s hr).2]
    exact targetOfFraction_ge_one c hi (fractionOf_above c hr h)
  refine ⟨ht, by unfold admission; simp [ht], ?_⟩
  intro δ hno
  rw [((charges_exact c (recalc c s)).2.2.2.2 δ).1 hno]
  unfold admission; simp [ht]

/-- **`hard ≤ soft` disables limiting**: for every history the limit stays the initial one, the
fraction stays 0, and every admitted request runs without delay. -/
theorem hard_le_soft_disables (c : Cfg) (start : Rat) (ops : List Op) (ht : 0 ≤ c.threshold)
    (hi : 1 ≤ c.initial) (h : c.hard ≤ c.soft) :
    (after c start ops).target = c.initial ∧ (after c start ops).fraction = 0 ∧
    admission c (after c start ops) = .run 0 := by
  have g : Good c (after c start ops) := run_good c ht ops _ (init_good c start ht (by omega))
  have hd := g.disabled (by grind)
  refine ⟨hd.1, hd.2, ?_⟩
  unfold admission
  have : ¬ (after c start ops).target ≤ 0 := by rw [hd.1]; omega
  simp only [this, ↓reduceIte, hd.2]

/-- **A client session is never throttled or refused** (`cost_hard_limit = 0` on clients), for
every history — provided the soft limit is not negative (a negative soft limit on a client would
make `hard − soft` positive; the shipped value is 2000). -/
theorem client_never_throttled (c : Cfg) (start : Rat) (ops : List Op) (ht : 0 ≤ c.threshold)
    (hi : 1 ≤ c.initial) (hs : 0 ≤ c.soft) :
    (after c.client start ops).target = c.initial ∧ (after c.client start ops).fraction = 0 ∧
    admission c.client (after c.client start ops) = .run 0 :=
  hard_le_soft_disables c.client start ops ht hi (by show (0 : Rat) ≤ c.soft; exact hs)

/-! ## tie to the source (facts regenerated from /repo on every run) -/

/-- the shipped configuration as a `Cfg` -/
def shipped : Cfg :=
  ⟨Facts.C14.bwCostPerByte, Facts.C14.costSoftLimit, Facts.C14.costHardLimit,
   Facts.C14.costDecayPerSec, Facts.C14.costSleep, Facts.C14.errorBaseCost,
   Facts.C14.driftThreshold, Facts.C14.initialConcurrent⟩

/-- the shipped class attributes satisfy the side conditions of the theorems above: limiting is
enabled on servers (`hard > soft ≥ 0`), threshold and rates are non-negative, `initial ≥ 1`,
`cost_sleep > 0` -/
theorem facts_config :
    0 < shipped.hard - shipped.soft ∧ 0 ≤ shipped.soft ∧ 0 ≤ shipped.threshold ∧
    1 ≤ shipped.initial ∧ 0 < shipped.sleepMax ∧ 0 ≤ shipped.bw ∧ 0 ≤ shipped.decay ∧
    0 ≤ shipped.base ∧ shipped.client.hard - shipped.client.soft ≤ 0 := by
  decide +kernel

/-- `bump_cost` and `recalc_concurrency` compute what the model computes (per-path symbolic
normal forms of the methods; `a0` is the argument) -/
theorem facts_bump :
    Facts.C14.bumpPaths =
      ["when abs(max(0, a0 + cost) - _cost_last) Gt 100: cost := max(0, a0 + cost); do recalc_concurrency()",
      "when abs(max(0, a0 + cost) - _cost_last) LtE 100: cost := max(0, a0 + cost)"] := rfl
theorem facts_recalc :
    Facts.C14.recalcPaths =
      ["when cost_hard_limit - cost_soft_limit Gt 0: _cost_fraction := max(0.0, (max(0, cost - cost_decay_per_sec * (time.time() - _cost_time)) + extra_cost() - cost_soft_limit) / (cost_hard_limit - cost_soft_limit)); _cost_last := max(0, cost - cost_decay_per_sec * (time.time() - _cost_time)); _cost_time := time.time(); cost := max(0, cost - cost_decay_per_sec * (time.time() - _cost_time)); do _incoming_concurrency.set_target(max(0, ceil((1.0 - max(0.0, (max(0, cost - cost_decay_per_sec * (time.time() - _cost_time)) + extra_cost() - cost_soft_limit) / (cost_hard_limit - cost_soft_limit))) * initial_concurrent)))",
      "when cost_hard_limit - cost_soft_limit LtE 0: _cost_last := max(0, cost - cost_decay_per_sec * (time.time() - _cost_time)); _cost_time := time.time(); cost := max(0, cost - cost_decay_per_sec * (time.time() - _cost_time)); return "] := rfl
/-- the charging sites pass exactly the model's charges to `bump_cost`; the client override -/
theorem facts_charges :
    Facts.C14.dataReceivedPaths = ["when always: recv_size := len(a0) + recv_size; do bump_cost(len(a0) * bw_cost_per_byte)"] ∧
    Facts.C14.bumpErrorsPaths = ["when always: errors := 1 + errors; do bump_cost(getattr(a0, 'cost', 0.0) + error_base_cost)"] ∧
    Facts.C14.chargeSendMessage = ["len(message) * bw_cost_per_byte"] ∧
    Facts.C14.clientOverride = "if SessionKind.CLIENT Eq session_kind: cost_hard_limit = 0" ∧
    Facts.C14.extraCostDefault = ["return 0.0"] ∧
    Facts.C14.parseErrorCost = "e.cost = error_base_cost * 10" :=
  ⟨rfl, rfl, rfl, rfl, rfl, rfl⟩
/-- the refusal branch: hook, reply −101, disconnect; the sleep before the handler -/
theorem facts_refusal_branch :
    Facts.C14.refusalBranchRequest =
      ["call on_disconnect_due_to_excessive_session_cost",
       "result RPCError(JSONRPC.EXCESSIVE_RESOURCE_USAGE, 'excessive resource usage')",
       "set flag guarding close()"] ∧
    Facts.C14.refusalBranchMessage =
      ["call on_disconnect_due_to_excessive_session_cost", "call close"] ∧
    Facts.C14.excessiveResourceUsage = -101 ∧
    Facts.C14.sleepGuard = ["if _cost_fraction: sleep(_cost_fraction * cost_sleep)",
                            "if _cost_fraction: sleep(_cost_fraction * cost_sleep)"] :=
  ⟨rfl, rfl, rfl, rfl⟩

/-! ## non-vacuity -/

def demo : Cfg := ⟨1/1024, 200, 600, 1/2, 2, 100, 100, 4⟩

-- a history that throttles, decays and is finally refused
example : (after demo 0 [.error 150, .recalc]).target = 4 := by decide +kernel
example : (after demo 0 [.error 150, .error 150]).target = 1 ∧
          (after demo 0 [.error 150, .error 150]).fraction = 3/4 ∧
          (after demo 0 [.error 150, .error 150]).cost = 500 := by decide +kernel
example : admission demo (after demo 0 [.error 150, .error 150]) = .run (3/2) := by decide +kernel
example : admission demo (after demo 0 [.error 150, .error 150, .error 1]) = .refused := by
  decide +kernel
example : (after demo 0 [.error 150, .error 150, .advance 400, .recalc]).cost = 300 := by
  decide +kernel
example : (after demo 0 [.bump 50, .bump (-80)]).cost = 0 := by decide +kernel
-- hypotheses of `delay_proportional` / `refused_past_hard` are satisfiable
example : 0 < demo.hard - demo.soft ∧ 0 < (after demo 0 [.error 150, .error 150]).target := by
  decide +kernel
example : demo.hard ≤ (recalc demo (after demo 0 [.bump 700])).cost + (after demo 0 [.bump 700]).extra := by
  decide +kernel
-- a client with the same history is untouched
example : (after demo.client 0 [.error 150, .error 150, .error 1]).target = 4 := by decide +kernel

end Aiorpcx.C14
