import Aiorpcx.C14.Lemmas
import Aiorpcx.C13.Table
import Aiorpcx.Facts.C14
/-!
# C14 — property theorems for the session cost accounting

Model: `Aiorpcx.C14.step` (Model.lean) mirrors `bump_cost` / `recalc_concurrency` /
`data_received` / `_send_message` / `_bump_errors` of `SessionBase` over exact rationals; the
environment (clock, `extra_cost()`) is part of the state and changed by its own operations.
Everything is quantified over **all** configurations and **all** histories (`List Op`), no bound.
Floats: IEEE operations are monotone, so the monotonicity statements transfer; equalities are
claimed for the rational model only (DESIGN §3); the correspondence treats the discontinuities
(`ceil`, the strict drift test) as ties.
-/
namespace Aiorpcx.C14

/-! ## one evaluation -/

/-- **Decay on evaluation**: `recalc_concurrency` subtracts `(now − last evaluation)·rate`, clamps
at 0, and remembers when and at which cost it evaluated. -/
theorem decay_on_eval (c : Cfg) (s : St) :
    (recalc c s).cost = max 0 (s.cost - (s.now - s.time) * c.decay) ∧
    (recalc c s).time = s.now ∧ (recalc c s).last = (recalc c s).cost ∧
    (recalc c s).now = s.now ∧ (recalc c s).extra = s.extra := by
  unfold recalc
  by_cases h : c.hard - c.soft ≤ 0 <;> simp [h]

/-- **Target formula**: with `hard > soft` an evaluation sets the fraction to
`max 0 ((cost + extra − soft)/(hard − soft))` and the limit to `max 0 ⌈(1 − fraction)·initial⌉`. -/
theorem target_formula (c : Cfg) (s : St) (h : 0 < c.hard - c.soft) :
    (recalc c s).fraction = fractionOf c ((recalc c s).cost + s.extra) ∧
    (recalc c s).target = targetOf c ((recalc c s).cost + s.extra) := by
  have h' : ¬ c.hard - c.soft ≤ 0 := by grind
  unfold recalc targetOf
  simp [h']

theorem recalc_disabled (c : Cfg) (s : St) (h : c.hard - c.soft ≤ 0) :
    (recalc c s).fraction = s.fraction ∧ (recalc c s).target = s.target := by
  unfold recalc; simp [h]

/-! ## charging -/

/-- **Charges are exact** (definitional for the model: the content is that the *code* charges
what `step` charges, which is `facts_charge_table` — one event on a live session of either class
costs exactly `charge`): every chunk received and every message sent is charged `n·bw`, every
failed request `base + its own cost`, through the same `bump_cost`; and `bump_cost(δ)` moves the
cost to `max 0 (cost + δ)` — further decayed only if that drift triggers a re-evaluation. -/
theorem charges_exact (c : Cfg) (s : St) :
    (∀ n, step c s (.dataReceived n) = bump c s ((n : Rat) * c.bw)) ∧
    (∀ n, step c s (.sent n) = bump c s ((n : Rat) * c.bw)) ∧
    (∀ e, step c s (.error e) = bump c s (c.base + e)) ∧
    (∀ δ, step c s (.bump δ) = bump c s δ) ∧
    (∀ δ, (¬ absQ (max 0 (s.cost + δ) - s.last) > c.threshold →
            bump c s δ = { s with cost := max 0 (s.cost + δ) }) ∧
          (absQ (max 0 (s.cost + δ) - s.last) > c.threshold →
            bump c s δ = recalc c { s with cost := max 0 (s.cost + δ) })) := by
  refine ⟨fun _ => rfl, fun _ => rfl, fun _ => rfl, fun _ => rfl, fun δ => ⟨?_, ?_⟩⟩
  · intro h; unfold bump; simp [h]
  · intro h; unfold bump; simp [h]

/-! ## invariants over all histories -/

structure Good (c : Cfg) (s : St) : Prop where
  cost_nonneg : 0 ≤ s.cost
  last_nonneg : 0 ≤ s.last
  drift : absQ (s.cost - s.last) ≤ c.threshold
  frac_nonneg : 0 ≤ s.fraction
  coherent : 0 < c.hard - c.soft → s.target = targetOfFraction c s.fraction
  disabled : c.hard - c.soft ≤ 0 → s.target = c.initial ∧ s.fraction = 0

theorem init_good (c : Cfg) (start : Rat) (ht : 0 ≤ c.threshold) (hi : 0 ≤ c.initial) :
    Good c (init c start) := by
  refine ⟨by simp [init], by simp [init], ?_, by simp [init], ?_, ?_⟩
  · simp only [init]; rw [show (0 : Rat) - 0 = 0 by grind, absQ_zero]; exact ht
  · intro _; simp only [init]; exact (targetOfFraction_zero c hi).symm
  · intro _; simp [init]

/-- what `recalc` needs from the state it starts in (the drift may be anything) -/
structure Pre (c : Cfg) (s : St) : Prop where
  frac_nonneg : 0 ≤ s.fraction
  coherent : 0 < c.hard - c.soft → s.target = targetOfFraction c s.fraction
  disabled : c.hard - c.soft ≤ 0 → s.target = c.initial ∧ s.fraction = 0

theorem Good.pre {c : Cfg} {s : St} (g : Good c s) : Pre c s := ⟨g.frac_nonneg, g.coherent, g.disabled⟩

theorem recalc_good (c : Cfg) (s : St) (ht : 0 ≤ c.threshold) (g : Pre c s) :
    Good c (recalc c s) := by
  obtain ⟨h1, h2, h3, _, _⟩ := decay_on_eval c s
  have hc : 0 ≤ (recalc c s).cost := by rw [h1]; grind
  refine ⟨hc, by rw [h3]; exact hc, ?_, ?_, ?_, ?_⟩
  · rw [h3, show (recalc c s).cost - (recalc c s).cost = 0 by grind, absQ_zero]; exact ht
  · by_cases h : c.hard - c.soft ≤ 0
    · rw [(recalc_disabled c s h).1]; exact g.frac_nonneg
    · rw [(target_formula c s (by grind)).1]; exact fractionOf_nonneg _ _
  · intro h
    have := target_formula c s h
    rw [this.2, this.1]; rfl
  · intro h
    have := recalc_disabled c s h
    rw [this.1, this.2]; exact g.disabled h

theorem bump_good (c : Cfg) (s : St) (δ : Rat) (ht : 0 ≤ c.threshold) (g : Good c s) :
    Good c (bump c s δ) := by
  have g1 : 0 ≤ max 0 (s.cost + δ) := by grind
  by_cases h : absQ (max 0 (s.cost + δ) - s.last) > c.threshold
  · rw [((charges_exact c s).2.2.2.2 δ).2 h]
    exact recalc_good c _ ht ⟨g.frac_nonneg, g.coherent, g.disabled⟩
  · rw [((charges_exact c s).2.2.2.2 δ).1 h]
    exact ⟨g1, g.last_nonneg, by grind, g.frac_nonneg, g.coherent, g.disabled⟩

theorem step_good (c : Cfg) (s : St) (op : Op) (ht : 0 ≤ c.threshold) (g : Good c s) :
    Good c (step c s op) := by
  cases op with
  | bump δ => exact bump_good c s δ ht g
  | recalc => exact recalc_good c s ht g.pre
  | dataReceived n => exact bump_good c s _ ht g
  | sent n => exact bump_good c s _ ht g
  | error e => exact bump_good c s _ ht g
  | advance dt => exact ⟨g.cost_nonneg, g.last_nonneg, g.drift, g.frac_nonneg, g.coherent, g.disabled⟩
  | setExtra e => exact ⟨g.cost_nonneg, g.last_nonneg, g.drift, g.frac_nonneg, g.coherent, g.disabled⟩

theorem run_good (c : Cfg) (ht : 0 ≤ c.threshold) (ops : List Op) :
    ∀ s, Good c s → Good c (run c s ops) := by
  induction ops with
  | nil => intro s g; exact g
  | cons op ops ih => intro s g; exact ih _ (step_good c s op ht g)

/-- a session as constructed by `SessionBase.__init__` (server: the class attributes; client: the
hard limit forced to 0), started at clock value `start`, after the history `ops` -/
def after (c : Cfg) (start : Rat) (ops : List Op) : St := run c (init c start) ops

/-- **The cost is never negative** — whatever the history: negative `bump_cost` deltas, clocks
running backwards, any configuration. -/
theorem cost_nonneg (c : Cfg) (start : Rat) (ops : List Op) : 0 ≤ (after c start ops).cost := by
  -- a direct induction: no side condition on the configuration at all
  suffices h : ∀ s, 0 ≤ s.cost → 0 ≤ (run c s ops).cost from h _ (by simp [init])
  induction ops with
  | nil => intro s h; exact h
  | cons op ops ih =>
    intro s h
    apply ih
    have hb : ∀ δ, 0 ≤ (bump c s δ).cost := by
      intro δ
      by_cases hd : absQ (max 0 (s.cost + δ) - s.last) > c.threshold
      · rw [((charges_exact c s).2.2.2.2 δ).2 hd, (decay_on_eval c _).1]; grind
      · rw [((charges_exact c s).2.2.2.2 δ).1 hd]; show 0 ≤ max 0 (s.cost + δ); grind
    cases op with
    | bump δ => exact hb δ
    | recalc => show 0 ≤ (recalc c s).cost; rw [(decay_on_eval c s).1]; grind
    | dataReceived n => exact hb _
    | sent n => exact hb _
    | error e => exact hb _
    | advance dt => exact h
    | setExtra e => exact h

/-- **The lazily evaluated cost never runs away**: between evaluations the current cost stays
within the drift threshold of the cost at the last evaluation. -/
theorem drift_bounded (c : Cfg) (start : Rat) (ops : List Op) (ht : 0 ≤ c.threshold)
    (hi : 0 ≤ c.initial) :
    absQ ((after c start ops).cost - (after c start ops).last) ≤ c.threshold :=
  (run_good c ht ops _ (init_good c start ht hi)).drift

/-! ## the throttle -/

/-- **Monotone throttle**: a larger evaluated cost never gives a larger limit, and never a smaller
delay fraction. -/
theorem target_monotone (c : Cfg) (hr : 0 < c.hard - c.soft) (hi : 0 ≤ c.initial) {e1 e2 : Rat}
    (h : e1 ≤ e2) :
    targetOf c e2 ≤ targetOf c e1 ∧ fractionOf c e1 ≤ fractionOf c e2 :=
  ⟨targetOfFraction_anti c hi (fractionOf_mono c hr h), fractionOf_mono c hr h⟩

/-- **End points**: at or below the soft limit the limit is the initial one and there is no delay;
at or beyond the hard limit the limit is 0; strictly between, the limit is in `(0, initial]` and
the fraction is exactly the linear interpolation `(ev − soft)/(hard − soft) ∈ (0,1)`. -/
theorem target_endpoints (c : Cfg) (hr : 0 < c.hard - c.soft) (hi : 1 ≤ c.initial) (e : Rat) :
    (e ≤ c.soft → targetOf c e = c.initial ∧ fractionOf c e = 0) ∧
    (c.hard ≤ e → targetOf c e = 0) ∧
    (c.soft < e → e < c.hard →
      0 < targetOf c e ∧ targetOf c e ≤ c.initial ∧
      fractionOf c e = (e - c.soft) / (c.hard - c.soft) ∧ 0 < fractionOf c e ∧ fractionOf c e < 1) := by
  have hi0 : 0 ≤ c.initial := by omega
  refine ⟨?_, ?_, ?_⟩
  · intro h
    have := fractionOf_below c hr h
    exact ⟨by unfold targetOf; rw [this]; exact targetOfFraction_zero c hi0, this⟩
  · intro h
    exact targetOfFraction_ge_one c hi0 (fractionOf_above c hr h)
  · intro h1 h2
    obtain ⟨a, b, d⟩ := fractionOf_between c hr h1 h2
    exact ⟨targetOfFraction_lt_one c hi d, targetOfFraction_le_initial c hi0 (Rat.le_of_lt b), a, b, d⟩

/-- **Delay is proportional and bounded**, for every history: the limit and the fraction are
always those of the same evaluation (`coherent`), so a request that is admitted (limit > 0 at the
moment `_retarget_semaphore` tests it; no suspension point before `_cost_fraction` is read) sleeps
`fraction·cost_sleep` with `0 ≤ fraction < 1`: strictly less than the configured maximum. -/
theorem delay_proportional (c : Cfg) (start : Rat) (ops : List Op) (ht : 0 ≤ c.threshold)
    (hi : 0 ≤ c.initial) (hs : 0 < c.sleepMax) (hr : 0 < c.hard - c.soft)
    (hadm : 0 < (after c start ops).target) :
    ∃ d, admission c (after c start ops) = .run d ∧ 0 ≤ d ∧ d < c.sleepMax ∧
      d = (after c start ops).fraction * c.sleepMax := by
  have g : Good c (after c start ops) := run_good c ht ops _ (init_good c start ht hi)
  have hlt : (after c start ops).fraction < 1 := by
    apply fraction_lt_one_of_target_pos c hi
    rw [← g.coherent hr]; exact hadm
  have h0 := g.frac_nonneg
  have hnot : ¬ (after c start ops).target ≤ 0 := by omega
  refine ⟨(after c start ops).fraction * c.sleepMax, ?_, ?_, ?_, rfl⟩
  · unfold admission
    simp only [hnot, ↓reduceIte]
    by_cases hz : (after c start ops).fraction = 0
    · simp [hz, Rat.zero_mul]
    · simp [hz]
  · exact Rat.mul_nonneg h0 (Rat.le_of_lt hs)
  · have := Rat.mul_lt_mul_of_pos_right hlt hs
    rw [Rat.one_mul] at this
    exact this

/-- the history contains no evaluation: no explicit `recalc_concurrency()`, and no charge whose
drift passes the threshold (the clock and `extra_cost()` may change freely) -/
def noEval (c : Cfg) (s : St) : List Op → Prop
  | [] => True
  | .recalc :: _ => False
  | op :: ops =>
      (match charge c op with
       | some δ => ¬ drifts c s δ
       | none => True) ∧ noEval c (step c s op) ops

theorem step_noEval_frame (c : Cfg) (s : St) (op : Op) (ops : List Op) (h : noEval c s (op :: ops)) :
    (step c s op).target = s.target ∧ (step c s op).fraction = s.fraction ∧ noEval c (step c s op) ops := by
  have hb : ∀ δ, ¬ drifts c s δ → (bump c s δ).target = s.target ∧ (bump c s δ).fraction = s.fraction := by
    intro δ hd
    unfold drifts at hd
    rw [((charges_exact c s).2.2.2.2 δ).1 hd]; exact ⟨rfl, rfl⟩
  cases op with
  | recalc => exact absurd h (by simp [noEval])
  | bump δ => exact ⟨(hb δ h.1).1, (hb δ h.1).2, h.2⟩
  | dataReceived n => exact ⟨(hb _ h.1).1, (hb _ h.1).2, h.2⟩
  | sent n => exact ⟨(hb _ h.1).1, (hb _ h.1).2, h.2⟩
  | error e => exact ⟨(hb _ h.1).1, (hb _ h.1).2, h.2⟩
  | advance dt => exact ⟨rfl, rfl, h.2⟩
  | setExtra e => exact ⟨rfl, rfl, h.2⟩

theorem run_noEval_frame (c : Cfg) (ops : List Op) : ∀ (s : St), noEval c s ops →
    (run c s ops).target = s.target ∧ (run c s ops).fraction = s.fraction := by
  induction ops with
  | nil => intro s _; exact ⟨rfl, rfl⟩
  | cons op ops ih =>
    intro s h
    obtain ⟨h1, h2, h3⟩ := step_noEval_frame c s op ops h
    have := ih _ h3
    exact ⟨by rw [run, this.1, h1], by rw [run, this.2, h2]⟩

/-- **Refused past the hard limit**: an evaluation that finds `cost + extra ≥ hard` sets the limit
to 0, and it stays 0 over **every history without a further evaluation** (any traffic, errors,
bumps whose drift stays within the threshold, clock movements, `extra_cost` changes): every
request that obtains the permit from then on takes the refusal branch — hook, −101, close:
`facts_admit_table`; that it does obtain the permit and that no queued request is left behind is
`disconnect_reachable` (Compose.lean). -/
theorem refused_past_hard (c : Cfg) (s : St) (hr : 0 < c.hard - c.soft) (hi : 0 ≤ c.initial)
    (h : c.hard ≤ (recalc c s).cost + s.extra) :
    (recalc c s).target = 0 ∧ admission c (recalc c s) = .refused ∧
    (∀ ops, noEval c (recalc c s) ops →
       (run c (recalc c s) ops).target = 0 ∧ admission c (run c (recalc c s) ops) = .refused) := by
  have ht : (recalc c s).target = 0 := by
    rw [(target_formula c s hr).2]
    exact targetOfFraction_ge_one c hi (fractionOf_above c hr h)
  refine ⟨ht, by unfold admission; simp [ht], ?_⟩
  intro ops hno
  have := (run_noEval_frame c ops _ hno).1
  rw [ht] at this
  exact ⟨this, by unfold admission; simp [this]⟩

/-- **`hard ≤ soft` disables limiting**: for every history the limit stays the initial one, the
fraction stays 0, and every admitted request runs without delay. -/
theorem hard_le_soft_disables (c : Cfg) (start : Rat) (ops : List Op) (ht : 0 ≤ c.threshold)
    (hi : 1 ≤ c.initial) (h : c.hard ≤ c.soft) :
    (after c start ops).target = c.initial ∧ (after c start ops).fraction = 0 ∧
    admission c (after c start ops) = .run 0 := by
  have g : Good c (after c start ops) := run_good c ht ops _ (init_good c start ht (by omega))
  have hd := g.disabled (by grind)
  refine ⟨hd.1, hd.2, ?_⟩
  unfold admission
  have : ¬ (after c start ops).target ≤ 0 := by rw [hd.1]; omega
  simp only [this, ↓reduceIte, hd.2]

/-- **A client session is never throttled or refused** (`cost_hard_limit = 0` on clients), for
every history — provided the soft limit is not negative (a negative soft limit on a client would
make `hard − soft` positive; the shipped value is 2000). -/
theorem client_never_throttled (c : Cfg) (start : Rat) (ops : List Op) (ht : 0 ≤ c.threshold)
    (hi : 1 ≤ c.initial) (hs : 0 ≤ c.soft) :
    (after c.client start ops).target = c.initial ∧ (after c.client start ops).fraction = 0 ∧
    admission c.client (after c.client start ops) = .run 0 :=
  hard_le_soft_disables c.client start ops ht hi (by show (0 : Rat) ≤ c.soft; exact hs)

/-! ## tie to the source (facts regenerated from /repo on every run) -/

/-- the shipped configuration as a `Cfg` -/
def shipped : Cfg :=
  ⟨Facts.C14.bwCostPerByte, Facts.C14.costSoftLimit, Facts.C14.costHardLimit,
   Facts.C14.costDecayPerSec, Facts.C14.costSleep, Facts.C14.errorBaseCost,
   Facts.C14.driftThreshold, Facts.C14.initialConcurrent⟩

/-- the shipped class attributes satisfy the side conditions of the theorems above: limiting is
enabled on servers (`hard > soft ≥ 0`), threshold and rates are non-negative, `initial ≥ 1`,
`cost_sleep > 0` -/
theorem facts_config :
    0 < shipped.hard - shipped.soft ∧ 0 ≤ shipped.soft ∧ 0 ≤ shipped.threshold ∧
    1 ≤ shipped.initial ∧ 0 < shipped.sleepMax ∧ 0 ≤ shipped.bw ∧ 0 ≤ shipped.decay ∧
    0 ≤ shipped.base ∧ shipped.client.hard - shipped.client.soft ≤ 0 ∧
    Facts.C14.clientHardLimit = shipped.client.hard := by
  decide +kernel

/-! ### behavioural tables (tools/facts/c14.py RUNS the current tree; nothing below depends on
how the methods are written) -/

open Table in
/-- read a configuration: bw soft hard decay sleep base (numerator, denominator each), init,
threshold (numerator, denominator) -/
def cfgOf : List Int → Option (Cfg × List Int)
  | bwn :: bwd :: sn :: sd :: hn :: hd :: dn :: dd :: sln :: sld :: bn :: bd :: ini :: tn :: td :: rest =>
      some (⟨ratOf bwn bwd, ratOf sn sd, ratOf hn hd, ratOf dn dd, ratOf sln sld, ratOf bn bd,
             ratOf tn td, ini⟩, rest)
  | _ => none

open Table in
/-- read `n` operations (kind, numerator, denominator): 0 bump_cost, 1 recalc_concurrency,
2 data_received(n bytes), 3 clock advance, 4 extra_cost := -/
def takeAcctOps : Nat → List Int → Option (List Op × List Int)
  | 0, l => some ([], l)
  | n + 1, k :: a :: b :: l =>
      let op : Op :=
        if k = 0 then .bump (ratOf a b) else if k = 1 then .recalc
        else if k = 2 then .dataReceived a.toNat else if k = 3 then .advance (ratOf a b)
        else .setExtra (ratOf a b)
      (takeAcctOps n l).map (fun r => (op :: r.1, r.2))
  | _ + 1, _ => none

open Table in
/-- the model reproduces the observed `cost` and `max_concurrent` after every event -/
def checkAcct (c : Cfg) : St → List Op → List Int → Bool
  | _, [], [] => true
  | s, op :: ops, cn :: cd :: t :: obs =>
      let s' := step c s op
      decide (s'.cost = ratOf cn cd) && decide (s'.target = t) && checkAcct c s' ops obs
  | _, _, _ => false

def acctRowOk (row : List Int) : Bool :=
  match cfgOf row with
  | some (c0, cl :: k :: rest) =>
      let c := if cl = 1 then c0.client else c0
      match takeAcctOps k.toNat rest with
      | some (ops, obs) => checkAcct c (init c 0) ops obs
      | none => false
  | _ => false

/-- **`bump_cost`, `recalc_concurrency`, `data_received`, the client override: the model computes
what the code computes** — on every history the facts extractor ran on a bare `SessionBase`
(every pair of events over a 10-letter alphabet around soft / hard / the drift threshold, and
longer seeded histories on server, client and hard ≤ soft configurations), exactly (all inputs
dyadic, soft ranges powers of two: every float operation of the code is exact). -/
theorem facts_acct_table :
    Facts.C14.acctTable.all acctRowOk = true ∧ 100 ≤ Facts.C14.acctTable.length := by
  decide +kernel

theorem facts_drift : Facts.C14.driftStrict = true ∧ Facts.C14.driftThreshold = shipped.threshold :=
  ⟨by decide, rfl⟩

open Table in
/-- class (0 RPCSession / 1 MessageSession), kind (0 good request or message, 1 failing request,
2 crashing handler, 3 failing notification, 4 garbage line, 5 invalid request object, 7 bad
checksum, 8 handler result that cannot be JSON-encoded: set / bytes / too deeply nested), bw, base, bytes in, bytes out (unframed), own cost, cost delta, errors delta -/
def chargeRowOk (row : List Int) : Bool :=
  match row with
  | [_cls, kind, bwn, bwd, bn, bd, nin, nout, on, od, dn, dd, derr] =>
      let c : Cfg := ⟨ratOf bwn bwd, 0, 0, 0, 0, ratOf bn bd, 0, 0⟩
      let isErr := decide (kind ≠ 0)
      let want := (charge c (.dataReceived nin.toNat)).getD 0 + (charge c (.sent nout.toNat)).getD 0 +
        (if isErr then (charge c (.error (ratOf on od))).getD 0 else 0)
      decide (ratOf dn dd = want) && decide (derr = if isErr then 1 else 0)
  | _ => false

/-- **Every message received or sent is charged at the per-byte rate, every failed request or
notification and every protocol violation the base error cost plus its own cost, and counted as
one error** — observed on live sessions of both classes (request + reply, failing request,
crashing handler, failing notification, garbage line, invalid request, bad checksum, a handler
result that cannot be encoded as JSON). -/
theorem facts_charge_table :
    Facts.C14.chargeTable.all chargeRowOk = true ∧ 36 ≤ Facts.C14.chargeTable.length := by
  decide +kernel

open Table in
/-- class, cfg, fraction of the soft range, refused?, started?, delay, hook calls, closing?,
reply code -/
def admitRowOk (row : List Int) : Bool :=
  match row with
  | cls :: rest =>
    match cfgOf rest with
    | some (c, [fn, fd, refused, started, dn, dd, hooks, closing, rcode]) =>
        let s := run c (init c 0) [.bump (c.soft + ratOf fn fd * (c.hard - c.soft)), .recalc]
        match admission c s with
        | .refused =>
            decide (refused = 1) && decide (started = 0) && decide (hooks = 1) && decide (closing = 1) &&
              decide (cls = 0 → rcode = Facts.C14.excessiveResourceUsage)
        | .run d =>
            decide (refused = 0) && decide (started = 1) && decide (ratOf dn dd = d) &&
              decide (hooks = 0) && decide (closing = 0)
    | _ => false
  | _ => false

/-- **Admission decision of both session classes** (`_throttled_request`, `_throttled_message`):
a request fed after an evaluation at fraction f of the soft range starts after exactly
`f · cost_sleep` virtual seconds when f < 1, and is refused when f ≥ 1 — handler not run,
disconnect hook called once, session closing, reply −101 on an RPC session. -/
theorem facts_admit_table :
    Facts.C14.admitTable.all admitRowOk = true ∧ 20 ≤ Facts.C14.admitTable.length ∧
    Facts.C14.excessiveResourceUsage = -101 := by
  decide +kernel

/-! ## non-vacuity -/

def demo : Cfg := ⟨1/1024, 200, 600, 1/2, 2, 100, 100, 4⟩

-- a history that throttles, decays and is finally refused
example : (after demo 0 [.error 150, .recalc]).target = 4 := by decide +kernel
example : (after demo 0 [.error 150, .error 150]).target = 1 ∧
          (after demo 0 [.error 150, .error 150]).fraction = 3/4 ∧
          (after demo 0 [.error 150, .error 150]).cost = 500 := by decide +kernel
example : admission demo (after demo 0 [.error 150, .error 150]) = .run (3/2) := by decide +kernel
example : admission demo (after demo 0 [.error 150, .error 150, .error 1]) = .refused := by
  decide +kernel
example : (after demo 0 [.error 150, .error 150, .advance 400, .recalc]).cost = 300 := by
  decide +kernel
example : (after demo 0 [.bump 50, .bump (-80)]).cost = 0 := by decide +kernel
-- `noEval` histories exist after a refusal-grade evaluation (traffic, a small bump, the clock)
example : noEval demo (recalc demo (after demo 0 [.bump 700]))
    [.dataReceived 1024, .bump 50, .advance 10, .setExtra 5, .error (-80)] := by
  simp only [noEval, charge, drifts, step]
  decide +kernel
-- hypotheses of `delay_proportional` / `refused_past_hard` are satisfiable
example : 0 < demo.hard - demo.soft ∧ 0 < (after demo 0 [.error 150, .error 150]).target := by
  decide +kernel
example : demo.hard ≤ (recalc demo (after demo 0 [.bump 700])).cost + (after demo 0 [.bump 700]).extra := by
  decide +kernel
-- a client with the same history is untouched
example : (after demo.client 0 [.error 150, .error 150, .error 1]).target = 4 := by decide +kernel

end Aiorpcx.C14
