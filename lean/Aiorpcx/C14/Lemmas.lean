import Aiorpcx.C14.Model
/-! C14 — arithmetic lemmas over exact rationals (core `Rat`, no Mathlib needed). -/
namespace Aiorpcx.C14

theorem absQ_nonneg (x : Rat) : 0 ≤ absQ x := by unfold absQ; grind
theorem absQ_le {x t : Rat} : absQ x ≤ t ↔ x ≤ t ∧ -x ≤ t := by unfold absQ; grind
theorem absQ_zero : absQ 0 = 0 := by unfold absQ; grind

theorem div_le_div_right {a b c : Rat} (h : a ≤ b) (hc : 0 < c) : a / c ≤ b / c := by
  rw [Rat.div_def, Rat.div_def]
  exact Rat.mul_le_mul_of_nonneg_right h (Rat.le_of_lt (Rat.inv_pos.2 hc))

theorem div_nonneg {a c : Rat} (h : 0 ≤ a) (hc : 0 < c) : 0 ≤ a / c := by
  rw [Rat.div_def]
  exact Rat.mul_nonneg h (Rat.le_of_lt (Rat.inv_pos.2 hc))

theorem div_nonpos {a c : Rat} (h : a ≤ 0) (hc : 0 < c) : a / c ≤ 0 := by
  have := div_le_div_right h hc
  rw [Rat.div_def 0 c, Rat.zero_mul] at this
  exact this

theorem div_pos {a c : Rat} (h : 0 < a) (hc : 0 < c) : 0 < a / c := by
  rw [Rat.div_def]
  exact Rat.mul_pos h (Rat.inv_pos.2 hc)

theorem one_le_div {a c : Rat} (h : c ≤ a) (hc : 0 < c) : 1 ≤ a / c := by
  have := div_le_div_right h hc
  have h1 : c / c = 1 := by
    rw [Rat.div_def]; exact Rat.mul_inv_cancel c (by grind)
  rw [h1] at this
  exact this

theorem div_lt_one {a c : Rat} (h : a < c) (hc : 0 < c) : a / c < 1 := by
  rw [Rat.div_lt_iff hc]; grind

theorem ceil_mono {a b : Rat} (h : a ≤ b) : a.ceil ≤ b.ceil := by
  rw [Rat.ceil_le_iff]
  exact Rat.le_trans h Rat.le_ceil

theorem ceil_nonpos {a : Rat} (h : a ≤ 0) : a.ceil ≤ 0 := by
  rw [Rat.ceil_le_iff]; exact_mod_cast h

theorem ceil_pos {a : Rat} (h : 0 < a) : 0 < a.ceil := by
  rw [Rat.lt_ceil_iff]; exact_mod_cast h

/-- the throttle fraction is monotone in the evaluated cost -/
theorem fractionOf_mono (c : Cfg) (hr : 0 < c.hard - c.soft) {e1 e2 : Rat} (h : e1 ≤ e2) :
    fractionOf c e1 ≤ fractionOf c e2 := by
  unfold fractionOf
  have := div_le_div_right (show e1 - c.soft ≤ e2 - c.soft by grind) hr
  grind

theorem fractionOf_nonneg (c : Cfg) (e : Rat) : 0 ≤ fractionOf c e := by
  unfold fractionOf; grind

theorem fractionOf_below (c : Cfg) (hr : 0 < c.hard - c.soft) {e : Rat} (h : e ≤ c.soft) :
    fractionOf c e = 0 := by
  unfold fractionOf
  have := div_nonpos (show e - c.soft ≤ 0 by grind) hr
  grind

theorem fractionOf_above (c : Cfg) (hr : 0 < c.hard - c.soft) {e : Rat} (h : c.hard ≤ e) :
    1 ≤ fractionOf c e := by
  unfold fractionOf
  have := one_le_div (show c.hard - c.soft ≤ e - c.soft by grind) hr
  grind

theorem fractionOf_between (c : Cfg) (hr : 0 < c.hard - c.soft) {e : Rat} (h1 : c.soft < e)
    (h2 : e < c.hard) :
    fractionOf c e = (e - c.soft) / (c.hard - c.soft) ∧ 0 < fractionOf c e ∧ fractionOf c e < 1 := by
  unfold fractionOf
  have p := div_pos (show 0 < e - c.soft by grind) hr
  have q := div_lt_one (show e - c.soft < c.hard - c.soft by grind) hr
  grind

/-- the permitted concurrency is antitone in the fraction -/
theorem targetOfFraction_anti (c : Cfg) (hi : 0 ≤ c.initial) {f1 f2 : Rat} (h : f1 ≤ f2) :
    targetOfFraction c f2 ≤ targetOfFraction c f1 := by
  unfold targetOfFraction
  have hi' : (0 : Rat) ≤ (c.initial : Rat) := by exact_mod_cast hi
  have := Rat.mul_le_mul_of_nonneg_right (show 1 - f2 ≤ 1 - f1 by grind) hi'
  have := ceil_mono this
  omega

theorem targetOfFraction_zero (c : Cfg) (hi : 0 ≤ c.initial) : targetOfFraction c 0 = c.initial := by
  unfold targetOfFraction
  have : (1 - 0 : Rat) * (c.initial : Rat) = ((c.initial : Int) : Rat) := by grind
  rw [this, Rat.ceil_intCast]
  omega

theorem targetOfFraction_ge_one (c : Cfg) (hi : 0 ≤ c.initial) {f : Rat} (h : 1 ≤ f) :
    targetOfFraction c f = 0 := by
  unfold targetOfFraction
  have hi' : (0 : Rat) ≤ (c.initial : Rat) := by exact_mod_cast hi
  have := Rat.mul_le_mul_of_nonneg_right (show 1 - f ≤ 0 by grind) hi'
  rw [Rat.zero_mul] at this
  have := ceil_nonpos this
  omega

theorem targetOfFraction_lt_one (c : Cfg) (hi : 1 ≤ c.initial) {f : Rat} (h : f < 1) :
    0 < targetOfFraction c f := by
  unfold targetOfFraction
  have hi' : (0 : Rat) < (c.initial : Rat) := by exact_mod_cast (show (0 : Int) < c.initial by omega)
  have := Rat.mul_pos (show 0 < 1 - f by grind) hi'
  have := ceil_pos this
  omega

theorem targetOfFraction_nonneg (c : Cfg) (f : Rat) : 0 ≤ targetOfFraction c f := by
  unfold targetOfFraction; omega

theorem targetOfFraction_le_initial (c : Cfg) (hi : 0 ≤ c.initial) {f : Rat} (h : 0 ≤ f) :
    targetOfFraction c f ≤ c.initial := by
  have := targetOfFraction_anti c hi h
  rw [targetOfFraction_zero c hi] at this
  exact this

/-- converse used for the delay bound: a positive target means the fraction is below 1 -/
theorem fraction_lt_one_of_target_pos (c : Cfg) (hi : 0 ≤ c.initial) {f : Rat}
    (h : 0 < targetOfFraction c f) : f < 1 := by
  apply Classical.byContradiction
  intro hn
  have : 1 ≤ f := by grind
  have := targetOfFraction_ge_one c hi this
  omega

end Aiorpcx.C14
