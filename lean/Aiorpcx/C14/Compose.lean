import Aiorpcx.C14.Props
import Aiorpcx.C14.Session
import Aiorpcx.C13.Props
/-!
# C14 × C13 — "finally disconnects": the cost accounting composed with the limiter

`Sess` (Session.lean) couples the accounting state of C14 with the limiter of C13 (the class as
repaired by fixes/F23-limiter-last-permit.diff).  The theorems below say that a session whose
evaluated cost has reached the hard limit really does refuse and disconnect — whatever the
limiter was doing at that moment (saturated, requests queued), for every interleaving — and that
no request is left behind to run into its processing timeout.  On the pinned class this is false
(`disconnect_reachable_fails_pinned`): the holders retire the capacity to 0 and the queued
requests wait for ever.
-/
namespace Aiorpcx.C14

/-- limiter operations as session operations (`setTarget` never comes from a request task; it is
mapped to a harmless value and excluded by `noSetTarget` wherever this is used) -/
def ofLim : C13.Op → SOp
  | .enter i => .arrive i
  | .exit i => .finish i
  | .cancelWaiter i => .drop i
  | .setTarget _ => .acct (.advance 0)

theorem refusals_append (a b : List C13.Ev) : refusals (a ++ b) = refusals a + refusals b := by
  simp [refusals, List.filter_append]

theorem anyRefused_append (a b : List C13.Ev) : anyRefused (a ++ b) = (anyRefused a || anyRefused b) := by
  simp [anyRefused, List.any_append]

theorem Sess.run_append (c : Cfg) (a b : List SOp) : ∀ (s : Sess),
    Sess.run c s (a ++ b) =
      ((Sess.run c (Sess.run c s a).1 b).1, (Sess.run c s a).2 ++ (Sess.run c (Sess.run c s a).1 b).2) := by
  induction a with
  | nil => intro s; simp [Sess.run]
  | cons op a ih =>
    intro s
    simp only [List.cons_append, Sess.run]
    rw [ih]
    simp [List.append_assoc]

/-- request tasks only talk to the limiter: a run of arrivals / completions / cancelled queued
requests is the limiter's run, the accounting is untouched, and the session is closed iff somebody
was refused -/
theorem run_limiter (c : Cfg) (ops : List C13.Op) : ∀ (s : Sess), C13.noSetTarget ops →
    (Sess.run c s (ops.map ofLim)).1.lim = (C13.run s.lim ops).1 ∧
    (Sess.run c s (ops.map ofLim)).2 = (C13.run s.lim ops).2 ∧
    (Sess.run c s (ops.map ofLim)).1.acct = s.acct ∧
    (Sess.run c s (ops.map ofLim)).1.closed = (s.closed || anyRefused (C13.run s.lim ops).2) ∧
    (Sess.run c s (ops.map ofLim)).1.hooks = s.hooks + refusals (C13.run s.lim ops).2 := by
  induction ops with
  | nil => intro s _; simp [Sess.run, C13.run, refusals, anyRefused]
  | cons op ops ih =>
    intro s hno
    have key : ∀ (s1 : Sess) (e : List C13.Ev),
        Sess.step c s (ofLim op) = (s1, e) → s1.lim = (C13.step s.lim op).1 → e = (C13.step s.lim op).2 →
        s1.acct = s.acct → s1.closed = (s.closed || anyRefused e) →
        s1.hooks = s.hooks + refusals e →
        (Sess.run c s ((op :: ops).map ofLim)).1.lim = (C13.run s.lim (op :: ops)).1 ∧
        (Sess.run c s ((op :: ops).map ofLim)).2 = (C13.run s.lim (op :: ops)).2 ∧
        (Sess.run c s ((op :: ops).map ofLim)).1.acct = s.acct ∧
        (Sess.run c s ((op :: ops).map ofLim)).1.closed =
          (s.closed || anyRefused (C13.run s.lim (op :: ops)).2) ∧
        (Sess.run c s ((op :: ops).map ofLim)).1.hooks = s.hooks + refusals (C13.run s.lim (op :: ops)).2 := by
      intro s1 e hs h1 h2 h3 h4 h5
      obtain ⟨i1, i2, i3, i4, i5⟩ := ih s1 hno.2
      simp only [List.map_cons, Sess.run, C13.run, hs]
      rw [h1] at i1 i2 i4 i5
      refine ⟨i1, by rw [i2, h2], by rw [i3, h3], ?_, ?_⟩
      · rw [i4, h4, anyRefused_append, ← h2, Bool.or_assoc]
      · rw [i5, h5, refusals_append, ← h2]; omega
    cases op with
    | setTarget n => exact absurd hno.1 (by simp [C13.Op.isSetTarget])
    | enter i => exact key _ _ rfl rfl rfl rfl rfl rfl
    | exit i => exact key _ _ rfl rfl rfl rfl rfl rfl
    | cancelWaiter i => exact key _ _ rfl rfl rfl rfl rfl rfl

theorem refusals_all (evs : List C13.Ev) (h : ∀ e ∈ evs, ∃ j, e = C13.Ev.refused j) :
    refusals evs = (C13.ids evs).length := by
  induction evs with
  | nil => rfl
  | cons e r ih =>
    obtain ⟨j, rfl⟩ := h e (by simp)
    have := ih (fun x hx => h x (by simp [hx]))
    simp only [refusals] at this
    simp only [refusals, List.filter, isRefused, C13.ids, List.length_cons]
    omega

/-- **Disconnect is reachable — no request is left to time out** (the C13 × C14 composition).
From any reachable state of the session in which the limit is ≤ 0 — i.e. (`refused_past_hard`)
the evaluated cost has reached the hard limit —, however saturated the limiter is and however
many requests are queued: once the running handlers have finished (all of them, in any order),
every queued request has been refused in arrival order (reply −101, hook), the session is closed,
nobody is left waiting; and a request arriving after that is refused at once as well.  Not one
request is executed. -/
theorem disconnect_reachable (c : Cfg) (s : Sess) (hinv : C13.Inv s.lim) (hT : s.lim.T ≤ 0)
    (fin : List C13.Op) (he : C13.exitsOnly s.lim fin) (hall : fin.length = s.lim.holders.length)
    (i : Nat) :
    let r := Sess.run c s (fin.map ofLim ++ [.arrive i])
    r.1.closed = true ∧ r.1.lim.waiters = [] ∧ (∀ e ∈ r.2, ∃ j, e = C13.Ev.refused j) ∧
    C13.ids r.2 = s.lim.waiters ++ [i] ∧ r.1.hooks = s.hooks + s.lim.waiters.length + 1 := by
  have hno := C13.exitsOnly_noSetTarget fin s.lim he
  obtain ⟨l1, l2, _, l4, l5⟩ := run_limiter c fin s hno
  obtain ⟨z1, z2, z3⟩ := C13.refused_at_zero s.lim hinv hT fin he hall
  obtain ⟨x1, x2⟩ := C13.exits_at_zero fin s.lim hinv hT he
  have inv1 := C13.run_inv fin s.lim hinv
  -- the state after the holders have left: no holder, so at least one free permit; nobody waits
  have hH : (C13.run s.lim fin).1.holders.length = 0 := by omega
  have hS : (C13.run s.lim fin).1.S ≠ 0 := by
    have := inv1.cons; have := inv1.V_pos; omega
  have hz := (C13.zero_refuses (C13.run s.lim fin).1 inv1 (by rw [x1]; exact hT) (.enter i) rfl).2 i rfl hS z2
  rw [Sess.run_append]
  simp only [Sess.run, List.append_nil]
  generalize Sess.run c s (fin.map ofLim) = r1 at l1 l2 l4 l5
  simp only [Sess.step, Sess.absorb]
  rw [l1, hz.1, l2]
  refine ⟨?_, ?_, ?_, ?_, ?_⟩
  · simp [anyRefused, isRefused]
  · -- the limiter after the refusal: still nobody waiting
    have f := C13.fifo_admission (C13.run s.lim fin).1 inv1 (.enter i)
    simp only [] at f
    rw [hz.1, z2] at f
    simp only [C13.ids, List.nil_append, List.cons_append] at f
    have : (C13.step (C13.run s.lim fin).1 (.enter i)).1.waiters = [] := by
      cases hw : (C13.step (C13.run s.lim fin).1 (.enter i)).1.waiters with
      | nil => rfl
      | cons a b => rw [hw] at f; simp at f
    exact this
  · intro e he
    rcases List.mem_append.1 he with he | he
    · exact z3 e he
    · exact ⟨i, by simpa using he⟩
  · rw [C13.ids_append, z1]; rfl
  · rw [l5, refusals_all _ z3, z1]; rfl

/-- **… and the hard limit leads there**: an evaluation that finds `cost + extra ≥ hard` sets the
limiter's target to 0 (keeping its invariant), so `disconnect_reachable` applies from the very
next moment. -/
theorem past_hard_sets_limit_zero (c : Cfg) (s : Sess) (hr : 0 < c.hard - c.soft) (hi : 0 ≤ c.initial)
    (hinv : C13.Inv s.lim) (h : c.hard ≤ (recalc c s.acct).cost + s.acct.extra) :
    let s1 := (Sess.step c s (.acct .recalc)).1
    s1.lim.T = 0 ∧ C13.Inv s1.lim ∧ s1.lim.holders = s.lim.holders ∧ s1.lim.waiters = s.lim.waiters ∧
    s1.closed = s.closed := by
  have ht := (refused_past_hard c s.acct hr hi h).1
  simp only [Sess.step, C14.step]
  refine ⟨?_, C13.step_inv s.lim _ hinv, ?_, ?_, ?_⟩
  · rw [C13.step_setTarget]; exact ht
  · rw [C13.step_setTarget]
  · rw [C13.step_setTarget]
  · trivial

/-- a stretch of session life without a cost evaluation: request tasks come and go freely;
accounting operations (traffic, errors, bumps, clock, `extra_cost`) only as long as they do not
re-evaluate (`noEval`) -/
def quiet (c : Cfg) (s : Sess) : List SOp → Prop
  | [] => True
  | .acct op :: ops => noEval c s.acct [op] ∧ quiet c (Sess.step c s (.acct op)).1 ops
  | .arrive i :: ops => quiet c (Sess.step c s (.arrive i)).1 ops
  | .finish i :: ops => quiet c (Sess.step c s (.finish i)).1 ops
  | .drop i :: ops => quiet c (Sess.step c s (.drop i)).1 ops

theorem absorb_at_zero (s : Sess) (hinv : C13.Inv s.lim) (hT : s.lim.T ≤ 0) (op : C13.Op)
    (hop : op.isSetTarget = false) :
    C13.Inv (s.absorb (C13.step s.lim op)).1.lim ∧ (s.absorb (C13.step s.lim op)).1.lim.T = s.lim.T ∧
    (s.absorb (C13.step s.lim op)).1.acct = s.acct ∧
    (∀ j, C13.Ev.entered j ∉ (s.absorb (C13.step s.lim op)).2) := by
  have f := C13.step_facts s.lim op hinv
  exact ⟨f.inv, f.T hop, rfl, (C13.zero_refuses s.lim hinv hT op hop).1⟩

/-- **No further request is executed** — at the level of the composed session, for every
interleaving: from any reachable state in which the limit is ≤ 0 (the evaluated cost has reached
the hard limit) and as long as the cost is not re-evaluated, whatever requests arrive, whatever
handlers finish or queued requests are dropped, whatever traffic, errors and bumps are charged
in between: no handler is started.  (Every request that gets the permit is refused:
`disconnect_reachable`.) -/
theorem no_execution_past_hard (c : Cfg) (ops : List SOp) : ∀ (s : Sess), C13.Inv s.lim →
    s.lim.T ≤ 0 → s.lim.T = s.acct.target → quiet c s ops →
    (∀ j, C13.Ev.entered j ∉ (Sess.run c s ops).2) ∧ (Sess.run c s ops).1.lim.T = s.lim.T := by
  induction ops with
  | nil => intro s _ _ _ _; exact ⟨by simp [Sess.run], rfl⟩
  | cons op ops ih =>
    intro s hinv hT hc hq
    have lim_case : ∀ (lop : C13.Op), lop.isSetTarget = false →
        Sess.step c s op = s.absorb (C13.step s.lim lop) → quiet c (Sess.step c s op).1 ops →
        (∀ j, C13.Ev.entered j ∉ (Sess.run c s (op :: ops)).2) ∧
        (Sess.run c s (op :: ops)).1.lim.T = s.lim.T := by
      intro lop hl hs hq'
      obtain ⟨a1, a2, a3, a4⟩ := absorb_at_zero s hinv hT lop hl
      rw [hs] at hq'
      have r := ih _ a1 (by rw [a2]; exact hT) (by rw [a2, a3]; exact hc) hq'
      simp only [Sess.run, hs]
      refine ⟨?_, by rw [r.2, a2]⟩
      intro j hj
      rcases List.mem_append.1 hj with hj | hj
      · exact a4 j hj
      · exact r.1 j hj
    cases op with
    | arrive i => exact lim_case (.enter i) rfl rfl hq
    | finish i => exact lim_case (.exit i) rfl rfl hq
    | drop i => exact lim_case (.cancelWaiter i) rfl rfl hq
    | acct aop =>
      obtain ⟨hne, hq'⟩ := hq
      obtain ⟨t1, _, _⟩ := step_noEval_frame c s.acct aop [] hne
      have hs : Sess.step c s (.acct aop) =
          ({ s with acct := C14.step c s.acct aop,
                    lim := (C13.step s.lim (.setTarget (C14.step c s.acct aop).target)).1 }, []) := rfl
      have hlim : (C13.step s.lim (.setTarget (C14.step c s.acct aop).target)).1 = s.lim := by
        rw [C13.step_setTarget, t1, ← hc]
      rw [hs, hlim] at hq'
      have r := ih { s with acct := C14.step c s.acct aop } hinv hT (by show s.lim.T = _; rw [t1]; exact hc) hq'
      simp only [Sess.run, hs, hlim, List.nil_append]
      exact r

/-- the full statement as a predicate of the start state of the limiter -/
def disconnect_reachable_full (start : C13.Lim) : Prop :=
  ∀ (c : Cfg) (acct : St) (pre fin : List C13.Op) (i : Nat),
    let s : Sess := ⟨acct, (C13.run start pre).1, false, 0⟩
    s.lim.T ≤ 0 → C13.exitsOnly s.lim fin → fin.length = s.lim.holders.length →
    (Sess.run c s (fin.map ofLim ++ [.arrive i])).1.closed = true

theorem disconnect_reachable_repaired (n : Int) : disconnect_reachable_full (C13.init n) :=
  fun c acct pre fin i hT he hall =>
    (disconnect_reachable c ⟨acct, _, false, 0⟩ (C13.run_inv pre _ (C13.init_inv n)) hT fin he hall i).1

/-- **F23 (pinned class)**: two handlers running, two requests queued, the cost passes the hard
limit (limit 0), the handlers finish, a further request arrives: nobody is refused, the session
is never closed — the three requests wait until their processing timeout. -/
theorem disconnect_reachable_fails_pinned : ¬ disconnect_reachable_full (C13.initPinned 2) := by
  intro h
  have := h ⟨0, 0, 1, 0, 0, 0, 100, 2⟩ (C14.init ⟨0, 0, 1, 0, 0, 0, 100, 2⟩ 0)
    [.enter 0, .enter 1, .enter 2, .enter 3, .setTarget 0] [.exit 0, .exit 1] 4
    (by decide) ⟨by decide, by decide, trivial⟩ (by decide)
  revert this
  decide +kernel

/-! ## tie to the source: the composition observed on live sessions -/

/-- requests with an id of at least `n` whose handler was started -/
def enteredFrom (n : Nat) : List C13.Ev → Nat
  | [] => 0
  | .entered i :: r => (if n ≤ i then 1 else 0) + enteredFrom n r
  | _ :: r => enteredFrom n r

/-- class, L = initial_concurrent, queued, route (0 `bump_cost` + evaluation / 1 a big chunk
received), hook ran?, closing?, queued or late requests executed, requests left waiting -/
def queueRowOk (row : List Int) : Bool :=
  match row with
  | [_cls, L, w, route, refused, closing, executed, waiting] =>
      let c : Cfg := ⟨1, 256, 768, 0, 2, 0, Facts.C14.driftThreshold, L⟩
      let ops : List SOp :=
        (List.range (L + w).toNat).map SOp.arrive ++
        [if route = 0 then .acct (.bump 2000) else .acct (.dataReceived 4096), .acct .recalc] ++
        (List.range L.toNat).map SOp.finish ++ [.arrive (L + w).toNat]
      let r := Sess.run c (Sess.init c 0) ops
      decide (r.1.closed = decide (closing = 1)) && decide (decide (0 < r.1.hooks) = decide (refused = 1)) &&
        decide ((enteredFrom L.toNat r.2 : Int) = executed) && decide ((r.1.lim.waiters.length : Int) = waiting)
  | _ => false

/-- **The composition on live sessions of both classes**: limiter saturated by L held handlers,
further requests queued, the cost pushed past the hard limit (by `bump_cost` or by traffic), the
handlers finish, one more request arrives — the sessions behave as the composed model says: the
hook runs, the session closes, no queued or late request is executed, nothing is left waiting.
On the tree without F23 this obligation fails (the queued requests stay parked). -/
theorem facts_queue_table :
    Facts.C14.queueTable.all queueRowOk = true ∧ 16 ≤ Facts.C14.queueTable.length ∧
    (Facts.C14.queueTable.map (·.headD 9)).eraseDups = [0, 1] := by
  decide +kernel

/-! ## non-vacuity -/

-- the scenario of `disconnect_reachable` on the repaired class, driven by the cost: four requests
-- on a limit of 2, an expensive bump re-evaluates the cost past the hard limit, the handlers end
example :
    let c : Cfg := ⟨0, 200, 600, 0, 2, 100, 100, 2⟩
    let r := Sess.run c (Sess.init c 0)
      [.arrive 0, .arrive 1, .arrive 2, .arrive 3, .acct (.bump 700), .finish 0, .finish 1, .arrive 4]
    (r.1.closed, r.1.hooks, r.1.lim.waiters, r.2) =
      (true, 3, [], [.entered 0, .entered 1, .refused 2, .refused 3, .refused 4]) := by
  decide +kernel

end Aiorpcx.C14
