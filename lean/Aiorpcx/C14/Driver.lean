import Aiorpcx.Common.Hex
import Aiorpcx.Common.RatIO
import Aiorpcx.C14.Model
import Aiorpcx.C14.Session
/-! Line-protocol driver for the C14 model.
    in : `<kind> bw soft hard decay sleep base threshold initial start | op op ...`
         kind `S` (server) / `C` (client: hard limit forced to 0); numbers `n` or `n/d`;
         ops `b<δ>` bump, `r` recalc, `d<n>` data_received, `s<n>` sent, `e<x>` error with extra
         cost x, `a<dt>` advance clock, `x<e>` extra_cost := e
    out: one record per op, joined by ` | `:
         `cost;fraction;target;x;margin;adm` — x = (1 - fraction)·initial (pre-`ceil` value),
         margin = |cost₁ - last| - threshold at the drift test of a charging op (`-` otherwise),
         adm = `R` refused / `D<delay>` admitted with that delay -/
open Aiorpcx Aiorpcx.C14 Aiorpcx.RatIO

/-- driver-only: a charging op whose drift test is decided by the caller (`!` = re-evaluate,
`~` = do not), used by the harness to follow both branches at a float/rational tie -/
def bumpForced (c : Cfg) (s : St) (δ : Rat) (force : Bool) : St :=
  let s1 := { s with cost := max 0 (s.cost + δ) }
  if force then recalc c s1 else s1

inductive DOp where
  | plain (op : Op)
  | forced (op : Op) (force : Bool)

def parseOp (s : String) : Option Op :=
  match s.toList with
  | ['r'] => some .recalc
  | 'b' :: r => (parseRat (String.ofList r)).map .bump
  | 'd' :: r => (String.ofList r).toNat?.map .dataReceived
  | 's' :: r => (String.ofList r).toNat?.map .sent
  | 'e' :: r => (parseRat (String.ofList r)).map .error
  | 'a' :: r => (parseRat (String.ofList r)).map .advance
  | 'x' :: r => (parseRat (String.ofList r)).map .setExtra
  | _ => none

def showAdm : Admission → String
  | .refused => "R"
  | .run d => "D" ++ showRat d

def record (c : Cfg) (before : St) (op : Op) (s : St) : String :=
  let x := (1 - s.fraction) * (c.initial : Rat)
  let margin := match charge c op with
    | some δ => showRat (absQ (max 0 (before.cost + δ) - before.last) - c.threshold)
    | none => "-"
  s!"{showRat s.cost};{showRat s.fraction};{s.target};{showRat x};{margin};{showAdm (admission c s)}"

def parseDOp (s : String) : Option DOp :=
  match s.toList with
  | '!' :: r => (parseOp (String.ofList r)).map (DOp.forced · true)
  | '~' :: r => (parseOp (String.ofList r)).map (DOp.forced · false)
  | _ => (parseOp s).map DOp.plain

def dstep (c : Cfg) (s : St) : DOp → St
  | .plain op => step c s op
  | .forced op f => match charge c op with
      | some δ => bumpForced c s δ f
      | none => step c s op

def DOp.op : DOp → Op
  | .plain op => op
  | .forced op _ => op

def go (c : Cfg) (s : St) : List DOp → List String
  | [] => []
  | op :: ops => let s' := dstep c s op; record c s op.op s' :: go c s' ops

/-! Session mode (the C13 x C14 composition): `Q bw soft hard decay sleep base threshold initial start | sop ...`
with sops `A<i>` (request i reaches the limiter), `F<i>` (its handler leaves), `D<i>` (a queued
request is dropped) and the accounting ops of above → one record per op, joined by ` | `:
`<limiter events>;closed=<0|1>;hooks=<n>;h=<holders>;w=<queued>;T=<limit>` -/
def parseSOp (s : String) : Option SOp :=
  match s.toList with
  | 'A' :: r => (String.ofList r).toNat?.map SOp.arrive
  | 'F' :: r => (String.ofList r).toNat?.map SOp.finish
  | 'D' :: r => (String.ofList r).toNat?.map SOp.drop
  | _ => (parseOp s).map SOp.acct

def showLEv : C13.Ev → String
  | .entered i => s!"E{i}"
  | .refused i => s!"R{i}"
  | .cancelled i => s!"C{i}"
  | .bad => "B"

def showNats (l : List Nat) : String :=
  if l.isEmpty then "-" else String.intercalate "." (l.map toString)

def sgo (c : Cfg) (s : Sess) : List SOp → List String
  | [] => []
  | op :: ops =>
      let r := Sess.step c s op
      let e := if r.2.isEmpty then "-" else String.intercalate "," (r.2.map showLEv)
      let h := (r.1.lim.holders.toArray.qsort (· < ·)).toList
      s!"{e};closed={if r.1.closed then 1 else 0};hooks={r.1.hooks};h={showNats h};w={showNats r.1.lim.waiters};T={r.1.lim.T}"
        :: sgo c r.1 ops

def handleQ (cfg ops : String) : String :=
  match (cfg.splitOn " ").filter (· ≠ "") with
  | [_q, bw, soft, hard, decay, sleep, base, thr, initial, start] =>
    match parseRat bw, parseRat soft, parseRat hard, parseRat decay, parseRat sleep, parseRat base,
          parseRat thr, initial.toInt?, parseRat start,
          ((ops.splitOn " ").filter (· ≠ "")).mapM parseSOp with
    | some bw, some soft, some hard, some decay, some sleep, some base, some thr, some ini,
      some start, some ops =>
        let c : Cfg := ⟨bw, soft, hard, decay, sleep, base, thr, ini⟩
        if ops.isEmpty then "." else String.intercalate " | " (sgo c (Sess.init c start) ops)
    | _, _, _, _, _, _, _, _, _, _ => "bad-op"
  | _ => "bad-op"

def handle (line : String) : String :=
  if line.startsWith "Q " then
    match line.splitOn "|" with
    | [cfg, ops] => handleQ cfg ops
    | _ => "bad-op"
  else
  match line.splitOn "|" with
  | [cfg, ops] =>
    match (cfg.splitOn " ").filter (· ≠ "") with
    | [kind, bw, soft, hard, decay, sleep, base, thr, initial, start] =>
      match parseRat bw, parseRat soft, parseRat hard, parseRat decay, parseRat sleep, parseRat base,
            parseRat thr, initial.toInt?, parseRat start,
            ((ops.splitOn " ").filter (· ≠ "")).mapM parseDOp with
      | some bw, some soft, some hard, some decay, some sleep, some base, some thr, some ini,
        some start, some ops =>
          let c0 : Cfg := ⟨bw, soft, hard, decay, sleep, base, thr, ini⟩
          if kind = "S" ∨ kind = "C" then
            let c := if kind = "C" then c0.client else c0
            if ops.isEmpty then "." else String.intercalate " | " (go c (init c start) ops)
          else "bad-op"
      | _, _, _, _, _, _, _, _, _, _ => "bad-op"
    | _ => "bad-op"
  | _ => "bad-op"

def main : IO Unit := Hex.lineLoop handle
