import Aiorpcx.C14.Model
import Aiorpcx.C13.Model
/-! C14 × C13 — the session's cost accounting composed with the limiter that guards the request
handlers (`SessionBase._incoming_concurrency`, the C13 model of the class as repaired by F23).

`recalc_concurrency` ends with `self._incoming_concurrency.set_target(target)`; a request task runs
`async with self._incoming_concurrency:` around the throttle sleep and the handler; an
`ExcessiveSessionCostError` out of `__aenter__` takes the refusal branch of `_throttled_request` /
`_throttled_message`: disconnect hook, (RPC: reply −101,) `close()`.  No Mathlib imports. -/
namespace Aiorpcx.C14

structure Sess where
  acct : St
  lim : C13.Lim
  /-- `close()` was called from the refusal branch -/
  closed : Bool
  /-- calls of `on_disconnect_due_to_excessive_session_cost` -/
  hooks : Nat
  deriving Repr

inductive SOp where
  | acct (op : Op)       -- traffic / errors / `bump_cost` / clock / explicit evaluation (C14 `step`)
  | arrive (i : Nat)     -- the task of request i reaches `async with self._incoming_concurrency`
  | finish (i : Nat)     -- the handler of request i leaves the block
  | drop (i : Nat)       -- the task of a queued request is cancelled (processing timeout)
  deriving Repr

def isRefused : C13.Ev → Bool
  | .refused _ => true
  | _ => false

def refusals (evs : List C13.Ev) : Nat := (evs.filter isRefused).length
def anyRefused (evs : List C13.Ev) : Bool := evs.any isRefused

/-- take over what the limiter did: every refused entrant runs the hook and closes the session -/
def Sess.absorb (s : Sess) (r : C13.Lim × List C13.Ev) : Sess × List C13.Ev :=
  ({ s with lim := r.1, closed := s.closed || anyRefused r.2,
            hooks := s.hooks + refusals r.2 }, r.2)

def Sess.step (c : Cfg) (s : Sess) : SOp → Sess × List C13.Ev
  | .acct op =>
      let a := C14.step c s.acct op
      -- `recalc_concurrency`: `self._incoming_concurrency.set_target(target)` (storing the value
      -- it already has when nothing was evaluated)
      ({ s with acct := a, lim := (C13.step s.lim (.setTarget a.target)).1 }, [])
  | .arrive i => s.absorb (C13.step s.lim (.enter i))
  | .finish i => s.absorb (C13.step s.lim (.exit i))
  | .drop i => s.absorb (C13.step s.lim (.cancelWaiter i))

def Sess.run (c : Cfg) (s : Sess) : List SOp → Sess × List C13.Ev
  | [] => (s, [])
  | op :: ops =>
      let r := Sess.step c s op
      let r2 := Sess.run c r.1 ops
      (r2.1, r.2 ++ r2.2)

/-- a fresh server session: `SessionBase.__init__` -/
def Sess.init (c : Cfg) (start : Rat) : Sess :=
  ⟨C14.init c start, C13.init c.initial, false, 0⟩

/-- what an admitted request does first: the throttle sleep decided by the fraction current at
that moment (`admission`) -/
def Sess.startDelay (c : Cfg) (s : Sess) : Admission := admission c s.acct

end Aiorpcx.C14
