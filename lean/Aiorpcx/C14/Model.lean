/-! C14 — model of the session cost accounting (aiorpcx/session.py: `SessionBase.bump_cost`,
`recalc_concurrency`, `_bump_errors`, `data_received`, the charging part of `_send_message`, and
the admission decision of `_throttled_request`).  No Mathlib imports: the driver links this.

Floats are modelled by exact rationals (core `Rat`), DESIGN §3.  The discontinuities of the code
are explicit: `ceil` in the target, the strict drift test `abs(cost - cost_last) > 100`, and the
clamps `max(0, ·)`. -/
namespace Aiorpcx.C14

/-- class attributes of the session (`threshold` is the literal 100 in `bump_cost`) -/
structure Cfg where
  bw : Rat          -- bw_cost_per_byte
  soft : Rat        -- cost_soft_limit
  hard : Rat        -- cost_hard_limit (0 on a client session)
  decay : Rat       -- cost_decay_per_sec
  sleepMax : Rat    -- cost_sleep
  base : Rat        -- error_base_cost
  threshold : Rat   -- the drift that triggers a re-evaluation
  initial : Int     -- initial_concurrent
  deriving Repr

/-- `SessionBase.__init__`: `if self.session_kind == SessionKind.CLIENT: self.cost_hard_limit = 0` -/
def Cfg.client (c : Cfg) : Cfg := { c with hard := 0 }

structure St where
  cost : Rat        -- self.cost
  last : Rat        -- self._cost_last
  time : Rat        -- self._cost_time
  fraction : Rat    -- self._cost_fraction
  target : Int      -- self._incoming_concurrency.max_concurrent
  now : Rat         -- environment: what time.time() returns
  extra : Rat       -- environment: what self.extra_cost() returns
  deriving Repr

def init (c : Cfg) (start : Rat) : St :=
  { cost := 0, last := 0, time := start, fraction := 0, target := c.initial, now := start, extra := 0 }

def absQ (x : Rat) : Rat := if 0 ≤ x then x else -x

/-- the fraction computed from an evaluated cost (`cost + extra_cost()`), only used when
`hard - soft > 0` -/
def fractionOf (c : Cfg) (ev : Rat) : Rat := max 0 ((ev - c.soft) / (c.hard - c.soft))

/-- `max(0, ceil((1.0 - fraction) * initial_concurrent))` -/
def targetOfFraction (c : Cfg) (fr : Rat) : Int := max 0 ((1 - fr) * (c.initial : Rat)).ceil

def targetOf (c : Cfg) (ev : Rat) : Int := targetOfFraction c (fractionOf c ev)

/-- `recalc_concurrency` -/
def recalc (c : Cfg) (s : St) : St :=
  let cost := max 0 (s.cost - (s.now - s.time) * c.decay)
  let s1 := { s with cost := cost, time := s.now, last := cost }
  if c.hard - c.soft ≤ 0 then s1
  else
    let fr := fractionOf c (cost + s.extra)
    { s1 with fraction := fr, target := targetOfFraction c fr }

/-- `bump_cost(delta)` -/
def bump (c : Cfg) (s : St) (δ : Rat) : St :=
  let s1 := { s with cost := max 0 (s.cost + δ) }
  if absQ (s1.cost - s1.last) > c.threshold then recalc c s1 else s1

/-- does `bump_cost(δ)` in state `s` re-evaluate (the strict drift test)? -/
def drifts (c : Cfg) (s : St) (δ : Rat) : Prop := absQ (max 0 (s.cost + δ) - s.last) > c.threshold

inductive Op where
  | bump (δ : Rat)          -- explicit `bump_cost(δ)`, δ of either sign
  | recalc                  -- explicit `recalc_concurrency()`
  | dataReceived (n : Nat)  -- `data_received(chunk)` with `len(chunk) = n`
  | sent (n : Nat)          -- `_send_message(m)` with `len(m) = n` (after the write)
  | error (e : Rat)         -- `_bump_errors(exc)` with `getattr(exc, 'cost', 0.0) = e`
  | advance (dt : Rat)      -- the clock moves
  | setExtra (e : Rat)      -- `extra_cost()` now returns e
  deriving Repr

/-- the cost delta a charging operation passes to `bump_cost` -/
def charge (c : Cfg) : Op → Option Rat
  | .bump δ => some δ
  | .dataReceived n => some ((n : Rat) * c.bw)
  | .sent n => some ((n : Rat) * c.bw)
  | .error e => some (c.base + e)
  | _ => none

def step (c : Cfg) (s : St) : Op → St
  | .bump δ => bump c s δ
  | .recalc => recalc c s
  | .dataReceived n => bump c s ((n : Rat) * c.bw)
  | .sent n => bump c s ((n : Rat) * c.bw)
  | .error e => bump c s (c.base + e)
  | .advance dt => { s with now := s.now + dt }
  | .setExtra e => { s with extra := e }

def run (c : Cfg) (s : St) : List Op → St
  | [] => s
  | op :: ops => run c (step c s op) ops

/-- what `_throttled_request` does with a request that got the permit, given the limiter target and
the fraction current at that moment (no suspension point lies between the `_target <= 0` test of
`_retarget_semaphore` and the read of `_cost_fraction`) -/
inductive Admission where
  | refused                 -- hook, reply -101 "excessive resource usage", close; handler not run
  | run (delay : Rat)       -- `sleep(fraction * cost_sleep)` (0: no sleep at all), then the handler
  deriving Repr, DecidableEq

def admission (c : Cfg) (s : St) : Admission :=
  if s.target ≤ 0 then .refused
  else .run (if s.fraction = 0 then 0 else s.fraction * c.sleepMax)

end Aiorpcx.C14
