import Aiorpcx.C12.Inv
import Aiorpcx.C11.NotEarly
/-!
# C11 — whole-program theorems: a block never runs past its deadline, and reports expiry
exactly at it

For programs that do not themselves catch or raise the cancellation family (`NoCatch`), contain
no task group (`Flat`: a group's clean-up awaits its members' reactions while the cancellation is
in flight, so the block is left later) and without an external `cancel()`.
-/
namespace Aiorpcx.C11

/-- the loop timer is armed for exactly the least active deadline -/
def Strong (s : TS) : Prop := s.armed = minL s.deadlines

def Continues : Res → Prop
  | none => True
  | some .taskTimeout => True
  | some .uncaught => True
  | some .other => True
  | _ => False

/-- postcondition used for the time bound -/
structure TB (B : Int) (s s' : TS) (r : Res) : Prop where
  deadlines : s'.deadlines = s.deadlines
  bound : s'.now ≤ B
  mono : s.now ≤ s'.now
  noCancel : s'.cancelAt = none
  strong : Continues r → Strong s'

theorem minL_le_mem (ds : List Int) (x a : Int) (hx : x ∈ ds) (ha : minL ds = some a) : a ≤ x := by
  obtain ⟨m, hm, hle⟩ := minL_le ds x hx
  rw [ha] at hm; simp at hm; omega

theorem doSleep_TB (B D : Int) (s : TS) (d : Nat) (hst : Strong s) (hc : s.cancelAt = none)
    (hD : D ∈ s.deadlines) (hB1 : s.now ≤ B) (hB2 : D ≤ B) :
    TB B s (doSleep s d).2 (doSleep s d).1 := by
  obtain ⟨a, ha, _⟩ := minL_le s.deadlines D hD
  have harm : s.armed = some a := by rw [hst, ha]
  have haD : a ≤ D := minL_le_mem _ _ _ hD ha
  unfold doSleep
  rw [harm, hc]
  simp only []
  split
  · rename_i hfire
    refine ⟨rfl, ?_, (clampT_ge _ _).1, hc, fun h => by simp [timerFire, Continues] at h⟩
    simp only [timerFire, clampT]; split <;> omega
  · rename_i hno
    refine ⟨rfl, ?_, by simp [wakeUp]; omega, hc, fun _ => by simpa [wakeUp, Strong] using hst⟩
    have := (clampT_ge s.now a)
    simp only [wakeUp]
    unfold clampT at hno; split at hno <;> omega

theorem enter_strong (s : TS) (d : Int) (h : Strong s) : Strong (enter s d) := by
  unfold Strong enter at *
  simp only [minL_append_single]
  cases hm : minL s.deadlines with
  | none => simp
  | some m => simp only []; split <;> simp [h, hm]

theorem aexit_frame (ig : Bool) (self : Int) (r : Res) (s : TS) :
    (aexit true ig self r s).2.2.now = s.now ∧ (aexit true ig self r s).2.2.cancelAt = s.cancelAt ∧
    (aexit true ig self r s).2.2.deadlines = s.deadlines.dropLast ∧
    Strong (aexit true ig self r s).2.2 := by
  unfold aexit unset Strong
  simp only []
  repeat' split
  all_goals exact ⟨rfl, rfl, rfl, rfl⟩

/-- **Time bound.**  Inside any active deadline `D` (with `B ≥ D` and `B ≥` the current time)
no program runs past `B`. -/
theorem run_TB (B D : Int) (p : Prog) : ∀ (s : TS), NoCatch p → Flat p → Strong s → s.cancelAt = none →
    D ∈ s.deadlines → s.now ≤ B → D ≤ B → TB B s (run true p s).2.1 (run true p s).1 := by
  induction p with
  | skip => intro s _ _ hst hc _ hb _; exact ⟨rfl, hb, Int.le_refl _, hc, fun _ => hst⟩
  | sleep d => intro s _ _ hst hc hD hb hDB; simpa [run] using doSleep_TB B D s d hst hc hD hb hDB
  | raise e => intro s _ _ hst hc _ hb _; exact ⟨rfl, hb, Int.le_refl _, hc, fun _ => hst⟩
  | seq a b iha ihb =>
    intro s hp hf hst hc hD hb hDB
    have ha := iha s hp.1 hf.1 hst hc hD hb hDB
    simp only [run]
    split
    · rename_i e he; rw [he] at ha; simpa [he] using ha
    · rename_i he
      rw [he] at ha
      have hb' := ihb (run true a s).2.1 hp.2 hf.2 (ha.strong trivial) ha.noCancel
        (by rw [ha.deadlines]; exact hD) ha.bound hDB
      exact ⟨by rw [hb'.deadlines, ha.deadlines], hb'.bound, Int.le_trans ha.mono hb'.mono,
             hb'.noCancel, hb'.strong⟩
  | tryCatch b cs hd ihb ihh =>
    intro s hp hf hst hc hD hb hDB
    have hb1 := ihb s hp.1 hf.1 hst hc hD hb hDB
    simp only [run]
    split
    · rename_i e he
      split
      · rename_i hin
        rw [he] at hb1
        have hcont : Continues (some e) := by
          cases e with
          | cancelled => exact absurd (by simpa using hin) hp.2.2.1
          | tce => exact absurd (by simpa using hin) hp.2.2.2
          | taskTimeout => trivial
          | uncaught => trivial
          | other => trivial
        have hh := ihh (run true b s).2.1 hp.2.1 hf.2 (hb1.strong hcont) hb1.noCancel
          (by rw [hb1.deadlines]; exact hD) hb1.bound hDB
        exact ⟨by rw [hh.deadlines, hb1.deadlines], hh.bound, Int.le_trans hb1.mono hh.mono,
               hh.noCancel, hh.strong⟩
      · rw [he] at hb1; simpa [he] using hb1
    · rename_i he; rw [he] at hb1; simpa [he] using hb1
  | block ig rel t body ih =>
    intro s hp hf hst hc hD hb hDB
    simp only [run]
    have hbody := ih (enter s (if rel then s.now + t else t)) hp hf (enter_strong _ _ hst)
      (by simpa [enter] using hc) (by simp [enter, hD]) (by simpa [enter] using hb) hDB
    obtain ⟨f1, f2, f3, f4⟩ := aexit_frame ig (if rel then s.now + t else t)
      (run true body (enter s (if rel then s.now + t else t))).1
      (run true body (enter s (if rel then s.now + t else t))).2.1
    refine ⟨?_, ?_, ?_, ?_, fun _ => f4⟩
    · rw [f3, hbody.deadlines]; simp [enter]
    · rw [f1]; exact hbody.bound
    · rw [f1]; have := hbody.mono; simpa [enter] using this
    · rw [f2]; exact hbody.noCancel
  | group anyp ms body _ => intro s _ hf; exact absurd hf id

/-- **A block never runs past its deadline, and expiry is reported exactly at it.**  For an
outermost timeout block (any of the four forms) entered at `t0` with deadline `d`, around any
body that does not itself catch the cancellation family, with no external cancel: the block has
exited by `max t0 d`; and if it reports `expired`, it exited at exactly `max t0 d` - at `d` itself
unless the deadline was already past on entry - raising `TaskTimeout` (timeout forms) or
nothing (ignore forms). -/
theorem fires_at_deadline (ig rel : Bool) (t t0 : Int) (body : Prog) (hp : NoCatch body)
    (hf : Flat body) :
    let d := if rel then t0 + t else t
    let r := run true (.block ig rel t body) { now := t0 }
    r.2.1.now ≤ max t0 d ∧
    ∀ res tm, r.2.2.getLast? = some (Ev.exit d res true tm) →
      tm = max t0 d ∧ r.1 = (if ig then none else some .taskTimeout) := by
  intro d r
  have hbody := run_TB (max t0 d) d body (enter { now := t0 } d) hp hf
    (by simp [Strong, enter, minL]) rfl (by simp [enter]) (by simp [enter]; omega) (by omega)
  have hK := run_K true body (enter { now := t0 } d) (by intro m hm; simp [enter] at hm)
  have hnow : r.2.1.now = (run true body (enter { now := t0 } d)).2.1.now := by
    simp only [r, run]
    exact (aexit_frame ig d _ _).1
  refine ⟨by rw [hnow]; exact hbody.bound, ?_⟩
  intro res tm hlast
  simp only [r, run, List.getLast?_append, List.getLast?_singleton, Option.some_or,
    Option.some.injEq, Ev.exit.injEq] at hlast
  obtain ⟨_, hres, hexp, htm⟩ := hlast
  obtain ⟨hm, _, hr⟩ := aexit_expired true ig d _ _ hexp
  have hge : d ≤ (run true body (enter { now := t0 } d)).2.1.now := hK.1 d hm
  have hmono := hbody.mono
  have ha : (enter ({ now := t0 } : TS) d).now = t0 := rfl
  rw [ha] at hmono
  have hb := hbody.bound
  have e1 : (aexit true ig d (run true body (enter { now := t0 } d)).1
      (run true body (enter { now := t0 } d)).2.1).2.2.now =
      (run true body (enter { now := t0 } d)).2.1.now := (aexit_frame ig d _ _).1
  refine ⟨?_, ?_⟩
  · rw [← htm, e1]; omega
  · simp only [r, run]; exact hr

end Aiorpcx.C11
