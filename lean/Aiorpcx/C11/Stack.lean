import Aiorpcx.C11.Model
namespace Aiorpcx.C11

/-- the loop timer is either spent/cancelled or set for the least active deadline -/
def Inv (s : TS) : Prop :=
  (s.armed = none ∨ s.armed = minL s.deadlines)

theorem minL_append_single (ds : List Int) (d : Int) :
    minL (ds ++ [d]) = match minL ds with
      | none => some d
      | some m => some (if d < m then d else m) := by
  induction ds with
  | nil => simp [minL]
  | cons x xs ih =>
    simp only [List.cons_append, minL, ih]
    cases h : minL xs with
    | none => simp; split <;> rename_i h1 <;> split <;> omega
    | some m =>
      simp
      repeat' split
      all_goals omega

theorem doSleep_deadlines (s : TS) (d : Nat) : (doSleep s d).2.deadlines = s.deadlines := by
  unfold doSleep
  repeat' split
  all_goals simp [wakeUp, timerFire, cancelFire]

theorem doSleep_inv (s : TS) (d : Nat) (h : Inv s) : Inv (doSleep s d).2 := by
  unfold doSleep Inv at *
  repeat' split
  all_goals simp_all [wakeUp, timerFire, cancelFire]

/-- whatever every suspension preserves, a sweep preserves -/
theorem sweep_preserves (Q : TS → Prop) (h : ∀ s d, Q s → Q (doSleep s d).2)
    (R : List (Nat × Nat)) (r : Res) (s : TS) (hs : Q s) : Q (sweep R r s).2.1 := by
  unfold sweep
  split
  · exact hs
  · have := h s (maxNat (R.map (·.2))) hs
    split <;> rename_i heq <;> rw [heq] at this <;> exact this

/-- ... and so does leaving a task group (at most two suspensions: the join, the sweep) -/
theorem gexit_preserves (Q : TS → Prop) (h : ∀ s d, Q s → Q (doSleep s d).2) (anyp : Bool)
    (T : Int) (ms : List (Nat × Nat)) (r : Res) (s : TS) (hs : Q s) :
    Q (gexit anyp T ms r s).2.1 := by
  unfold gexit
  split
  · exact sweep_preserves Q h _ _ _ hs
  · split
    · exact hs
    · split
      · exact sweep_preserves Q h _ _ _ hs
      · have := h s (T + (if anyp then minNat (ms.map (·.1)) else maxNat (ms.map (·.1))) - s.now).toNat hs
        split <;> rename_i heq <;> rw [heq] at this
        · split
          · exact sweep_preserves Q h _ _ _ this
          · exact this
        · exact sweep_preserves Q h _ _ _ this

theorem gexit_deadlines (anyp : Bool) (T : Int) (ms : List (Nat × Nat)) (r : Res) (s : TS) :
    (gexit anyp T ms r s).2.1.deadlines = s.deadlines :=
  gexit_preserves (fun s' => s'.deadlines = s.deadlines)
    (fun s' d h => by rw [doSleep_deadlines]; exact h) anyp T ms r s rfl

theorem gexit_inv (anyp : Bool) (T : Int) (ms : List (Nat × Nat)) (r : Res) (s : TS) (h : Inv s) :
    Inv (gexit anyp T ms r s).2.1 :=
  gexit_preserves Inv doSleep_inv anyp T ms r s h

theorem enter_inv (s : TS) (d : Int) (h : Inv s) : Inv (enter s d) := by
  unfold enter Inv at *
  simp only [minL_append_single]
  cases hm : minL s.deadlines with
  | none => simp
  | some m =>
    simp only
    split
    · simp [*]
    · rcases h with h | h
      · simp [h]
      · right; rw [h, hm]

theorem aexit_deadlines (fixed ig : Bool) (self : Int) (r : Res) (s : TS) :
    (aexit fixed ig self r s).2.2.deadlines = s.deadlines.dropLast := by
  unfold aexit unset
  simp only
  repeat' split
  all_goals rfl

theorem aexit_inv (fixed ig : Bool) (self : Int) (r : Res) (s : TS) :
    Inv (aexit fixed ig self r s).2.2 := by
  unfold aexit unset Inv
  simp only
  repeat' split
  all_goals (right; rfl)

/-- C11 `stack_discipline`: every program (task groups included), on every exit path (normal,
    exception, timeout, external cancellation, a group clean-up that is itself interrupted),
    restores the deadline stack and leaves the timer consistent. -/
theorem stack_discipline (fixed : Bool) (p : Prog) : ∀ (s : TS), Inv s →
    (run fixed p s).2.1.deadlines = s.deadlines ∧ Inv (run fixed p s).2.1 := by
  induction p with
  | skip => intro s h; simp [run, h]
  | sleep d => intro s h; simp only [run]; exact ⟨doSleep_deadlines s d, doSleep_inv s d h⟩
  | raise e => intro s h; simp [run, h]
  | seq a b iha ihb =>
    intro s h
    simp only [run]
    have ha := iha s h
    split
    · exact ha
    · rename_i hr
      have hb := ihb (run fixed a s).2.1 ha.2
      exact ⟨by rw [hb.1, ha.1], hb.2⟩
  | tryCatch b cs hd ihb ihh =>
    intro s h
    simp only [run]
    have hb := ihb s h
    split
    · split
      · have hh := ihh (run fixed b s).2.1 hb.2
        exact ⟨by rw [hh.1, hb.1], hh.2⟩
      · exact hb
    · exact hb
  | block ig rel t body ih =>
    intro s h
    simp only [run]
    have hb := ih (enter s (if rel then s.now + t else t)) (enter_inv _ _ h)
    refine ⟨?_, aexit_inv _ _ _ _ _⟩
    rw [aexit_deadlines, hb.1]
    simp [enter]
  | group anyp ms body ih =>
    intro s h
    simp only [run]
    have hb := ih s h
    exact ⟨by rw [gexit_deadlines, hb.1], gexit_inv _ _ _ _ _ hb.2⟩

/-- corollary: from a task with no active timeout nothing is left armed, whatever happened -/
theorem nothing_left_armed (fixed : Bool) (p : Prog) (now : Int) (c : Option Int) :
    let s' := (run fixed p { now := now, cancelAt := c }).2.1
    s'.deadlines = [] ∧ s'.armed = none := by
  have h := stack_discipline fixed p { now := now, cancelAt := c } (by simp [Inv])
  refine ⟨h.1, ?_⟩
  have := h.2
  unfold Inv at this
  rw [h.1] at this
  simpa [minL] using this

/-- the marker only ever names deadlines that have been reached -/
def Kk (s : TS) : Prop := ∀ m, s.marker = some m → m ≤ s.now

theorem clampT_ge (now x : Int) : now ≤ clampT now x ∧ x ≤ clampT now x := by
  unfold clampT; split <;> omega

end Aiorpcx.C11
