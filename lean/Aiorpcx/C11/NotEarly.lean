import Aiorpcx.C11.Stack
/-! The marker invariant `Kk` (a deadline is only ever marked as fired once it has been
reached) through whole programs, with the exit events of the trace. -/
namespace Aiorpcx.C11

theorem doSleep_K (s : TS) (d : Nat) (h : Kk s) : Kk (doSleep s d).2 ∧ s.now ≤ (doSleep s d).2.now := by
  have hw : Kk (wakeUp s d).2 ∧ s.now ≤ (wakeUp s d).2.now := by
    refine ⟨?_, by simp [wakeUp]; omega⟩
    intro m hm; have := h m (by simpa [wakeUp] using hm); simp [wakeUp]; omega
  have ht : ∀ a, Kk (timerFire s a).2 ∧ s.now ≤ (timerFire s a).2.now := by
    intro a
    refine ⟨?_, (clampT_ge _ _).1⟩
    intro m hm; simp [timerFire] at hm; subst hm; exact (clampT_ge _ _).2
  have hc : ∀ c, Kk (cancelFire s c).2 ∧ s.now ≤ (cancelFire s c).2.now := by
    intro c
    refine ⟨?_, (clampT_ge _ _).1⟩
    intro m hm
    have := h m (by simpa [cancelFire] using hm)
    have := (clampT_ge s.now c).1
    simp [cancelFire]; omega
  unfold doSleep
  repeat' split
  all_goals first | exact hw | exact ht _ | exact hc _

theorem unset_K (s : TS) (h : Kk s) : Kk (unset s).2.2 := by
  intro m hm; exact h m (by simpa [unset] using hm)

theorem aexit_K (fixed ig : Bool) (self : Int) (r : Res) (s : TS) (h : Kk s) :
    Kk (aexit fixed ig self r s).2.2 ∧ (aexit fixed ig self r s).2.2.now = s.now := by
  have h1 := unset_K s h
  have h2 : (unset s).2.2.now = s.now := by simp [unset]
  unfold aexit
  simp only
  repeat' split
  all_goals exact ⟨h1, h2⟩

/-- a block reports expiry only if its marker is its own deadline -/
theorem aexit_expired (fixed ig : Bool) (self : Int) (r : Res) (s : TS)
    (h : (aexit fixed ig self r s).2.1 = true) :
    s.marker = some self ∧ isCancelFamily r = true ∧
    (aexit fixed ig self r s).1 = (if ig then none else some .taskTimeout) := by
  unfold aexit unset at *
  simp only at *
  repeat' split at h
  all_goals simp_all

/-- Every block exit recorded in the trace with `expired = true` happened at or after the
block's deadline (**not earlier**), and left the block as `TaskTimeout` — or quietly for the
ignore forms. -/
def ExitOK : Ev → Prop
  | .exit d r expired t => expired = true → d ≤ t ∧ (r = some .taskTimeout ∨ r = none)
  | .gexit _ _ _ => True

theorem gexit_K (anyp : Bool) (T : Int) (ms : List (Nat × Nat)) (r : Res) (s : TS) (h : Kk s) :
    Kk (gexit anyp T ms r s).2.1 ∧ s.now ≤ (gexit anyp T ms r s).2.1.now :=
  gexit_preserves (fun s' => Kk s' ∧ s.now ≤ s'.now)
    (fun s' d h => ⟨(doSleep_K s' d h.1).1, Int.le_trans h.2 (doSleep_K s' d h.1).2⟩)
    anyp T ms r s ⟨h, Int.le_refl _⟩

theorem run_K (fixed : Bool) (p : Prog) : ∀ (s : TS), Kk s →
    Kk (run fixed p s).2.1 ∧ s.now ≤ (run fixed p s).2.1.now ∧
    ∀ ev ∈ (run fixed p s).2.2, ExitOK ev := by
  induction p with
  | skip => intro s h; simp [run, h]
  | sleep d => intro s h; simp only [run]; exact ⟨(doSleep_K s d h).1, (doSleep_K s d h).2, by simp⟩
  | raise e => intro s h; simp [run, h]
  | seq a b iha ihb =>
    intro s h
    simp only [run]
    have ha := iha s h
    split
    · exact ha
    · have hb := ihb (run fixed a s).2.1 ha.1
      refine ⟨hb.1, Int.le_trans ha.2.1 hb.2.1, ?_⟩
      intro ev hev
      rcases List.mem_append.1 hev with h1 | h1
      · exact ha.2.2 ev h1
      · exact hb.2.2 ev h1
  | tryCatch b cs hd ihb ihh =>
    intro s h
    simp only [run]
    have hb := ihb s h
    split
    · split
      · have hh := ihh (run fixed b s).2.1 hb.1
        refine ⟨hh.1, Int.le_trans hb.2.1 hh.2.1, ?_⟩
        intro ev hev
        rcases List.mem_append.1 hev with h1 | h1
        · exact hb.2.2 ev h1
        · exact hh.2.2 ev h1
      · exact hb
    · exact hb
  | block ig rel t body ih =>
    intro s h
    simp only [run]
    have he : Kk (enter s (if rel then s.now + t else t)) := by intro m hm; simp [enter] at hm
    have hb := ih _ he
    have hx := aexit_K fixed ig (if rel then s.now + t else t) (run fixed body (enter s (if rel then s.now + t else t))).1 _ hb.1
    have hn : (enter s (if rel then s.now + t else t)).now = s.now := by simp [enter]
    refine ⟨hx.1, by rw [hx.2]; omega, ?_⟩
    intro ev hev
    rcases List.mem_append.1 hev with h1 | h1
    · exact hb.2.2 ev h1
    · simp only [List.mem_singleton] at h1
      subst h1
      intro hexp
      obtain ⟨hm, _, hr⟩ := aexit_expired _ _ _ _ _ hexp
      refine ⟨?_, ?_⟩
      · rw [hx.2]; exact hb.1 _ hm
      · rw [hr]; cases ig <;> simp
  | group anyp ms body ih =>
    intro s h
    simp only [run]
    have hb := ih s h
    have hg := gexit_K anyp s.now ms (run fixed body s).1 _ hb.1
    refine ⟨hg.1, Int.le_trans hb.2.1 hg.2, ?_⟩
    intro ev hev
    rcases List.mem_append.1 hev with h1 | h1
    · exact hb.2.2 ev h1
    · simp only [List.mem_singleton] at h1
      subst h1
      trivial

end Aiorpcx.C11
