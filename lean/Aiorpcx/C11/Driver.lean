import Aiorpcx.Common.Hex
import Aiorpcx.C11.Model
/-! Line-protocol driver for the C11/C12 model.
    in : `<fixed 0|1> <cancelAt|-> <prog in prefix form>`
         prog ::= skip | sleep n | raise K | seq p p | block ig rel t p | try k K.. p p
                | group k d1 r1 .. dk rk p | groupany k d1 r1 .. dk rk p
    out: `<res> t=<now> dl=<#deadlines> armed=<0|1> deliv=<0|1> | d:res:expired:t ...`
         (a group exit is printed as `g:res:left:t`) -/
open Aiorpcx Aiorpcx.C11

def excOf : String → Exc
  | "C" => .cancelled | "T" => .taskTimeout | "X" => .tce | "U" => .uncaught | _ => .other
def excStr : Exc → String
  | .cancelled => "C" | .taskTimeout => "T" | .tce => "X" | .uncaught => "U" | .other => "O"
def resStr : Option Exc → String
  | none => "ok" | some e => excStr e

def pairs : List Nat → List (Nat × Nat)
  | a :: b :: r => (a, b) :: pairs r
  | _ => []

/-- prefix-form parser; `fuel` bounds the recursion (the line length suffices) -/
def parse : Nat → List String → Option (Prog × List String)
  | 0, _ => none
  | _ + 1, "skip" :: r => some (.skip, r)
  | _ + 1, "sleep" :: d :: r => d.toNat?.map fun n => (.sleep n, r)
  | _ + 1, "raise" :: e :: r => some (.raise (excOf e), r)
  | f + 1, "seq" :: r => do
      let (a, r1) ← parse f r
      let (b, r2) ← parse f r1
      pure (.seq a b, r2)
  | f + 1, "block" :: ig :: rel :: t :: r => do
      let tt ← t.toInt?
      let (b, r1) ← parse f r
      pure (.block (ig == "1") (rel == "1") tt b, r1)
  | f + 1, "try" :: k :: r => do
      let n ← k.toNat?
      let cs := (r.take n).map excOf
      let (b, r1) ← parse f (r.drop n)
      let (h, r2) ← parse f r1
      pure (.tryCatch b cs h, r2)
  | f + 1, "group" :: k :: r => do
      let n ← k.toNat?
      let nums ← (r.take (2 * n)).mapM String.toNat?
      if nums.length ≠ 2 * n then none
      let (b, r1) ← parse f (r.drop (2 * n))
      pure (.group false (pairs nums) b, r1)
  | f + 1, "groupany" :: k :: r => do
      let n ← k.toNat?
      let nums ← (r.take (2 * n)).mapM String.toNat?
      if nums.length ≠ 2 * n then none
      let (b, r1) ← parse f (r.drop (2 * n))
      pure (.group true (pairs nums) b, r1)
  | _, _ => none

def handle (line : String) : String :=
  match line.splitOn " " with
  | fixed :: cancel :: rest =>
    match parse (rest.length + 1) rest, (if cancel == "-" then some none else cancel.toInt?.map some) with
    | some (p, []), some c =>
      let s : TS := { cancelAt := c }
      let (r, s', evs) := run (fixed == "1") p s
      let evStr := evs.map (fun e => match e with
        | .exit d r ex t => s!"{d}:{resStr r}:{if ex then 1 else 0}:{t}"
        | .gexit r left t => s!"g:{resStr r}:{left}:{t}")
      s!"{resStr r} t={s'.now} dl={s'.deadlines.length} armed={if s'.armed.isSome then 1 else 0} deliv={if c.isSome && s'.cancelAt.isNone then 1 else 0} | {String.intercalate " " evStr}"
    | _, _ => "bad-op"
  | _ => "bad-op"

def main : IO Unit := Hex.lineLoop handle
