import Aiorpcx.C11.Deadline
/-!
# C11 — a block that finishes before its deadline is unaffected by it

Frame lemma: running a program under one more (outermost) deadline `D` gives exactly the same
result, trace and times as running it without, provided it ends before `D`.
-/
namespace Aiorpcx.C11

/-- the same task state with one more enclosing deadline `D` at the bottom of the stack -/
def lift (D : Int) (s : TS) : TS :=
  { s with deadlines := D :: s.deadlines,
           armed := if s.armed = none ∧ s.deadlines ≠ [] then none else minL (D :: s.deadlines) }

theorem minL_cons (x : Int) (xs : List Int) :
    minL (x :: xs) = match minL xs with
      | none => some x
      | some m => some (if x < m then x else m) := rfl

theorem lift_strong (D : Int) (s : TS) (h : Strong s) : Strong (lift D s) := by
  unfold Strong lift at *
  simp only []
  split
  · rename_i h1
    rw [h1.1] at h
    cases hd : s.deadlines with
    | nil => exact absurd hd h1.2
    | cons x xs => rw [hd] at h; rw [minL_cons] at h; cases hm : minL xs <;> simp [hm] at h
  · rfl

theorem minL_cons_le (D : Int) (ds : List Int) : ∃ a, minL (D :: ds) = some a ∧ a ≤ D ∧
    (∀ m, minL ds = some m → a ≤ m) ∧ (a = D ∨ minL ds = some a) := by
  rw [minL_cons]
  cases hm : minL ds with
  | none => exact ⟨D, rfl, Int.le_refl _, fun m h => (by cases h), Or.inl rfl⟩
  | some m =>
    simp only []
    split
    · exact ⟨D, rfl, Int.le_refl _, fun m' h => (by cases h; omega), Or.inl rfl⟩
    · exact ⟨m, rfl, by omega, fun m' h => (by cases h; omega), Or.inr rfl⟩

theorem doSleep_armed (s : TS) (a : Int) (d : Nat) (ha : s.armed = some a) (hc : s.cancelAt = none) :
    doSleep s d = if clampT s.now a ≤ s.now + d then timerFire s a else wakeUp s d := by
  unfold doSleep; rw [ha, hc]

theorem doSleep_unarmed (s : TS) (d : Nat) (ha : s.armed = none) (hc : s.cancelAt = none) :
    doSleep s d = wakeUp s d := by
  unfold doSleep; rw [ha, hc]

/-- a suspension that ends before `D` is the same with or without the extra deadline -/
theorem doSleep_lift (D : Int) (s : TS) (d : Nat) (hst : Strong s) (hc : s.cancelAt = none)
    (hlt : (doSleep s d).2.now < D) :
    doSleep (lift D s) d = ((doSleep s d).1, lift D (doSleep s d).2) := by
  obtain ⟨a, ha, haD, ham, hacase⟩ := minL_cons_le D s.deadlines
  have hl : (lift D s).armed = some a := by
    have := lift_strong D s hst
    unfold Strong at this; rw [this]; exact ha
  have hlc : (lift D s).cancelAt = none := hc
  have hln : (lift D s).now = s.now := rfl
  rw [doSleep_armed (lift D s) a d hl hlc, hln]
  cases hm : minL s.deadlines with
  | none =>
    -- no timer without the extra deadline: the sleep simply completes
    have harm : s.armed = none := by rw [hst, hm]
    have hds : s.deadlines = [] := by
      cases hd : s.deadlines with
      | nil => rfl
      | cons x xs => rw [hd, minL_cons] at hm; cases h2 : minL xs <;> simp [h2] at hm
    rw [doSleep_unarmed s d harm hc] at hlt ⊢
    have haeq : a = D := by
      rcases hacase with h | h
      · exact h
      · rw [hm] at h; cases h
    subst haeq
    have : ¬ clampT s.now a ≤ s.now + d := by
      simp only [wakeUp] at hlt
      have := (clampT_ge s.now a).2
      omega
    simp only [this, ↓reduceIte]
    simp [wakeUp, lift, harm, hds]
  | some m =>
    have harm : s.armed = some m := by rw [hst, hm]
    have ham' := ham m hm
    have hne : s.deadlines ≠ [] := by intro h0; rw [h0] at hm; simp [minL] at hm
    rw [doSleep_armed s m d harm hc] at hlt ⊢
    by_cases hfire : clampT s.now m ≤ s.now + d
    · -- the inner timer fires (before D): it is the least one in both runs
      simp only [hfire, ↓reduceIte, timerFire] at hlt ⊢
      have hmD : m < D := by have := (clampT_ge s.now m).2; omega
      have haeq : a = m := by
        rcases hacase with h | h
        · omega
        · rw [hm] at h; cases h; rfl
      subst haeq
      simp only [hfire, ↓reduceIte]
      simp [lift, hne]
    · simp only [hfire, ↓reduceIte, wakeUp] at hlt ⊢
      have : ¬ clampT s.now a ≤ s.now + d := by
        rcases hacase with h | h
        · subst h; have := (clampT_ge s.now a).2; omega
        · rw [hm] at h; cases h; exact hfire
      simp only [this, ↓reduceIte]
      simp [lift, harm, hne]

theorem enter_lift (D : Int) (s : TS) (d : Int) (hst : Strong s) :
    enter (lift D s) d = lift D (enter s d) := by
  have h1 := enter_strong s d hst
  have h2 := enter_strong (lift D s) d (lift_strong D s hst)
  have h3 := lift_strong D (enter s d) h1
  unfold Strong at h2 h3
  have hd : (enter (lift D s) d).deadlines = (lift D (enter s d)).deadlines := by
    simp [enter, lift]
  have : (enter (lift D s) d).armed = (lift D (enter s d)).armed := by rw [h2, h3, hd]
  have hm : (enter (lift D s) d).marker = (lift D (enter s d)).marker := rfl
  have hn : (enter (lift D s) d).now = (lift D (enter s d)).now := rfl
  have hc : (enter (lift D s) d).cancelAt = (lift D (enter s d)).cancelAt := rfl
  cases he : enter (lift D s) d
  cases hl : lift D (enter s d)
  rw [he] at hd this hm hn hc
  rw [hl] at hd this hm hn hc
  simp only [] at hd this hm hn hc
  subst hd this hm hn hc
  rfl

/-- leaving a block: same decision, and the lifted state, as long as the marker is not `D` -/
theorem aexit_lift (D : Int) (ig : Bool) (self : Int) (r : Res) (s : TS)
    (hne : s.deadlines ≠ []) (hmk : s.marker ≠ some D) :
    aexit true ig self r (lift D s) =
      ((aexit true ig self r s).1, (aexit true ig self r s).2.1, lift D (aexit true ig self r s).2.2) := by
  have hcont : ∀ m, s.marker = some m → ((D :: s.deadlines).contains m = s.deadlines.contains m) := by
    intro m hm
    have : m ≠ D := by intro h; rw [h] at hm; exact hmk hm
    simp [this]
  have hdl : (D :: s.deadlines).dropLast = D :: s.deadlines.dropLast := by
    cases hd : s.deadlines with
    | nil => exact absurd hd hne
    | cons x xs => simp [List.dropLast]
  have hst : lift D (unset s).2.2 = (unset (lift D s)).2.2 := by
    have e1 : (unset (lift D s)).2.2.deadlines = D :: s.deadlines.dropLast := by
      simp [unset, lift, hdl]
    have s1 : Strong (unset (lift D s)).2.2 := by simp [Strong, unset]
    have s2 : Strong (lift D (unset s).2.2) := lift_strong _ _ (by simp [Strong, unset])
    unfold Strong at s1 s2
    have e2 : (lift D (unset s).2.2).deadlines = D :: s.deadlines.dropLast := by simp [unset, lift]
    cases ha : lift D (unset s).2.2
    cases hb : (unset (lift D s)).2.2
    rw [ha] at s2 e2; rw [hb] at s1 e1
    have hm : (lift D (unset s).2.2).marker = (unset (lift D s)).2.2.marker := rfl
    have hn : (lift D (unset s).2.2).now = (unset (lift D s)).2.2.now := rfl
    have hc : (lift D (unset s).2.2).cancelAt = (unset (lift D s)).2.2.cancelAt := rfl
    rw [ha, hb] at hm hn hc
    simp only [] at s1 s2 e1 e2 hm hn hc
    subst e1 e2 hm hn hc
    rw [s1, s2]
  have hmarker : (unset (lift D s)).1 = (unset s).1 := rfl
  have hunc : (unset (lift D s)).2.1 = (unset s).2.1 := by
    simp only [unset, lift]
    cases hm : s.marker with
    | none => rfl
    | some m => simp only []; rw [hcont m hm]
  unfold aexit
  simp only []
  rw [hmarker, hunc, ← hst]
  repeat' split
  all_goals rfl

end Aiorpcx.C11

namespace Aiorpcx.C11

/-- what every run preserves (no external cancel, `NoCatch`): the deadline stack, the marker
invariant, and - whenever execution can continue - an exactly armed timer -/
structure Pres (s s' : TS) (r : Res) : Prop where
  deadlines : s'.deadlines = s.deadlines
  kk : Kk s'
  mono : s.now ≤ s'.now
  noCancel : s'.cancelAt = none
  strong : Continues r → Strong s'

theorem doSleep_pres (s : TS) (d : Nat) (hst : Strong s) (hk : Kk s) (hc : s.cancelAt = none) :
    Pres s (doSleep s d).2 (doSleep s d).1 := by
  have hK := doSleep_K s d hk
  cases ha : s.armed with
  | none =>
    rw [doSleep_unarmed s d ha hc] at hK ⊢
    exact ⟨rfl, hK.1, hK.2, hc, fun _ => by simpa [wakeUp, Strong] using hst⟩
  | some a =>
    rw [doSleep_armed s a d ha hc] at hK ⊢
    split
    · rename_i h
      simp only [h, ↓reduceIte] at hK
      exact ⟨rfl, hK.1, hK.2, hc, fun h => by simp [timerFire, Continues] at h⟩
    · rename_i h
      simp only [h, ↓reduceIte] at hK
      exact ⟨rfl, hK.1, hK.2, hc, fun _ => by simpa [wakeUp, Strong] using hst⟩

theorem run_pres (p : Prog) : ∀ (s : TS), NoCatch p → Flat p → Strong s → Kk s → s.cancelAt = none →
    Pres s (run true p s).2.1 (run true p s).1 := by
  induction p with
  | skip => intro s _ _ hst hk hc; exact ⟨rfl, hk, Int.le_refl _, hc, fun _ => hst⟩
  | sleep d => intro s _ _ hst hk hc; simpa [run] using doSleep_pres s d hst hk hc
  | raise e => intro s _ _ hst hk hc; exact ⟨rfl, hk, Int.le_refl _, hc, fun _ => hst⟩
  | seq a b iha ihb =>
    intro s hp hf hst hk hc
    have ha := iha s hp.1 hf.1 hst hk hc
    simp only [run]
    split
    · rename_i e he; rw [he] at ha; simpa [he] using ha
    · rename_i he
      rw [he] at ha
      have hb := ihb (run true a s).2.1 hp.2 hf.2 (ha.strong trivial) ha.kk ha.noCancel
      exact ⟨by rw [hb.deadlines, ha.deadlines], hb.kk, Int.le_trans ha.mono hb.mono,
             hb.noCancel, hb.strong⟩
  | tryCatch b cs hd ihb ihh =>
    intro s hp hf hst hk hc
    have hb := ihb s hp.1 hf.1 hst hk hc
    simp only [run]
    split
    · rename_i e he
      split
      · rename_i hin
        rw [he] at hb
        have hcont : Continues (some e) := by
          cases e with
          | cancelled => exact absurd (by simpa using hin) hp.2.2.1
          | tce => exact absurd (by simpa using hin) hp.2.2.2
          | taskTimeout => trivial
          | uncaught => trivial
          | other => trivial
        have hh := ihh (run true b s).2.1 hp.2.1 hf.2 (hb.strong hcont) hb.kk hb.noCancel
        exact ⟨by rw [hh.deadlines, hb.deadlines], hh.kk, Int.le_trans hb.mono hh.mono,
               hh.noCancel, hh.strong⟩
      · rw [he] at hb; simpa [he] using hb
    · rename_i he; rw [he] at hb; simpa [he] using hb
  | block ig rel t body ih =>
    intro s hp hf hst hk hc
    simp only [run]
    have hbody := ih (enter s (if rel then s.now + t else t)) hp hf (enter_strong _ _ hst)
      (by intro m hm; simp [enter] at hm) (by simpa [enter] using hc)
    obtain ⟨f1, f2, f3, f4⟩ := aexit_frame ig (if rel then s.now + t else t)
      (run true body (enter s (if rel then s.now + t else t))).1
      (run true body (enter s (if rel then s.now + t else t))).2.1
    have hk2 := (aexit_K true ig (if rel then s.now + t else t)
      (run true body (enter s (if rel then s.now + t else t))).1 _ hbody.kk).1
    refine ⟨?_, hk2, ?_, ?_, fun _ => f4⟩
    · rw [f3, hbody.deadlines]; simp [enter]
    · rw [f1]; have := hbody.mono; simpa [enter] using this
    · rw [f2]; exact hbody.noCancel
  | group anyp ms body _ => intro s _ hf; exact absurd hf id

/-- **Frame lemma.**  A program that (run on its own) ends before `D` runs identically under
an additional enclosing deadline `D`: same result, same per-block trace, same times. -/
theorem run_lift (D : Int) (p : Prog) : ∀ (s : TS), NoCatch p → Flat p → Strong s → Kk s →
    s.cancelAt = none → (run true p s).2.1.now < D →
    run true p (lift D s) = ((run true p s).1, lift D (run true p s).2.1, (run true p s).2.2) := by
  induction p with
  | skip => intro s _ _ _ _ _ _; rfl
  | sleep d =>
    intro s _ _ hst _ hc hlt
    simp only [run] at hlt ⊢
    rw [doSleep_lift D s d hst hc hlt]
  | raise e => intro s _ _ _ _ _ _; rfl
  | seq a b iha ihb =>
    intro s hp hf hst hk hc hlt
    have hpa := run_pres a s hp.1 hf.1 hst hk hc
    simp only [run] at hlt ⊢
    cases hra : (run true a s).1 with
    | some e =>
      simp only [hra] at hlt
      rw [iha s hp.1 hf.1 hst hk hc hlt, hra]
    | none =>
      simp only [hra] at hlt
      rw [hra] at hpa
      have hpb := run_pres b (run true a s).2.1 hp.2 hf.2 (hpa.strong trivial) hpa.kk hpa.noCancel
      have hlta : (run true a s).2.1.now < D := Int.lt_of_le_of_lt hpb.mono hlt
      rw [iha s hp.1 hf.1 hst hk hc hlta, hra]
      simp only []
      rw [ihb _ hp.2 hf.2 (hpa.strong trivial) hpa.kk hpa.noCancel hlt]
  | tryCatch b cs hd ihb ihh =>
    intro s hp hf hst hk hc hlt
    have hpb := run_pres b s hp.1 hf.1 hst hk hc
    simp only [run] at hlt ⊢
    cases hrb : (run true b s).1 with
    | none =>
      simp only [hrb] at hlt
      rw [ihb s hp.1 hf.1 hst hk hc hlt, hrb]
    | some e =>
      simp only [hrb] at hlt
      by_cases hin : cs.contains e = true
      · simp only [hin, ↓reduceIte] at hlt
        rw [hrb] at hpb
        have hcont : Continues (some e) := by
          cases e with
          | cancelled => exact absurd (by simpa using hin) hp.2.2.1
          | tce => exact absurd (by simpa using hin) hp.2.2.2
          | taskTimeout => trivial
          | uncaught => trivial
          | other => trivial
        have hph := run_pres hd (run true b s).2.1 hp.2.1 hf.2 (hpb.strong hcont) hpb.kk hpb.noCancel
        have hltb : (run true b s).2.1.now < D := Int.lt_of_le_of_lt hph.mono hlt
        rw [ihb s hp.1 hf.1 hst hk hc hltb, hrb]
        simp only [hin, ↓reduceIte]
        rw [ihh _ hp.2.1 hf.2 (hpb.strong hcont) hpb.kk hpb.noCancel hlt]
      · have hin' : e ∉ cs := by simpa using hin
        simp only [hin] at hlt
        rw [ihb s hp.1 hf.1 hst hk hc (by simpa using hlt), hrb]
        simp [hin']
  | block ig rel t body ih =>
    intro s hp hf hst hk hc hlt
    simp only [run] at hlt ⊢
    have hnow : (lift D s).now = s.now := rfl
    rw [hnow, enter_lift D s _ hst]
    have hpb := run_pres body (enter s (if rel then s.now + t else t)) hp hf (enter_strong _ _ hst)
      (by intro m hm; simp [enter] at hm) (by simpa [enter] using hc)
    have f1 := (aexit_frame ig (if rel then s.now + t else t)
      (run true body (enter s (if rel then s.now + t else t))).1
      (run true body (enter s (if rel then s.now + t else t))).2.1).1
    rw [f1] at hlt
    rw [ih _ hp hf (enter_strong _ _ hst) (by intro m hm; simp [enter] at hm)
      (by simpa [enter] using hc) hlt]
    simp only []
    have hne : (run true body (enter s (if rel then s.now + t else t))).2.1.deadlines ≠ [] := by
      rw [hpb.deadlines]; simp [enter]
    have hmk : (run true body (enter s (if rel then s.now + t else t))).2.1.marker ≠ some D := by
      intro hm; have := hpb.kk D hm; omega
    rw [aexit_lift D ig _ _ _ hne hmk]
    rfl
  | group anyp ms body _ => intro s _ hf; exact absurd hf id

/-- **Early finish unaffected.**  If the body of an outermost timeout block (any form), run on
its own from time `t0`, ends strictly before the block's deadline `d` - with whatever result -
then under the block it ends with the same result (an unhandled inner `TaskTimeout` surfacing as
`UncaughtTimeoutError`, as specified), at the same time, with the same inner trace, the block
does not report expiry, and nothing is left armed. -/
theorem early_finish_unaffected (ig rel : Bool) (t t0 : Int) (body : Prog) (hp : NoCatch body)
    (hf : Flat body) :
    let d := if rel then t0 + t else t
    let alone := run true body { now := t0 }
    let under := run true (.block ig rel t body) { now := t0 }
    alone.2.1.now < d →
    under.2.1.now = alone.2.1.now ∧
    under.1 = (if alone.1 = some .taskTimeout ∧ alone.2.1.marker ≠ none then some .uncaught else alone.1) ∧
    under.2.2 = alone.2.2 ++ [Ev.exit d under.1 false alone.2.1.now] ∧
    under.2.1.armed = none ∧ under.2.1.deadlines = [] := by
  intro d alone under hlt
  have hst0 : Strong ({ now := t0 } : TS) := by simp [Strong, minL]
  have hk0 : Kk ({ now := t0 } : TS) := by intro m hm; simp at hm
  have hl := run_lift d body { now := t0 } hp hf hst0 hk0 rfl hlt
  have hp0 := run_pres body { now := t0 } hp hf hst0 hk0 rfl
  have he : enter ({ now := t0 } : TS) d = lift d { now := t0 } := by
    simp [enter, lift, minL]
  have hunder : under = (let x := aexit true ig d alone.1 (lift d alone.2.1);
      (x.1, x.2.2, alone.2.2 ++ [Ev.exit d x.1 x.2.1 x.2.2.now])) := by
    simp only [under, run, alone]
    rw [he, hl]
  have hne : (lift d alone.2.1).deadlines = [d] := by
    simp only [lift, alone]; rw [hp0.deadlines]
  have hmk : ∀ m, alone.2.1.marker = some m → m ≠ d := by
    intro m hm h; have := hp0.kk m hm; simp only [alone] at hlt; omega
  -- evaluate the exit on the one-element stack
  have hx : aexit true ig d alone.1 (lift d alone.2.1) =
      ((if alone.1 = some .taskTimeout ∧ alone.2.1.marker ≠ none then some .uncaught else alone.1),
       false, { (lift d alone.2.1) with deadlines := [], armed := none }) := by
    have hmarker : (lift d alone.2.1).marker = alone.2.1.marker := rfl
    unfold aexit unset
    simp only [hne, hmarker]
    cases hm : alone.2.1.marker with
    | none =>
      cases hr : alone.1 with
      | none => simp [isCancelFamily, List.dropLast, minL]
      | some e => cases e <;> simp [isCancelFamily, List.dropLast, minL]
    | some m =>
      have hmd := hmk m hm
      cases hr : alone.1 with
      | none => simp [isCancelFamily, List.dropLast, minL]
      | some e =>
        cases e <;> simp [isCancelFamily, List.dropLast, minL, hmd]
        all_goals (intro h; exact absurd h hmd)
  rw [hunder, hx]
  simp [lift]

end Aiorpcx.C11
