import Aiorpcx.C11.Early
import Aiorpcx.C11.Stray
import Aiorpcx.C12.Props
/-!
# C11 — a block still running at its deadline is interrupted then and reports the timeout

Simulation lemma `run_sim`: running a program under one more (outermost) deadline `D` either
stays in lock-step with the run without it, or - at the first suspension that would cross `D`
outside any inner block with the same deadline - is *doomed*: a cancellation attributed to `D`
is in flight and nothing inside can stop it.  With the time bound `run_TB` this gives the
forward direction of the property: a body that on its own is still running strictly after
`max (entry, deadline)` makes the block end at exactly that instant, expired, with `TaskTimeout`
(timeout forms) or quietly (ignore forms).
-/
namespace Aiorpcx.C11

/-- a cancellation attributed to the extra deadline `D` is in flight -/
def Doomed (D : Int) (s : TS) (U : Res × TS × List Ev) : Prop :=
  IsCX U.1 ∧ U.2.1.marker = some D ∧ U.2.1.deadlines = D :: s.deadlines ∧ D ∉ s.deadlines ∧
  U.2.1.cancelAt = none

/-- what the run without the extra deadline guarantees (from `run_pres` and `run_post`) -/
theorem alone_facts (p : Prog) (s : TS) (hp : NoCatch p) (hf : Flat p) (hst : Strong s)
    (hk : Kk s) (hj : Jj s) (hc : s.cancelAt = none) :
    (run true p s).2.1.deadlines = s.deadlines ∧ Kk (run true p s).2.1 ∧
    (run true p s).2.1.cancelAt = none ∧ s.now ≤ (run true p s).2.1.now ∧
    (Continues (run true p s).1 → Strong (run true p s).2.1 ∧ Jj (run true p s).2.1) ∧
    (IsCX (run true p s).1 → Active (run true p s).2.1) := by
  have h1 := run_pres p s hp hf hst hk hc
  have h2 := run_post p s hp hf ⟨Or.inr hst, hk, hj⟩
  refine ⟨h1.deadlines, h1.kk, h1.noCancel, h1.mono, ?_, ?_⟩
  · intro hcont
    refine ⟨h1.strong hcont, ?_⟩
    have hr := h2.2.2.2.2
    generalize (run true p s).1 = r at hcont hr
    cases r with
    | none => exact hr.1
    | some e => cases e <;> first | exact hr.1 | exact absurd hcont id
  · intro hcx
    have hr := h2.2.2.2.2
    generalize (run true p s).1 = r at hcx hr
    rcases hcx with h | h <;> subst h
    · rcases hr with ⟨⟨hd, _⟩, _⟩ | ⟨_, ha⟩
      · exact absurd hc hd
      · exact ha
    · exact hr.2

theorem lift_fields (D : Int) (s : TS) :
    (lift D s).now = s.now ∧ (lift D s).marker = s.marker ∧ (lift D s).cancelAt = s.cancelAt ∧
    (lift D s).deadlines = D :: s.deadlines := ⟨rfl, rfl, rfl, rfl⟩

theorem timerFire_lift (D : Int) (s : TS) (m : Int) (hne : s.deadlines ≠ []) :
    timerFire (lift D s) m = ((timerFire s m).1, lift D (timerFire s m).2) := by
  simp [timerFire, lift, hne]

theorem wakeUp_lift (D : Int) (s : TS) (d : Nat) :
    wakeUp (lift D s) d = ((wakeUp s d).1, lift D (wakeUp s d).2) := by
  unfold wakeUp lift; rfl

theorem clampT_mono (now x y : Int) (h : x ≤ y) : clampT now x ≤ clampT now y := by
  unfold clampT; split <;> split <;> omega

/-- one suspension under the extra deadline: in step, or `D` fires (and no inner block has it) -/
theorem doSleep_sim (D : Int) (s : TS) (d : Nat) (hst : Strong s) (hc : s.cancelAt = none) :
    doSleep (lift D s) d = ((doSleep s d).1, lift D (doSleep s d).2) ∨
    (doSleep (lift D s) d = timerFire (lift D s) D ∧ D ∉ s.deadlines) := by
  obtain ⟨a, ha, haD, ham, hacase⟩ := minL_cons_le D s.deadlines
  have hl : (lift D s).armed = some a := by
    have := lift_strong D s hst
    unfold Strong at this; rw [this]; exact ha
  have hlc : (lift D s).cancelAt = none := hc
  have hln : (lift D s).now = s.now := rfl
  rw [doSleep_armed (lift D s) a d hl hlc, hln]
  cases hm : minL s.deadlines with
  | none =>
    have harm : s.armed = none := by rw [hst, hm]
    have hds : s.deadlines = [] := by
      cases hd : s.deadlines with
      | nil => rfl
      | cons x xs => rw [hd, minL_cons] at hm; cases h2 : minL xs <;> simp [h2] at hm
    have haeq : a = D := by
      rcases hacase with h | h
      · exact h
      · rw [hm] at h; cases h
    subst haeq
    rw [doSleep_unarmed s d harm hc]
    by_cases hfire : clampT s.now a ≤ s.now + d
    · right; simp only [hfire, ↓reduceIte]; exact ⟨trivial, by rw [hds]; simp⟩
    · left; simp only [hfire, ↓reduceIte]; exact wakeUp_lift a s d
  | some m =>
    have harm : s.armed = some m := by rw [hst, hm]
    have hne : s.deadlines ≠ [] := by intro h0; rw [h0] at hm; simp [minL] at hm
    rw [doSleep_armed s m d harm hc]
    by_cases hDm : D < m
    · have haeq : a = D := by
        rcases hacase with h | h
        · exact h
        · rw [hm] at h; cases h; omega
      subst haeq
      by_cases hfire : clampT s.now a ≤ s.now + d
      · right
        simp only [hfire, ↓reduceIte]
        refine ⟨trivial, ?_⟩
        intro hmem
        have := minL_le_mem s.deadlines a m hmem hm
        omega
      · left
        have : ¬ clampT s.now m ≤ s.now + d := by
          have := clampT_mono s.now a m (by omega); omega
        simp only [hfire, this, ↓reduceIte]
        exact wakeUp_lift a s d
    · have haeq : a = m := by
        rcases hacase with h | h
        · have := ham m hm; omega
        · rw [hm] at h; cases h; rfl
      subst haeq
      left
      by_cases hfire : clampT s.now a ≤ s.now + d
      · simp only [hfire, ↓reduceIte]; exact timerFire_lift D s a hne
      · simp only [hfire, ↓reduceIte]; exact wakeUp_lift D s d

theorem unset_lift (D : Int) (s : TS) (hne : s.deadlines ≠ []) :
    (unset (lift D s)).2.2 = lift D (unset s).2.2 := by
  have hdl : (D :: s.deadlines).dropLast = D :: s.deadlines.dropLast := by
    cases hd : s.deadlines with
    | nil => exact absurd hd hne
    | cons x xs => simp [List.dropLast]
  have e1 : (unset (lift D s)).2.2.deadlines = D :: s.deadlines.dropLast := by
    simp [unset, lift, hdl]
  have s1 : Strong (unset (lift D s)).2.2 := by simp [Strong, unset]
  have s2 : Strong (lift D (unset s).2.2) := lift_strong _ _ (by simp [Strong, unset])
  unfold Strong at s1 s2
  have e2 : (lift D (unset s).2.2).deadlines = D :: s.deadlines.dropLast := by simp [unset, lift]
  cases ha : lift D (unset s).2.2
  cases hb : (unset (lift D s)).2.2
  rw [ha] at s2 e2; rw [hb] at s1 e1
  have hm : (lift D (unset s).2.2).marker = (unset (lift D s)).2.2.marker := rfl
  have hn : (lift D (unset s).2.2).now = (unset (lift D s)).2.2.now := rfl
  have hc : (lift D (unset s).2.2).cancelAt = (unset (lift D s)).2.2.cancelAt := rfl
  rw [ha, hb] at hm hn hc
  simp only [] at s1 s2 e1 e2 hm hn hc
  subst e1 e2 hm hn hc
  rw [s1, s2]

/-- leaving a block under the extra deadline, when the marker is not a stale `D` -/
theorem aexit_lift' (D : Int) (ig : Bool) (self : Int) (r : Res) (s : TS)
    (hne : s.deadlines ≠ []) (hmk : s.marker = some D → D ∈ s.deadlines) :
    aexit true ig self r (lift D s) =
      ((aexit true ig self r s).1, (aexit true ig self r s).2.1, lift D (aexit true ig self r s).2.2) := by
  have hcont : ∀ m, s.marker = some m → ((D :: s.deadlines).contains m = s.deadlines.contains m) := by
    intro m hm
    by_cases hmd : m = D
    · subst hmd
      have := hmk hm
      simp [this]
    · simp [hmd]
  have hst := unset_lift D s hne
  have hmarker : (unset (lift D s)).1 = (unset s).1 := rfl
  have hunc : (unset (lift D s)).2.1 = (unset s).2.1 := by
    simp only [unset, lift]
    cases hm : s.marker with
    | none => rfl
    | some m => simp only []; rw [hcont m hm]
  unfold aexit
  simp only []
  rw [hmarker, hunc, hst]
  repeat' split
  all_goals rfl

theorem aexit_lift_nofam (D : Int) (ig : Bool) (self : Int) (r : Res) (s : TS)
    (hne : s.deadlines ≠ []) (hf : isCancelFamily r = false) :
    aexit true ig self r (lift D s) =
      ((aexit true ig self r s).1, (aexit true ig self r s).2.1, lift D (aexit true ig self r s).2.2) := by
  rw [aexit_nofam _ _ _ _ hf, aexit_nofam _ _ _ _ hf, unset_lift D s hne]

theorem unset_fields (s : TS) : (unset s).2.2.marker = s.marker ∧
    (unset s).2.2.cancelAt = s.cancelAt ∧ (unset s).2.2.deadlines = s.deadlines.dropLast :=
  ⟨rfl, rfl, rfl⟩

/-- a doomed run reaching the exit of an inner block stays doomed -/
theorem aexit_doomed (D : Int) (ig : Bool) (d : Int) (s : TS) (r : Res) (s1 : TS)
    (hf : isCancelFamily r = true) (hm : s1.marker = some D)
    (hds : s1.deadlines = D :: (s.deadlines ++ [d]))
    (hnot : D ∉ s.deadlines ++ [d]) (hc : s1.cancelAt = none) (evs : List Ev) :
    Doomed D s ((aexit true ig d r s1).1, (aexit true ig d r s1).2.2, evs) := by
  have hmd : D ≠ d := by intro h; apply hnot; simp [h]
  have hmem : D ∈ s1.deadlines := by rw [hds]; simp
  rw [aexit_active _ _ _ _ _ hf hm hmd hmem]
  refine ⟨Or.inr rfl, ?_, ?_, ?_, ?_⟩
  · simpa [unset] using hm
  · simp only [unset, hds]
    have : (D :: (s.deadlines ++ [d])).dropLast = D :: s.deadlines := by
      rw [List.dropLast_cons_of_ne_nil (by simp)]; simp
    exact this
  · intro h; apply hnot; simp [h]
  · simpa [unset] using hc

/-- **Simulation.**  Under one more outermost deadline `D` a program runs in lock-step with the
run without it, or ends doomed. -/
theorem run_sim (D : Int) (p : Prog) : ∀ (s : TS), NoCatch p → Flat p → Strong s → Kk s → Jj s →
    s.cancelAt = none →
    run true p (lift D s) = ((run true p s).1, lift D (run true p s).2.1, (run true p s).2.2) ∨
    Doomed D s (run true p (lift D s)) := by
  induction p with
  | skip => intro s _ _ _ _ _ _; left; rfl
  | raise e => intro s _ _ _ _ _ _; left; rfl
  | sleep d =>
    intro s _ _ hst _ _ hc
    simp only [run]
    rcases doSleep_sim D s d hst hc with h | ⟨h, hnot⟩
    · left; rw [h]
    · right
      rw [h]
      exact ⟨Or.inl rfl, rfl, rfl, hnot, hc⟩
  | seq a b iha ihb =>
    intro s hp hf hst hk hj hc
    obtain ⟨fd, fk, fc, _, fcont, _⟩ := alone_facts a s hp.1 hf.1 hst hk hj hc
    rcases iha s hp.1 hf.1 hst hk hj hc with ha | ha
    · simp only [run]
      rw [ha]
      cases hra : (run true a s).1 with
      | some e => left; rfl
      | none =>
        simp only []
        have hcA := fcont (by rw [hra]; trivial)
        rcases ihb (run true a s).2.1 hp.2 hf.2 hcA.1 fk hcA.2 fc with hb | hb
        · left; rw [hb]
        · right
          obtain ⟨h1, h2, h3, h4, h5⟩ := hb
          exact ⟨h1, h2, by rw [h3, fd], by rw [← fd]; exact h4, h5⟩
    · right
      obtain ⟨h1, h2, h3, h4, h5⟩ := ha
      simp only [run]
      rcases h1 with h1 | h1 <;> rw [h1] <;> exact ⟨by simp [IsCX], h2, h3, h4, h5⟩
  | tryCatch b cs hd ihb ihh =>
    intro s hp hf hst hk hj hc
    obtain ⟨fd, fk, fc, _, fcont, _⟩ := alone_facts b s hp.1 hf.1 hst hk hj hc
    rcases ihb s hp.1 hf.1 hst hk hj hc with hb | hb
    · simp only [run]
      rw [hb]
      cases hrb : (run true b s).1 with
      | none => left; rfl
      | some e =>
        simp only []
        by_cases hin : cs.contains e = true
        · simp only [hin, ↓reduceIte]
          have hcont : Continues (some e) := by
            cases e with
            | cancelled => exact absurd (by simpa using hin) hp.2.2.1
            | tce => exact absurd (by simpa using hin) hp.2.2.2
            | taskTimeout => trivial
            | uncaught => trivial
            | other => trivial
          have hcA := fcont (by rw [hrb]; exact hcont)
          rcases ihh (run true b s).2.1 hp.2.1 hf.2 hcA.1 fk hcA.2 fc with hh | hh
          · left; rw [hh]
          · right
            obtain ⟨h1, h2, h3, h4, h5⟩ := hh
            exact ⟨h1, h2, by rw [h3, fd], by rw [← fd]; exact h4, h5⟩
        · left
          have hin' : e ∉ cs := by simpa using hin
          simp [hin']
    · right
      obtain ⟨h1, h2, h3, h4, h5⟩ := hb
      simp only [run]
      rcases h1 with h1 | h1 <;> rw [h1]
      · have : cs.contains Exc.cancelled = false := by simpa using hp.2.2.1
        simp only [this]
        exact ⟨by simp [IsCX], h2, h3, h4, h5⟩
      · have : cs.contains Exc.tce = false := by simpa using hp.2.2.2
        simp only [this]
        exact ⟨by simp [IsCX], h2, h3, h4, h5⟩
  | group anyp ms body _ => intro s _ hf; exact absurd hf id
  | block ig rel t body ih =>
    intro s hp hf hst hk hj hc
    simp only [run]
    have hnow : (lift D s).now = s.now := rfl
    rw [hnow, enter_lift D s _ hst]
    generalize hd' : (if rel then s.now + t else t) = d'
    have hst1 := enter_strong s d' hst
    have hk1 : Kk (enter s d') := by intro m hm; simp [enter] at hm
    have hj1 : Jj (enter s d') := by intro m hm; simp [enter] at hm
    have hc1 : (enter s d').cancelAt = none := by simpa [enter] using hc
    have hds1 : (enter s d').deadlines = s.deadlines ++ [d'] := by simp [enter]
    obtain ⟨fd, fk, fc, _, _, fcx⟩ := alone_facts body (enter s d') hp hf hst1 hk1 hj1 hc1
    rw [hds1] at fd
    have hne : (run true body (enter s d')).2.1.deadlines ≠ [] := by rw [fd]; simp
    rcases ih (enter s d') hp hf hst1 hk1 hj1 hc1 with hb | hb
    · rw [hb]
      simp only []
      by_cases hmk : (run true body (enter s d')).2.1.marker = some D →
          D ∈ (run true body (enter s d')).2.1.deadlines
      · left
        rw [aexit_lift' D ig d' _ _ hne hmk]
        rfl
      · have hmD : (run true body (enter s d')).2.1.marker = some D := by
          by_cases h : (run true body (enter s d')).2.1.marker = some D
          · exact h
          · exact absurd (fun h' => absurd h' h) hmk
        have hnot : D ∉ (run true body (enter s d')).2.1.deadlines := by
          intro h; exact hmk (fun _ => h)
        by_cases hfam : isCancelFamily (run true body (enter s d')).1 = true
        · -- only a `TaskTimeout` can be in flight with a stale marker; under `D` it is not stale
          right
          have hT : (run true body (enter s d')).1 = some .taskTimeout := by
            generalize (run true body (enter s d')).1 = r at hfam fcx
            cases r with
            | none => simp [isCancelFamily] at hfam
            | some e =>
              cases e with
              | taskTimeout => rfl
              | cancelled =>
                obtain ⟨m, hm, hmem⟩ := fcx (Or.inl rfl)
                rw [hmD] at hm; cases hm; exact absurd hmem hnot
              | tce =>
                obtain ⟨m, hm, hmem⟩ := fcx (Or.inr rfl)
                rw [hmD] at hm; cases hm; exact absurd hmem hnot
              | uncaught => simp [isCancelFamily] at hfam
              | other => simp [isCancelFamily] at hfam
          rw [fd] at hnot
          exact aexit_doomed D ig d' s _ (lift D (run true body (enter s d')).2.1) hfam hmD
            (by show D :: (run true body (enter s d')).2.1.deadlines = _; rw [fd]) hnot fc _
        · left
          have hfam' : isCancelFamily (run true body (enter s d')).1 = false := by simpa using hfam
          rw [aexit_lift_nofam D ig d' _ _ hne hfam']
          rfl
    · right
      obtain ⟨h1, h2, h3, h4, h5⟩ := hb
      rw [hds1] at h3 h4
      have hfam : isCancelFamily (run true body (lift D (enter s d'))).1 = true := by
        rcases h1 with h | h <;> rw [h] <;> rfl
      exact aexit_doomed D ig d' s _ _ hfam h2 h3 h4 h5 _

/-- **Still running at the deadline: interrupted then, and the block reports the timeout.**
For an outermost timeout block (any of the four forms) entered at `t0` with deadline `d`, around
any body that does not itself catch or raise the cancellation family (and has no task group),
with no external cancel: if the body, run on its own from `t0`, would still be running strictly
after `max t0 d` (the deadline, or the entry if the deadline was already past - a body that never
suspends is never interrupted, see `instant_body_unaffected`), then under the block it is
interrupted: the block ends at exactly `max t0 d`, reports `expired`, and raises `TaskTimeout`
(timeout forms) or ends quietly (ignore forms); nothing is left armed.  Strictness is needed: a
body ending at `d` itself - e.g. after handling an inner block with the same deadline - leaves
the outer block unexpired. -/
theorem still_running_times_out (ig rel : Bool) (t t0 : Int) (body : Prog) (hp : NoCatch body)
    (hf : Flat body) :
    let d := if rel then t0 + t else t
    let alone := run true body { now := t0 }
    let under := run true (.block ig rel t body) { now := t0 }
    max t0 d < alone.2.1.now →
    under.1 = (if ig then none else some .taskTimeout) ∧ under.2.1.now = max t0 d ∧
    under.2.2.getLast? = some (Ev.exit d under.1 true (max t0 d)) ∧
    under.2.1.armed = none ∧ under.2.1.deadlines = [] := by
  intro d alone under hlt
  have hst0 : Strong ({ now := t0 } : TS) := by simp [Strong, minL]
  have hk0 : Kk ({ now := t0 } : TS) := by intro m hm; simp at hm
  have hj0 : Jj ({ now := t0 } : TS) := by intro m hm; simp at hm
  have he : enter ({ now := t0 } : TS) d = lift d { now := t0 } := by simp [enter, lift, minL]
  have hTB := run_TB (max t0 d) d body (enter { now := t0 } d) hp hf
    (by simp [Strong, enter, minL]) rfl (by simp [enter]) (by simp [enter]; omega) (by omega)
  have hK := run_K true body (enter { now := t0 } d) (by intro m hm; simp [enter] at hm)
  rcases run_sim d body { now := t0 } hp hf hst0 hk0 hj0 rfl with hs | hs
  · -- lock-step is impossible: the body would run past the deadline
    exfalso
    have hb := hTB.bound
    rw [he, hs] at hb
    have hb' : alone.2.1.now ≤ max t0 d := hb
    omega
  · obtain ⟨hcx, hm, hds, _, hc⟩ := hs
    rw [← he] at hcx hm hds hc
    have hfam : isCancelFamily (run true body (enter { now := t0 } d)).1 = true := by
      rcases hcx with h | h <;> rw [h] <;> rfl
    have hx := aexit_self ig d _ _ hfam hm
    have hnow : (run true body (enter { now := t0 } d)).2.1.now = max t0 d := by
      have h1 := hTB.bound
      have h2 := hTB.mono
      have h3 := hK.1 d hm
      have h4 : (enter ({ now := t0 } : TS) d).now = t0 := rfl
      rw [h4] at h2
      omega
    have hunder : under = (if ig then none else some .taskTimeout,
        (unset (run true body (enter { now := t0 } d)).2.1).2.2,
        (run true body (enter { now := t0 } d)).2.2 ++
          [Ev.exit d (if ig then none else some .taskTimeout) true
            (unset (run true body (enter { now := t0 } d)).2.1).2.2.now]) := by
      simp only [under, run]
      rw [hx]
    have hun : (unset (run true body (enter { now := t0 } d)).2.1).2.2.now = max t0 d := by
      simp only [unset]; exact hnow
    rw [hunder]
    refine ⟨rfl, hun, ?_, ?_, ?_⟩
    · simp [hun]
    · simp only [unset, hds]; rfl
    · simp only [unset, hds]; rfl

/-- non-vacuity, including the strictness boundary: the body alone ends at 5 > 2: interrupted at
2 ... -/
example : (run true (.block false true 2 (.seq (.tryCatch (.block false false 2 (.sleep 100))
      [.taskTimeout] .skip) (.sleep 3))) {}).2.2.getLast? =
    some (Ev.exit 2 (some .taskTimeout) true 2) := by decide
/-- ... and ends at exactly 2 = the deadline: not interrupted, not expired -/
example : (run true (.block false true 2 (.tryCatch (.block false false 2 (.sleep 100))
      [.taskTimeout] .skip)) {}).2.2.getLast? = some (Ev.exit 2 none false 2) := by decide

/-! ## Zero and past deadlines with bodies that never suspend -/

/-- programs that never suspend (no sleep, no group join) -/
def Instant : Prog → Prop
  | .skip => True
  | .sleep _ => False
  | .raise _ => True
  | .seq a b => Instant a ∧ Instant b
  | .block _ _ _ b => Instant b
  | .tryCatch b _ h => Instant b ∧ Instant h
  | .group _ _ _ => False

theorem instant_run (p : Prog) : ∀ (s : TS), Instant p →
    (run true p s).2.1.now = s.now ∧
    ((run true p s).2.1.marker = none ∨ (run true p s).2.1.marker = s.marker) ∧
    ∀ ev ∈ (run true p s).2.2, ∀ dd r x tt, ev = Ev.exit dd r x tt → x = true → s.marker ≠ none := by
  induction p with
  | skip => intro s _; simp [run]
  | sleep d => intro s h; exact absurd h id
  | raise e => intro s _; simp [run]
  | group anyp ms b _ => intro s h; exact absurd h id
  | seq a b iha ihb =>
    intro s h
    have ha := iha s h.1
    simp only [run]
    split
    · exact ha
    · have hb := ihb (run true a s).2.1 h.2
      refine ⟨by rw [hb.1, ha.1], ?_, ?_⟩
      · rcases hb.2.1 with h1 | h1
        · exact Or.inl h1
        · rcases ha.2.1 with h2 | h2
          · exact Or.inl (by rw [h1, h2])
          · exact Or.inr (by rw [h1, h2])
      · intro ev hev dd r x tt he hx
        rcases List.mem_append.1 hev with h1 | h1
        · exact ha.2.2 ev h1 dd r x tt he hx
        · have := hb.2.2 ev h1 dd r x tt he hx
          rcases ha.2.1 with h2 | h2
          · exact absurd h2 this
          · rw [h2] at this; exact this
  | tryCatch b cs hd ihb ihh =>
    intro s h
    have hb := ihb s h.1
    simp only [run]
    split
    · split
      · have hh := ihh (run true b s).2.1 h.2
        refine ⟨by rw [hh.1, hb.1], ?_, ?_⟩
        · rcases hh.2.1 with h1 | h1
          · exact Or.inl h1
          · rcases hb.2.1 with h2 | h2
            · exact Or.inl (by rw [h1, h2])
            · exact Or.inr (by rw [h1, h2])
        · intro ev hev dd r x tt he hx
          rcases List.mem_append.1 hev with h1 | h1
          · exact hb.2.2 ev h1 dd r x tt he hx
          · have := hh.2.2 ev h1 dd r x tt he hx
            rcases hb.2.1 with h2 | h2
            · exact absurd h2 this
            · rw [h2] at this; exact this
      · exact hb
    · exact hb
  | block ig rel t body ih =>
    intro s h
    simp only [run]
    have hb := ih (enter s (if rel then s.now + t else t)) h
    have hm0 : (enter s (if rel then s.now + t else t)).marker = none := rfl
    have hmn : (run true body (enter s (if rel then s.now + t else t))).2.1.marker = none := by
      rcases hb.2.1 with h1 | h1
      · exact h1
      · rw [h1, hm0]
    have hx := aexit_none ig (if rel then s.now + t else t) _
      (run true body (enter s (if rel then s.now + t else t))).1 hmn
    rw [hx]
    refine ⟨?_, Or.inl (by simpa [unset] using hmn), ?_⟩
    · simp only [unset]; rw [hb.1]; rfl
    · intro ev hev dd r x tt he hxx
      rcases List.mem_append.1 hev with h1 | h1
      · exact absurd hm0 (hb.2.2 ev h1 dd r x tt he hxx)
      · simp only [List.mem_singleton] at h1
        rw [h1] at he
        cases he
        cases hxx

/-- **A body that never suspends is never interrupted, whatever the deadline** - zero and
already-past deadlines included: no time passes, no block (this one or any inside) reports
expiry, the body's own outcome passes through the block unchanged, nothing is left armed. -/
theorem instant_body_unaffected (ig rel : Bool) (t t0 : Int) (body : Prog) (hi : Instant body) :
    let d := if rel then t0 + t else t
    let under := run true (.block ig rel t body) { now := t0 }
    under.2.1.now = t0 ∧
    under.1 = (run true body (enter { now := t0 } d)).1 ∧
    (∀ ev ∈ under.2.2, ∀ dd r x tt, ev = Ev.exit dd r x tt → x = false) ∧
    under.2.1.armed = none ∧ under.2.1.deadlines = [] := by
  intro d under
  have hrun := instant_run (.block ig rel t body) { now := t0 } hi
  have hbody := instant_run body (enter { now := t0 } d) hi
  have hnla := nothing_left_armed true (.block ig rel t body) t0 none
  have hmn : (run true body (enter { now := t0 } d)).2.1.marker = none := by
    rcases hbody.2.1 with h1 | h1
    · exact h1
    · rw [h1]; rfl
  refine ⟨hrun.1, ?_, ?_, hnla.2, hnla.1⟩
  · simp only [under, run]
    rw [aexit_none ig d _ _ hmn]
  · intro ev hev dd r x tt he
    cases hx : x with
    | false => rfl
    | true =>
      exact absurd rfl (hrun.2.2 ev hev dd r x tt he hx)

/-- non-vacuity: a zero and a past deadline around non-suspending bodies -/
example : (run true (.block false true 0 (.raise .other)) { now := 7 }).1 = some .other ∧
    (run true (.block true false (-5) (.block false true 0 .skip)) { now := 7 }).2.2 =
      [.exit 7 none false 7, .exit (-5) none false 7] := by decide

end Aiorpcx.C11
