import Aiorpcx.C12.Aexit
/-!
# C11 — no cancellation caused by a deadline escapes its block

For every program that does not itself raise `CancelledError` / `TimeoutCancellationError`
(handlers for them, task groups and interrupted group clean-ups are all allowed) and without an
external `cancel()`: whenever a cancellation is in flight it is attributed to a deadline that is
still on the stack, i.e. to an enclosing block that has not exited - so nothing of the kind ever
comes out of the outermost block.  Together with `nothing_left_armed` this is the model-level
reading of "no cancellation caused by that deadline is ever delivered once the block has exited",
and it is what the harness's clause O6 (`c11:late-cancel`) checks on the real code.
-/
namespace Aiorpcx.C11

/-- programs that never raise the cancellation family by hand -/
def NoRaiseCX : Prog → Prop
  | .skip => True
  | .sleep _ => True
  | .raise e => e ≠ .cancelled ∧ e ≠ .tce
  | .seq a b => NoRaiseCX a ∧ NoRaiseCX b
  | .block _ _ _ b => NoRaiseCX b
  | .tryCatch b _ h => NoRaiseCX b ∧ NoRaiseCX h
  | .group _ _ b => NoRaiseCX b

def IsCX (r : Res) : Prop := r = some .cancelled ∨ r = some .tce

/-- what a suspension without external cancel can do -/
theorem doSleep_attr (s : TS) (d : Nat) (hI : Inv s) (hc : s.cancelAt = none) :
    (doSleep s d).2.cancelAt = none ∧ (IsCX (doSleep s d).1 → Active (doSleep s d).2) := by
  unfold doSleep
  rw [hc]
  cases ha : s.armed with
  | none => simp [wakeUp, hc, IsCX]
  | some a =>
    simp only []
    have hmem : a ∈ s.deadlines := by
      rcases hI with h0 | h0
      · rw [ha] at h0; simp at h0
      · rw [ha] at h0; exact minL_mem _ _ h0.symm
    split
    · exact ⟨hc, fun _ => ⟨a, rfl, hmem⟩⟩
    · simp [wakeUp, hc, IsCX]

/-- a suspension that is not interrupted changes neither the marker nor the timer -/
theorem doSleep_none_marker (s : TS) (d : Nat) (h : (doSleep s d).1 = none) :
    (doSleep s d).2.marker = s.marker := by
  unfold doSleep at h ⊢
  cases ha : s.armed <;> cases hc : s.cancelAt <;> simp only [ha, hc] at h ⊢
  · rfl
  · split at h
    · simp [cancelFire] at h
    · rename_i hif; simp only [hif, ↓reduceIte]; rfl
  · split at h
    · simp [timerFire] at h
    · rename_i hif; simp only [hif, ↓reduceIte]; rfl
  · split at h
    · rename_i h1
      split at h
      · simp [timerFire] at h
      · rename_i h2; simp only [h1, h2, ↓reduceIte]; rfl
    · rename_i h1
      split at h
      · simp [cancelFire] at h
      · rename_i h2; simp only [h1, h2, ↓reduceIte]; rfl

/-- the invariant carried through a run -/
structure Attr (s s' : TS) (r : Res) : Prop where
  deadlines : s'.deadlines = s.deadlines
  inv : Inv s'
  noCancel : s'.cancelAt = none
  attr : IsCX r → Active s'

theorem sweep_attr (R : List (Nat × Nat)) (r : Res) (s0 s : TS) (h : Attr s0 s r) :
    Attr s0 (sweep R r s).2.1 (sweep R r s).1 := by
  unfold sweep
  split
  · exact h
  · have hd := doSleep_deadlines s (maxNat (R.map (·.2)))
    have hi := doSleep_inv s (maxNat (R.map (·.2))) h.inv
    have ha := doSleep_attr s (maxNat (R.map (·.2))) h.inv h.noCancel
    split <;> rename_i heq <;> rw [heq] at hd hi ha <;> simp only [] at hd hi ha ⊢
    · refine ⟨by rw [hd, h.deadlines], hi, ha.1, ?_⟩
      intro hcx
      obtain ⟨m, hm, hmem⟩ := h.attr hcx
      -- an uninterrupted suspension changes neither marker nor stack
      have : (doSleep s (maxNat (R.map (·.2)))).2.marker = s.marker :=
        doSleep_none_marker s _ (by rw [heq])
      rw [heq] at this
      exact ⟨m, by rw [this, hm], by rw [hd]; exact hmem⟩
    · exact ⟨by rw [hd, h.deadlines], hi, ha.1, ha.2⟩

theorem gexit_attr (anyp : Bool) (T : Int) (ms : List (Nat × Nat)) (r : Res) (s0 s : TS)
    (h : Attr s0 s r) : Attr s0 (gexit anyp T ms r s).2.1 (gexit anyp T ms r s).1 := by
  unfold gexit
  split
  · exact sweep_attr _ _ s0 s h
  · split
    · exact h
    · split
      · exact sweep_attr _ _ s0 s h
      · generalize (T + (if anyp then minNat (ms.map (·.1)) else maxNat (ms.map (·.1))) - s.now).toNat = dj
        have hd := doSleep_deadlines s dj
        have hi := doSleep_inv s dj h.inv
        have ha := doSleep_attr s dj h.inv h.noCancel
        split <;> rename_i heq <;> rw [heq] at hd hi ha <;> simp only [] at hd hi ha
        · have hn : Attr s0 _ none := ⟨by rw [hd, h.deadlines], hi, ha.1, fun hcx => by simp [IsCX] at hcx⟩
          split
          · exact sweep_attr _ _ s0 _ hn
          · exact hn
        · exact sweep_attr _ _ s0 _ ⟨by rw [hd, h.deadlines], hi, ha.1, ha.2⟩

theorem aexit_cancelAt (fixed ig : Bool) (self : Int) (r : Res) (s : TS) :
    (aexit fixed ig self r s).2.2.cancelAt = s.cancelAt := by
  unfold aexit unset
  simp only
  repeat' split
  all_goals rfl

theorem aexit_marker (fixed ig : Bool) (self : Int) (r : Res) (s : TS) :
    (aexit fixed ig self r s).2.2.marker = s.marker := by
  unfold aexit unset
  simp only
  repeat' split
  all_goals rfl

/-- leaving a block: a cancellation in flight either is this block's own (it becomes
`TaskTimeout` / a quiet end) or stays attributed to a deadline further out -/
theorem aexit_attr (ig : Bool) (d : Int) (s s1 : TS) (r : Res)
    (hds : s1.deadlines = s.deadlines ++ [d]) (hattr : IsCX r → Active s1) :
    IsCX (aexit true ig d r s1).1 → Active (aexit true ig d r s1).2.2 := by
  intro hcx
  have hmk := aexit_marker true ig d r s1
  have hdl : (aexit true ig d r s1).2.2.deadlines = s.deadlines := by
    rw [aexit_deadlines, hds]; simp
  have active_of : ∀ m, s1.marker = some m → m ≠ d → m ∈ s1.deadlines →
      Active (aexit true ig d r s1).2.2 := by
    intro m hm hmd hmem
    refine ⟨m, by rw [hmk, hm], ?_⟩
    rw [hdl]; rw [hds] at hmem; exact mem_of_mem_append_single hmem hmd
  by_cases hf : isCancelFamily r = true
  · cases hm : s1.marker with
    | none =>
      rw [aexit_none _ _ _ _ hm] at hcx
      obtain ⟨m, hm', _⟩ := hattr hcx
      rw [hm] at hm'; cases hm'
    | some m =>
      by_cases hmd : m = d
      · subst hmd
        rw [aexit_self _ _ _ _ hf hm] at hcx
        cases ig <;> simp [IsCX] at hcx
      · by_cases hmem : m ∈ s1.deadlines
        · exact active_of m hm hmd hmem
        · rw [aexit_stale _ _ _ _ _ hf hm hmd hmem] at hcx
          have hr : IsCX r := by
            simp only [] at hcx
            split at hcx
            · simp [IsCX] at hcx
            · exact hcx
          obtain ⟨m', hm', hmem'⟩ := hattr hr
          rw [hm] at hm'; cases hm'; exact absurd hmem' hmem
  · have hf' : isCancelFamily r = false := by simpa using hf
    rw [aexit_nofam _ _ _ _ hf'] at hcx
    rcases hcx with h | h
    · have h' : r = some .cancelled := h
      rw [h'] at hf'; simp [isCancelFamily] at hf'
    · have h' : r = some .tce := h
      rw [h'] at hf'; simp [isCancelFamily] at hf'

theorem run_attr (p : Prog) : ∀ (s : TS), NoRaiseCX p → Inv s → s.cancelAt = none →
    Attr s (run true p s).2.1 (run true p s).1 := by
  induction p with
  | skip => intro s _ hI hc; exact ⟨rfl, hI, hc, fun h => by simp [run, IsCX] at h⟩
  | sleep d =>
    intro s _ hI hc
    simp only [run]
    exact ⟨doSleep_deadlines s d, doSleep_inv s d hI, (doSleep_attr s d hI hc).1,
           (doSleep_attr s d hI hc).2⟩
  | raise e =>
    intro s hp hI hc
    refine ⟨rfl, hI, hc, fun h => ?_⟩
    simp only [run, IsCX] at h
    rcases h with h | h <;> cases h
    · exact absurd rfl hp.1
    · exact absurd rfl hp.2
  | seq a b iha ihb =>
    intro s hp hI hc
    have ha := iha s hp.1 hI hc
    simp only [run]
    split
    · rename_i e he; rw [he] at ha; simpa [he] using ha
    · have hb := ihb (run true a s).2.1 hp.2 ha.inv ha.noCancel
      exact ⟨by rw [hb.deadlines, ha.deadlines], hb.inv, hb.noCancel, hb.attr⟩
  | tryCatch b cs hd ihb ihh =>
    intro s hp hI hc
    have hb := ihb s hp.1 hI hc
    simp only [run]
    split
    · rename_i e he
      split
      · have hh := ihh (run true b s).2.1 hp.2 hb.inv hb.noCancel
        exact ⟨by rw [hh.deadlines, hb.deadlines], hh.inv, hh.noCancel, hh.attr⟩
      · rw [he] at hb; simpa [he] using hb
    · rename_i he; rw [he] at hb; simpa [he] using hb
  | block ig rel t body ih =>
    intro s hp hI hc
    simp only [run]
    have hbody := ih (enter s (if rel then s.now + t else t)) hp (enter_inv _ _ hI)
      (by simpa [enter] using hc)
    have hds : (run true body (enter s (if rel then s.now + t else t))).2.1.deadlines =
        s.deadlines ++ [if rel then s.now + t else t] := by rw [hbody.deadlines]; simp [enter]
    refine ⟨?_, aexit_inv _ _ _ _ _, ?_, aexit_attr ig _ s _ _ hds hbody.attr⟩
    · rw [aexit_deadlines, hds]; simp
    · rw [aexit_cancelAt]; exact hbody.noCancel
  | group anyp ms body ih =>
    intro s hp hI hc
    simp only [run]
    exact gexit_attr anyp s.now ms _ s _ (ih s hp hI hc)

/-- **No cancellation escapes the blocks.**  A program that raises no cancellation of its own,
run as a task that nobody cancels from outside, never ends with `CancelledError` or
`TimeoutCancellationError` - whatever it catches, with or without task groups.  (Every
cancellation in flight belongs to a deadline still on the stack; at top level the stack is
empty.) -/
theorem no_stray_cancellation (p : Prog) (hp : NoRaiseCX p) (now : Int) :
    (run true p { now := now }).1 ≠ some .cancelled ∧ (run true p { now := now }).1 ≠ some .tce := by
  have h := run_attr p { now := now } hp (Or.inl rfl) rfl
  have hno : ¬ IsCX (run true p { now := now }).1 := by
    intro hcx
    obtain ⟨m, _, hmem⟩ := h.attr hcx
    rw [h.deadlines] at hmem
    simp at hmem
  exact ⟨fun h1 => hno (Or.inl h1), fun h2 => hno (Or.inr h2)⟩

/-- non-vacuity: a program that swallows a deadline's cancellation, goes on, and is interrupted
again by the re-armed past deadline - still nothing escapes -/
example : (run true (.block false true 10 (.seq
      (.tryCatch (.sleep 100) [.cancelled] (.block false true 2 .skip))
      (.group false [(50, 8)] (.sleep 100)))) {}).1 = some .taskTimeout := by decide

end Aiorpcx.C11
