import Aiorpcx.C11.NotEarly
import Aiorpcx.Facts.C11
/-!
# C11 — property theorems for `timeout_after` / `timeout_at` / `ignore_after` / `ignore_at`

Model (`Model.lean`): programs `Prog` (sleep / seq / try-except / raise / timeout block in the
relative, absolute, raising and ignoring forms) run by the big-step semantics `run fixed p s` over
integer virtual time; the task state `TS` carries exactly what `curio.py` keeps on the task:
the deadline stack (`task._deadlines`), the one live loop timer (`task._deadline_handle`,
`armed`), the marker `task._timed_out`, plus a pending external `cancel()` (C12).
`fixed = true` is the code as repaired for F13 (the current tree); `fixed = false` the pinned
`__aexit__`, kept only for the counter-witness in C12.

All theorems are for every program, every start state satisfying the stated invariant, every
external-cancel instant; no bound on depth or time.
-/
namespace Aiorpcx.C11

/-! ## The model behaves as the code does (generated scenario table)

`Aiorpcx.Facts.C11.scenarios` is regenerated on every run by executing the real
`timeout_after` / `timeout_at` / `ignore_after` / `ignore_at` blocks (public API only) on a grid
of small programs: every (exception kind leaving the body x ignore x which deadline fired) in two
stack shapes, block entry below / at / above the armed deadline, marker reset on entry, relative
forms with zero and past deadlines.  The theorem evaluates the model on the same programs. -/

def codeOfRes : Res → Nat
  | none => 0 | some .cancelled => 1 | some .taskTimeout => 2 | some .tce => 3
  | some .uncaught => 4 | some .other => 5

/-- the enclosing `timeout_at` blocks of a scenario, wrapped around its program -/
def wrapPrefix (pre : List Int) (p : Prog) : Prog :=
  pre.foldr (fun d q => .block false false d q) p

/-- what the model predicts for one scenario, in the format of the generated table -/
def modelObs (pre : List Int) (p : Prog) :
    Nat × Int × List (Int × Nat × Bool × Int) × List Int × Bool :=
  let s0 := pre.foldl enter ({ now := 0 } : TS)
  let r := run true p s0
  (codeOfRes r.1, r.2.1.now,
   r.2.2.map (fun e => match e with
     | .exit d res x t => (d, codeOfRes res, x, t)
     | .gexit res left t => (t, 100 + codeOfRes res, left != 0, t)),
   r.2.1.armed.toList,
   (run true (wrapPrefix pre p) { now := 0 }).2.1.armed.isSome)

/-- **tie to the source**: on every scenario of the grid the real blocks did exactly what the
model says - result, time, every block's exit (exception kind, `expired`, time), the timers still
pending afterwards, nothing left at the end.  Regenerated from /repo on every run; a behavioural
change of `__aenter__` / `__aexit__` / the deadline bookkeeping changes a row and this theorem no
longer checks, a rewrite that preserves behaviour cannot. -/
theorem facts_scenarios :
    Facts.C11.scenarios.all (fun row => modelObs row.1 row.2.1 == row.2.2) = true := by
  decide +kernel

/-- the table is not trivial: it has rows, and rows in which a deadline fired -/
example : Facts.C11.scenarios.length ≥ 100 ∧
    (Facts.C11.scenarios.filter (fun row => row.2.2.2.2.1.any (fun e => e.2.2.1))).length ≥ 40 := by
  decide +kernel

/-- the exception hierarchy the model's `isCancelFamily` relies on -/
theorem facts_hierarchy : Facts.C11.tceIsCancelled = true ∧
    Facts.C11.taskTimeoutIsCancelled = false ∧ Facts.C11.uncaughtIsCancelled = false := by decide

/-! ## Nothing is left armed

`stack_discipline` and `nothing_left_armed` are proved in `Stack.lean`: every program, on every
exit path (normal, exception, timeout, external cancellation), restores the deadline stack and
leaves the single loop timer either unarmed or set for the least *remaining* deadline; from a
task with no active block nothing at all is left.  Hence no cancellation caused by a deadline can
be delivered after its block has exited. -/

/-! ## Interruption happens at the deadline, not earlier -/

/-- **A sleep cannot run past an armed deadline.**  If a timer is armed for `a`, a suspension
that would last beyond `a` ends exactly at `a` (or at once if `a` is already past) with a
cancellation attributed to `a` — unless an external cancel request comes strictly first. -/
theorem interrupted_at_deadline (s : TS) (d : Nat) (a : Int) (ha : s.armed = some a)
    (hc : ∀ c, s.cancelAt = some c → clampT s.now a ≤ clampT s.now c)
    (hlong : clampT s.now a ≤ s.now + d) :
    doSleep s d = (some .cancelled,
      { s with now := clampT s.now a, armed := none, marker := some a }) := by
  unfold doSleep
  cases hcc : s.cancelAt with
  | none => rw [ha]; simp [hlong, timerFire, hcc]
  | some c => have := hc c hcc; rw [ha]; simp [this, hlong, timerFire, hcc]

set_option linter.unusedSimpArgs false in
/-- ... and a sleep that ends before the armed deadline (and before any cancel) is untouched. -/
theorem early_sleep_unaffected (s : TS) (d : Nat)
    (ha : ∀ a, s.armed = some a → s.now + d < clampT s.now a)
    (hc : ∀ c, s.cancelAt = some c → s.now + d < clampT s.now c) :
    doSleep s d = (none, { s with now := s.now + d }) := by
  unfold doSleep
  cases h1 : s.armed with
  | none =>
    cases h2 : s.cancelAt with
    | none => simp [wakeUp, h1, h2]
    | some c =>
      have := hc c h2
      have h5 : ¬ clampT s.now c ≤ s.now + ↑d := by omega
      simp [wakeUp, h5, h1, h2]
  | some a =>
    have h3 := ha a h1
    have h6 : ¬ clampT s.now a ≤ s.now + ↑d := by omega
    cases h2 : s.cancelAt with
    | none => simp [wakeUp, h6, h1, h2]
    | some c =>
      have h4 := hc c h2
      have h5 : ¬ clampT s.now c ≤ s.now + ↑d := by omega
      simp only []
      split <;> simp [wakeUp, h5, h6, h1, h2]

/-- **not earlier, and reported as TaskTimeout / quietly**: in every run from a task whose marker
is clean, every block that reports `expired` exited no earlier than its deadline, raising
`TaskTimeout` (timeout forms) or nothing (ignore forms). -/
theorem expired_not_early (fixed : Bool) (p : Prog) (now : Int) (c : Option Int) :
    ∀ ev ∈ (run fixed p { now := now, cancelAt := c }).2.2, ExitOK ev :=
  (run_K fixed p { now := now, cancelAt := c } (by intro m hm; simp at hm)).2.2

/-! ## Attribution with nested blocks (decision facts of `__aexit__`) -/

/-- the block whose deadline fired reports it: `TaskTimeout` + `expired` (or quiet for ignore) -/
theorem attribution_self (ig : Bool) (d : Int) (s : TS) (r : Res)
    (hf : isCancelFamily r = true) (hm : s.marker = some d) :
    (aexit true ig d r s).1 = (if ig then none else some .taskTimeout) ∧
    (aexit true ig d r s).2.1 = true := by
  simp [aexit, unset, hm, hf]

/-- a block *inside* the one whose deadline fired sees `TimeoutCancellationError` and does not
report expiry -/
theorem attribution_inner (ig : Bool) (d m : Int) (s : TS) (r : Res)
    (hf : isCancelFamily r = true) (hm : s.marker = some m) (hmd : m ≠ d)
    (hmem : m ∈ s.deadlines) :
    (aexit true ig d r s).1 = some .tce ∧ (aexit true ig d r s).2.1 = false := by
  cases r with
  | none => simp [isCancelFamily] at hf
  | some e => cases e <;> simp [aexit, unset, hm, hmd, hmem, isCancelFamily] at hf ⊢

/-- an inner `TaskTimeout` nobody handled surfaces as `UncaughtTimeoutError` in the enclosing
block (the marker is that inner block's deadline, no longer on the stack) -/
theorem uncaught_inner (ig : Bool) (d m : Int) (s : TS)
    (hm : s.marker = some m) (hmd : m ≠ d) (hmem : m ∉ s.deadlines) :
    (aexit true ig d (some .taskTimeout) s).1 = some .uncaught ∧
    (aexit true ig d (some .taskTimeout) s).2.1 = false := by
  simp [aexit, unset, hm, hmd, hmem, isCancelFamily]

/-- anything that is not a cancellation-family exception (normal completion included) passes
through a block exit untouched, never marked expired -/
theorem other_results_untouched (fixed ig : Bool) (d : Int) (s : TS) (r : Res)
    (hf : isCancelFamily r = false) :
    (aexit fixed ig d r s).1 = r ∧ (aexit fixed ig d r s).2.1 = false := by
  simp [aexit, unset, hf]

/-- the relative forms (`timeout_after`, `ignore_after`) are the absolute forms
(`timeout_at`, `ignore_at`) with the deadline counted from the clock at entry -/
theorem absolute_relative_agree (fixed ig : Bool) (t : Int) (body : Prog) (s : TS) :
    run fixed (.block ig true t body) s = run fixed (.block ig false (s.now + t) body) s := by
  simp [run]

/-! ## Worked instances (non-vacuity; also regression anchors) -/

/-- inner shorter: inner reports, outer unaffected, nothing armed -/
example : (run true (.block false true 10 (.seq
      (.tryCatch (.block false true 2 (.sleep 100)) [.taskTimeout] .skip) (.sleep 3))) {}).1 = none
    ∧ (run true (.block false true 10 (.seq
      (.tryCatch (.block false true 2 (.sleep 100)) [.taskTimeout] .skip) (.sleep 3))) {}).2.1.now = 5 := by
  decide
/-- outer shorter: outer reports TaskTimeout at 2, inner saw TCE and is not expired -/
example : (run true (.block false true 2 (.block false true 10 (.sleep 100))) {}).1 = some .taskTimeout
    ∧ (run true (.block false true 2 (.block false true 10 (.sleep 100))) {}).2.2 =
      [.exit 10 (some .tce) false 2, .exit 2 (some .taskTimeout) true 2] := by decide
/-- uncaught inner timeout -/
example : (run true (.block false true 10 (.block false true 2 (.sleep 100))) {}).1 = some .uncaught := by
  decide
/-- ignore form ends quietly with expired -/
example : (run true (.block true true 2 (.sleep 100)) {}).2.2 = [.exit 2 none true 2] := by decide

end Aiorpcx.C11
